#!/bin/sh
# MANIFEST.setup_cmd: build the framework from files on disk only (offline).
set -e
cd "$(dirname "$0")/.."
export GOFLAGS=-mod=mod GOPROXY=off GOSUMDB=off GOTOOLCHAIN=local
sh stubs/build.sh
python3 bin/genmain.py
python3 bin/genmain.py
(cd extract && go build -o bin/lvextract .)
mkdir -p lean/LinkVerif/Gen run evidence replays
./extract/bin/lvextract -repo "${VERIF_REPO:-/repo}" -out lean/LinkVerif/Gen
(cd lean && lake build)
cp "${VERIF_REPO:-/repo}/go.sum" harness/go.sum
# harness/go.mod is tracked, and bin/check re-points its replace line at VERIF_REPO on every run: never trust the path it was
# left with (a run against a scratch worktree leaves that worktree's path behind) -- point it at the tree under check first.
(cd harness && go mod edit -replace "github.com/lianxiangcloud/linkchain=${VERIF_REPO:-/repo}")
(cd harness && CGO_LDFLAGS=-L"$(pwd)/../stubs/lib" go build -tags verif -o bin/lvharness ./cmd/lvharness)
echo setup-ok
