#!/bin/sh
# MANIFEST.setup_cmd: build the framework from files on disk only (offline).
set -e
cd "$(dirname "$0")/.."
export GOFLAGS=-mod=mod GOPROXY=off GOSUMDB=off GOTOOLCHAIN=local
sh stubs/build.sh
python3 bin/genmain.py
python3 bin/genmain.py
(cd extract && go build -o bin/lvextract .)
mkdir -p lean/LinkVerif/Gen run evidence replays
./extract/bin/lvextract -repo "${VERIF_REPO:-/repo}" -out lean/LinkVerif/Gen
(cd lean && lake build)
cp "${VERIF_REPO:-/repo}/go.sum" harness/go.sum
(cd harness && CGO_LDFLAGS=-L"$(pwd)/../stubs/lib" go build -tags verif -o bin/lvharness ./cmd/lvharness)
echo setup-ok
