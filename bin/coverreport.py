#!/usr/bin/env python3
"""Per-property statement coverage of the ANCHOR files (properties.jsonl, anchors.files) reached by a check's quick tier:
never-entered and partly covered functions.  usage: bin/coverreport.py <dir with Cxx.txt profiles> <Cxx> [v]
(profiles are produced by bin/cover.sh; DESIGN.md section 10.8 explains what the figures are for)."""
import json,sys,re,collections,os
DIR = sys.argv[1] if len(sys.argv) > 2 else '/tmp/cov'
props={}
for l in open(os.path.join(os.path.dirname(os.path.dirname(os.path.abspath(__file__))),'properties.jsonl')):
    d=json.loads(l); props[d['id']]=d
MOD='github.com/lianxiangcloud/linkchain/'
def load(c):
    cov=collections.defaultdict(list) # file -> [(sl,sc,el,ec,n,count)]
    for l in open(f'{DIR}/{c}.txt'):
        if l.startswith('mode'): continue
        m=re.match(r'(.+):(\d+)\.(\d+),(\d+)\.(\d+) (\d+) (\d+)',l)
        f=m.group(1)
        if not f.startswith(MOD): continue
        cov[f[len(MOD):]].append(tuple(int(x) for x in m.groups()[1:]))
    return cov
def funcs(path):
    # crude: map line -> func name by scanning "func " lines at col 0
    res=[]
    try: lines=open('/repo/'+path).read().split('\n')
    except: return res
    cur=None
    for i,l in enumerate(lines,1):
        if l.startswith('func '):
            m=re.match(r'func (\([^)]*\) )?([A-Za-z0-9_]+)',l)
            cur=(m.group(2) if m else l[:40], i)
            res.append(cur)
    return res
def fn_at(fl,line):
    name=None
    for n,i in fl:
        if i<=line: name=n
        else: break
    return name
if __name__=='__main__':
    c=sys.argv[2] if len(sys.argv) > 2 else sys.argv[1]
    cov=load(c)
    files=props[c]['anchors']['files']
    for f in files:
        blocks=cov.get(f)
        if not blocks: print(f'  {f}: NOT INSTRUMENTED/absent'); continue
        tot=sum(b[4] for b in blocks); hit=sum(b[4] for b in blocks if b[5]>0)
        fl=funcs(f)
        per=collections.defaultdict(lambda:[0,0])
        for b in blocks:
            n=fn_at(fl,b[0]); per[n][0]+=b[4]; per[n][1]+= b[4] if b[5]>0 else 0
        unc=[(n,t,h) for n,(t,h) in per.items() if h<t]
        unc.sort(key=lambda x:-(x[1]-x[2]))
        print(f'  {f}: {hit}/{tot} stmts ({100*hit//max(tot,1)}%)')
        zero=[n for n,t,h in unc if h==0]
        part=[f'{n}({h}/{t})' for n,t,h in unc if h>0]
        if len(sys.argv)>3:
            print('     never entered:', ', '.join(zero[:60]))
            print('     partial:', ', '.join(part[:60]))
