# Per-property configuration of bin/check.
COMMON_TRUST = [
    "Lean 4.33.0 kernel (thorough tier: leanchecker re-check); axioms allowed: propext, Classical.choice, Quot.sound (audited per theorem each run)",
    "/verif/extract (go/ast translator + fact extractor) and /verif/harness (generators, canonicalisation), bin/check",
    "stub libxcrypto (RingCT proof systems are an ideal functionality; group arithmetic is libsodium's)",
]

PROPS = {
    "C17": {
        "props_modules": ["LinkVerif.Props.C17Clip", "LinkVerif.Props.C17"],
        "model_modules": ["LinkVerif.Model.ValSet"],
        "gen_modules": ["ValSetArith"],
        "driver": "C17",
        "harness": "C17",
        "level": "proof",
        "trusted_base": COMMON_TRUST + [
            "T1: safeAdd/safeSub/safeMul and the three *Clip functions are translated from types/validator_set.go on every run; the theorems are about that translation",
            "hand-written model Model.ValSet (IncrementAccum, NewValidatorSet, Add/Update/Remove, TotalVotingPower) tied by differential runs against types.ValidatorSet",
        ],
        "assumptions": [
            "validator addresses are distinct and of fixed length (20 bytes), so bytes.Compare is numeric comparison",
            "cmn.Heap returns the maximum under accumComparable (container/heap); modelled as argmax",
            "Validator.Hash covers (address, pubkey, coinbase, power); in the harness pubkey/coinbase are functions of the address",
        ],
        "open_statements": ["C17_path_statement (false of the current tree: known finding bulk-increment-path-dependence; counterexample kernel-checked)",
                            "proportional (frequency bound) is checked by the run(n) monitor on the implementation, not yet a theorem"],
    },
}
