# Per-property configuration of bin/check: one JSON file per property under /verif/checks.
import json, os, glob

COMMON_TRUST = [
    "Lean 4.33.0 kernel (thorough tier: leanchecker re-check); axioms allowed: propext, Classical.choice, Quot.sound (audited per theorem each run)",
    "/verif/extract (go/ast translator + fact extractor) and /verif/harness (generators, canonicalisation), bin/check",
    "stub libxcrypto (RingCT proof systems are an ideal functionality; group arithmetic is libsodium's)",
]

PROPS = {}
_d = os.path.join(os.path.dirname(os.path.dirname(os.path.abspath(__file__))), "checks")
for _f in sorted(glob.glob(os.path.join(_d, "C*.json"))):
    _c = json.load(open(_f))
    _c["trusted_base"] = COMMON_TRUST + _c.get("trusted_base", [])
    PROPS[os.path.basename(_f)[:-5]] = _c
