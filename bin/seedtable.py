#!/usr/bin/env python3
"""Render seeded/RESULTS.json + seeded/*/meta.json as the markdown table of DESIGN.md section 10.5."""
import json, os, glob
V = os.path.dirname(os.path.dirname(os.path.abspath(__file__)))
res = json.load(open(os.path.join(V, "seeded", "RESULTS.json")))
rows = []
for d in sorted(glob.glob(os.path.join(V, "seeded", "*", ""))):
    name = os.path.basename(d.rstrip("/"))
    meta = json.load(open(os.path.join(d, "meta.json")))
    r = res.get(name, {"status": "not-run"})
    cb = r.get("caught_by", {})
    how = ""
    if r["status"] == "caught":
        cls = [c for c in cb.get("classes", [])]
        how = "`bin/check %s` (%s): %s" % (cb.get("check"), cb.get("tier"), ", ".join(cls)[:160] or cb.get("how", ""))
    elif r["status"] == "equivalent-after-fix":
        how = "no longer breaks the property on the repaired tree: " + r.get("note", "")[:260]
    elif r["status"] == "patch-does-not-apply":
        how = "patch no longer applies to the current tree"
    summ = (meta.get("summary") or "").replace("|", "/").replace("\n", " ")
    if len(summ) > 170: summ = summ[:167] + "..."
    rows.append("| `%s` | %s | %s | %s |" % (name, summ, r["status"], how))
print("| seeded defect | change | result | caught by |\n|---|---|---|---|")
print("\n".join(rows))
c = sum(1 for r in res.values() if r["status"] == "caught"); m = sum(1 for r in res.values() if r["status"] == "missed")
print("\n%d caught, %d missed, %d other of %d run." % (c, m, len(res) - c - m, len(res)))
