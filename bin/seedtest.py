#!/usr/bin/env python3
"""Run the checks against the seeded defects kept under /verif/seeded/<id>/ (patch.diff + meta.json).
Each patch is applied to /repo's working tree, the property's check is run (quick, then thorough if quick stays green),
and the tree is restored straight afterwards (git checkout -- .).  Results go to seeded/RESULTS.json.
usage: bin/seedtest.py [--only substr] [--tier quick|both]"""
import json, os, subprocess, sys, glob, time

VERIF = os.path.dirname(os.path.dirname(os.path.abspath(__file__)))
REPO = os.environ.get("VERIF_REPO", "/repo")

def sh(cmd, **kw):
    p = subprocess.run(cmd, stdout=subprocess.PIPE, stderr=subprocess.STDOUT, text=True, **kw)
    return p.returncode, p.stdout

def main():
    only = None
    tier = "both"
    missing = False
    props = None
    args = sys.argv[1:]
    while args:
        a = args.pop(0)
        if a == "--only": only = args.pop(0)
        if a == "--tier": tier = args.pop(0)
        if a == "--missing": missing = True
        if a == "--props": props = args.pop(0).split(",")
    resf = os.path.join(VERIF, "seeded", "RESULTS.json")
    results = json.load(open(resf)) if os.path.exists(resf) else {}
    rc, out = sh(["git", "-C", REPO, "status", "--porcelain"])
    if out.strip():
        print("refusing: /repo working tree is not clean"); sys.exit(2)
    for d in sorted(glob.glob(os.path.join(VERIF, "seeded", "*", ""))):
        name = os.path.basename(d.rstrip("/"))
        if only and only not in name: continue
        if props and name.split("-")[0] not in props: continue
        if missing and results.get(name, {}).get("status") == "caught": continue
        patch = os.path.join(d, "patch.diff")
        meta = json.load(open(os.path.join(d, "meta.json")))
        prop = meta["property"]
        also = meta.get("also_checks", [])
        r = {"property": prop, "summary": meta.get("summary", "")}
        rc, out = sh(["git", "-C", REPO, "apply", "--check", patch])
        if rc != 0:
            r["status"] = "patch-does-not-apply"; r["detail"] = out[-400:]
            results[name] = r; print(name, r["status"]); continue
        sh(["git", "-C", REPO, "apply", patch])
        try:
            caught = None
            for p in [prop] + also:
                for t in (["quick"] if tier == "quick" else ["quick", "thorough"]):
                    t0 = time.time()
                    rc, out = sh([os.path.join(VERIF, "bin", "check"), p, "--tier", t], cwd=VERIF)
                    lines = [l for l in out.splitlines() if l.startswith("VIOLATION") or l.startswith("check ")]
                    if rc != 0:
                        viol = [l for l in lines if l.startswith("VIOLATION")]
                        with_input = [l for l in viol if "no-failing-input-found" not in l]
                        how = "monitor/correspondence with failing input" if with_input else "broken obligation or correspondence (no-failing-input-found)"
                        # classes from replay files
                        classes = set()
                        for l in viol:
                            rp = l.split("replay=")[1].split()[0]
                            try:
                                j = json.load(open(rp)); c = j.get("class", {})
                                classes.add((j.get("kind", "") + ":" + (c.get("class", "") if isinstance(c, dict) else str(c)))[:120])
                            except Exception: pass
                        caught = {"check": p, "tier": t, "how": how, "violations": len(viol), "classes": sorted(classes), "seconds": round(time.time() - t0, 1)}
                        break
                if caught: break
            r["status"] = "caught" if caught else "missed"
            if caught: r["caught_by"] = caught
        finally:
            sh(["git", "-C", REPO, "checkout", "--", "."])
            sh(["git", "-C", REPO, "clean", "-fdq"])
            for f in glob.glob(os.path.join(VERIF, "replays", prop + "-*.json")) + [x for p in also for x in glob.glob(os.path.join(VERIF, "replays", p + "-*.json"))]:
                os.remove(f)
        print(name, r["status"], r.get("caught_by", ""), flush=True)
        import fcntl
        with open(resf + ".lock", "w") as lk:
            fcntl.flock(lk, fcntl.LOCK_EX)
            results = json.load(open(resf)) if os.path.exists(resf) else {}
            results[name] = r
            json.dump(results, open(resf, "w"), indent=1, sort_keys=True)

if __name__ == "__main__":
    main()
