#!/usr/bin/env python3
# Rebuilds MANIFEST.json from checks/*.json (claimed checks) and properties.jsonl (everything else -> not_applicable).
import json, os, glob, subprocess
V = os.path.dirname(os.path.dirname(os.path.abspath(__file__)))
props = [json.loads(l) for l in open(os.path.join(V, "properties.jsonl"))]
checks, claimed = [], []
for f in sorted(glob.glob(os.path.join(V, "checks", "C*.json"))):
    pid = os.path.basename(f)[:-5]
    c = json.load(open(f))
    if not c.get("manifest_text"):
        continue
    claimed.append(pid)
    checks.append({"property_id": pid, "quick_cmd": "bin/check %s --tier quick" % pid, "thorough_cmd": "bin/check %s --tier thorough" % pid,
                   "evidence_file": "evidence/%s.json" % pid, "replay_cmd_template": "bin/check %s --replay {path}" % pid, "engine": "lean4+harness",
                   "level_claimed": {"category": c.get("level", "proof"), "text": c["manifest_text"], "design_ref": "DESIGN.md section 4, " + pid},
                   "level_note": c.get("manifest_note", ""), "technique": c.get("technique", "Lean 4 proof + differential correspondence")})
pending = {}
pf = os.path.join(V, "checks", "not_claimed.json")
if os.path.exists(pf):
    pending = json.load(open(pf))
na = [{"property_id": p["id"], "reason": pending.get(p["id"], "check not built yet (planned per DESIGN.md section 9); not claimed")} for p in props if p["id"] not in claimed]
commits = subprocess.check_output(["git", "-C", "/repo", "log", "--format=%H %s"], text=True).splitlines()
hooks = [l.split()[0] for l in commits if l.split(" ", 1)[1].startswith("verif hook")]
m = {"version": 1, "setup_cmd": "sh bin/setup.sh",
     "hooks": {"guard": "verif", "enable": "go build -tags verif (harness module /verif/harness, replace => /repo, CGO_LDFLAGS=-L/verif/stubs/lib)",
               "baseline_off_cmd": "for m in $(cat /w/out/gomods.txt); do MF=$(cd /repo/$m && . /w/out/goenv.sh && gomodflag); (cd /repo/$m && go test $MF -json -vet=off -count=1 -timeout 25m ./...); done",
               "source_commits": hooks, "add_only": True},
     "engines": [{"name": "lean4+harness", "path": "bin/check", "serves_properties": claimed,
                  "kind_free_text": "Lean 4 theorems about executable models (lean/), tied to /repo by a Go->Lean translator + go/ast fact extractor (extract/) regenerated on every run and by a differential correspondence harness (harness/) that runs the real Go code in-process; property monitors evaluated on the implementation's own trace"}],
     "checks": checks, "not_applicable": na,
     "notes": "See DESIGN.md. known_findings.json lists recorded defects (status finding) and repaired ones (status fixed, with the fix: commit); replays/ holds replay files of violations; HOWTO-add-a-property.md describes the slice layout."}
json.dump(m, open(os.path.join(V, "MANIFEST.json"), "w"), indent=1)
print("claimed:", claimed)
