#!/bin/bash
# Statement coverage of /repo reached by the quick tier of every check (DESIGN.md 10.8).
# usage: bin/cover.sh <outdir> [Cxx ...]      then: python3 bin/coverreport.py <outdir> C14 v
set -e
V=$(cd "$(dirname "$0")/.." && pwd)
OUT=${1:?outdir}; shift || true
PROPS=${@:-C01 C02 C03 C04 C05 C06 C07 C08 C09 C10 C11 C12 C13 C14 C15 C16 C17 C18 C19 C20}
export GOFLAGS=-mod=mod GOPROXY=off GOSUMDB=off GOTOOLCHAIN=local CGO_LDFLAGS=-L$V/stubs/lib
mkdir -p "$OUT"
rm -rf "$OUT/harness" && cp -r "$V/harness" "$OUT/harness"          # a private copy: never touch the go.mod the checks use
(cd "$OUT/harness" && sed -i 's#linkchain => .*#linkchain => /repo#' go.mod &&
 go build -tags verif -cover -coverpkg=lvharness/cmd/lvharness,github.com/lianxiangcloud/linkchain/... -o "$OUT/lvh-cover" ./cmd/lvharness)
for c in $PROPS; do
  mkdir -p "$OUT/$c/data" "$OUT/$c/out" "$OUT/$c/wd"
  (cd "$OUT/$c/wd" && GOCOVERDIR="$OUT/$c/data" GOMEMLIMIT=8GiB timeout 1500 "$OUT/lvh-cover" $c run -seed 1 -tier quick -out "$OUT/$c/out" > "$OUT/$c/log.txt" 2>&1) || echo "$c: harness rc=$?"
  (cd "$OUT/harness" && go tool covdata textfmt -i="$OUT/$c/data" -o "$OUT/$c.txt")
  python3 "$V/bin/coverreport.py" "$OUT" $c | sed "s/^/$c /"
done
