/*
 * Stub of libxcrypto for the verification harness (see DESIGN.md section 3.4).
 *
 * Links the unmodified Go cgo wrappers in /repo/libs/cryptonote/xcrypto.
 *   - group / scalar operations are REAL ed25519 arithmetic (libsodium);
 *   - key derivation / key image use a libsodium hash-to-point (same algebraic
 *     shape as Monero's, different constants);
 *   - MLSAG / Bulletproof *verification* is an ideal functionality controlled by
 *     lvstub_set_verify(): nothing here verifies RingCT cryptography;
 *   - prove / wallet-side entry points return an error (-1).
 */
#include <errno.h>
#include <stdint.h>
#include <stdlib.h>
#include <string.h>
#include <sodium.h>
#include "xcrypto.h"

static unsigned char IDENT[32] = {1};
static unsigned char HGEN[32];
static int inited = 0;
/* verification verdict of the ideal functionality: 1 accept, 0 reject, -1 internal error */
static volatile int verdict_rct = 1, verdict_bp = 1;

void lvstub_set_verify(int rct, int bp) { verdict_rct = rct; verdict_bp = bp; }

static void init(void) {
    if (inited) return;
    if (sodium_init() < 0) abort();
    unsigned char h[32];
    crypto_generichash(h, 32, (const unsigned char *)"lvstub-H-generator", 18, NULL, 0);
    crypto_core_ed25519_from_uniform(HGEN, h);
    inited = 1;
}

static void sc_reduce32(unsigned char *out, const unsigned char *in) {
    unsigned char w[64];
    memset(w, 0, 64);
    memcpy(w, in, 32);
    crypto_core_ed25519_scalar_reduce(out, w);
}

static int is_zero32(const unsigned char *a) {
    unsigned char acc = 0;
    for (int i = 0; i < 32; i++) acc |= a[i];
    return acc == 0;
}

/* r = a*P, tolerant: zero scalar or bad point -> identity */
static int smul(unsigned char *r, const unsigned char *a, const unsigned char *P) {
    unsigned char s[32];
    sc_reduce32(s, a);
    if (is_zero32(s) || memcmp(P, IDENT, 32) == 0) { memcpy(r, IDENT, 32); return 0; }
    if (crypto_scalarmult_ed25519_noclamp(r, s, P) != 0) { memcpy(r, IDENT, 32); return -1; }
    return 0;
}
static int smulbase(unsigned char *r, const unsigned char *a) {
    unsigned char s[32];
    sc_reduce32(s, a);
    if (is_zero32(s)) { memcpy(r, IDENT, 32); return 0; }
    if (crypto_scalarmult_ed25519_base_noclamp(r, s) != 0) { memcpy(r, IDENT, 32); return -1; }
    return 0;
}
static int padd(unsigned char *r, const unsigned char *a, const unsigned char *b) {
    if (memcmp(a, IDENT, 32) == 0) { memmove(r, b, 32); return 0; }
    if (memcmp(b, IDENT, 32) == 0) { memmove(r, a, 32); return 0; }
    unsigned char t[32];
    if (crypto_core_ed25519_add(t, a, b) != 0) { memcpy(r, IDENT, 32); return -1; }
    memcpy(r, t, 32);
    return 0;
}
static int psub(unsigned char *r, const unsigned char *a, const unsigned char *b) {
    if (memcmp(b, IDENT, 32) == 0) { memmove(r, a, 32); return 0; }
    unsigned char t[32];
    if (memcmp(a, IDENT, 32) == 0) {
        /* -b = 0*G... use (L-1)*b */
        unsigned char m1[32], one[32] = {1}, z[32] = {0};
        crypto_core_ed25519_scalar_sub(m1, z, one);
        return smul(r, m1, b);
    }
    if (crypto_core_ed25519_sub(t, a, b) != 0) { memcpy(r, IDENT, 32); return -1; }
    memcpy(r, t, 32);
    return 0;
}
static void amount_scalar(unsigned char *s, unsigned long long amount) {
    memset(s, 0, 32);
    for (int i = 0; i < 8; i++) s[i] = (unsigned char)(amount >> (8 * i));
}
static void hash_to_scalar(unsigned char *out, const unsigned char *in, size_t n) {
    unsigned char w[64];
    crypto_generichash(w, 64, in, n, NULL, 0);
    crypto_core_ed25519_scalar_reduce(out, w);
}
static void hash_to_point(unsigned char *out, const unsigned char *in, size_t n) {
    unsigned char h[32];
    crypto_generichash(h, 32, in, n, NULL, 0);
    crypto_core_ed25519_from_uniform(out, h);
}
#define U(x) ((unsigned char *)(x))
#define DONE do { errno = 0; } while (0)

void x_scalarmultBase(rct_key_t aG, rct_key_t a) { init(); smulbase(U(aG), U(a)); DONE; }
void x_scalarmultKey(rct_key_t aP, rct_key_t P, rct_key_t a) { init(); smul(U(aP), U(a), U(P)); DONE; }
void x_scalarmultH(rct_key_t aH, rct_key_t a) { init(); smul(U(aH), U(a), HGEN); DONE; }
void x_addKeys(rct_key_t ab, rct_key_t a, rct_key_t b) { init(); padd(U(ab), U(a), U(b)); DONE; }
void x_addKeys2(rct_key_t aGbB, rct_key_t a, rct_key_t b, rct_key_t B) {
    init();
    unsigned char t1[32], t2[32];
    smulbase(t1, U(a)); smul(t2, U(b), U(B)); padd(U(aGbB), t1, t2); DONE;
}
void x_skGen(rct_key_t key) {
    init();
    unsigned char w[64];
    randombytes_buf(w, 64);
    crypto_core_ed25519_scalar_reduce(U(key), w); DONE;
}
void x_skpkGen(rct_key_t sk, rct_key_t pk) { x_skGen(sk); smulbase(U(pk), U(sk)); DONE; }
int x_checkKey(p_rct_key_t pk) {
    init();
    int ok = crypto_core_ed25519_is_valid_point(U(pk)) == 1 || memcmp(pk, IDENT, 32) == 0;
    DONE; return ok ? 0 : -1;
}
void x_zeroCommit(rct_key_t ret, long long unsigned amount) {
    init();
    unsigned char s[32], one[32] = {1}, g[32], ah[32];
    amount_scalar(s, amount); smulbase(g, one); smul(ah, s, HGEN); padd(U(ret), g, ah); DONE;
}
void x_genC(rct_key_t c, rct_key_t a, unsigned long long amount) {
    init();
    unsigned char s[32], ag[32], ah[32];
    amount_scalar(s, amount); smulbase(ag, U(a)); smul(ah, s, HGEN); padd(U(c), ag, ah); DONE;
}
void x_scalarmult8(rct_key_t p, rct_key_t ret) {
    init();
    unsigned char e[32] = {8};
    smul(U(ret), e, U(p)); DONE;
}
void x_sc_add(ec_scalar_t s, ec_scalar_t a, ec_scalar_t b) {
    init();
    unsigned char x[32], y[32];
    sc_reduce32(x, U(a)); sc_reduce32(y, U(b)); crypto_core_ed25519_scalar_add(U(s), x, y); DONE;
}
void x_sc_sub(ec_scalar_t s, ec_scalar_t a, ec_scalar_t b) {
    init();
    unsigned char x[32], y[32];
    sc_reduce32(x, U(a)); sc_reduce32(y, U(b)); crypto_core_ed25519_scalar_sub(U(s), x, y); DONE;
}
void x_sc_secret_add(p_secret_key_t r, p_secret_key_t a, p_secret_key_t b) { x_sc_add(r, a, b); }

int x_secret_key_to_public_key(p_secret_key_t sec, p_public_key_t pub) {
    init();
    unsigned char s[32];
    sc_reduce32(s, U(sec));
    if (memcmp(s, sec, 32) != 0) { DONE; return -1; } /* sc_check */
    smulbase(U(pub), s); DONE; return 0;
}
void x_generate_keys(p_public_key_t pub, p_secret_key_t sec, p_secret_key_t recover_key) {
    init();
    sc_reduce32(U(sec), U(recover_key));
    smulbase(U(pub), U(sec)); DONE;
}
int x_generate_key_derivation(p_public_key_t key1, p_secret_key_t key2, p_ec_point_t derivation) {
    init();
    unsigned char t[32], e[32] = {8};
    if (crypto_core_ed25519_is_valid_point(U(key1)) != 1) { DONE; return -1; }
    smul(t, U(key2), U(key1)); smul(U(derivation), e, t); DONE; return 0;
}
static void deriv_scalar(unsigned char *out, const unsigned char *derivation, size_t idx) {
    unsigned char buf[40];
    memcpy(buf, derivation, 32);
    for (int i = 0; i < 8; i++) buf[32 + i] = (unsigned char)((unsigned long long)idx >> (8 * i));
    hash_to_scalar(out, buf, 40);
}
int x_derivation_to_scalar(p_ec_point_t derivation, size_t output_index, p_ec_scalar_t res) {
    init(); deriv_scalar(U(res), U(derivation), output_index); DONE; return 0;
}
int x_derive_public_key(p_ec_point_t derivation, size_t output_index, p_public_key_t pub, p_public_key_t derived_pub) {
    init();
    unsigned char s[32], sg[32];
    if (crypto_core_ed25519_is_valid_point(U(pub)) != 1) { DONE; return -1; }
    deriv_scalar(s, U(derivation), output_index); smulbase(sg, s); padd(U(derived_pub), sg, U(pub)); DONE; return 0;
}
int x_derive_secret_key(p_ec_point_t derivation, size_t output_index, p_secret_key_t sec, p_secret_key_t derived_sec) {
    init();
    unsigned char s[32], b[32];
    deriv_scalar(s, U(derivation), output_index); sc_reduce32(b, U(sec));
    crypto_core_ed25519_scalar_add(U(derived_sec), s, b); DONE; return 0;
}
int x_derive_subaddress_public_key(p_public_key_t pub, p_ec_point_t derivation, size_t output_index, p_public_key_t derived_pub) {
    init();
    unsigned char s[32], sg[32];
    if (crypto_core_ed25519_is_valid_point(U(pub)) != 1) { DONE; return -1; }
    deriv_scalar(s, U(derivation), output_index); smulbase(sg, s); psub(U(derived_pub), U(pub), sg); DONE; return 0;
}
int x_generate_key_image(p_public_key_t pub, p_secret_key_t sec, p_key_image_t image) {
    init();
    unsigned char hp[32];
    hash_to_point(hp, U(pub), 32); smul(U(image), U(sec), hp); DONE; return 0;
}
void x_get_subaddress_secret_key(p_secret_key_t sec, uint32_t index, p_secret_key_t sub_sec) {
    init();
    unsigned char buf[8 + 32 + 4];
    memcpy(buf, "SubAddr", 8); memcpy(buf + 8, sec, 32);
    for (int i = 0; i < 4; i++) buf[40 + i] = (unsigned char)(index >> (8 * i));
    hash_to_scalar(U(sub_sec), buf, sizeof buf); DONE;
}
static void ecdh_pad(unsigned char *pad, const unsigned char *shared, const char *tag) {
    unsigned char buf[40];
    memset(buf, 0, 40); memcpy(buf, tag, strlen(tag) > 8 ? 8 : strlen(tag)); memcpy(buf + 8, shared, 32);
    hash_to_scalar(pad, buf, 40);
}
int x_ecdh_encode(rct_ecdhTuple_t *unmasked, p_rct_key_t sharedSec, int short_amount) {
    init();
    unsigned char p1[32], p2[32];
    ecdh_pad(p1, U(sharedSec), "mask"); ecdh_pad(p2, U(sharedSec), "amount");
    if (short_amount) {
        memset(unmasked->mask, 0, 32);
        for (int i = 0; i < 8; i++) unmasked->amount[i] ^= p2[i];
    } else {
        crypto_core_ed25519_scalar_add(U(unmasked->mask), U(unmasked->mask), p1);
        crypto_core_ed25519_scalar_add(U(unmasked->amount), U(unmasked->amount), p2);
    }
    DONE; return 0;
}
int x_ecdh_decode(rct_ecdhTuple_t *masked, p_rct_key_t sharedSec, int short_amount) {
    init();
    unsigned char p1[32], p2[32];
    ecdh_pad(p1, U(sharedSec), "mask"); ecdh_pad(p2, U(sharedSec), "amount");
    if (short_amount) {
        memcpy(masked->mask, p1, 32);
        for (int i = 0; i < 8; i++) masked->amount[i] ^= p2[i];
        memset(masked->amount + 8, 0, 24);
    } else {
        crypto_core_ed25519_scalar_sub(U(masked->mask), U(masked->mask), p1);
        crypto_core_ed25519_scalar_sub(U(masked->amount), U(masked->amount), p2);
    }
    DONE; return 0;
}
/* ideal ring signature: sig = H(prefix, image, pubs) ; generation needs sec*G == pubs[index] */
static void ring_tag(unsigned char *c, unsigned char *r, const char *prefix, const char *image, rct_keyV_t *pubs) {
    crypto_generichash_state st;
    unsigned char out[64];
    crypto_generichash_init(&st, NULL, 0, 64);
    crypto_generichash_update(&st, U(prefix), 32);
    crypto_generichash_update(&st, U(image), 32);
    for (int i = 0; i < pubs->nums; i++) crypto_generichash_update(&st, U(pubs->v[i]), 32);
    crypto_generichash_final(&st, out, 64);
    memcpy(c, out, 32); memcpy(r, out + 32, 32);
}
int x_generate_ring_signature(hash_t prefix_hash, key_image_t image, rct_keyV_t *pubs, p_rct_key_t sec, size_t sec_index, signature_t *sig) {
    init();
    unsigned char pk[32];
    if ((int)sec_index >= pubs->nums) { DONE; return -1; }
    smulbase(pk, U(sec));
    if (memcmp(pk, pubs->v[sec_index], 32) != 0) { DONE; return -1; }
    ring_tag(U(sig->c), U(sig->r), prefix_hash, image, pubs); DONE; return 0;
}
int x_check_ring_signature(hash_t prefix_hash, key_image_t image, rct_keyV_t *pubs, signature_t *sig) {
    init();
    unsigned char c[32], r[32];
    ring_tag(c, r, prefix_hash, image, pubs);
    int ok = memcmp(c, sig->c, 32) == 0 && memcmp(r, sig->r, 32) == 0; DONE; return ok ? 0 : -1;
}
int x_words_to_bytes(char *words, p_secret_key_t dst) { (void)words; (void)dst; DONE; return -1; }
int x_bytes_to_words(p_secret_key_t src, char **words, char *language_name) { (void)src; (void)words; (void)language_name; DONE; return -1; }

/* ---- tlv api -------------------------------------------------------------------------------- */
int tlv_verRctNotSemanticsSimple(unsigned char *raw, int in_len) { (void)raw; (void)in_len; DONE; return verdict_rct > 0 ? 1 : -1; }
int tlv_verRctSimple(unsigned char *raw, int in_len) { (void)raw; (void)in_len; DONE; return verdict_rct; }
int tlv_verBulletproof(unsigned char *raw, int in_len) { (void)raw; (void)in_len; DONE; return verdict_bp; }
int tlv_verBulletproof128(unsigned char *raw, int in_len) { (void)raw; (void)in_len; DONE; return verdict_bp; }
int tlv_get_pre_mlsag_hash(rct_key_t key, unsigned char *raw, int in_len) {
    init(); crypto_generichash(U(key), 32, raw, (size_t)in_len, NULL, 0); DONE; return 0;
}
int tlv_addKeyV(rct_key_t sum, unsigned char *raw, int in_len) {
    init();
    unsigned char acc[32];
    memcpy(acc, IDENT, 32);
    if (in_len % 32 != 0) { DONE; return -1; }
    for (int off = 0; off < in_len; off += 32) padd(acc, acc, raw + off);
    memcpy(sum, acc, 32); DONE; return 0;
}
int tlv_proveRangeBulletproof(unsigned char *raw, int in_len, unsigned char **out) { (void)raw; (void)in_len; (void)out; DONE; return -1; }
int tlv_proveRangeBulletproof128(unsigned char *raw, int in_len, unsigned char **out) { (void)raw; (void)in_len; (void)out; DONE; return -1; }
int tlv_proveRctMGSimple(rct_key_t mscout, unsigned int index, unsigned char *raw, int in_len, unsigned char **out) {
    (void)mscout; (void)index; (void)raw; (void)in_len; (void)out; DONE; return -1;
}
int tlv_get_subaddress(uint32_t index, unsigned char *raw, int in_len, unsigned char **out) { (void)index; (void)raw; (void)in_len; (void)out; DONE; return -1; }
int test_tlv_keyV(unsigned char *in, int in_len, unsigned char **out) {
    *out = malloc((size_t)in_len ? (size_t)in_len : 1); memcpy(*out, in, (size_t)in_len); DONE; return in_len;
}
int test_tlv_rctsig(unsigned char *raw, int in_len, unsigned char **out) { return test_tlv_keyV(raw, in_len, out); }
