/*
 * Stub of libxcrypto for the verification harness (see DESIGN.md section 3.4).
 *
 * Links the unmodified Go cgo wrappers in /repo/libs/cryptonote/xcrypto.
 *   - group / scalar operations are REAL ed25519 arithmetic (libsodium);
 *   - key derivation / key image use a libsodium hash-to-point (same algebraic
 *     shape as Monero's, different constants);
 *   - MLSAG / Bulletproof *verification* is an ideal functionality controlled by
 *     lvstub_set_verify(): nothing here verifies RingCT cryptography;
 *   - prove / wallet-side entry points return an error (-1).
 */
#include <errno.h>
#include <stdint.h>
#include <stdlib.h>
#include <string.h>
#include <sodium.h>
#include "xcrypto.h"

static unsigned char IDENT[32] = {1};
static unsigned char HGEN[32];
static int inited = 0;
/* verification verdict of the ideal functionality: 1 accept, 0 reject, -1 internal error */
static volatile int verdict_rct = 1, verdict_bp = 1;

void lvstub_set_verify(int rct, int bp) { verdict_rct = rct; verdict_bp = bp; }

static void init(void) {
    if (inited) return;
    if (sodium_init() < 0) abort();
    static const unsigned char MONERO_H[32] = {0x8b, 0x65, 0x59, 0x70, 0x15, 0x37, 0x99, 0xaf, 0x2a, 0xea, 0xdc, 0x9f, 0xf1, 0xad, 0xd0, 0xea,
        0x6c, 0x72, 0x51, 0xd5, 0x41, 0x54, 0xcf, 0xa9, 0x2c, 0x17, 0x3a, 0x0d, 0xd3, 0x9c, 0x1f, 0x94};
    memcpy(HGEN, MONERO_H, 32); /* = ringct.H in the Go code */
    inited = 1;
}

static void sc_reduce32(unsigned char *out, const unsigned char *in) {
    unsigned char w[64];
    memset(w, 0, 64);
    memcpy(w, in, 32);
    crypto_core_ed25519_scalar_reduce(out, w);
}

static int is_zero32(const unsigned char *a) {
    unsigned char acc = 0;
    for (int i = 0; i < 32; i++) acc |= a[i];
    return acc == 0;
}

/* r = a*P, tolerant: zero scalar or bad point -> identity */
static int smul(unsigned char *r, const unsigned char *a, const unsigned char *P) {
    unsigned char s[32];
    sc_reduce32(s, a);
    if (is_zero32(s) || memcmp(P, IDENT, 32) == 0) { memcpy(r, IDENT, 32); return 0; }
    if (crypto_scalarmult_ed25519_noclamp(r, s, P) != 0) { memcpy(r, IDENT, 32); return -1; }
    return 0;
}
static int smulbase(unsigned char *r, const unsigned char *a) {
    unsigned char s[32];
    sc_reduce32(s, a);
    if (is_zero32(s)) { memcpy(r, IDENT, 32); return 0; }
    if (crypto_scalarmult_ed25519_base_noclamp(r, s) != 0) { memcpy(r, IDENT, 32); return -1; }
    return 0;
}
static int padd(unsigned char *r, const unsigned char *a, const unsigned char *b) {
    if (memcmp(a, IDENT, 32) == 0) { memmove(r, b, 32); return 0; }
    if (memcmp(b, IDENT, 32) == 0) { memmove(r, a, 32); return 0; }
    unsigned char t[32];
    if (crypto_core_ed25519_add(t, a, b) != 0) { memcpy(r, IDENT, 32); return -1; }
    memcpy(r, t, 32);
    return 0;
}
static int psub(unsigned char *r, const unsigned char *a, const unsigned char *b) {
    if (memcmp(b, IDENT, 32) == 0) { memmove(r, a, 32); return 0; }
    unsigned char t[32];
    if (memcmp(a, IDENT, 32) == 0) {
        /* -b = 0*G... use (L-1)*b */
        unsigned char m1[32], one[32] = {1}, z[32] = {0};
        crypto_core_ed25519_scalar_sub(m1, z, one);
        return smul(r, m1, b);
    }
    if (crypto_core_ed25519_sub(t, a, b) != 0) { memcpy(r, IDENT, 32); return -1; }
    memcpy(r, t, 32);
    return 0;
}
static void amount_scalar(unsigned char *s, unsigned long long amount) {
    memset(s, 0, 32);
    for (int i = 0; i < 8; i++) s[i] = (unsigned char)(amount >> (8 * i));
}
static void hash_to_scalar(unsigned char *out, const unsigned char *in, size_t n) {
    unsigned char w[64];
    crypto_generichash(w, 64, in, n, NULL, 0);
    crypto_core_ed25519_scalar_reduce(out, w);
}
static void hash_to_point(unsigned char *out, const unsigned char *in, size_t n) {
    unsigned char h[32];
    crypto_generichash(h, 32, in, n, NULL, 0);
    crypto_core_ed25519_from_uniform(out, h);
}
#define U(x) ((unsigned char *)(x))
#define DONE do { errno = 0; } while (0)

void x_scalarmultBase(rct_key_t aG, rct_key_t a) { init(); smulbase(U(aG), U(a)); DONE; }
void x_scalarmultKey(rct_key_t aP, rct_key_t P, rct_key_t a) { init(); smul(U(aP), U(a), U(P)); DONE; }
void x_scalarmultH(rct_key_t aH, rct_key_t a) { init(); smul(U(aH), U(a), HGEN); DONE; }
void x_addKeys(rct_key_t ab, rct_key_t a, rct_key_t b) { init(); padd(U(ab), U(a), U(b)); DONE; }
void x_addKeys2(rct_key_t aGbB, rct_key_t a, rct_key_t b, rct_key_t B) {
    init();
    unsigned char t1[32], t2[32];
    smulbase(t1, U(a)); smul(t2, U(b), U(B)); padd(U(aGbB), t1, t2); DONE;
}
/* deterministic key generation once seeded (the harness must replay exactly) */
static unsigned long long rng_seed = 0, rng_ctr = 0;
void lvstub_seed(unsigned long long seed) { rng_seed = seed; rng_ctr = 0; }
void x_skGen(rct_key_t key) {
    init();
    unsigned char w[64];
    if (rng_seed != 0) {
        unsigned long long in[2] = {rng_seed, ++rng_ctr};
        crypto_generichash(w, 64, (const unsigned char *)in, sizeof in, NULL, 0);
    } else {
        randombytes_buf(w, 64);
    }
    crypto_core_ed25519_scalar_reduce(U(key), w); DONE;
}
void x_skpkGen(rct_key_t sk, rct_key_t pk) { x_skGen(sk); smulbase(U(pk), U(sk)); DONE; }
int x_checkKey(p_rct_key_t pk) {
    init();
    int ok = crypto_core_ed25519_is_valid_point(U(pk)) == 1 || memcmp(pk, IDENT, 32) == 0;
    DONE; return ok ? 0 : -1;
}
void x_zeroCommit(rct_key_t ret, long long unsigned amount) {
    init();
    unsigned char s[32], one[32] = {1}, g[32], ah[32];
    amount_scalar(s, amount); smulbase(g, one); smul(ah, s, HGEN); padd(U(ret), g, ah); DONE;
}
void x_genC(rct_key_t c, rct_key_t a, unsigned long long amount) {
    init();
    unsigned char s[32], ag[32], ah[32];
    amount_scalar(s, amount); smulbase(ag, U(a)); smul(ah, s, HGEN); padd(U(c), ag, ah); DONE;
}
void x_scalarmult8(rct_key_t p, rct_key_t ret) {
    init();
    unsigned char e[32] = {8};
    smul(U(ret), e, U(p)); DONE;
}
void x_sc_add(ec_scalar_t s, ec_scalar_t a, ec_scalar_t b) {
    init();
    unsigned char x[32], y[32];
    sc_reduce32(x, U(a)); sc_reduce32(y, U(b)); crypto_core_ed25519_scalar_add(U(s), x, y); DONE;
}
void x_sc_sub(ec_scalar_t s, ec_scalar_t a, ec_scalar_t b) {
    init();
    unsigned char x[32], y[32];
    sc_reduce32(x, U(a)); sc_reduce32(y, U(b)); crypto_core_ed25519_scalar_sub(U(s), x, y); DONE;
}
void x_sc_secret_add(p_secret_key_t r, p_secret_key_t a, p_secret_key_t b) { x_sc_add(r, a, b); }

int x_secret_key_to_public_key(p_secret_key_t sec, p_public_key_t pub) {
    init();
    unsigned char s[32];
    sc_reduce32(s, U(sec));
    if (memcmp(s, sec, 32) != 0) { DONE; return -1; } /* sc_check */
    smulbase(U(pub), s); DONE; return 0;
}
void x_generate_keys(p_public_key_t pub, p_secret_key_t sec, p_secret_key_t recover_key) {
    init();
    sc_reduce32(U(sec), U(recover_key));
    smulbase(U(pub), U(sec)); DONE;
}
int x_generate_key_derivation(p_public_key_t key1, p_secret_key_t key2, p_ec_point_t derivation) {
    init();
    unsigned char t[32], e[32] = {8};
    if (crypto_core_ed25519_is_valid_point(U(key1)) != 1) { DONE; return -1; }
    smul(t, U(key2), U(key1)); smul(U(derivation), e, t); DONE; return 0;
}
static void deriv_scalar(unsigned char *out, const unsigned char *derivation, size_t idx) {
    unsigned char buf[40];
    memcpy(buf, derivation, 32);
    for (int i = 0; i < 8; i++) buf[32 + i] = (unsigned char)((unsigned long long)idx >> (8 * i));
    hash_to_scalar(out, buf, 40);
}
int x_derivation_to_scalar(p_ec_point_t derivation, size_t output_index, p_ec_scalar_t res) {
    init(); deriv_scalar(U(res), U(derivation), output_index); DONE; return 0;
}
int x_derive_public_key(p_ec_point_t derivation, size_t output_index, p_public_key_t pub, p_public_key_t derived_pub) {
    init();
    unsigned char s[32], sg[32];
    if (crypto_core_ed25519_is_valid_point(U(pub)) != 1) { DONE; return -1; }
    deriv_scalar(s, U(derivation), output_index); smulbase(sg, s); padd(U(derived_pub), sg, U(pub)); DONE; return 0;
}
int x_derive_secret_key(p_ec_point_t derivation, size_t output_index, p_secret_key_t sec, p_secret_key_t derived_sec) {
    init();
    unsigned char s[32], b[32];
    deriv_scalar(s, U(derivation), output_index); sc_reduce32(b, U(sec));
    crypto_core_ed25519_scalar_add(U(derived_sec), s, b); DONE; return 0;
}
int x_derive_subaddress_public_key(p_public_key_t pub, p_ec_point_t derivation, size_t output_index, p_public_key_t derived_pub) {
    init();
    unsigned char s[32], sg[32];
    if (crypto_core_ed25519_is_valid_point(U(pub)) != 1) { DONE; return -1; }
    deriv_scalar(s, U(derivation), output_index); smulbase(sg, s); psub(U(derived_pub), U(pub), sg); DONE; return 0;
}
int x_generate_key_image(p_public_key_t pub, p_secret_key_t sec, p_key_image_t image) {
    init();
    unsigned char hp[32];
    hash_to_point(hp, U(pub), 32); smul(U(image), U(sec), hp); DONE; return 0;
}
void x_get_subaddress_secret_key(p_secret_key_t sec, uint32_t index, p_secret_key_t sub_sec) {
    init();
    unsigned char buf[8 + 32 + 4];
    memcpy(buf, "SubAddr", 8); memcpy(buf + 8, sec, 32);
    for (int i = 0; i < 4; i++) buf[40 + i] = (unsigned char)(index >> (8 * i));
    hash_to_scalar(U(sub_sec), buf, sizeof buf); DONE;
}
static void ecdh_pad(unsigned char *pad, const unsigned char *shared, const char *tag) {
    unsigned char buf[40];
    memset(buf, 0, 40); memcpy(buf, tag, strlen(tag) > 8 ? 8 : strlen(tag)); memcpy(buf + 8, shared, 32);
    hash_to_scalar(pad, buf, 40);
}
int x_ecdh_encode(rct_ecdhTuple_t *unmasked, p_rct_key_t sharedSec, int short_amount) {
    init();
    unsigned char p1[32], p2[32];
    ecdh_pad(p1, U(sharedSec), "mask"); ecdh_pad(p2, U(sharedSec), "amount");
    if (short_amount) {
        memset(unmasked->mask, 0, 32);
        for (int i = 0; i < 8; i++) unmasked->amount[i] ^= p2[i];
    } else {
        crypto_core_ed25519_scalar_add(U(unmasked->mask), U(unmasked->mask), p1);
        crypto_core_ed25519_scalar_add(U(unmasked->amount), U(unmasked->amount), p2);
    }
    DONE; return 0;
}
int x_ecdh_decode(rct_ecdhTuple_t *masked, p_rct_key_t sharedSec, int short_amount) {
    init();
    unsigned char p1[32], p2[32];
    ecdh_pad(p1, U(sharedSec), "mask"); ecdh_pad(p2, U(sharedSec), "amount");
    if (short_amount) {
        memcpy(masked->mask, p1, 32);
        for (int i = 0; i < 8; i++) masked->amount[i] ^= p2[i];
        memset(masked->amount + 8, 0, 24);
    } else {
        crypto_core_ed25519_scalar_sub(U(masked->mask), U(masked->mask), p1);
        crypto_core_ed25519_scalar_sub(U(masked->amount), U(masked->amount), p2);
    }
    DONE; return 0;
}
/* ideal ring signature: sig = H(prefix, image, pubs) ; generation needs sec*G == pubs[index] */
static void ring_tag(unsigned char *c, unsigned char *r, const char *prefix, const char *image, rct_keyV_t *pubs) {
    crypto_generichash_state st;
    unsigned char out[64];
    crypto_generichash_init(&st, NULL, 0, 64);
    crypto_generichash_update(&st, U(prefix), 32);
    crypto_generichash_update(&st, U(image), 32);
    for (int i = 0; i < pubs->nums; i++) crypto_generichash_update(&st, U(pubs->v[i]), 32);
    crypto_generichash_final(&st, out, 64);
    memcpy(c, out, 32); memcpy(r, out + 32, 32);
}
int x_generate_ring_signature(hash_t prefix_hash, key_image_t image, rct_keyV_t *pubs, p_rct_key_t sec, size_t sec_index, signature_t *sig) {
    init();
    unsigned char pk[32];
    if ((int)sec_index >= pubs->nums) { DONE; return -1; }
    smulbase(pk, U(sec));
    if (memcmp(pk, pubs->v[sec_index], 32) != 0) { DONE; return -1; }
    ring_tag(U(sig->c), U(sig->r), prefix_hash, image, pubs);
    if (getenv("LVSTUB_DEBUG")) fprintf(stderr, "ringsig gen  prefix=%02x%02x%02x%02x img=%02x%02x pub=%02x%02x n=%d\n", U(prefix_hash)[0], U(prefix_hash)[1], U(prefix_hash)[2], U(prefix_hash)[3], U(image)[0], U(image)[1], U(pubs->v[0])[0], U(pubs->v[0])[1], pubs->nums);
    DONE; return 0;
}
int x_check_ring_signature(hash_t prefix_hash, key_image_t image, rct_keyV_t *pubs, signature_t *sig) {
    init();
    unsigned char c[32], r[32];
    ring_tag(c, r, prefix_hash, image, pubs);
    if (getenv("LVSTUB_DEBUG")) fprintf(stderr, "ringsig chk  prefix=%02x%02x%02x%02x img=%02x%02x pub=%02x%02x n=%d\n", U(prefix_hash)[0], U(prefix_hash)[1], U(prefix_hash)[2], U(prefix_hash)[3], U(image)[0], U(image)[1], U(pubs->v[0])[0], U(pubs->v[0])[1], pubs->nums);
    int ok = memcmp(c, sig->c, 32) == 0 && memcmp(r, sig->r, 32) == 0; DONE; return ok ? 0 : -1;
}
int x_words_to_bytes(char *words, p_secret_key_t dst) { (void)words; (void)dst; DONE; return -1; }
int x_bytes_to_words(p_secret_key_t src, char **words, char *language_name) { (void)src; (void)words; (void)language_name; DONE; return -1; }

/* ---- tlv api -------------------------------------------------------------------------------- */
/* TLV: entries  tag(2, LE) | len(2, LE) | data ; maps are written in Go map order (random), so every digest
 * computed here is order independent at every level that parses as a sequence of entries. */

static const unsigned char SECRET[16] = "lvstub-ideal-fn";   /* the functionality's tagging key */
static const unsigned char INV8[32] = {0x79, 0x2f, 0xdc, 0xe2, 0x29, 0xe5, 0x06, 0x61, 0xd0, 0xda, 0x1c, 0x7d, 0xb3, 0x9d, 0xd3, 0x07,
    0, 0, 0, 0, 0, 0, 0, 0, 0, 0, 0, 0, 0, 0, 0, 0x06};

static int tlv_entry(const unsigned char *p, int n, int off, int *tag, const unsigned char **d, int *dl) {
    if (off + 4 > n) return -1;
    *tag = p[off] | (p[off + 1] << 8);           /* little endian (TagTo2Byte / LenTo2Byte) */
    *dl = p[off + 2] | (p[off + 3] << 8);
    if (off + 4 + *dl > n) return -1;
    *d = p + off + 4;
    return off + 4 + *dl;
}
static int tlv_get(const unsigned char *p, int n, int want, const unsigned char **d, int *dl) {
    int off = 0, tag;
    while (off < n) {
        const unsigned char *e; int el;
        int nx = tlv_entry(p, n, off, &tag, &e, &el);
        if (nx < 0) return -1;
        if (tag == want) { *d = e; *dl = el; return 0; }
        off = nx;
    }
    return -1;
}
static int tlv_count(const unsigned char *p, int n) {
    int off = 0, tag, c = 0;
    while (off < n) {
        const unsigned char *e; int el;
        int nx = tlv_entry(p, n, off, &tag, &e, &el);
        if (nx < 0) return -1;
        c++; off = nx;
    }
    return off == n ? c : -1;
}
static int tlv_nth(const unsigned char *p, int n, int i, const unsigned char **d, int *dl) {
    int off = 0, tag, c = 0;
    while (off < n) {
        int nx = tlv_entry(p, n, off, &tag, d, dl);
        if (nx < 0) return -1;
        if (c == i) return 0;
        c++; off = nx;
    }
    return -1;
}
/* order-independent digest: a buffer that parses exactly as >= 1 entries is a map (sum of entry digests), else raw */
static void canon(const unsigned char *p, int n, unsigned char out[32], int depth) {
    int c = (n >= 4 && depth < 6) ? tlv_count(p, n) : -1;
    if (c <= 0 || n % 32 == 0) {   /* fixed-size key vectors (multiples of 32) are raw */
        crypto_generichash_state st;
        crypto_generichash_init(&st, NULL, 0, 32);
        crypto_generichash_update(&st, (const unsigned char *)"R", 1);
        crypto_generichash_update(&st, p, (size_t)n);
        crypto_generichash_final(&st, out, 32);
        return;
    }
    unsigned char acc[32]; memset(acc, 0, 32);
    int off = 0, tag;
    while (off < n) {
        const unsigned char *e; int el;
        int nx = tlv_entry(p, n, off, &tag, &e, &el);
        unsigned char sub[32], h[32], t[2] = {(unsigned char)(tag >> 8), (unsigned char)tag};
        canon(e, el, sub, depth + 1);
        crypto_generichash_state st;
        crypto_generichash_init(&st, NULL, 0, 32);
        crypto_generichash_update(&st, (const unsigned char *)"M", 1);
        crypto_generichash_update(&st, t, 2);
        crypto_generichash_update(&st, sub, 32);
        crypto_generichash_final(&st, h, 32);
        for (int i = 0; i < 32; i++) acc[i] ^= h[i];   /* xor of entry digests: order independent */
        off = nx;
    }
    memcpy(out, acc, 32);
}
/* order-DEPENDENT digest of a sequence of entries whose position matters (slices), each entry canonicalised */
static void canon_seq(const unsigned char *p, int n, unsigned char out[32]) {
    crypto_generichash_state st;
    crypto_generichash_init(&st, NULL, 0, 32);
    int off = 0, tag;
    while (off < n) {
        const unsigned char *e; int el; unsigned char sub[32];
        int nx = tlv_entry(p, n, off, &tag, &e, &el);
        if (nx < 0) break;
        canon(e, el, sub, 1);
        crypto_generichash_update(&st, sub, 32);
        off = nx;
    }
    crypto_generichash_final(&st, out, 32);
}
/* a slice of fixed-size elements, each element a map written without header (CtkeyV: 72-byte blocks, EcdhTuple: 108) */
static void canon_blocks(const unsigned char *p, int n, int bs, unsigned char out[32]) {
    crypto_generichash_state st;
    crypto_generichash_init(&st, NULL, 0, 32);
    for (int off = 0; off + bs <= n; off += bs) {
        unsigned char sub[32];
        canon(p + off, bs, sub, 1);
        crypto_generichash_update(&st, sub, 32);
    }
    crypto_generichash_final(&st, out, 32);
}
static void tagged(unsigned char out[32], const char *label, const unsigned char *a, size_t an, const unsigned char *b, size_t bn,
                   const unsigned char *c, size_t cn, const unsigned char *d, size_t dn) {
    crypto_generichash_state st;
    crypto_generichash_init(&st, SECRET, sizeof SECRET, 32);
    crypto_generichash_update(&st, (const unsigned char *)label, strlen(label));
    if (a) crypto_generichash_update(&st, a, an);
    if (b) crypto_generichash_update(&st, b, bn);
    if (c) crypto_generichash_update(&st, c, cn);
    if (d) crypto_generichash_update(&st, d, dn);
    crypto_generichash_final(&st, out, 32);
}
static unsigned char *put(unsigned char *w, int tag, const unsigned char *d, int n) {
    w[0] = (unsigned char)tag; w[1] = (unsigned char)(tag >> 8); w[2] = (unsigned char)n; w[3] = (unsigned char)(n >> 8);
    if (n) memcpy(w + 4, d, (size_t)n);
    return w + 4 + n;
}

/* pre-MLSAG hash (what the spend authorisation signs): message, type, fee, ecdhInfo, outPk, and every bulletproof
 * without V (as Monero's get_pre_mlsag_hash) */
int tlv_get_pre_mlsag_hash(rct_key_t key, unsigned char *raw, int in_len) {
    init();
    const unsigned char *base, *P, *d; int bn, pn, dn;
    unsigned char parts[7][32]; memset(parts, 0, sizeof parts);
    if (tlv_get(raw, in_len, 2, &base, &bn) != 0) { DONE; return -1; }
    if (tlv_get(base, bn, 2, &d, &dn) == 0) canon(d, dn, parts[0], 1);          /* message (prefix hash) */
    if (tlv_get(base, bn, 1, &d, &dn) == 0) canon(d, dn, parts[1], 1);          /* type */
    if (tlv_get(base, bn, 7, &d, &dn) == 0) canon(d, dn, parts[2], 1);          /* fee */
    if (tlv_get(base, bn, 5, &d, &dn) == 0) canon_blocks(d, dn, 108, parts[3]); /* ecdhInfo: 108-byte EcdhTuple blocks */
    if (tlv_get(base, bn, 6, &d, &dn) == 0) canon_blocks(d, dn, 72, parts[4]);  /* outPk: 72-byte Ctkey blocks */
    if (tlv_get(raw, in_len, 1, &P, &pn) == 0 && tlv_get(P, pn, 2, &d, &dn) == 0) {
        /* bulletproofs: each one without its V (tag 1) */
        crypto_generichash_state st; crypto_generichash_init(&st, NULL, 0, 32);
        int off = 0, tag;
        while (off < dn) {
            const unsigned char *bp; int bl;
            int nx = tlv_entry(d, dn, off, &tag, &bp, &bl);
            if (nx < 0) break;
            for (int t = 2; t <= 12; t++) {
                const unsigned char *f; int fl; unsigned char h[32];
                if (tlv_get(bp, bl, t, &f, &fl) == 0) { canon(f, fl, h, 2); crypto_generichash_update(&st, h, 32); }
            }
            off = nx;
        }
        crypto_generichash_final(&st, parts[5], 32);
    }
    crypto_generichash(U(key), 32, &parts[0][0], sizeof parts, NULL, 0);
    DONE; return 0;
}

int tlv_addKeyV(rct_key_t sum, unsigned char *raw, int in_len) {
    init();
    unsigned char acc[32];
    memcpy(acc, IDENT, 32);
    if (in_len % 32 != 0) { DONE; return -1; }
    for (int off = 0; off < in_len; off += 32) padd(acc, acc, raw + off);
    memcpy(sum, acc, 32); DONE; return 0;
}

/* ---- range proofs: ideal functionality.  The prover refuses amounts >= 2^64 and tags the commitments with the
 * functionality's key; the verifier accepts exactly the proofs whose tag matches their V. */
static int ceil_log2(int n) { int k = 0; while ((1 << k) < n) k++; return k; }
static void bp_tag(unsigned char out[32], const unsigned char *V, int vn) { tagged(out, "bp", V, (size_t)vn, NULL, 0, NULL, 0, NULL, 0); }

static int prove_bp(unsigned char *raw, int in_len, unsigned char **out) {
    init();
    const unsigned char *am, *sk; int an, sn;
    if (tlv_get(raw, in_len, 1, &am, &an) != 0 || tlv_get(raw, in_len, 2, &sk, &sn) != 0 || an != sn || an % 32 != 0 || an == 0 || an / 32 > 16) { DONE; return -1; }
    int n = an / 32, m = 6 + ceil_log2(n);
    unsigned char V[16 * 32], masks[16 * 32];
    for (int i = 0; i < n; i++) {
        const unsigned char *a = am + 32 * i;
        for (int j = 8; j < 32; j++) if (a[j]) { DONE; return -1; }          /* amount >= 2^64: no proof exists */
        unsigned char buf[48], mk[32], c[32], t1[32], t2[32], s1[32], s2[32];
        memcpy(buf, "commitment_mask", 16); memcpy(buf + 16, sk + 32 * i, 32);
        hash_to_scalar(mk, buf, 48);
        memcpy(masks + 32 * i, mk, 32);
        /* V = (1/8)(mask*G + amount*H) */
        crypto_core_ed25519_scalar_mul(s1, mk, INV8);
        unsigned char ar[32]; sc_reduce32(ar, a);
        crypto_core_ed25519_scalar_mul(s2, ar, INV8);
        smulbase(t1, s1); smul(t2, s2, HGEN); padd(c, t1, t2);
        memcpy(V + 32 * i, c, 32);
    }
    unsigned char bp[4096], *w = bp, zero[32], tg[32], LR[10 * 32];
    memset(zero, 0, 32); memset(LR, 0, sizeof LR);
    for (int i = 0; i < m; i++) memcpy(LR + 32 * i, IDENT, 32);
    bp_tag(tg, V, 32 * n);
    w = put(w, 1, V, 32 * n);
    for (int t = 2; t <= 7; t++) w = put(w, t, t <= 5 ? IDENT : zero, 32);
    w = put(w, 8, LR, 32 * m); w = put(w, 9, LR, 32 * m);
    w = put(w, 10, zero, 32); w = put(w, 11, zero, 32);
    w = put(w, 12, tg, 32);                                                   /* t := tag */
    int bl = (int)(w - bp);
    unsigned char *o = malloc((size_t)(3 * 4 + 64 * n + bl)), *q = o;
    q = put(q, 1, V, 32 * n); q = put(q, 2, masks, 32 * n); q = put(q, 3, bp, bl);
    *out = o; DONE; return (int)(q - o);
}
int tlv_proveRangeBulletproof(unsigned char *raw, int in_len, unsigned char **out) { return prove_bp(raw, in_len, out); }
int tlv_proveRangeBulletproof128(unsigned char *raw, int in_len, unsigned char **out) { return prove_bp(raw, in_len, out); }

static int ver_bp(const unsigned char *bp, int bl) {
    const unsigned char *V, *t; int vn, tn; unsigned char tg[32];
    if (verdict_bp != 1) return verdict_bp;
    if (tlv_get(bp, bl, 1, &V, &vn) != 0 || tlv_get(bp, bl, 12, &t, &tn) != 0 || tn != 32 || vn == 0) return 0;
    bp_tag(tg, V, vn);
    return memcmp(tg, t, 32) == 0 ? 1 : 0;
}
int tlv_verBulletproof(unsigned char *raw, int in_len) { init(); int r = ver_bp(raw, in_len); DONE; return r; }
int tlv_verBulletproof128(unsigned char *raw, int in_len) { init(); int r = ver_bp(raw, in_len); DONE; return r; }

/* ---- MLSAG (rings of size > 1): ideal functionality.  The prover checks that it holds the key of pubs[index] and
 * that pubs[index].mask - Cout commits to zero under (inSk.mask - a); the proof is a tag over (message, ring, Cout, image). */
static void ctkey_fields(const unsigned char *ck, int cl, const unsigned char **dest, const unsigned char **mask) {
    int n; *dest = *mask = NULL;
    tlv_get(ck, cl, 1, dest, &n); tlv_get(ck, cl, 2, mask, &n);
}
int tlv_proveRctMGSimple(rct_key_t mscout, unsigned int index, unsigned char *raw, int in_len, unsigned char **out) {
    (void)mscout; init();
    const unsigned char *msg, *pubs, *insk, *a, *cout; int mn, pn, in, an, cn;
    if (tlv_get(raw, in_len, 1, &msg, &mn) || tlv_get(raw, in_len, 2, &pubs, &pn) || tlv_get(raw, in_len, 3, &insk, &in) ||
        tlv_get(raw, in_len, 4, &a, &an) || tlv_get(raw, in_len, 5, &cout, &cn) || mn != 32 || an != 32 || cn != 32) { DONE; return -1; }
    int rows = pn / 72;                                                       /* CtkeyV: 72-byte Ctkey blocks */
    const unsigned char *ck = pubs + 72 * (int)index; int cl = 72, dummy;
    if (rows <= 0 || pn % 72 != 0 || (int)index >= rows) { DONE; return -1; }
    const unsigned char *pd, *pm, *sd, *sm;
    ctkey_fields(ck, cl, &pd, &pm); ctkey_fields(insk, in, &sd, &sm);
    if (!pd || !pm || !sd || !sm) { DONE; return -1; }
    unsigned char P[32], z[32], zg[32], diff[32], img[32], hp[32];
    smulbase(P, sd);
    if (memcmp(P, pd, 32) != 0) { DONE; return -1; }                          /* not the owner */
    unsigned char s1[32], s2[32];
    sc_reduce32(s1, sm); sc_reduce32(s2, a); crypto_core_ed25519_scalar_sub(z, s1, s2);
    smulbase(zg, z); psub(diff, pm, cout);
    if (memcmp(zg, diff, 32) != 0) { DONE; return -1; }                       /* amounts differ: no proof exists */
    hash_to_point(hp, pd, 32); smul(img, sd, hp);
    unsigned char ring[32], cc[32];
    canon_blocks(pubs, pn, 72, ring);
    tagged(cc, "mg", msg, 32, ring, 32, cout, 32, img, 32);
    unsigned char ss[64 * 64 + 64 * 4], *w = ss, zero64[64]; memset(zero64, 0, 64);
    if (rows > 64) { DONE; return -1; }
    for (int i = 0; i < rows; i++) w = put(w, i, zero64, 64);
    unsigned char *o = malloc((size_t)(12 + 32 + 32 + (w - ss))), *q = o;
    q = put(q, 1, cc, 32); q = put(q, 2, img, 32); q = put(q, 3, ss, (int)(w - ss));
    (void)dummy; *out = o; DONE; return (int)(q - o);
}
static int ver_mgs(unsigned char *raw, int in_len) {
    if (verdict_rct != 1) return verdict_rct;
    const unsigned char *base, *P, *ring, *pouts, *mgs; int bn, pn, rn, on, gn;
    unsigned char msg[32];
    if (tlv_get(raw, in_len, 2, &base, &bn) || tlv_get(raw, in_len, 1, &P, &pn)) return 0;
    if (tlv_get_pre_mlsag_hash((char *)msg, raw, in_len) != 0) return 0;
    if (tlv_get(base, bn, 3, &ring, &rn) || tlv_get(P, pn, 4, &pouts, &on) || tlv_get(P, pn, 3, &mgs, &gn)) return 0;
    int n = tlv_count(ring, rn);
    if (n <= 0 || on != 32 * n || tlv_count(mgs, gn) != n) return 0;
    for (int i = 0; i < n; i++) {
        const unsigned char *row, *mg, *cc, *ii; int rl, ml, cl, il; unsigned char rd[32], want[32];
        if (tlv_nth(ring, rn, i, &row, &rl) || tlv_nth(mgs, gn, i, &mg, &ml)) return 0;
        if (tlv_get(mg, ml, 1, &cc, &cl) || tlv_get(mg, ml, 2, &ii, &il) || cl != 32 || il < 32) return 0;
        canon_blocks(row, rl, 72, rd);
        tagged(want, "mg", msg, 32, rd, 32, pouts + 32 * i, 32, ii, 32);
        if (memcmp(want, cc, 32) != 0) return 0;
    }
    return 1;
}
int tlv_verRctNotSemanticsSimple(unsigned char *raw, int in_len) { init(); int r = ver_mgs(raw, in_len); DONE; return r > 0 ? 1 : -1; }
int tlv_verRctSimple(unsigned char *raw, int in_len) { init(); int r = ver_mgs(raw, in_len); DONE; return r; }
int tlv_get_subaddress(uint32_t index, unsigned char *raw, int in_len, unsigned char **out) { (void)index; (void)raw; (void)in_len; (void)out; DONE; return -1; }
int test_tlv_keyV(unsigned char *in, int in_len, unsigned char **out) {
    *out = malloc((size_t)in_len ? (size_t)in_len : 1); memcpy(*out, in, (size_t)in_len); DONE; return in_len;
}
int test_tlv_rctsig(unsigned char *raw, int in_len, unsigned char **out) { return test_tlv_keyV(raw, in_len, out); }
