#!/bin/sh
# builds the stub libxcrypto.a and the six empty boost archives into /verif/stubs/lib
set -e
cd "$(dirname "$0")"
REPO=${VERIF_REPO:-/repo}
mkdir -p lib
gcc -O2 -c -fPIC -I"$REPO/libs/cryptonote/xcrypto" -o lib/xcrypto_stub.o xcrypto/xcrypto_stub.c
rm -f lib/libxcrypto.a
ar rcs lib/libxcrypto.a lib/xcrypto_stub.o
echo 'static int lvstub_empty;' > lib/empty.c
gcc -c -o lib/empty.o lib/empty.c
for b in system filesystem thread date_time regex chrono; do
  rm -f lib/libboost_$b.a; ar rcs lib/libboost_$b.a lib/empty.o
done
rm -f lib/empty.c
