package c11

import "bytes"

// equivV is the equality the code provides across a round trip, spelled out per descriptor constructor:
// a nil *big.Int comes back as 0; a pointer whose target encodes as an empty value (0x80 / 0xC0) comes back nil;
// nil and empty slices/maps are not distinguished; everything else must be identical.
func (u *Universe) equivV(d *Desc, a, b *V) bool {
	switch d.K {
	case '@':
		return u.equivV(u.Defs[d.N], a, b)
	case 'E':
		// encoder side in, decoder side out: []*big.Int elements come back nil for 0, []*T(custom) as written
		if d.Sub[0].K == 'G' {
			za := a.K == 'n' || len(a.Sub[0].B) == 0
			zb := b.K == 'n' || len(b.Sub[0].B) == 0
			if za || zb {
				return za && zb
			}
		}
		return u.equivV(d.Sub[0], a, b)
	case 'G':
		za := a.K == 'n' || len(a.Sub[0].B) == 0
		zb := b.K == 'n' || len(b.Sub[0].B) == 0
		if za || zb {
			return za && zb
		}
		return bytes.Equal(a.Sub[0].B, b.Sub[0].B) && a.Sub[0].Neg == b.Sub[0].Neg
	case 'P':
		if !u.nilEmpty(d.Sub[0]) {
			// a nil pointer to a type whose zero value does not encode as an empty item (int: "0", time, map, interface)
			// is written as that zero value and comes back as a pointer to it
			if a.K == 'n' {
				return b.K == 'p' && u.isZeroV(d.Sub[0], b.Sub[0])
			}
			if b.K == 'n' {
				return false
			}
			return u.equivV(d.Sub[0], a.Sub[0], b.Sub[0])
		}
		ea := a.K == 'n' || u.emptyEnc(d.Sub[0], a.Sub[0])
		eb := b.K == 'n' || u.emptyEnc(d.Sub[0], b.Sub[0])
		if ea || eb {
			return ea && eb
		}
		return u.equivV(d.Sub[0], a.Sub[0], b.Sub[0])
	case 'C', 'D':
		if a.K == 'n' || b.K == 'n' {
			return a.K == b.K
		}
		return u.equivV(u.Defs[d.Sub[0].N], a.Sub[0], b.Sub[0])
	case 'c', 'd':
		return u.equivV(u.Defs[d.Sub[0].N], a, b)
	case 'L', 'R':
		if len(a.Sub) != len(b.Sub) {
			return false
		}
		for i := range a.Sub {
			if !u.equivV(d.Sub[0], a.Sub[i], b.Sub[i]) {
				return false
			}
		}
		return true
	case 'Q':
		if len(a.Sub) != len(d.Sub) || len(b.Sub) != len(d.Sub) {
			return false
		}
		for i, s := range d.Sub {
			if !u.equivV(s, a.Sub[i], b.Sub[i]) {
				return false
			}
		}
		return true
	case 'I':
		if a.K == 'n' || b.K == 'n' {
			return a.K == b.K
		}
		return a.Idx == b.Idx && u.equivV(&Desc{K: '@', N: u.Reg[a.Idx].Ty}, a.Sub[0], b.Sub[0])
	case 'M':
		if len(a.Keys) != len(b.Keys) {
			return false
		}
		for i, k := range a.Keys { // insertion order vs sorted dump: look the key up
			j := -1
			for x, kb := range b.Keys {
				if bytes.Equal(k, kb) {
					j = x
				}
			}
			if j < 0 || !u.equivV(&Desc{K: 'G'}, a.Sub[i], b.Sub[j]) {
				return false
			}
		}
		return true
	}
	return a.String() == b.String()
}

// emptyEnc: does v (of descriptor d) encode as an empty string or empty list, which the optional-pointer decoder reads as nil?
func (u *Universe) emptyEnc(d *Desc, v *V) bool {
	switch d.K {
	case '@':
		return u.emptyEnc(u.Defs[d.N], v)
	case 'u', 'F':
		return v.U == 0
	case 'b':
		return v.K == 'f'
	case 'Y', 'S':
		return len(v.B) == 0
	case 'A':
		return d.N == 0
	case 'g':
		return len(v.B) == 0
	case 'G':
		return v.K == 'n' || len(v.Sub[0].B) == 0
	case 'L', 'R':
		return len(v.Sub) == 0
	case 'Q':
		return len(d.Sub) == 0
	case 'P':
		return v.K == 'n' && u.nilEmpty(d.Sub[0]) || v.K == 'p' && u.emptyEnc(d.Sub[0], v.Sub[0])
	case 'c', 'd':
		return u.emptyEnc(u.Defs[d.Sub[0].N], v)
	}
	return false
}

// nilEmpty: a nil pointer to d is written as 0x80 / 0xC0
func (u *Universe) nilEmpty(d *Desc) bool {
	switch d.K {
	case '@':
		return u.nilEmpty(u.Defs[d.N])
	case 'i', 'T', 'M', 'I':
		return false
	}
	return true
}

// isZeroV: v is the zero value of d (for the kinds whose nil pointer is written as the zero value)
func (u *Universe) isZeroV(d *Desc, v *V) bool {
	switch d.K {
	case '@':
		return u.isZeroV(u.Defs[d.N], v)
	case 'i':
		return v.K == 'i' && v.I == 0
	case 'T':
		return v.K == 'T' && v.Sec == -62135596800 && v.Nsec == 0
	case 'M':
		return v.K == 'm' && len(v.Keys) == 0
	case 'I':
		return v.K == 'n'
	}
	return false
}
