// Package c11: encoding harness.  desc.go derives, by reflection over the REAL Go types, the type descriptor
// (the model's `Ty`) that is sent to the Lean driver as data.  The case analysis mirrors libs/ser makeWriter /
// makeDecoder (trusted part of the harness).
package c11

import (
	"fmt"
	"math/big"
	"reflect"
	"sort"
	"strings"
	"time"

	"github.com/lianxiangcloud/linkchain/libs/ser"
)

// Desc kinds (one letter each, the wire syntax of a descriptor):
//
//	u<bits> i<bits> b  G (*big.Int)  g (big.Int)  Y ([]byte)  S (string)  A<n> ([n]byte)  T (time.Time)  M (map[[20]byte]*big.Int)
//	L(d) slice   R<n>(d) array   Q(d,...) struct   P(d) pointer   C(d) pointer to a type with custom EncodeSER/DecodeSER
//	c(d) value of such a type   I(k,...) registered interface with the assignable registry indices   @<id> named type
//	E(d|d) encoder-side | decoder-side descriptor where libs/ser treats them differently   X unsupported
type Desc struct {
	K    byte
	N    int
	Sub  []*Desc
	Impl []int
	RT   reflect.Type // the Go type this node describes
	Fld  []int        // Q: Go field index of each encoded field
	Cust *custom      // C/c: how to reach the encoded representation
}

type custom struct {
	field  string   // unexported field holding the encoded struct (Transaction.data) ...
	fields []string // ... or the exported fields that EncodeSER copies into a private struct (Log)
	atomic bool     // DecodeSER decodes into a temporary and copies only on success (Log); Transaction decodes in place
}

var customs = map[string]*custom{
	"types.Transaction":      {field: "data"},
	"types.TokenTransaction": {field: "data"},
	"types.Log":              {atomic: true, fields: []string{"Address", "Topics", "Data"}},
	"types.LogForStorage":    {atomic: true, fields: []string{"Address", "Topics", "Data", "BlockNumber", "TxHash", "TxIndex", "BlockHash", "Index", "BlockTime"}},
}

var (
	encoderIface = reflect.TypeOf(new(ser.Encoder)).Elem()
	decoderIface = reflect.TypeOf(new(ser.Decoder)).Elem()
	bigIntT      = reflect.TypeOf(big.Int{})
	timeT        = reflect.TypeOf(time.Time{})
	rawT         = reflect.TypeOf(ser.RawValue{})
)

// RegEntry is one RegisterConcrete entry, discovered at run time through the real codec.
type RegEntry struct {
	Idx    int
	Name   string
	Disfix []byte
	Ptr    bool         // PointerPreferred
	RT     reflect.Type // non-pointer concrete type
	Ty     int          // def id of the concrete type's descriptor
}

type Universe struct {
	Defs    []*Desc // named types; Defs[i] is the body of @i
	DefName []string
	ids     map[reflect.Type]int
	Reg     []*RegEntry
	regBy   map[reflect.Type]*RegEntry
	Unsup   map[string]bool
	Ifaces  map[reflect.Type]bool // registered interface types
}

func isByteElem(t reflect.Type) bool {
	return t.Kind() == reflect.Uint8 && !t.Implements(encoderIface)
}

func (u *Universe) unsup(why string) *Desc {
	u.Unsup[why] = true
	return &Desc{K: 'X'}
}

// ref returns @id for rt, creating the definition on first use (recursive types terminate through the id).
func (u *Universe) ref(rt reflect.Type, mk func() *Desc) *Desc {
	if id, ok := u.ids[rt]; ok {
		return &Desc{K: '@', N: id, RT: rt}
	}
	id := len(u.Defs)
	u.ids[rt] = id
	u.Defs = append(u.Defs, nil)
	u.DefName = append(u.DefName, rt.String())
	u.Defs[id] = mk()
	return &Desc{K: '@', N: id, RT: rt}
}

func (u *Universe) structDesc(rt reflect.Type, only []string) *Desc {
	d := &Desc{K: 'Q', RT: rt}
	if only != nil {
		for _, name := range only {
			f, ok := rt.FieldByName(name)
			if !ok {
				return u.unsup("custom field missing " + rt.String() + "." + name)
			}
			d.Sub = append(d.Sub, u.Of(f.Type))
			d.Fld = append(d.Fld, f.Index[0])
		}
		return d
	}
	for i := 0; i < rt.NumField(); i++ {
		f := rt.Field(i)
		if f.PkgPath != "" {
			continue
		}
		skip := false
		for _, t := range strings.Split(f.Tag.Get("rlp"), ",") {
			switch strings.TrimSpace(t) {
			case "-":
				skip = true
			case "tail":
				return u.unsup("rlp tail tag " + rt.String())
			}
		}
		if skip {
			continue
		}
		d.Sub = append(d.Sub, u.Of(f.Type))
		d.Fld = append(d.Fld, i)
	}
	return d
}

func (u *Universe) customInner(rt reflect.Type) *Desc {
	key := rt.String()
	c, ok := customs[key]
	if !ok {
		// a type with its own EncodeSER and no hand descriptor: the obligation is broken until one is written
		return u.unsup("custom EncodeSER without descriptor: " + key)
	}
	if c.field != "" {
		f, ok := rt.FieldByName(c.field)
		if !ok {
			return u.unsup("custom field missing " + key)
		}
		return u.Of(f.Type)
	}
	return u.structDesc(rt, c.fields)
}

func custLetter(k byte, rt reflect.Type) byte {
	if c := customs[rt.String()]; c != nil && c.atomic {
		return k + 1 // 'D' / 'd'
	}
	return k
}

// Of mirrors makeWriter / makeDecoder.
func (u *Universe) Of(rt reflect.Type) *Desc {
	kind := rt.Kind()
	encPtr := rt.Implements(encoderIface)
	decPtr := rt.Implements(decoderIface)
	switch {
	case rt == rawT:
		return u.unsup("RawValue")
	case encPtr || decPtr:
		if !(encPtr && decPtr) || kind != reflect.Ptr {
			return u.unsup("encoder/decoder asymmetry " + rt.String())
		}
		el := rt.Elem()
		return &Desc{K: custLetter('C', el), RT: rt, Cust: customs[el.String()], Sub: []*Desc{u.ref(el, func() *Desc { return u.customInner(el) })}}
	case kind != reflect.Ptr && (reflect.PtrTo(rt).Implements(encoderIface) || reflect.PtrTo(rt).Implements(decoderIface)):
		if !(reflect.PtrTo(rt).Implements(encoderIface) && reflect.PtrTo(rt).Implements(decoderIface)) {
			return u.unsup("encoder/decoder asymmetry " + rt.String())
		}
		return &Desc{K: custLetter('c', rt), RT: rt, Cust: customs[rt.String()], Sub: []*Desc{u.ref(rt, func() *Desc { return u.customInner(rt) })}}
	case kind == reflect.Interface:
		if !u.Ifaces[rt] {
			return u.unsup("unregistered interface " + rt.String())
		}
		d := &Desc{K: 'I', RT: rt}
		for _, e := range u.Reg {
			ct := e.RT
			if e.Ptr {
				ct = reflect.PtrTo(ct)
			}
			if ct.AssignableTo(rt) {
				d.Impl = append(d.Impl, e.Idx)
			}
		}
		return d
	case rt.AssignableTo(reflect.PtrTo(bigIntT)):
		return &Desc{K: 'G', RT: rt}
	case rt.AssignableTo(bigIntT):
		return &Desc{K: 'g', RT: rt}
	case kind == reflect.Float32 || kind == reflect.Float64:
		// writeFloat/decodeFloat: the IEEE-754 bit pattern of the value as float64, written as an unsigned integer.
		// The model sees a uint 64 (descriptor u64); Build/Dump convert through math.Float64bits.
		return &Desc{K: 'F', N: rt.Bits(), RT: rt}
	case kind >= reflect.Uint && kind <= reflect.Uintptr:
		return &Desc{K: 'u', N: rt.Bits(), RT: rt}
	case kind >= reflect.Int && kind <= reflect.Int64:
		return &Desc{K: 'i', N: rt.Bits(), RT: rt}
	case kind == reflect.Bool:
		return &Desc{K: 'b', RT: rt}
	case kind == reflect.String:
		return &Desc{K: 'S', RT: rt}
	case kind == reflect.Slice && isByteElem(rt.Elem()):
		return &Desc{K: 'Y', RT: rt}
	case kind == reflect.Array && isByteElem(rt.Elem()):
		return &Desc{K: 'A', N: rt.Len(), RT: rt}
	case kind == reflect.Slice:
		el := rt.Elem()
		ed := u.Of(el)
		if el.Kind() == reflect.Ptr && (ed.K == 'G' || ed.K == 'C' || ed.K == 'D') {
			// makeListDecoder: pointer elements always go through makeOptionalPtrDecoder(elem), bypassing decodeBigInt / decodeDecoder
			ed = &Desc{K: 'E', RT: el, Sub: []*Desc{ed, {K: 'P', RT: el, Sub: []*Desc{u.Of(el.Elem())}}}}
		}
		return &Desc{K: 'L', RT: rt, Sub: []*Desc{ed}}
	case kind == reflect.Array:
		return &Desc{K: 'R', N: rt.Len(), RT: rt, Sub: []*Desc{u.Of(rt.Elem())}}
	case rt == timeT:
		return &Desc{K: 'T', RT: rt}
	case kind == reflect.Struct:
		return u.ref(rt, func() *Desc { return u.structDesc(rt, nil) })
	case kind == reflect.Map:
		k, v := rt.Key(), rt.Elem()
		if k.Kind() == reflect.Array && isByteElem(k.Elem()) && k.Len() == 20 && v.AssignableTo(reflect.PtrTo(bigIntT)) {
			return &Desc{K: 'M', RT: rt}
		}
		return u.unsup("map " + rt.String())
	case kind == reflect.Ptr:
		return &Desc{K: 'P', RT: rt, Sub: []*Desc{u.Of(rt.Elem())}}
	}
	return u.unsup("kind " + rt.String())
}

// String renders the wire syntax.
func (d *Desc) String() string {
	var sb strings.Builder
	d.write(&sb)
	return sb.String()
}

func (d *Desc) write(sb *strings.Builder) {
	if d.K == 'F' {
		sb.WriteString("u64")
		return
	}
	sb.WriteByte(d.K)
	switch d.K {
	case 'u', 'i', 'A', '@':
		fmt.Fprintf(sb, "%d", d.N)
	case 'R':
		fmt.Fprintf(sb, "%d", d.N)
	case 'I':
		sb.WriteByte('(')
		for i, k := range d.Impl {
			if i > 0 {
				sb.WriteByte(',')
			}
			fmt.Fprintf(sb, "%d", k)
		}
		sb.WriteByte(')')
		return
	}
	if len(d.Sub) > 0 || d.K == 'Q' {
		sb.WriteByte('(')
		sep := byte(',')
		if d.K == 'E' {
			sep = '|'
		}
		for i, s := range d.Sub {
			if i > 0 {
				sb.WriteByte(sep)
			}
			s.write(sb)
		}
		sb.WriteByte(')')
	}
}

// closure: ids of the defs and registry entries reachable from d.
func (u *Universe) closure(d *Desc, defs, regs map[int]bool) {
	switch d.K {
	case '@':
		if !defs[d.N] {
			defs[d.N] = true
			u.closure(u.Defs[d.N], defs, regs)
		}
	case 'I':
		for _, k := range d.Impl {
			if !regs[k] {
				regs[k] = true
				u.closure(&Desc{K: '@', N: u.Reg[k].Ty}, defs, regs)
			}
		}
	}
	for _, s := range d.Sub {
		u.closure(s, defs, regs)
	}
}

// Preamble: the `reg` and `def` op lines a case over root needs (self-contained cases).
func (u *Universe) Preamble(root *Desc) []string {
	defs, regs := map[int]bool{}, map[int]bool{}
	u.closure(root, defs, regs)
	var out []string
	// every registered disfix is known to the decoder (a foreign one is found and then fails the interface assignment)
	for _, e := range u.Reg {
		ty := -1
		if regs[e.Idx] {
			ty = e.Ty
		}
		p := 0
		if e.Ptr {
			p = 1
		}
		out = append(out, fmt.Sprintf("reg idx=%d disfix=%x ptr=%d ty=%d", e.Idx, e.Disfix, p, ty))
	}
	var ids []int
	for id := range defs {
		ids = append(ids, id)
	}
	sort.Ints(ids)
	for _, id := range ids {
		out = append(out, fmt.Sprintf("def id=%d d=%s", id, u.Defs[id].String()))
	}
	return out
}
