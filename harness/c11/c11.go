package c11

import (
	"bytes"
	"encoding/hex"
	"encoding/json"
	"fmt"
	"os"
	osexec "os/exec"
	"reflect"
	"runtime/debug"
	"runtime/metrics"
	"sort"
	"strconv"
	"strings"
	"sync"
	"time"

	"github.com/lianxiangcloud/linkchain/blockchain"
	"github.com/lianxiangcloud/linkchain/consensus"
	"github.com/lianxiangcloud/linkchain/evidence"
	"github.com/lianxiangcloud/linkchain/libs/crypto"
	"github.com/lianxiangcloud/linkchain/libs/ser"
	"github.com/lianxiangcloud/linkchain/mempool"
	"github.com/lianxiangcloud/linkchain/state"
	"github.com/lianxiangcloud/linkchain/types"

	"lvharness/hx"
)

type P struct{}

func (P) Rule() string {
	return "type descriptors of every registered consensus/storage type derived by reflection and sent as data; " +
		"streams: (rt) type-directed values (nil pointers/interfaces, 0/max/negative ints, big ints, times, nested interfaces, token maps) " +
		"-> EncodeToBytes[WithType] vs model bytes, DecodeBytes[WithType]/VerifDecodeMsg of them, re-encode; (canon) the same map in several insertion orders; " +
		"(fuzz) random bytes, bit flips/truncation/insertion on valid encodings, length-field inflation, deep nesting, foreign interface prefixes, map-count inflation into every decoder entry point; " +
		"(edge) values the encoder rejects. non-trivial = rt case whose value has >= 8 nodes, or fuzz input derived from a valid encoding; distinct = distinct op sequence"
}

// registered concrete names (RegisterConcrete call sites of the packages linked into the harness); entries that the
// running codec does not know (package not linked, or the type was already registered under another name) are skipped
var regNames = []string{
	"tx", "txt", "txm", "txcut", "utx",
	"DuplicateVoteEvidence", "FaultValidatorsEvidence", "MockGoodEvidence", "MockBadEvidence",
	"UTXOInput", "AccountInput", "MineInput", "UTXOOutput", "AccountOutput",
	"event/NewBlock", "event/NewBlockHeader", "event/Log", "event/RoundState", "event/Vote", "event/ProposalHeartbeat", "event/ProposalString",
	"PubKeyEd25519", "PubKeySecp256k1", "PrivKeyEd25519", "PrivKeySecp256k1", "SignEd25519", "SignSecp256k1",
	"p2p/PacketPing", "p2p/PacketPong", "p2p/PacketMsg",
	"consensus/wal/EventDataRoundState", "consensus/wal/MsgInfo", "consensus/wal/TimeoutInfo", "consensus/wal/EndHeightMessage",
	"consensus/NewRoundStepMessage", "consensus/CommitStep", "consensus/Proposal", "consensus/ProposalPOL", "consensus/BlockPart",
	"consensus/Vote", "consensus/HasVote", "consensus/VoteSetMaj23", "consensus/VoteSetBits", "consensus/ProposalHeartbeat",
	"blockchain/BlockRequest", "blockchain/BlockResponse", "blockchain/NoBlockResponse", "blockchainl/StatusResponse", "blockchain/StatusRequest",
	"mempool/TxMessage", "mempool/TxHashMessage", "evidence/EvidenceListMessage",
}

func ifaceTypes() []reflect.Type {
	return []reflect.Type{
		reflect.TypeOf((*types.Tx)(nil)).Elem(), reflect.TypeOf((*types.RegularTx)(nil)).Elem(), reflect.TypeOf((*types.Evidence)(nil)).Elem(),
		reflect.TypeOf((*types.Input)(nil)).Elem(), reflect.TypeOf((*types.Output)(nil)).Elem(), reflect.TypeOf((*types.TMEventData)(nil)).Elem(),
		reflect.TypeOf((*crypto.PubKey)(nil)).Elem(), reflect.TypeOf((*crypto.PrivKey)(nil)).Elem(), reflect.TypeOf((*crypto.Signature)(nil)).Elem(),
		reflect.TypeOf((*consensus.ConsensusMessage)(nil)).Elem(), reflect.TypeOf((*consensus.WALMessage)(nil)).Elem(),
		reflect.TypeOf((*mempool.MempoolMessage)(nil)).Elem(), reflect.TypeOf((*blockchain.BlockchainMessage)(nil)).Elem(),
		reflect.TypeOf((*evidence.EvidenceMessage)(nil)).Elem(),
	}
}

type Root struct {
	Name string
	RT   reflect.Type
	D    *Desc
	Key  string // D.String(): the `ty=` argument
	Pre  []byte // disfix written/skipped by the WithType entry points (nil if the type is not a registered concrete)
	Pream []string
	Msg  bool // decoded through consensus.VerifDecodeMsg when wt=1
	Big  bool // large closure: sampled less often
	HasMap bool
}

type world struct {
	u      *Universe
	roots  []*Root
	byKey  map[string]*Root
	byName map[string]*Root
}

var (
	wOnce sync.Once
	w     *world
)

func txNames() map[string]string {
	return map[string]string{"tx": types.TxNormal, "txt": types.TxToken, "txm": types.TxMultiSignAccount, "txcut": types.TxContractUpgrade, "utx": types.TxUTXO}
}

func theWorld() *world {
	wOnce.Do(func() {
		u := &Universe{ids: map[reflect.Type]int{}, regBy: map[reflect.Type]*RegEntry{}, Unsup: map[string]bool{}, Ifaces: map[reflect.Type]bool{}}
		// registered interfaces: a nil field of a registered interface type is written as 0x00, of an unregistered one as 0xC0
		for _, it := range ifaceTypes() {
			st := reflect.StructOf([]reflect.StructField{{Name: "F", Type: it}})
			b, err := ser.EncodeToBytes(reflect.New(st).Interface())
			if err == nil && bytes.Equal(b, []byte{0xC1, 0x00}) {
				u.Ifaces[it] = true
			}
		}
		// registry discovery through the real codec: decode <disfix> C0 into an empty registered interface
		names := append([]string{}, regNames...)
		for i, n := range names {
			if real, ok := txNames()[n]; ok {
				names[i] = real
			}
		}
		sort.Strings(names)
		for _, name := range names {
			db, pb := ser.NameToDisfix(name)
			disfix := append(append([]byte{}, db[:]...), pb[:]...)
			var msg consensus.ConsensusMessage
			func() {
				defer func() { recover() }()
				ser.DecodeBytes(append(append([]byte{}, disfix...), 0xC0), &msg)
			}()
			if msg == nil {
				continue
			}
			rt := reflect.TypeOf(msg)
			e := &RegEntry{Idx: len(u.Reg), Name: name, Disfix: disfix, Ptr: rt.Kind() == reflect.Ptr}
			if e.Ptr {
				rt = rt.Elem()
			}
			if u.regBy[rt] != nil {
				continue
			}
			e.RT = rt
			u.Reg = append(u.Reg, e)
			u.regBy[rt] = e
		}
		for _, e := range u.Reg {
			d := u.Of(e.RT)
			if d.K == '@' {
				e.Ty = d.N
			} else {
				e.Ty = len(u.Defs)
				u.Defs = append(u.Defs, d)
				u.DefName = append(u.DefName, e.RT.String())
			}
		}
		w = &world{u: u, byKey: map[string]*Root{}, byName: map[string]*Root{}}
		add := func(name string, rt reflect.Type, msg bool) {
			d := u.Of(rt)
			r := &Root{Name: name, RT: rt, D: d, Key: d.String(), Msg: msg}
			if _, dup := w.byKey[r.Key]; dup {
				return
			}
			base := rt
			for base.Kind() == reflect.Ptr {
				base = base.Elem()
			}
			if e := u.regBy[base]; e != nil {
				r.Pre = e.Disfix
			}
			r.Pream = u.Preamble(d)
			for _, l := range r.Pream {
				if strings.Contains(l, "X") && strings.HasPrefix(l, "def ") {
					u.Unsup["root skipped: "+name] = true
					return
				}
			}
			if strings.Contains(r.Key, "X") {
				u.Unsup["root skipped: "+name] = true
				return
			}
			r.Big = len(r.Pream) > 60
			r.HasMap = hasKind(u, d, "M", map[int]bool{})
			w.roots = append(w.roots, r)
			w.byKey[r.Key] = r
			w.byName[sanitize(r.Name)] = r
		}
		add("Block", reflect.TypeOf(types.Block{}), false)
		add("*Block", reflect.TypeOf(&types.Block{}), false)
		add("Header", reflect.TypeOf(types.Header{}), false)
		add("Data", reflect.TypeOf(types.Data{}), false)
		add("EvidenceData", reflect.TypeOf(types.EvidenceData{}), false)
		add("Commit", reflect.TypeOf(types.Commit{}), false)
		add("Vote", reflect.TypeOf(types.Vote{}), false)
		add("*Vote", reflect.TypeOf(&types.Vote{}), false)
		add("Proposal", reflect.TypeOf(types.Proposal{}), false)
		add("Part", reflect.TypeOf(types.Part{}), false)
		add("PartSetHeader", reflect.TypeOf(types.PartSetHeader{}), false)
		add("BlockID", reflect.TypeOf(types.BlockID{}), false)
		add("ValidatorSet", reflect.TypeOf(types.ValidatorSet{}), false)
		add("Validator", reflect.TypeOf(types.Validator{}), false)
		add("Receipt", reflect.TypeOf(types.Receipt{}), false)
		add("ReceiptForStorage", reflect.TypeOf(types.ReceiptForStorage{}), false)
		add("Receipts", reflect.TypeOf(types.Receipts{}), false)
		add("TxsResult", reflect.TypeOf(types.TxsResult{}), false)
		add("Account", reflect.TypeOf(state.Account{}), false)
		add("NewStatus", reflect.TypeOf(consensus.NewStatus{}), false)
		add("ValidatorsInfo", reflect.TypeOf(consensus.ValidatorsInfo{}), false)
		add("TimedWALMessage", reflect.TypeOf(consensus.TimedWALMessage{}), false)
		add("*Transaction", reflect.TypeOf(&types.Transaction{}), false)
		add("Transaction", reflect.TypeOf(types.Transaction{}), false)
		add("[]*Transaction", reflect.TypeOf([]*types.Transaction{}), false)
		add("Log", reflect.TypeOf(types.Log{}), false)
		add("Txs", reflect.TypeOf(types.Txs{}), false)
		// harness-local types: shapes libs/ser supports that no registered type of the node uses today (floats, big.Int by
		// value, [0]/[1]/[2]byte, fixed-size arrays of elements, narrow ints, bools, pointers to scalars), so that the writers
		// and decoders for them are exercised and tied to the model as well
		for _, lt := range localTypes() {
			add(lt.name, lt.rt, false)
		}
		for _, it := range ifaceTypes() {
			if u.Ifaces[it] {
				add(it.String(), it, it == reflect.TypeOf((*consensus.ConsensusMessage)(nil)).Elem())
			}
		}
		for _, e := range u.Reg {
			rt := e.RT
			if e.Ptr {
				rt = reflect.PtrTo(rt)
			}
			add(rt.String(), rt, false)
		}
	})
	return w
}

// ---- executor --------------------------------------------------------------------------------

type encRec struct {
	r   *Root
	ptr reflect.Value
	wt  bool
	b   []byte
}

type exec struct{ encs []encRec }

func (P) NewExec() hx.Executor { theWorld(); return &exec{} }

func allocBytes() uint64 {
	s := []metrics.Sample{{Name: "/gc/heap/allocs:bytes"}}
	metrics.Read(s)
	return s[0].Value.Uint64()
}

const allocLimit = 64 << 20

func encodeRoot(r *Root, ptr reflect.Value, pre bool) ([]byte, error) {
	if pre {
		return ser.EncodeToBytesWithType(ptr.Interface())
	}
	return ser.EncodeToBytes(ptr.Interface())
}

func (e *exec) Exec(op string) string {
	if os.Getenv("C11_TRACE") != "" {
		fmt.Fprintln(os.Stderr, clipS(op, 400))
	}
	toks := hx.Tokens(op)
	wd := theWorld()
	switch toks[0] {
	case "case":
		e.encs = nil
		return "ok"
	case "reg", "def":
		return "ok"
	case "pin":
		// the real descriptor of a root whose round trip is covered by theorem (lean/LinkVerif/Model/SerRoots.lean pins it)
		name, _ := hx.Arg(toks, "root")
		r := wd.byName[name]
		if r == nil {
			return "unknown-root"
		}
		out := "d=" + r.Key
		for _, l := range r.Pream {
			if strings.HasPrefix(l, "def ") {
				t := hx.Tokens(l)
				id, _ := hx.Arg(t, "id")
				d, _ := hx.Arg(t, "d")
				out += ";" + id + "=" + d
			}
		}
		return out
	case "cenc":
		// every value this case has encoded so far is encoded again by several goroutines at once: the encoder's caches and
		// scratch space are shared process-wide, the bytes must not depend on what other goroutines encode meanwhile
		n := int(hx.ArgI(toks, "n", 8))
		reps := int(hx.ArgI(toks, "reps", 50))
		bad := make(chan string, n)
		var wg sync.WaitGroup
		for gi := 0; gi < n; gi++ {
			wg.Add(1)
			go func(gi int) {
				defer wg.Done()
				defer func() {
					if rec := recover(); rec != nil {
						bad <- "panic " + hx.PanicSite(debug.Stack())
					}
				}()
				for k := 0; k < reps; k++ {
					for j := range e.encs {
						rec := e.encs[(j+gi)%len(e.encs)]
						b, err := encodeRoot(rec.r, rec.ptr, rec.wt)
						if err != nil || !bytes.Equal(b, rec.b) {
							bad <- "differs"
							return
						}
					}
				}
			}(gi)
		}
		wg.Wait()
		select {
		case m := <-bad:
			return m
		default:
		}
		return fmt.Sprintf("same n=%d", len(e.encs))
	case "enc":
		name, _ := hx.Arg(toks, "root")
		r := wd.byName[name]
		if r == nil {
			return "bad-op"
		}
		pre, _ := hx.Arg(toks, "pre")
		vs, _ := hx.Arg(toks, "val")
		ptr := reflect.New(r.RT)
		wd.u.Build(r.D, ParseV(vs), ptr.Elem())
		b, err := encodeRoot(r, ptr, pre != "-")
		if err != nil {
			return "err"
		}
		if pre == "-" && !encodeToReaderAgrees(ptr.Interface(), b) {
			return "reader-mismatch b=" + hx.Hex(b)
		}
		e.encs = append(e.encs, encRec{r, ptr, pre != "-", b})
		return "b=" + hx.Hex(b)
	case "rdec":
		return execRdec(wd, op, toks)
	case "sobj":
		return execSobj(wd, toks)
	case "sstore":
		return execSstore(toks)
	case "apitest":
		return execApitest()
	case "regtest":
		return execRegtest(wd)
	case "sops":
		return execSops(toks)
	case "item":
		return execItem(toks)
	case "split":
		return execSplit(toks)
	case "wenc":
		return execWenc(wd, toks)
	case "dec":
		name, _ := hx.Arg(toks, "root")
		r := wd.byName[name]
		if r == nil {
			return "bad-op"
		}
		pre, _ := hx.Arg(toks, "pre")
		bs, _ := hx.Arg(toks, "bytes")
		in := hx.UnHex(bs)
		wt, _ := hx.Arg(toks, "wt")
		via, _ := hx.Arg(toks, "via")
		if r.HasMap && childWanted() && bigCount(in) {
			// the known finding map-count-drives-allocation can end the process (runtime: out of memory is not a panic):
			// inputs that may carry a large map count are executed by the same code in a child process
			return workerExec(op)
		}
		ch := make(chan string, 1)
		go func() {
			defer func() {
				if rec := recover(); rec != nil {
					if se, ok := rec.(shapeErr); ok {
						ch <- "harness-shape " + se.msg
						return
					}
					ch <- "panic " + hx.PanicSite(debug.Stack())
				}
			}()
			a0 := allocBytes()
			ptr := reflect.New(r.RT)
			var err error
			switch {
			case via != "":
				var m interface{}
				m, err = callDecodeMsg(via, in)
				if m != nil {
					ptr.Elem().Set(reflect.ValueOf(m))
				}
			case wt == "1" && r.Msg:
				var m consensus.ConsensusMessage
				m, err = consensus.VerifDecodeMsg(in)
				if m != nil {
					ptr.Elem().Set(reflect.ValueOf(m))
				}
			case wt == "1":
				err = ser.DecodeBytesWithType(in, ptr.Interface())
			default:
				err = ser.DecodeBytes(in, ptr.Interface())
			}
			res := " res=ok"
			if d := allocBytes() - a0; d > allocLimit+uint64(64*len(in)) {
				res = " res=alloc"
			}
			if err != nil {
				ch <- "err" + res
				return
			}
			v := wd.u.Dump(r.D, ptr.Elem()).String()
			b2 := ""
			func() {
				defer func() {
					if rec := recover(); rec != nil {
						b2 = "panic"
					}
				}()
				b, err := ser.EncodeToBytes(ptr.Interface())
				if err != nil {
					b2 = "err"
				} else {
					b2 = hx.Hex(b)
				}
			}()
			ch <- "ok v=" + v + " b2=" + b2 + res
		}()
		_ = pre
		select {
		case a := <-ch:
			return a
		case <-time.After(2 * time.Second):
			return "err res=slow"
		}
	}
	return "bad-op"
}

// bigCount: the input contains an RLP string of 6..16 characters that are all hex digits or signs (a candidate map count >= 2^20)
func bigCount(in []byte) bool {
	for i := 0; i < len(in); i++ {
		if in[i] >= 0x86 && in[i] <= 0x91 {
			n := int(in[i] - 0x80)
			if i+n < len(in) {
				ok := true
				for _, c := range in[i+1 : i+1+n] {
					if !(c >= '0' && c <= '9' || c >= 'a' && c <= 'f' || c >= 'A' && c <= 'F' || c == '+' || c == '-') {
						ok = false
						break
					}
				}
				if ok {
					return true
				}
			}
		}
	}
	return false
}

func childWanted() bool { return os.Getenv("C11_CHILD") == "" }

func childDec(op string) string {
	f, err := os.CreateTemp("", "c11-child-*.txt")
	if err != nil {
		return "harness-error"
	}
	defer os.Remove(f.Name())
	f.WriteString("case\n" + op + "\n")
	f.Close()
	cmd := osexec.Command("sh", "-c", "ulimit -v 6000000; exec \"$0\" C11 replay \"$1\"", os.Args[0], f.Name())
	cmd.Env = append(os.Environ(), "C11_CHILD=1")
	out, err := cmd.Output()
	if err != nil {
		// the child died (fatal error: runtime: out of memory): the decode did not stay within bounds
		return "err res=alloc"
	}
	var d struct {
		Impl []string `json:"impl"`
	}
	if json.Unmarshal(out, &d) != nil || len(d.Impl) != 2 {
		return "harness-error"
	}
	return d.Impl[1]
}

// ---- monitors --------------------------------------------------------------------------------

func rootOf(op string) string {
	r, _ := hx.Arg(hx.Tokens(op), "root")
	return r
}

// Monitor evaluates the property on the implementation's own answers:
//
//	decode_no_panic        no decoder entry point panics, whatever the bytes
//	decode_bounded_alloc   a decode allocates at most 64 MiB + 64*len(input); decode_terminates: answers within 2 s
//	roundtrip              decode(encode v) succeeds and re-encodes to the same bytes (ops marked rt=1)
//	canonical              the same value built with different map insertion orders encodes to the same bytes (tag canon)
//	encode_total           the encoder returns bytes or an error for every value of the type (no panic)
func (P) Monitor(c *hx.CaseRun) []hx.Failure {
	var fs []hx.Failure
	var canon []string
	lastVal := ""
	for i, op := range c.Ops {
		ans := c.Impl[i]
		toks := hx.Tokens(op)
		switch toks[0] {
		case "dec":
			if strings.HasPrefix(ans, "panic") {
				site := strings.TrimPrefix(ans, "panic ")
				fs = append(fs, hx.Failure{Monitor: "decode_no_panic", Class: "decode-panic:" + site, Site: site, Msg: "decoding panics: " + clipS(op, 300)})
				continue
			}
			if strings.HasSuffix(ans, "res=alloc") {
				fs = append(fs, hx.Failure{Monitor: "decode_bounded_alloc", Class: "decode-alloc-unbounded:" + rootOf(op), Site: "libs/ser/decode.go", Msg: "decode allocated > 64 MiB for: " + clipS(op, 300)})
			}
			if strings.HasSuffix(ans, "res=slow") {
				fs = append(fs, hx.Failure{Monitor: "decode_terminates", Class: "decode-slow:" + rootOf(op), Site: "libs/ser/decode.go", Msg: "decode did not return within 2 s: " + clipS(op, 300)})
			}
			if b2, _ := hx.Arg(hx.Tokens(ans), "b2"); strings.HasPrefix(ans, "ok ") && (b2 == "panic" || b2 == "err") {
				// the recorded finding explains exactly one shape: the decoded value (the implementation's own v=) holds a nil
				// pointer to a type with a custom coder, which the encoder cannot take; anything else is a new defect
				class := "decoded-value-cannot-be-reencoded-other"
				if v2, _ := hx.Arg(hx.Tokens(ans), "v"); b2 == "panic" && shapeIn(op, v2, (*Universe).hasNilCustomPtr) {
					class = "decoded-value-cannot-be-reencoded"
				}
				fs = append(fs, hx.Failure{Monitor: "roundtrip", Class: class, Site: "libs/ser/decode.go:makeListDecoder", Msg: "the decoder accepts the bytes but its result cannot be encoded (" + b2 + "): " + clipS(op, 300) + " -> " + clipS(ans, 200)})
			}
			if c.Tags["noncanon"] && strings.HasPrefix(ans, "ok ") {
				bs, _ := hx.Arg(toks, "bytes")
				if b2, _ := hx.Arg(hx.Tokens(ans), "b2"); b2 != bs {
					fs = append(fs, hx.Failure{Monitor: "canonical", Class: "noncanonical-item-accepted", Site: "libs/ser/decode.go", Msg: "an encoding with one non-canonical item is accepted and re-encodes differently: " + clipS(op, 300) + " -> " + clipS(ans, 200)})
				}
			}
			if ev, has := hx.Arg(toks, "expectv"); has {
				// the canonical re-encoding of an accepted byte string: decoding it gives the same value and the same bytes
				bs, _ := hx.Arg(toks, "bytes")
				at := hx.Tokens(ans)
				v2, _ := hx.Arg(at, "v")
				b2, _ := hx.Arg(at, "b2")
				if !strings.HasPrefix(ans, "ok ") || v2 != ev || b2 != bs {
					fs = append(fs, hx.Failure{Monitor: "canonical", Class: "canonical-reencoding-unstable", Site: "libs/ser", Msg: "decode -> value -> re-encode is not a fixed point: " + clipS(op, 300) + " -> " + clipS(ans, 200)})
				}
			}
			if rt, _ := hx.Arg(toks, "rt"); rt == "1" {
				bs, _ := hx.Arg(toks, "bytes")
				skip, _ := hx.Arg(toks, "pre")
				want := bs
				if skip == "1" && len(bs) >= 14 {
					want = bs[14:]
				}
				at := hx.Tokens(ans)
				b2, _ := hx.Arg(at, "b2")
				switch {
				case arr1ZeroIn(op, lastVal) && (!strings.HasPrefix(ans, "ok ") || !equivDump(op, lastVal, ans)):
					// known finding, and only this shape: the value holds a [1]byte{0}
					fs = append(fs, hx.Failure{Monitor: "roundtrip", Class: "bytearray1-zero-not-consumed", Site: "libs/ser/decode.go:decodeByteArray", Msg: "a [1]byte holding 0x00 does not round-trip: " + clipS(op, 300) + " -> " + clipS(ans, 120)})
				case !strings.HasPrefix(ans, "ok "):
					fs = append(fs, hx.Failure{Monitor: "roundtrip", Class: "roundtrip-decode-rejects-own-encoding", Site: "libs/ser", Msg: "the decoder rejects bytes the encoder produced: " + clipS(op, 300)})
				case lastVal != "" && !equivDump(op, lastVal, ans):
					fs = append(fs, hx.Failure{Monitor: "roundtrip", Class: "roundtrip-value-differs", Site: "libs/ser", Msg: "decode(encode v) is not v: " + clipS(lastVal, 200) + " -> " + clipS(ans, 300)})
				case b2 != want:
					fs = append(fs, hx.Failure{Monitor: "roundtrip", Class: "roundtrip-reencode-differs", Site: "libs/ser", Msg: "decode(encode v) re-encodes differently: " + clipS(op, 300) + " -> " + clipS(ans, 300)})
				}
			}
		case "cenc":
			if !strings.HasPrefix(ans, "same") {
				fs = append(fs, hx.Failure{Monitor: "encode_reentrant", Class: "concurrent-encodings-interfere", Site: "libs/ser/encode.go", Msg: "values encoded by several goroutines at once differ from their sequential encodings: " + ans})
			}
		case "sstore":
			// a storage slot read from the committed trie (cold cache) is the value that was written
			if ans != "ok" {
				fs = append(fs, hx.Failure{Monitor: "roundtrip", Class: "storage-slot-not-lossless", Site: "state/state_object.go:updateTrie", Msg: "a committed storage value does not read back: " + clipS(ans, 300)})
			}
		case "apitest":
			if ans != "ok" {
				fs = append(fs, hx.Failure{Monitor: "roundtrip", Class: "api:" + ans, Site: "libs/ser", Msg: "libs/ser API expectation failed: " + ans})
			}
		case "regtest":
			if ans != "ok" {
				fs = append(fs, hx.Failure{Monitor: "canonical", Class: "registry:" + ans, Site: "libs/ser/cdc.go", Msg: "the type registry does not keep interface prefixes unambiguous: " + ans})
			}
		case "sops":
			if strings.HasPrefix(ans, "panic") {
				fs = append(fs, hx.Failure{Monitor: "decode_no_panic", Class: "decode-panic:" + strings.TrimPrefix(ans, "panic "), Site: strings.TrimPrefix(ans, "panic "), Msg: "a Stream call panics: " + clipS(op, 200)})
			}
		case "item":
			// the generic decoder accepts only canonical bytes: whatever it accepts re-encodes to the input
			if strings.HasPrefix(ans, "ok ") {
				bs, _ := hx.Arg(toks, "bytes")
				if b2, _ := hx.Arg(hx.Tokens(ans), "b2"); b2 != bs {
					fs = append(fs, hx.Failure{Monitor: "canonical", Class: "generic-decoder-noncanonical", Site: "libs/ser/decode.go:decodeInterface", Msg: "the generic decoder accepts bytes that re-encode differently: " + clipS(op, 200) + " -> " + clipS(ans, 200)})
				}
			}
			if strings.HasPrefix(ans, "panic") {
				fs = append(fs, hx.Failure{Monitor: "decode_no_panic", Class: "decode-panic:" + strings.TrimPrefix(ans, "panic "), Site: strings.TrimPrefix(ans, "panic "), Msg: "generic decode panics: " + clipS(op, 200)})
			}
		case "split":
			// the two parsers of the format agree on every input (ground truth: Stream on the same bytes, in the executor)
			if x, _ := hx.Arg(hx.Tokens(ans), "x"); x != "agree" {
				fs = append(fs, hx.Failure{Monitor: "canonical", Class: "raw-parser-disagrees-with-stream:" + x, Site: "libs/ser/raw.go:readKind", Msg: "ser.Split and ser.Stream disagree: " + clipS(op, 200) + " -> " + clipS(ans, 200)})
			}
			if strings.HasPrefix(ans, "panic") {
				fs = append(fs, hx.Failure{Monitor: "decode_no_panic", Class: "decode-panic:" + strings.TrimPrefix(ans, "panic "), Site: strings.TrimPrefix(ans, "panic "), Msg: "raw.go panics: " + clipS(op, 200)})
			}
		case "wenc":
			// a failing writer yields an error and a prefix of the encoding, a sufficient one all of it; never a panic
			if pf, _ := hx.Arg(hx.Tokens(ans), "pfx"); pf != "ok" && !strings.HasPrefix(ans, "panic") {
				fs = append(fs, hx.Failure{Monitor: "roundtrip", Class: "writer-entry-point:" + pf, Site: "libs/ser/encode.go:toWriter", Msg: "io.Writer entry point: " + clipS(op, 200) + " -> " + ans})
			}
			if wv, _ := hx.Arg(toks, "val"); strings.HasPrefix(ans, "panic") && !shapeIn(op, wv, (*Universe).hasNilCustomPtr) && !shapeIn(op, wv, (*Universe).hasNilMapValue) {
				fs = append(fs, hx.Failure{Monitor: "encode_total", Class: "encode-panic:" + strings.TrimPrefix(ans, "panic "), Site: strings.TrimPrefix(ans, "panic "), Msg: "encoding to a writer panics: " + clipS(op, 200)})
			}
		case "rdec":
			// reader entry points: no panic ever; allocation bounded by the limit the caller passed
			lim, _ := hx.Arg(toks, "lim")
			bs, _ := hx.Arg(toks, "bytes")
			pre, _ := hx.Arg(toks, "pre")
			in := hx.UnHex(bs)
			r := theWorld().byName[rootOf(op)]
			known := lim == "u" && r != nil && outermostOversize(r, pre == "1", in)
			if strings.HasPrefix(ans, "panic") {
				site := strings.TrimPrefix(ans, "panic ")
				class := "reader-decode-panic:" + site
				if known {
					class = "unlimited-reader-outermost-size"
				}
				fs = append(fs, hx.Failure{Monitor: "decode_no_panic", Class: class, Site: site, Msg: "decoding from a reader panics: " + clipS(op, 300)})
				continue
			}
			if strings.HasSuffix(ans, "res=alloc") {
				bounded := false
				if lim != "u" {
					if n, err := strconv.ParseInt(lim, 10, 64); err == nil && n >= allocLimit {
						bounded = true // the caller allowed that much
					}
				}
				if !bounded {
					class := "reader-decode-alloc-unbounded"
					if known {
						class = "unlimited-reader-outermost-size"
					}
					fs = append(fs, hx.Failure{Monitor: "decode_bounded_alloc", Class: class, Site: "libs/ser/decode.go:Stream.Bytes", Msg: "decode from a reader allocated > 64 MiB beyond its limit: " + clipS(op, 300)})
				}
			}
			if strings.HasSuffix(ans, "res=slow") {
				fs = append(fs, hx.Failure{Monitor: "decode_terminates", Class: "decode-slow:" + rootOf(op), Site: "libs/ser/decode.go", Msg: "decode did not return within 2 s: " + clipS(op, 300)})
			}
			if rt, _ := hx.Arg(toks, "rt"); rt == "1" && !(strings.HasPrefix(ans, "ok ") && lastVal != "" && equivDump(op, lastVal, ans)) {
				class := "reader-roundtrip-differs"
				if arr1ZeroIn(op, lastVal) {
					class = "bytearray1-zero-not-consumed"
				}
				fs = append(fs, hx.Failure{Monitor: "roundtrip", Class: class, Site: "libs/ser", Msg: "decoding an encoding through a reader does not give the value back: " + clipS(op, 300) + " -> " + clipS(ans, 200)})
			}
		case "enc":
			if strings.HasPrefix(ans, "reader-mismatch") {
				fs = append(fs, hx.Failure{Monitor: "roundtrip", Class: "encode-to-reader-differs", Site: "libs/ser/encode.go:EncodeToReader", Msg: "EncodeToReader does not deliver the bytes of EncodeToBytes: " + clipS(op, 300)})
			}
			if strings.HasPrefix(ans, "panic") {
				site := strings.TrimPrefix(ans, "panic ")
				// the two recorded encoder findings apply only when the value really holds that nil (decided from val= by the
				// root's descriptor); any other encode panic keeps its site class
				class := "encode-panic:" + site
				ev, _ := hx.Arg(toks, "val")
				if shapeIn(op, ev, (*Universe).hasNilCustomPtr) {
					class = "encode-panic-nil-custom-pointer"
				} else if shapeIn(op, ev, (*Universe).hasNilMapValue) {
					class = "encode-panic-nil-map-value"
				}
				fs = append(fs, hx.Failure{Monitor: "encode_total", Class: class, Site: site, Msg: "encoding panics: " + clipS(op, 300)})
			}
			if c.Tags["canon"] {
				canon = append(canon, ans)
			}
			lastVal, _ = hx.Arg(toks, "val")
		}
	}
	for i := 1; i < len(canon); i++ {
		if canon[i] != canon[0] {
			fs = append(fs, hx.Failure{Monitor: "canonical", Class: "map-order-dependent-encoding", Site: "libs/ser/encode.go:makeMapWriter", Msg: "equal values encode differently: " + clipS(canon[0], 200) + " vs " + clipS(canon[i], 200)})
			break
		}
	}
	return fs
}

// equivDump: the value the decoder returned (v= of the answer) is the value that was encoded, up to the stated conventions
func equivDump(op, val, ans string) (ok bool) {
	defer func() {
		if recover() != nil {
			ok = false
		}
	}()
	r := theWorld().byName[rootOf(op)]
	v2, has := hx.Arg(hx.Tokens(ans), "v")
	if r == nil || !has {
		return false
	}
	return theWorld().u.equivV(r.D, ParseV(val), ParseV(v2))
}

// arr1ZeroIn: the value written (val= of the preceding enc op) holds a [1]byte whose byte is 0x00, by the root's descriptor
func arr1ZeroIn(op, val string) (found bool) {
	defer func() {
		if recover() != nil {
			found = false
		}
	}()
	r := theWorld().byName[rootOf(op)]
	if r == nil || val == "" {
		return false
	}
	return theWorld().u.hasArr1Zero(r.D, ParseV(val))
}

// shapeIn evaluates a shape predicate on a value text by the descriptor of the op's root
func shapeIn(op, val string, pred func(*Universe, *Desc, *V) bool) (found bool) {
	defer func() {
		if recover() != nil {
			found = false
		}
	}()
	r := theWorld().byName[rootOf(op)]
	if r == nil || val == "" {
		return false
	}
	return pred(theWorld().u, r.D, ParseV(val))
}

// walk applies leaf to every (descriptor, value) pair of a value
func (u *Universe) walk(d *Desc, v *V, leaf func(*Desc, *V) bool) bool {
	if leaf(d, v) {
		return true
	}
	switch d.K {
	case '@':
		return u.walk(u.Defs[d.N], v, leaf)
	case 'E':
		return u.walk(d.Sub[0], v, leaf)
	case 'L', 'R':
		for _, e := range v.Sub {
			if u.walk(d.Sub[0], e, leaf) {
				return true
			}
		}
	case 'Q':
		for i, s := range d.Sub {
			if i < len(v.Sub) && u.walk(s, v.Sub[i], leaf) {
				return true
			}
		}
	case 'P':
		return v.K == 'p' && u.walk(d.Sub[0], v.Sub[0], leaf)
	case 'C', 'D':
		return v.K == 'p' && u.walk(u.Defs[d.Sub[0].N], v.Sub[0], leaf)
	case 'c', 'd':
		return u.walk(u.Defs[d.Sub[0].N], v, leaf)
	case 'I':
		return v.K == 'j' && u.walk(&Desc{K: '@', N: u.Reg[v.Idx].Ty}, v.Sub[0], leaf)
	}
	return false
}

// hasNilCustomPtr: a nil pointer to a type with its own EncodeSER (Transaction, TokenTransaction, Log, LogForStorage)
func (u *Universe) hasNilCustomPtr(d *Desc, v *V) bool {
	return u.walk(d, v, func(d *Desc, v *V) bool { return (d.K == 'C' || d.K == 'D') && v.K == 'n' })
}

// hasNilMapValue: a token map with a nil *big.Int value
func (u *Universe) hasNilMapValue(d *Desc, v *V) bool {
	return u.walk(d, v, func(d *Desc, v *V) bool {
		if d.K != 'M' || v.K != 'm' {
			return false
		}
		for _, e := range v.Sub {
			if e.K == 'n' {
				return true
			}
		}
		return false
	})
}

func (u *Universe) hasArr1Zero(d *Desc, v *V) bool {
	switch d.K {
	case '@':
		return u.hasArr1Zero(u.Defs[d.N], v)
	case 'A':
		return d.N == 1 && v.K == 'x' && len(v.B) == 1 && v.B[0] == 0
	case 'E':
		return u.hasArr1Zero(d.Sub[0], v)
	case 'L', 'R':
		for _, e := range v.Sub {
			if u.hasArr1Zero(d.Sub[0], e) {
				return true
			}
		}
	case 'Q':
		for i, s := range d.Sub {
			if i < len(v.Sub) && u.hasArr1Zero(s, v.Sub[i]) {
				return true
			}
		}
	case 'P':
		return v.K == 'p' && u.hasArr1Zero(d.Sub[0], v.Sub[0])
	case 'C', 'D':
		return v.K == 'p' && u.hasArr1Zero(u.Defs[d.Sub[0].N], v.Sub[0])
	case 'c', 'd':
		return u.hasArr1Zero(u.Defs[d.Sub[0].N], v)
	case 'I':
		return v.K == 'j' && u.hasArr1Zero(&Desc{K: '@', N: u.Reg[v.Idx].Ty}, v.Sub[0])
	}
	return false
}

func clipS(s string, n int) string {
	if len(s) <= n {
		return s
	}
	return s[:n] + "..."
}

func hexs(b []byte) string { return hex.EncodeToString(b) }

var _ = fmt.Sprintf
