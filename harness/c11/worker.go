package c11

// A persistent child process ("worker") executes the decodes that may request peer-chosen buffer sizes: a fatal
// `runtime: out of memory` is not a panic and would end the harness.  The worker is this same binary (same real code),
// started with C11_WORKER=1 under `ulimit -v`; it answers one op line per line.  If it dies the answer is
// `err res=alloc` (the decode did not stay within bounds) and a new worker is started.

import (
	"bufio"
	"fmt"
	"io"
	"os"
	osexec2 "os/exec"
	"strings"
	"sync"

	"lvharness/hx"
)

func init() {
	if os.Getenv("C11_WORKER") != "1" {
		return
	}
	wd := theWorld()
	_ = wd
	ex := &exec{}
	in := bufio.NewReaderSize(os.Stdin, 1<<22)
	out := bufio.NewWriter(os.Stdout)
	for {
		line, err := in.ReadString('\n')
		if len(line) > 0 {
			ans := hx.SafeExec(ex, strings.TrimRight(line, "\n"))
			fmt.Fprintln(out, ans)
			out.Flush()
		}
		if err != nil {
			os.Exit(0)
		}
	}
}

type workerProc struct {
	cmd *osexec2.Cmd
	in  io.WriteCloser
	out *bufio.Reader
}

var (
	wmu sync.Mutex
	wp  *workerProc
)

func startWorker() *workerProc {
	cmd := osexec2.Command("sh", "-c", "ulimit -v 3000000; exec \"$0\"", os.Args[0])
	cmd.Env = append(os.Environ(), "C11_WORKER=1", "C11_CHILD=1")
	in, err1 := cmd.StdinPipe()
	out, err2 := cmd.StdoutPipe()
	if err1 != nil || err2 != nil || cmd.Start() != nil {
		return nil
	}
	return &workerProc{cmd, in, bufio.NewReaderSize(out, 1<<22)}
}

// workerExec runs one op in the worker.
func workerExec(op string) string {
	wmu.Lock()
	defer wmu.Unlock()
	if wp == nil {
		wp = startWorker()
		if wp == nil {
			return "harness-error"
		}
	}
	if _, err := io.WriteString(wp.in, op+"\n"); err == nil {
		if line, err := wp.out.ReadString('\n'); err == nil {
			return strings.TrimRight(line, "\n")
		}
	}
	// the worker died
	wp.in.Close()
	wp.cmd.Wait()
	wp = nil
	return "err res=alloc"
}
