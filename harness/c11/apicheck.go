package c11

// API-level behaviour of libs/ser that carries the property's "error, never a panic" and "lossless" clauses outside the
// type-directed streams: misuse of the entry points, struct tags (tail / nil / - / unknown), RawValue fields, unsupported
// kinds, MustEncode*, piecewise EncodeToReader.  Op `apitest`: "ok" or the first expectation that failed (no model side).

import (
	"bytes"
	"io"
	"math/big"
	"reflect"
	"strings"

	"github.com/lianxiangcloud/linkchain/libs/ser"
)

type tTail struct {
	A    uint64
	Rest []uint64 `rlp:"tail"`
}
type tTailBytes struct {
	A    []byte
	Rest [][]byte `rlp:"tail"`
}
type tBadTag struct {
	A uint64 `rlp:"bogus"`
}
type tTailNotLast struct {
	Rest []uint64 `rlp:"tail"`
	A    uint64
}
type tTailNotSlice struct {
	A    uint64
	Rest uint64 `rlp:"tail"`
}
type tIgnored struct {
	A uint64
	B uint64 `rlp:"-"`
	c uint64
	D *[4]byte `rlp:"nil"`
}
type tRaw struct {
	A uint64
	R ser.RawValue
	B []byte
}
type tRaws struct {
	L []ser.RawValue
}

func noPanicErr(f func() error) (err error, panicked bool) {
	defer func() {
		if recover() != nil {
			panicked = true
		}
	}()
	return f(), false
}

func execApitest() string {
	// misuse of the decoder entry points: errors, not panics
	var u64 uint64
	for name, f := range map[string]func() error{
		"decode-into-nil":          func() error { return ser.Decode(bytes.NewReader([]byte{1}), nil) },
		"decode-into-non-pointer":  func() error { return ser.Decode(bytes.NewReader([]byte{1}), u64) },
		"decode-into-nil-pointer":  func() error { return ser.Decode(bytes.NewReader([]byte{1}), (*uint64)(nil)) },
		"decodewt-into-nil":        func() error { return ser.DecodeWithType(bytes.NewReader([]byte{1}), nil) },
		"decodewt-into-non-ptr":    func() error { return ser.DecodeWithType(bytes.NewReader([]byte{1}), u64) },
		"decodewt-into-nil-ptr":    func() error { return ser.DecodeWithType(bytes.NewReader([]byte{1}), (*uint64)(nil)) },
		"decodebytes-into-nil":     func() error { return ser.DecodeBytes([]byte{1}, nil) },
		"decode-chan":              func() error { var c chan int; return ser.DecodeBytes([]byte{1}, &c) },
		"decode-string-map":        func() error { var m map[string]int; return ser.DecodeBytes([]byte{0xC0}, &m) },
		"decode-bad-tag":           func() error { return ser.DecodeBytes([]byte{0xC1, 0x01}, &tBadTag{}) },
		"decode-tail-not-last":     func() error { return ser.DecodeBytes([]byte{0xC1, 0x01}, &tTailNotLast{}) },
		"decode-tail-not-slice":    func() error { return ser.DecodeBytes([]byte{0xC2, 0x01, 0x02}, &tTailNotSlice{}) },
	} {
		err, p := noPanicErr(f)
		if p {
			return "fail:panic:" + name
		}
		if err == nil {
			return "fail:accepted:" + name
		}
	}
	for name, v := range map[string]interface{}{
		"encode-chan": make(chan int), "encode-func": func() {}, "encode-string-map": map[string]int{"a": 1},
		"encode-bad-tag": tBadTag{1}, "encode-tail-not-last": tTailNotLast{}, "encode-tail-not-slice": tTailNotSlice{}, "encode-neg-big": big.NewInt(-1),
	} {
		vv := v
		err, p := noPanicErr(func() error { _, e := ser.EncodeToBytes(vv); return e })
		if p {
			return "fail:panic:" + name
		}
		if err == nil {
			return "fail:accepted:" + name
		}
	}
	// a strings.Reader / bytes.Reader gives the stream its limit: an oversize announcement is refused, not allocated
	var bs []byte
	if err := ser.Decode(strings.NewReader("\xbf\x40\x00\x00\x00\x00\x00\x00\x00"), &bs); err == nil {
		return "fail:strings-reader-unlimited"
	}
	if err := ser.Decode(strings.NewReader("\x83abc"), &bs); err != nil || string(bs) != "abc" {
		return "fail:strings-reader-decode"
	}
	// MustEncode*: panic exactly when EncodeToBytes returns an error
	if _, p := noPanicErr(func() error { ser.MustEncodeToBytes(uint64(7)); ser.MustEncodeToBytesWithType(uint64(7)); return nil }); p {
		return "fail:must-encode-panics-on-valid"
	}
	if _, p := noPanicErr(func() error { ser.MustEncodeToBytes(big.NewInt(-1)); return nil }); !p {
		return "fail:must-encode-silent-on-error"
	}
	if _, p := noPanicErr(func() error { ser.MustEncodeToBytesWithType(big.NewInt(-1)); return nil }); !p {
		return "fail:must-encode-wt-silent-on-error"
	}
	// tail fields: the elements are appended to the struct's list and come back
	for _, tv := range []tTail{{1, nil}, {0, []uint64{0}}, {5, []uint64{1, 128, 1 << 40}}} {
		b, err := ser.EncodeToBytes(tv)
		var back tTail
		if err != nil || ser.DecodeBytes(b, &back) != nil || back.A != tv.A || len(back.Rest) != len(tv.Rest) {
			return "fail:tail-roundtrip"
		}
		for i := range tv.Rest {
			if back.Rest[i] != tv.Rest[i] {
				return "fail:tail-roundtrip-value"
			}
		}
		b2, _ := ser.EncodeToBytes(back)
		if !bytes.Equal(b, b2) {
			return "fail:tail-reencode"
		}
	}
	if b, _ := ser.EncodeToBytes(tTail{5, []uint64{1, 128}}); !bytes.Equal(b, []byte{0xC4, 0x05, 0x01, 0x81, 0x80}) {
		return "fail:tail-not-inline"
	}
	tb := tTailBytes{[]byte{1}, [][]byte{{}, {0x7f}, {0x80}, bytes.Repeat([]byte{9}, 60)}}
	if b, err := ser.EncodeToBytes(tb); err != nil {
		return "fail:tail-bytes-encode"
	} else {
		var back tTailBytes
		if ser.DecodeBytes(b, &back) != nil || len(back.Rest) != 4 || !bytes.Equal(back.Rest[3], tb.Rest[3]) || !bytes.Equal(back.Rest[1], tb.Rest[1]) {
			return "fail:tail-bytes-roundtrip"
		}
	}
	// ignored, unexported and nil-tagged fields
	ig := tIgnored{A: 3, B: 4, c: 5}
	b, err := ser.EncodeToBytes(ig)
	if err != nil || !bytes.Equal(b, []byte{0xC2, 0x03, 0x80}) {
		return "fail:ignored-fields-encoding"
	}
	var igb tIgnored
	if ser.DecodeBytes(b, &igb) != nil || igb.A != 3 || igb.B != 0 || igb.D != nil {
		return "fail:ignored-fields-decode"
	}
	// RawValue: a valid raw value is embedded verbatim and comes back; the elements of a list of raw values likewise
	for _, raw := range [][]byte{{0x05}, {0x80}, {0xC2, 0x01, 0x02}, append([]byte{0xB8, 56}, bytes.Repeat([]byte{7}, 56)...)} {
		v := tRaw{9, raw, []byte{0xAA}}
		b, err := ser.EncodeToBytes(v)
		if err != nil || !bytes.Contains(b, raw) {
			return "fail:raw-encode"
		}
		var back tRaw
		if ser.DecodeBytes(b, &back) != nil || !bytes.Equal(back.R, raw) || back.A != 9 || !bytes.Equal(back.B, v.B) {
			return "fail:raw-roundtrip"
		}
		l := tRaws{[]ser.RawValue{raw, {0x01}, raw}}
		b, _ = ser.EncodeToBytes(l)
		var lb tRaws
		if ser.DecodeBytes(b, &lb) != nil || len(lb.L) != 3 || !bytes.Equal(lb.L[2], raw) {
			return "fail:raw-list-roundtrip"
		}
	}
	// ... an INVALID raw value is not verified by the encoder: the stream it produces must be rejected or mis-framed into
	// an error by the decoder, never a panic and never an accepted value that differs silently in the other fields
	for _, raw := range [][]byte{{0xC5}, {0xBF, 0x40, 0, 0, 0, 0, 0, 0, 0}, {0x81, 0x05}, {}, {0x01, 0x02}} {
		v := tRaw{9, raw, []byte{0xAA}}
		b, err := ser.EncodeToBytes(v)
		if err != nil {
			return "fail:raw-invalid-encode-error"
		}
		var back tRaw
		derr, p := noPanicErr(func() error { return ser.DecodeBytes(b, &back) })
		if p {
			return "fail:raw-invalid-decode-panic"
		}
		if derr == nil && (back.A != 9 || !bytes.Equal(back.B, v.B)) && len(raw) != 0 && !bytes.Equal(raw, []byte{0x01, 0x02}) {
			return "fail:raw-invalid-misframed-silently"
		}
	}
	// EncodeToReader read one byte at a time, and into a large buffer
	val := struct {
		A []byte
		L [][]uint64
		S string
	}{bytes.Repeat([]byte{1}, 70), [][]uint64{{1, 2}, {}, {300}}, "xyz"}
	want, _ := ser.EncodeToBytes(val)
	size, rd, err := ser.EncodeToReader(val)
	if err != nil || size != len(want) {
		return "fail:encode-to-reader-size"
	}
	var got []byte
	one := make([]byte, 1)
	for {
		n, err := rd.Read(one)
		got = append(got, one[:n]...)
		if err == io.EOF {
			break
		}
		if err != nil || len(got) > len(want)+1 {
			return "fail:encode-to-reader-read"
		}
	}
	if !bytes.Equal(got, want) {
		return "fail:encode-to-reader-bytes"
	}
	if n, err := rd.Read(one); n != 0 || err != io.EOF {
		return "fail:encode-to-reader-after-eof"
	}
	_ = reflect.TypeOf
	return "ok"
}
