package c11

// Coverage-guided widening: the generic (interface{}) decoder against layer 1, the second parser of the format
// (libs/ser/raw.go) against Stream, the io.Writer entry points, the decodeMsg of every reactor.

import (
	"bytes"
	"errors"
	"fmt"
	"io"
	"reflect"
	"strings"
	_ "unsafe" // go:linkname

	"github.com/lianxiangcloud/linkchain/blockchain"
	"github.com/lianxiangcloud/linkchain/consensus"
	"github.com/lianxiangcloud/linkchain/evidence"
	"github.com/lianxiangcloud/linkchain/libs/ser"
	"github.com/lianxiangcloud/linkchain/mempool"
	"github.com/lianxiangcloud/linkchain/types"

	"lvharness/hx"
)

// the unexported decodeMsg of the reactors (what Receive calls first on peer bytes), reached without a reactor
//
//go:linkname mempoolDecodeMsg github.com/lianxiangcloud/linkchain/mempool.decodeMsg
func mempoolDecodeMsg(bz []byte) (mempool.MempoolMessage, error)

//go:linkname blockchainDecodeMsg github.com/lianxiangcloud/linkchain/blockchain.decodeMsg
func blockchainDecodeMsg(bz []byte) (blockchain.BlockchainMessage, error)

//go:linkname evidenceDecodeMsg github.com/lianxiangcloud/linkchain/evidence.decodeMsg
func evidenceDecodeMsg(bz []byte) (evidence.EvidenceMessage, error)

// size above which each decodeMsg refuses the message before decoding (0 = no check: mempool's is commented out);
// pinned against the source by the regenerated facts of extract/jobs_c11.go (Gen/C11ReaderSites.decodeMsgGuards)
var reactorMax = map[string]int{
	"consensus":  1048576,
	"evidence":   1048576,
	"blockchain": types.MaxBlockSizeBytes + 4 + 1,
	"mempool":    0,
}

// the four message interfaces are all `interface{}` with every registered type assignable: one descriptor, one root
func reactorRoot(via string) string { return "consensus.ConsensusMessage" }

func callDecodeMsg(via string, in []byte) (interface{}, error) {
	switch via {
	case "consensus":
		return consensus.VerifDecodeMsg(in)
	case "mempool":
		return mempoolDecodeMsg(in)
	case "blockchain":
		return blockchainDecodeMsg(in)
	case "evidence":
		return evidenceDecodeMsg(in)
	}
	return nil, errors.New("no such reactor")
}

// ---- item: the generic decoder ----------------------------------------------------------------

func dumpItem(x interface{}, sb *strings.Builder) {
	switch v := x.(type) {
	case []byte:
		sb.WriteString("s")
		fmt.Fprintf(sb, "%x", v)
	case []interface{}:
		sb.WriteString("l(")
		for i, e := range v {
			if i > 0 {
				sb.WriteByte(',')
			}
			dumpItem(e, sb)
		}
		sb.WriteByte(')')
	default:
		sb.WriteString("?")
	}
}

func execItem(toks []string) string {
	bs, _ := hx.Arg(toks, "bytes")
	in := hx.UnHex(bs)
	var x interface{}
	if err := ser.DecodeBytes(in, &x); err != nil {
		return "err"
	}
	var sb strings.Builder
	dumpItem(x, &sb)
	b2, err := ser.EncodeToBytes(x)
	if err != nil {
		return "ok t=" + sb.String() + " b2=err"
	}
	return "ok t=" + sb.String() + " b2=" + hx.Hex(b2)
}

// ---- split: raw.go against Stream ---------------------------------------------------------------

func execSplit(toks []string) string {
	bs, _ := hx.Arg(toks, "bytes")
	in := hx.UnHex(bs)
	k, c, r, err := ser.Split(in)
	okS := func(e error) string {
		if e != nil {
			return "err"
		}
		return "ok"
	}
	_, _, e1 := ser.SplitString(in)
	_, _, e2 := ser.SplitList(in)
	cv := "err"
	if n, e := ser.CountValues(in); e == nil {
		cv = fmt.Sprint(n)
	}
	// ground truth that does not depend on raw.go: the Stream parser on the same bytes
	agree := "agree"
	s := ser.NewStream(bytes.NewReader(in), 0)
	kind, size, kerr := s.Kind()
	sOK := kerr == nil
	var sContent []byte
	if sOK && kind != ser.List {
		sContent, kerr = s.Bytes()
		sOK = kerr == nil
	}
	switch {
	case sOK != (err == nil):
		agree = "differ-accept"
	case err == nil && kind != k:
		agree = "differ-kind"
	case err == nil && k != ser.List && !bytes.Equal(sContent, c):
		agree = "differ-content"
	case err == nil && k == ser.List && size != uint64(len(c)):
		agree = "differ-size"
	case err == nil && !bytes.Equal(append(append([]byte{}, in[:len(in)-len(c)-len(r)]...), append(append([]byte{}, c...), r...)...), in):
		agree = "differ-framing"
	}
	tail := fmt.Sprintf(" ss=%s sl=%s cv=%s x=%s", okS(e1), okS(e2), cv, agree)
	if err != nil {
		return "err" + tail
	}
	return fmt.Sprintf("ok k=%d c=%s r=%s", int(k), hx.Hex(c), hx.Hex(r)) + tail
}

// ---- wenc: io.Writer entry points -----------------------------------------------------------------

type capWriter struct {
	cap int
	buf []byte
}

var errFull = errors.New("writer full")

func (w *capWriter) Write(p []byte) (int, error) {
	room := w.cap - len(w.buf)
	if len(p) <= room {
		w.buf = append(w.buf, p...)
		return len(p), nil
	}
	w.buf = append(w.buf, p[:room]...)
	return room, errFull
}

func execWenc(wd *world, toks []string) string {
	name, _ := hx.Arg(toks, "root")
	r := wd.byName[name]
	if r == nil {
		return "bad-op"
	}
	pre, _ := hx.Arg(toks, "pre")
	vs, _ := hx.Arg(toks, "val")
	api, _ := hx.Arg(toks, "api")
	var cp int
	cs, _ := hx.Arg(toks, "cap")
	fmt.Sscan(cs, &cp)
	ptr := reflect.New(r.RT)
	wd.u.Build(r.D, ParseV(vs), ptr.Elem())
	want, werr := encodeRoot(r, ptr, pre != "-")
	w := &capWriter{cap: cp}
	var err error
	var n64 int64 = -1
	switch {
	case api == "W" && pre != "-":
		n64, err = ser.EncodeWriterWithType(w, ptr.Interface())
	case api == "W":
		n64, err = ser.EncodeWriter(w, ptr.Interface())
	case pre != "-":
		err = ser.EncodeWithType(w, ptr.Interface())
	default:
		err = ser.Encode(w, ptr.Interface())
	}
	pfx := "ok"
	if werr == nil && !bytes.HasPrefix(want, w.buf) {
		pfx = "bad"
	}
	if api == "W" && err == nil && int(n64) != len(w.buf) {
		pfx = "bad-count"
	}
	if err == nil && werr == nil && !bytes.Equal(want, w.buf) {
		pfx = "short-silent-success"
	}
	if err != nil {
		return fmt.Sprintf("err n=%d pfx=%s", len(w.buf), pfx)
	}
	return fmt.Sprintf("ok n=%d pfx=%s", len(w.buf), pfx)
}

var _ = io.EOF

// ---- generator ---------------------------------------------------------------------------------

func genWiden(g *hx.Gen, wd *world, corpus [][]byte, corpusRoot []*Root) {
	u := wd.u
	header := func(r *Root, tags ...string) []string { return append([]string{hx.CaseOp(tags...)}, r.Pream...) }
	// (generic) the interface{} decoder and raw.go on the same inputs
	nG := g.Pick(4000, 40000)
	for k := 0; k < nG; k++ {
		var b []byte
		kind := ""
		switch c := g.Rng.Intn(12); {
		case c < 3 && len(corpus) > 0:
			b, kind = append([]byte{}, corpus[g.Rng.Intn(len(corpus))]...), "valid"
		case c < 5 && len(corpus) > 0:
			if k2, nb, ok := nonCanonical(g, corpus[g.Rng.Intn(len(corpus))]); ok {
				b, kind = nb, k2
			} else {
				continue
			}
		case c < 7 && len(corpus) > 0:
			kind, b = mutate(g, append([]byte{}, corpus[g.Rng.Intn(len(corpus))]...))
		case c < 9:
			b, kind = randomRLP(g, 4), "random-rlp"
		case c == 9:
			b, kind = deepNest(1+g.Rng.Intn(g.Pick(200, 2000))), "deep-nesting"
		case c == 10:
			b, kind = hugeSize(g), "huge-size"
		default:
			b = make([]byte, g.Rng.Intn(24))
			g.Rng.Read(b)
			kind = "random"
		}
		g.Count("generic-kind:" + kind)
		g.Case("generic "+kind, []string{hx.CaseOp("generic"), "item bytes=" + hx.Hex(b), "split bytes=" + hx.Hex(b)}, kind != "random")
	}
	// boundaries of the size header of both parsers: sizes 55/56/255/256/65535/65536, one byte short, exact, one more
	for _, n := range []int{0, 1, 2, 55, 56, 57, 255, 256, 65535, 65536} {
		for _, list := range []bool{false, true} {
			body := bytes.Repeat([]byte{0x80}, n)
			if list && n >= 255 {
				// one long string item instead of n empty ones (a payload of exactly n bytes, few nodes)
				if n-2 <= 255 {
					body = append([]byte{0xB8, byte(n - 2)}, bytes.Repeat([]byte{0xAB}, n-2)...)
				} else {
					body = append([]byte{0xB9, byte((n - 3) >> 8), byte(n - 3)}, bytes.Repeat([]byte{0xAB}, n-3)...)
				}
			}
			small, large := byte(0x80), byte(0xB7)
			if list {
				small, large = 0xC0, 0xF7
			}
			h := head(small, large, n, false)
			full := append(append([]byte{}, h...), body...)
			variants := [][]byte{full, full[:len(full)-min1(len(full))], append(append([]byte{}, full...), 0x01), append(head(small, large, n, true), body...)}
			if n >= 56 { // the size with a leading zero byte
				variants = append(variants, append(append([]byte{h[0] + 1, 0x00}, h[1:]...), body...))
			}
			for _, b := range variants {
				g.Case(fmt.Sprintf("generic boundary n=%d list=%v", n, list), []string{hx.CaseOp("generic"), "item bytes=" + hx.Hex(b), "split bytes=" + hx.Hex(b)}, true)
			}
		}
	}
	// (msg) decodeMsg of the four reactors on valid messages, their mutations and hostile bytes
	nM := g.Pick(2400, 24000)
	vias := []string{"consensus", "mempool", "blockchain", "evidence"}
	for k := 0; k < nM; k++ {
		via := vias[k%4]
		r := wd.byName[reactorRoot(via)]
		if r == nil {
			continue
		}
		vg := &vgen{g: g, u: u}
		v := vg.gen(r.D, 4)
		ops := header(r, "msg")
		suffix := " via=" + via
		if reactorMax[via] > 0 {
			suffix += fmt.Sprintf(" max=%d", reactorMax[via])
		}
		b, ok := safeEncode(r, u, v, false)
		if !ok {
			continue
		}
		kind := "valid"
		switch g.Rng.Intn(6) {
		case 0, 1:
			ops = append(ops, encOp(r, v, false), decOp(r, b, true, true)+suffix)
		case 2, 3:
			kind, b = mutate(g, b)
			ops = append(ops, decOp(r, b, true, false)+suffix)
		case 4:
			if nb, ok := nestedOversize(g, b[min7(len(b)):]); ok {
				b = append(append([]byte{}, b[:min7(len(b))]...), nb...)
				kind = "nested-oversize"
			}
			ops = append(ops, decOp(r, b, true, false)+suffix)
		default:
			e := u.Reg[g.Rng.Intn(len(u.Reg))]
			b = append(append([]byte{}, e.Disfix...), randomRLP(g, 3)...)
			kind = "disfix"
			ops = append(ops, decOp(r, b, true, false)+suffix)
		}
		g.Count("msg-via:" + via)
		g.Count("msg-kind:" + kind)
		g.Case("msg "+via+" "+kind, ops, true)
	}
	// the size guard itself: one byte above the limit is refused whatever it holds (consensus, evidence: 1 MiB)
	for _, via := range []string{"consensus", "evidence"} {
		if r := wd.byName[reactorRoot(via)]; r != nil {
			big := make([]byte, reactorMax[via]+1)
			big[0] = 0x00 // a nil message followed by zeros would be "more than one value" anyway
			at := make([]byte, reactorMax[via])
			ops := header(r, "msg")
			ops = append(ops, decOp(r, big, true, false)+fmt.Sprintf(" via=%s max=%d", via, reactorMax[via]),
				decOp(r, at, true, false)+fmt.Sprintf(" via=%s max=%d", via, reactorMax[via]))
			g.Case("msg size guard "+via, ops, true)
		}
	}
}

func min1(n int) int {
	if n > 0 {
		return 1
	}
	return 0
}

func min7(n int) int {
	if n >= 7 {
		return 7
	}
	return n
}

// ---- sops: the public Stream API, call by call ----------------------------------------------------

func execSops(toks []string) string {
	bs, _ := hx.Arg(toks, "bytes")
	in := hx.UnHex(bs)
	lim, _ := hx.Arg(toks, "lim")
	prog, _ := hx.Arg(toks, "prog")
	var s *ser.Stream
	switch {
	case lim == "b":
		s = ser.NewStream(bytes.NewReader(in), 0)
	case lim == "u":
		s = ser.NewStream(&plainReader{bytes.NewReader(in)}, 0)
	case strings.HasPrefix(lim, "l"):
		var n uint64
		fmt.Sscan(lim[1:], &n)
		s = ser.NewListStream(&byteReader{bytes.NewReader(in)}, n)
	default:
		var n uint64
		fmt.Sscan(lim, &n)
		s = ser.NewStream(&plainReader{bytes.NewReader(in)}, n)
	}
	showE := func(err error) string {
		if err == ser.EOL {
			return "eol"
		}
		return "e"
	}
	var out []string
	for _, c := range prog {
		switch c {
		case 'K':
			k, sz, err := s.Kind()
			if err != nil {
				out = append(out, showE(err))
			} else {
				out = append(out, fmt.Sprintf("k%d:%d", int(k), sz))
			}
		case 'U':
			n, err := s.Uint()
			if err != nil {
				out = append(out, showE(err))
			} else {
				out = append(out, fmt.Sprintf("u%d", n))
			}
		case 'o':
			v, err := s.Bool()
			if err != nil {
				out = append(out, showE(err))
			} else if v {
				out = append(out, "t")
			} else {
				out = append(out, "f")
			}
		case 'B':
			v, err := s.Bytes()
			if err != nil {
				out = append(out, showE(err))
			} else {
				out = append(out, fmt.Sprintf("b%x", v))
			}
		case 'L':
			n, err := s.List()
			if err != nil {
				out = append(out, showE(err))
			} else {
				out = append(out, fmt.Sprintf("l%d", n))
			}
		case 'E':
			if err := s.ListEnd(); err != nil {
				out = append(out, showE(err))
			} else {
				out = append(out, "ok")
			}
		case 'R':
			v, err := s.Raw()
			if err != nil {
				out = append(out, showE(err))
			} else {
				out = append(out, fmt.Sprintf("r%x", v))
			}
		default:
			out = append(out, "?")
		}
	}
	return strings.Join(out, ",")
}

func genSops(g *hx.Gen, corpus [][]byte) {
	n := g.Pick(3000, 30000)
	alphabet := "KKUoBBLLEERR"
	for k := 0; k < n; k++ {
		var b []byte
		switch c := g.Rng.Intn(8); {
		case c < 3 && len(corpus) > 0:
			b = append([]byte{}, corpus[g.Rng.Intn(len(corpus))]...)
		case c < 5 && len(corpus) > 0:
			_, b = mutate(g, append([]byte{}, corpus[g.Rng.Intn(len(corpus))]...))
		case c < 7:
			b = randomRLP(g, 3)
		default:
			b = make([]byte, g.Rng.Intn(16))
			g.Rng.Read(b)
		}
		if len(b) > 600 {
			b = b[:600]
		}
		pl := 1 + g.Rng.Intn(14)
		prog := make([]byte, pl)
		for i := range prog {
			prog[i] = alphabet[g.Rng.Intn(len(alphabet))]
		}
		if g.Rng.Intn(3) == 0 { // a structured walk: enter lists, read what is there, leave
			prog = []byte("LKBKUKBEKR")[:1+g.Rng.Intn(10)]
		}
		lim := "b"
		switch g.Rng.Intn(8) {
		case 0:
			if !suspectSize(b) {
				lim = "u"
			}
		case 1:
			lim = fmt.Sprint(len(b) + 1)
		case 2:
			if len(b) > 1 {
				lim = fmt.Sprint(1 + g.Rng.Intn(len(b)))
			}
		case 3:
			lim = fmt.Sprintf("l%d", len(b)) // NewListStream over the whole input: the values of a payload
		case 4:
			lim = fmt.Sprintf("l%d", g.Rng.Intn(len(b)+3))
		}
		if (lim == "u" || strings.HasPrefix(lim, "l0")) && suspectSize(b) {
			lim = "b"
		}
		g.Count("sops-lim:" + strings.TrimRight(lim, "0123456789"))
		g.Case("sops", []string{hx.CaseOp("sops"), fmt.Sprintf("sops lim=%s prog=%s bytes=%s", lim, prog, hx.Hex(b))}, true)
	}
}
