package c11

// The amino-style registry of libs/ser/cdc.go: what keeps "interface values carry a registered type prefix" unambiguous.
// Checked on the live registry (every registered disfix distinct, every interface's implementers have distinct 4-byte
// prefixes) and on private codecs (ser.NewCodec) for the conflict rules: the op `regtest` answers "ok" or the first
// expectation that failed; the model side has nothing to compute (the driver answers "ok").

import (
	"fmt"
	"sync"

	"github.com/lianxiangcloud/linkchain/libs/ser"
)

type regIface interface{ regMark() }
type regA struct{ X uint64 }
type regB struct{ Y []byte }
type regC struct{ Z string }

func (*regA) regMark() {}
func (*regB) regMark() {}
func (*regC) regMark() {}

func panics(f func()) (p bool) {
	defer func() {
		if recover() != nil {
			p = true
		}
	}()
	f()
	return false
}

var (
	collOnce  sync.Once
	collA     string
	collB     string
	zeroName  string
	zeroName2 string
)

// names whose 4 prefix bytes collide, and names whose hash starts with a zero byte / has a zero byte after the disamb
func findNames() {
	collOnce.Do(func() {
		seen := map[ser.PrefixBytes]string{}
		for i := 0; i < 400000 && (collA == "" || zeroName == ""); i++ {
			n := fmt.Sprintf("verif/collide/%d", i)
			db, pb := ser.NameToDisfix(n)
			if o, ok := seen[pb]; ok && collA == "" {
				collA, collB = o, n
			}
			seen[pb] = n
			_ = db
		}
	})
}

func execRegtest(wd *world) string {
	u := wd.u
	// live registry
	seen := map[string]string{}
	for _, e := range u.Reg {
		k := string(e.Disfix)
		if o, ok := seen[k]; ok {
			return "fail:live-disfix-shared:" + o + "," + e.Name
		}
		seen[k] = e.Name
		if e.Disfix[0] == 0 || e.Disfix[3] == 0 {
			return "fail:live-disfix-leading-zero:" + e.Name
		}
	}
	for _, r := range wd.roots {
		if r.D.K != 'I' {
			continue
		}
		pf := map[string]string{}
		for _, k := range r.D.Impl {
			e := u.Reg[k]
			p := string(e.Disfix[3:7])
			if o, ok := pf[p]; ok {
				return "fail:live-prefix-shared-in-" + sanitize(r.Name) + ":" + o + "," + e.Name
			}
			pf[p] = e.Name
		}
	}
	// private codecs: the conflict rules
	findNames()
	if collA == "" {
		return "fail:no-colliding-names-found"
	}
	dbA, pbA := ser.NameToDisfix(collA)
	dbB, pbB := ser.NameToDisfix(collB)
	if pbA != pbB || dbA == dbB {
		return "fail:collision-search"
	}
	// same type twice under the same name: accepted (idempotent)
	c1 := ser.NewCodec()
	c1.RegisterInterface((*regIface)(nil), nil)
	if panics(func() { c1.RegisterConcrete(&regA{}, "verif/a", nil); c1.RegisterConcrete(&regA{}, "verif/a", nil) }) {
		return "fail:same-type-twice-refused"
	}
	// two types under one name: refused
	if !panics(func() { c1.RegisterConcrete(&regB{}, "verif/a", nil) }) {
		return "fail:two-types-one-name-accepted"
	}
	// two implementers of one interface with colliding prefix bytes and no priority list: refused
	c2 := ser.NewCodec()
	c2.RegisterInterface((*regIface)(nil), nil)
	c2.RegisterConcrete(&regA{}, collA, nil)
	if !panics(func() { c2.RegisterConcrete(&regB{}, collB, nil) }) {
		return "fail:prefix-collision-accepted-without-priority"
	}
	// ... with both in the interface's priority list: accepted (the disambiguation bytes tell them apart)
	c3 := ser.NewCodec()
	c3.RegisterInterface((*regIface)(nil), &ser.InterfaceOptions{Priority: []string{collA, collB}})
	if panics(func() { c3.RegisterConcrete(&regA{}, collA, nil); c3.RegisterConcrete(&regB{}, collB, nil) }) {
		return "fail:prefix-collision-refused-with-priority"
	}
	// interface registered AFTER the colliding concretes: the same rule through collectImplementers / checkConflictsInPrio
	c4 := ser.NewCodec()
	c4.RegisterConcrete(&regA{}, collA, nil)
	c4.RegisterConcrete(&regB{}, collB, nil)
	if !panics(func() { c4.RegisterInterface((*regIface)(nil), nil) }) {
		return "fail:late-interface-accepts-collision"
	}
	// sealed codec, pointer-pointer, interface as concrete, non-interface as interface: refused
	c5 := ser.NewCodec()
	c5.Seal()
	if !panics(func() { c5.RegisterConcrete(&regC{}, "verif/c", nil) }) {
		return "fail:sealed-codec-accepts"
	}
	c6 := ser.NewCodec()
	pp := &regC{}
	if !panics(func() { c6.RegisterConcrete(&pp, "verif/pp", nil) }) {
		return "fail:pointer-pointer-accepted"
	}
	if !panics(func() { c6.RegisterInterface((*regC)(nil), nil) }) {
		return "fail:struct-as-interface-accepted"
	}
	if !panics(func() { c6.RegisterInterface(regC{}, nil) }) {
		return "fail:non-pointer-as-interface-accepted"
	}
	// leading zero bytes of the name hash are skipped: no disfix starts with 0x00
	for i := 0; i < 3000; i++ {
		db, pb := ser.NameToDisfix(fmt.Sprintf("verif/zero/%d", i))
		if db[0] == 0 || pb[0] == 0 {
			return "fail:disfix-leading-zero"
		}
	}
	return "ok"
}
