package c11

import (
	"fmt"
	"math"
	"reflect"
	"strings"

	"github.com/lianxiangcloud/linkchain/libs/ser"

	"lvharness/hx"
)

// gateArr1Zero enables [1]byte{0} values (known finding bytearray1-zero-not-consumed: the decoder rejects the encoder's output)
const gateArr1Zero = true

type vgen struct {
	g     *hx.Gen
	u     *Universe
	nodes int
	edge    bool // also produce values the encoder rejects with an error (negative big ints)
	nilCust bool // nil pointers to types with their own EncodeSER
	nilMap  bool // nil *big.Int map values
}

func (vg *vgen) bytesOfLen() []byte {
	r := vg.g.Rng
	var n int
	switch r.Intn(12) {
	case 0, 1:
		n = 0
	case 2, 3:
		n = 1
	case 4:
		n = 55
	case 5:
		n = 56
	case 6:
		n = 57
	case 7:
		n = 255 + r.Intn(3)
	case 8:
		if r.Intn(8) == 0 { // the two-byte / three-byte boundary of the length prefix (rare: 64 KiB per value)
			n = 65535 + r.Intn(3)
		} else {
			n = r.Intn(40)
		}
	default:
		n = r.Intn(40)
	}
	b := make([]byte, n)
	r.Read(b)
	if n == 1 {
		b[0] = []byte{0, 1, 0x7f, 0x80, 0x81, 0xff}[r.Intn(6)]
	}
	return b
}

func (vg *vgen) big() *V {
	r := vg.g.Rng
	var b []byte
	switch r.Intn(8) {
	case 0:
		b = nil
	case 1:
		b = []byte{byte(1 + r.Intn(127))}
	case 2:
		b = []byte{byte(128 + r.Intn(128))}
	case 3:
		b = []byte{1, 0, 0, 0, 0, 0, 0, 0, 0}
	case 4:
		b = make([]byte, 32)
		for i := range b {
			b[i] = 0xff
		}
	default:
		b = make([]byte, 1+r.Intn(40))
		r.Read(b)
		if b[0] == 0 {
			b[0] = 1
		}
	}
	v := &V{K: 'g', B: b}
	if vg.edge && len(b) > 0 && r.Intn(4) == 0 {
		v.Neg = true
	}
	return v
}

func (vg *vgen) gen(d *Desc, depth int) *V {
	r := vg.g.Rng
	vg.nodes++
	switch d.K {
	case '@':
		return vg.gen(vg.u.Defs[d.N], depth)
	case 'E':
		return vg.gen(d.Sub[0], depth)
	case 'F':
		var f float64
		switch r.Intn(8) {
		case 0:
			f = 0
		case 1:
			f = 1
		case 2:
			f = -1.5
		case 3:
			f = math.Inf(1)
		case 4:
			f = math.MaxFloat32
		case 5:
			f = float64(float32(r.NormFloat64()))
		case 6:
			f = math.Copysign(0, -1)
		default:
			f = float64(float32(r.NormFloat64() * 1e20))
		}
		if d.N == 64 && r.Intn(3) == 0 {
			f = []float64{math.MaxFloat64, math.SmallestNonzeroFloat64, r.NormFloat64(), math.NaN(), math.Float64frombits(0x7ff0000000000001)}[r.Intn(5)]
		}
		return &V{K: 'u', U: math.Float64bits(f)}
	case 'u':
		var x uint64
		switch r.Intn(9) {
		case 0:
			x = 0
		case 1:
			x = 1
		case 2:
			x = 127
		case 3:
			x = 128
		case 4:
			x = 255
		case 5:
			x = 256
		case 6:
			x = math.MaxUint64
		case 7: // every byte-width boundary of the big-endian integer form: 2^(8k)-1, 2^(8k), 2^(8k)+1
			k := uint(1 + r.Intn(7))
			x = (uint64(1) << (8 * k)) + uint64(r.Intn(3)) - 1
		default:
			x = r.Uint64() >> uint(r.Intn(64))
		}
		if d.N < 64 {
			x &= (uint64(1) << uint(d.N)) - 1
		}
		return &V{K: 'u', U: x}
	case 'i':
		var x int64
		switch r.Intn(12) {
		case 0:
			x = 0
		case 1:
			x = 1
		case 2:
			x = -1
		case 3:
			x = 9
		case 4:
			x = 10
		case 5:
			x = 15
		case 6:
			x = 16
		case 7:
			x = -16
		case 8:
			x = math.MinInt64
		case 9:
			x = math.MaxInt64
		default:
			x = int64(r.Uint64()) >> uint(r.Intn(64))
		}
		if d.N < 64 {
			sh := uint(64 - d.N)
			x = (x << sh) >> sh
		}
		return &V{K: 'i', I: x}
	case 'b':
		if r.Intn(2) == 0 {
			return &V{K: 't'}
		}
		return &V{K: 'f'}
	case 'G':
		if r.Intn(5) == 0 {
			return &V{K: 'n'}
		}
		return &V{K: 'p', Sub: []*V{vg.big()}}
	case 'g':
		return vg.big()
	case 'Y', 'S':
		return &V{K: 'x', B: vg.bytesOfLen()}
	case 'A':
		b := make([]byte, d.N)
		if r.Intn(4) != 0 {
			r.Read(b)
		}
		if d.N > 0 && r.Intn(6) == 0 {
			b[0] = 0
		}
		if d.N == 1 && b[0] == 0 && !gateArr1Zero {
			b[0] = byte(1 + r.Intn(255)) // proposed finding bytearray1-zero-not-consumed: gated off
		}
		return &V{K: 'x', B: b}
	case 'T':
		switch r.Intn(6) {
		case 0:
			return &V{K: 'T', Sec: -62135596800, Nsec: 0}
		case 1:
			return &V{K: 'T', Sec: 0, Nsec: 0}
		case 2:
			return &V{K: 'T', Sec: -1, Nsec: 999999999}
		case 3:
			return &V{K: 'T', Sec: math.MaxInt64 >> uint(1+r.Intn(30)), Nsec: int64(r.Intn(1000000000))}
		}
		return &V{K: 'T', Sec: 1500000000 + int64(r.Intn(200000000)), Nsec: int64(r.Intn(1000000000))}
	case 'M':
		v := &V{K: 'm'}
		n := []int{0, 0, 1, 2, 3, 5}[r.Intn(6)]
		seen := map[string]bool{}
		for i := 0; i < n; i++ {
			k := make([]byte, 20)
			r.Read(k)
			if r.Intn(3) == 0 {
				k = append([]byte{}, make([]byte, 19)...)
				k = append(k, byte(r.Intn(4)))
			}
			if seen[string(k)] {
				continue
			}
			seen[string(k)] = true
			v.Keys = append(v.Keys, k)
			if vg.nilMap && r.Intn(2) == 0 {
				v.Sub = append(v.Sub, &V{K: 'n'})
			} else {
				v.Sub = append(v.Sub, &V{K: 'p', Sub: []*V{vg.big()}})
			}
		}
		return v
	case 'L':
		v := &V{K: 'l'}
		n := 0
		if depth > 0 {
			n = []int{0, 1, 1, 2, 3}[r.Intn(5)]
		}
		for i := 0; i < n; i++ {
			v.Sub = append(v.Sub, vg.gen(d.Sub[0], depth-1))
		}
		return v
	case 'R':
		v := &V{K: 'l'}
		for i := 0; i < d.N; i++ {
			v.Sub = append(v.Sub, vg.gen(d.Sub[0], depth-1))
		}
		return v
	case 'Q':
		v := &V{K: 'l'}
		for _, s := range d.Sub {
			v.Sub = append(v.Sub, vg.gen(s, depth-1))
		}
		return v
	case 'P':
		if depth <= 0 || r.Intn(4) == 0 {
			return &V{K: 'n'}
		}
		return &V{K: 'p', Sub: []*V{vg.gen(d.Sub[0], depth-1)}}
	case 'C', 'D':
		if vg.nilCust {
			return &V{K: 'n'}
		}
		return &V{K: 'p', Sub: []*V{vg.gen(vg.u.Defs[d.Sub[0].N], depth-1)}}
	case 'c', 'd':
		return vg.gen(vg.u.Defs[d.Sub[0].N], depth-1)
	case 'I':
		if depth <= 0 || len(d.Impl) == 0 || r.Intn(6) == 0 {
			return &V{K: 'n'}
		}
		k := d.Impl[r.Intn(len(d.Impl))]
		return &V{K: 'j', Idx: k, Sub: []*V{vg.gen(&Desc{K: '@', N: vg.u.Reg[k].Ty}, depth-1)}}
	}
	panic("harness: gen on unsupported descriptor " + string(d.K))
}

// permuteMaps returns a copy of v with every map's insertion order permuted.
func permuteMaps(g *hx.Gen, v *V) *V {
	c := *v
	c.Sub = nil
	for _, s := range v.Sub {
		c.Sub = append(c.Sub, permuteMaps(g, s))
	}
	if v.K == 'm' {
		p := g.Rng.Perm(len(v.Keys))
		keys := make([][]byte, len(p))
		sub := make([]*V, len(p))
		for i, j := range p {
			keys[i], sub[i] = v.Keys[j], c.Sub[j]
		}
		c.Keys, c.Sub = keys, sub
	}
	return &c
}

func hasMap(u *Universe, d *Desc, seen map[int]bool) bool {
	if d.K == 'M' {
		return true
	}
	if d.K == '@' {
		if seen[d.N] {
			return false
		}
		seen[d.N] = true
		return hasMap(u, u.Defs[d.N], seen)
	}
	for _, s := range d.Sub {
		if hasMap(u, s, seen) {
			return true
		}
	}
	return false
}

func safeEncode(r *Root, u *Universe, v *V, pre bool) (b []byte, ok bool) {
	defer func() {
		if rec := recover(); rec != nil {
			b, ok = nil, false
		}
	}()
	ptr := reflect.New(r.RT)
	u.Build(r.D, v, ptr.Elem())
	b, err := encodeRoot(r, ptr, pre)
	return b, err == nil
}

func preArg(r *Root, wt bool) (encPre string, decPre string) {
	if wt && r.Pre != nil {
		return hexs(r.Pre), "1"
	}
	if wt {
		return "+", "0" // WithType entry point, type not registered: no prefix
	}
	return "-", "0"
}

func encOp(r *Root, v *V, wt bool) string {
	p, _ := preArg(r, wt)
	if p == "+" {
		p = "-"
	}
	return fmt.Sprintf("enc root=%s ty=%s pre=%s val=%s", sanitize(r.Name), r.Key, p, v.String())
}

func decOp(r *Root, b []byte, wt bool, rt bool) string {
	_, p := preArg(r, wt)
	w := "0"
	if wt {
		w = "1"
	}
	s := fmt.Sprintf("dec root=%s ty=%s wt=%s pre=%s bytes=%s", sanitize(r.Name), r.Key, w, p, hx.Hex(b))
	if rt {
		s += " rt=1"
	}
	return s
}

func sanitize(s string) string { return strings.NewReplacer(" ", "", "=", "").Replace(s) }

func (P) Generate(g *hx.Gen) {
	wd := theWorld()
	u := wd.u
	for k := range u.Unsup {
		g.Count("unsupported:" + sanitize(k))
	}
	g.Stats["roots"] = len(wd.roots)
	g.Stats["registry-entries"] = len(u.Reg)
	g.Stats["type-defs"] = len(u.Defs)
	pick := func() *Root {
		for {
			r := wd.roots[g.Rng.Intn(len(wd.roots))]
			if r.Big && g.Rng.Intn(4) != 0 {
				continue
			}
			return r
		}
	}
	header := func(r *Root, tags ...string) []string {
		return append([]string{hx.CaseOp(tags...)}, r.Pream...)
	}
	var corpus [][]byte // valid encodings kept for the fuzz stream: (root index, bytes)
	var corpusRoot []*Root

	// (corpus) fixed witnesses of the known findings
	if r := wd.byName["Account"]; r != nil {
		ops := header(r, "fuzz")
		ops = append(ops, decOp(r, hx.UnHex("ed808080c786343030303030a0000000000000000000000000000000000000000000000000000000000000000080"), false, false))
		// repaired (8c7e349): counts the list cannot hold (0x400000 allocated ~300 MB, 0x10000000000 ended the process)
		ops = append(ops, decOp(r, hx.UnHex("f2808080cc8b3130303030303030303030a0000000000000000000000000000000000000000000000000000000000000000080"), false, false))
		g.Case("corpus map count 0x400000 in 46 bytes, 0x10000000000 in 51 bytes", ops, true)
		vg := &vgen{g: g, u: u, nilMap: true}
		for i := 0; i < 6; i++ {
			v := vg.gen(r.D, 3)
			if strings.Contains(v.String(), ":n") {
				g.Case("corpus nil map value", append(header(r, "edge", "nilmapvalue"), encOp(r, v, false)), false)
				break
			}
		}
	}
	// repaired (2f1154b): a registered prefix of a type that does not implement the interface must be an error, not a panic
	for _, name := range []string{"crypto.PubKey", "types.Tx", "types.Evidence"} {
		if r := wd.byName[name]; r != nil {
			ops := header(r, "fuzz")
			ops = append(ops, decOp(r, hx.UnHex("ed64386c21c0dec0"), false, false))
			for _, e := range u.Reg {
				ok := false
				for _, k := range r.D.Impl {
					ok = ok || k == e.Idx
				}
				if !ok {
					ops = append(ops, decOp(r, append(append([]byte{}, e.Disfix...), 0xC0), false, false))
					break
				}
			}
			g.Case("corpus foreign prefix "+name, ops, true)
		}
	}
	for _, name := range []string{"*Transaction", "[]*Transaction", "Receipt"} {
		if r := wd.byName[name]; r != nil {
			vg := &vgen{g: g, u: u, nilCust: true}
			v := vg.gen(r.D, 3)
			for i := 0; i < 20 && !strings.Contains(v.String(), "n"); i++ {
				v = vg.gen(r.D, 3)
			}
			g.Case("corpus nil custom pointer "+name, append(header(r, "edge", "nilcustom"), encOp(r, v, false)), false)
		}
	}
	if r := wd.byName["[]*Transaction"]; r != nil {
		g.Case("corpus empty element decodes to nil pointer", append(header(r, "fuzz"), decOp(r, []byte{0xC1, 0xC0}, false, false)), true)
	}

	// (pin) the descriptors of the roots covered end to end by the round-trip theorem must be the pinned ones
	for _, name := range []string{"Header", "BlockID", "PartSetHeader", "Part", "Transaction", "*consensus.HasVoteMessage",
		"*consensus.NewRoundStepMessage", "*consensus.BlockPartMessage", "*consensus.VoteSetMaj23Message", "*consensus.CommitStepMessage",
		"*consensus.ProposalPOLMessage", "*consensus.VoteSetBitsMessage"} {
		g.Case("pin "+name, []string{hx.CaseOp("pin"), "pin root=" + sanitize(name)}, false)
	}

	// (rt) round trips, every root at least twice
	nRT := g.Pick(5000, 30000)
	for k := 0; k < nRT; k++ {
		var r *Root
		if k < 2*len(wd.roots) {
			r = wd.roots[k%len(wd.roots)]
		} else {
			r = pick()
		}
		vg := &vgen{g: g, u: u}
		v := vg.gen(r.D, 3+g.Rng.Intn(3))
		wt := g.Rng.Intn(3) == 0
		ops := header(r, "rt")
		ops = append(ops, encOp(r, v, wt))
		if b, ok := safeEncode(r, u, v, wt && r.Pre != nil); ok {
			ops = append(ops, decOp(r, b, wt, true))
			if g.Rng.Intn(3) == 0 {
				// the io.Writer entry points on a writer that fails after `cap` bytes
				caps := []int{0, 1, len(b) - 1, len(b), len(b) + 1, g.Rng.Intn(len(b) + 1)}
				cp := caps[g.Rng.Intn(len(caps))]
				if cp < 0 {
					cp = 0
				}
				p, _ := preArg(r, wt)
				if p == "+" {
					p = "-"
				}
				ops = append(ops, fmt.Sprintf("wenc root=%s ty=%s pre=%s api=%s cap=%d val=%s", sanitize(r.Name), r.Key, p, []string{"E", "W"}[g.Rng.Intn(2)], cp, v.String()))
			}
			// the same bytes through the io.Reader entry points: unlimited, limit = len, limit > len (all must round-trip),
			// and a limit that cuts the input (must be an error, never a panic)
			ops = append(ops, rdecOp(r, b, wt, "u", randRk(g))+" rt=1")
			if len(b) > 0 {
				switch g.Rng.Intn(3) {
				case 0:
					ops = append(ops, rdecOp(r, b, wt, fmt.Sprint(len(b)), randRk(g))+" rt=1")
				case 1:
					ops = append(ops, rdecOp(r, b, wt, fmt.Sprint(len(b)+1+g.Rng.Intn(2000)), randRk(g))+" rt=1")
				default:
					if len(b) > 1 {
						ops = append(ops, rdecOp(r, b, wt, fmt.Sprint(1+g.Rng.Intn(len(b)-1)), randRk(g)))
					}
				}
			}
			if len(b) < 4096 {
				corpus = append(corpus, b)
				corpusRoot = append(corpusRoot, r)
			}
			if !wt && r.Pre == nil && g.Rng.Intn(3) == 0 {
				ops = append(ops, decOp(r, b, true, true)) // the WithType entry point on an unregistered type is the plain one
			}
		}
		g.Count("rt-root:" + sanitize(r.Name))
		g.Case("rt "+r.Name, ops, vg.nodes >= 8)
	}

	g.Case("registry", []string{hx.CaseOp("registry"), "regtest"}, true)
	g.Case("api", []string{hx.CaseOp("api"), "apitest"}, true)
	genWiden(g, wd, corpus, corpusRoot)
	genSops(g, corpus)
	genStateObj(g, wd)
	genMapKeyOrder(g, wd)

	// (canon) map insertion order
	var mapRoots []*Root
	for _, r := range wd.roots {
		if hasMap(u, r.D, map[int]bool{}) {
			mapRoots = append(mapRoots, r)
		}
	}
	g.Stats["roots-with-map"] = len(mapRoots)
	for k := 0; k < g.Pick(400, 2000) && len(mapRoots) > 0; k++ {
		r := mapRoots[g.Rng.Intn(len(mapRoots))]
		vg := &vgen{g: g, u: u}
		v := vg.gen(r.D, 4)
		ops := header(r, "canon")
		for j := 0; j < 4; j++ {
			ops = append(ops, encOp(r, permuteMaps(g, v), false))
		}
		if k%4 == 0 {
			ops = append(ops, "cenc n=8 reps=40")
			g.Count("concurrent-encode")
		}
		g.Count("canon-root:" + sanitize(r.Name))
		g.Case("canon "+r.Name, ops, strings.Contains(v.String(), ","))
	}

	// (edge) values the encoder must reject or that it cannot take
	for k := 0; k < g.Pick(400, 2000); k++ {
		r := pick()
		vg := &vgen{g: g, u: u, edge: true}
		v := vg.gen(r.D, 3)
		ops := header(r, "edge")
		ops = append(ops, encOp(r, v, false))
		g.Case("edge "+r.Name, ops, false)
	}

	// (fuzz) arbitrary bytes into every decoder entry point
	nF := g.Pick(15000, 90000)
	for k := 0; k < nF; k++ {
		var r *Root
		var b []byte
		kind := ""
		derived := false
		strict := false
		switch c := g.Rng.Intn(24); {
		case c == 23 && len(corpus) > 0: // a nested item announcing more than its list holds, outer sizes consistent
			i := g.Rng.Intn(len(corpus))
			r = corpusRoot[i]
			var ok bool
			b, ok = nestedOversize(g, corpus[i])
			if !ok {
				continue
			}
			kind, derived = "nested-oversize", true
		case c >= 20 && len(corpus) > 0: // exactly one item re-encoded non-canonically, all sizes consistent
			i := g.Rng.Intn(len(corpus))
			r = corpusRoot[i]
			var ok bool
			kind, b, ok = nonCanonical(g, corpus[i])
			if !ok {
				continue
			}
			derived = true
			// where the decoder has no deliberate leniency (no interface prefix, no time.Time, whose two integers are
			// decoded with their errors ignored) a non-canonical item must be rejected
			strict = !hasKind(u, r.D, "IT", map[int]bool{})
		case c >= 20:
			continue
		case c < 11 && len(corpus) > 0: // mutate a valid encoding
			i := g.Rng.Intn(len(corpus))
			r, b = corpusRoot[i], append([]byte{}, corpus[i]...)
			derived = true
			if g.Rng.Intn(5) == 0 { // present it to another decoder
				r = pick()
			}
			kind, b = mutate(g, b)
		case c < 13: // random bytes
			r = pick()
			b = make([]byte, g.Rng.Intn(40))
			g.Rng.Read(b)
			kind = "random"
		case c < 15: // random structure: list headers with plausible sizes
			r = pick()
			b = randomRLP(g, 3)
			kind = "random-rlp"
		case c < 16: // deep nesting
			r = pick()
			n := 1 + g.Rng.Intn(g.Pick(300, 3000))
			b = deepNest(n)
			kind = "deep-nesting"
		case c < 17: // huge declared sizes
			r = pick()
			b = hugeSize(g)
			kind = "huge-size"
		case c < 19: // interface prefixes: every registered disfix in front of something
			r = pick()
			e := u.Reg[g.Rng.Intn(len(u.Reg))]
			b = append([]byte{}, e.Disfix...)
			if len(corpus) > 0 && g.Rng.Intn(2) == 0 {
				b = append(b, corpus[g.Rng.Intn(len(corpus))]...)
			} else {
				b = append(b, randomRLP(g, 2)...)
			}
			kind = "disfix"
		default: // map count inflation
			if len(mapRoots) == 0 {
				continue
			}
			r = mapRoots[g.Rng.Intn(len(mapRoots))]
			b = mapInflate(g, r, u)
			kind = "map-count"
		}
		wt := g.Rng.Intn(3) == 0
		ops := header(r, "fuzz")
		if strict {
			wt = false
			ops = header(r, "fuzz", "noncanon")
		}
		ops = append(ops, rdecOp(r, b, wt, randLim(g, len(b)), randRk(g)))
		if kind == "nested-oversize" || kind == "huge-size" {
			ops = append(ops, rdecOp(r, b, wt, "u", "r"), rdecOp(r, b, wt, "u", "b"), rdecOp(r, b, wt, fmt.Sprint(len(b)+1+g.Rng.Intn(100)), randRk(g)))
		}
		ops = append(ops, decOp(r, b, wt, false))
		g.Count("fuzz-kind:" + kind)
		cr := g.Case("fuzz "+kind+" "+r.Name, ops, derived)
		a := cr.Impl[len(cr.Impl)-1]
		switch {
		case strings.HasPrefix(a, "ok "):
			g.Count("fuzz-answer:accepted")
			if b2, _ := hx.Arg(hx.Tokens(a), "b2"); b2 != hx.Hex(b) && !(wt && r.Pre != nil) {
				g.Count("fuzz-answer:accepted-noncanonical(lenient)")
			}
		case strings.HasPrefix(a, "err"):
			g.Count("fuzz-answer:rejected")
		default:
			g.Count("fuzz-answer:" + strings.Fields(a)[0])
		}
	}
}

func mutate(g *hx.Gen, b []byte) (string, []byte) {
	r := g.Rng
	if len(b) == 0 {
		return "mut-empty", b
	}
	switch r.Intn(8) {
	case 0:
		i := r.Intn(len(b))
		b[i] ^= 1 << uint(r.Intn(8))
		return "mut-bitflip", b
	case 1:
		return "mut-truncate", b[:r.Intn(len(b))]
	case 2:
		i := r.Intn(len(b) + 1)
		nb := append(append(append([]byte{}, b[:i]...), byte(r.Intn(256))), b[i:]...)
		return "mut-insert", nb
	case 3:
		i := r.Intn(len(b))
		return "mut-delete", append(append([]byte{}, b[:i]...), b[i+1:]...)
	case 4:
		i := r.Intn(len(b))
		b[i] = []byte{0x00, 0x7f, 0x80, 0x81, 0xb7, 0xb8, 0xbf, 0xc0, 0xc1, 0xf7, 0xf8, 0xff}[r.Intn(12)]
		return "mut-tagbyte", b
	case 5:
		return "mut-trailing", append(b, byte(r.Intn(256)))
	case 6: // length-field inflation: bump the first header
		b[0]++
		return "mut-len-inflate", b
	default:
		i := r.Intn(len(b))
		j := i + r.Intn(len(b)-i)
		nb := append(append(append([]byte{}, b[:j]...), b[i:j]...), b[j:]...)
		return "mut-duplicate-span", nb
	}
}

func randomRLP(g *hx.Gen, depth int) []byte {
	r := g.Rng
	if depth == 0 || r.Intn(3) == 0 {
		switch r.Intn(5) {
		case 0:
			return []byte{byte(r.Intn(128))}
		case 1:
			return []byte{0x80}
		case 2:
			n := r.Intn(56)
			b := make([]byte, n+1)
			r.Read(b)
			b[0] = 0x80 + byte(n)
			return b
		case 3:
			// ASCII hex integer
			s := fmt.Sprintf("%x", r.Int63()>>uint(r.Intn(63)))
			if r.Intn(3) == 0 {
				s = "-" + s
			}
			if len(s) == 1 {
				return []byte(s)
			}
			return append([]byte{0x80 + byte(len(s))}, s...)
		default:
			b := make([]byte, 21)
			r.Read(b)
			b[0] = 0x94
			return b
		}
	}
	var p []byte
	for i := r.Intn(5); i > 0; i-- {
		p = append(p, randomRLP(g, depth-1)...)
	}
	if len(p) < 56 {
		return append([]byte{0xC0 + byte(len(p))}, p...)
	}
	if len(p) < 256 {
		return append([]byte{0xF8, byte(len(p))}, p...)
	}
	return append([]byte{0xF9, byte(len(p) >> 8), byte(len(p))}, p...)
}

func deepNest(n int) []byte {
	// n nested lists, each exactly wrapping the next
	b := []byte{0xC0}
	for i := 1; i < n; i++ {
		l := len(b)
		switch {
		case l < 56:
			b = append([]byte{0xC0 + byte(l)}, b...)
		case l < 256:
			b = append([]byte{0xF8, byte(l)}, b...)
		case l < 65536:
			b = append([]byte{0xF9, byte(l >> 8), byte(l)}, b...)
		default:
			b = append([]byte{0xFA, byte(l >> 16), byte(l >> 8), byte(l)}, b...)
		}
	}
	return b
}

func hugeSize(g *hx.Gen) []byte {
	r := g.Rng
	tag := []byte{0xBF, 0xFF, 0xBB, 0xFB, 0xBA, 0xFA}[r.Intn(6)]
	ll := int(tag&0x07) + 1
	if tag >= 0xF8 {
		ll = int(tag-0xF7)
	} else {
		ll = int(tag - 0xB7)
	}
	b := []byte{tag}
	for i := 0; i < ll; i++ {
		b = append(b, 0xff)
	}
	if r.Intn(2) == 0 {
		b[1] = 0x7f
	}
	tail := make([]byte, r.Intn(20))
	r.Read(tail)
	// sometimes put it inside a well-formed outer list
	b = append(b, tail...)
	if r.Intn(2) == 0 && len(b) < 56 {
		b = append([]byte{0xC0 + byte(len(b))}, b...)
	}
	return b
}

// mapInflate: a valid encoding of a value with a token map whose declared entry count is replaced by a large one
func mapInflate(g *hx.Gen, r *Root, u *Universe) []byte {
	vg := &vgen{g: g, u: u}
	v := vg.gen(r.D, 4)
	b, ok := safeEncode(r, u, v, false)
	if !ok {
		return []byte{0xC0}
	}
	// the count is a hex-ASCII int right after a list header: replace a one-character count by a longer one where the
	// enclosing sizes still fit is not possible in general, so build the Account-shaped input directly as well
	if g.Rng.Intn(2) == 0 {
		cnt := fmt.Sprintf("%x", []int64{1 << 10, 1 << 22, 3, 70000, -1, math.MaxInt64, 1 << 40}[g.Rng.Intn(7)])
		m := append([]byte{0x80 + byte(len(cnt))}, cnt...)
		m = append([]byte{0xC0 + byte(len(m))}, m...)
		// Account{Nonce, Credits, Balance, Tokens, Root, CodeHash}
		p := []byte{0x80, 0x80, 0x80}
		p = append(p, m...)
		p = append(p, 0xA0)
		p = append(p, make([]byte, 32)...)
		p = append(p, 0x80)
		return append([]byte{0xC0 + byte(len(p))}, p...)
	}
	return b
}

var _ = ser.EmptyList
