package c11

import "lvharness/hx"

// generic RLP tree of a valid encoding (only for types without interface prefixes inside, which are not items)
type rnode struct {
	list bool
	str  []byte
	sub  []*rnode
	raw  []byte // non-canonical replacement encoding, if set
}

func parseRLP(b []byte) (*rnode, []byte, bool) {
	if len(b) == 0 {
		return nil, nil, false
	}
	t := b[0]
	var size, hl int
	switch {
	case t < 0x80:
		return &rnode{str: b[:1]}, b[1:], true
	case t < 0xB8:
		size, hl = int(t-0x80), 1
	case t < 0xC0:
		ll := int(t - 0xB7)
		if len(b) < 1+ll || ll > 3 {
			return nil, nil, false
		}
		for _, x := range b[1 : 1+ll] {
			size = size<<8 | int(x)
		}
		hl = 1 + ll
	case t < 0xF8:
		size, hl = int(t-0xC0), 1
	default:
		ll := int(t - 0xF7)
		if len(b) < 1+ll || ll > 3 {
			return nil, nil, false
		}
		for _, x := range b[1 : 1+ll] {
			size = size<<8 | int(x)
		}
		hl = 1 + ll
	}
	if len(b) < hl+size {
		return nil, nil, false
	}
	body, rest := b[hl:hl+size], b[hl+size:]
	if t < 0xC0 {
		return &rnode{str: body}, rest, true
	}
	n := &rnode{list: true}
	for len(body) > 0 {
		c, r, ok := parseRLP(body)
		if !ok {
			return nil, nil, false
		}
		n.sub = append(n.sub, c)
		body = r
	}
	return n, rest, true
}

func head(small, large byte, n int, forceLong bool) []byte {
	if n < 56 && !forceLong {
		return []byte{small + byte(n)}
	}
	switch {
	case n < 256:
		return []byte{large + 1, byte(n)}
	case n < 65536:
		return []byte{large + 2, byte(n >> 8), byte(n)}
	}
	return []byte{large + 3, byte(n >> 16), byte(n >> 8), byte(n)}
}

func (n *rnode) enc() []byte {
	if n.raw != nil {
		return n.raw
	}
	if !n.list {
		if len(n.str) == 1 && n.str[0] < 0x80 {
			return n.str
		}
		return append(head(0x80, 0xB7, len(n.str), false), n.str...)
	}
	var p []byte
	for _, c := range n.sub {
		p = append(p, c.enc()...)
	}
	return append(head(0xC0, 0xF7, len(p), false), p...)
}

func (n *rnode) nodes(out *[]*rnode) {
	*out = append(*out, n)
	for _, c := range n.sub {
		c.nodes(out)
	}
}

// nonCanonical re-encodes exactly one item of a valid encoding in a non-canonical way, keeping every enclosing size right.
func nonCanonical(g *hx.Gen, b []byte) (string, []byte, bool) {
	root, rest, ok := parseRLP(b)
	if !ok || len(rest) != 0 {
		return "", nil, false
	}
	var all []*rnode
	root.nodes(&all)
	for try := 0; try < 8; try++ {
		n := all[g.Rng.Intn(len(all))]
		switch k := g.Rng.Intn(5); {
		case k == 4:
			// a long-form size with a leading zero byte (B9 00 40 … instead of B8 40 …)
			var body []byte
			small, large := byte(0x80), byte(0xB7)
			if n.list {
				small, large = 0xC0, 0xF7
				for _, c := range n.sub {
					body = append(body, c.enc()...)
				}
			} else {
				body = n.str
			}
			if len(body) >= 56 {
				h := head(small, large, len(body), false)
				h = append([]byte{h[0] + 1, 0x00}, h[1:]...)
				n.raw = append(h, body...)
				return "noncanon-zero-padded-size", root.enc(), true
			}
		case k == 0 && !n.list && len(n.str) == 1 && n.str[0] < 0x80:
			n.raw = []byte{0x81, n.str[0]}
			return "noncanon-wrapped-byte", root.enc(), true
		case k == 1 && !n.list:
			s := append([]byte{0}, n.str...)
			n.raw = append(head(0x80, 0xB7, len(s), false), s...)
			return "noncanon-leading-zero", root.enc(), true
		case k == 2 && !n.list && len(n.str) < 56 && !(len(n.str) == 1 && n.str[0] < 0x80):
			n.raw = append(head(0x80, 0xB7, len(n.str), true), n.str...)
			return "noncanon-long-string-header", root.enc(), true
		case k == 3 && n.list:
			var p []byte
			for _, c := range n.sub {
				p = append(p, c.enc()...)
			}
			if len(p) < 56 {
				n.raw = append(head(0xC0, 0xF7, len(p), true), p...)
				return "noncanon-long-list-header", root.enc(), true
			}
		}
	}
	return "", nil, false
}

func hasKind(u *Universe, d *Desc, ks string, seen map[int]bool) bool {
	for i := 0; i < len(ks); i++ {
		if d.K == ks[i] {
			return true
		}
	}
	if d.K == '@' {
		if seen[d.N] {
			return false
		}
		seen[d.N] = true
		return hasKind(u, u.Defs[d.N], ks, seen)
	}
	for _, s := range d.Sub {
		if hasKind(u, s, ks, seen) {
			return true
		}
	}
	return false
}

// nestedOversize keeps every enclosing size right but makes one NESTED item announce far more than its list holds
// (2^62 bytes, 256 MiB, or 2^40): the "element is larger than containing list" check must reject it on every kind of stream.
func nestedOversize(g *hx.Gen, b []byte) ([]byte, bool) {
	root, rest, ok := parseRLP(b)
	if !ok || len(rest) != 0 || !root.list {
		return nil, false
	}
	var all []*rnode
	root.nodes(&all)
	if len(all) < 2 {
		return nil, false
	}
	n := all[1+g.Rng.Intn(len(all)-1)]
	tag := byte(0xB7)
	if n.list {
		tag = 0xF7
	}
	switch g.Rng.Intn(3) {
	case 0:
		n.raw = []byte{tag + 8, 0x40, 0, 0, 0, 0, 0, 0, 0}
	case 1:
		n.raw = []byte{tag + 4, 0x10, 0, 0, 0}
	default:
		n.raw = []byte{tag + 6, 0x01, 0, 0, 0, 0, 0}
	}
	return root.enc(), true
}
