package c11

// state/state_object.go: the custom coder stateObject.EncodeSER (what the state trie stores for an account) and the storage
// slot coding (EncodeToBytes(TrimLeft(value)) on write, ser.Split on read), driven through the real state.StateDB.

import (
	"bytes"
	"fmt"
	"math/big"
	"strings"
	"sync"

	"github.com/lianxiangcloud/linkchain/libs/common"
	"github.com/lianxiangcloud/linkchain/libs/log"
	dbm "github.com/lianxiangcloud/linkchain/libs/db"
	"github.com/lianxiangcloud/linkchain/state"

	"lvharness/hx"
)

const (
	emptyRootHex     = "56e81f171bcc55a6ff8345e692c0f86e5b48e01b996cadc001622fb5e363b421"
	emptyCodeHashHex = "c5d2460186f7233c927e7db2dcc703c0e500b653ca82273b7bfad8045d85a470"
	// gateStorageZeros enables storage values with leading zero bytes (proposed/C11-storage-value-leading-zeros.md:
	// they are trimmed on the way to the trie and come back shorter from a cold cache)
	gateStorageZeros = true
)

// execSobj: val is an Account value (no storage, no code); answer = the bytes the state trie holds for the account
var quietOnce sync.Once

func quietLogs() { quietOnce.Do(func() { log.Root().SetHandler(log.DiscardHandler()) }) }

func execSobj(wd *world, toks []string) string {
	quietLogs()
	vs, _ := hx.Arg(toks, "val")
	v := ParseV(vs)
	if v.K != 'l' || len(v.Sub) != 6 {
		return "bad-op"
	}
	mdb := dbm.NewMemDB()
	s, err := state.New(common.EmptyHash, state.NewDatabase(mdb))
	if err != nil {
		return "harness-error"
	}
	var addr common.Address
	copy(addr[:], bytes.Repeat([]byte{0xA7}, 20))
	s.SetNonce(addr, v.Sub[0].U)
	if v.Sub[2].K == 'p' {
		s.SetBalance(addr, bigOf(v.Sub[2].Sub[0]))
	}
	for i, k := range v.Sub[3].Keys {
		var tok common.Address
		copy(tok[:], k)
		if v.Sub[3].Sub[i].K == 'p' {
			s.SetTokenBalance(addr, tok, bigOf(v.Sub[3].Sub[i].Sub[0]))
		}
	}
	s.SetCredits(addr, v.Sub[1].U) // last: the balance setters touch the credits
	root, err := s.Commit(false, 1)
	if err != nil {
		return "err"
	}
	tr, err := s.Database().OpenTrie(root)
	if err != nil {
		return "err"
	}
	enc, err := tr.TryGet(addr[:])
	if err != nil {
		return "err"
	}
	return "b=" + hx.Hex(enc)
}

// execSstore: storage slots written, committed, and read back from a fresh StateDB (cold cache) and from the same one
func execSstore(toks []string) string {
	quietLogs()
	kv, _ := hx.Arg(toks, "kv")
	mdb := dbm.NewMemDB()
	s, err := state.New(common.EmptyHash, state.NewDatabase(mdb))
	if err != nil {
		return "harness-error"
	}
	var addr common.Address
	copy(addr[:], bytes.Repeat([]byte{0xA8}, 20))
	s.SetBalance(addr, big.NewInt(1))
	type slot struct {
		k common.Hash
		v []byte
	}
	var slots []slot
	for _, p := range hx.SplitComma(kv) {
		parts := strings.SplitN(p, ":", 2)
		var k common.Hash
		copy(k[:], hx.UnHex(parts[0]))
		val := hx.UnHex(parts[1])
		s.SetState(addr, k, val)
		slots = append(slots, slot{k, val})
	}
	root, err := s.Commit(false, 1)
	if err != nil {
		return "err"
	}
	if err := s.Database().TrieDB().Commit(root, false); err != nil {
		return "err"
	}
	s2, err := state.New(root, state.NewDatabase(mdb))
	if err != nil {
		return "err"
	}
	last := map[common.Hash][]byte{}
	for _, sl := range slots {
		last[sl.k] = sl.v
	}
	for i, sl := range slots {
		want := last[sl.k]
		if got := s2.GetState(addr, sl.k); !bytes.Equal(got, want) {
			return fmt.Sprintf("differ slot=%d wrote=%x cold=%x warm=%x", i, want, got, s.GetState(addr, sl.k))
		}
	}
	return "ok"
}

func genStateObj(g *hx.Gen, wd *world) {
	r := wd.byName["Account"]
	if r == nil {
		return
	}
	for k := 0; k < g.Pick(300, 3000); k++ {
		vg := &vgen{g: g, u: wd.u}
		v := vg.gen(r.D, 4)
		// what a live account can hold: no nil/zero token amounts (the setter drops them), fixed root/code hash of an
		// account without storage and code
		var keys [][]byte
		var sub []*V
		for i, tv := range v.Sub[3].Sub {
			// (the all-zero token address is the native coin: SetTokenBalance routes it to Balance)
			if tv.K == 'p' && len(tv.Sub[0].B) > 0 && !bytes.Equal(v.Sub[3].Keys[i], make([]byte, 20)) {
				keys, sub = append(keys, v.Sub[3].Keys[i]), append(sub, tv)
			}
		}
		v.Sub[3].Keys, v.Sub[3].Sub = keys, sub
		if v.Sub[2].K == 'n' {
			v.Sub[2] = &V{K: 'p', Sub: []*V{{K: 'g'}}}
		}
		v.Sub[4] = &V{K: 'x', B: hx.UnHex(emptyRootHex)}
		v.Sub[5] = &V{K: 'x', B: hx.UnHex(emptyCodeHashHex)}
		if v.Sub[0].U == 0 && v.Sub[1].U == 0 && len(v.Sub[2].Sub[0].B) == 0 && len(keys) == 0 {
			v.Sub[0].U = 1
		}
		ops := append([]string{hx.CaseOp("sobj")}, r.Pream...)
		ops = append(ops, fmt.Sprintf("sobj ty=%s val=%s", r.Key, v.String()))
		g.Case("stateObject.EncodeSER", ops, len(keys) > 0)
	}
	for k := 0; k < g.Pick(200, 2000); k++ {
		n := 1 + g.Rng.Intn(5)
		var parts []string
		for i := 0; i < n; i++ {
			key := make([]byte, 32)
			g.Rng.Read(key)
			if g.Rng.Intn(4) == 0 {
				key = bytes.Repeat([]byte{byte(g.Rng.Intn(3))}, 32)
			}
			ln := []int{1, 1, 2, 31, 32, 33, 55, 56, 57, 300}[g.Rng.Intn(10)]
			val := make([]byte, ln)
			g.Rng.Read(val)
			switch g.Rng.Intn(6) {
			case 0:
				val[0] = byte(g.Rng.Intn(0x80)) // single byte below 0x80: its own encoding
			case 1:
				val[0] = 0x80
			case 2:
				if gateStorageZeros {
					val[0] = 0
				}
			}
			if val[0] == 0 && !gateStorageZeros {
				val[0] = 1
			}
			parts = append(parts, fmt.Sprintf("%x:%x", key, val))
		}
		g.Case("storage slots", []string{hx.CaseOp("sstore"), "sstore kv=" + strings.Join(parts, ",")}, true)
	}
}

// gateMapKeyOrder enables Account encodings whose token map entries are out of order or repeat a key (the decoder accepts
// them: an observation, see proposed/C11-map-decoder-key-order.md; only what the property demands is monitored)
const gateMapKeyOrder = true

func genMapKeyOrder(g *hx.Gen, wd *world) {
	r := wd.byName["Account"]
	if r == nil || !gateMapKeyOrder {
		return
	}
	for k := 0; k < g.Pick(60, 600); k++ {
		n := 2 + g.Rng.Intn(3)
		var keys [][]byte
		for i := 0; i < n; i++ {
			key := make([]byte, 20)
			g.Rng.Read(key)
			keys = append(keys, key)
		}
		if g.Rng.Intn(2) == 0 {
			keys[1] = keys[0] // duplicate key
		} else { // descending order
			for i := 0; i < n; i++ {
				for j := i + 1; j < n; j++ {
					if bytes.Compare(keys[i], keys[j]) < 0 {
						keys[i], keys[j] = keys[j], keys[i]
					}
				}
			}
		}
		m := []byte(fmt.Sprintf("%x", n))
		if len(m) != 1 {
			continue
		}
		for i, key := range keys {
			m = append(append(append(m, 0x94), key...), byte(1+i))
		}
		m = append([]byte{0xC0 + byte(len(m))}, m...)
		if len(m) > 56 {
			m = append([]byte{0xF8, byte(len(m) - 1)}, m[1:]...)
		}
		p := append([]byte{0x80, 0x80, 0x80}, m...)
		p = append(append(p, 0xA0), make([]byte, 32)...)
		p = append(p, 0x80)
		b := append([]byte{0xF8, byte(len(p))}, p...)
		// the decoder accepts these (observation, not a property violation: the property speaks of encodings of values);
		// what it demands is checked: no crash, bounded allocation (dec monitors), and decode -> value -> re-encode is a
		// fixed point: the re-encoding decodes to the same value and re-encodes to itself
		ops := append([]string{hx.CaseOp("fuzz", "mapkeys")}, r.Pream...)
		ops = append(ops, decOp(r, b, false, false))
		cr := g.Case("map keys out of order / repeated", ops, true)
		a := cr.Impl[len(cr.Impl)-1]
		if strings.HasPrefix(a, "ok ") {
			at := hx.Tokens(a)
			v1, _ := hx.Arg(at, "v")
			b2, _ := hx.Arg(at, "b2")
			if b2 != "err" && b2 != "panic" {
				ops2 := append([]string{hx.CaseOp("fuzz", "mapkeys")}, r.Pream...)
				ops2 = append(ops2, decOp(r, hx.UnHex(b2), false, false)+" expectv="+v1)
				g.Case("canonical re-encoding of an accepted map", ops2, true)
				g.Count("mapkeys:accepted")
			}
		} else {
			g.Count("mapkeys:rejected")
		}
	}
}
