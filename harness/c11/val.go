package c11

// Value trees: the text form shared with the Lean driver, and the two directions to real Go values (reflection).
//
//	u<dec> i<dec> t f x<hex> n p(v) l(v,...) j<idx>(v) m(<hexkey>:v,...) g<hex> g-<hex> T<sec>:<nsec>

import (
	"bytes"
	"encoding/hex"
	"fmt"
	"math"
	"math/big"
	"reflect"
	"sort"
	"strconv"
	"strings"
	"time"
	"unsafe"
)

type V struct {
	K    byte
	U    uint64
	I    int64
	B    []byte
	Neg  bool
	Sub  []*V
	Idx  int
	Keys [][]byte
	Sec  int64
	Nsec int64
}

func (v *V) String() string {
	var sb strings.Builder
	v.write(&sb)
	return sb.String()
}

func (v *V) write(sb *strings.Builder) {
	switch v.K {
	case 'u':
		fmt.Fprintf(sb, "u%d", v.U)
	case 'i':
		fmt.Fprintf(sb, "i%d", v.I)
	case 't', 'f', 'n':
		sb.WriteByte(v.K)
	case 'x':
		sb.WriteByte('x')
		sb.WriteString(hex.EncodeToString(v.B))
	case 'g':
		sb.WriteByte('g')
		if v.Neg && len(v.B) > 0 {
			sb.WriteByte('-')
		}
		sb.WriteString(hex.EncodeToString(v.B))
	case 'T':
		fmt.Fprintf(sb, "T%d:%d", v.Sec, v.Nsec)
	case 'p':
		sb.WriteString("p(")
		v.Sub[0].write(sb)
		sb.WriteByte(')')
	case 'l':
		sb.WriteString("l(")
		for i, s := range v.Sub {
			if i > 0 {
				sb.WriteByte(',')
			}
			s.write(sb)
		}
		sb.WriteByte(')')
	case 'j':
		fmt.Fprintf(sb, "j%d(", v.Idx)
		v.Sub[0].write(sb)
		sb.WriteByte(')')
	case 'm':
		sb.WriteString("m(")
		for i, s := range v.Sub {
			if i > 0 {
				sb.WriteByte(',')
			}
			sb.WriteString(hex.EncodeToString(v.Keys[i]))
			sb.WriteByte(':')
			s.write(sb)
		}
		sb.WriteByte(')')
	}
}

type parser struct {
	s string
	p int
}

func (p *parser) peek() byte {
	if p.p < len(p.s) {
		return p.s[p.p]
	}
	return 0
}

func (p *parser) expect(c byte) {
	if p.peek() != c {
		panic(fmt.Sprintf("harness: value syntax at %d in %q", p.p, p.s))
	}
	p.p++
}

func (p *parser) num() string {
	st := p.p
	if p.peek() == '-' {
		p.p++
	}
	for p.p < len(p.s) && p.s[p.p] >= '0' && p.s[p.p] <= '9' {
		p.p++
	}
	return p.s[st:p.p]
}

func (p *parser) hex() []byte {
	st := p.p
	for p.p < len(p.s) && strings.IndexByte("0123456789abcdef", p.s[p.p]) >= 0 {
		p.p++
	}
	b, err := hex.DecodeString(p.s[st:p.p])
	if err != nil {
		panic("harness: bad hex in value")
	}
	return b
}

func (p *parser) val() *V {
	c := p.peek()
	p.p++
	switch c {
	case 'u':
		n, _ := strconv.ParseUint(p.num(), 10, 64)
		return &V{K: 'u', U: n}
	case 'i':
		n, _ := strconv.ParseInt(p.num(), 10, 64)
		return &V{K: 'i', I: n}
	case 't', 'f', 'n':
		return &V{K: c}
	case 'x':
		return &V{K: 'x', B: p.hex()}
	case 'g':
		neg := false
		if p.peek() == '-' {
			neg = true
			p.p++
		}
		return &V{K: 'g', Neg: neg, B: p.hex()}
	case 'T':
		s, _ := strconv.ParseInt(p.num(), 10, 64)
		p.expect(':')
		n, _ := strconv.ParseInt(p.num(), 10, 64)
		return &V{K: 'T', Sec: s, Nsec: n}
	case 'p':
		p.expect('(')
		v := &V{K: 'p', Sub: []*V{p.val()}}
		p.expect(')')
		return v
	case 'l':
		p.expect('(')
		v := &V{K: 'l'}
		for p.peek() != ')' {
			if p.peek() == ',' {
				p.p++
				continue
			}
			v.Sub = append(v.Sub, p.val())
		}
		p.expect(')')
		return v
	case 'j':
		k, _ := strconv.Atoi(p.num())
		p.expect('(')
		v := &V{K: 'j', Idx: k, Sub: []*V{p.val()}}
		p.expect(')')
		return v
	case 'm':
		p.expect('(')
		v := &V{K: 'm'}
		for p.peek() != ')' {
			if p.peek() == ',' {
				p.p++
				continue
			}
			k := p.hex()
			p.expect(':')
			v.Keys = append(v.Keys, k)
			v.Sub = append(v.Sub, p.val())
		}
		p.expect(')')
		return v
	}
	panic(fmt.Sprintf("harness: value syntax at %d in %q", p.p, p.s))
}

func ParseV(s string) *V { return (&parser{s: s}).val() }

// ---- V -> Go value ---------------------------------------------------------------------------

type shapeErr struct{ msg string }

func bad(msg string) { panic(shapeErr{msg}) }

func bigOf(v *V) *big.Int {
	z := new(big.Int).SetBytes(v.B)
	if v.Neg {
		z.Neg(z)
	}
	return z
}

func settableField(rv reflect.Value, name string) reflect.Value {
	f := rv.FieldByName(name)
	return reflect.NewAt(f.Type(), unsafe.Pointer(f.UnsafeAddr())).Elem()
}

func (u *Universe) buildCustom(d *Desc, v *V, el reflect.Value) {
	inner := u.Defs[d.Sub[0].N]
	if d.Cust != nil && d.Cust.field != "" {
		u.Build(inner, v, settableField(el, d.Cust.field))
		return
	}
	u.Build(inner, v, el)
}

// Build stores the value described by v into rv (settable, of the Go type d was derived from).
func (u *Universe) Build(d *Desc, v *V, rv reflect.Value) {
	switch d.K {
	case '@':
		u.Build(u.Defs[d.N], v, rv)
	case 'E':
		u.Build(d.Sub[0], v, rv)
	case 'u':
		rv.SetUint(v.U)
	case 'F':
		rv.SetFloat(math.Float64frombits(v.U))
	case 'i':
		rv.SetInt(v.I)
	case 'b':
		rv.SetBool(v.K == 't')
	case 'G':
		if v.K == 'n' {
			return
		}
		rv.Set(reflect.ValueOf(bigOf(v.Sub[0])).Convert(rv.Type()))
	case 'g':
		rv.Set(reflect.ValueOf(*bigOf(v)).Convert(rv.Type()))
	case 'Y':
		if len(v.B) > 0 {
			rv.SetBytes(append([]byte{}, v.B...))
		}
	case 'S':
		rv.SetString(string(v.B))
	case 'A':
		if len(v.B) != d.N {
			bad("array length")
		}
		reflect.Copy(rv, reflect.ValueOf(v.B))
	case 'T':
		rv.Set(reflect.ValueOf(time.Unix(v.Sec, v.Nsec).UTC()))
	case 'M':
		m := reflect.MakeMap(rv.Type())
		for i, k := range v.Keys {
			kv := reflect.New(rv.Type().Key()).Elem()
			reflect.Copy(kv, reflect.ValueOf(k))
			ev := reflect.New(rv.Type().Elem()).Elem()
			if v.Sub[i].K == 'p' {
				ev.Set(reflect.ValueOf(bigOf(v.Sub[i].Sub[0])))
			}
			m.SetMapIndex(kv, ev)
		}
		rv.Set(m)
	case 'L':
		n := len(v.Sub)
		if n == 0 {
			return
		}
		s := reflect.MakeSlice(rv.Type(), n, n)
		for i := 0; i < n; i++ {
			u.Build(d.Sub[0], v.Sub[i], s.Index(i))
		}
		rv.Set(s)
	case 'R':
		if len(v.Sub) != d.N {
			bad("array length")
		}
		for i := 0; i < d.N; i++ {
			u.Build(d.Sub[0], v.Sub[i], rv.Index(i))
		}
	case 'Q':
		if len(v.Sub) != len(d.Sub) {
			bad("field count")
		}
		for i, s := range d.Sub {
			u.Build(s, v.Sub[i], rv.Field(d.Fld[i]))
		}
	case 'P':
		if v.K == 'n' {
			return
		}
		nv := reflect.New(rv.Type().Elem())
		u.Build(d.Sub[0], v.Sub[0], nv.Elem())
		rv.Set(nv)
	case 'C', 'D':
		if v.K == 'n' {
			return
		}
		nv := reflect.New(rv.Type().Elem())
		u.buildCustom(d, v.Sub[0], nv.Elem())
		rv.Set(nv)
	case 'c', 'd':
		u.buildCustom(d, v, rv)
	case 'I':
		if v.K == 'n' {
			return
		}
		e := u.Reg[v.Idx]
		cv := reflect.New(e.RT)
		u.Build(&Desc{K: '@', N: e.Ty}, v.Sub[0], cv.Elem())
		if e.Ptr {
			rv.Set(cv)
		} else {
			rv.Set(cv.Elem())
		}
	default:
		bad("unsupported descriptor")
	}
}

// ---- Go value -> V ---------------------------------------------------------------------------

func bigV(z *big.Int) *V { return &V{K: 'g', Neg: z.Sign() < 0, B: new(big.Int).Abs(z).Bytes()} }

func (u *Universe) dumpCustom(d *Desc, el reflect.Value) *V {
	inner := u.Defs[d.Sub[0].N]
	if d.Cust != nil && d.Cust.field != "" {
		if !el.CanAddr() {
			c := reflect.New(el.Type()).Elem()
			c.Set(el)
			el = c
		}
		return u.Dump(inner, settableField(el, d.Cust.field))
	}
	return u.Dump(inner, el)
}

// Dump renders the Go value canonically (nil and empty slices/maps are not distinguished; maps sorted by key).
func (u *Universe) Dump(d *Desc, rv reflect.Value) *V {
	switch d.K {
	case '@':
		return u.Dump(u.Defs[d.N], rv)
	case 'E':
		return u.Dump(d.Sub[0], rv)
	case 'u':
		return &V{K: 'u', U: rv.Uint()}
	case 'F':
		return &V{K: 'u', U: math.Float64bits(rv.Float())}
	case 'i':
		return &V{K: 'i', I: rv.Int()}
	case 'b':
		if rv.Bool() {
			return &V{K: 't'}
		}
		return &V{K: 'f'}
	case 'G':
		if rv.IsNil() {
			return &V{K: 'n'}
		}
		return &V{K: 'p', Sub: []*V{bigV(rv.Convert(reflect.TypeOf((*big.Int)(nil))).Interface().(*big.Int))}}
	case 'g':
		z := rv.Convert(bigIntT).Interface().(big.Int)
		return bigV(&z)
	case 'Y':
		return &V{K: 'x', B: append([]byte{}, rv.Bytes()...)}
	case 'S':
		return &V{K: 'x', B: []byte(rv.String())}
	case 'A':
		b := make([]byte, rv.Len())
		reflect.Copy(reflect.ValueOf(b), rv)
		return &V{K: 'x', B: b}
	case 'T':
		t := rv.Interface().(time.Time)
		return &V{K: 'T', Sec: t.Unix(), Nsec: int64(t.Nanosecond())}
	case 'M':
		v := &V{K: 'm'}
		type kv struct {
			k []byte
			v *V
		}
		var kvs []kv
		it := rv.MapRange()
		for it.Next() {
			b := make([]byte, it.Key().Len())
			reflect.Copy(reflect.ValueOf(b), it.Key())
			e := &V{K: 'n'}
			if !it.Value().IsNil() {
				e = &V{K: 'p', Sub: []*V{bigV(it.Value().Interface().(*big.Int))}}
			}
			kvs = append(kvs, kv{b, e})
		}
		sort.Slice(kvs, func(i, j int) bool { return bytes.Compare(kvs[i].k, kvs[j].k) < 0 })
		for _, e := range kvs {
			v.Keys = append(v.Keys, e.k)
			v.Sub = append(v.Sub, e.v)
		}
		return v
	case 'L', 'R':
		v := &V{K: 'l'}
		for i := 0; i < rv.Len(); i++ {
			v.Sub = append(v.Sub, u.Dump(d.Sub[0], rv.Index(i)))
		}
		return v
	case 'Q':
		v := &V{K: 'l'}
		for i, s := range d.Sub {
			v.Sub = append(v.Sub, u.Dump(s, rv.Field(d.Fld[i])))
		}
		return v
	case 'P':
		if rv.IsNil() {
			return &V{K: 'n'}
		}
		return &V{K: 'p', Sub: []*V{u.Dump(d.Sub[0], rv.Elem())}}
	case 'C', 'D':
		if rv.IsNil() {
			return &V{K: 'n'}
		}
		return &V{K: 'p', Sub: []*V{u.dumpCustom(d, rv.Elem())}}
	case 'c', 'd':
		return u.dumpCustom(d, rv)
	case 'I':
		if rv.IsNil() {
			return &V{K: 'n'}
		}
		cv := rv.Elem()
		for cv.Kind() == reflect.Ptr {
			if cv.IsNil() {
				bad("typed nil in interface")
			}
			cv = cv.Elem()
		}
		e := u.regBy[cv.Type()]
		if e == nil {
			bad("unregistered concrete type in interface")
		}
		return &V{K: 'j', Idx: e.Idx, Sub: []*V{u.Dump(&Desc{K: '@', N: e.Ty}, cv)}}
	}
	bad("unsupported descriptor")
	return nil
}
