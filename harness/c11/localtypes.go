package c11

import (
	"math/big"
	"reflect"
)

// float32 fields share writeFloat/decodeFloat (the value widened to float64); decoding a pattern that is not a float32
// rounds in reflect.SetFloat, which the model (a uint 64) does not do: only float64 is driven.
type lFloat struct {
	F float64
	P *float64
	L []float64
}

type lBig struct {
	V big.Int
	P *big.Int
	L []big.Int
}

type lArr struct {
	A0 [0]byte
	A2 [2]byte
	N  [3]uint64
	S  [2][]byte
	PA *[4]byte
	PN *[2]uint16
}

type lArr1 struct {
	A1 [1]byte
	U  uint64
}

type lScalar struct {
	B   bool
	U8  uint8
	U16 uint16
	U32 uint32
	I8  int8
	I16 int16
	I32 int32
	I   int
	PB  *bool
	PU  *uint64
	PI  *int64
	PS  *string
	PY  *[]byte
	PP  **uint64
}

type localType struct {
	name string
	rt   reflect.Type
}

func localTypes() []localType {
	return []localType{
		{"local.Float", reflect.TypeOf(lFloat{})},
		{"local.Big", reflect.TypeOf(lBig{})},
		{"local.Arr", reflect.TypeOf(lArr{})},
		{"local.Arr1", reflect.TypeOf(lArr1{})},
		{"local.Scalar", reflect.TypeOf(lScalar{})},
		{"local.Bools", reflect.TypeOf([]bool{})},
		{"local.Arr3x", reflect.TypeOf([3][]uint8{})},
	}
}
