package c11

// The io.Reader entry points of libs/ser (Decode, DecodeWithType, DecodeReader, DecodeReaderWithType, EncodeToReader):
// the node decodes from readers in libs/p2p (connection packets, handshake) and consensus (proposal block parts).

import (
	"bytes"
	"io"
	"reflect"
	"runtime/debug"
	"strconv"
	"strings"
	"time"

	"github.com/lianxiangcloud/linkchain/libs/ser"

	"lvharness/hx"
)

// plainReader implements io.Reader only (libs/ser wraps it in a bufio.Reader); byteReader also implements io.ByteReader
// (used as is).  Neither is a *bytes.Reader / *strings.Reader, so NewStream does not discover a limit by itself.
type plainReader struct{ r *bytes.Reader }

func (p *plainReader) Read(b []byte) (int, error) { return p.r.Read(b) }

type byteReader struct{ r *bytes.Reader }

func (p *byteReader) Read(b []byte) (int, error) { return p.r.Read(b) }
func (p *byteReader) ReadByte() (byte, error)    { return p.r.ReadByte() }

// suspectSize: the input carries a long-form header with 4 or more size bytes (>= 16 MiB announced)
func suspectSize(in []byte) bool {
	for _, c := range in {
		if (c >= 0xBB && c <= 0xBF) || c >= 0xFB {
			return true
		}
	}
	return false
}

func execRdec(wd *world, op string, toks []string) string {
	name, _ := hx.Arg(toks, "root")
	r := wd.byName[name]
	if r == nil {
		return "bad-op"
	}
	bs, _ := hx.Arg(toks, "bytes")
	in := hx.UnHex(bs)
	wt, _ := hx.Arg(toks, "wt")
	lim, _ := hx.Arg(toks, "lim")
	rk, _ := hx.Arg(toks, "rk")
	limit := int64(0)
	if lim != "u" {
		n, err := strconv.ParseInt(lim, 10, 64)
		if err != nil || n <= 0 {
			return "bad-op"
		}
		limit = n
	}
	if childWanted() && (lim == "u" || limit > int64(len(in))) && (suspectSize(in) || (r.HasMap && bigCount(in))) {
		// (inputs without a long-form header of 4+ size bytes cannot announce more than 16 MiB: they run in process)
		// an unlimited (or over-limited) stream sizes buffers from peer-chosen headers: a fatal out-of-memory error
		// must not end the harness, so these decodes run in the worker process (same binary, same real code)
		a := workerExec(op)
		if strings.HasSuffix(a, "res=slow") {
			// only streams without an effective limit run here: a decode that is still busy after 2 s is busy obtaining
			// (zeroing) the buffer a peer-chosen header announced; whether that shows as a failed mmap, a large allocation
			// or slowness is timing, so it is reported as the allocation it is
			a = strings.TrimSuffix(a, "res=slow") + "res=alloc"
		}
		return a
	}
	ch := make(chan string, 1)
	go func() {
		defer func() {
			if rec := recover(); rec != nil {
				if se, ok := rec.(shapeErr); ok {
					ch <- "harness-shape " + se.msg
					return
				}
				ch <- "panic " + hx.PanicSite(debug.Stack())
			}
		}()
		var rd io.Reader
		if rk == "b" {
			rd = &byteReader{bytes.NewReader(in)}
		} else {
			rd = &plainReader{bytes.NewReader(in)}
		}
		a0 := allocBytes()
		ptr := reflect.New(r.RT)
		var err error
		switch {
		case lim == "u" && wt == "1":
			err = ser.DecodeWithType(rd, ptr.Interface())
		case lim == "u":
			err = ser.Decode(rd, ptr.Interface())
		case wt == "1":
			_, err = ser.DecodeReaderWithType(rd, ptr.Interface(), limit)
		default:
			_, err = ser.DecodeReader(rd, ptr.Interface(), limit)
		}
		res := " res=ok"
		if d := allocBytes() - a0; d > allocLimit+uint64(64*len(in)) {
			res = " res=alloc"
		}
		if err != nil {
			ch <- "err" + res
			return
		}
		ch <- "ok v=" + wd.u.Dump(r.D, ptr.Elem()).String() + res
	}()
	select {
	case a := <-ch:
		return a
	case <-time.After(2 * time.Second):
		return "err res=slow"
	}
}

// encodeToReaderAgrees: EncodeToReader, read to the end, must give the bytes and the size of EncodeToBytes
func encodeToReaderAgrees(v interface{}, want []byte) bool {
	size, rd, err := ser.EncodeToReader(v)
	if err != nil {
		return false
	}
	got, err := io.ReadAll(rd)
	return err == nil && size == len(want) && bytes.Equal(got, want)
}

// outermostOversize: the first item the decoder meets at top level announces more bytes than the reader holds
func outermostOversize(r *Root, pre bool, in []byte) bool {
	if pre {
		if len(in) < 7 {
			return false
		}
		in = in[7:]
	}
	if r.D.K == 'I' {
		if len(in) < 7 || in[0] == 0 {
			return false
		}
		in = in[7:]
	}
	if len(in) == 0 {
		return false
	}
	t := in[0]
	var ll int
	switch {
	case t < 0xB8:
		if t >= 0x80 {
			return int(t-0x80) > len(in)-1
		}
		return false
	case t < 0xC0:
		ll = int(t - 0xB7)
	case t < 0xF8:
		return int(t-0xC0) > len(in)-1
	default:
		ll = int(t - 0xF7)
	}
	if len(in) < 1+ll {
		return false
	}
	var size uint64
	for _, x := range in[1 : 1+ll] {
		size = size<<8 | uint64(x)
	}
	return size > uint64(len(in)-1-ll)
}

func rdecOp(r *Root, b []byte, wt bool, lim string, rk string) string {
	_, p := preArg(r, wt)
	w := "0"
	if wt {
		w = "1"
	}
	return "rdec root=" + sanitize(r.Name) + " ty=" + r.Key + " wt=" + w + " pre=" + p + " lim=" + lim + " rk=" + rk + " bytes=" + hx.Hex(b)
}

func randLim(g *hx.Gen, n int) string {
	switch g.Rng.Intn(7) {
	case 0, 1:
		return "u"
	case 2:
		if n > 0 {
			return strconv.Itoa(n)
		}
		return "u"
	case 3:
		if n > 1 {
			return strconv.Itoa(1 + g.Rng.Intn(n-1))
		}
		return "1"
	case 4:
		return strconv.Itoa(n + 1 + g.Rng.Intn(8))
	case 5:
		return strconv.Itoa(1 << 20) // the limit libs/p2p/conn passes
	default:
		return strconv.Itoa(n + 1 + g.Rng.Intn(4096))
	}
}

func randRk(g *hx.Gen) string { return []string{"r", "b"}[g.Rng.Intn(2)] }

var _ = strings.HasPrefix
