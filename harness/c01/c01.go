// Package c01: consensus agreement + voting discipline on real ConsensusState machines (csim),
// monitored with the L-A discipline (mirrored in Go here, evaluated in Lean by the driver on the same history).
package c01

import (
	"fmt"
	"strconv"
	"strings"

	"lvharness/csim"
	"lvharness/hx"
)

type P struct{}

func (P) Rule() string {
	return "each case is one N-node simulation (N in 4..7, unequal powers, Byzantine validators below 1/3 of the power) of real consensus.ConsensusState machines " +
		"under a seeded scheduler profile (sync, async reordering with early timeouts, lossy+duplicating, byz = equivocating votes and conflicting proposals, " +
		"late = prevotes held back until the receiver is two rounds further, lockscript = directed schedule: an old-round polka completes at a node locked in a later round); " +
		"the merged history of signed votes and commits is checked per height against the voting discipline d0-d4 and agreement (hist ops), and EVERY input handled by every correct node " +
		"(proposal, block part, vote, timeout, peer +2/3 claim) is replayed through the Lean node model: state line and outputs after every single step are compared (ns ops; stats ns-ev:* = event kinds, ns-trans:* = step->step transitions); " +
		"non-trivial = at least one height committed by every live correct node AND (a round > 0 was reached or a lock was observed or Byzantine messages were injected); distinct = distinct parameters"
}

type exec struct {
	last *csim.SimResult
	lp   csim.SimParams
	next map[int]int // node -> index of the next expected `ns` step (a gap makes the rest of that node's steps `skip`)
}

func (P) NewExec() hx.Executor { return &exec{} }

func parseSim(toks []string) csim.SimParams {
	geti := func(k string) int {
		v, _ := hx.Arg(toks, k)
		n, _ := strconv.Atoi(v)
		return n
	}
	p := csim.SimParams{N: geti("n"), Steps: geti("steps"), Heights: geti("heights"), Trace: true}
	s, _ := hx.Arg(toks, "seed")
	p.Seed, _ = strconv.ParseInt(s, 10, 64)
	p.Prof, _ = hx.Arg(toks, "prof")
	pw, _ := hx.Arg(toks, "powers")
	for _, x := range hx.SplitComma(pw) {
		v, _ := strconv.ParseInt(x, 10, 64)
		p.Powers = append(p.Powers, v)
	}
	bz, _ := hx.Arg(toks, "byz")
	for _, x := range hx.SplitComma(bz) {
		p.Byz = append(p.Byz, x == "1")
	}
	return p
}

func (e *exec) Exec(op string) string {
	toks := hx.Tokens(op)
	switch toks[0] {
	case "case":
		e.last = nil
		e.next = map[int]int{}
		return "ok"
	case "sim":
		e.lp = parseSim(toks)
		e.last = csim.Run(e.lp)
		return "ok"
	case "diag":
		if e.last == nil {
			return "nosim"
		}
		return Diag(e.last)
	case "hist":
		return CheckHist(toks)
	case "ns":
		return e.nodeStep(op, toks)
	case "tick":
		return tick(toks)
	}
	return "bad-op"
}

// nodeStep answers `ns node=<i> k=<n> ev=<event…>`: the state line and outputs the REAL node i had after its n-th handled
// input in the simulation just re-run by `sim` (recorded by csim's trace).  The op's event description (taken from the
// generator's dry run) must be the one recorded now: the simulation is deterministic.
func (e *exec) nodeStep(op string, toks []string) string {
	if e.next == nil {
		e.next = map[int]int{}
	}
	return NodeStep(e.last, e.next, op, toks)
}

// NodeStep answers an `ns` op from the trace of the simulation `last` (shared with the C02 harness); next is the per-node index of
// the next expected step.
func NodeStep(last *csim.SimResult, next map[int]int, op string, toks []string) string {
	if last == nil {
		return "nosim"
	}
	node := int(hx.ArgI(toks, "node", -1))
	k := int(hx.ArgI(toks, "k", -1))
	if k != next[node] {
		return "skip"
	}
	tr := last.Net.Trace[node]
	if k < 0 || k >= len(tr) {
		return "no-step"
	}
	i := strings.Index(op, " ev=")
	if i < 0 || op[i+4:] != tr[k].Ev {
		return "ev-mismatch now=" + strings.ReplaceAll(tr[k].Ev, " ", "_")
	}
	next[node] = k + 1
	return tr[k].Ans
}

// TraceOps renders the step-level ops of a traced simulation and counts the distribution of event kinds and transitions.
func TraceOps(g *hx.Gen, r *csim.SimResult, maxPerNode int) []string {
	for _, tr := range r.Net.Trace {
		for k, te := range tr {
			if k >= maxPerNode {
				break
			}
			g.Count("ns-ev:" + te.Kind())
			if strings.Contains(te.Ev, " vok=0") || strings.Contains(te.Ev, " cok=0") {
				g.Count("ns-part-of-invalid-block")
			}
			if strings.Contains(te.Ev, " dec=0") {
				g.Count("ns-part-of-undecodable-block")
			}
			if te.Kind() == "vote" && strings.Contains(te.Ev, " h=0 ") {
				g.Count("ns-precommit-for-height-0")
			}
			if k > 0 {
				g.Count("ns-trans:" + csim.Transition(tr[k-1], te))
				if csim.FutureTimeout(tr[k-1], te) {
					g.Count("ns-timeout-for-a-future-round(WellTimed-violated)")
				}
				if csim.OldPrevoteWhileLocked(tr[k-1], te) {
					g.Count("ns-prevote-of-round<=lockedRound-while-locked-in-later-round")
				}
			}
			if strings.HasPrefix(te.Ans, "panic") {
				g.Count("ns-panic")
			}
		}
	}
	return r.Net.TraceLines(maxPerNode)
}

// Diag is the health line of a simulation; the model's answer is the constant all-zero line (that IS the claim:
// no correct node's consensus routine dies, none is killed after a commit, none votes for an invalid block).
func Diag(r *csim.SimResult) string {
	return fmt.Sprintf("dead=%d killed=%d badvotes=%d", len(r.Dead), len(r.Killed), len(r.Net.BadVotes))
}

// ---- the L-A monitor, mirrored from Model/Protocol.lean -------------------------------------

type ev struct {
	k    byte // p c d
	n, r int
	v    int // 0 = nil
}

func parseHist(toks []string) (powers []int64, byz []bool, evs []ev) {
	pw, _ := hx.Arg(toks, "powers")
	for _, x := range hx.SplitComma(pw) {
		v, _ := strconv.ParseInt(x, 10, 64)
		powers = append(powers, v)
	}
	bz, _ := hx.Arg(toks, "byz")
	for _, x := range hx.SplitComma(bz) {
		byz = append(byz, x == "1")
	}
	es, _ := hx.Arg(toks, "ev")
	for _, s := range strings.Split(es, ";") {
		f := strings.Split(s, ".")
		if len(f) != 4 {
			continue
		}
		n, _ := strconv.Atoi(f[1])
		r, _ := strconv.Atoi(f[2])
		v, _ := strconv.Atoi(f[3])
		evs = append(evs, ev{f[0][0], n, r, v})
	}
	return
}

// CheckHist answers a `hist` op: disciplined / agree / byzBound, exactly as the Lean definitions compute them.
func CheckHist(toks []string) string {
	powers, byz, evs := parseHist(toks)
	var total, bpow int64
	for i, p := range powers {
		total += p
		if byz[i] {
			bpow += p
		}
	}
	pow := func(pred func(n int) bool) int64 {
		var s int64
		for i, p := range powers {
			if pred(i) {
				s += p
			}
		}
		return s
	}
	has := func(p []ev, k byte, n, r, v int) bool {
		for _, e := range p {
			if e.k == k && e.n == n && e.r == r && e.v == v {
				return true
			}
		}
		return false
	}
	polka := func(p []ev, r, v int) bool {
		return 3*pow(func(n int) bool { return has(p, 'p', n, r, v) }) > 2*total
	}
	commitQ := func(p []ev, r, b int) bool {
		return 3*pow(func(n int) bool { return has(p, 'c', n, r, b) }) > 2*total
	}
	disciplined := true
	firstBad := ""
	for i, e := range evs {
		p := evs[:i]
		ok := true
		if e.n < len(byz) && byz[e.n] {
			continue
		}
		switch e.k {
		case 'p', 'c':
			for _, q := range p { // d0
				if (q.k == 'p' || q.k == 'c') && q.n == e.n && q.r > e.r {
					ok = false
				}
			}
			for _, q := range p { // d1
				if q.k == e.k && q.n == e.n && q.r == e.r {
					ok = false
				}
			}
			if e.k == 'c' && e.v != 0 && !polka(p, e.r, e.v) { // d2
				ok = false
			}
			if e.k == 'p' { // d3
				for _, q := range p {
					if q.k == 'c' && q.n == e.n && q.v != 0 && q.r < e.r && e.v != q.v {
						released := false
						for _, w := range p {
							if w.k == 'p' && q.r < w.r && w.r <= e.r && w.v != q.v && polka(p, w.r, w.v) {
								released = true
								break
							}
						}
						if !released {
							ok = false
						}
					}
				}
			}
		case 'd':
			if !commitQ(p, e.r, e.v) { // d4
				ok = false
			}
		}
		if !ok && disciplined {
			disciplined = false
			firstBad = fmt.Sprintf("%c.%d.%d.%d@%d", e.k, e.n, e.r, e.v, i)
		}
	}
	agree := true
	first := -1
	for _, e := range evs {
		if e.k == 'd' && !(e.n < len(byz) && byz[e.n]) {
			if first < 0 {
				first = e.v
			} else if e.v != first {
				agree = false
			}
		}
	}
	s := fmt.Sprintf("byzbound=%v disciplined=%v agree=%v", 3*bpow < total, disciplined, agree)
	if firstBad != "" {
		s += " first=" + firstBad
	}
	return s
}

// ---- monitors --------------------------------------------------------------------------------

func (P) Monitor(c *hx.CaseRun) []hx.Failure {
	var fs []hx.Failure
	for i, op := range c.Ops {
		ans := c.Impl[i]
		switch {
		case strings.HasPrefix(op, "tick "):
			fs = append(fs, tickMonitor(op, ans)...)
		case strings.HasPrefix(op, "diag"):
			toks := hx.Tokens(ans)
			if v, _ := hx.Arg(toks, "dead"); v != "0" && v != "" {
				fs = append(fs, hx.Failure{Monitor: "consensus_routine_alive", Class: "consensus-halt", Site: "consensus/state.go:receiveRoutine", Msg: "a correct node's consensus routine ended in a panic: " + ans})
			}
			if v, _ := hx.Arg(toks, "killed"); v != "0" && v != "" {
				fs = append(fs, hx.Failure{Monitor: "committed_block_applies", Class: "commit-not-applicable", Site: "consensus/state.go:finalizeCommit", Msg: "a correct node committed a block it could not apply (cmn.Kill path): " + ans})
			}
			if v, _ := hx.Arg(toks, "badvotes"); v != "0" && v != "" {
				fs = append(fs, hx.Failure{Monitor: "votes_only_valid_blocks", Class: "vote-for-invalid-block", Site: "consensus/state.go:defaultDoPrevote", Msg: "a correct node voted for a block failing validateBlock: " + ans})
			}
		case strings.HasPrefix(op, "hist"):
			toks := hx.Tokens(ans)
			bb, _ := hx.Arg(toks, "byzbound")
			if bb != "true" {
				continue // outside the property's quantifier
			}
			if v, _ := hx.Arg(toks, "agree"); v != "true" {
				fs = append(fs, hx.Failure{Monitor: "agreement", Class: "disagreement", Site: "consensus/state.go", Msg: "two correct nodes committed different blocks at one height: " + op})
			}
			if v, _ := hx.Arg(toks, "disciplined"); v != "true" {
				first, _ := hx.Arg(toks, "first")
				cls := "discipline"
				if len(first) > 0 {
					cls = "discipline-" + map[byte]string{'p': "prevote", 'c': "precommit", 'd': "decide"}[first[0]]
				}
				fs = append(fs, hx.Failure{Monitor: "voting_discipline", Class: cls, Site: "consensus/state.go", Msg: "a correct node broke the voting discipline at event " + first + ": " + op})
			}
		}
	}
	return fs
}

// ---- generator -------------------------------------------------------------------------------

func genCfg(g *hx.Gen, withByz bool) (n int, powers []int64, byz []bool) {
	n = 4 + g.Rng.Intn(4)
	powers = make([]int64, n)
	byz = make([]bool, n)
	kind := g.Rng.Intn(3)
	var total int64
	for i := range powers {
		switch kind {
		case 0:
			powers[i] = 10
		case 1:
			powers[i] = int64(1 + g.Rng.Intn(5))
		default:
			powers[i] = int64(1) << uint(g.Rng.Intn(4))
		}
		total += powers[i]
	}
	if withByz {
		var bp int64
		for _, i := range g.Rng.Perm(n) {
			if 3*(bp+powers[i]) < total {
				byz[i] = true
				bp += powers[i]
				if g.Rng.Intn(2) == 0 {
					break
				}
			}
		}
	}
	return
}

func simLine(n int, powers []int64, byz []bool, seed int64, steps, heights int, prof string) string {
	bs := make([]string, n)
	for i, b := range byz {
		bs[i] = "0"
		if b {
			bs[i] = "1"
		}
	}
	return fmt.Sprintf("sim n=%d powers=%s byz=%s seed=%d steps=%d heights=%d prof=%s", n, hx.JoinInts(powers), strings.Join(bs, ","), seed, steps, heights, prof)
}

func (P) Generate(g *hx.Gen) {
	tickCases(g)
	profs := []string{"sync", "async", "async", "lossy", "byz", "byz", "byz", "late", "late"}
	total := g.Pick(60, 1200) // thorough: 1200 simulations (27 min measured for 1500 with the step-level trace on a loaded machine)
	scripted := g.Pick(4, 40)
	for k := 0; k < total; k++ {
		prof := profs[g.Rng.Intn(len(profs))]
		n, powers, byz := genCfg(g, prof == "byz")
		if k < scripted {
			// directed schedule (csim/script.go): a polka of an old round completes at a node locked in a later round
			prof, n, powers, byz = "lockscript", 4, []int64{10, 10, 10, 10}, []bool{false, false, false, false}
		}
		seed := g.Rng.Int63n(1 << 40)
		steps := g.Pick(1500, 4000)
		heights := 2 + g.Rng.Intn(2)
		line := simLine(n, powers, byz, seed, steps, heights, prof)
		// run once here to learn the history, then the case replays it through the executor
		p := parseSim(hx.Tokens(line))
		r := csim.Run(p)
		ops := []string{hx.CaseOp(), line, "diag"}
		ops = append(ops, r.HistLines(p)...)
		// step-level tie: every handled input of every correct node, compared with Model.Node.step
		maxPerNode := g.Pick(400, 1000)
		traced := k < g.Pick(total, 400) // thorough tier: the step-level lines of the first 400 simulations (the op stream stays below ~1 GB)
		if traced {
			ops = append(ops, TraceOps(g, r, maxPerNode)...)
		}
		g.Count("prof:" + prof)
		g.Count(fmt.Sprintf("n:%d", n))
		g.Count(fmt.Sprintf("heights-committed:%d", r.MinHeight))
		if r.MaxRound > 0 {
			g.Count("round>0")
		}
		if r.Locks > 0 {
			g.Count("locks-observed")
		}
		if r.ByzMsgs > 0 {
			g.Count("byz-msgs-injected")
		}
		nontrivial := r.MinHeight >= 1 && (r.MaxRound > 0 || r.Locks > 0 || r.ByzMsgs > 0)
		g.Case(fmt.Sprintf("sim %s n=%d", prof, n), ops, nontrivial)
	}
}
