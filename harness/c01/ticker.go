package c01

// The REAL timeout ticker (consensus/ticker.go) against Model.Ticker, through the hooks VerifSchedule / VerifAwaitTock.
// The node theorems assume WellTimed (the ticker fires only what the node scheduled, never an older height/round/step
// after a newer one); csim replaces the ticker by a recorder, so the ticker itself was never run.

import (
	"fmt"
	"strconv"
	"strings"
	"time"

	cs "github.com/lianxiangcloud/linkchain/consensus"
	cstypes "github.com/lianxiangcloud/linkchain/consensus/types"
	"github.com/lianxiangcloud/linkchain/libs/log"

	"lvharness/hx"
)

func parseHRS(x string) (cs.VerifTimeout, bool) {
	p := strings.Split(x, ".")
	if len(p) != 3 {
		return cs.VerifTimeout{}, false
	}
	h, e1 := strconv.ParseUint(p[0], 10, 64)
	r, e2 := strconv.Atoi(p[1])
	s, e3 := strconv.Atoi(p[2])
	if e1 != nil || e2 != nil || e3 != nil {
		return cs.VerifTimeout{}, false
	}
	return cs.VerifTimeout{Height: h, Round: r, Step: cstypes.RoundStepType(s)}, true
}

// awaitTock: the next timeout the ticker fires, ignoring the ZERO timeout.  NewTimeoutTicker builds its timer with
// time.NewTimer(0) and stops it at once; when the runtime is just delivering that first expiry, Stop() answers false while
// the channel is still empty, the drain finds nothing, and the value arrives later: timeoutRoutine then fires its pending
// timeout, which is still the zero value (height 0, round 0, step 0).  Seen once in ~300 constructions under load.  The node
// ignores it (handleTimeout: height 0 is never the node's height; Model.Node does the same), so it is no violation of C01 —
// the first version of the monitor flagged it as `ticker-fired-unscheduled` (DESIGN 10.4).  No generated schedule is 0.0.0.
func awaitTock(t cs.TimeoutTicker, wait time.Duration) (cs.VerifTimeout, bool) {
	deadline := time.Now().Add(wait)
	for {
		left := time.Until(deadline)
		if left <= 0 {
			return cs.VerifTimeout{}, false
		}
		f, ok := cs.VerifAwaitTock(t, left)
		if !ok {
			return f, false
		}
		if f.Height == 0 && f.Round == 0 && f.Step == 0 {
			continue
		}
		return f, true
	}
}

func showHRS(t cs.VerifTimeout) string {
	return fmt.Sprintf("%d.%d.%d", t.Height, t.Round, int(t.Step))
}

// tick answers `tick mode=burst|each seq=H.R.S,…`
func tick(toks []string) string {
	mode, _ := hx.Arg(toks, "mode")
	seqs, _ := hx.Arg(toks, "seq")
	var seq []cs.VerifTimeout
	for _, x := range strings.Split(seqs, ",") {
		if t, ok := parseHRS(x); ok {
			seq = append(seq, t)
		}
	}
	t := cs.NewTimeoutTicker()
	t.SetLogger(log.NewNopLogger())
	if err := t.Start(); err != nil {
		return "start-failed"
	}
	defer t.Stop()
	if mode == "burst" {
		// every schedule with the same long duration, handed over at once: each accepted one re-arms the timer, so exactly the
		// pending one fires
		for _, x := range seq {
			x.Duration = 150 * time.Millisecond
			cs.VerifSchedule(t, x)
		}
		if len(seq) == 0 {
			if _, ok := awaitTock(t, 100*time.Millisecond); ok {
				return "fired=unscheduled"
			}
			return "fired=-"
		}
		f, ok := awaitTock(t, 2*time.Second)
		if !ok {
			return "fired=none"
		}
		if g, again := awaitTock(t, 250*time.Millisecond); again {
			return "fired=" + showHRS(f) + "+" + showHRS(g)
		}
		return "fired=" + showHRS(f)
	}
	var out []string
	for _, x := range seq {
		x.Duration = time.Millisecond
		cs.VerifSchedule(t, x)
		if f, ok := awaitTock(t, 80*time.Millisecond); ok {
			out = append(out, showHRS(f))
		} else {
			out = append(out, "-")
		}
	}
	return "fired=" + strings.Join(out, ",")
}

// tickCases: schedules as the node produces them (steps 1..8 of rising rounds and heights) perturbed by stale ones, repeats
// and jumps; burst and one-at-a-time.
func tickCases(g *hx.Gen) {
	nb, ne := g.Pick(24, 120), g.Pick(8, 40)
	for k := 0; k < nb+ne; k++ {
		n := 1 + g.Rng.Intn(7)
		if k >= nb {
			n = 1 + g.Rng.Intn(5)
		}
		h, r, s := 1+g.Rng.Intn(3), g.Rng.Intn(2), 1+g.Rng.Intn(3)
		var seq []string
		stale := 0
		for i := 0; i < n; i++ {
			switch g.Rng.Intn(8) {
			case 0: // an older height
				seq = append(seq, fmt.Sprintf("%d.%d.%d", maxInt(h-1, 0), g.Rng.Intn(3), 1+g.Rng.Intn(8)))
				stale++
			case 1: // an older round
				seq = append(seq, fmt.Sprintf("%d.%d.%d", h, maxInt(r-1, 0), 1+g.Rng.Intn(8)))
				stale++
			case 2: // the same or an older step
				seq = append(seq, fmt.Sprintf("%d.%d.%d", h, r, maxInt(s-g.Rng.Intn(2), 0)))
				stale++
			case 3: // step 0 (never scheduled by the node; the comparison special-cases a pending step 0)
				seq = append(seq, fmt.Sprintf("%d.%d.0", h, r))
			case 4: // next round
				r, s = r+1+g.Rng.Intn(2), 1+g.Rng.Intn(3)
				seq = append(seq, fmt.Sprintf("%d.%d.%d", h, r, s))
			case 5: // next height
				h, r, s = h+1, 0, 1
				seq = append(seq, fmt.Sprintf("%d.%d.%d", h, r, s))
			default: // next step
				s += 1 + g.Rng.Intn(2)
				seq = append(seq, fmt.Sprintf("%d.%d.%d", h, r, s))
			}
		}
		mode := "burst"
		if k >= nb {
			mode = "each"
		}
		g.Count("tick:" + mode)
		g.Case(fmt.Sprintf("ticker %s n=%d stale=%d", mode, n, stale), []string{hx.CaseOp("ticker"), fmt.Sprintf("tick mode=%s seq=%s", mode, strings.Join(seq, ","))}, n >= 2)
	}
}

func maxInt(a, b int) int {
	if a > b {
		return a
	}
	return b
}

// tickMonitor: whatever the ticker fires was scheduled (in that order), and the fired height/round/step never go back —
// judged on the op line and the answer alone.
func tickMonitor(op, ans string) []hx.Failure {
	var fs []hx.Failure
	fail := func(class, msg string) {
		fs = append(fs, hx.Failure{Monitor: "ticker_well_timed", Class: class, Site: "consensus/ticker.go:timeoutRoutine", Msg: msg + ": " + op + " -> " + ans})
	}
	if !strings.HasPrefix(ans, "fired=") {
		fail("ticker-no-answer", "the ticker did not answer")
		return fs
	}
	toks := hx.Tokens(op)
	seqs, _ := hx.Arg(toks, "seq")
	var seq []cs.VerifTimeout
	for _, x := range strings.Split(seqs, ",") {
		if t, ok := parseHRS(x); ok {
			seq = append(seq, t)
		}
	}
	body := strings.TrimPrefix(ans, "fired=")
	if strings.Contains(body, "+") {
		fail("ticker-fired-twice", "one burst fired two timeouts")
		return fs
	}
	var fired []cs.VerifTimeout
	for _, x := range strings.Split(body, ",") {
		if t, ok := parseHRS(x); ok {
			fired = append(fired, t)
		} else if x != "-" && x != "" {
			fail("ticker-fired-unscheduled", "unexpected answer "+x)
		}
	}
	// subsequence of the schedules
	j := 0
	for _, f := range fired {
		for j < len(seq) && !(seq[j].Height == f.Height && seq[j].Round == f.Round && seq[j].Step == f.Step) {
			j++
		}
		if j == len(seq) {
			fail("ticker-fired-unscheduled", "a fired timeout was not scheduled (in this order)")
			return fs
		}
		j++
	}
	less := func(a, b cs.VerifTimeout) bool {
		if a.Height != b.Height {
			return a.Height < b.Height
		}
		if a.Round != b.Round {
			return a.Round < b.Round
		}
		return a.Step < b.Step
	}
	for k := 1; k < len(fired); k++ {
		if less(fired[k], fired[k-1]) {
			fail("ticker-fired-older-after-newer", "a timeout for an older height/round/step fired after a newer one")
		}
	}
	if len(seq) > 0 && len(fired) == 0 {
		fail("ticker-first-schedule-ignored", "nothing fired although something was scheduled")
	}
	mode, _ := hx.Arg(toks, "mode")
	if mode == "burst" && len(fired) == 1 {
		// nothing scheduled in the burst is newer than what fired
		for _, x := range seq {
			if less(fired[0], x) {
				fail("ticker-burst-fired-stale", "the burst contained a newer schedule than the one that fired")
				break
			}
		}
	}
	return fs
}
