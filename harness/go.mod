module lvharness

go 1.21

replace (
	github.com/NebulousLabs/go-upnp => github.com/lianxiangcloud/go-upnp v0.0.0-20190905032046-65768e0b268c
	github.com/go-interpreter/wagon => github.com/xunleichain/wagon v0.5.3
	github.com/lianxiangcloud/linkchain => /repo
	gopkg.in/sourcemap.v1 => github.com/go-sourcemap/sourcemap v1.0.5
)

require (
	github.com/golang/snappy v0.0.1
	github.com/lianxiangcloud/linkchain v0.0.0
	github.com/pkg/errors v0.8.1
	github.com/xunleichain/tc-wasm v0.3.5
	golang.org/x/crypto v0.0.0-20190701094942-4def268fd1a4
)

require (
	github.com/AndreasBriese/bbloom v0.0.0-20190306092124-e2d15f34fcf9 // indirect
	github.com/NebulousLabs/fastrand v0.0.0-20181203155948-6fb6489aac4e // indirect
	github.com/NebulousLabs/go-upnp v0.0.0-00010101000000-000000000000 // indirect
	github.com/aristanetworks/goarista v0.0.0-20190704150520-f44d68189fd7 // indirect
	github.com/beorn7/perks v1.0.0 // indirect
	github.com/boltdb/bolt v1.3.1 // indirect
	github.com/btcsuite/btcd v0.0.0-20190629003639-c26ffa870fd8 // indirect
	github.com/davecgh/go-spew v1.1.1 // indirect
	github.com/dgraph-io/badger v1.6.0 // indirect
	github.com/dgryski/go-farm v0.0.0-20190423205320-6a90982ecee2 // indirect
	github.com/dustin/go-humanize v1.0.0 // indirect
	github.com/ebuchman/fail-test v0.0.0-20170303061230-95f809107225 // indirect
	github.com/edsrzf/mmap-go v1.0.0 // indirect
	github.com/go-interpreter/wagon v0.0.0 // indirect
	github.com/go-kit/kit v0.8.0 // indirect
	github.com/go-stack/stack v1.8.0 // indirect
	github.com/golang/protobuf v1.3.2 // indirect
	github.com/google/uuid v1.0.0 // indirect
	github.com/hashicorp/golang-lru v0.5.1 // indirect
	github.com/matttproud/golang_protobuf_extensions v1.0.1 // indirect
	github.com/pborman/uuid v1.2.0 // indirect
	github.com/pmezard/go-difflib v1.0.0 // indirect
	github.com/prometheus/client_golang v1.0.0 // indirect
	github.com/prometheus/client_model v0.0.0-20190129233127-fd36f4220a90 // indirect
	github.com/prometheus/common v0.4.1 // indirect
	github.com/prometheus/procfs v0.0.2 // indirect
	github.com/rjeczalik/notify v0.9.2 // indirect
	github.com/spaolacci/murmur3 v1.1.0 // indirect
	github.com/stretchr/objx v0.1.1 // indirect
	github.com/stretchr/testify v1.3.0 // indirect
	github.com/syndtr/goleveldb v1.0.0 // indirect
	github.com/twitchyliquid64/golang-asm v0.0.0-20190126203739-365674df15fc // indirect
	golang.org/x/net v0.0.0-20190628185345-da137c7871d7 // indirect
	golang.org/x/sync v0.0.0-20190423024810-112230192c58 // indirect
	golang.org/x/sys v0.0.0-20190712062909-fae7ac547cb7 // indirect
	golang.org/x/text v0.3.0 // indirect
	gopkg.in/fatih/set.v0 v0.1.0 // indirect
	gopkg.in/karalabe/cookiejar.v2 v2.0.0-20150724131613-8dcd6a7f4951 // indirect
)
