package c14

import (
	"fmt"
	"strings"

	"lvharness/hx"
)

// write-ahead durability of the baseWAL service, on the decoded content of its file:
//
//	svc_log_prefix       what is on disk is always a prefix of the records written, in order
//	writesync_durable    after WriteSync / Start's EndHeight{0} / Stop everything written so far is on disk
func monitorSvc(c *hx.CaseRun, fail func(mon, class, site, msg string)) {
	for i, op := range c.Ops {
		toks := hx.Tokens(op)
		if toks[0] != "walsvc" {
			continue
		}
		seq, _ := hx.Arg(toks, "seq")
		var ds []string
		for _, t := range hx.Tokens(c.Impl[i]) {
			if strings.HasPrefix(t, "D=") {
				ds = append(ds, strings.TrimPrefix(t, "D="))
			} else {
				fail("svc_log_prefix", "svc-error", "consensus/wal.go", "service call failed: "+t)
			}
		}
		var written []string
		durable := 0
		next := 1
		di := 0
		sawDisk := false // something is on disk (then OnStart writes no EndHeight{0})
		for _, ch := range seq {
			switch ch {
			case 'w':
				written = append(written, fmt.Sprint(next))
				next++
			case 'W':
				written = append(written, fmt.Sprint(next))
				next++
				durable = len(written)
				sawDisk = true
			case 'S':
				if !sawDisk {
					written = append(written, "0")
					durable = len(written)
					sawDisk = true
				}
			case 'X':
				durable = len(written)
				sawDisk = sawDisk || durable > 0
			case 'D':
				if di >= len(ds) {
					fail("svc_log_prefix", "svc-error", "consensus/wal.go", "missing observation")
					continue
				}
				got := hx.SplitComma(ds[di])
				di++
				ok := len(got) <= len(written)
				for j := 0; ok && j < len(got); j++ {
					if got[j] != written[j] {
						ok = false
					}
				}
				if !ok {
					fail("svc_log_prefix", "svc-log-not-a-prefix", "consensus/wal.go:Write", fmt.Sprintf("on disk %v, written %v", got, written))
				} else if len(got) < durable {
					fail("writesync_durable", "writesync-not-durable", "consensus/wal.go:WriteSync", fmt.Sprintf("on disk %v, but %v had been written with WriteSync/Stop", got, written[:durable]))
				}
			}
		}
	}
}
