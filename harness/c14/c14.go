// Package c14: correspondence + monitors for the consensus write-ahead log against the real
// consensus.WALEncoder / WALDecoder / baseWAL.SearchForEndHeight and autofile.Group (bufio head, RotateFile, GroupReader).
//
// Payloads are produced by the real codec (libs/ser) from real WAL message values of every registered kind
// (EndHeightMessage, EventDataRoundState, and — through the codec's JSON form, because the Go types are unexported —
// msgInfo{Vote|Proposal|BlockPart|...} and timeoutInfo).  The model sees payload bytes + the end-height attribute and does
// framing, CRC-32C, bufio/rotation, reading and searching on bytes.
package c14

import (
	"bytes"
	"fmt"
	"hash/crc32"
	"io"
	"os"
	"path/filepath"
	"strconv"
	"strings"
	"time"

	"github.com/lianxiangcloud/linkchain/consensus"
	"github.com/lianxiangcloud/linkchain/libs/ser"

	"lvharness/hx"
)

type P struct{}

func (P) Rule() string {
	return "cases: (A) small logs (1..7 records of every WAL record kind, 1..3 files rotated on record boundaries) with an exhaustive sweep: every truncation offset of the head and " +
		"every single-byte corruption at every offset of every file (crc, length and payload fields), each followed by read/search on the real decoder; " +
		"(B) random sequences of write/sync/rotate/tick/crash/read/search/disk with records from 30 B to 45 KiB so that the 40960-byte bufio buffer flushes mid-record; " +
		"(C) rotation with an un-flushed buffer (straddling records); (D) malformed stream: garbage, bad crc, valid crc over an undecodable payload, zero and oversized length fields; " +
		"(E) long-lived groups (index >= 1000); (F) catchupReplay of a real ConsensusState over intact / cut / flipped logs; (G) the real 5-second ticker: head and total size limits, deletion of the oldest files, stale minIndex, restart; (H) baseWAL as a service (Start/Write/WriteSync/Stop); (I) payload == bound-1 / bound / bound+1 through the real encoder, a wrapped reactor-maximum peer message; (J) restart above height 1 compared by state: csim simulation to height k, fresh ConsensusState on the node's DB/app with a WAL cut at every record boundary and inside records; " +
		"non-trivial = at least two records written and at least one damaged/rotated/crashed read or search; distinct = distinct op sequence"
}

var castagnoli = crc32.MakeTable(crc32.Castagnoli)

var caseCounter int
var lastDir string

type exec struct {
	dir         string
	path        string
	wal         consensus.WAL
	enc         *consensus.WALEncoder
	table       [][]byte
	ehs         []int64
	keys        map[string]int // replay-log key of a declared payload (catchup op)
	openedAt    time.Time      // when OpenGroup created the group's 5-second ticker
	started     bool           // Group.Start was called (processTicks is running)
	ticks       int
	sim         *simRun     // the simulation of the current case (resume family)
	nsNext      map[int]int // next expected trace index per node (`ns` ops)
	snapF       [][]byte
	snapH       []byte
	snapHasHead bool
	hasSnap     bool
}

func (P) NewExec() hx.Executor { return &exec{} }

func (e *exec) open() {
	w, err := consensus.NewWAL(e.path)
	if err != nil {
		panic("harness: NewWAL: " + err.Error())
	}
	e.wal = w
	e.openedAt, e.started, e.ticks = time.Now(), false, 0
	e.enc = consensus.NewWALEncoder(w.Group())
}

func (e *exec) closeGroup() {
	if e.wal != nil {
		if e.started {
			e.wal.Group().Stop() // ends processTicks (flushes)
			e.started = false
		}
		e.wal.Group().Head.Close() // stops the AutoFile ticker, closes the handle; does NOT flush the bufio buffer
		e.wal = nil
	}
}

func (e *exec) reset() {
	e.closeGroup()
	e.sim = nil
	if lastDir != "" {
		os.RemoveAll(lastDir)
	}
	caseCounter++
	e.dir = filepath.Join("c14wal", fmt.Sprintf("case%d", caseCounter))
	os.RemoveAll(e.dir)
	if err := os.MkdirAll(e.dir, 0o755); err != nil {
		panic("harness: mkdir: " + err.Error())
	}
	lastDir = e.dir
	e.path = filepath.Join(e.dir, "wal")
	e.table, e.ehs = nil, nil
	e.keys = map[string]int{}
	e.hasSnap = false
	e.open()
}

func (e *exec) lookup(p []byte) int {
	for i, q := range e.table {
		if bytes.Equal(p, q) {
			return i
		}
	}
	return -1
}

func (e *exec) declare(p []byte, eh int64) {
	if e.lookup(p) < 0 {
		e.table = append(e.table, p)
		e.ehs = append(e.ehs, eh)
	}
}

func argInt(toks []string, key string) (int64, bool) {
	v, ok := hx.Arg(toks, key)
	if !ok {
		return 0, false
	}
	n, err := strconv.ParseInt(v, 10, 64)
	return n, err == nil
}

func argEh(toks []string) int64 {
	if n, ok := argInt(toks, "eh"); ok {
		return n
	}
	return -1
}

// file path of index f (f == max is the head)
func (e *exec) filePath(f int) string {
	max := e.wal.Group().MaxIndex()
	if f == max {
		return e.path
	}
	return fmt.Sprintf("%s.%03d", e.path, f)
}

func errClass(err error) string {
	switch {
	case err == io.EOF:
		return "eof"
	case consensus.IsDataCorruptionError(err):
		return "corrupt"
	}
	s := err.Error()
	switch {
	case strings.HasPrefix(s, "failed to read checksum"):
		return "e:crc"
	case strings.HasPrefix(s, "failed to read length"):
		return "e:len"
	case strings.HasPrefix(s, "length "):
		return "e:big"
	case strings.HasPrefix(s, "failed to read data"):
		return "e:data"
	}
	return "e:open"
}

func (e *exec) msgToken(m *consensus.TimedWALMessage) string {
	b, err := ser.EncodeToBytes(m)
	if err != nil {
		return "x"
	}
	if k := e.lookup(b); k >= 0 {
		return fmt.Sprintf("m%d", k)
	}
	return "x"
}

// decodeLoop runs `for { dec.Decode() }` as the node's readers do and renders the trace
func (e *exec) decodeLoop(rd io.Reader, skip bool) string {
	dec := consensus.NewWALDecoder(rd)
	var out []string
	for i := 0; i < 1<<20; i++ {
		m, err := dec.Decode()
		if err == nil {
			out = append(out, e.msgToken(m))
			continue
		}
		c := errClass(err)
		if c == "corrupt" && skip {
			out = append(out, "C")
			continue
		}
		out = append(out, c)
		break
	}
	return strings.Join(out, ",")
}

func (e *exec) Exec(op string) string {
	toks := hx.Tokens(op)
	if toks[0] == "case" {
		e.reset()
		return "ok"
	}
	if e.wal == nil { // an op stream without a leading `case` (shrunk replays) starts from the empty group, as the model does
		e.reset()
	}
	g := e.wal.Group()
	switch toks[0] {
	case "write":
		ps, _ := hx.Arg(toks, "p")
		p := UnRle(ps)
		var tm consensus.TimedWALMessage
		if err := ser.DecodeBytes(p, &tm); err != nil {
			return "bad-payload"
		}
		if !bytes.Equal(ser.MustEncodeToBytes(&tm), p) {
			return "reenc-differs"
		}
		e.declare(p, argEh(toks))
		if k, ok := hx.Arg(toks, "key"); ok {
			e.keys[k] = e.lookup(p)
		}
		if err := e.enc.Encode(&tm); err != nil { // the real WALEncoder on the real Group
			if strings.Contains(err.Error(), "msg is too big") {
				return "err-toobig" // fix 0f01527: refused before anything is written
			}
			return "err"
		}
		eh := "-"
		if m, ok := tm.Msg.(consensus.EndHeightMessage); ok {
			eh = fmt.Sprint(m.Height)
		}
		return "ok eh=" + eh
	case "decl":
		ps, _ := hx.Arg(toks, "p")
		e.declare(UnRle(ps), argEh(toks))
		return "ok"
	case "raw":
		bs, _ := hx.Arg(toks, "b")
		if _, err := g.Write(UnRle(bs)); err != nil {
			return "err"
		}
		return "ok"
	case "sync":
		if err := g.Flush(); err != nil {
			return "err"
		}
		return "ok"
	case "rotate":
		g.RotateFile()
		return "ok"
	case "tick":
		// what Group.processTicks does every 5 s (checkHeadSizeLimit is unexported; same exported calls)
		lim, _ := argInt(toks, "limit")
		g.SetHeadSizeLimit(lim)
		limit := g.HeadSizeLimit()
		before := g.MaxIndex()
		if limit != 0 {
			size, err := g.Head.Size()
			if err != nil {
				panic(err)
			}
			if size >= limit {
				g.RotateFile()
			}
		}
		return fmt.Sprintf("rotated=%v", g.MaxIndex() > before)
	case "crash":
		e.closeGroup()
		e.open()
		return "ok"
	case "disk":
		// the rotated files as the DIRECTORY shows them (highest numeric suffix + 1), not as the group counts them: this op is the
		// monitors' ground truth for "completely on disk", so it must not depend on the index bookkeeping it is used to judge
		max := diskMaxIndex(e.path)
		var sizes, crcs []string
		for i := 0; i < max; i++ {
			b, err := os.ReadFile(fmt.Sprintf("%s.%03d", e.path, i))
			if err != nil {
				sizes, crcs = append(sizes, "missing"), append(crcs, "missing")
				continue
			}
			sizes = append(sizes, fmt.Sprint(len(b)))
			crcs = append(crcs, fmt.Sprintf("%08x", crc32.Checksum(b, castagnoli)))
		}
		head := "none"
		if b, err := os.ReadFile(e.path); err == nil {
			head = fmt.Sprintf("%d:%08x", len(b), crc32.Checksum(b, castagnoli))
		}
		j := func(xs []string) string {
			if len(xs) == 0 {
				return "-"
			}
			return strings.Join(xs, ",")
		}
		return fmt.Sprintf("n=%d sizes=%s crcs=%s head=%s", max, j(sizes), j(crcs), head)
	case "cut":
		f, _ := argInt(toks, "f")
		n, _ := argInt(toks, "n")
		if int(f) > g.MaxIndex() || f < 0 {
			return "bad-op"
		}
		st, err := os.Stat(e.filePath(int(f)))
		if err != nil || n > st.Size() {
			return "bad-op"
		}
		if err := os.Truncate(e.filePath(int(f)), n); err != nil {
			return "bad-op"
		}
		return "ok"
	case "flip":
		f, _ := argInt(toks, "f")
		off, _ := argInt(toks, "off")
		x, _ := argInt(toks, "x")
		if int(f) > g.MaxIndex() || f < 0 {
			return "bad-op"
		}
		b, err := os.ReadFile(e.filePath(int(f)))
		if err != nil || off >= int64(len(b)) {
			return "bad-op"
		}
		b[off] ^= byte(x)
		fh, err := os.OpenFile(e.filePath(int(f)), os.O_WRONLY, 0)
		if err != nil {
			return "bad-op"
		}
		fh.WriteAt(b[off:off+1], off)
		fh.Close()
		return "ok"
	case "snap":
		max := g.MaxIndex()
		e.snapF = nil
		for i := 0; i < max; i++ {
			b, _ := os.ReadFile(e.filePath(i))
			e.snapF = append(e.snapF, b)
		}
		b, err := os.ReadFile(e.path)
		e.snapH, e.snapHasHead, e.hasSnap = b, err == nil, true
		return "ok"
	case "restore":
		if !e.hasSnap || len(e.snapF) != g.MaxIndex() {
			return "bad-op"
		}
		for i, b := range e.snapF {
			os.WriteFile(e.filePath(i), b, 0o600)
		}
		if e.snapHasHead {
			os.WriteFile(e.path, e.snapH, 0o600)
		} else {
			os.Remove(e.path)
		}
		return "ok"
	case "simk":
		return e.simk(toks)
	case "ns":
		return e.nsOp(op, toks)
	case "restart":
		j, _ := argInt(toks, "cut")
		torn, _ := argInt(toks, "torn")
		rot, _ := argInt(toks, "rot")
		return e.restart(e.sim, int(j), int(torn), int(rot))
	case "catchup":
		return e.catchup(e.keys)
	case "walsvc":
		seq, _ := hx.Arg(toks, "seq")
		return e.walsvc(seq)
	case "gstart": // Group.OnStart: the goroutine that checks the head and total size limits every 5 s
		if err := g.Start(); err != nil {
			return "err"
		}
		e.started = true
		return "ok"
	case "gstop": // Group.OnStop: stops the ticker and flushes
		if err := g.Stop(); err != nil {
			return "err"
		}
		e.started = false
		return "ok"
	case "limits":
		h, _ := argInt(toks, "head")
		t, _ := argInt(toks, "total")
		g.SetHeadSizeLimit(h)
		g.SetTotalSizeLimit(t)
		return fmt.Sprintf("head=%d total=%d", g.HeadSizeLimit(), g.TotalSizeLimit())
	case "waittick": // let the REAL ticker run checkHeadSizeLimit + checkTotalSizeLimit once
		e.ticks++
		time.Sleep(time.Until(e.openedAt.Add(time.Duration(e.ticks)*5*time.Second + 450*time.Millisecond)))
		return "ok"
	case "ginfo":
		gi := g.ReadGroupInfo()
		return fmt.Sprintf("dirmin=%d dirmax=%d total=%d head=%d gmin=%d gmax=%d", gi.MinIndex, gi.MaxIndex, gi.TotalSize, gi.HeadSize, g.MinIndex(), g.MaxIndex())
	case "read":
		idx, _ := argInt(toks, "idx")
		skip, _ := argInt(toks, "skip")
		gr, err := g.NewReader(int(idx))
		if err != nil {
			return "r=e:open"
		}
		defer gr.Close()
		return "r=" + e.decodeLoop(gr, skip != 0)
	case "search":
		h, _ := argInt(toks, "h")
		ign, _ := argInt(toks, "ign")
		gr, found, err := e.wal.SearchForEndHeight(uint64(h), &consensus.WALSearchOptions{IgnoreDataCorruptionErrors: ign != 0})
		if err != nil {
			if gr != nil {
				gr.Close()
			}
			return "err=" + errClass(err)
		}
		if !found {
			return "notfound"
		}
		defer gr.Close()
		return "found then=" + e.decodeLoop(gr, false) // what catchupReplay replays
	}
	return "bad-op"
}

// ---- run-length hex: segments separated by ',', a segment is hex or hex*count ---------------------------

func UnRle(s string) []byte {
	if s == "-" || s == "" {
		return []byte{}
	}
	var out []byte
	for _, seg := range strings.Split(s, ",") {
		if i := strings.IndexByte(seg, '*'); i >= 0 {
			b := hx.UnHex(seg[:i])
			n, err := strconv.Atoi(seg[i+1:])
			if err != nil {
				panic("harness: bad rle " + seg)
			}
			for k := 0; k < n; k++ {
				out = append(out, b...)
			}
		} else {
			out = append(out, hx.UnHex(seg)...)
		}
	}
	return out
}

func Rle(b []byte) string {
	if len(b) == 0 {
		return "-"
	}
	var segs []string
	lit := 0 // start of pending literal
	i := 0
	for i < len(b) {
		j := i
		for j < len(b) && b[j] == b[i] {
			j++
		}
		if j-i >= 24 {
			if i > lit {
				segs = append(segs, hx.Hex(b[lit:i]))
			}
			segs = append(segs, fmt.Sprintf("%02x*%d", b[i], j-i))
			lit = j
		}
		i = j
	}
	if lit < len(b) {
		segs = append(segs, hx.Hex(b[lit:]))
	}
	return strings.Join(segs, ",")
}

// diskMaxIndex: 1 + the highest numeric suffix among the files `<head>.<digits>` next to the head (0 if there is none).
func diskMaxIndex(head string) int {
	ents, err := os.ReadDir(filepath.Dir(head))
	if err != nil {
		return 0
	}
	max := 0
	pre := filepath.Base(head) + "."
	for _, en := range ents {
		if !strings.HasPrefix(en.Name(), pre) {
			continue
		}
		if k, err := strconv.Atoi(strings.TrimPrefix(en.Name(), pre)); err == nil && k+1 > max {
			max = k + 1
		}
	}
	return max
}
