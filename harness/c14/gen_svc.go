package c14

import (
	"fmt"
	"strings"

	"github.com/lianxiangcloud/linkchain/consensus"
	"github.com/lianxiangcloud/linkchain/types"

	"lvharness/hx"
)

// maxMsgSizeBytes of consensus/wal.go (unexported; the model takes it from the regenerated fact Gen.WalFacts)
const walMaxMsgSize = 1024 * 1024

// OversizeFindingEnabled gates the cases that write a record whose payload is LARGER than maxMsgSizeBytes through the real
// encoder (WALEncoder.Encode has no size check; WALDecoder.Decode refuses the record, and with it everything behind it):
// a genuine defect of the tree (proposed/C14-oversize-record.md).  Off until the coordinator decides, so that the
// unchanged tree stays green; the exact-boundary case (payload == maxMsgSizeBytes, readable) is always generated.
const OversizeFindingEnabled = false

// (H) baseWAL as a service: Start / Write / WriteSync / Stop / Wait
func genSvc(g *hx.Gen) {
	var sb strings.Builder
	for i := g.Rng.Intn(3); i > 0; i-- {
		sb.WriteByte('w') // writes before Start stay in the buffer; OnStart then sees an empty file
	}
	sb.WriteString("SD")
	for i := 2 + g.Rng.Intn(10); i > 0; i-- {
		sb.WriteByte("wwWWD"[g.Rng.Intn(5)])
	}
	sb.WriteString("DXD")
	g.Count("svc-seq")
	g.Case("walsvc", []string{hx.CaseOp("svc"), "walsvc seq=" + sb.String()}, true)
}

// payload of an EventDataRoundState record of exactly n bytes (n large)
func payloadOfSize(n int) []byte {
	t := fixedTime()
	l := n - 64
	for i := 0; i < 6; i++ {
		tm := consensus.TimedWALMessage{Time: t, Msg: types.EventDataRoundState{Height: 1, Round: 0, Step: strings.Repeat("s", l)}}
		p, ok := fix(&tm)
		if !ok {
			panic("harness: big payload is not a codec fixpoint")
		}
		if len(p) == n {
			return p
		}
		l += n - len(p)
	}
	panic("harness: cannot build a payload of the requested size")
}

// (I) maxMsgSizeBytes on both sides: a record whose payload is exactly the bound goes through the real encoder and comes
// back; one byte more is written without complaint and (gated) cannot be read back
func genBoundary(g *hx.Gen, k int) {
	t := fixedTime()
	ops := []string{hx.CaseOp("boundary"), writeOp(endHeight(t, 1)), "sync"}
	exact := recGen{payloadOfSize(walMaxMsgSize), -1, "roundstate-max"}
	ops = append(ops, writeOp(exact), writeOp(endHeight(t, 2)), "sync", "disk", "read idx=0 skip=0", "search h=2 ign=1", "search h=1 ign=0")
	g.Count("boundary:payload==max")
	if k%2 == 1 {
		under := recGen{payloadOfSize(walMaxMsgSize - 1), -1, "roundstate-max-1"}
		ops = append(ops, "rotate", writeOp(under), writeOp(endHeight(t, 3)), "sync", "disk", "read idx=0 skip=0", "search h=3 ign=1")
		g.Count("boundary:payload==max-1")
	}
	if OversizeFindingEnabled {
		over := recGen{payloadOfSize(walMaxMsgSize + 1), -1, "roundstate-max+1"}
		ops = append(ops, writeOp(over), writeOp(endHeight(t, 4)), "sync", "disk", "read idx=0 skip=0", "search h=4 ign=1", "search h=5 ign=1")
		g.Count("boundary:payload==max+1")
	}
	g.Case(fmt.Sprintf("boundary maxMsgSizeBytes k=%d", k), ops, true)
}
