package c14

import (
	"bytes"
	"encoding/binary"
	"fmt"
	"strings"

	"github.com/lianxiangcloud/linkchain/consensus"
	"github.com/lianxiangcloud/linkchain/libs/ser"
	"github.com/lianxiangcloud/linkchain/types"

	"lvharness/hx"
)

// The bounds are unexported constants of package consensus; the harness learns them from the REAL code, cheaply:
//
//	decoderBound  the largest length field WALDecoder.Decode does not answer with "length … exceeded" (8-byte headers, no data)
//	reactorBound  the largest byte string decodeMsg (hook VerifDecodeMsg) does not answer with "Msg exceeds max size"
//
// (the model takes both from the regenerated Gen.WalFacts).  wrapperBound is the stated bound on what the WAL adds to a
// peer message (Props.C14.wal_bound_covers_reactor).
const wrapperBound = 1024

var decBoundCache, reactorBoundCache int

func decoderBound() int {
	if decBoundCache > 0 {
		return decBoundCache
	}
	refused := func(n int) bool {
		hdr := make([]byte, 8)
		binary.BigEndian.PutUint32(hdr[4:8], uint32(n))
		_, err := consensus.NewWALDecoder(bytes.NewReader(hdr)).Decode()
		return err != nil && strings.Contains(err.Error(), "exceeded maximum")
	}
	lo, hi := 1, 1<<26 // accepted .. refused
	if !refused(hi) {
		panic("harness: the decoder accepts a 64 MiB length field")
	}
	for hi-lo > 1 {
		m := (lo + hi) / 2
		if refused(m) {
			hi = m
		} else {
			lo = m
		}
	}
	decBoundCache = lo
	return lo
}

func reactorBound() int {
	if reactorBoundCache > 0 {
		return reactorBoundCache
	}
	refused := func(n int) bool {
		_, err := consensus.VerifDecodeMsg(make([]byte, n))
		return err != nil && strings.Contains(err.Error(), "exceeds max size")
	}
	lo, hi := 1, 1<<26
	if !refused(hi) {
		panic("harness: the reactor accepts a 64 MiB message")
	}
	for hi-lo > 1 {
		m := (lo + hi) / 2
		if refused(m) {
			hi = m
		} else {
			lo = m
		}
	}
	reactorBoundCache = lo
	return lo
}

// OversizeFindingEnabled: the regression cases of fix 0f01527 (a record above the bound used to be written and could never
// be read back).  bound-1 and bound go through the real encoder and come back; bound+1 is REFUSED by the encoder, the log is
// unchanged and later records stay readable; a peer message of the reactor's maximum size, wrapped as the node wraps it,
// is accepted and read back.  Reverting either hunk of the fix fails a monitor of class wal-oversize-record-unreadable.
const OversizeFindingEnabled = true

// (H) baseWAL as a service: Start / Write / WriteSync / Stop / Wait
func genSvc(g *hx.Gen) {
	var sb strings.Builder
	for i := g.Rng.Intn(3); i > 0; i-- {
		sb.WriteByte('w') // writes before Start stay in the buffer; OnStart then sees an empty file
	}
	sb.WriteString("SD")
	for i := 2 + g.Rng.Intn(10); i > 0; i-- {
		sb.WriteByte("wwWWD"[g.Rng.Intn(5)])
	}
	sb.WriteString("DXD")
	g.Count("svc-seq")
	g.Case("walsvc", []string{hx.CaseOp("svc"), "walsvc seq=" + sb.String()}, true)
}

// payload of an EventDataRoundState record of exactly n bytes (n large)
func payloadOfSize(n int) []byte {
	t := fixedTime()
	l := n - 64
	for i := 0; i < 6; i++ {
		tm := consensus.TimedWALMessage{Time: t, Msg: types.EventDataRoundState{Height: 1, Round: 0, Step: strings.Repeat("s", l)}}
		p, ok := fix(&tm)
		if !ok {
			panic("harness: big payload is not a codec fixpoint")
		}
		if len(p) == n {
			return p
		}
		l += n - len(p)
	}
	panic("harness: cannot build a payload of the requested size")
}

// a msgInfo{BlockPartMessage} record as the node logs a peer message whose wire form (ser, with type) has exactly n bytes
func wrappedPeerMessage(n int) (recGen, int) {
	t := fixedTime()
	l := n - 64
	for i := 0; i < 8; i++ {
		var cm consensus.ConsensusMessage = &consensus.BlockPartMessage{Height: 7, Round: 0, Part: &types.Part{Index: 0, Bytes: bytes.Repeat([]byte{0x5a}, l)}}
		wire := ser.MustEncodeToBytesWithType(&cm)
		if len(wire) == n {
			if _, err := consensus.VerifDecodeMsg(wire); err != nil {
				panic("harness: the reactor refuses its own maximum message: " + err.Error())
			}
			tm := consensus.TimedWALMessage{Time: t, Msg: consensus.VerifWALMsg(cm, "0123456789abcdef0123456789abcdef01234567")}
			p, ok := fix(&tm)
			if !ok {
				panic("harness: wrapped peer message is not a codec fixpoint")
			}
			return recGen{p, -1, "msginfo-reactor-max"}, len(p) - n
		}
		l += n - len(wire)
	}
	panic("harness: cannot build a peer message of the requested size")
}

// (I) the size bound on both sides, through the real encoder: bound-1 and bound come back, bound+1 is refused and leaves
// the log as it was; the reactor's largest peer message, wrapped, is accepted
func genBoundary(g *hx.Gen, k int) {
	t := fixedTime()
	bound := decoderBound()
	ops := []string{hx.CaseOp("boundary"), writeOp(endHeight(t, 1)), "sync"}
	exact := recGen{payloadOfSize(bound), -1, "roundstate-bound"}
	ops = append(ops, writeOp(exact), writeOp(endHeight(t, 2)), "sync", "disk", "read idx=0 skip=0", "search h=2 ign=1", "search h=1 ign=0")
	g.Count("boundary:payload==bound")
	if OversizeFindingEnabled {
		over := recGen{payloadOfSize(bound + 1), -1, "roundstate-bound+1"}
		ops = append(ops, writeOp(over), writeOp(endHeight(t, 3)), "sync", "disk", "read idx=0 skip=0", "search h=3 ign=1", "search h=4 ign=1")
		g.Count("boundary:payload==bound+1")
		peer, overhead := wrappedPeerMessage(reactorBound())
		ops = append(ops, "rotate", writeOp(peer), writeOp(endHeight(t, 4)), "sync", "disk", "read idx=0 skip=0", "read idx=1 skip=0", "search h=4 ign=1")
		g.Count("boundary:reactor-max-wrapped")
		g.Count(fmt.Sprintf("boundary:wrapper-overhead=%d", overhead))
		if overhead > wrapperBound {
			panic(fmt.Sprintf("harness: the WAL wrapper adds %d bytes to a peer message, more than the stated bound %d", overhead, wrapperBound))
		}
	}
	if k%2 == 0 {
		under := recGen{payloadOfSize(bound - 1), -1, "roundstate-bound-1"}
		ops = append(ops, writeOp(under), writeOp(endHeight(t, 5)), "sync", "disk", "read idx=0 skip=0", "search h=5 ign=1")
		g.Count("boundary:payload==bound-1")
	}
	g.Case(fmt.Sprintf("boundary bound=%d k=%d", bound, k), ops, true)
}
