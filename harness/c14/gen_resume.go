package c14

import (
	"fmt"
	"strconv"
	"strings"

	"lvharness/c01"
	"lvharness/csim"
	"lvharness/hx"
)

// ---- executor side ---------------------------------------------------------------------------------------

var lastSim *simRun // the executor is per case: the previous case's event buses are stopped here

func (e *exec) simk(toks []string) string {
	if lastSim != nil {
		lastSim.net.Close()
		lastSim = nil
	}
	e.sim = nil
	k, _ := argInt(toks, "k")
	byz, _ := argInt(toks, "byz")
	x, _ := argInt(toks, "x")
	r := prepareSim(uint64(k), int(byz), int(x))
	if r == nil {
		return "nosim"
	}
	e.sim, e.nsNext, lastSim = r, map[int]int{}, r
	n, _ := argInt(toks, "n")
	base, _ := argInt(toks, "base")
	if int(n) != len(r.inputs)-r.base || int(base) != r.base {
		return fmt.Sprintf("sim-differs n=%d base=%d", len(r.inputs)-r.base, r.base)
	}
	return "ok"
}

func (e *exec) nsOp(op string, toks []string) string {
	if e.sim == nil {
		return "nosim"
	}
	return c01.NodeStep(&csim.SimResult{Net: e.sim.net}, e.nsNext, op, toks)
}

// ---- generator -------------------------------------------------------------------------------------------

// (J) restart above height 1, compared by state
func genResume(g *hx.Gen, idx int) {
	k := []uint64{2, 3, 5, 2, 3, 4}[idx%6]
	byz := []int{-1, 3, 1, 2, -1, 0}[idx%6] // a silent validator: missed proposals, nil prevotes, later rounds
	x := []int{0, 1, 2, 0, 2, 1}[idx%6]
	if g.Thorough() && idx >= 6 {
		k = uint64(2 + g.Rng.Intn(4))
		byz = g.Rng.Intn(5) - 1
		x = g.Rng.Intn(4)
	}
	if x == byz {
		x = (x + 1) % 4
	}
	r := prepareSim(k, byz, x)
	if r == nil {
		g.Count("resume:no-sim")
		return
	}
	defer r.net.Close()
	n := len(r.inputs) - r.base
	ops := []string{hx.CaseOp("resume"), fmt.Sprintf("simk k=%d byz=%d x=%d n=%d base=%d", k, byz, x, n, r.base)}
	tr := r.net.Trace[x]
	locked, rounds := false, false
	for i, te := range tr {
		if i > r.base+n {
			break
		}
		ops = append(ops, fmt.Sprintf("ns node=%d k=%d ev=%s", x, i, te.Ev))
		if i >= r.base {
			if lb := fieldOf(te.Ans, "lb"); lb != "0" && lb != "?" {
				locked = true
			}
			if rr := fieldOf(te.Ans, "r"); rr != "0" && rr != "?" {
				rounds = true
			}
		}
	}
	g.Count(fmt.Sprintf("resume:k=%d", k))
	g.Count(fmt.Sprintf("resume:locked-state-reached=%v", locked))
	g.Count(fmt.Sprintf("resume:round>0-reached=%v", rounds))
	torns := []int{1, 3, 4, 7, 8, 12, 20}
	for j := 0; j <= n; j++ {
		rot := 0
		if j >= 3 && g.Rng.Intn(3) == 0 {
			rot = 1 + g.Rng.Intn(j-1)
		}
		ops = append(ops, fmt.Sprintf("restart cut=%d torn=0 rot=%d base=%d", j, rot, r.base))
		g.Count("resume:restart-at-boundary")
		if j < n && (g.Thorough() || g.Rng.Intn(4) == 0) {
			ts := torns
			if !g.Thorough() {
				ts = []int{torns[g.Rng.Intn(len(torns))]}
			}
			for _, t := range ts {
				ops = append(ops, fmt.Sprintf("restart cut=%d torn=%d rot=0 base=%d", j, t, r.base))
				g.Count("resume:restart-torn")
			}
		}
	}
	g.Case(fmt.Sprintf("resume k=%d byz=%d x=%d inputs=%d", k, byz, x, n), ops, locked)
}

func fieldOf(s, key string) string {
	for _, t := range strings.Fields(s) {
		if strings.HasPrefix(t, key+"=") {
			return t[len(key)+1:]
		}
	}
	return "?"
}

// ---- monitor ---------------------------------------------------------------------------------------------

// replay-restores-state: after catchupReplay the restarted node's round state (height, round, step, locked round/block,
// valid round/block, proposal, proposal block and parts, commit round, and the votes it holds) equals the state the
// ORIGINAL node had after handling exactly the records that are completely in the log — ground truth: the original node's
// own state lines (the implementation's answers to the `ns` ops).  A torn tail may only cost records at the end: the state
// must be the state of SOME prefix (never one that skips a record), and of the longest one unless the node reports the
// read error (then it comes up without replay: the known finding wal-search-torn-tail).
func monitorResume(c *hx.CaseRun, fail func(mon, class, site, msg string)) {
	lines := map[int]string{}
	for i, op := range c.Ops {
		toks := hx.Tokens(op)
		ans := c.Impl[i]
		switch toks[0] {
		case "simk":
			if ans != "ok" {
				fail("replay_restores_state", "resume-sim-not-reproducible", "harness", "simulation answered "+ans)
			}
		case "ns":
			k, _ := argInt(toks, "k")
			if j := strings.Index(ans, " msgs="); j > 0 {
				lines[int(k)] = ans[:j]
			}
		case "restart":
			if strings.HasPrefix(ans, "panic") {
				fail("no_panic", "panic:"+strings.TrimPrefix(ans, "panic "), strings.TrimPrefix(ans, "panic "), "restart panicked: "+op)
				continue
			}
			j, _ := argInt(toks, "cut")
			torn, _ := argInt(toks, "torn")
			base, _ := argInt(toks, "base")
			a := hx.Tokens(ans)
			outcome, _ := hx.Arg(a, "outcome")
			votes, _ := hx.Arg(a, "votes")
			rp, _ := hx.Arg(a, "replayed")
			nrep, _ := strconv.Atoi(rp)
			line := ""
			if p := strings.Index(ans, " h="); p >= 0 {
				line = ans[p+1:]
			}
			want, ok := lines[int(base+j)]
			empty := lines[int(base)]
			if !ok {
				continue
			}
			lockNote := ""
			if fieldOf(want, "lb") != "0" && fieldOf(line, "lb") != fieldOf(want, "lb") {
				lockNote = " — THE LOCK IS LOST (the original node was locked on block " + fieldOf(want, "lb") + " in round " + fieldOf(want, "lr") + ")"
			}
			isPrefixState := false
			for i := int64(0); i <= j; i++ {
				if lines[int(base+i)] == line {
					isPrefixState = true
				}
			}
			switch {
			case outcome == "done":
				if line != want || votes != "same" || nrep != int(j) {
					fail("replay_restores_state", "replay-restores-state", "consensus/replay.go:catchupReplay",
						fmt.Sprintf("after replaying %d records (log holds %d): %s votes=%s; the original node after those %d inputs: %s%s", nrep, j, line, votes, j, want, lockNote))
				}
			case strings.HasPrefix(outcome, "err:e:") && torn >= 4:
				if !isPrefixState || line != empty {
					fail("replay_restores_state", "replay-restores-state", "consensus/replay.go:catchupReplay",
						fmt.Sprintf("torn tail (%d bytes): the node came up with %s, which is not the state before the replay %s", torn, line, empty))
				} else if want != empty {
					fail("replay_restores_state", "wal-search-torn-tail", "consensus/replay.go:catchupReplay",
						fmt.Sprintf("%d complete records of the height are on disk, %d bytes of the next one: catchupReplay gave up with %s and the node comes up with the state before them%s", j, torn, outcome, lockNote))
				}
			default:
				fail("replay_restores_state", "replay-restores-state", "consensus/replay.go:catchupReplay", "outcome "+outcome+" for "+op+lockNote)
			}
		}
	}
}
