package c14

// catchup: consensus/replay.go — catchupReplay / readReplayMessage, THE consumer of SearchForEndHeight and of the WAL
// decoder in the node.  A real ConsensusState (built by harness/csim, one correct node of four validators, at its
// genesis height 1) is started on a copy of the case's log files placed at the configured WAL path
// (./data/cs.wal/wal).  ConsensusState.OnStart opens the WAL (baseWAL.OnStart: writes EndHeight{0} when the head is
// empty; Group.OnStart), runs catchupReplay(1) and only then starts its routines.  What is replayed is observed through
// the state's own logger ("Replay: Vote/Proposal/BlockPart/Timeout/New Step" records carry the peer id / duration /
// step name, which the generator makes unique per record); the outcome is "Replay: Done", the error that OnStart logs
// ("Error on catchup replay. Proceeding to start ConsensusState anyway"), or the corruption panic.

import (
	"fmt"
	"os"
	"path/filepath"
	"strings"
	"sync"
	"time"

	"github.com/lianxiangcloud/linkchain/libs/log"

	"lvharness/csim"
)

const walDirOfConfig = "data/cs.wal" // cfg.DefaultConsensusConfig().WalFile() with an empty root dir

func errClassText(s string) string {
	switch {
	case strings.Contains(s, "WAL should not contain"):
		return "has-marker"
	case strings.Contains(s, "Cannot replay height"):
		return "no-marker"
	case strings.Contains(s, "failed to read checksum"):
		return "e:crc"
	case strings.Contains(s, "failed to read length"):
		return "e:len"
	case strings.Contains(s, "exceeded maximum possible value"):
		return "e:big"
	case strings.Contains(s, "failed to read data"):
		return "e:data"
	case strings.Contains(s, "DataCorruptionError"):
		return "corrupt"
	case strings.Contains(s, "no such file"):
		return "e:open"
	}
	return "other"
}

func ctxVal(ctx []interface{}, key string) string {
	for i := len(ctx) - 2; i >= 0; i -= 2 {
		if k, ok := ctx[i].(string); ok && k == key {
			return fmt.Sprint(ctx[i+1])
		}
	}
	return ""
}

// catchup runs the real start-up path on a copy of the files and renders "replay=<tokens> outcome=<o>"
func (e *exec) catchup(keys map[string]int) string {
	// empty the directory but never remove it: when Start panics half way (a corrupted log), the WAL group it had already
	// started keeps its 5 s ticker goroutine (ConsensusState.Stop refuses a service that never finished starting), and a tick
	// that finds the directory gone panics in readGroupInfo — in a goroutine nobody recovers, which killed the harness in
	// the thorough tier (a harness artefact, DESIGN 10.4)
	if err := os.MkdirAll(walDirOfConfig, 0o700); err != nil {
		panic("harness: mkdir: " + err.Error())
	}
	if old, err := os.ReadDir(walDirOfConfig); err == nil {
		for _, en := range old {
			os.RemoveAll(filepath.Join(walDirOfConfig, en.Name()))
		}
	}
	ents, _ := os.ReadDir(e.dir)
	for _, en := range ents {
		b, err := os.ReadFile(filepath.Join(e.dir, en.Name()))
		if err == nil {
			os.WriteFile(filepath.Join(walDirOfConfig, en.Name()), b, 0o600)
		}
	}
	net := csim.NewNet(csim.Cfg{N: 4, Powers: []int64{1, 1, 1, 1}, Byz: []bool{false, true, true, true}})
	defer net.Close()
	cs := net.Nodes[0].CS
	var mtx sync.Mutex
	var replayed []string
	outcome := ""
	lg := log.New()
	lg.SetHandler(log.FuncHandler(func(r *log.Record) error {
		mtx.Lock()
		defer mtx.Unlock()
		if outcome != "" {
			return nil
		}
		key := ""
		switch r.Msg {
		case "Replay: New Step":
			key = "S|" + ctxVal(r.Ctx, "step")
		case "Replay: Vote":
			key = "V|" + ctxVal(r.Ctx, "peer")
		case "Replay: Proposal":
			key = "P|" + ctxVal(r.Ctx, "peer")
		case "Replay: BlockPart":
			key = "B|" + ctxVal(r.Ctx, "peer")
		case "Replay: Timeout":
			key = "T|" + ctxVal(r.Ctx, "dur")
		case "Replay: Done":
			outcome = "done"
		case "Error on catchup replay. Proceeding to start ConsensusState anyway":
			outcome = "err:" + errClassText(ctxVal(r.Ctx, "err"))
		}
		if key != "" {
			if k, ok := keys[key]; ok {
				replayed = append(replayed, fmt.Sprintf("m%d", k))
			} else {
				replayed = append(replayed, "x")
			}
		}
		return nil
	}))
	cs.SetLogger(lg)
	started := false
	func() {
		defer func() {
			if r := recover(); r != nil {
				s := fmt.Sprint(r)
				mtx.Lock()
				defer mtx.Unlock()
				if outcome != "" {
					return
				}
				if strings.Contains(s, "data has been corrupted") {
					outcome = "panic-corrupt"
				} else {
					outcome = "panic-other"
				}
			}
		}()
		if err := cs.Start(); err != nil {
			mtx.Lock()
			if outcome == "" {
				outcome = "start-failed"
			}
			mtx.Unlock()
			return
		}
		started = true
	}()
	mtx.Lock()
	if outcome == "" {
		outcome = "none"
	}
	out := fmt.Sprintf("replay=%s outcome=%s", joinOrDash(replayed), outcome)
	mtx.Unlock()
	if started {
		cs.Stop()
		done := make(chan struct{})
		go func() { cs.Wait(); close(done) }()
		select {
		case <-done:
		case <-time.After(3 * time.Second):
		}
	}
	return out
}

func joinOrDash(xs []string) string {
	if len(xs) == 0 {
		return "-"
	}
	return strings.Join(xs, ",")
}
