package c14

import (
	"fmt"
	"strconv"
	"strings"

	"lvharness/hx"
)

// catchup_replays_after_marker: "catchupReplay replays exactly what was written after the marker of the previous height,
// or reports corruption / refuses" — evaluated on what the real ConsensusState logged while starting.
// Ground truth: the records written (op stream) and the number of bytes the implementation's `disk` answer shows.
func monitorCatchup(c *hx.CaseRun, fail func(mon, class, site, msg string)) {
	type rec struct {
		tok int
		eh  int64
		end int64
	}
	var table []string
	var W []rec
	var off int64
	flip := false
	diskValid := false
	var D, headSize int64
	for i, op := range c.Ops {
		toks := hx.Tokens(op)
		ans := c.Impl[i]
		switch toks[0] {
		case "write":
			ps, _ := hx.Arg(toks, "p")
			k := -1
			for j, q := range table {
				if q == ps {
					k = j
				}
			}
			if k < 0 {
				table = append(table, ps)
				k = len(table) - 1
			}
			off += int64(8 + len(UnRle(ps)))
			W = append(W, rec{k, argEh(toks), off})
			diskValid = false
		case "flip":
			flip, diskValid = true, false
		case "restore":
			flip, diskValid = false, false
		case "disk":
			diskValid = true
			D, headSize = 0, 0
			a := hx.Tokens(ans)
			sz, _ := hx.Arg(a, "sizes")
			for _, s := range hx.SplitComma(sz) {
				n, err := strconv.ParseInt(s, 10, 64)
				if err != nil {
					diskValid = false
				}
				D += n
			}
			if hd, _ := hx.Arg(a, "head"); hd != "none" {
				n, _ := strconv.ParseInt(strings.Split(hd, ":")[0], 10, 64)
				headSize = n
				D += n
			}
		case "catchup":
			if strings.HasPrefix(ans, "panic") {
				fail("no_panic", "panic:"+strings.TrimPrefix(ans, "panic "), strings.TrimPrefix(ans, "panic "), "starting the consensus state panicked outside the corruption check")
				continue
			}
			a := hx.Tokens(ans)
			rp, _ := hx.Arg(a, "replay")
			outcome, _ := hx.Arg(a, "outcome")
			var got []int
			bad := false
			for _, t := range hx.SplitComma(rp) {
				if t == "x" || !strings.HasPrefix(t, "m") {
					bad = true
					continue
				}
				k, _ := strconv.Atoi(t[1:])
				got = append(got, k)
			}
			if bad {
				fail("never_unwritten", "unwritten-message-replayed", "consensus/replay.go:catchupReplay", "catchupReplay handed the state machine a message that is no record written in this case: "+clipS(ans))
			}
			if outcome == "panic-other" || outcome == "none" || outcome == "start-failed" || outcome == "err:other" {
				fail("catchup_replays_after_marker", "catchup-unexpected-outcome", "consensus/replay.go:catchupReplay", "outcome "+outcome)
				continue
			}
			if !diskValid {
				continue
			}
			// the records completely on disk
			var complete []rec
			var lastEnd int64
			for _, r := range W {
				if r.end <= D {
					complete = append(complete, r)
					lastEnd = r.end
				}
			}
			k := D - lastEnd // bytes of a torn record at the end of the head
			if len(complete) == len(W) {
				k = 0
			}
			auto0 := headSize == 0 // OnStart writes EndHeight{0} into an empty head: it is the newest marker 0
			has1, has1InHead, pos0 := false, false, -1
			for j, r := range complete {
				if r.eh == 1 {
					has1 = true
					if r.end > D-headSize {
						has1InHead = true
					}
				}
				if r.eh == 0 {
					pos0 = j
				}
			}
			var want []int
			if pos0 >= 0 && !auto0 {
				for _, r := range complete[pos0+1:] {
					if r.eh < 0 {
						want = append(want, r.tok)
					}
				}
			}
			isPrefix := len(got) <= len(want)
			for j := 0; isPrefix && j < len(got); j++ {
				if got[j] != want[j] {
					isPrefix = false
				}
			}
			equal := isPrefix && len(got) == len(want)
			if flip {
				// a changed byte: a prefix of what was written after the marker, complete if the replay says "done"
				if !isPrefix || (outcome == "done" && !equal && pos0 >= 0 && !has1) {
					fail("catchup_replays_after_marker", "catchup-replay-mismatch", "consensus/replay.go:catchupReplay",
						fmt.Sprintf("with one changed byte: replayed %v outcome %s, written after the marker %v", got, outcome, want))
				}
				continue
			}
			if k >= 4 {
				// torn length/data field at the end of the head: both searches of catchupReplay run into it,
				// unless the sanity search meets the marker of the current height in the head first
				if has1InHead && outcome == "err:has-marker" && len(got) == 0 {
					continue
				}
				if !has1InHead && strings.HasPrefix(outcome, "err:e:") && len(got) == 0 {
					if len(want) > 0 && !has1 {
						fail("catchup_replays_after_marker", "wal-search-torn-tail", "consensus/replay.go:catchupReplay",
							fmt.Sprintf("%d complete records after the marker are on disk; catchupReplay gave up with %s and the state starts without them", len(want), outcome))
					}
					continue
				}
				fail("catchup_replays_after_marker", "catchup-replay-mismatch", "consensus/replay.go:catchupReplay",
					fmt.Sprintf("head torn %d bytes into a record: replayed %v outcome %s", k, got, outcome))
				continue
			}
			wantOutcome := "done"
			if has1 {
				wantOutcome, want = "err:has-marker", nil
				equal = len(got) == 0
			} else if pos0 < 0 && !auto0 {
				wantOutcome = "err:no-marker"
			}
			if outcome != wantOutcome || !equal {
				fail("catchup_replays_after_marker", "catchup-replay-mismatch", "consensus/replay.go:catchupReplay",
					fmt.Sprintf("replayed %v outcome %s; written after the marker %v, expected outcome %s", got, outcome, want, wantOutcome))
			}
		}
	}
}
