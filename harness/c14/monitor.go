package c14

import (
	"fmt"
	"strconv"
	"strings"

	"lvharness/hx"
)

// The monitors evaluate the property on the IMPLEMENTATION's answers, using only facts visible in the op stream
// (what was written, in which order, with which end-height attribute) and the implementation's own `disk` report
// (how many bytes are in which file).
//
//  never_unwritten     every decoded message is a payload that was written in this case
//  replay_prefix       reading the group from its first file yields a prefix, in order, of the records written
//  replay_complete     a flushed, undamaged log is replayed completely and ends with io.EOF
//  marker_iff_written  SearchForEndHeight(h) finds the marker iff its record is completely on disk
//                      (not evaluated under byte corruption / lost middle parts; there only found ⇒ written)
//  replay_after_marker on an undamaged flushed log the reader returned by a successful search replays exactly the
//                      records written after the marker

type wrec struct {
	tok int
	eh  int64
	end int64
}

func parseTrace(s string) []string {
	if s == "" {
		return nil
	}
	return strings.Split(s, ",")
}

func (P) Monitor(c *hx.CaseRun) []hx.Failure {
	var fs []hx.Failure
	seen := map[string]bool{}
	fail := func(mon, class, site, msg string) {
		if seen[mon+class] {
			return
		}
		seen[mon+class] = true
		fs = append(fs, hx.Failure{Monitor: mon, Class: class, Site: site, Msg: msg})
	}
	if c.Tags["resume"] {
		monitorResume(c, fail)
		return fs
	}
	if c.Tags["svc"] {
		monitorSvc(c, fail)
		return fs
	}
	if c.Tags["prune"] {
		monitorPrune(c, fail)
		return fs
	}
	if c.Tags["catchup"] {
		monitorCatchup(c, fail)
	}
	var table [][]byte
	lookup := func(p []byte) int {
		for i, q := range table {
			if string(q) == string(p) {
				return i
			}
		}
		return -1
	}
	var W []wrec
	written := map[int]bool{}
	var off int64
	raw, dirty, lost, writesAfterCrash, crashed := false, false, false, false, false
	tornRotated := false // a rotation after a crash that lost unsynced bytes: a record torn by the crash now ends a rotated file
	cutHead, midDamage, flipDamage := false, false, false
	maxIdx := 0
	headMissing := false // between RotateFile and the next flush the head path does not exist (the node never reads then)
	diskValid := false
	var diskSizes []int64
	var diskHead int64 = -1
	monotone := true
	var lastEh int64 = -1
	oversize := false // a record with a payload larger than maxMsgSizeBytes was written through the real encoder

	for i, op := range c.Ops {
		toks := hx.Tokens(op)
		ans := c.Impl[i]
		switch toks[0] {
		case "write":
			ps, _ := hx.Arg(toks, "p")
			p := UnRle(ps)
			k := lookup(p)
			if k < 0 {
				table = append(table, p)
				k = len(table) - 1
			}
			eh := argEh(toks)
			if ans == "err-toobig" {
				// the encoder refused the record: nothing was written.  It must not refuse what the reactor accepts from a
				// peer plus the stated wrapper bound (the node's Write panics on an encoder error)
				if len(p) <= reactorBound()+wrapperBound {
					fail("encoder_accepts_reactor_max", "wal-oversize-record-unreadable", "consensus/wal.go:Encode",
						fmt.Sprintf("the encoder refused a payload of %d bytes; the reactor accepts peer messages of %d bytes and the wrapper adds at most %d", len(p), reactorBound(), wrapperBound))
				}
				continue
			}
			if len(p) > 1024*1024 {
				oversize = true // large enough to meet the decoder's bound: an unreadable flushed log is then classified as the oversize defect
			}
			off += int64(8 + len(p))
			W = append(W, wrec{k, eh, off})
			written[k] = true
			if eh >= 0 {
				if eh < lastEh {
					monotone = false
				}
				lastEh = eh
			}
			dirty, diskValid = true, false
			if crashed {
				writesAfterCrash = true
			}
			if !strings.HasPrefix(ans, "ok") {
				fail("write_ok", "write-failed", "consensus/wal.go:Encode", "writing a valid record answered "+ans)
			}
		case "decl":
			ps, _ := hx.Arg(toks, "p")
			p := UnRle(ps)
			if lookup(p) < 0 {
				table = append(table, p)
			}
		case "raw":
			raw, dirty, diskValid = true, true, false
		case "sync":
			dirty, diskValid, headMissing = false, false, false
		case "rotate":
			if ans == "ok" {
				maxIdx++
				headMissing = true
				if lost {
					tornRotated = true
				}
			}
			diskValid = false
		case "tick":
			if ans == "rotated=true" {
				maxIdx++
				headMissing = true
				if lost {
					tornRotated = true
				}
			} else if lim, _ := argInt(toks, "limit"); lim != 0 && ans == "rotated=false" {
				headMissing = false
			}
			diskValid = false
		case "crash":
			if dirty {
				lost = true
			}
			crashed, dirty, diskValid, headMissing = true, false, false, false
		case "cut":
			f, _ := argInt(toks, "f")
			if int(f) < maxIdx {
				midDamage = true
			} else {
				cutHead = true
			}
			diskValid = false
		case "flip":
			flipDamage, diskValid = true, false
		case "restore":
			cutHead, midDamage, flipDamage, diskValid = false, false, false, false
		case "disk":
			diskSizes, diskHead, diskValid = nil, -1, true
			sz, _ := hx.Arg(toks2(ans), "sizes")
			for _, s := range hx.SplitComma(sz) {
				n, err := strconv.ParseInt(s, 10, 64)
				if err != nil {
					diskValid = false
				}
				diskSizes = append(diskSizes, n)
			}
			hd, _ := hx.Arg(toks2(ans), "head")
			if hd != "none" {
				n, err := strconv.ParseInt(strings.Split(hd, ":")[0], 10, 64)
				if err != nil {
					diskValid = false
				}
				diskHead = n
			}
		case "read", "search":
			var trace []string
			found := false
			if toks[0] == "read" {
				if !strings.HasPrefix(ans, "r=") {
					if strings.HasPrefix(ans, "panic") {
						fail("no_panic", "panic:"+strings.TrimPrefix(ans, "panic "), strings.TrimPrefix(ans, "panic "), "reading the log panicked: "+op)
					}
					continue
				}
				trace = parseTrace(strings.TrimPrefix(ans, "r="))
			} else {
				if strings.HasPrefix(ans, "panic") {
					fail("no_panic", "panic:"+strings.TrimPrefix(ans, "panic "), strings.TrimPrefix(ans, "panic "), "SearchForEndHeight panicked: "+op)
					continue
				}
				if strings.HasPrefix(ans, "found then=") {
					found = true
					trace = parseTrace(strings.TrimPrefix(ans, "found then="))
				}
			}
			// ---- never_unwritten
			var msgs []int
			for _, t := range trace {
				if t == "x" {
					fail("never_unwritten", "unwritten-message-decoded", "consensus/wal.go:Decode", "the decoder returned a message whose encoding is no payload written in this case: "+op+" -> "+clipS(ans))
				}
				if strings.HasPrefix(t, "m") {
					k, _ := strconv.Atoi(t[1:])
					msgs = append(msgs, k)
					if !raw && !written[k] {
						fail("never_unwritten", "unwritten-message-decoded", "consensus/wal.go:Decode", "the decoder returned a payload that was declared but never written: "+op+" -> "+clipS(ans))
					}
				}
			}
			term := ""
			if len(trace) > 0 {
				term = trace[len(trace)-1]
			}
			clean := !raw && !dirty && !lost && !writesAfterCrash && !cutHead && !midDamage && !flipDamage && !headMissing
			if toks[0] == "read" {
				idx, _ := argInt(toks, "idx")
				skip, _ := argInt(toks, "skip")
				if idx == 0 && skip == 0 && !raw && !writesAfterCrash && !midDamage { // a hole in an older file is not "a log cut at an offset"
					okPrefix := len(msgs) <= len(W)
					for j := 0; okPrefix && j < len(msgs); j++ {
						if msgs[j] != W[j].tok {
							okPrefix = false
						}
					}
					if !okPrefix {
						fail("replay_prefix", "replay-not-a-prefix", "consensus/wal.go:Decode", fmt.Sprintf("read from the first file is not a prefix of the %d records written: %s", len(W), clipS(ans)))
					} else if clean && (len(msgs) != len(W) || term != "eof") {
						cls := "synced-log-not-replayed"
						if oversize {
							cls = "wal-oversize-record-unreadable"
						}
						fail("replay_complete", cls, "consensus/wal.go:Encode", fmt.Sprintf("flushed undamaged log of %d records replayed as %s", len(W), clipS(ans)))
					}
				}
				continue
			}
			// ---- search
			h, _ := argInt(toks, "h")
			anyWritten := false
			firstPos := -1
			for j, r := range W {
				if r.eh == h {
					anyWritten = true
					if firstPos < 0 {
						firstPos = j
					}
				}
			}
			if found && !raw && !anyWritten {
				fail("marker_iff_written", "marker-found-not-written", "consensus/wal.go:SearchForEndHeight", fmt.Sprintf("height %d found but never written", h))
			}
			if raw || writesAfterCrash || flipDamage || midDamage || !diskValid || !monotone || diskHead < 0 {
				continue
			}
			var D int64 = diskHead
			ends := map[int64]bool{0: true}
			for _, r := range W {
				ends[r.end] = true
			}
			aligned := true
			var cum int64
			for _, s := range diskSizes {
				cum += s
				D += s
				if !ends[cum] {
					aligned = false
				}
			}
			expected := false
			for _, r := range W {
				if r.eh == h && r.end <= D {
					expected = true
				}
			}
			switch {
			case expected && !found:
				class := "marker-not-found"
				if oversize {
					class = "wal-oversize-record-unreadable"
				}
				if !aligned && tornRotated {
					class = "wal-search-torn-tail" // the same torn record, one file further back
				} else if !aligned {
					class = "wal-rotate-unflushed-straddle"
				} else if !ends[D] && len(diskSizes) > 0 {
					class = "wal-search-torn-tail"
				}
				fail("marker_iff_written", class, "consensus/wal.go:SearchForEndHeight",
					fmt.Sprintf("marker for height %d is completely on disk (%d bytes in %d files) but the search answered %s", h, D, len(diskSizes)+1, clipS(ans)))
			case !expected && found:
				fail("marker_iff_written", "marker-found-not-written", "consensus/wal.go:SearchForEndHeight", fmt.Sprintf("height %d found but its record is not completely on disk", h))
			case expected && found && clean:
				want := W[firstPos+1:]
				ok := len(msgs) == len(want) && term == "eof"
				for j := 0; ok && j < len(msgs); j++ {
					if msgs[j] != want[j].tok {
						ok = false
					}
				}
				if !ok {
					fail("replay_after_marker", "replay-after-marker-incomplete", "consensus/wal.go:SearchForEndHeight",
						fmt.Sprintf("after marker %d, %d records were written; replayed: %s", h, len(want), clipS(ans)))
				}
			}
		}
	}
	return fs
}

func toks2(s string) []string { return hx.Tokens(s) }

func clipS(s string) string {
	if len(s) > 160 {
		return s[:160] + "..."
	}
	return s
}
