package c14

import (
	"fmt"

	"github.com/lianxiangcloud/linkchain/consensus"
	"github.com/lianxiangcloud/linkchain/libs/crypto"
	"github.com/lianxiangcloud/linkchain/types"

	"lvharness/hx"
)

// records whose replay is visible in the state's log, each with a unique key (see replay.go); heights other than the
// state's own height 1, so that the replayed messages do not move the state machine
func replayRecord(g *hx.Gen, k int) (recGen, string) {
	t := genTime(g)
	const h = 7
	peer := fmt.Sprintf("p%d", k)
	switch g.Rng.Intn(5) {
	case 0:
		v := fmt.Sprintf(`{"duration":"%d","height":"%d","round":"0","step":%d}`, int64(k)*1000000, h, 1+g.Rng.Intn(8))
		if p, ok := viaJSON(t, "consensus/wal/TimeoutInfo", v); ok {
			return recGen{p, -1, "timeout"}, fmt.Sprintf("T|%dms", k)
		}
	case 1:
		vote := &types.Vote{ValidatorAddress: crypto.Address(randBytes(g, 20)), ValidatorIndex: g.Rng.Intn(4), ValidatorSize: 4, Height: h, Round: 0,
			Timestamp: genTime(g), Type: byte(1 + g.Rng.Intn(2))}
		if p, ok := msgInfoPayload(t, &consensus.VoteMessage{Vote: vote}, peer); ok {
			return recGen{p, -1, "msginfo-vote"}, "V|" + peer
		}
	case 2:
		prop := &types.Proposal{Height: h, Round: 0, Timestamp: genTime(g), POLRound: -1,
			BlockPartsHeader: types.PartSetHeader{Total: 1, Hash: randBytes(g, 20)}}
		if p, ok := msgInfoPayload(t, &consensus.ProposalMessage{Proposal: prop}, peer); ok {
			return recGen{p, -1, "msginfo-proposal"}, "P|" + peer
		}
	case 3:
		part := &types.Part{Index: 0, Bytes: randBytes(g, 1+g.Rng.Intn(40))}
		if p, ok := msgInfoPayload(t, &consensus.BlockPartMessage{Height: h, Round: 0, Part: part}, peer); ok {
			return recGen{p, -1, "msginfo-blockpart"}, "B|" + peer
		}
	}
	step := fmt.Sprintf("S%d", k)
	return roundState(t, h, 0, step), "S|" + step
}

// (F) catchupReplay of a real ConsensusState over logs written by the real WAL: intact, every crash cut of the head,
// byte flips; marker 0 present / absent / shadowed by the EndHeight{0} that OnStart writes into an empty head;
// the marker of the current height present ("WAL should not contain #ENDHEIGHT")
func genCatchup(g *hx.Gen, k int) {
	l := &logGen{g: g, h: 0}
	l.ops = []string{hx.CaseOp("catchup")}
	variant := []string{"marker0", "marker0", "marker0-late", "no-marker", "has-marker1", "marker0"}[k%6]
	nfiles := 1 + g.Rng.Intn(3)
	uid := 0
	cur := 0
	var fileLens []int
	add := func(r recGen, key string) {
		op := writeOp(r)
		if key != "" {
			op += " key=" + key
		}
		l.ops = append(l.ops, op)
		g.Count("record:" + r.kind)
		l.nrec++
		cur += 8 + len(r.p)
	}
	rec := func() {
		uid++
		r, key := replayRecord(g, uid)
		add(r, key)
	}
	if variant == "marker0" {
		add(endHeight(genTime(g), 0), "")
	}
	if variant == "marker0-late" || variant == "has-marker1" {
		rec()
		add(endHeight(genTime(g), 0), "")
	}
	for f := 0; f < nfiles; f++ {
		n := 1 + g.Rng.Intn(3)
		for i := 0; i < n; i++ {
			rec()
		}
		if variant == "has-marker1" && f == nfiles-1 {
			add(endHeight(genTime(g), 1), "")
			if g.Rng.Intn(2) == 0 {
				rec()
			}
		}
		l.ops = append(l.ops, "sync")
		fileLens = append(fileLens, cur)
		cur = 0
		if f < nfiles-1 {
			l.ops = append(l.ops, "rotate") // every file is filled before it is rotated
		}
	}
	head := nfiles - 1
	l.ops = append(l.ops, "disk", "catchup", "snap")
	g.Count("catchup-variant:" + variant)
	g.Count(fmt.Sprintf("catchup-files:%d", nfiles))
	stride := 1
	if k >= g.Pick(3, 30) {
		stride = 1 + g.Rng.Intn(3)
	}
	for n := g.Rng.Intn(stride); n < fileLens[head]; n += stride {
		l.ops = append(l.ops, fmt.Sprintf("cut f=%d n=%d", head, n), "disk", "catchup", "restore")
		g.Count("catchup:cut-head")
	}
	for j := 0; j < g.Pick(12, 60); j++ {
		f := g.Rng.Intn(nfiles)
		if fileLens[f] == 0 {
			continue
		}
		l.ops = append(l.ops, fmt.Sprintf("flip f=%d off=%d x=%d", f, g.Rng.Intn(fileLens[f]), 1+g.Rng.Intn(255)), "disk", "catchup", "restore")
		g.Count("catchup:flip")
	}
	g.Case(fmt.Sprintf("catchup variant=%s files=%d", variant, nfiles), l.ops, true)
}
