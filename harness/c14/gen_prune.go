package c14

import (
	"fmt"

	"lvharness/hx"
)

// (G) the REAL 5-second ticker of a started group: checkHeadSizeLimit + checkTotalSizeLimit (unexported; reached through
// Group.Start → processTicks).  Several rotated files, a total size limit aimed at 0 / 1 / 2 / 4 / more-than-4 removals
// and at the exact boundary (total == limit removes, total == limit-1 does not), a head size limit on either side of the
// head's size; then what a node does afterwards: searches and reads with the stale minIndex, a clean stop, a restart
// (minIndex > 0 from the directory), more writes and a rotation.  One tick costs 5 s of wall time: few cases.
func genPrune(g *hx.Gen, k int) {
	l := &logGen{g: g, h: 1}
	l.ops = []string{hx.CaseOp("prune"), "gstart"}
	nfiles := 5 + g.Rng.Intn(3)
	var sizes []int
	cur := 0
	for f := 0; f < nfiles; f++ {
		n := 1 + g.Rng.Intn(2)
		for i := 0; i < n; i++ {
			r := genRecord(g, l.h, 0)
			l.add(r)
			cur += 8 + len(r.p)
		}
		e := endHeight(genTime(g), l.h)
		l.add(e)
		l.h++
		cur += 8 + len(e.p)
		l.ops = append(l.ops, "sync", "rotate")
		sizes = append(sizes, cur)
		cur = 0
	}
	// the head
	r := genRecord(g, l.h, 0)
	l.add(r)
	headSize := 8 + len(r.p)
	l.ops = append(l.ops, "sync")
	total := headSize
	for _, s := range sizes {
		total += s
	}
	// aim: remove `want` files
	want := []int{2, 6, 0, 1, 4, 3, nfiles}[k%7]
	limit := total + 1 // nothing to remove
	if want > 0 {
		// after removing want-1 files the total is still >= limit, after `want` files it is below (or the cap of 4 hits first)
		t := total
		for i := 0; i < want-1 && i < len(sizes); i++ {
			t -= sizes[i]
		}
		limit = t // total_after(want-1) == limit: the boundary `totalSize < limit` is false, one more file goes
		if g.Rng.Intn(3) == 0 && want <= len(sizes) {
			limit = t - sizes[want-1] + 1 // strictly inside
		}
	} else if g.Rng.Intn(2) == 0 {
		limit = 0 // no limit at all
	}
	headLimit := []int{0, headSize, headSize + 1, 1}[g.Rng.Intn(4)] // 0 = off; == size rotates; size+1 does not
	l.ops = append(l.ops, fmt.Sprintf("limits head=%d total=%d", headLimit, limit), "disk", "ginfo", "waittick", "disk", "ginfo")
	g.Count(fmt.Sprintf("prune-want:%d", want))
	g.Count(fmt.Sprintf("prune-headlimit:%d", g.Rng.Intn(1)+boolInt(headLimit != 0 && headSize >= headLimit)))
	probe := func() {
		for _, h := range l.heights {
			l.ops = append(l.ops, fmt.Sprintf("search h=%d ign=%d", h, g.Rng.Intn(2)))
		}
		l.ops = append(l.ops, fmt.Sprintf("search h=%d ign=1", l.h), "search h=0 ign=1")
		for i := 0; i <= nfiles+1; i++ {
			l.ops = append(l.ops, fmt.Sprintf("read idx=%d skip=0", i))
		}
	}
	probe()
	l.ops = append(l.ops, "limits head=0 total=0", "gstop", "crash", "ginfo", "disk")
	probe()
	// life goes on: indices keep growing after a restart with minIndex > 0
	l.add(genRecord(g, l.h, 0))
	l.marker()
	l.ops = append(l.ops, "sync", "rotate")
	l.add(genRecord(g, l.h, 0))
	l.ops = append(l.ops, "sync", "disk", "ginfo")
	probe()
	g.Case(fmt.Sprintf("prune files=%d want=%d limit=%d headlimit=%d", nfiles, want, limit, headLimit), l.ops, true)
}

func boolInt(b bool) int {
	if b {
		return 1
	}
	return 0
}
