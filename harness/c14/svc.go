package c14

// walsvc: the baseWAL service itself — Start (OnStart writes EndHeight{0} into an empty log and starts the group), Write
// (buffered), WriteSync (buffered + Group.Flush), Stop (OnStop: group stopped, flushed, closed), Wait — on a log of its own.
// Write stamps records with time.Now(), so the answer names records by content (the EndHeight height), not by bytes:
// after every `D` the log file is decoded with the real decoder and the heights on DISK are listed.

import (
	"fmt"
	"os"
	"path/filepath"
	"strings"

	"github.com/lianxiangcloud/linkchain/consensus"
)

var svcCounter int

func (e *exec) walsvc(seq string) string {
	svcCounter++
	dir := filepath.Join(e.dir, fmt.Sprintf("svc%d", svcCounter))
	os.MkdirAll(dir, 0o755)
	path := filepath.Join(dir, "wal")
	w, err := consensus.NewWAL(path)
	if err != nil {
		return "err"
	}
	next := uint64(1)
	var out []string
	for _, ch := range seq {
		switch ch {
		case 'S':
			if err := w.Start(); err != nil {
				out = append(out, "S=err")
			}
		case 'w':
			w.Write(consensus.EndHeightMessage{Height: next})
			next++
		case 'W':
			w.WriteSync(consensus.EndHeightMessage{Height: next})
			next++
		case 'X':
			if err := w.Stop(); err != nil {
				out = append(out, "X=err")
			}
			w.Wait()
		case 'D':
			f, err := os.Open(path)
			if err != nil {
				out = append(out, "D=none")
				continue
			}
			dec := consensus.NewWALDecoder(f)
			var hs []string
			for {
				m, err := dec.Decode()
				if err != nil {
					if c := errClass(err); c != "eof" {
						hs = append(hs, c)
					}
					break
				}
				if eh, ok := m.Msg.(consensus.EndHeightMessage); ok {
					hs = append(hs, fmt.Sprint(eh.Height))
				} else {
					hs = append(hs, "?")
				}
			}
			f.Close()
			out = append(out, "D="+joinOrDash(hs))
		}
	}
	w.Group().Head.Close()
	return strings.Join(out, " ")
}
