package c14

// Replay above height 1, compared by STATE: a csim simulation (real ConsensusStates, real status DBs, MemApp block stores)
// runs to height k; one node X is then followed through height k+1, every input it handles and its state line after it are
// recorded.  `restart cut=j torn=t` builds a FRESH ConsensusState on copies of X's status DB and block store and on X's
// private validator, with a WAL written by the real encoder that holds, after EndHeight{k}, the first j inputs of height
// k+1 (msgInfo / timeoutInfo records through the hooks VerifWALMsg / VerifWALTimeout) and the first t bytes of the next
// record; ConsensusState.Start() runs catchupReplay(k+1).  The answer is the restarted node's state line at the moment
// catchupReplay ends ("Replay: Done" / the error OnStart logs) — before the receive routine can touch it.
// The clause: it equals the state the ORIGINAL node had after handling exactly that prefix (monitor replay-restores-state).

import (
	"fmt"
	"os"
	"path/filepath"
	"strings"
	"sync"
	"time"

	cfg "github.com/lianxiangcloud/linkchain/config"
	"github.com/lianxiangcloud/linkchain/consensus"
	dbm "github.com/lianxiangcloud/linkchain/libs/db"
	"github.com/lianxiangcloud/linkchain/libs/log"
	"github.com/lianxiangcloud/linkchain/types"

	"lvharness/csim"
)

type simInput struct {
	msg     *csim.Msg // nil: a timeout
	peer    string
	timeout csim.Timeout
}

type simRun struct {
	net     *csim.Net
	x       int
	k       uint64
	inputs  []simInput // every input X handled, in order
	votes   []string   // X's vote summary after each input (votes[i] = after inputs[:i+1])
	base    int        // number of inputs handled when X reached height k+1 (= its trace index: entry 0 is `init`)
	overrun bool       // X committed height k+1 (its DB and block store moved on)
}

func voteSummary(cs *consensus.ConsensusState) string {
	rs := cs.VerifRoundState()
	if rs.Votes == nil {
		return "-"
	}
	var sb strings.Builder
	for r := 0; r <= rs.Round+1; r++ {
		if pv := rs.Votes.Prevotes(r); pv != nil {
			fmt.Fprintf(&sb, "P%d:%s;", r, pv.BitArray().String())
		}
		if pc := rs.Votes.Precommits(r); pc != nil {
			fmt.Fprintf(&sb, "C%d:%s;", r, pc.BitArray().String())
		}
	}
	return sb.String()
}

// runSim: synchronous rounds — every correct node handles what is in its inbox, and when nobody has anything, every node's
// pending timeouts fire.  byz = index of a silent validator (-1: none).  X is followed until it has handled `limit` inputs
// at height k+1 (limit < 0: until it commits height k+1).
func runSim(k uint64, byz, x, limit int) *simRun {
	b := []bool{false, false, false, false}
	if byz >= 0 {
		b[byz] = true
	}
	net := csim.NewNet(csim.Cfg{N: 4, Powers: []int64{1, 1, 1, 1}, Byz: b, Trace: true})
	r := &simRun{net: net, x: x, k: k, base: -1}
	handledAtNext := 0
	done := func() bool {
		h := net.Nodes[x].CS.VerifRoundState().Height
		if h > k+1 {
			r.overrun = true
			return true
		}
		return limit >= 0 && r.base >= 0 && handledAtNext >= limit
	}
	after := func() {
		node := net.Nodes[x]
		r.votes = append(r.votes, voteSummary(node.CS))
		h := node.CS.VerifRoundState().Height
		if r.base < 0 && h == k+1 {
			r.base = len(r.inputs)
		} else if r.base >= 0 {
			handledAtNext++
		}
	}
	for pass := 0; pass < 4000; pass++ {
		any := false
		for i, node := range net.Nodes {
			if node.Byz || node.Dead != "" {
				continue
			}
			msgs := node.Inbox
			node.Inbox = nil
			for _, m := range msgs {
				if node.Seen[m.ID] {
					continue
				}
				any = true
				if i == x {
					if done() {
						return r
					}
					peer := fmt.Sprintf("peer%d", m.From)
					if m.From == i {
						peer = ""
					}
					r.inputs = append(r.inputs, simInput{msg: m, peer: peer})
				}
				net.Deliver(i, m)
				if i == x {
					after()
				}
			}
		}
		if any {
			continue
		}
		fired := false
		for i, node := range net.Nodes {
			if node.Byz || node.Dead != "" {
				continue
			}
			ts := node.Timeouts
			node.Timeouts = nil
			for _, t := range ts {
				fired = true
				if i == x {
					if done() {
						return r
					}
					r.inputs = append(r.inputs, simInput{timeout: t})
				}
				net.FireTimeout(i, t)
				if i == x {
					after()
				}
			}
		}
		if !fired {
			break
		}
		if done() {
			return r
		}
	}
	return r
}

// prepareSim: first pass to learn how many inputs X handles at height k+1 before it commits it, second pass stops one
// input earlier, so that X's status DB and block store are still those of the commit of height k.
func prepareSim(k uint64, byz, x int) *simRun {
	first := runSim(k, byz, x, -1)
	first.net.Close()
	if first.base < 0 {
		return nil
	}
	n := len(first.inputs) - first.base
	if first.overrun {
		n-- // the committing input
	}
	if n < 1 {
		return nil
	}
	r := runSim(k, byz, x, n)
	if r.overrun || r.base < 0 || len(r.inputs)-r.base != n {
		r.net.Close()
		return nil
	}
	return r
}

func (r *simRun) walMessage(in simInput) consensus.WALMessage {
	if in.msg != nil {
		return consensus.VerifWALMsg(in.msg.Payload, in.peer)
	}
	t := in.timeout
	if t.Duration == 0 {
		t.Duration = time.Millisecond
	}
	return consensus.VerifWALTimeout(t)
}

var resumeCounter int

// restart: see the head of the file.  rot = rotate the WAL after that many records of height k+1 (0: one file).
func (e *exec) restart(r *simRun, j, torn, rot int) string {
	if r == nil {
		return "nosim"
	}
	n := len(r.inputs) - r.base
	if j < 0 || j > n {
		return "bad-op"
	}
	resumeCounter++
	dir := filepath.Join("c14resume", fmt.Sprintf("r%d", resumeCounter)) // never removed while the process lives (leaked group tickers)
	os.MkdirAll(dir, 0o700)
	path := filepath.Join(dir, "wal")
	// ---- the log, written by the real WAL
	w, err := consensus.NewWAL(path)
	if err != nil {
		return "err"
	}
	enc := consensus.NewWALEncoder(w.Group())
	t0 := time.Unix(1600000000, 0).UTC()
	put := func(m consensus.WALMessage) {
		if err := enc.Encode(&consensus.TimedWALMessage{Time: t0, Msg: m}); err != nil {
			panic("harness: encode: " + err.Error())
		}
	}
	// what the node had logged before: the end of height k-1, the inputs of height k, the end of height k
	put(consensus.EndHeightMessage{Height: r.k - 1})
	lo := r.base - 6
	if lo < 0 {
		lo = 0
	}
	for _, in := range r.inputs[lo:r.base] {
		put(r.walMessage(in))
	}
	put(consensus.EndHeightMessage{Height: r.k})
	for i := 0; i < j; i++ {
		if rot > 0 && i == rot {
			w.Group().Flush()
			w.Group().RotateFile()
		}
		put(r.walMessage(r.inputs[r.base+i]))
	}
	w.Group().Flush()
	if torn > 0 && j < n {
		var buf strings.Builder
		tmp := consensus.NewWALEncoder(&buf)
		tmp.Encode(&consensus.TimedWALMessage{Time: t0, Msg: r.walMessage(r.inputs[r.base+j])})
		b := []byte(buf.String())
		if torn < len(b) {
			w.Group().Write(b[:torn])
			w.Group().Flush()
		}
	}
	w.Group().Head.Close()

	// ---- a fresh ConsensusState on copies of X's durable pieces
	node := r.net.Nodes[r.x]
	db := dbm.NewMemDB()
	it := node.DB.Iterator(nil, nil)
	for ; it.Valid(); it.Next() {
		db.Set(append([]byte{}, it.Key()...), append([]byte{}, it.Value()...))
	}
	it.Close()
	app := *node.App
	status, err := consensus.LoadStatus(db)
	if err != nil {
		return "err-status"
	}
	conf := cfg.DefaultConsensusConfig()
	conf.SkipTimeoutCommit = false
	conf.SetWalFile(path)
	evpool := consensus.MockEvidencePool{}
	blockExec := consensus.NewBlockExecutor(db, log.NewNopLogger(), evpool)
	st := consensus.NewConsensusState(conf, status, blockExec, &app, consensus.MockMempool{}, evpool)
	st.SetPrivValidator(node.PV)
	bus := types.NewEventBus()
	bus.SetLogger(log.NewNopLogger())
	bus.Start()
	defer bus.Stop()
	st.SetEventBus(bus)
	st.VerifPrepare(consensus.NewVerifTicker())
	tmpNode := &csim.Node{Idx: r.x, CS: st}

	var mtx sync.Mutex
	outcome, line, votes := "", "", ""
	replayed := 0
	lg := log.New()
	lg.SetHandler(log.FuncHandler(func(rec *log.Record) error {
		mtx.Lock()
		defer mtx.Unlock()
		if outcome != "" {
			return nil
		}
		switch rec.Msg {
		case "Replay: Vote", "Replay: Proposal", "Replay: BlockPart", "Replay: Timeout":
			replayed++
		case "Replay: Done":
			outcome = "done"
		case "Error on catchup replay. Proceeding to start ConsensusState anyway":
			outcome = "err:" + errClassText(ctxVal(rec.Ctx, "err"))
		}
		if outcome != "" { // catchupReplay is over and the receive routine not yet started: the state the node comes up with
			line, votes = r.net.NodeLine(tmpNode), voteSummary(st)
		}
		return nil
	}))
	st.SetLogger(lg)
	started := false
	func() {
		defer func() {
			if rv := recover(); rv != nil {
				mtx.Lock()
				defer mtx.Unlock()
				if outcome == "" {
					if strings.Contains(fmt.Sprint(rv), "data has been corrupted") {
						outcome = "panic-corrupt"
					} else {
						outcome = "panic-other"
					}
				}
			}
		}()
		if err := st.Start(); err == nil {
			started = true
		}
	}()
	mtx.Lock()
	if outcome == "" {
		outcome = "none"
	}
	if line == "" {
		line = "h=? "
	}
	want := r.votes[r.base-1]
	if outcome == "done" && j > 0 {
		want = r.votes[r.base+j-1]
	}
	vs := "same"
	if votes != want {
		vs = "differ"
	}
	out := fmt.Sprintf("outcome=%s replayed=%d votes=%s %s", outcome, replayed, vs, line)
	mtx.Unlock()
	if started {
		st.Stop()
		ch := make(chan struct{})
		go func() { st.Wait(); close(ch) }()
		select {
		case <-ch:
		case <-time.After(3 * time.Second):
		}
	}
	return out
}
