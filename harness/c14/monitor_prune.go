package c14

import (
	"fmt"
	"strconv"
	"strings"

	"lvharness/hx"
)

// Monitors of the pruning family, on the implementation's own `disk` / `ginfo` / `search` / `read` answers.
//
//	prune_oldest_only   the files the directory no longer shows are exactly the oldest ones (never the head, never a hole)
//	prune_count         one tick removes at most 4 files, removes one only while the total is >= the limit, and does not
//	                    stop early (fewer than 4 removed, rotated files left, total still >= limit)
//	marker_iff_on_disk  a search finds the marker iff its record lies in a file that still exists
//	restart_no_error    after a restart (minIndex from the directory) no search of a clean log answers an error
func monitorPrune(c *hx.CaseRun, fail func(mon, class, site, msg string)) {
	type rec struct {
		eh   int64
		file int
	}
	var W []rec
	fileIdx := 0
	var lastSizes []string // last disk answer
	var fullSizes = map[int]int64{}
	limit := int64(0)
	restarted := false
	missingPrefix := func(sz []string) (int, bool) {
		n := 0
		for n < len(sz) && sz[n] == "missing" {
			n++
		}
		for _, s := range sz[n:] {
			if s == "missing" {
				return n, false
			}
		}
		return n, true
	}
	gone := 0
	headGone := false
	for i, op := range c.Ops {
		toks := hx.Tokens(op)
		ans := c.Impl[i]
		switch toks[0] {
		case "write":
			W = append(W, rec{argEh(toks), fileIdx})
		case "rotate":
			if ans == "ok" {
				fileIdx++
			}
		case "limits":
			limit, _ = argInt(toks, "total")
		case "crash":
			restarted = true
		case "disk":
			a := hx.Tokens(ans)
			szs, _ := hx.Arg(a, "sizes")
			sz := hx.SplitComma(szs)
			n, ok := missingPrefix(sz)
			if !ok {
				fail("prune_oldest_only", "prune-removed-newer-file", "libs/autofile/group.go:checkTotalSizeLimit", "the directory shows a hole: sizes="+szs)
			}
			hd, _ := hx.Arg(a, "head")
			headGone = hd == "none"
			if headGone && len(sz) <= len(lastSizes) { // (a tick that rotated the head leaves no head until the next flush: one more entry)
				fail("prune_oldest_only", "prune-removed-head", "libs/autofile/group.go:checkTotalSizeLimit", "the head file is gone")
			}
			for j, s := range sz {
				if v, err := strconv.ParseInt(s, 10, 64); err == nil {
					fullSizes[j] = v
				}
			}
			if i > 0 && c.Ops[i-1] == "waittick" && lastSizes != nil {
				before, _ := missingPrefix(lastSizes)
				removed := n - before
				var total int64
				for j := before; j < len(lastSizes); j++ {
					total += fullSizes[j]
				}
				// head size before the tick (a tick may rotate the head first: the total is unchanged by that)
				if hb, ok := lastHead(c, i); ok {
					total += hb
				}
				t := total
				okCount := removed >= 0 && removed <= 4
				for r := 0; okCount && r < removed; r++ {
					if limit == 0 || t < limit {
						okCount = false
					}
					t -= fullSizes[before+r]
				}
				rotatedLeft := len(sz) - n
				if okCount && removed < 4 && rotatedLeft > 0 && limit != 0 && t >= limit {
					okCount = false
				}
				if !okCount {
					fail("prune_count", "prune-count-wrong", "libs/autofile/group.go:checkTotalSizeLimit",
						fmt.Sprintf("one tick with total %d, limit %d removed %d files (sizes before: %v, after: %v)", total, limit, removed, lastSizes, sz))
				}
			}
			lastSizes, gone = sz, n
			if len(sz) == 0 {
				gone = -1 // no rotated file in the directory: which ones existed is not visible here
			}
		case "search":
			if gone < 0 || headGone { // no head file between a rotation and the next flush: every reader fails (the node never reads then)
				continue
			}
			h, _ := argInt(toks, "h")
			expected := false
			for _, r := range W {
				if r.eh == h && r.file >= gone {
					expected = true
				}
			}
			found := strings.HasPrefix(ans, "found")
			if expected != found {
				fail("marker_iff_written", "marker-vs-pruned-files", "consensus/wal.go:SearchForEndHeight",
					fmt.Sprintf("height %d: record in a surviving file = %v (oldest surviving index %d), search answered %s", h, expected, gone, clipS(ans)))
			}
			if restarted && strings.HasPrefix(ans, "err=") {
				fail("restart_no_error", "search-error-after-restart", "consensus/wal.go:SearchForEndHeight",
					fmt.Sprintf("after a restart the search for height %d of a clean log answered %s", h, ans))
			}
		}
	}
}

// head size reported by the disk answer before the waittick that precedes op i
func lastHead(c *hx.CaseRun, i int) (int64, bool) {
	for j := i - 2; j >= 0; j-- {
		if c.Ops[j] == "disk" {
			hd, _ := hx.Arg(hx.Tokens(c.Impl[j]), "head")
			if hd == "none" {
				return 0, true
			}
			n, err := strconv.ParseInt(strings.Split(hd, ":")[0], 10, 64)
			return n, err == nil
		}
	}
	return 0, false
}
