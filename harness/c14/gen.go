package c14

import (
	"bytes"
	"encoding/binary"
	"fmt"
	"hash/crc32"
	"strings"
	"time"

	"github.com/lianxiangcloud/linkchain/consensus"
	"github.com/lianxiangcloud/linkchain/libs/crypto"
	"github.com/lianxiangcloud/linkchain/libs/ser"
	"github.com/lianxiangcloud/linkchain/types"

	"lvharness/hx"
)

// ---- payload construction with the real codec ---------------------------------------------------------

// fix returns the payload of tm if binary encode→decode→encode is a fixpoint
func fix(tm *consensus.TimedWALMessage) ([]byte, bool) {
	b, err := ser.EncodeToBytes(tm)
	if err != nil {
		return nil, false
	}
	var back consensus.TimedWALMessage
	if err := ser.DecodeBytes(b, &back); err != nil {
		return nil, false
	}
	b2, err := ser.EncodeToBytes(&back)
	if err != nil || !bytes.Equal(b, b2) {
		return nil, false
	}
	return b, true
}

func jsonTime(t time.Time) string { return t.UTC().Format("2006-01-02T15:04:05.000Z") }

// viaJSON builds a TimedWALMessage holding one of the package-private payload types (msgInfo, timeoutInfo)
// through the codec's registered-name JSON form.
func viaJSON(t time.Time, typ, valueJSON string) ([]byte, bool) {
	js := fmt.Sprintf(`{"time":"%s","msg":{"type":"%s","value":%s}}`, jsonTime(t), typ, valueJSON)
	var tm consensus.TimedWALMessage
	if err := ser.UnmarshalJSON([]byte(js), &tm); err != nil {
		return nil, false
	}
	return fix(&tm)
}

func msgInfoPayload(t time.Time, cm consensus.ConsensusMessage, peer string) ([]byte, bool) {
	vj, err := ser.MarshalJSON(&cm)
	if err != nil {
		return nil, false
	}
	return viaJSON(t, "consensus/wal/MsgInfo", fmt.Sprintf(`{"msg":%s,"peer_key":"%s"}`, vj, peer))
}

type recGen struct {
	p    []byte
	eh   int64
	kind string
}

func genTime(g *hx.Gen) time.Time {
	return time.Unix(1500000000+int64(g.Rng.Intn(100000000)), int64(g.Rng.Intn(1000))*1000000).UTC()
}

func randBytes(g *hx.Gen, n int) []byte {
	b := make([]byte, n)
	g.Rng.Read(b)
	return b
}

func roundState(t time.Time, h uint64, r int, step string) recGen {
	tm := consensus.TimedWALMessage{Time: t, Msg: types.EventDataRoundState{Height: h, Round: r, Step: step}}
	p, ok := fix(&tm)
	if !ok {
		panic("harness: EventDataRoundState payload is not a codec fixpoint")
	}
	return recGen{p, -1, "roundstate"}
}

func endHeight(t time.Time, h uint64) recGen {
	tm := consensus.TimedWALMessage{Time: t, Msg: consensus.EndHeightMessage{Height: h}}
	p, ok := fix(&tm)
	if !ok {
		panic("harness: EndHeightMessage payload is not a codec fixpoint")
	}
	return recGen{p, int64(h), "endheight"}
}

// genRecord: one non-marker record of a random kind; big > 0 asks for a payload of about that many bytes
func genRecord(g *hx.Gen, h uint64, big int) recGen {
	t := genTime(g)
	steps := []string{"RoundStepNewHeight", "RoundStepPropose", "RoundStepPrevote", "RoundStepPrecommit", "RoundStepCommit"}
	fallback := func(kind string) recGen {
		g.Count("json-fallback:" + kind)
		s := steps[g.Rng.Intn(len(steps))]
		if big > 0 {
			s = strings.Repeat("s", big)
		}
		return roundState(t, h, g.Rng.Intn(3), s)
	}
	if big > 0 {
		// a block part: msgInfo{BlockPartMessage}; constant fill so that the op line stays short (run-length hex)
		part := &types.Part{Index: g.Rng.Intn(4), Bytes: bytes.Repeat([]byte{byte(g.Rng.Intn(256))}, big)}
		if g.Rng.Intn(2) == 0 {
			part.Proof.Aunts = [][]byte{randBytes(g, 32)}
		}
		if p, ok := msgInfoPayload(t, &consensus.BlockPartMessage{Height: h, Round: g.Rng.Intn(3), Part: part}, "peer"); ok {
			return recGen{p, -1, "msginfo-blockpart"}
		}
		return fallback("blockpart")
	}
	switch g.Rng.Intn(7) {
	case 0:
		return roundState(t, h, g.Rng.Intn(3), steps[g.Rng.Intn(len(steps))])
	case 1:
		v := fmt.Sprintf(`{"duration":"%d","height":"%d","round":"%d","step":%d}`, 1000000*int64(1+g.Rng.Intn(3000)), h, g.Rng.Intn(3), 1+g.Rng.Intn(8))
		if p, ok := viaJSON(t, "consensus/wal/TimeoutInfo", v); ok {
			return recGen{p, -1, "timeout"}
		}
		return fallback("timeout")
	case 2, 3:
		vote := &types.Vote{ValidatorAddress: crypto.Address(randBytes(g, 20)), ValidatorIndex: g.Rng.Intn(7), ValidatorSize: 7, Height: h, Round: g.Rng.Intn(3),
			Timestamp: genTime(g), Type: byte(1 + g.Rng.Intn(2))}
		if g.Rng.Intn(3) > 0 {
			vote.BlockID = types.BlockID{PartsHeader: types.PartSetHeader{Total: 1 + g.Rng.Intn(4), Hash: randBytes(g, 20)}}
			copy(vote.BlockID.Hash[:], randBytes(g, 32))
		}
		peer := ""
		if g.Rng.Intn(2) == 0 {
			peer = fmt.Sprintf("peer%d", g.Rng.Intn(9))
		}
		if p, ok := msgInfoPayload(t, &consensus.VoteMessage{Vote: vote}, peer); ok {
			return recGen{p, -1, "msginfo-vote"}
		}
		return fallback("vote")
	case 4:
		prop := &types.Proposal{Height: h, Round: g.Rng.Intn(3), Timestamp: genTime(g), POLRound: -1,
			BlockPartsHeader: types.PartSetHeader{Total: 1 + g.Rng.Intn(4), Hash: randBytes(g, 20)}}
		if p, ok := msgInfoPayload(t, &consensus.ProposalMessage{Proposal: prop}, ""); ok {
			return recGen{p, -1, "msginfo-proposal"}
		}
		return fallback("proposal")
	case 5:
		part := &types.Part{Index: g.Rng.Intn(4), Bytes: randBytes(g, 1+g.Rng.Intn(60))}
		if p, ok := msgInfoPayload(t, &consensus.BlockPartMessage{Height: h, Round: 0, Part: part}, "peer"); ok {
			return recGen{p, -1, "msginfo-blockpart"}
		}
		return fallback("blockpart")
	default:
		if p, ok := msgInfoPayload(t, &consensus.HasVoteMessage{Height: h, Round: g.Rng.Intn(3), Type: 1, Index: g.Rng.Intn(7)}, "peer"); ok {
			return recGen{p, -1, "msginfo-hasvote"}
		}
		return fallback("hasvote")
	}
}

func writeOp(r recGen) string {
	eh := "-"
	if r.eh >= 0 {
		eh = fmt.Sprint(r.eh)
	}
	return fmt.Sprintf("write p=%s eh=%s", Rle(r.p), eh)
}

func frameOf(p []byte) []byte {
	b := make([]byte, 8+len(p))
	binary.BigEndian.PutUint32(b[0:4], crc32.Checksum(p, castagnoli))
	binary.BigEndian.PutUint32(b[4:8], uint32(len(p)))
	copy(b[8:], p)
	return b
}

// classifyPayload asks the real codec (C11's subject, abstract here): emit = usable in the malformed stream,
// decl = it decodes (and re-encodes to itself), so the model must be told it is a valid payload.
// A payload that decodes but re-encodes differently is not used: its identity would not be comparable.
func classifyPayload(p []byte) (emit, decl bool) {
	var tm consensus.TimedWALMessage
	if err := ser.DecodeBytes(p, &tm); err != nil {
		return true, false
	}
	b, err := ser.EncodeToBytes(&tm)
	if err == nil && bytes.Equal(b, p) {
		return true, true
	}
	return false, false
}

func ehOf(p []byte) string {
	var tm consensus.TimedWALMessage
	if err := ser.DecodeBytes(p, &tm); err == nil {
		if m, ok := tm.Msg.(consensus.EndHeightMessage); ok {
			return fmt.Sprint(m.Height)
		}
	}
	return "-"
}

// ---- generators ---------------------------------------------------------------------------------------

// a log under construction, tracked only to aim the generator (offsets of the sweep, heights to search)
type logGen struct {
	g       *hx.Gen
	ops     []string
	h       uint64 // current height
	heights []uint64
	nrec    int
}

func (l *logGen) add(r recGen) {
	l.ops = append(l.ops, writeOp(r))
	l.g.Count("record:" + r.kind)
	l.nrec++
	if r.eh >= 0 {
		l.heights = append(l.heights, uint64(r.eh))
	}
}

func (l *logGen) marker() {
	l.add(endHeight(genTime(l.g), l.h))
	l.h++
}

func (l *logGen) someHeight() uint64 {
	g := l.g
	switch r := g.Rng.Intn(10); {
	case r < 6 && len(l.heights) > 0:
		return l.heights[g.Rng.Intn(len(l.heights))]
	case r < 8:
		return l.h // the next height: not written yet (catchupReplay's sanity search)
	default:
		return l.h + uint64(1+g.Rng.Intn(3))
	}
}

func (P) Generate(g *hx.Gen) {
	genCorpus(g)
	nA := g.Pick(60, 600)
	for k := 0; k < nA; k++ {
		genSweep(g, k)
	}
	nB := g.Pick(400, 4000)
	for k := 0; k < nB; k++ {
		genRandom(g)
	}
	nC := g.Pick(40, 400)
	for k := 0; k < nC; k++ {
		genStraddle(g)
	}
	nE := g.Pick(1, 8)
	for k := 0; k < nE; k++ {
		genLongLived(g, k)
	}
	for k := 0; k < g.Pick(40, 400); k++ {
		genSvc(g)
	}
	for k := 0; k < g.Pick(1, 6); k++ {
		genBoundary(g, k)
	}
	nG := g.Pick(2, 14)
	for k := 0; k < nG; k++ {
		genPrune(g, k)
	}
	for k := 0; k < g.Pick(3, 24); k++ {
		genResume(g, k)
	}
	nF := g.Pick(6, 60)
	for k := 0; k < nF; k++ {
		genCatchup(g, k)
	}
	nD := g.Pick(300, 3000)
	for k := 0; k < nD; k++ {
		genMalformed(g)
	}
}

// corpus: the minimised witnesses of the two known findings + an intact multi-file log
func genCorpus(g *hx.Gen) {
	g.Case("corpus rotate-unflushed-straddle", StraddleWitness(), true)
	g.Case("corpus torn-tail-after-rotation", TornTailWitness(), true)
}

func fixedTime() time.Time { return time.Unix(1600000000, 0).UTC() }

// StraddleWitness: marker 1 (synced) ; a 41000-byte block-part record written without sync (the 40960-byte bufio buffer
// flushes in the middle of it) ; RotateFile ; marker 2 + sync.  Both markers are completely on disk, neither is found.
func StraddleWitness() []string {
	t := fixedTime()
	tm := consensus.TimedWALMessage{Time: t, Msg: types.EventDataRoundState{Height: 2, Round: 0, Step: strings.Repeat("s", 41000)}}
	p, _ := fix(&tm)
	return []string{"case", writeOp(endHeight(t, 1)), "sync", writeOp(roundState(t, 2, 0, "RoundStepNewHeight")), writeOp(recGen{p, -1, "roundstate"}),
		"rotate", writeOp(endHeight(t, 2)), "sync", "disk", "search h=2 ign=1", "search h=1 ign=1", "read idx=0 skip=0"}
}

// TornTailWitness: marker 1 synced ; rotate on the record boundary ; one more record synced ; the head cut in the middle of
// that record (crash during write).  Marker 1 is completely written, SearchForEndHeight answers a non-corruption error.
func TornTailWitness() []string {
	t := fixedTime()
	return []string{"case", writeOp(endHeight(t, 1)), "sync", "rotate", writeOp(roundState(t, 2, 0, "RoundStepNewHeight")), "sync",
		"cut f=1 n=20", "disk", "search h=1 ign=1", "read idx=0 skip=0"}
}

// (A) exhaustive damage sweep over a small synced log
func genSweep(g *hx.Gen, k int) {
	l := &logGen{g: g, h: uint64(g.Rng.Intn(3))}
	l.ops = []string{hx.CaseOp("sweep")}
	nfiles := 1 + g.Rng.Intn(3)
	var fileLens []int
	cur := 0
	nrec := 1 + g.Rng.Intn(g.Pick(5, 7))
	if k == 0 {
		nrec = 1
	}
	perFile := make([]int, nfiles)
	for i := 0; i < nrec; i++ {
		perFile[g.Rng.Intn(nfiles)]++
	}
	for f := 0; f < nfiles; f++ {
		for i := 0; i < perFile[f]; i++ {
			var r recGen
			if g.Rng.Intn(3) == 0 {
				r = endHeight(genTime(g), l.h)
				l.h++
			} else {
				r = genRecord(g, l.h, 0)
			}
			l.add(r)
			cur += 8 + len(r.p)
		}
		l.ops = append(l.ops, "sync")
		fileLens = append(fileLens, cur)
		cur = 0
		if f < nfiles-1 {
			l.ops = append(l.ops, "rotate")
		}
	}
	l.ops = append(l.ops, "disk", "read idx=0 skip=0", "snap")
	for _, h := range l.heights {
		l.ops = append(l.ops, fmt.Sprintf("search h=%d ign=1", h))
	}
	head := nfiles - 1
	total := 0
	for _, n := range fileLens {
		total += n
	}
	g.Count(fmt.Sprintf("sweep-files:%d", nfiles))
	g.Count(fmt.Sprintf("sweep-bytes:%d00+", total/100))
	// every truncation offset of the head (a crash cuts the unsynced tail of the file being written)
	for n := 0; n < fileLens[head]; n++ {
		l.ops = append(l.ops, fmt.Sprintf("cut f=%d n=%d", head, n), "disk", "read idx=0 skip=0",
			fmt.Sprintf("search h=%d ign=%d", l.someHeight(), g.Rng.Intn(2)), "restore")
		g.Count("damage:cut-head")
	}
	// truncation inside older files at a few offsets (media loss; the prefix clause still applies)
	for f := 0; f < head; f++ {
		for j := 0; j < 3 && fileLens[f] > 0; j++ {
			l.ops = append(l.ops, fmt.Sprintf("cut f=%d n=%d", f, g.Rng.Intn(fileLens[f])), "read idx=0 skip=0",
				fmt.Sprintf("search h=%d ign=1", l.someHeight()), "restore")
			g.Count("damage:cut-older")
		}
	}
	// every single-byte corruption at every offset of every file
	masks := []int{0x01, 0x80, 0xff, 0x10, 0x02, 0x40}
	for f := 0; f < nfiles; f++ {
		for off := 0; off < fileLens[f]; off++ {
			nm := 1
			if g.Thorough() {
				nm = 3
			}
			for m := 0; m < nm; m++ {
				x := masks[g.Rng.Intn(len(masks))]
				if g.Rng.Intn(4) == 0 {
					x = 1 + g.Rng.Intn(255)
				}
				l.ops = append(l.ops, fmt.Sprintf("flip f=%d off=%d x=%d", f, off, x), "read idx=0 skip=0")
				switch g.Rng.Intn(3) {
				case 0:
					l.ops = append(l.ops, "read idx=0 skip=1")
				case 1:
					l.ops = append(l.ops, fmt.Sprintf("search h=%d ign=%d", l.someHeight(), g.Rng.Intn(2)))
				}
				l.ops = append(l.ops, "restore")
				g.Count("damage:flip")
			}
		}
	}
	g.Case(fmt.Sprintf("sweep files=%d records=%d bytes=%d", nfiles, nrec, total), l.ops, nrec >= 2)
}

// (B) random op sequences
func genRandom(g *hx.Gen) {
	l := &logGen{g: g, h: uint64(g.Rng.Intn(2))}
	l.ops = []string{hx.CaseOp("random")}
	steps := 6 + g.Rng.Intn(g.Pick(25, 60))
	bigMode := g.Rng.Intn(3) == 0
	interesting := false
	for s := 0; s < steps; s++ {
		switch r := g.Rng.Intn(20); {
		case r < 7:
			big := 0
			if bigMode && g.Rng.Intn(2) == 0 {
				big = []int{3000, 9000, 20000, 40950, 41000, 45000}[g.Rng.Intn(6)]
				g.Count("big-record")
			}
			l.add(genRecord(g, l.h, big))
		case r < 9:
			l.marker()
			if g.Rng.Intn(4) > 0 {
				l.ops = append(l.ops, "sync") // WriteSync, as the node does for its own messages and markers
			}
		case r < 11:
			l.ops = append(l.ops, "sync")
		case r == 11:
			l.ops = append(l.ops, "rotate")
			g.Count("op:rotate")
			interesting = true
		case r == 12:
			l.ops = append(l.ops, fmt.Sprintf("tick limit=%d", []int{0, 1, 100, 1000, 40960, 100000}[g.Rng.Intn(6)]))
			g.Count("op:tick")
		case r == 13:
			l.ops = append(l.ops, "crash")
			g.Count("op:crash")
			interesting = true
		case r < 16:
			l.ops = append(l.ops, "disk", fmt.Sprintf("search h=%d ign=%d", l.someHeight(), g.Rng.Intn(2)))
		case r < 18:
			l.ops = append(l.ops, fmt.Sprintf("read idx=0 skip=%d", g.Rng.Intn(2)))
		case r == 18:
			l.ops = append(l.ops, fmt.Sprintf("read idx=%d skip=0", g.Rng.Intn(3)))
		default:
			l.ops = append(l.ops, "disk")
		}
	}
	l.ops = append(l.ops, "sync", "disk", "read idx=0 skip=0", fmt.Sprintf("search h=%d ign=1", l.someHeight()))
	g.Case(fmt.Sprintf("random steps=%d big=%v", steps, bigMode), l.ops, l.nrec >= 2 && interesting)
}

// (C) rotation while the bufio buffer holds part of a record
func genStraddle(g *hx.Gen) {
	l := &logGen{g: g, h: 1}
	l.ops = []string{hx.CaseOp("straddle")}
	l.marker()
	l.ops = append(l.ops, "sync")
	// un-synced run longer than the buffer
	total := 0
	for total <= 40960+g.Rng.Intn(3000) {
		big := []int{500, 5000, 12000, 30000, 41000}[g.Rng.Intn(5)]
		r := genRecord(g, l.h, big)
		l.add(r)
		total += 8 + len(r.p)
		if g.Rng.Intn(6) == 0 {
			l.add(genRecord(g, l.h, 0))
		}
	}
	if g.Rng.Intn(2) == 0 {
		l.ops = append(l.ops, fmt.Sprintf("tick limit=%d", 1+g.Rng.Intn(40960)))
	} else {
		l.ops = append(l.ops, "rotate")
	}
	if g.Rng.Intn(2) == 0 {
		l.add(genRecord(g, l.h, 0))
	}
	l.marker()
	l.ops = append(l.ops, "sync", "disk")
	for _, h := range []uint64{l.h - 1, l.h - 2, l.h} {
		l.ops = append(l.ops, fmt.Sprintf("search h=%d ign=%d", h, g.Rng.Intn(2)))
	}
	l.ops = append(l.ops, "read idx=0 skip=0", "read idx=1 skip=0", "read idx=1 skip=1")
	g.Case(fmt.Sprintf("straddle unsynced=%d", total), l.ops, true)
}

// (D) malformed stream
func genMalformed(g *hx.Gen) {
	l := &logGen{g: g, h: 1}
	l.ops = []string{hx.CaseOp("malformed")}
	n := 1 + g.Rng.Intn(6)
	for i := 0; i < n; i++ {
		switch g.Rng.Intn(9) {
		case 0:
			l.ops = append(l.ops, "raw b="+hx.Hex(randBytes(g, 1+g.Rng.Intn(40))))
			g.Count("malformed:garbage")
		case 1: // valid framing and checksum over an arbitrary payload; the real codec decides whether it is a message
			p := randBytes(g, 1+g.Rng.Intn(30))
			if emit, decl := classifyPayload(p); emit {
				if decl {
					l.ops = append(l.ops, "decl p="+hx.Hex(p)+" eh=-")
					g.Count("malformed:garbage-payload-decodes")
				}
				l.ops = append(l.ops, "raw b="+hx.Hex(frameOf(p)))
				g.Count("malformed:crc-ok-garbage-payload")
			}
		case 2: // a valid payload with one payload bit changed and the checksum recomputed (passes the CRC, is not what was written)
			r := genRecord(g, l.h, 0)
			p := append([]byte{}, r.p...)
			p[g.Rng.Intn(len(p))] ^= byte(1 << uint(g.Rng.Intn(8)))
			if emit, decl := classifyPayload(p); emit {
				if decl {
					l.ops = append(l.ops, "decl p="+hx.Hex(p)+" eh="+ehOf(p))
					g.Count("malformed:mutated-payload-decodes")
				}
				l.ops = append(l.ops, "raw b="+hx.Hex(frameOf(p)))
				g.Count("malformed:crc-ok-mutated-payload")
			} else {
				g.Count("malformed:skipped-noncanonical")
			}
		case 3: // zero length field
			l.ops = append(l.ops, "raw b=0000000000000000")
			g.Count("malformed:len0")
		case 4: // oversized length field
			b := frameOf(randBytes(g, 5))
			binary.BigEndian.PutUint32(b[4:8], uint32([]int{1048577, 1 << 24, 1<<31 - 1, 0xffffffff}[g.Rng.Intn(4)]))
			l.ops = append(l.ops, "raw b="+hx.Hex(b))
			g.Count("malformed:len-big")
		case 5: // length exactly at / just under the bound, data missing
			b := frameOf(randBytes(g, 5))
			binary.BigEndian.PutUint32(b[4:8], uint32(1048576-g.Rng.Intn(2)))
			l.ops = append(l.ops, "raw b="+hx.Hex(b))
			g.Count("malformed:len-max")
		case 6: // bad checksum
			r := genRecord(g, l.h, 0)
			b := frameOf(r.p)
			b[g.Rng.Intn(4)] ^= 0x55
			l.ops = append(l.ops, "decl p="+hx.Hex(r.p)+" eh=-", "raw b="+hx.Hex(b))
			g.Count("malformed:bad-crc")
		default:
			if g.Rng.Intn(3) == 0 {
				l.marker()
			} else {
				l.add(genRecord(g, l.h, 0))
			}
		}
		if g.Rng.Intn(5) == 0 {
			l.ops = append(l.ops, "sync", "rotate")
		}
	}
	l.ops = append(l.ops, "sync", "disk", "read idx=0 skip=0", "read idx=0 skip=1",
		fmt.Sprintf("search h=%d ign=0", l.someHeight()), fmt.Sprintf("search h=%d ign=1", l.someHeight()))
	g.Case("malformed", l.ops, n >= 2)
}

// (E) a group that has lived long enough for its rotation index to pass 999 (indices only grow: with the default 10 MB head that
// is ~10 GB of WAL over a node's life).  File names then carry four digits; a reopened group must still count, open and
// search them.  ~1000 rotations of a head holding one small record, then markers spread over the files around index 1000, a restart, and the
// searches and reads of a recovering node.
func genLongLived(g *hx.Gen, k int) {
	l := &logGen{g: g, h: 1}
	l.ops = []string{hx.CaseOp("longlived")}
	pre := []int{998, 1000, 997, 999, 1001}[k%5] // with at least 4 files after it, a marker always lies in a rotated file of index >= 1000
	if g.Rng.Intn(2) == 0 {                      // something in the very first file too
		l.marker()
		l.ops = append(l.ops, "sync")
	}
	filler := genRecord(g, l.h, 0) // RotateFile renames the head file: it must exist, so every file gets one small record
	for i := 0; i < pre; i++ {
		l.add(filler)
		l.ops = append(l.ops, "rotate")
	}
	files := 5 + g.Rng.Intn(4)
	for f := 0; f < files; f++ {
		for n := g.Rng.Intn(3); n > 0; n-- {
			l.add(genRecord(g, l.h, 0))
		}
		l.marker()
		if g.Rng.Intn(3) == 0 {
			l.add(genRecord(g, l.h, 0))
		}
		l.ops = append(l.ops, "sync")
		if f < files-1 {
			l.ops = append(l.ops, "rotate")
		}
	}
	if g.Rng.Intn(4) != 0 {
		l.ops = append(l.ops, "crash") // restart: the group is rebuilt from the directory listing
	}
	l.ops = append(l.ops, "disk")
	for _, h := range l.heights {
		l.ops = append(l.ops, fmt.Sprintf("search h=%d ign=%d", h, g.Rng.Intn(2)))
	}
	l.ops = append(l.ops, fmt.Sprintf("search h=%d ign=1", l.h))
	for i := 0; i < 3; i++ {
		l.ops = append(l.ops, fmt.Sprintf("read idx=%d skip=%d", pre-2+g.Rng.Intn(files+2), g.Rng.Intn(2)))
	}
	g.Case(fmt.Sprintf("longlived rotations=%d files-after=%d", pre, files), l.ops, true)
}
