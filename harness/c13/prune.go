package c13

// Pruning clause of C13: a real chain (real LinkApplication + BlockStore + transaction index) and a real consensus status
// database (statuses produced by the real updateStatus and persisted by the real SaveStatus, validator changes at chosen
// heights) are pruned by the two real pruning loops (BlockStore.DeleteHistoricalData, ConsensusState.DeleteHistoricalData),
// interleaved with chain growth; after every step the readable heights of every record family are listed.

import (
	"bytes"
	"errors"
	"fmt"
	"sort"
	"strings"

	"github.com/lianxiangcloud/linkchain/blockchain"
	cs "github.com/lianxiangcloud/linkchain/consensus"
	"github.com/lianxiangcloud/linkchain/libs/common"
	dbm "github.com/lianxiangcloud/linkchain/libs/db"
	"github.com/lianxiangcloud/linkchain/types"

	"lvharness/appsim"
	"lvharness/csim"
	"lvharness/hx"
)

type pruneState struct {
	ce               appsim.ChainExec
	ctl              *appsim.CrashCtl
	sdb              dbm.DB
	status           cs.NewStatus
	pruner           *cs.ConsensusState
	vals             []*types.Validator
	bump             int64
	nonce            int
	txOf             map[uint64]common.Hash
	setHash          map[uint64][]byte // validator-set hash in force from each change height
	crashAt          int
	lastStatusWrites int
}

const pruneBudget = 200000

// notFoundDB gives Load the semantics of the production backend (GoLevelDB.Load returns leveldb.ErrNotFound for a missing
// key; MemDB returns nil, nil — consensus.loadStartDeleteHeight relies on the error).
type notFoundDB struct{ dbm.DB }

func (d notFoundDB) Load(k []byte) ([]byte, error) {
	v, err := d.DB.Load(k)
	if err == nil && v == nil {
		return nil, errors.New("leveldb: not found")
	}
	return v, err
}

func newPrune(seed int64, trie int, dir string) (*pruneState, string) {
	p := &pruneState{ctl: &appsim.CrashCtl{}, txOf: map[uint64]common.Hash{}, setHash: map[uint64][]byte{}}
	p.ce.Wrap = func(name string, db dbm.DB) dbm.DB { return appsim.WrapCrash(name, db, dir, p.ctl) }
	// blocks are stored in many small parts (two dozen per block, measured): part records of different heights must not collide,
	// whatever the digits of height and part index are
	p.ce.PartSize = 23
	if a := p.ce.Exec(fmt.Sprintf("chain trie=%d accts=2 wallets=1 seed=%d", trie, seed)); a != "ok" {
		return nil, a
	}
	pvs := []*csim.PV{csim.NewPV(0), csim.NewPV(1), csim.NewPV(2)}
	sort.Slice(pvs, func(i, j int) bool { return bytes.Compare(pvs[i].GetAddress(), pvs[j].GetAddress()) < 0 })
	gen := &types.GenesisDoc{ChainID: "verif-chain", GenesisTime: "2019-01-01T00:00:00Z"}
	for i, pv := range pvs {
		var cb common.Address
		cb[0], cb[19] = 0xcb, byte(i)
		gen.Validators = append(gen.Validators, types.GenesisValidator{PubKey: pv.GetPubKey(), Power: 10, CoinBase: cb, Name: fmt.Sprintf("v%d", i)})
		p.vals = append(p.vals, &types.Validator{Address: pv.GetAddress(), PubKey: pv.GetPubKey(), CoinBase: cb, VotingPower: 10})
	}
	p.sdb = notFoundDB{appsim.WrapCrash("status", dbm.NewMemDB(), "", p.ctl)}
	st, err := cs.CreateStatusFromGenesisDoc(p.sdb, gen)
	if err != nil {
		return nil, "genesis-status:" + err.Error()
	}
	p.status = st
	p.setHash[1] = st.Validators.Hash()
	p.pruner = cs.VerifPruner(p.sdb)
	return p, "ok"
}

func (p *pruneState) height() uint64 { return p.ce.S.App.Height() }

// grow commits one block per character of chg; '1' = the validator set changes with that block (takes effect at h+1... i.e. is
// recorded as changed at height h+1, exactly what updateStatus does), '0' = unchanged.
func (p *pruneState) grow(chg string) string {
	for _, c := range chg {
		if a := p.ce.Exec(fmt.Sprintf("xfer from=0 to=1 amount=7 nonce=%d", p.nonce)); !strings.Contains(a, "admit=ok") {
			return "grow-admit:" + a
		}
		p.nonce++
		if a := p.ce.Exec("block"); !strings.HasPrefix(a, "h=") {
			return "grow-block:" + a
		}
		h := p.height()
		b := p.ce.S.BS.LoadBlock(h)
		meta := p.ce.S.BS.LoadBlockMeta(h)
		if b == nil || meta == nil {
			return "grow-load"
		}
		if len(b.Data.Txs) > 0 {
			p.txOf[h] = b.Data.Txs[0].Hash()
		}
		var upd []*types.Validator
		if c == '1' {
			p.bump++
			for i, v := range p.vals {
				nv := v.Copy()
				if i == 0 {
					nv.VotingPower = 10 + p.bump
				}
				upd = append(upd, nv)
			}
		}
		st, err := cs.VerifUpdateStatus(p.status, meta.BlockID, b.Header, upd)
		if err != nil {
			return "grow-status:" + err.Error()
		}
		if st.LastHeightValidatorsChanged != p.status.LastHeightValidatorsChanged {
			p.setHash[st.LastHeightValidatorsChanged] = st.Validators.Hash()
		}
		p.status = st
		n0 := p.ctl.N
		if p.crashAt > 0 {
			p.ctl.KillAt = p.ctl.N + p.crashAt
		}
		cs.SaveStatus(p.sdb, st)
		p.ctl.KillAt = 0
		p.lastStatusWrites = p.ctl.N - n0
	}
	return fmt.Sprintf("h=%d", p.height())
}

// statusCrash commits one more block and persists its status with a crash at the k-th durable write of SaveStatus (all
// later writes lost); then reads the status database the way a restarting node does: the persisted status, and the validator
// and parameter records of the height it is about to decide (LastBlockHeight+1).
func (p *pruneState) statusCrash(k int, chg bool) string {
	before := p.status.LastBlockHeight
	// run grow up to (not including) SaveStatus: do it on a copy of the op with the crash armed only around SaveStatus
	c := "0"
	if chg {
		c = "1"
	}
	p.crashAt = k
	ans := p.grow(c)
	p.crashAt = 0
	if !strings.HasPrefix(ans, "h=") {
		return ans
	}
	st, err := cs.LoadStatus(p.sdb)
	if err != nil {
		return "status=unreadable"
	}
	next := st.LastBlockHeight + 1
	res := fmt.Sprintf("status=+%d writes=%d vals=%s params=%s", st.LastBlockHeight-before, p.lastStatusWrites, p.loadVals(next), p.loadParams(next))
	// the surviving process state is discarded: continue from what the database holds, as a restart does
	// the block itself is committed in the block store; a restarting node re-applies it (status lag of one block) and saves again
	cs.SaveStatus(p.sdb, p.status)
	return res
}

func (p *pruneState) prune(k uint64) (ans string) {
	p.ctl.ResetBudget(pruneBudget)
	defer p.ctl.ResetBudget(0)
	defer func() {
		if r := recover(); r != nil {
			if fmt.Sprint(r) == "op-budget" {
				ans = "runaway"
				return
			}
			ans = "panic " + strings.ReplaceAll(fmt.Sprint(r), " ", "_")
		}
	}()
	p.ce.S.BS.DeleteHistoricalData(k)
	p.pruner.Height = p.height() + 1
	p.pruner.DeleteHistoricalData(k)
	return "ok"
}

func bit(b bool) byte {
	if b {
		return '1'
	}
	return '0'
}

// view lists, for heights 1..H (validators and parameters: 1..H+1), what is readable.
func (p *pruneState) view() string {
	H := p.height()
	bs := p.ce.S.BS
	var blocks, commits, seen, txs []byte
	for h := uint64(1); h <= H; h++ {
		blocks = append(blocks, bit(loadBlockOK(bs, h)))
		commits = append(commits, bit(bs.LoadBlockCommit(h-1) != nil || h == 1)) // the commit FOR h-1 travels with block h
		seen = append(seen, bit(bs.LoadSeenCommit(h) != nil))
		ok := false
		if th, has := p.txOf[h]; has {
			tx, _ := bs.GetTx(th)
			ok = tx != nil
		}
		txs = append(txs, bit(ok))
	}
	var vals, params []string
	for h := uint64(1); h <= H+1; h++ {
		vals = append(vals, p.loadVals(h))
		params = append(params, p.loadParams(h))
	}
	return fmt.Sprintf("h=%d blocks=%s commits=%s seen=%s txs=%s vals=%s params=%s", H, blocks, commits, seen, txs, strings.Join(vals, ","), strings.Join(params, ","))
}

func loadBlockOK(bs *blockchain.BlockStore, h uint64) (ok bool) {
	defer func() {
		if recover() != nil {
			ok = false
		}
	}()
	b := bs.LoadBlock(h)
	return b != nil && b.Height == h
}

func (p *pruneState) loadVals(h uint64) (ans string) {
	defer func() {
		if recover() != nil {
			ans = "P"
		}
	}()
	set, changed, err := cs.LoadValidators(p.sdb, h)
	if err != nil {
		return "-"
	}
	if set == nil {
		return "nil"
	}
	if want, ok := p.setHash[changed]; !ok || !bytes.Equal(want, set.Hash()) {
		return fmt.Sprintf("%d!", changed)
	}
	return fmt.Sprint(changed)
}

func (p *pruneState) loadParams(h uint64) (ans string) {
	defer func() {
		if recover() != nil {
			ans = "P"
		}
	}()
	pr, err := cs.LoadConsensusParams(p.sdb, h)
	if err != nil {
		return "-"
	}
	if pr != p.status.ConsensusParams {
		return "x"
	}
	return "1"
}

func (e *exec) pruneOp(toks []string) string {
	switch toks[0] {
	case "pchain":
		p, a := newPrune(hx.ArgI(toks, "seed", 1), int(hx.ArgI(toks, "trie", 1)), e.dir)
		e.pr = p
		return a
	case "grow":
		if e.pr == nil {
			return "nochain"
		}
		chg, _ := hx.Arg(toks, "chg")
		return e.pr.grow(chg)
	case "prune":
		if e.pr == nil {
			return "nochain"
		}
		return e.pr.prune(uint64(hx.ArgI(toks, "k", 0)))
	case "view":
		if e.pr == nil {
			return "nochain"
		}
		return e.pr.view()
	case "statuscrash":
		if e.pr == nil {
			return "nochain"
		}
		return e.pr.statusCrash(int(hx.ArgI(toks, "at", 1)), hx.ArgI(toks, "chg", 0) == 1)
	}
	return "bad-op"
}

// pruneMonitor: after every view, every height of the retention window (the smallest K any prune of the history used) must
// be fully readable; a prune must return.
func pruneMonitor(c *hx.CaseRun) []hx.Failure {
	var fs []hx.Failure
	kmin := int64(-1)
	for i, op := range c.Ops {
		toks := hx.Tokens(op)
		ans := c.Impl[i]
		switch toks[0] {
		case "prune":
			k := hx.ArgI(toks, "k", 0)
			if kmin < 0 || k < kmin {
				kmin = k
			}
			if ans == "runaway" {
				fs = append(fs, hx.Failure{Monitor: "prune_returns", Class: "prune-runaway", Site: "blockchain/store.go:DeleteHistoricalData", Msg: op + ": more than 200000 store operations on a chain of <= 64 blocks"})
			} else if ans != "ok" {
				fs = append(fs, hx.Failure{Monitor: "no_panic", Class: "prune-panic", Site: "DeleteHistoricalData", Msg: op + " -> " + ans})
			}
		case "statuscrash":
			if strings.HasPrefix(ans, "status=") && (!strings.Contains(ans, "vals=") || strings.Contains(ans, "vals=-") || strings.Contains(ans, "vals=P") || strings.Contains(ans, "vals=nil") || !strings.Contains(ans, "params=1")) {
				fs = append(fs, hx.Failure{Monitor: "status_consistent_after_crash", Class: "status-ahead-of-its-records", Site: "consensus/new_status.go:saveStatus",
					Msg: op + " -> " + ans + ": the persisted status names a height whose validator or parameter record was not written"})
			}
		case "view":
			if kmin < 0 || !strings.HasPrefix(ans, "h=") {
				continue
			}
			at := hx.Tokens(ans)
			H := hx.ArgI(at, "h", 0)
			get := func(k string) string { v, _ := hx.Arg(at, k); return v }
			blocks, commits, seen, txs := get("blocks"), get("commits"), get("seen"), get("txs")
			vals, params := strings.Split(get("vals"), ","), strings.Split(get("params"), ",")
			lo := H - kmin + 1
			if lo < 1 {
				lo = 1
			}
			add := func(cls, site string, h int64) {
				fs = append(fs, hx.Failure{Monitor: "prune_keeps_window", Class: cls, Site: site, Msg: fmt.Sprintf("after op %d (K=%d, H=%d): height %d: %s", i, kmin, H, h, ans)})
			}
			for h := lo; h <= H; h++ {
				j := int(h - 1)
				if j < len(blocks) && blocks[j] != '1' {
					add("prune-window-block-missing", "blockchain/store.go:DeleteHistoricalData", h)
				}
				if j < len(commits) && commits[j] != '1' || j < len(seen) && seen[j] != '1' {
					add("prune-window-commit-missing", "blockchain/store.go:deleteBlock", h)
				}
				if j < len(txs) && txs[j] != '1' {
					add("prune-window-tx-missing", "blockchain/store.go:deleteBlock", h)
				}
			}
			for h := lo; h <= H+1; h++ {
				j := int(h - 1)
				if j < len(vals) {
					switch v := vals[j]; {
					case v == "-" || v == "nil":
						add("prune-window-validators-missing", "consensus/state.go:DeleteHistoricalData", h)
					case v == "P":
						add("prune-window-validators-panic", "consensus/state.go:DeleteHistoricalData", h)
					case strings.HasSuffix(v, "!"):
						add("prune-window-validators-wrong", "consensus/new_status.go:LoadValidators", h)
					}
				}
				if j < len(params) && params[j] != "1" {
					add("prune-window-params-missing", "consensus/state.go:DeleteHistoricalData", h)
				}
			}
		}
	}
	return fs
}

// pruneCases: histories of grow / prune / view with validator changes at random heights; K from {0, 1, 2, …, H, H+1, 2H, 1000}.
func pruneCases(g *hx.Gen) {
	n := g.Pick(120, 600)
	for c := 0; c < n; c++ {
		ops := []string{hx.CaseOp(), fmt.Sprintf("pchain seed=%d trie=%d", 1+g.Rng.Intn(1000), g.Rng.Intn(2))}
		H := 0
		var K int
		fixedK := g.Rng.Intn(4) != 0
		steps := 2 + g.Rng.Intn(4)
		kinds := map[string]bool{}
		for s := 0; s < steps; s++ {
			m := 1 + g.Rng.Intn(9)
			chg := make([]byte, m)
			for i := range chg {
				chg[i] = '0'
				if g.Rng.Intn(5) == 0 {
					chg[i] = '1'
				}
			}
			ops = append(ops, "grow chg="+string(chg))
			H += m
			if !fixedK || s == 0 {
				switch r := g.Rng.Intn(10); {
				case r < 5:
					K = g.Rng.Intn(H + 1)
					kinds["k<=h"] = true
				case r == 5:
					K = H + 1 + g.Rng.Intn(3)
					kinds["k>h"] = true
				case r == 6:
					K = 1000
					kinds["k>h"] = true
				case r == 7:
					K = 0
					kinds["k=0"] = true
				default:
					K = 1 + g.Rng.Intn(4)
					kinds["small"] = true
				}
			}
			ops = append(ops, fmt.Sprintf("prune k=%d", K), "view")
			if g.Rng.Intn(2) == 0 { // one more block whose status save is cut at every write in turn (over the cases)
				ops = append(ops, fmt.Sprintf("statuscrash at=%d chg=%d", 1+g.Rng.Intn(6), g.Rng.Intn(2)), "view")
				H++
				g.Count("statuscrash")
			}
			if g.Rng.Intn(3) == 0 {
				ops = append(ops, fmt.Sprintf("prune k=%d", K), "view") // idempotence
			}
		}
		for k := range kinds {
			g.Count("prune:" + k)
		}
		g.Case(fmt.Sprintf("prune history %d", c), ops, H >= 6 && K <= H)
	}
}
