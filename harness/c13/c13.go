// Package c13: committed history survives crashes.  The real application stack commits a block on databases wrapped by a
// write counter; the process "crashes" after every individual durable write of the commit sequence (all later writes are
// lost), the stack is rebuilt from the surviving databases exactly as a restart does (NewLinkApplication on the same DBs,
// kv-mode undo log included), and every store is compared with a clean twin at the height the block store reports.
package c13

import (
	"bytes"
	"fmt"
	"math/big"
	"os"
	"path/filepath"
	"sort"
	"strconv"
	"strings"

	"github.com/lianxiangcloud/linkchain/libs/common"
	lktypes "github.com/lianxiangcloud/linkchain/libs/cryptonote/types"
	dbm "github.com/lianxiangcloud/linkchain/libs/db"
	"github.com/lianxiangcloud/linkchain/types"

	"lvharness/appsim"
	"lvharness/c06"
	"lvharness/hx"
)

type P struct{}

func (P) Rule() string {
	return "each case builds a short chain on the real LinkApplication (trie or kv mode; transfers, token transfers, contract calls, account->confidential, confidential->confidential, confidential->account) and then commits one more block " +
		"with a crash after the k-th durable write (Set/SetSync/Delete/batch commit on any of the seven databases) for EVERY k of that block's commit sequence; after the restart the block store height H' is read and " +
		"world state (balances, token balances, nonces, the storage slots of the genesis test contract), spent key images, confidential output sequence, transaction index, receipts, execution result and balance records are compared with a clean twin at H', and one more block is built and committed; " +
		"non-trivial = the crashed block carries a confidential transaction or a contract call and k lies strictly inside the commit sequence; distinct = distinct (ops, k)"
}

type exec struct {
	main, twin appsim.ChainExec
	ctl        *appsim.CrashCtl
	dir        string
	n          int
	stateAt    map[uint64]string
	utxoAt     map[uint64]string
	txsAt      map[uint64][]common.Hash
	lastWrites int
	pr         *pruneState
}

var caseSeq int
var lastDir string

func (P) NewExec() hx.Executor {
	e := &exec{}
	e.main.Wrap = func(name string, db dbm.DB) dbm.DB { return appsim.WrapCrash(name, db, e.dir, e.ctl) }
	return e
}

// images returns the key images of every output the twin's wallets ever owned (spent or not).
func images(c *appsim.ChainExec) []lktypes.Key {
	var out []lktypes.Key
	for _, w := range c.Wallets {
		for _, o := range w.Outs {
			ephs, err := types.GenerateKeyImage(&w.Key, w.Idx, []*types.UTXOSourceEntry{o.Source()})
			if err == nil && len(ephs) == 1 {
				out = append(out, ephs[0].KeyImage)
			}
		}
	}
	return out
}

func stateDigest(c *appsim.ChainExec, s *appsim.Stack) string {
	st := s.App.GetLatestStateDB()
	var parts []string
	for _, a := range c.Accts {
		parts = append(parts, fmt.Sprintf("%s/%s/%d", appsim.ToUnits(st.GetBalance(a.Addr)), appsim.ToUnits(st.GetTokenBalance(a.Addr, c.Tok)), st.GetNonce(a.Addr)))
	}
	// contract storage of the genesis test contract (slots c, c+1, c+2 for c < 30): the flat mode restores these from its
	// undo log under the contract's prefix, separately from the account records
	for slot := 0; slot < 40; slot++ {
		if v := st.GetState(appsim.ContractAddr, common.BigToHash(big.NewInt(int64(slot)))); len(bytes.TrimLeft(v, "\x00")) > 0 {
			parts = append(parts, fmt.Sprintf("s%d=%x", slot, bytes.TrimLeft(v, "\x00")))
		}
	}
	return strings.Join(parts, ",")
}

func utxoDigest(ref *appsim.ChainExec, s *appsim.Stack, imgs []lktypes.Key) string {
	var sp []string
	for _, k := range imgs {
		k := k
		if s.Utxo.HaveTxKeyimgAsSpent(&k) {
			sp = append(sp, fmt.Sprintf("%x", k[:3]))
		}
	}
	sort.Strings(sp)
	return fmt.Sprintf("seq=%d/%d spent=%s", s.Utxo.GetMaxUtxoOutputSeq(ref.LKC), s.Utxo.GetMaxUtxoOutputSeq(ref.Tok), strings.Join(sp, "+"))
}

func (e *exec) record() {
	h := e.twin.S.App.Height()
	e.stateAt[h] = stateDigest(&e.twin, e.twin.S)
	e.utxoAt[h] = "" // filled lazily in compare (needs the final image list)
	if b := e.main.S.BS.LoadBlock(h); b != nil {
		var hs []common.Hash
		for _, tx := range b.Data.Txs {
			hs = append(hs, tx.Hash())
		}
		e.txsAt[h] = hs
	}
}

func (e *exec) Exec(op string) string {
	toks := hx.Tokens(op)
	switch toks[0] {
	case "case":
		if e.dir != "" {
			os.RemoveAll(e.dir)
		}
		if lastDir != "" {
			os.RemoveAll(lastDir)
		}
		caseSeq++
		e.dir = filepath.Join(".", fmt.Sprintf("c13-%d-%d", os.Getpid(), caseSeq))
		os.MkdirAll(e.dir, 0o755)
		lastDir = e.dir
		e.ctl = &appsim.CrashCtl{}
		e.stateAt, e.utxoAt, e.txsAt = map[uint64]string{}, map[uint64]string{}, map[uint64][]common.Hash{}
		if e.pr != nil && e.pr.ce.S != nil {
			e.pr.ce.Exec("case")
		}
		e.pr = nil
		e.twin.Exec(op)
		return e.main.Exec(op)
	case "crashblock":
		return e.crashBlock(toks)
	case "pchain", "grow", "prune", "view", "statuscrash":
		return e.pruneOp(toks)
	case "writes":
		return fmt.Sprintf("writes=%d", e.lastWrites)
	case "blockinfo":
		// what the next block will carry: transactions, confidential inputs (key images), confidential outputs
		if e.main.S == nil {
			return "nochain"
		}
		txs, spends, outs := 0, 0, 0
		for _, tx := range e.main.S.Simple.Txs {
			txs++
			if u, ok := tx.(*types.UTXOTransaction); ok {
				for _, in := range u.Inputs {
					if _, ok := in.(*types.UTXOInput); ok {
						spends++
					}
				}
				for _, o := range u.Outputs {
					if _, ok := o.(*types.UTXOOutput); ok {
						outs++
					}
				}
			}
		}
		return fmt.Sprintf("txs=%d spends=%d outs=%d", txs, spends, outs)
	case "writelog":
		lo := len(e.ctl.Log) - e.lastWrites
		if lo < 0 {
			lo = 0
		}
		return "seq=" + strings.Join(e.ctl.Log[lo:], ",")
	}
	a := e.twin.Exec(op)
	before := 0
	if e.ctl != nil {
		before = e.ctl.N
	}
	b := e.main.Exec(op)
	if toks[0] == "chain" && e.twin.S != nil {
		e.record()
	}
	if toks[0] == "block" {
		e.lastWrites = e.ctl.N - before
		e.record()
	}
	if a != b {
		return "twin-differs main:" + b + " twin:" + a
	}
	return b
}

// utxoTwinAt recomputes the twin's utxo digest as of height h by replaying which images the twin's blocks ≤ h spent.
func (e *exec) expectUtxoAt(h uint64, crashed types.Txs, hCrashed uint64, bs *appsim.Stack) (spent map[lktypes.Key]bool, seqL, seqT int64) {
	spent = map[lktypes.Key]bool{}
	seqL, seqT = -1, -1
	for hh := uint64(1); hh <= h; hh++ {
		var txs types.Txs
		if hh == hCrashed {
			txs = crashed
		} else if b := bs.BS.LoadBlock(hh); b != nil {
			txs = b.Data.Txs
		}
		for _, tx := range txs {
			u, ok := tx.(*types.UTXOTransaction)
			if !ok {
				continue
			}
			for _, in := range u.Inputs {
				if ui, ok := in.(*types.UTXOInput); ok {
					spent[ui.KeyImage] = true
				}
			}
			for _, o := range u.Outputs {
				if _, ok := o.(*types.UTXOOutput); ok {
					if u.TokenID == e.twin.LKC {
						seqL++
					} else {
						seqT++
					}
				}
			}
		}
	}
	return
}

func (e *exec) crashBlock(toks []string) string {
	k, _ := strconv.Atoi(strings.TrimPrefix(toks[1], "at="))
	if e.main.S == nil {
		return "nochain"
	}
	hBefore := e.main.S.App.Height()
	// the twin commits the block cleanly
	e.twin.Exec("block")
	e.record()
	// what the block under test contains, as the main stack will build it (its own transaction objects)
	pend := append(types.Txs{}, e.main.S.Simple.Txs...)
	var imgs []lktypes.Key
	imgs = append(imgs, images(&e.main)...)
	var phs []common.Hash
	for _, tx := range pend {
		phs = append(phs, tx.Hash())
	}
	e.txsAt[hBefore+1] = phs
	// the main stack commits it with a crash at the k-th write
	start := e.ctl.N
	e.ctl.KillAt = start + k
	hx.SafeExec(execRef{&e.main}, "block")
	total := e.ctl.N - start
	crashed := e.ctl.Dead()
	acked := !crashed
	// crash: discard the process, keep the databases
	dbs := e.main.S.DBs
	opts := e.main.S.Opts
	e.main.S.Close()
	e.ctl.KillAt = 0
	opts.DBs = dbs
	var s *appsim.Stack
	var rerr error
	func() {
		defer func() {
			if r := recover(); r != nil {
				rerr = fmt.Errorf("panic: %v", r)
			}
		}()
		s, rerr = appsim.NewStack(opts)
	}()
	if rerr != nil || s == nil {
		return fmt.Sprintf("crashed=%v restart=fail:%s", crashed, strings.ReplaceAll(fmt.Sprint(rerr), " ", "_"))
	}
	e.main.S = s
	h := s.App.Height()
	var why []string
	if h != hBefore && h != hBefore+1 {
		why = append(why, fmt.Sprintf("height-%d-not-in-{%d,%d}", h, hBefore, hBefore+1))
	}
	if acked && h != hBefore+1 {
		why = append(why, "acknowledged-block-lost")
	}
	// world state
	if want, ok := e.stateAt[h]; ok && stateDigest(&e.twin, s) != want {
		why = append(why, "world-state-differs")
	}
	// block store records
	if s.BS.LoadBlock(h) == nil || s.BS.LoadBlockMeta(h) == nil || (h > 0 && s.BS.LoadSeenCommit(h) == nil) {
		why = append(why, "block-record-missing")
	}
	if r, err := s.BS.LoadTxsResult(h); err != nil || r == nil {
		why = append(why, "txsresult-missing")
	}
	if len(e.txsAt[h]) > 0 && s.BS.GetReceipts(h) == nil {
		why = append(why, "receipts-missing")
	}
	// transaction index
	for hh, hs := range e.txsAt {
		for _, txh := range hs {
			tx, _ := s.BS.GetTx(txh)
			if hh <= h && tx == nil {
				why = append(why, "tx-index-behind")
			}
			if hh > h && tx != nil {
				why = append(why, "tx-index-ahead")
			}
		}
	}
	// confidential stores
	spent, seqL, seqT := e.expectUtxoAt(h, pend, hBefore+1, s)
	behind, ahead := false, false
	for _, img := range imgs {
		img := img
		got := s.Utxo.HaveTxKeyimgAsSpent(&img)
		if spent[img] && !got {
			behind = true
		}
		if !spent[img] && got {
			ahead = true
		}
	}
	if l, t := s.Utxo.GetMaxUtxoOutputSeq(e.twin.LKC), s.Utxo.GetMaxUtxoOutputSeq(e.twin.Tok); l != seqL || t != seqT {
		if l < seqL || t < seqT {
			behind = true
		} else {
			ahead = true
		}
	}
	if behind {
		why = append(why, "utxo-store-behind-block-store")
	}
	if ahead {
		why = append(why, "utxo-store-ahead-of-block-store")
	}
	// consequence of a confidential store that lags behind the block store: the inputs the committed block spent are spendable again
	if behind && h == hBefore+1 {
		re := 0
		for _, tx := range pend {
			if u, ok := tx.(*types.UTXOTransaction); ok && (u.UTXOKind()&types.Uin) == types.Uin {
				if err := s.Admit(tx); err == nil {
					re++
				}
			}
		}
		if re > 0 {
			if ans := hx.SafeExec(execRef{&e.main}, "block"); strings.HasPrefix(ans, "h=") && !strings.HasSuffix(strings.Fields(ans)[1], "txs=") {
				why = append(why, "committed-spend-committed-again-after-restart")
			}
		}
	}
	// the node must be able to go on
	next := hx.SafeExec(execRef{&e.main}, "block")
	if !strings.HasPrefix(next, "h=") {
		why = append(why, "cannot-continue:"+strings.Fields(next)[0])
	}
	sort.Strings(why)
	why = uniq(why)
	res := "consistent=true"
	if len(why) > 0 {
		res = "consistent=false why=" + strings.Join(why, ";")
	}
	return fmt.Sprintf("%s h=%d+%d", res, hBefore, h-hBefore) + fmt.Sprintf(" k=%d/%d", k, total)
}

func uniq(xs []string) []string {
	var out []string
	for i, x := range xs {
		if i == 0 || x != xs[i-1] {
			out = append(out, x)
		}
	}
	return out
}

type execRef struct{ c *appsim.ChainExec }

func (e execRef) Exec(op string) string { return e.c.Exec(op) }

func (P) Monitor(c *hx.CaseRun) []hx.Failure {
	fs := pruneMonitor(c)
	for i, op := range c.Ops {
		ans := c.Impl[i]
		if strings.HasPrefix(op, "crashblock") {
			if strings.Contains(ans, "restart=fail") {
				fs = append(fs, hx.Failure{Monitor: "restart_possible", Class: "restart-fails", Site: "app/app.go:NewLinkApplication", Msg: op + " -> " + ans})
			}
			if strings.Contains(ans, "consistent=false") {
				why, _ := hx.Arg(hx.Tokens(ans), "why")
				for _, w := range strings.Split(why, ";") {
					cls := w
					if j := strings.Index(cls, ":"); j > 0 {
						cls = cls[:j]
					}
					if strings.HasPrefix(cls, "height-") {
						cls = "height-jump"
					}
					fs = append(fs, hx.Failure{Monitor: "stores_consistent_after_crash", Class: cls, Site: "app/app.go:CommitBlock", Msg: op + " -> " + ans})
				}
			}
		}
		if strings.HasPrefix(ans, "twin-differs") {
			fs = append(fs, hx.Failure{Monitor: "twin_agrees", Class: "twin-differs", Site: "harness", Msg: op + " -> " + ans})
		}
	}
	return fs
}

func (P) Generate(g *hx.Gen) {
	pruneCases(g)
	chains := g.Pick(14, 60)
	for k := 0; k < chains; k++ {
		trie := k % 2
		ops := []string{hx.CaseOp(), fmt.Sprintf("chain trie=%d accts=3 wallets=2 seed=%d code=1", trie, 1+g.Rng.Intn(1000))}
		nonce := []int{0, 0, 0}
		// two funding blocks, then the block under test
		ops = append(ops, fmt.Sprintf("ain from=0 w=0 amount=%d nonce=0", 30000000000+g.Rng.Intn(1000)*10000), "xfer from=1 to=2 amount=77 nonce=0", "block")
		nonce[0], nonce[1] = 1, 1
		ops = append(ops, fmt.Sprintf("uu w=0 in=0 to=1 amount=%d", 10000000000+g.Rng.Intn(1000000)), fmt.Sprintf("call from=2 c=%d nonce=0", g.Rng.Intn(30)), "block")
		nonce[2] = 1
		// the crashed block
		rich := false
		switch g.Rng.Intn(4) {
		case 0:
			ops = append(ops, "ua w=1 in=0 to=2 amount=5000", fmt.Sprintf("xfer from=0 to=1 amount=9 nonce=%d", nonce[0]))
			rich = true
		case 1:
			ops = append(ops, fmt.Sprintf("ain from=1 w=1 amount=%d nonce=%d", 25000000000+g.Rng.Intn(100)*10000, nonce[1]), "uu w=0 in=1 to=1 amount=12345")
			rich = true
		case 2:
			ops = append(ops, fmt.Sprintf("call from=0 c=%d nonce=%d", g.Rng.Intn(30), nonce[0]), fmt.Sprintf("xfertok from=1 to=0 amount=3 nonce=%d", nonce[1]))
			rich = true
		default:
			ops = append(ops, fmt.Sprintf("xfer from=0 to=2 amount=11 nonce=%d", nonce[0]))
		}
		// calibrate: how many durable writes does committing this block take?
		ex := P{}.NewExec().(*exec)
		for _, op := range ops {
			hx.SafeExec(ex, op)
		}
		info := hx.SafeExec(ex, "blockinfo")
		hx.SafeExec(ex, "block")
		w := ex.lastWrites
		seq := strings.TrimPrefix(hx.SafeExec(ex, "writelog"), "seq=")
		hx.SafeExec(ex, "case")
		os.RemoveAll(ex.dir)
		g.Count(fmt.Sprintf("writes-per-commit:%d", w))
		step := 1
		if !g.Thorough() && w > 14 {
			step = w / 14
		}
		for at := 1; at <= w+1; at += step {
			cops := append(append([]string{}, ops...), fmt.Sprintf("crashblock at=%d %s seq=%s", at, info, seq))
			g.Count(fmt.Sprintf("mode:trie=%d", trie))
			g.Case(fmt.Sprintf("crash trie=%d at=%d/%d", trie, at, w), cops, rich && at > 1 && at <= w)
		}
	}
}

var _ = c06.Inflation
