package c12

// Coverage-guided widening: the exported API around block identity and part sets that the first streams never
// entered (reflection sweep over EVERY header field, CopyHeader/Head/NewBlock/MakeBlock/HashesTo/Size, nil receivers,
// Commit accessors and Commit.ValidateBasic rejections, BlockID.Equals/Key, PartSet.HasHeader/HashesTo, the
// PartSetReader with arbitrary buffer sizes and empty parts, Txs.IndexByHash and TxProof.Validate, evidence
// Equal/Has, SimpleHashFromMap/SimpleProofsFromMap, and store-level reassembly through blockchain.BlockStore).

import (
	"bytes"
	"fmt"
	"io"
	"io/ioutil"
	"math"
	"math/big"
	"reflect"
	"sort"
	"strconv"
	"strings"

	"github.com/lianxiangcloud/linkchain/blockchain"
	"github.com/lianxiangcloud/linkchain/libs/common"
	"github.com/lianxiangcloud/linkchain/libs/crypto"
	"github.com/lianxiangcloud/linkchain/libs/crypto/merkle"
	dbm "github.com/lianxiangcloud/linkchain/libs/db"
	"github.com/lianxiangcloud/linkchain/libs/ser"
	"github.com/lianxiangcloud/linkchain/types"

	"lvharness/hx"
)

// gateInPlaceAlias: CopyHeader copies the struct, so LastBlockID.PartsHeader.Hash (a byte slice) shares its backing
// array with the original; writing THROUGH the copy's slice changes the original's hash.  Proposed fix in
// /verif/proposed/C12-copyheader-shares-parts-hash.md; the in-place write is generated only when this is true.
const gateInPlaceAlias = false

type wideState struct {
	bs     *blockchain.BlockStore
	saved  map[uint64][][]byte // the harness's own copy of every saved part (ground truth, independent of the store)
	custom *types.PartSet      // part set built from explicit chunks (empty chunks allowed)
}

// ---- id pools (variants) ---------------------------------------------------------------------------------

// v<k> precommit h=4 r=0; p<k> the same vote as a PREVOTE; h<k> height 5; r<k> round 1
func mkVoteID(id string) *types.Vote {
	v := mkVote(idNum(id))
	switch id[0] {
	case 'p':
		v.Type = types.VoteTypePrevote
	case 'h':
		v.Height = 5
	case 'r':
		v.Round = 1
	}
	return v
}

// t<k> plain transaction; k<k> a TOKEN transaction with the same numeric parameters (another registered type); c<k> a contract-upgrade transaction
func mkTxID(id string) types.Tx {
	k := idNum(id)
	if id[0] == 'k' {
		var to, tok common.Address
		to[0], to[19], tok[0], tok[5] = byte(k), byte(k>>8), 0x70, byte(k)
		return types.NewTokenTransaction(tok, uint64(k), to, big.NewInt(int64(k)*7+1), 21000+uint64(k), big.NewInt(1), []byte(fmt.Sprintf("payload-%d", k)))
	}
	if id[0] == 'c' { // ContractUpgradeTx: hashed through types.transactionHash like the multisign and UTXO kinds
		var from, to common.Address
		from[0], to[0], to[19] = 0xc0, byte(k), byte(k>>8)
		return &types.ContractUpgradeTx{ContractUpgradeMainInfo: types.ContractUpgradeMainInfo{FromAddr: from, Recipient: to, AccountNonce: uint64(k), Payload: []byte(fmt.Sprintf("payload-%d", k))}}
	}
	return mkTx(k)
}

// e<k> DuplicateVoteEvidence; f<k> FaultValidatorsEvidence (height 7 or 8)
func mkEvID(id string) types.Evidence {
	k := idNum(id)
	if id[0] == 'f' {
		var a, b crypto.PubKeyEd25519
		a[0], a[1], b[0], b[1], b[2] = byte(k), byte(k>>8), byte(k), byte(k>>8), 1
		return &types.FaultValidatorsEvidence{BlockHeight: uint64(7 + k%2), Round: k % 2, Proposer: a, FaultVal: b}
	}
	return mkEv(k)
}

// ---- reflection over types.Header ------------------------------------------------------------------------

type hleaf struct {
	name string
	path []int
	kind string // "set" (reassignable), "unexported", "unknown"
}

func headerLeaves() []hleaf {
	var out []hleaf
	var walk func(t reflect.Type, name string, path []int)
	walk = func(t reflect.Type, name string, path []int) {
		for i := 0; i < t.NumField(); i++ {
			f := t.Field(i)
			n := f.Name
			if name != "" {
				n = name + "." + f.Name
			}
			p := append(append([]int{}, path...), i)
			if f.PkgPath != "" {
				out = append(out, hleaf{n, p, "unexported"})
				continue
			}
			switch f.Type.Kind() {
			case reflect.Struct:
				walk(f.Type, n, p)
			case reflect.String, reflect.Uint, reflect.Uint8, reflect.Uint16, reflect.Uint32, reflect.Uint64, reflect.Int, reflect.Int8, reflect.Int16, reflect.Int32, reflect.Int64:
				out = append(out, hleaf{n, p, "set"})
			case reflect.Array, reflect.Slice:
				if f.Type.Elem().Kind() == reflect.Uint8 {
					out = append(out, hleaf{n, p, "set"})
				} else {
					out = append(out, hleaf{n, p, "unknown"})
				}
			default:
				out = append(out, hleaf{n, p, "unknown"})
			}
		}
	}
	walk(reflect.TypeOf(types.Header{}), "", nil)
	return out
}

// mutate changes exactly the leaf (a new value is ASSIGNED; inPlace writes through an existing slice instead)
func mutateLeaf(h *types.Header, l hleaf, inPlace bool) bool {
	if l.kind == "unexported" {
		if l.name == "bloom" {
			b := h.Bloom()
			b[0] ^= 1
			h.SetBloom(b)
			return true
		}
		return false
	}
	if l.kind != "set" {
		return false
	}
	v := reflect.ValueOf(h).Elem().FieldByIndex(l.path)
	switch v.Kind() {
	case reflect.String:
		v.SetString(v.String() + "x")
	case reflect.Uint, reflect.Uint8, reflect.Uint16, reflect.Uint32, reflect.Uint64:
		v.SetUint(v.Uint() + 1)
	case reflect.Int, reflect.Int8, reflect.Int16, reflect.Int32, reflect.Int64:
		v.SetInt(v.Int() + 1)
	case reflect.Array:
		e := v.Index(0)
		e.SetUint(e.Uint() ^ 1)
	case reflect.Slice:
		if inPlace {
			if v.Len() == 0 {
				return false
			}
			e := v.Index(0)
			e.SetUint(e.Uint() ^ 1)
		} else {
			nb := append(append([]byte{}, v.Bytes()...), 1)
			v.SetBytes(nb)
		}
	}
	return true
}

func b01(b bool) string {
	if b {
		return "1"
	}
	return "0"
}

// ---- part-set reader -------------------------------------------------------------------------------------

func readSeq(ps *types.PartSet, sizes []string) string {
	r := ps.GetReader()
	var out []string
	var data []byte
	for _, s := range sizes {
		n, _ := strconv.Atoi(s)
		buf := make([]byte, n)
		k, err := r.Read(buf)
		st := "ok"
		if err == io.EOF {
			st = "eof"
		} else if err != nil {
			st = "err"
		}
		out = append(out, fmt.Sprintf("%d:%s", k, st))
		data = append(data, buf[:k]...)
	}
	return fmt.Sprintf("reads=%s data=%s", joinIDs(out), hx.Hex(data))
}

type partHasher struct{ p *types.Part }

func (h partHasher) Hash() []byte { return h.p.Hash() }

type txHasher struct{ tx types.Tx }

func (h txHasher) Hash() []byte { x := h.tx.Hash(); return x[:] }

func errClass(err error) string {
	if err == nil {
		return "ok"
	}
	m := err.Error()
	switch {
	case strings.Contains(m, "different data hash"):
		return "roothash"
	case strings.Contains(m, "cannot be negative"):
		return "negidx"
	case strings.Contains(m, "must be positive"):
		return "total"
	case strings.Contains(m, "internally consistent"):
		return "inconsistent"
	case strings.Contains(m, "nil block"):
		return "nilblock"
	case strings.Contains(m, "No precommits"):
		return "noprecommits"
	case strings.Contains(m, "Expected precommit"):
		return "type"
	case strings.Contains(m, "precommit height"):
		return "height"
	case strings.Contains(m, "precommit round"):
		return "round"
	}
	return "other"
}

func (e *exec) execWide(toks []string) string {
	arg := func(k string) string { v, _ := hx.Arg(toks, k); return v }
	w := &e.wide
	switch toks[0] {
	case "hdrsweep":
		base, size := blockOf(toks)
		bh, bp := base.Hash(), base.MakePartSet(size).Header()
		var out []string
		for _, l := range headerLeaves() {
			b, _ := blockOf(toks)
			if !mutateLeaf(b.Header, l, false) {
				out = append(out, l.name+":??")
				continue
			}
			out = append(out, l.name+":"+b01(b.Hash() != bh)+b01(!b.MakePartSet(size).Header().Equals(bp)))
		}
		return "sweep=" + strings.Join(out, ",")
	case "copyhdr":
		base, _ := blockOf(toks)
		orig := base.Header
		want := orig.Hash()
		var alias []string
		for _, l := range headerLeaves() {
			for _, inPlace := range []bool{false, true} {
				if inPlace && !gateInPlaceAlias {
					continue
				}
				cp := types.CopyHeader(orig)
				if cp.Hash() != want {
					alias = append(alias, l.name+":copy-differs")
				}
				mutateLeaf(cp, l, inPlace)
				if orig.Hash() != want || (l.name == "bloom" && orig.Bloom() != base.Header.Bloom()) {
					alias = append(alias, l.name)
					b2, _ := blockOf(toks)
					orig = b2.Header
				}
			}
		}
		head := base.Head()
		nb := types.NewBlock(orig)
		res := "deep"
		if len(alias) > 0 {
			res = "alias:" + strings.Join(alias, "+")
		}
		return fmt.Sprintf("copy=%s head=%v newblock=%v newblockhash=%s", res, head.Hash() == want && head != base.Header,
			nb.Header.Hash() == want && nb.Header != orig, hx.Hex(hashBytes(nb.Hash())))
	case "blockapi":
		b, size := blockOf(toks)
		mk := types.MakeBlock(b.Height, b.Data.Txs, b.LastCommit)
		mkOK := mk.Height == b.Height && mk.NumTxs == uint64(len(b.Data.Txs)) && mk.LastCommit == b.LastCommit && len(mk.Data.Txs) == len(b.Data.Txs)
		hdr := *b.Header
		mk.Header = &hdr
		mk.AddEvidence(b.Evidence.Evidence)
		h := b.Hash()
		same := mk.Hash() == h && mk.MakePartSet(size).Header().Equals(b.MakePartSet(size).Header())
		bz, _ := ioutil.ReadAll(b.MakePartSet(size).GetReader())
		other := h
		other[3] ^= 4
		var nilb *types.Block
		nilOK := nilb.Hash() == (common.Hash{}) && nilb.MakePartSet(size) == nil && !nilb.HashesTo(h[:]) && nilb.ValidateBasic() != nil
		nilb.AddEvidence(nil)
		var nilh *types.Header
		var nild *types.Data
		nilOK = nilOK && nilh.Hash() == (common.Hash{}) && nild.Hash() == (common.Hash{})
		hh := b.Header
		getters := b.GasLimit() == hh.GasLimit && b.GasUsed() == hh.GasUsed && b.Time() == hh.Time && b.HeightU64() == hh.Height && b.HeightBigInt().Uint64() == hh.Height &&
			b.Coinbase() == hh.Coinbase && b.Statehash() == hh.StateHash && b.Parenthash() == hh.ParentHash && b.TxHash() == hh.DataHash && b.Receipthash() == hh.ReceiptHash && b.Bloom() == hh.Bloom()
		part := func(f func(*types.Block)) bool {
			x, _ := blockOf(toks)
			f(x)
			return x.Hash() == (common.Hash{})
		}
		partial := part(func(x *types.Block) { x.Header = nil }) && part(func(x *types.Block) { x.Data = nil }) && part(func(x *types.Block) { x.LastCommit = nil })
		// the cached hash: Hash() after a header write returns the hash computed before it
		c, _ := blockOf(toks)
		c.Hash()
		c.Header.GasUsed++
		stale := c.Hash() == h
		return fmt.Sprintf("make=%v same=%v hashesto=%v,%v,%v,%v sizeok=%v nil=%v partial=%v getters=%v cachedstale=%v", mkOK, same,
			b.HashesTo(h[:]), b.HashesTo(nil), b.HashesTo([]byte{}), b.HashesTo(other[:]), b.Size() == len(bz), nilOK, partial, getters, stale)
	case "commitapi":
		cb := 0
		if v := arg("cbid"); v != "zero" {
			cb = idNum(v)
		}
		c := &types.Commit{BlockID: mkBlockID(cb), Precommits: votesOf(hx.SplitComma(arg("ids")))}
		first := "none"
		if fp := c.FirstPrecommit(); fp != nil {
			first = "empty"
			for i, v := range c.Precommits {
				if v == fp {
					first = strconv.Itoa(i)
				}
			}
		}
		ba := c.BitArray()
		bits := ""
		for i := 0; i < c.Size(); i++ {
			bits += b01(ba.GetIndex(i))
		}
		if bits == "" {
			bits = "-"
		}
		var byIdx []string
		for i := 0; i < c.Size(); i++ {
			byIdx = append(byIdx, b01(c.GetByIndex(i) == c.Precommits[i]))
		}
		var nilc *types.Commit
		return fmt.Sprintf("size=%d iscommit=%v bits=%s height=%d round=%d type=%d first=%s valid=%s byindex=%s nilsize=%d nilhash=%s",
			c.Size(), c.IsCommit(), bits, c.Height(), c.Round(), c.Type(), first, errClass(c.ValidateBasic()), joinIDs(byIdx), nilc.Size(), hx.Hex(hashBytes(nilc.Hash())))
	case "bideq":
		a, b := parseBlockID(arg("a")), parseBlockID(arg("b"))
		return fmt.Sprintf("equals=%v zeroa=%v keyeq=%v", a.Equals(b), a.IsZero(), a.Key() == b.Key())
	case "psq":
		var ps *types.PartSet
		switch arg("which") {
		case "ps":
			ps = e.ps
		case "src":
			ps = e.src
		case "custom":
			ps = w.custom
		}
		if ps == nil && arg("which") != "nil" {
			return "dead"
		}
		h := parseHdr(arg("hdr"))
		return fmt.Sprintf("header=%d:%s hash=%s count=%d total=%d hasheader=%v hashesto=%v", ps.Header().Total, hx.Hex(ps.Header().Hash), hx.Hex(ps.Hash()),
			ps.Count(), ps.Total(), ps.HasHeader(h), ps.HashesTo(h.Hash))
	case "fromchunks":
		// a proposer that cuts its bytes at arbitrary places (empty parts included); the receiver admits the parts in order
		w.custom = nil
		data := hx.UnHex(arg("data"))
		var parts []*types.Part
		var hs []merkle.Hasher
		off := 0
		for i, s := range hx.SplitComma(arg("sizes")) {
			n, _ := strconv.Atoi(s)
			p := &types.Part{Index: i, Bytes: append([]byte{}, data[off:off+n]...)}
			off += n
			parts = append(parts, p)
			hs = append(hs, partHasher{p})
		}
		root, proofs := merkle.SimpleProofsFromHashers(hs)
		ps := types.NewPartSetFromHeader(types.PartSetHeader{Total: len(parts), Hash: root})
		for i, p := range parts {
			p.Proof = *proofs[i]
			if added, err := ps.AddPart(p); !added || err != nil {
				return fmt.Sprintf("rejected=%d", i)
			}
		}
		w.custom = ps
		return fmt.Sprintf("total=%d hash=%s complete=%v", ps.Total(), hx.Hex(ps.Hash()), ps.IsComplete())
	case "readseq":
		var ps *types.PartSet
		switch arg("which") {
		case "ps":
			ps = e.ps
		case "src":
			ps = e.src
		case "custom":
			ps = w.custom
		}
		if ps == nil {
			return "dead"
		}
		return readSeq(ps, hx.SplitComma(arg("sizes")))
	case "txidx":
		txs := txsOf(hx.SplitComma(arg("ids")))
		return fmt.Sprintf("index=%d", txs.IndexByHash(mkTxID(arg("find")).Hash()))
	case "txproof":
		txs := txsOf(hx.SplitComma(arg("ids")))
		hs := make([]merkle.Hasher, len(txs))
		for i, tx := range txs {
			hs[i] = txHasher{tx}
		}
		root, proofs := merkle.SimpleProofsFromHashers(hs)
		i, _ := strconv.Atoi(arg("i"))
		idx, _ := strconv.ParseInt(arg("idx"), 10, 64)
		total, _ := strconv.ParseInt(arg("total"), 10, 64)
		tp := types.TxProof{Index: int(idx), Total: int(total), RootHash: common.BytesToHash(hx.UnHex(arg("root"))), Data: mkTx(idNum(arg("leaf"))), Proof: *proofs[i]}
		lh := tp.LeafHash()
		return fmt.Sprintf("valid=%s rooteq=%v leaf=%s", errClass(tp.Validate(common.BytesToHash(hx.UnHex(arg("dh"))))), txs.Hash() == common.BytesToHash(root), hx.Hex(lh[:]))
	case "evapi":
		a, b := mkEvID(arg("a")), mkEvID(arg("b"))
		list := evsOf(hx.SplitComma(arg("list")))
		return fmt.Sprintf("equal=%v has=%v height=%d addrlen=%d hasheq=%v", a.Equal(b), list.Has(a), a.Height(), len(a.Address()), bytes.Equal(a.Hash(), b.Hash()))
	case "maproot":
		keys, vals := unHexList(arg("keys")), unHexList(arg("vals"))
		m := map[string]merkle.Hasher{}
		for i, k := range keys {
			m[string(k)] = bytesHasher(vals[i])
		}
		root := merkle.SimpleHashFromMap(m)
		root2, proofs, sorted := merkle.SimpleProofsFromMap(m)
		var sk [][]byte
		ok := sort.StringsAreSorted(sorted) && len(sorted) == len(m)
		for i, k := range sorted {
			sk = append(sk, []byte(k))
			leaf := merkle.KVPair{Key: []byte(k), Value: m[k].Hash()}.Hash()
			if !proofs[k].Verify(i, len(sorted), leaf, root2) {
				ok = false
			}
		}
		return fmt.Sprintf("root=%s keys=%s same=%v proofsok=%v", hx.Hex(root), hexList(sk), bytes.Equal(root, root2), ok)
	case "bsnew":
		w.bs = blockchain.NewBlockStore(dbm.NewMemDB())
		w.saved = map[uint64][][]byte{}
		return fmt.Sprintf("height=%d", w.bs.Height())
	case "bssave":
		if w.bs == nil {
			return "dead"
		}
		b, size := blockOf(toks)
		bz, err := ser.EncodeToBytes(b)
		if err != nil {
			return "encerr"
		}
		ps := b.MakePartSet(size)
		var own [][]byte
		for i := 0; i < ps.Total(); i++ {
			own = append(own, append([]byte{}, ps.GetPart(i).Bytes...))
		}
		w.bs.SaveBlock(b, ps, b.LastCommit, nil, &types.TxsResult{})
		w.saved[b.Height] = own
		return fmt.Sprintf("total=%d hash=%s serok=%v height=%d", ps.Total(), hx.Hex(ps.Hash()), bytes.Equal(bz, hx.UnHex(arg("data"))), w.bs.Height())
	case "bspart":
		if w.bs == nil {
			return "dead"
		}
		h, _ := strconv.ParseUint(arg("h"), 10, 64)
		i, _ := strconv.Atoi(arg("i"))
		p := w.bs.LoadBlockPart(h, i)
		if p == nil {
			return "nil"
		}
		own := "absent"
		if ps, ok := w.saved[h]; ok && i >= 0 && i < len(ps) {
			own = fmt.Sprint(bytes.Equal(ps[i], p.Bytes))
		}
		return fmt.Sprintf("index=%d bytes=%s aunts=%s own=%s", p.Index, hx.Hex(p.Bytes), hexList(p.Proof.Aunts), own)
	case "bsblock":
		if w.bs == nil {
			return "dead"
		}
		h, _ := strconv.ParseUint(arg("h"), 10, 64)
		b := w.bs.LoadBlock(h)
		if b == nil {
			return "nil"
		}
		bz, _ := ser.EncodeToBytes(b)
		meta := w.bs.LoadBlockMeta(h)
		own := bytes.Equal(bz, bytes.Join(w.saved[h], nil))
		byHash := w.bs.LoadBlockByHash(b.Hash())
		return fmt.Sprintf("bytes=%s own=%v blockhash=%s meta=%d:%s byhash=%v", hx.Hex(bz), own, hx.Hex(hashBytes(b.Hash())), meta.BlockID.PartsHeader.Total, hx.Hex(meta.BlockID.PartsHeader.Hash),
			byHash != nil && byHash.Height == h)
	}
	return "bad-op"
}

func hashBytes(h common.Hash) []byte { return h[:] }

// ---- monitors --------------------------------------------------------------------------------------------

// vetted by hand, independent of Header.Hash: the header fields that are allowed NOT to change the block hash
var partsOnlyVetted = map[string]bool{"Recover": true}
var localOnlyVetted = map[string]bool{"bloom": true}

func monitorWide(c *hx.CaseRun) []hx.Failure {
	var fs []hx.Failure
	fail := func(mon, class, site, msg string) {
		fs = append(fs, hx.Failure{Monitor: mon, Class: class, Site: site, Msg: msg})
	}
	want := func(i int, mon, class, site string, kv ...string) {
		for k := 0; k+1 < len(kv); k += 2 {
			if got := argOf(c.Impl[i], kv[k]); got != kv[k+1] {
				fail(mon, class+":"+kv[k], site, fmt.Sprintf("%s: %s=%s, expected %s", hx.Tokens(c.Ops[i])[0], kv[k], got, kv[k+1]))
			}
		}
	}
	for i, op := range c.Ops {
		ans := c.Impl[i]
		toks := hx.Tokens(op)
		if strings.HasPrefix(ans, "panic") {
			switch toks[0] {
			case "hdrsweep", "copyhdr", "blockapi", "commitapi", "bideq", "psq", "fromchunks", "readseq", "txidx", "txproof", "evapi", "maproot", "bsnew", "bssave", "bspart", "bsblock":
				fail("no_panic", "wide-op-panic:"+toks[0], strings.TrimPrefix(ans, "panic "), "panic in "+op[:minInt(len(op), 120)])
			}
			continue
		}
		switch toks[0] {
		case "hdrsweep":
			for _, f := range hx.SplitComma(argOf(ans, "sweep")) {
				p := strings.Split(f, ":")
				top := strings.Split(p[0], ".")[0]
				switch {
				case p[1] == "??":
					if !localOnlyVetted[p[0]] {
						fail("every_header_field_in_id", "header-field-unclassified:"+p[0], "types/block.go:Header", "header field "+p[0]+" has a kind the sweep cannot change or is unexported and not vetted")
					}
				case p[1][0] == '1':
				case partsOnlyVetted[top] && p[1][1] == '1':
				case localOnlyVetted[top] && p[1] == "00":
				case p[1][1] == '1':
					fail("every_header_field_in_id", "header-field-not-in-hash:"+p[0], "types/block.go:Header.Hash", "changing header field "+p[0]+" does not change Block.Hash (only the part-set header)")
				default:
					fail("every_header_field_in_id", "header-field-not-in-id:"+p[0], "types/block.go:Header.Hash", "changing header field "+p[0]+" changes neither Block.Hash nor the part-set header")
				}
			}
		case "copyhdr":
			if cp := argOf(ans, "copy"); cp != "deep" {
				fail("copy_independent", "copyheader-shares-state", "types/block.go:CopyHeader", "writing to a CopyHeader copy changed the original: "+cp)
			}
			want(i, "copy_independent", "header-copy-api", "types/block.go", "head", "true", "newblock", "true")
		case "blockapi":
			want(i, "block_api", "block-api", "types/block.go", "make", "true", "same", "true", "hashesto", "true,false,false,false", "sizeok", "true", "nil", "true", "partial", "true", "getters", "true")
		case "commitapi":
			ids := hx.SplitComma(argOf(op, "ids"))
			nn := 0
			bits := ""
			for _, id := range ids {
				if id != "nil" {
					nn++
				}
				bits += b01(id != "nil")
			}
			if bits == "" {
				bits = "-"
			}
			want(i, "commit_api", "commit-api", "types/block.go:Commit", "size", strconv.Itoa(len(ids)), "iscommit", fmt.Sprint(len(ids) != 0), "bits", bits, "nilsize", "0")
			// Commit.ValidateBasic, ground truth from the ids: present votes must be precommits of one height and round
			expValid := "ok"
			fh, fr, have := 0, 0, false
			attr := func(id string) (pre bool, h, r int) {
				pre, h, r = id[0] != 'p', 4, 0
				if id[0] == 'h' {
					h = 5
				}
				if id[0] == 'r' {
					r = 1
				}
				return
			}
			for _, id := range ids {
				if id != "nil" && !have {
					_, fh, fr = attr(id)
					have = true
				}
			}
			if !have {
				fh, fr = 0, 0
			}
			switch {
			case argOf(op, "cbid") == "zero":
				expValid = "nilblock"
			case len(ids) == 0:
				expValid = "noprecommits"
			default:
				for _, id := range ids {
					if id == "nil" {
						continue
					}
					pre, h, r := attr(id)
					if !pre {
						expValid = "type"
					} else if h != fh {
						expValid = "height"
					} else if r != fr {
						expValid = "round"
					}
					if expValid != "ok" {
						break
					}
				}
			}
			want(i, "commit_api", "commit-validate", "types/block.go:Commit.ValidateBasic", "valid", expValid, "height", strconv.Itoa(fh), "round", strconv.Itoa(fr))
			if strings.Contains(argOf(ans, "byindex"), "0") {
				fail("commit_api", "commit-api:byindex", "types/block.go:Commit.GetByIndex", "GetByIndex(i) is not slot i")
			}
		case "bideq":
			eq := argOf(op, "a") == argOf(op, "b")
			want(i, "blockid_equality", "blockid-equals", "types/block.go:BlockID", "equals", fmt.Sprint(eq), "keyeq", fmt.Sprint(eq))
		case "psq":
			if strings.HasPrefix(ans, "header=") && argOf(op, "which") != "nil" {
				hdr := argOf(op, "hdr")
				hp := strings.SplitN(hdr, ":", 2)
				want(i, "partset_header_queries", "partset-hasheader", "types/part_set.go:HasHeader", "hasheader", fmt.Sprint(hdr == argOf(ans, "header")), "hashesto", fmt.Sprint(hp[1] == argOf(ans, "hash")))
			}
			if argOf(op, "which") == "nil" && ans != "header=0:- hash=- count=0 total=0 hasheader=false hashesto=false" {
				fail("partset_header_queries", "nil-partset-api", "types/part_set.go", "a nil *PartSet does not answer the zero values: "+ans)
			}
		case "readseq":
			// ground truth: the bytes the set was built from (fromchunks data= / fromdata data= earlier in the case)
			var data string
			for j := i - 1; j >= 0; j-- {
				t := hx.Tokens(c.Ops[j])
				if (t[0] == "fromchunks" && argOf(op, "which") == "custom") || (t[0] == "fromdata" && argOf(op, "which") == "src") {
					data = argOf(c.Ops[j], "data")
					break
				}
			}
			if data != "" {
				got := argOf(ans, "data")
				if got == "-" {
					got = ""
				}
				full := data
				if full == "-" {
					full = ""
				}
				if !strings.HasPrefix(full, got) {
					fail("reader_prefix", "reader-bytes-not-a-prefix", "types/part_set.go:PartSetReader.Read", "the part-set reader returned bytes that are not a prefix of the proposer's bytes")
				}
				// all-positive buffer sizes that add up to more than the data must deliver all of it
				sum, pos := 0, true
				for _, s := range hx.SplitComma(argOf(op, "sizes")) {
					n, _ := strconv.Atoi(s)
					sum += n
					pos = pos && n > 0
				}
				if pos && sum >= len(full)/2 && got != full {
					fail("reader_prefix", "reader-short", "types/part_set.go:PartSetReader.Read", "reading with positive buffers of total size >= the data did not deliver all bytes")
				}
			}
		case "txidx":
			ids := hx.SplitComma(argOf(op, "ids"))
			exp := -1
			for k, id := range ids {
				if id == argOf(op, "find") {
					exp = k
					break
				}
			}
			want(i, "tx_index", "tx-index", "types/tx.go:IndexByHash", "index", strconv.Itoa(exp))
		case "txproof":
			want(i, "tx_proof", "txs-hash-is-not-the-simple-root", "types/tx.go:Txs.Hash", "rooteq", "true")
			if exp := argOf(op, "expect"); exp != "" && exp != "any" && argOf(ans, "valid") != exp {
				fail("tx_proof", "txproof-"+exp+"-expected", "types/tx.go:TxProof.Validate", "TxProof.Validate answered "+argOf(ans, "valid")+" for "+op[:minInt(len(op), 100)])
			}
		case "evapi":
			eq := argOf(op, "a") == argOf(op, "b")
			has := false
			for _, id := range hx.SplitComma(argOf(op, "list")) {
				has = has || id == argOf(op, "a")
			}
			want(i, "evidence_equality", "evidence-equal", "types/evidence.go", "equal", fmt.Sprint(eq), "hasheq", fmt.Sprint(eq), "has", fmt.Sprint(has))
		case "maproot":
			want(i, "map_root", "map-root", "libs/crypto/merkle/simple_map.go", "same", "true", "proofsok", "true")
		case "bssave":
			want(i, "store_reassembly", "store-save", "blockchain/store.go:SaveBlock", "serok", "true")
		case "bspart":
			if strings.HasPrefix(ans, "index=") && argOf(ans, "own") != "true" {
				fail("store_reassembly", "stored-part-differs", "blockchain/store.go:LoadBlockPart", "LoadBlockPart("+argOf(op, "h")+","+argOf(op, "i")+") is not the part that was saved: own="+argOf(ans, "own"))
			}
			if ans == "nil" && argOf(op, "expect") == "present" {
				fail("store_reassembly", "stored-part-missing", "blockchain/store.go:LoadBlockPart", "a saved part is missing: "+op)
			}
		case "bsblock":
			if ans == "nil" {
				if argOf(op, "expect") == "present" {
					fail("store_reassembly", "stored-block-missing", "blockchain/store.go:LoadBlock", "a saved block does not load: "+op)
				}
			} else if strings.HasPrefix(ans, "bytes=") {
				want(i, "store_reassembly", "stored-block-differs", "blockchain/store.go:LoadBlock", "own", "true", "byhash", "true")
			}
		}
	}
	return fs
}

func minInt(a, b int) int {
	if a < b {
		return a
	}
	return b
}

// ---- generators ------------------------------------------------------------------------------------------

func specToks(s *spec) string { return strings.TrimPrefix(s.line(), "block ") }

func generateWide(g *hx.Gen) {
	// (W1) every header field by reflection; copies; block API
	for k := 0; k < g.Pick(6, 200); k++ {
		s := rndSpec(g)
		if k == 0 {
			s.ChainID, s.GasUsed, s.Recover = "", 0, 0
		}
		g.Count("wide:hdrsweep")
		g.Case("wide header sweep", []string{"case", "hdrsweep " + specToks(s), "copyhdr " + specToks(s), "blockapi " + specToks(s)}, true)
	}
	// (W2) commits: accessors and every ValidateBasic rejection, also through Block.ValidateBasic
	commits := [][]string{{}, {"nil"}, {"nil", "nil"}, {"v1"}, {"nil", "v2", "v3"}, {"v1", "p2"}, {"p1", "v2"}, {"v1", "h2"}, {"h1", "v2"}, {"v1", "r2"}, {"nil", "r1", "v2"}, {"v1", "v2", "nil", "v4", "v5", "v6", "v7"}}
	var cops []string
	for _, ids := range commits {
		for _, cb := range []string{"b3", "zero"} {
			cops = append(cops, fmt.Sprintf("commitapi ids=%s cbid=%s", joinIDs(ids), cb))
		}
		s := rndSpec(g)
		s.Commit = ids
		cops = append(cops, s.line())
		s2 := s.clone()
		s2.Height = 1
		cops = append(cops, s2.line())
	}
	for k := 0; k < g.Pick(10, 200); k++ {
		var ids []string
		for n := g.Rng.Intn(6); n > 0; n-- {
			ids = append(ids, []string{"nil", "v", "v", "v", "p", "h", "r"}[g.Rng.Intn(7)])
			if last := len(ids) - 1; ids[last] != "nil" {
				ids[last] += strconv.Itoa(1 + g.Rng.Intn(30))
			}
		}
		cops = append(cops, fmt.Sprintf("commitapi ids=%s cbid=b%d", joinIDs(ids), 1+g.Rng.Intn(9)))
	}
	g.Count("wide:commitapi")
	g.Case("wide commit api", append([]string{"case"}, cops...), true)
	// BlockID equality
	bids := []string{bidStr(types.BlockID{}), bidStr(mkBlockID(1)), bidStr(mkBlockID(2)), bidStr(mkBlockID(6))}
	b := mkBlockID(1)
	b.PartsHeader.Total++
	bids = append(bids, bidStr(b))
	b = mkBlockID(1)
	b.PartsHeader.Hash = nil
	bids = append(bids, bidStr(b))
	b = types.BlockID{PartsHeader: types.PartSetHeader{Total: 0, Hash: []byte{1}}}
	bids = append(bids, bidStr(b))
	bops := []string{"case"}
	for _, x := range bids {
		for _, y := range bids {
			bops = append(bops, fmt.Sprintf("bideq a=%s b=%s", x, y))
		}
	}
	g.Case("wide blockid equality", bops, true)

	// (W3) part-set queries, nil receivers, the reader with arbitrary buffers, empty parts
	for k := 0; k < g.Pick(25, 600); k++ {
		n := 1 + g.Rng.Intn(9)
		var sizes []string
		total := 0
		for i := 0; i < n; i++ {
			sz := []int{0, 0, 1, 2, 3, 5, 8, 13}[g.Rng.Intn(8)]
			if k%3 == 0 && sz == 0 {
				sz = 4
			}
			sizes = append(sizes, strconv.Itoa(sz))
			total += sz
		}
		data := rndBytes(g, total)
		ops := []string{"case", fmt.Sprintf("fromchunks data=%s sizes=%s", hx.Hex(data), strings.Join(sizes, ","))}
		for r := 0; r < 4; r++ {
			var rs []string
			left := total + 6
			for left > 0 {
				b := []int{0, 1, 1, 2, 3, 4, 7, 16, 64}[g.Rng.Intn(9)]
				if r == 0 && b == 0 {
					b = 1
				}
				rs = append(rs, strconv.Itoa(b))
				left -= b
				if b == 0 && g.Rng.Intn(3) == 0 {
					left--
				}
			}
			rs = append(rs, "3", "0", "1") // after EOF
			ops = append(ops, fmt.Sprintf("readseq which=custom sizes=%s", strings.Join(rs, ",")))
		}
		ops = append(ops, "psq which=custom hdr=0:-", "psq which=nil hdr=0:-", "psq which=nil hdr=1:01")
		g.Count("wide:reader")
		g.Case(fmt.Sprintf("wide reader parts=%d bytes=%d", n, total), ops, n >= 2)
	}
	for k := 0; k < g.Pick(8, 100); k++ {
		data := rndBytes(g, 1+g.Rng.Intn(300))
		size := 1 + g.Rng.Intn(40)
		src := types.NewPartSetFromData(data, size)
		hdr := fmt.Sprintf("%d:%s", src.Total(), hx.Hex(src.Hash()))
		ops := []string{"case", fmt.Sprintf("fromdata data=%s size=%d", hx.Hex(data), size), "psq which=src hdr=" + hdr,
			fmt.Sprintf("psq which=src hdr=%d:%s", src.Total()+1, hx.Hex(src.Hash())), fmt.Sprintf("psq which=src hdr=%d:%s", src.Total(), hx.Hex(flip(g, src.Hash()))),
			fmt.Sprintf("fromheader total=%d hash=%s", src.Total(), hx.Hex(src.Hash())), "psq which=ps hdr=" + hdr, "psq which=ps hdr=0:-",
			fmt.Sprintf("readseq which=src sizes=%d,%d,1,%d,5,5", size, size+1, len(data)), fmt.Sprintf("readseq which=src sizes=%d,1", len(data)), fmt.Sprintf("readseq which=src sizes=%d,1", len(data)+1)}
		g.Case("wide partset queries", ops, true)
	}

	// (W4) transactions: index by hash, inclusion proofs
	for k := 0; k < g.Pick(12, 300); k++ {
		n := 1 + g.Rng.Intn(9)
		perm := g.Rng.Perm(60)
		var ids []string
		var hs [][]byte
		for _, x := range perm[:n] {
			ids = append(ids, fmt.Sprintf("t%d", x))
			h := mkTx(x).Hash()
			hs = append(hs, h[:])
		}
		root := txsOf(ids).Hash()
		ops := []string{"case"}
		for i := 0; i < n; i++ {
			ops = append(ops, fmt.Sprintf("txidx ids=%s find=%s", joinIDs(ids), ids[i]))
			line := func(idx, total int64, leaf string, rt, dh []byte, expect string) string {
				lh := mkTx(idNum(leaf)).Hash()
				return fmt.Sprintf("txproof ids=%s hashes=%s i=%d idx=%d total=%d leaf=%s leafhash=%s root=%s dh=%s expect=%s", joinIDs(ids), hexList(hs), i, idx, total, leaf, hx.Hex(lh[:]), hx.Hex(rt), hx.Hex(dh), expect)
			}
			ops = append(ops, line(int64(i), int64(n), ids[i], root[:], root[:], "ok"))
			switch g.Rng.Intn(7) {
			case 0:
				ops = append(ops, line(int64(i), int64(n), ids[i], root[:], flip(g, root[:]), "roothash"))
			case 1:
				ops = append(ops, line(int64(i), int64(n), ids[i], flip(g, root[:]), root[:], "roothash"))
			case 2:
				ops = append(ops, line([]int64{-1, math.MinInt64}[g.Rng.Intn(2)], int64(n), ids[i], root[:], root[:], "negidx"))
			case 3:
				ops = append(ops, line(int64(i), []int64{0, -1}[g.Rng.Intn(2)], ids[i], root[:], root[:], "total"))
			case 4: // a transaction that is not in the block
				ops = append(ops, line(int64(i), int64(n), fmt.Sprintf("t%d", perm[59]), root[:], root[:], "inconsistent"))
			case 5: // another position
				if n > 1 {
					ops = append(ops, line(int64((i+1)%n), int64(n), ids[i], root[:], root[:], "inconsistent"))
				}
			case 6: // another total (outside the theorem): compared with the model only
				ops = append(ops, line(int64(i), int64(n+1), ids[i], root[:], root[:], "any"))
			}
		}
		ops = append(ops, fmt.Sprintf("txidx ids=%s find=t%d", joinIDs(ids), perm[59]))
		g.Count("wide:txproof")
		g.Case(fmt.Sprintf("wide tx proofs n=%d", n), ops, n >= 2)
	}

	// transaction KINDS in the identity: the same parameters as another registered type must change data hash and parts
	for k := 0; k < g.Pick(6, 100); k++ {
		s := rndSpec(g)
		s.Txs = nil
		for n := 1 + g.Rng.Intn(5); n > 0; n-- {
			s.Txs = append(s.Txs, fmt.Sprintf("%s%d", []string{"t", "k", "c"}[g.Rng.Intn(3)], 1+g.Rng.Intn(40)))
		}
		s.NumTxs = uint64(len(s.Txs))
		ops := []string{hx.CaseOp("perturb"), s.line()}
		for i, id := range s.Txs {
			p := s.clone()
			p.Txs[i] = map[byte]string{'t': "k", 'k': "c", 'c': "t"}[id[0]] + id[1:]
			ops = append(ops, p.line())
		}
		var th [][]byte
		for _, id := range s.Txs {
			h := mkTxID(id).Hash()
			th = append(th, h[:])
		}
		ops = append(ops, fmt.Sprintf("txsroot ids=%s hashes=%s", joinIDs(s.Txs), hexList(th)), fmt.Sprintf("txidx ids=%s find=%s", joinIDs(s.Txs), s.Txs[len(s.Txs)-1]))
		g.Count("wide:tx-kinds")
		g.Case("wide tx kinds in identity", ops, true)
	}

	// (W5) evidence: equality is hash equality, membership, both registered kinds in block identity
	evOps := []string{"case"}
	evIDs := []string{"e1", "e2", "f1", "f2", "f3", "e257", "f257"}
	for _, a := range evIDs {
		for _, b := range evIDs {
			evOps = append(evOps, fmt.Sprintf("evapi a=%s b=%s list=%s", a, b, joinIDs([]string{"e2", b, "f2"})))
		}
	}
	evOps = append(evOps, "evapi a=e1 b=e1 list=-")
	g.Case("wide evidence api", evOps, true)
	for k := 0; k < g.Pick(6, 100); k++ {
		s := rndSpec(g)
		s.Ev = nil
		for n := 1 + g.Rng.Intn(4); n > 0; n-- {
			s.Ev = append(s.Ev, fmt.Sprintf("%s%d", []string{"e", "f"}[g.Rng.Intn(2)], 1+g.Rng.Intn(40)))
		}
		ops := []string{hx.CaseOp("perturb"), s.line()}
		for i := range s.Ev { // replace each item by the other kind / another item; reorder
			p := s.clone()
			p.Ev[i] = fmt.Sprintf("%s%d", []string{"e", "f"}[g.Rng.Intn(2)], 50+g.Rng.Intn(40))
			ops = append(ops, p.line())
		}
		if len(s.Ev) > 1 && s.Ev[0] != s.Ev[len(s.Ev)-1] {
			p := s.clone()
			p.Ev[0], p.Ev[len(p.Ev)-1] = p.Ev[len(p.Ev)-1], p.Ev[0]
			ops = append(ops, p.line())
		}
		var eh [][]byte
		for _, id := range s.Ev {
			eh = append(eh, mkEvID(id).Hash())
		}
		ops = append(ops, fmt.Sprintf("evroot ids=%s hashes=%s", joinIDs(s.Ev), hexList(eh)))
		g.Count("wide:evidence-kinds")
		g.Case("wide evidence kinds in identity", ops, true)
	}

	// (W6) the Merkle map the header hash is built on
	for k := 0; k < g.Pick(30, 600); k++ {
		n := 1 + g.Rng.Intn(8)
		if k == 0 {
			n = 17
		}
		seen := map[string]bool{}
		var keys, vals [][]byte
		for len(keys) < n {
			var key []byte
			switch g.Rng.Intn(4) {
			case 0: // prefix-related keys
				key = bytes.Repeat([]byte{'a'}, 1+g.Rng.Intn(4))
			case 1:
				key = []byte{byte(g.Rng.Intn(256))}
			default:
				key = rndBytes(g, 1+g.Rng.Intn(12))
			}
			if seen[string(key)] {
				continue
			}
			seen[string(key)] = true
			keys = append(keys, key)
			v := rndBytes(g, []int{1, 1, 20, 32, 32, 60}[g.Rng.Intn(6)])
			if len(vals) > 0 && g.Rng.Intn(4) == 0 {
				v = vals[0] // equal values under different keys
			}
			vals = append(vals, v)
		}
		ops := []string{"case", fmt.Sprintf("maproot keys=%s vals=%s", hexList(keys), hexList(vals))}
		// the same map listed in another order
		perm := g.Rng.Perm(n)
		var k2, v2 [][]byte
		for _, p := range perm {
			k2, v2 = append(k2, keys[p]), append(v2, vals[p])
		}
		ops = append(ops, fmt.Sprintf("maproot keys=%s vals=%s", hexList(k2), hexList(v2)))
		g.Count("wide:maproot")
		g.Case(fmt.Sprintf("wide merkle map n=%d", n), ops, n >= 2)
	}

	// (W7) store-level reassembly: heights and part indices whose decimal digits collide (1|11 vs 11|1, 1|12 vs 11|2, ...)
	for k := 0; k < g.Pick(1, 12); k++ {
		ops := []string{"case", "bsnew", "bsblock h=1", "bspart h=1 i=0"}
		nBlocks := g.Pick(13, 24)
		totals := map[int]int{}
		for h := 1; h <= nBlocks; h++ {
			s := rndSpec(g)
			s.Height = uint64(h)
			s.Size = 24 + g.Rng.Intn(30)
			if h%4 == 0 {
				s.Size = 23
			}
			b, _ := blockOf(hx.Tokens(s.line()))
			bz, err := ser.EncodeToBytes(b)
			if err != nil {
				panic(err)
			}
			totals[h] = (len(bz) + s.Size - 1) / s.Size
			ops = append(ops, fmt.Sprintf("bssave data=%s %s", hx.Hex(bz), specToks(s)))
		}
		for h := 1; h <= nBlocks; h++ {
			ops = append(ops, fmt.Sprintf("bsblock h=%d expect=present", h))
			for i := 0; i < totals[h]; i++ {
				if i < 3 || i >= totals[h]-2 || (i >= 9 && i <= 25) || g.Rng.Intn(4) == 0 {
					ops = append(ops, fmt.Sprintf("bspart h=%d i=%d expect=present", h, i))
				}
			}
			ops = append(ops, fmt.Sprintf("bspart h=%d i=%d", h, totals[h]), fmt.Sprintf("bspart h=%d i=-1", h))
		}
		ops = append(ops, fmt.Sprintf("bsblock h=%d", nBlocks+1), "bsblock h=0", fmt.Sprintf("bspart h=%d i=0", nBlocks+1), "bspart h=111 i=1", "bspart h=1 i=111")
		g.Count("wide:store")
		g.Case(fmt.Sprintf("wide store reassembly blocks=%d", nBlocks), ops, true)
	}
}
