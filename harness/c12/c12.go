// Package c12: correspondence + monitors for block identity (types.Block / Header.Hash / MakePartSet),
// the simple Merkle tree (libs/crypto/merkle) and part-set reassembly (types.PartSet) against the real code.
package c12

import (
	"bytes"
	"fmt"
	"io/ioutil"
	"math"
	"math/big"
	"strconv"
	"strings"
	"time"

	"github.com/lianxiangcloud/linkchain/libs/common"
	"github.com/lianxiangcloud/linkchain/libs/crypto"
	"github.com/lianxiangcloud/linkchain/libs/crypto/merkle"
	"github.com/lianxiangcloud/linkchain/libs/ser"
	"github.com/lianxiangcloud/linkchain/types"

	"lvharness/hx"
)

type P struct{}

func (P) Rule() string {
	return "merkle: every (total, index) for totals 1..70 (thorough ..300) with honest and single-mutation proofs (leaf, index, one aunt, dropped/extra aunt, total); " +
		"part sets: random data/part sizes, arrival = permutation with duplicates and interleaved forgeries (flipped/truncated bytes, shifted index, tampered/short/long proof, index>=total, negative index), assemble at intermediate and final points; " +
		"blocks: proposer-style blocks (0..6 txs, 0..3 evidence, 1..5 commit slots) with every single-field perturbation of the 18 header fields, tx content/order/count, evidence, last-commit slots, with and without re-filling the content hashes; " +
		"widened API streams (wide.go): reflection sweep over every leaf of types.Header, header copies, block/commit/BlockID API and Commit.ValidateBasic rejections, part-set queries incl. nil receivers, PartSetReader with arbitrary buffer sizes over part sets with empty parts, Txs.IndexByHash/TxProof.Validate, three transaction kinds and two evidence kinds in the identity, SimpleHashFromMap/SimpleProofsFromMap, blockchain.BlockStore save/load of 13+ blocks with 13+ parts each; " +
		"non-trivial = a part-set case with >=2 parts and >=1 forgery that still completes, a merkle sweep with total>=2, a block case with >=1 tx and all perturbations; distinct = distinct op sequence"
}

// ---- deterministic object pools (pure functions of the id, so that a replay rebuilds the same objects)

func mkTx(k int) types.Tx {
	var to common.Address
	to[0], to[19] = byte(k), byte(k>>8)
	return types.NewTransaction(uint64(k), to, big.NewInt(int64(k)*7+1), 21000+uint64(k), big.NewInt(1), []byte(fmt.Sprintf("payload-%d", k)))
}

func mkBlockID(k int) types.BlockID {
	if k == 0 {
		return types.BlockID{}
	}
	var h common.Hash
	h[0], h[1], h[31] = byte(k), byte(k>>8), 0xb1
	return types.BlockID{Hash: h, PartsHeader: types.PartSetHeader{Total: 1 + k%5, Hash: crypto.Keccak256([]byte{byte(k), 0x77})}}
}

func mkVote(k int) *types.Vote {
	addr := crypto.Keccak256([]byte{byte(k), byte(k >> 8), 0x01})[:20]
	return &types.Vote{ValidatorAddress: crypto.Address(addr), ValidatorIndex: k % 7, ValidatorSize: 7, Height: 4, Round: 0,
		Timestamp: time.Unix(1600000000+int64(k), 0).UTC(), Type: types.VoteTypePrecommit, BlockID: mkBlockID(3),
		Signature: crypto.SignatureEd25519FromBytes(bytes.Repeat([]byte{byte(k)}, 64))}
}

func mkEv(k int) types.Evidence {
	var pk crypto.PubKeyEd25519
	pk[0], pk[1] = byte(k), byte(k>>8)
	a, b := mkVote(100+k), mkVote(100+k)
	b.BlockID = mkBlockID(9)
	return &types.DuplicateVoteEvidence{PubKey: pk, VoteA: a, VoteB: b}
}

func voteLeaf(v *types.Vote) []byte {
	if v == nil {
		return crypto.Keccak256(nil)
	}
	bz, err := ser.EncodeToBytes(v)
	if err != nil {
		panic(err)
	}
	return crypto.Keccak256(bz)
}

func idNum(s string) int {
	n, err := strconv.Atoi(s[1:])
	if err != nil {
		panic("harness: bad id " + s)
	}
	return n
}

func txsOf(ids []string) types.Txs {
	txs := make(types.Txs, 0, len(ids))
	for _, id := range ids {
		txs = append(txs, mkTxID(id))
	}
	return txs
}

func evsOf(ids []string) types.EvidenceList {
	var evs types.EvidenceList
	for _, id := range ids {
		evs = append(evs, mkEvID(id))
	}
	return evs
}

func votesOf(ids []string) []*types.Vote {
	vs := make([]*types.Vote, 0, len(ids))
	for _, id := range ids {
		if id == "nil" {
			vs = append(vs, nil)
		} else {
			vs = append(vs, mkVoteID(id))
		}
	}
	return vs
}

// ---- block specs -----------------------------------------------------------------------------------

var hashedKeys = []string{"ChainID", "Height", "Coinbase", "Time", "NumTxs", "TotalTxs", "ParentHash", "LastBlockID", "LastCommitHash",
	"ValidatorsHash", "ConsensusHash", "DataHash", "StateHash", "ReceiptHash", "GasLimit", "GasUsed", "EvidenceHash"}

type spec struct {
	ChainID                                           string
	Height, Time, NumTxs, TotalTxs, GasLimit, GasUsed uint64
	Recover                                           uint32
	Coinbase                                          common.Address
	ParentHash, ValidatorsHash, ConsensusHash         common.Hash
	StateHash, ReceiptHash                            common.Hash
	LastBlockID                                       types.BlockID
	DataHash, LastCommitHash, EvidenceHash            *common.Hash // nil = filled from the content, as the proposer does
	Txs, Ev, Commit                                   []string
	Cbid                                              int // 0 = zero BlockID
	Size                                              int
}

func (s *spec) clone() *spec {
	c := *s
	c.Txs = append([]string{}, s.Txs...)
	c.Ev = append([]string{}, s.Ev...)
	c.Commit = append([]string{}, s.Commit...)
	return &c
}

func (s *spec) content() (*types.Data, types.EvidenceData, *types.Commit) {
	return &types.Data{Txs: txsOf(s.Txs)}, types.EvidenceData{Evidence: evsOf(s.Ev)}, &types.Commit{BlockID: mkBlockID(s.Cbid), Precommits: votesOf(s.Commit)}
}

func joinIDs(ids []string) string {
	if len(ids) == 0 {
		return "-"
	}
	return strings.Join(ids, ",")
}

func bidStr(b types.BlockID) string {
	return fmt.Sprintf("%s:%d:%s", hx.Hex(b.Hash[:]), b.PartsHeader.Total, hx.Hex(b.PartsHeader.Hash))
}

// line renders the op; the content hashes are computed by the REAL code when they are to be filled.
func (s *spec) line() string {
	d, e, c := s.content()
	mark := func(explicit *common.Hash, actual common.Hash) (common.Hash, string) {
		if explicit == nil || *explicit == actual {
			return actual, "ok"
		}
		return *explicit, "bad"
	}
	dh, dm := mark(s.DataHash, d.Hash())
	lch, lm := mark(s.LastCommitHash, c.Hash())
	eh, em := mark(s.EvidenceHash, e.Hash())
	cb := "zero"
	if s.Cbid != 0 {
		cb = fmt.Sprintf("b%d", s.Cbid)
	}
	return fmt.Sprintf("block ChainID=%s Height=%d Coinbase=%s Time=%d NumTxs=%d TotalTxs=%d Recover=%d ParentHash=%s LastBlockID=%s LastCommitHash=%s "+
		"ValidatorsHash=%s ConsensusHash=%s DataHash=%s StateHash=%s ReceiptHash=%s GasLimit=%d GasUsed=%d EvidenceHash=%s txs=%s ev=%s commit=%s cbid=%s size=%d dh=%s lch=%s eh=%s",
		hx.Hex([]byte(s.ChainID)), s.Height, hx.Hex(s.Coinbase[:]), s.Time, s.NumTxs, s.TotalTxs, s.Recover, hx.Hex(s.ParentHash[:]), bidStr(s.LastBlockID), hx.Hex(lch[:]),
		hx.Hex(s.ValidatorsHash[:]), hx.Hex(s.ConsensusHash[:]), hx.Hex(dh[:]), hx.Hex(s.StateHash[:]), hx.Hex(s.ReceiptHash[:]), s.GasLimit, s.GasUsed, hx.Hex(eh[:]),
		joinIDs(s.Txs), joinIDs(s.Ev), joinIDs(s.Commit), cb, s.Size, dm, lm, em)
}

func u64(toks []string, k string) uint64 {
	v, _ := hx.Arg(toks, k)
	n, err := strconv.ParseUint(v, 10, 64)
	if err != nil {
		panic("harness: bad uint " + k)
	}
	return n
}

func hashArg(toks []string, k string) common.Hash {
	v, _ := hx.Arg(toks, k)
	return common.BytesToHash(hx.UnHex(v))
}

func parseBlockID(s string) types.BlockID {
	p := strings.Split(s, ":")
	t, _ := strconv.Atoi(p[1])
	return types.BlockID{Hash: common.BytesToHash(hx.UnHex(p[0])), PartsHeader: types.PartSetHeader{Total: t, Hash: hx.UnHex(p[2])}}
}

// blockOf builds the block exactly as described by the op line (a fresh object: Block.Hash caches).
func blockOf(toks []string) (*types.Block, int) {
	arg := func(k string) string { v, _ := hx.Arg(toks, k); return v }
	h := &types.Header{
		ChainID: string(hx.UnHex(arg("ChainID"))), Height: u64(toks, "Height"), Coinbase: common.BytesToAddress(hx.UnHex(arg("Coinbase"))),
		Time: u64(toks, "Time"), NumTxs: u64(toks, "NumTxs"), TotalTxs: u64(toks, "TotalTxs"), Recover: uint32(u64(toks, "Recover")),
		ParentHash: hashArg(toks, "ParentHash"), LastBlockID: parseBlockID(arg("LastBlockID")), LastCommitHash: hashArg(toks, "LastCommitHash"),
		ValidatorsHash: hashArg(toks, "ValidatorsHash"), ConsensusHash: hashArg(toks, "ConsensusHash"), DataHash: hashArg(toks, "DataHash"),
		StateHash: hashArg(toks, "StateHash"), ReceiptHash: hashArg(toks, "ReceiptHash"), GasLimit: u64(toks, "GasLimit"), GasUsed: u64(toks, "GasUsed"),
		EvidenceHash: hashArg(toks, "EvidenceHash"),
	}
	cb := 0
	if v := arg("cbid"); v != "zero" {
		cb = idNum(v)
	}
	b := &types.Block{Header: h, Data: &types.Data{Txs: txsOf(hx.SplitComma(arg("txs")))},
		Evidence:   types.EvidenceData{Evidence: evsOf(hx.SplitComma(arg("ev")))},
		LastCommit: &types.Commit{BlockID: mkBlockID(cb), Precommits: votesOf(hx.SplitComma(arg("commit")))}}
	size, _ := strconv.Atoi(arg("size"))
	return b, size
}

func validClass(err error) string {
	if err == nil {
		return "ok"
	}
	m := err.Error()
	switch {
	case strings.HasPrefix(m, "Wrong Block.Header.NumTxs"):
		return "numtxs"
	case strings.HasPrefix(m, "Wrong Block.Header.LastCommitHash"):
		return "lastcommithash"
	case strings.HasPrefix(m, "Wrong Block.Header.DataHash"):
		return "datahash"
	case strings.HasPrefix(m, "Wrong Block.Header.EvidenceHash"):
		return "evidencehash"
	}
	return "commit"
}

// ---- executor --------------------------------------------------------------------------------------

type bytesHasher []byte

func (b bytesHasher) Hash() []byte { return b }

type exec struct {
	wide    wideState
	leaves  [][]byte
	proofs  []*merkle.SimpleProof
	src, ps *types.PartSet
	pclass  []string
}

func (P) NewExec() hx.Executor { return &exec{} }

func hexList(xs [][]byte) string {
	if len(xs) == 0 {
		return "-"
	}
	ss := make([]string, len(xs))
	for i, x := range xs {
		ss[i] = hx.Hex(x)
	}
	return strings.Join(ss, ",")
}

func unHexList(s string) [][]byte {
	out := [][]byte{}
	for _, x := range hx.SplitComma(s) {
		out = append(out, hx.UnHex(x))
	}
	return out
}

func hashersOf(hs [][]byte) []merkle.Hasher {
	items := make([]merkle.Hasher, len(hs))
	for i, h := range hs {
		items[i] = bytesHasher(h)
	}
	return items
}

func showPS(ps *types.PartSet) string {
	ba := ps.BitArray()
	bits := make([]byte, ps.Total())
	for i := range bits {
		bits[i] = '0'
		if ba.GetIndex(i) {
			bits[i] = '1'
		}
	}
	bs := string(bits)
	if bs == "" {
		bs = "-"
	}
	return fmt.Sprintf("count=%d complete=%v bits=%s", ps.Count(), ps.IsComplete(), bs)
}

func parseHdr(s string) types.PartSetHeader {
	p := strings.Split(s, ":")
	t, _ := strconv.Atoi(p[0])
	return types.PartSetHeader{Total: t, Hash: hx.UnHex(p[1])}
}

func (e *exec) Exec(op string) string {
	toks := hx.Tokens(op)
	arg := func(k string) string { v, _ := hx.Arg(toks, k); return v }
	switch toks[0] {
	case "case":
		*e = exec{}
		return "ok"
	case "root":
		return "root=" + hx.Hex(merkle.SimpleHashFromHashers(hashersOf(unHexList(arg("hashes")))))
	case "tree":
		e.leaves, e.proofs = nil, nil
		hs := unHexList(arg("hashes"))
		root, proofs := merkle.SimpleProofsFromHashers(hashersOf(hs))
		e.leaves, e.proofs = hs, proofs
		same := bytes.Equal(root, merkle.SimpleHashFromHashers(hashersOf(hs)))
		return fmt.Sprintf("root=%s n=%d same=%v", hx.Hex(root), len(hs), same)
	case "proof":
		i, _ := strconv.Atoi(arg("i"))
		if i < 0 || i >= len(e.proofs) {
			return "bad-op"
		}
		return "aunts=" + hexList(e.proofs[i].Aunts)
	case "verify":
		i, _ := strconv.Atoi(arg("i"))
		t, _ := strconv.Atoi(arg("total"))
		sp := &merkle.SimpleProof{Aunts: unHexList(arg("aunts"))}
		return fmt.Sprintf("ok=%v", sp.Verify(i, t, hx.UnHex(arg("leaf")), hx.UnHex(arg("root"))))
	case "txsroot":
		h := txsOf(hx.SplitComma(arg("ids"))).Hash()
		return "root=" + hx.Hex(h[:])
	case "commitroot":
		h := (&types.Commit{Precommits: votesOf(hx.SplitComma(arg("ids")))}).Hash()
		return "root=" + hx.Hex(h[:])
	case "evroot":
		return "root=" + hx.Hex(evsOf(hx.SplitComma(arg("ids"))).Hash())
	case "fromdata":
		e.src = nil
		size, _ := strconv.Atoi(arg("size"))
		data := hx.UnHex(arg("data"))
		if len(data) == 0 {
			data = nil
		}
		e.src = types.NewPartSetFromData(data, size)
		return fmt.Sprintf("total=%d hash=%s", e.src.Total(), hx.Hex(e.src.Hash()))
	case "srcpart":
		if e.src == nil {
			return "dead"
		}
		i, _ := strconv.Atoi(arg("i"))
		if i < 0 || i >= e.src.Total() {
			return "bad-op"
		}
		p := e.src.GetPart(i)
		return fmt.Sprintf("index=%d bytes=%s aunts=%s", p.Index, hx.Hex(p.Bytes), hexList(p.Proof.Aunts))
	case "srcassemble":
		if e.src == nil {
			return "dead"
		}
		bz, err := ioutil.ReadAll(e.src.GetReader())
		if err != nil {
			return "readerr"
		}
		return "bytes=" + hx.Hex(bz)
	case "fromheader":
		e.ps = nil
		t, _ := strconv.ParseInt(arg("total"), 10, 64)
		e.ps = types.NewPartSetFromHeader(types.PartSetHeader{Total: int(t), Hash: hx.UnHex(arg("hash"))})
		return "ok"
	case "addpart":
		if e.ps == nil {
			return "dead"
		}
		i, _ := strconv.ParseInt(arg("index"), 10, 64)
		part := &types.Part{Index: int(i), Bytes: hx.UnHex(arg("bytes")), Proof: merkle.SimpleProof{Aunts: unHexList(arg("aunts"))}}
		added, err := e.ps.AddPart(part)
		en := "none"
		switch err {
		case nil:
		case types.ErrPartSetUnexpectedIndex:
			en = "index"
		case types.ErrPartSetInvalidProof:
			en = "proof"
		default:
			en = "other"
		}
		return fmt.Sprintf("added=%v err=%s %s", added, en, showPS(e.ps))
	case "assemble":
		if e.ps == nil {
			return "dead"
		}
		bz, err := ioutil.ReadAll(e.ps.GetReader())
		if err != nil {
			return "readerr"
		}
		return "bytes=" + hx.Hex(bz)
	case "header":
		if e.ps == nil {
			return "dead"
		}
		h := e.ps.Header()
		return fmt.Sprintf("total=%d hash=%s", h.Total, hx.Hex(h.Hash))
	case "hdreq":
		a, b := parseHdr(arg("a")), parseHdr(arg("b"))
		return fmt.Sprintf("equals=%v zeroa=%v", a.Equals(b), a.IsZero())
	case "block":
		b, size := blockOf(toks)
		valid := validClass(b.ValidateBasic())
		h := b.Hash()
		ps := b.MakePartSet(size)
		hdr := ps.Header()
		key := fmt.Sprintf("%d:%x", hdr.Total, []byte(hdr.Hash))
		k := -1
		for i, c := range e.pclass {
			if c == key {
				k = i
				break
			}
		}
		if k < 0 {
			e.pclass = append(e.pclass, key)
			k = len(e.pclass) - 1
		}
		// the bytes a receiver reassembles decode to a block with the same identity
		rt := false
		if bz, err := ioutil.ReadAll(ps.GetReader()); err == nil {
			var b2 types.Block
			if err := ser.DecodeBytes(bz, &b2); err == nil && b2.Header != nil {
				rt = b2.Hash() == h && b2.MakePartSet(size).Header().Equals(hdr) && b2.Header.Recover == b.Header.Recover
			}
		}
		return fmt.Sprintf("hash=%s pclass=%d valid=%s rt=%v", hx.Hex(h[:]), k, valid, rt)
	}
	return e.execWide(toks)
}

// ---- monitors --------------------------------------------------------------------------------------

func argOf(line, k string) string { v, _ := hx.Arg(hx.Tokens(line), k); return v }

const maxSliceLen = int64(1) << 45

func (P) Monitor(c *hx.CaseRun) []hx.Failure {
	var fs []hx.Failure
	fail := func(mon, class, site, msg string) {
		fs = append(fs, hx.Failure{Monitor: mon, Class: class, Site: site, Msg: msg})
	}
	var data []byte
	size := 0
	haveSrc := false
	honest := map[int]string{} // index -> "bytes aunts" as the implementation's own source set printed them
	arrived := map[int]bool{}  // indices for which a part was admitted
	var base []string          // tokens of the first block op
	var baseAns string
	seenBlocks := map[string]string{}
	fs = append(fs, monitorWide(c)...)
	for i, op := range c.Ops {
		ans := c.Impl[i]
		toks := hx.Tokens(op)
		switch toks[0] {
		case "tree":
			if strings.Contains(ans, "same=false") {
				fail("merkle_root_consistent", "proofs-root-differs-from-tree-root", "libs/crypto/merkle/simple_proof.go:SimpleProofsFromHashers", op)
			}
		case "verify":
			exp := argOf(op, "expect")
			if exp == "true" && ans != "ok=true" {
				fail("verify_complete", "honest-proof-rejected", "libs/crypto/merkle/simple_proof.go:Verify", "the proof the library produced does not verify: "+op)
			}
			if exp == "false" && ans != "ok=false" {
				fail("verify_sound", "tampered-proof-accepted", "libs/crypto/merkle/simple_proof.go:Verify", "a proof for a different leaf/index/aunt verifies against the honest root: "+op)
			}
		case "fromdata":
			haveSrc = false
			if strings.HasPrefix(ans, "total=") {
				data, haveSrc = hx.UnHex(argOf(op, "data")), true
				size, _ = strconv.Atoi(argOf(op, "size"))
				honest, arrived = map[int]string{}, map[int]bool{}
			}
		case "srcpart":
			if strings.HasPrefix(ans, "index=") {
				k, _ := strconv.Atoi(argOf(ans, "index"))
				honest[k] = argOf(ans, "bytes") + " " + argOf(ans, "aunts")
			}
		case "srcassemble":
			if haveSrc && ans != "bytes="+hx.Hex(data) {
				fail("reassembly", "source-set-bytes-differ", "types/part_set.go:GetReader", "the proposer's own part set does not read back the data")
			}
		case "fromheader":
			arrived = map[int]bool{}
			if strings.HasPrefix(ans, "panic") {
				t, _ := strconv.ParseInt(argOf(op, "total"), 10, 64)
				if t < 0 || t > maxSliceLen {
					// function-level partiality only: since fix 1b2bd5e every peer-controlled caller bounds the total before
					// constructing the set (C16 guard facts proposalTotalStateMachine / proposalTotalReactor + the C16 fuzz),
					// and C12 itself (identity, reassembly) says nothing about constructing a set from an impossible header
					continue
				}
				fail("no_panic_on_peer_input", "fromheader-panic", "types/part_set.go:NewPartSetFromHeader", "NewPartSetFromHeader panics on "+op)
			}
		case "addpart":
			idx, _ := strconv.ParseInt(argOf(op, "index"), 10, 64)
			if strings.HasPrefix(ans, "panic") {
				class := "addpart-panic"
				if idx < 0 {
					class = "addpart-negative-index"
				}
				fail("no_panic_on_peer_input", class, "types/part_set.go:AddPart", "AddPart panics on a part with index "+argOf(op, "index"))
				continue
			}
			if !c.Tags["recv"] || !haveSrc {
				continue
			}
			added := argOf(ans, "added") == "true"
			bz := hx.UnHex(argOf(op, "bytes"))
			if added {
				lo, hi := int(idx)*size, (int(idx)+1)*size
				if hi > len(data) {
					hi = len(data)
				}
				if idx < 0 || lo >= len(data) || !bytes.Equal(bz, data[lo:hi]) {
					fail("reassembly", "forged-part-admitted", "types/part_set.go:AddPart", fmt.Sprintf("a part whose bytes are not the proposer's bytes of index %d was admitted", idx))
				}
				arrived[int(idx)] = true
			} else if h, ok := honest[int(idx)]; ok && !arrived[int(idx)] && h == argOf(op, "bytes")+" "+argOf(op, "aunts") {
				fail("reassembly", "honest-part-rejected", "types/part_set.go:AddPart", fmt.Sprintf("the proposer's own part %d (first arrival) was rejected: %s", idx, ans))
			}
		case "assemble":
			if c.Tags["recv"] && haveSrc && strings.HasPrefix(ans, "bytes=") && ans != "bytes="+hx.Hex(data) {
				fail("reassembly", "reassembled-foreign-bytes", "types/part_set.go:GetReader", "a complete part set under the proposer's header reads back different bytes")
			}
			if c.Tags["recv"] && haveSrc && strings.HasPrefix(ans, "panic") && i > 0 && strings.Contains(c.Impl[i-1], "complete=true") {
				fail("reassembly", "complete-set-unreadable", "types/part_set.go:GetReader", "GetReader panics on a complete part set")
			}
		case "block":
			if !strings.HasPrefix(ans, "hash=") {
				fail("block_id", "block-op-panic", "types/block.go", "block construction/identity panics: "+ans)
				continue
			}
			if argOf(ans, "rt") != "true" {
				fail("block_id", "reassembled-block-differs", "types/block.go:MakePartSet", "decoding the bytes of the block's own part set gives a block with another identity")
			}
			content := strings.Join(contentToks(toks), " ")
			id := argOf(ans, "hash") + "/" + argOf(ans, "pclass")
			if prev, ok := seenBlocks[content]; ok && prev != id {
				fail("block_id", "block-id-unstable", "types/block.go:Hash", "the same content has two identities")
			}
			seenBlocks[content] = id
			if !c.Tags["perturb"] {
				continue
			}
			if base == nil {
				base, baseAns = toks, ans
				continue
			}
			var diff []string
			for _, t := range contentToks(toks) {
				k := t[:strings.Index(t, "=")]
				if bv, _ := hx.Arg(base, k); bv != t[len(k)+1:] && k != "size" {
					diff = append(diff, k)
				}
			}
			if len(diff) == 0 {
				continue
			}
			sameHash := argOf(ans, "hash") == argOf(baseAns, "hash")
			sameParts := argOf(ans, "pclass") == argOf(baseAns, "pclass")
			if sameHash && sameParts {
				fail("perturb_changes_id", "block-id-collision:"+diff[0], "types/block.go", "changing "+strings.Join(diff, ",")+" changes neither Block.Hash nor the part-set header")
			}
			for _, k := range diff {
				for _, hk := range hashedKeys {
					if k == hk && sameHash {
						fail("perturb_changes_id", "header-field-not-in-hash:"+k, "types/block.go:Header.Hash", "changing header field "+k+" does not change Block.Hash")
					}
				}
			}
			// content that the header hashes do not match must not validate
			if (argOf(op, "dh") == "bad" || argOf(op, "lch") == "bad" || argOf(op, "eh") == "bad") && argOf(ans, "valid") == "ok" {
				fail("perturb_changes_id", "stale-content-validates", "types/block.go:ValidateBasic", "ValidateBasic accepts content that differs from the header's content hash: "+strings.Join(diff, ","))
			}
		}
	}
	return fs
}

func contentToks(toks []string) []string {
	var out []string
	for _, t := range toks[1:] {
		if strings.HasPrefix(t, "dh=") || strings.HasPrefix(t, "lch=") || strings.HasPrefix(t, "eh=") {
			continue
		}
		out = append(out, t)
	}
	return out
}

// ---- generators ------------------------------------------------------------------------------------

func rndBytes(g *hx.Gen, n int) []byte {
	b := make([]byte, n)
	g.Rng.Read(b)
	return b
}

func rndHash(g *hx.Gen) common.Hash { return common.BytesToHash(rndBytes(g, 32)) }

func flip(g *hx.Gen, b []byte) []byte {
	c := append([]byte{}, b...)
	if len(c) == 0 {
		return []byte{1}
	}
	c[g.Rng.Intn(len(c))] ^= byte(1 << uint(g.Rng.Intn(8)))
	return c
}

func verifyLine(i, total int64, leaf []byte, aunts [][]byte, root []byte, expect string) string {
	return fmt.Sprintf("verify i=%d total=%d leaf=%s aunts=%s root=%s expect=%s", i, total, hx.Hex(leaf), hexList(aunts), hx.Hex(root), expect)
}

func genMerkleSweep(g *hx.Gen, n int, tamper int) {
	leaves := make([][]byte, n)
	for i := range leaves {
		l := 32
		if g.Rng.Intn(8) == 0 {
			l = 1 + g.Rng.Intn(40)
		}
		leaves[i] = rndBytes(g, l)
	}
	root, proofs := merkle.SimpleProofsFromHashers(hashersOf(leaves))
	ops := []string{"case", "tree hashes=" + hexList(leaves), "root hashes=" + hexList(leaves)}
	for i := 0; i < n; i++ {
		au := proofs[i].Aunts
		ops = append(ops, fmt.Sprintf("proof i=%d", i), verifyLine(int64(i), int64(n), leaves[i], au, root, "true"))
		for t := 0; t < tamper; t++ {
			kind := g.Rng.Intn(8)
			g.Count(fmt.Sprintf("merkle-tamper:%d", kind))
			switch kind {
			case 0: // another leaf
				ops = append(ops, verifyLine(int64(i), int64(n), flip(g, leaves[i]), au, root, "false"))
			case 1: // another index (leaves are distinct)
				j := g.Rng.Intn(n + 2)
				if j != i {
					ops = append(ops, verifyLine(int64(j), int64(n), leaves[i], au, root, "false"))
				}
			case 2: // one aunt changed
				if len(au) > 0 {
					a2 := append([][]byte{}, au...)
					k := g.Rng.Intn(len(a2))
					a2[k] = flip(g, a2[k])
					ops = append(ops, verifyLine(int64(i), int64(n), leaves[i], a2, root, "false"))
				}
			case 3: // aunt dropped
				if len(au) > 0 {
					ops = append(ops, verifyLine(int64(i), int64(n), leaves[i], au[:len(au)-1], root, "false"))
				}
			case 4: // extra aunt
				ops = append(ops, verifyLine(int64(i), int64(n), leaves[i], append(append([][]byte{}, au...), rndBytes(g, 32)), root, "false"))
			case 5: // another total (outside the theorem: only compared with the model)
				ops = append(ops, verifyLine(int64(i), int64(n+1+g.Rng.Intn(3)), leaves[i], au, root, "any"))
			case 6: // negative / huge index and total
				ops = append(ops, verifyLine([]int64{-1, math.MinInt64, int64(n), math.MaxInt64}[g.Rng.Intn(4)], int64(n), leaves[i], au, root, "false"))
				ops = append(ops, verifyLine(int64(i), []int64{0, -1, math.MinInt64, 1 << 62}[g.Rng.Intn(4)], leaves[i], au, root, "any"))
			case 7: // another root
				ops = append(ops, verifyLine(int64(i), int64(n), leaves[i], au, flip(g, root), "false"))
			}
		}
	}
	g.Count("merkle-sweep")
	g.Case(fmt.Sprintf("merkle sweep n=%d", n), ops, n >= 2)
}

func partLine(index int64, bz []byte, aunts [][]byte) string {
	return fmt.Sprintf("addpart index=%d bytes=%s aunts=%s", index, hx.Hex(bz), hexList(aunts))
}

// one receiving part set under the proposer's header, arbitrary arrival sequence
func genPartSet(g *hx.Gen, data []byte, size int, label string, negative bool) {
	src := types.NewPartSetFromData(data, size)
	total := src.Total()
	tags := []string{"recv"}
	if negative {
		tags = append(tags, "malformed")
	}
	ops := []string{hx.CaseOp(tags...), fmt.Sprintf("fromdata data=%s size=%d", hx.Hex(data), size), "srcassemble"}
	for i := 0; i < total; i++ {
		ops = append(ops, fmt.Sprintf("srcpart i=%d", i))
	}
	ops = append(ops, fmt.Sprintf("fromheader total=%d hash=%s", total, hx.Hex(src.Hash())), "header", "assemble")
	order := g.Rng.Perm(total)
	forgeries := 0
	stopEarly := g.Rng.Intn(6) == 0 && total > 1 // a set that never completes
	for n, i := range order {
		if stopEarly && n == total-1 {
			break
		}
		p := src.GetPart(i)
		// forgeries / malformed parts before the honest one
		for f := g.Rng.Intn(3); f > 0; f-- {
			kind := g.Rng.Intn(10)
			g.Count(fmt.Sprintf("forgery:%d", kind))
			forgeries++
			switch kind {
			case 0:
				ops = append(ops, partLine(int64(i), flip(g, p.Bytes), p.Proof.Aunts))
			case 1:
				ops = append(ops, partLine(int64(i), p.Bytes[:len(p.Bytes)-1], p.Proof.Aunts))
			case 2: // honest part under a shifted index
				j := (i + 1 + g.Rng.Intn(total+1)) % (total + 1)
				if j != i {
					ops = append(ops, partLine(int64(j), p.Bytes, p.Proof.Aunts))
				}
			case 3:
				if len(p.Proof.Aunts) > 0 {
					a2 := append([][]byte{}, p.Proof.Aunts...)
					k := g.Rng.Intn(len(a2))
					a2[k] = flip(g, a2[k])
					ops = append(ops, partLine(int64(i), p.Bytes, a2))
				}
			case 4:
				if len(p.Proof.Aunts) > 0 {
					ops = append(ops, partLine(int64(i), p.Bytes, p.Proof.Aunts[1:]))
				}
			case 5:
				ops = append(ops, partLine(int64(i), p.Bytes, append(append([][]byte{}, p.Proof.Aunts...), rndBytes(g, 32))))
			case 6:
				ops = append(ops, partLine([]int64{int64(total), int64(total) + 1, math.MaxInt64, 1 << 40}[g.Rng.Intn(4)], p.Bytes, p.Proof.Aunts))
			case 7: // another proposer's part for the same index
				other := types.NewPartSetFromData(flip(g, data), size)
				if i < other.Total() {
					q := other.GetPart(i)
					if !bytes.Equal(q.Bytes, p.Bytes) {
						ops = append(ops, partLine(int64(i), q.Bytes, q.Proof.Aunts))
					}
				}
			case 8:
				ops = append(ops, partLine(int64(i), rndBytes(g, 1+g.Rng.Intn(40)), nil))
			case 9:
				if negative {
					ops = append(ops, partLine([]int64{-1, -2, math.MinInt64, -int64(total)}[g.Rng.Intn(4)], p.Bytes, p.Proof.Aunts))
				} else {
					ops = append(ops, partLine(int64(i), append(append([]byte{}, p.Bytes...), 0), p.Proof.Aunts))
				}
			}
		}
		ops = append(ops, partLine(int64(i), p.Bytes, p.Proof.Aunts))
		if g.Rng.Intn(4) == 0 { // duplicate of an earlier part
			q := src.GetPart(order[g.Rng.Intn(n+1)])
			ops = append(ops, partLine(int64(q.Index), q.Bytes, q.Proof.Aunts))
			g.Count("duplicate")
		}
		if g.Rng.Intn(8) == 0 {
			ops = append(ops, "assemble")
		}
	}
	ops = append(ops, "assemble", "header")
	g.Count(fmt.Sprintf("partset-total:%s", bucket(total)))
	g.Count("partset:" + label)
	g.Case(fmt.Sprintf("partset %s len=%d size=%d total=%d", label, len(data), size, total), ops, total >= 2 && forgeries >= 1 && !stopEarly)
}

func bucket(n int) string {
	switch {
	case n <= 1:
		return "1"
	case n <= 4:
		return "2-4"
	case n <= 16:
		return "5-16"
	case n <= 64:
		return "17-64"
	}
	return "65+"
}

func rndSpec(g *hx.Gen) *spec {
	s := &spec{ChainID: []string{"", "c", "linkchain-test", "chain-" + strconv.Itoa(g.Rng.Intn(1000))}[g.Rng.Intn(4)],
		Height: uint64(2 + g.Rng.Intn(1000)), Time: uint64(1600000000 + g.Rng.Intn(1000000)), TotalTxs: uint64(g.Rng.Intn(100000)),
		GasLimit: uint64(g.Rng.Intn(1 << 30)), GasUsed: uint64(g.Rng.Intn(1 << 20)), Recover: uint32(g.Rng.Intn(3)),
		ParentHash: rndHash(g), ValidatorsHash: rndHash(g), ConsensusHash: rndHash(g), StateHash: rndHash(g), ReceiptHash: rndHash(g),
		LastBlockID: mkBlockID(1 + g.Rng.Intn(50)), Cbid: 1 + g.Rng.Intn(50), Size: []int{48, 64, 100, 256, 512}[g.Rng.Intn(5)]}
	copy(s.Coinbase[:], rndBytes(g, 20))
	switch g.Rng.Intn(6) {
	case 0:
		s.Height = 1
	case 1:
		s.GasUsed, s.TotalTxs = 0, 0
	}
	ids := g.Rng.Perm(60)
	for i := g.Rng.Intn(7); i > 0; i-- {
		s.Txs = append(s.Txs, fmt.Sprintf("t%d", ids[i]))
	}
	s.NumTxs = uint64(len(s.Txs))
	for i := g.Rng.Intn(4); i > 0; i-- {
		s.Ev = append(s.Ev, fmt.Sprintf("e%d", ids[10+i]))
	}
	for i := 1 + g.Rng.Intn(5); i > 0; i-- {
		if g.Rng.Intn(5) == 0 {
			s.Commit = append(s.Commit, "nil")
		} else {
			s.Commit = append(s.Commit, fmt.Sprintf("v%d", ids[20+i]))
		}
	}
	return s
}

func flipHash(g *hx.Gen, h common.Hash) common.Hash { return common.BytesToHash(flip(g, h[:])) }

// every single-field perturbation of a block
func perturbations(g *hx.Gen, b *spec) []*spec {
	var out []*spec
	add := func(f func(s *spec)) { s := b.clone(); f(s); out = append(out, s) }
	add(func(s *spec) { s.ChainID += "x" })
	add(func(s *spec) { s.Height++ })
	add(func(s *spec) { s.Coinbase[g.Rng.Intn(20)] ^= 0x10 })
	add(func(s *spec) { s.Time++ })
	add(func(s *spec) { s.NumTxs++ })
	add(func(s *spec) { s.TotalTxs++ })
	add(func(s *spec) { s.Recover++ })
	add(func(s *spec) { s.ParentHash = flipHash(g, s.ParentHash) })
	add(func(s *spec) { s.LastBlockID.Hash = flipHash(g, s.LastBlockID.Hash) })
	add(func(s *spec) { s.LastBlockID.PartsHeader.Total++ })
	add(func(s *spec) { s.LastBlockID.PartsHeader.Hash = flip(g, s.LastBlockID.PartsHeader.Hash) })
	add(func(s *spec) { s.ValidatorsHash = flipHash(g, s.ValidatorsHash) })
	add(func(s *spec) { s.ConsensusHash = flipHash(g, s.ConsensusHash) })
	add(func(s *spec) { s.StateHash = flipHash(g, s.StateHash) })
	add(func(s *spec) { s.ReceiptHash = flipHash(g, s.ReceiptHash) })
	add(func(s *spec) { s.GasLimit++ })
	add(func(s *spec) { s.GasUsed++ })
	// the three content hashes changed without changing the content (stale)
	d, e, c := b.content()
	add(func(s *spec) { h := flipHash(g, d.Hash()); s.DataHash = &h })
	add(func(s *spec) { h := flipHash(g, c.Hash()); s.LastCommitHash = &h })
	add(func(s *spec) { h := flipHash(g, e.Hash()); s.EvidenceHash = &h })
	// content changed; "fill" = the proposer recomputes the content hash, "stale" = the header keeps the old one
	content := func(f func(s *spec)) {
		add(f)
		add(func(s *spec) {
			dh, lch, eh := d.Hash(), c.Hash(), e.Hash()
			s.DataHash, s.LastCommitHash, s.EvidenceHash = &dh, &lch, &eh
			f(s)
		})
	}
	fresh := func(p string) string { return fmt.Sprintf("%s%d", p, 200+g.Rng.Intn(50)) }
	content(func(s *spec) { s.Txs = append(s.Txs, fresh("t")); s.NumTxs = uint64(len(s.Txs)) })
	content(func(s *spec) { s.Txs = append(s.Txs, fresh("t")) }) // NumTxs not updated
	if n := len(b.Txs); n > 0 {
		k := g.Rng.Intn(n)
		content(func(s *spec) { s.Txs[k] = fresh("t") })
		content(func(s *spec) { s.Txs = append(s.Txs[:k], s.Txs[k+1:]...); s.NumTxs = uint64(len(s.Txs)) })
		if n > 1 {
			j := (k + 1 + g.Rng.Intn(n-1)) % n
			content(func(s *spec) { s.Txs[k], s.Txs[j] = s.Txs[j], s.Txs[k] })
		}
	}
	content(func(s *spec) { s.Ev = append(s.Ev, fresh("e")) })
	if n := len(b.Ev); n > 0 {
		k := g.Rng.Intn(n)
		content(func(s *spec) { s.Ev[k] = fresh("e") })
		content(func(s *spec) { s.Ev = append(s.Ev[:k], s.Ev[k+1:]...) })
		if n > 1 {
			content(func(s *spec) { s.Ev[0], s.Ev[n-1] = s.Ev[n-1], s.Ev[0] })
		}
	}
	n := len(b.Commit)
	k := g.Rng.Intn(n)
	content(func(s *spec) { s.Commit[k] = fresh("v") })
	if b.Commit[k] != "nil" {
		content(func(s *spec) { s.Commit[k] = "nil" })
	}
	content(func(s *spec) { s.Commit = append(s.Commit, fresh("v")) })
	if n > 1 {
		content(func(s *spec) { s.Commit = s.Commit[:n-1] })
		if b.Commit[0] != b.Commit[n-1] {
			content(func(s *spec) { s.Commit[0], s.Commit[n-1] = s.Commit[n-1], s.Commit[0] })
		}
	}
	add(func(s *spec) { s.Cbid = s.Cbid%50 + 1 }) // Commit.BlockID: serialised, not in Commit.Hash
	add(func(s *spec) { s.Cbid = 0 })
	add(func(s *spec) { s.Commit = nil })
	return out
}

func genBlockCase(g *hx.Gen) {
	b := rndSpec(g)
	ops := []string{hx.CaseOp("perturb"), b.line()}
	for _, p := range perturbations(g, b) {
		ops = append(ops, p.line())
	}
	ops = append(ops, b.line()) // same content again: same identity
	g.Count(fmt.Sprintf("block-txs:%d", len(b.Txs)))
	g.Count(fmt.Sprintf("block-ev:%d", len(b.Ev)))
	g.Count(fmt.Sprintf("block-commit:%d", len(b.Commit)))
	g.Case(fmt.Sprintf("block perturb txs=%d ev=%d commit=%d size=%d", len(b.Txs), len(b.Ev), len(b.Commit), b.Size), ops, len(b.Txs) >= 1)
}

func genRoots(g *hx.Gen, n int) {
	ids := g.Rng.Perm(80)[:n]
	var tids, eids, vids []string
	var th, eh, vh [][]byte
	for _, k := range ids {
		tids = append(tids, fmt.Sprintf("t%d", k))
		h := mkTx(k).Hash()
		th = append(th, h[:])
		eids = append(eids, fmt.Sprintf("e%d", k))
		eh = append(eh, mkEv(k).Hash())
		if g.Rng.Intn(4) == 0 {
			vids = append(vids, "nil")
			vh = append(vh, voteLeaf(nil))
		} else {
			vids = append(vids, fmt.Sprintf("v%d", k))
			vh = append(vh, voteLeaf(mkVote(k)))
		}
	}
	g.Count("content-roots")
	g.Case(fmt.Sprintf("content roots n=%d", n), []string{"case",
		fmt.Sprintf("txsroot ids=%s hashes=%s", joinIDs(tids), hexList(th)),
		fmt.Sprintf("evroot ids=%s hashes=%s", joinIDs(eids), hexList(eh)),
		fmt.Sprintf("commitroot ids=%s hashes=%s", joinIDs(vids), hexList(vh))}, n >= 2)
}

func (P) Generate(g *hx.Gen) {
	// corpus: the repaired defects (negative index: fix 22a07c6; header total: bounded by the callers, fix 1b2bd5e) and the boundary behaviours
	g.Case("corpus addpart negative index", []string{hx.CaseOp("malformed"), "fromheader total=2 hash=01", "addpart index=-1 bytes=- aunts=-", "addpart index=2 bytes=- aunts=-", "addpart index=0 bytes=00 aunts=-", "header"}, true)
	g.Case("corpus header total range", []string{hx.CaseOp("malformed"), "fromheader total=-1 hash=01", "addpart index=0 bytes=- aunts=-",
		fmt.Sprintf("fromheader total=%d hash=01", int64(math.MinInt64)), fmt.Sprintf("fromheader total=%d hash=01", int64(math.MaxInt64)),
		fmt.Sprintf("fromheader total=%d hash=01", maxSliceLen+1), "fromheader total=4611686018427387904 hash=01",
		"fromheader total=0 hash=-", "header", "addpart index=0 bytes=- aunts=-", "fromheader total=100000 hash=01", "addpart index=99999 bytes=01 aunts=-", "addpart index=100000 bytes=01 aunts=-"}, true)
	g.Case("corpus fromdata preconditions", []string{"case", "fromdata data=- size=4", "fromdata data=01 size=0", "fromdata data=01 size=-1", "fromdata data=0102030405 size=-3",
		"fromdata data=0102030405 size=2", "srcassemble", "srcpart i=2", "fromdata data=0102030405 size=5", "fromdata data=0102030405 size=6", "srcpart i=0",
		"hdreq a=0:- b=0:01", "hdreq a=3:0102 b=3:0102", "hdreq a=3:0102 b=4:0102", "hdreq a=-1:- b=-1:-", "root hashes=-", "tree hashes=-", "tree hashes=aa", "proof i=0",
		"verify i=0 total=1 leaf=aa aunts=- root=aa expect=true", "verify i=0 total=1 leaf=- aunts=- root=- expect=any", "verify i=0 total=1 leaf=aa aunts=aa root=aa expect=false"}, true)

	// (A) merkle: every (total, index)
	maxN := g.Pick(70, 300)
	for n := 1; n <= maxN; n++ {
		genMerkleSweep(g, n, 1)
	}
	for k := 0; k < g.Pick(40, 300); k++ {
		genMerkleSweep(g, 1+g.Rng.Intn(12), 3)
	}

	// (B) part sets
	nB := g.Pick(200, 3000)
	for k := 0; k < nB; k++ {
		var data []byte
		var size int
		label := "random"
		switch g.Rng.Intn(5) {
		case 0: // a real serialised block
			b, _ := blockOf(hx.Tokens(rndSpec(g).line()))
			bz, err := ser.EncodeToBytes(b)
			if err != nil {
				panic(err)
			}
			data, size, label = bz, []int{32, 64, 100, 256, 1024, 4096}[g.Rng.Intn(6)], "block"
		case 1: // exact multiples and off-by-one lengths
			size = 1 + g.Rng.Intn(40)
			data = rndBytes(g, size*(1+g.Rng.Intn(8))+[]int{0, 0, 1, size - 1}[g.Rng.Intn(4)])
			label = "boundary"
		case 2: // many small parts
			size = 1 + g.Rng.Intn(4)
			data = rndBytes(g, 1+g.Rng.Intn(g.Pick(80, 300)))
			label = "many"
		default:
			size = 1 + g.Rng.Intn(200)
			data = rndBytes(g, 1+g.Rng.Intn(1500))
		}
		genPartSet(g, data, size, label, g.Rng.Intn(5) == 0)
	}
	// a receiving set whose header is NOT the proposer's: nothing is admitted
	for k := 0; k < g.Pick(10, 100); k++ {
		data := rndBytes(g, 20+g.Rng.Intn(100))
		size := 5 + g.Rng.Intn(20)
		src := types.NewPartSetFromData(data, size)
		total := src.Total()
		hdrs := []string{fmt.Sprintf("fromheader total=%d hash=%s", total+1, hx.Hex(src.Hash())), fmt.Sprintf("fromheader total=%d hash=%s", total, hx.Hex(flip(g, src.Hash()))),
			fmt.Sprintf("fromheader total=%d hash=-", total)}
		ops := []string{"case", fmt.Sprintf("fromdata data=%s size=%d", hx.Hex(data), size), hdrs[g.Rng.Intn(3)]}
		for i := 0; i < total; i++ {
			p := src.GetPart(i)
			ops = append(ops, partLine(int64(i), p.Bytes, p.Proof.Aunts))
		}
		ops = append(ops, "assemble")
		g.Count("partset:foreign-header")
		g.Case("partset foreign header", ops, false)
	}

	// (C) block identity
	for k := 0; k < g.Pick(80, 1500); k++ {
		genBlockCase(g)
	}
	for n := 0; n <= g.Pick(9, 40); n++ {
		genRoots(g, n)
	}
	generateWide(g)
}
