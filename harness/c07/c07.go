// Package c07: every spendable unit is spent at most once across the whole chain — key images and account nonces —
// inside a block, across blocks, between mempool and chain, and across restarts; driven on the real application stack.
package c07

import (
	"fmt"
	"strconv"
	"strings"

	"lvharness/appsim"
	"lvharness/c06"
	"lvharness/hx"
)

type P struct{}

func (P) Rule() string {
	return "each case is a chain on the real LinkApplication in which every re-inclusion listed in the property is attempted: the same confidential output spent by two transactions " +
		"submitted to the mempool, forced into one block (forceblock = what a Byzantine proposer can assemble), into a later block, after a restart from the databases; the same signed account " +
		"transaction replayed through the mempool, forced twice into a block and into a later block; nonce gaps and reorderings; " +
		"forced blocks carrying VALUE-UNDERFUNDED account transfers (gas funded): the real Process commits them with a FAILED receipt and the nonce is CONSUMED — alone, mixed with valid ones, followed by the " +
		"sender's next nonce in the same block, twice the same, two different ones with one nonce, then replayed through the mempool and forced again (also after a restart); gas-underfunded ones (block invalid); " +
		"monitors on the committed history: no output spent twice, no transaction committed twice (a failed receipt counts as committed), per sender the committed nonces — executed OR failed — are 0,1,2,... " +
		"and the nonces the application reports equal the number of committed account transactions of each sender; " +
		"non-trivial = at least one re-inclusion attempt of an already used unit was made after it was committed or queued; distinct = distinct op sequence"
}

type exec struct{ c appsim.ChainExec }

func (P) NewExec() hx.Executor        { return &exec{} }
func (e *exec) Exec(op string) string { return e.c.ExecLedger(op) }

func (P) Monitor(c *hx.CaseRun) []hx.Failure {
	var fs []hx.Failure
	type txinfo struct {
		kind  string
		from  int
		nonce int
		w, in int
		more  []int // further DISTINCT inputs of a multi-input spend (indices into the wallet's outputs)
	}
	info := map[int]txinfo{}
	committedTx := map[int]int{}
	spentOut := map[string]int{}
	nextNonce := map[int]int{}
	failedReceipts := 0
	// account->confidential transactions: amount by id, and what the committed ones must have put into the pool (streams without spends)
	ainAmount := map[int]int64{}
	ainCommitted := map[int]int{}
	spends := false
	_ = failedReceipts
	for i, op := range c.Ops {
		ans := c.Impl[i]
		toks := hx.Tokens(op)
		a := hx.Tokens(ans)
		geti := func(ts []string, k string) int {
			v, _ := hx.Arg(ts, k)
			n, _ := strconv.Atoi(v)
			return n
		}
		if toks[0] == "uu" || toks[0] == "ua" || toks[0] == "uxbad" {
			spends = true
		}
		if toks[0] == "bal" && !spends && strings.HasPrefix(ans, "a=") {
			// every committed account->confidential transaction created its outputs exactly once: the pool (as its owners see it) holds
			// exactly the amounts of the DISTINCT committed ones
			var want int64
			for id := range ainCommitted {
				want += ainAmount[id]
			}
			ps, _ := hx.Arg(a, "pool")
			got, _ := strconv.ParseInt(ps, 10, 64)
			if got != want {
				fs = append(fs, hx.Failure{Monitor: "output_created_once", Class: "output-created-twice", Site: "types/tx_utxo.go:CheckStoreState",
					Msg: fmt.Sprintf("the confidential pool holds %d units, the distinct committed account->confidential transactions put in %d: the outputs of one of them exist twice (or not at all)", got, want)})
			}
		}
		if ids, ok := hx.Arg(a, "id"); ok {
			id, _ := strconv.Atoi(ids)
			if toks[0] == "ain" {
				am, _ := hx.Arg(toks, "amount")
				ainAmount[id], _ = strconv.ParseInt(am, 10, 64)
			}
			ti := txinfo{kind: toks[0], from: geti(toks, "from"), nonce: geti(toks, "nonce"), w: geti(toks, "w"), in: geti(toks, "in")}
			if m, ok := hx.Arg(toks, "more"); ok {
				seen := map[int]bool{ti.in: true}
				for _, x := range hx.SplitComma(m) {
					if j, err := strconv.Atoi(x); err == nil && !seen[j] {
						seen[j] = true
						ti.more = append(ti.more, j)
					}
				}
			}
			info[id] = ti
		}
		if toks[0] == "block" && strings.Contains(ans, "=panic") {
			// a block built from the node's OWN mempool must execute (a forced block may be refused: that is its expected fate)
			fs = append(fs, hx.Failure{Monitor: "no_panic", Class: "own-proposal-fails", Site: "app/state_processor.go:checkValid",
				Msg: "the block proposed from the mempool does not execute: " + ans})
		}
		if strings.HasPrefix(ans, "panic") {
			fs = append(fs, hx.Failure{Monitor: "no_panic", Class: "panic:" + ans, Site: "app", Msg: op})
		}
		if m, ok := hx.Arg(toks, "more"); ok && strings.Contains(ans, "admit=ok") {
			// the generator only emits `more=` lists that repeat an input
			in, _ := hx.Arg(toks, "in")
			seen := map[string]bool{in: true}
			dup := false
			for _, x := range hx.SplitComma(m) {
				if seen[x] {
					dup = true
				}
				seen[x] = true
			}
			if dup {
				fs = append(fs, hx.Failure{Monitor: "output_spent_once", Class: "same-output-twice-in-one-transaction", Site: "types/tx_utxo.go:checkTxSemantic",
					Msg: "a transaction that names the same key image twice was admitted: " + op})
			}
		}
		if toks[0] == "receipts" {
			// the op line carries what the implementation recorded (dry run), the answer confirms it: count failed receipts
			if v, ok := hx.Arg(toks, "st"); ok {
				for _, st := range hx.SplitComma(v) {
					if st == "0" {
						failedReceipts++
					}
				}
			}
		}
		if toks[0] == "nonces" && strings.HasPrefix(ans, "n=") {
			// every committed account transaction — executed or FAILED — consumed exactly one nonce of its sender
			for from, s := range hx.SplitComma(strings.TrimPrefix(ans, "n=")) {
				n, _ := strconv.Atoi(s)
				if n != nextNonce[from] {
					fs = append(fs, hx.Failure{Monitor: "nonce_consumed_by_every_receipt", Class: "nonce-not-consumed", Site: "app/state_transition.go:setNonce",
						Msg: fmt.Sprintf("sender %d: the application reports nonce %d after %d committed account transactions (failed receipts included)", from, n, nextNonce[from])})
				}
			}
		}
		if (toks[0] == "block" || toks[0] == "forceblock" || toks[0] == "sblk") && strings.HasPrefix(ans, "h=") {
			txs, _ := hx.Arg(a, "txs")
			for _, s := range hx.SplitComma(txs) {
				id, err := strconv.Atoi(s)
				if err != nil || id < 0 {
					continue
				}
				ti := info[id]
				committedTx[id]++
				if ti.kind == "ain" {
					ainCommitted[id]++
				}
				if committedTx[id] > 1 {
					fs = append(fs, hx.Failure{Monitor: "tx_committed_once", Class: "tx-committed-twice", Site: "app/state_processor.go:Process",
						Msg: fmt.Sprintf("transaction %d (%s) was committed %d times", id, ti.kind, committedTx[id])})
				}
				switch ti.kind {
				case "uu", "ua":
					for _, in := range append([]int{ti.in}, ti.more...) { // EVERY input of the committed transaction
						k := fmt.Sprintf("w%d.%d", ti.w, in)
						spentOut[k]++
						if spentOut[k] > 1 {
							fs = append(fs, hx.Failure{Monitor: "keyimage_once", Class: "output-spent-twice", Site: "app/state_processor.go:checkValid",
								Msg: "confidential output " + k + " was spent by two committed transactions"})
						}
					}
				case "xfer", "xfertok", "ain", "call", "create", "mcall", "calltok", "xferx":
					if ti.nonce != nextNonce[ti.from] {
						fs = append(fs, hx.Failure{Monitor: "exact_nonce", Class: "nonce-not-exact", Site: "app/state_transition.go:checkNonce",
							Msg: fmt.Sprintf("sender %d: transaction with nonce %d executed when the next nonce was %d", ti.from, ti.nonce, nextNonce[ti.from])})
					}
					nextNonce[ti.from] = ti.nonce + 1
				}
			}
		}
	}
	return fs
}

func (P) Generate(g *hx.Gen) {
	g.Case("corpus: forced block with value-underfunded transfers (failed receipts consume the nonce)", c06.WithReceipts(c06.Underfunded), true)
	for k, nu := 0, g.Pick(60, 500); k < nu; k++ {
		g.Case("underfunded forced blocks", c06.WithReceipts(c06.UnderfundedCase(g)), true)
	}
	for k, nc := 0, g.Pick(40, 300); k < nc; k++ {
		g.Case("contract transactions re-offered", c06.WithReceipts(ContractReuse(g)), true)
	}
	for k, ns := 0, g.Pick(40, 300); k < ns; k++ {
		g.Case("multi-input spends of DISTINCT outputs, every input then spent again", c06.WithReceipts(MultiInputCase(g)), true)
	}
	for k, ns := 0, g.Pick(40, 300); k < ns; k++ {
		g.Case("forced blocks with off-nonce transactions of every nonce-consuming kind", c06.WithReceipts(c06.NonceGapCase(g)), true)
	}
	for k, ns := 0, g.Pick(2, 8); k < ns; k++ {
		g.Case("real genesis: committed transactions re-offered between elections and awards", c06.WithReceipts(SysReuse(g)), true)
	}
	n := g.Pick(200, 1000)
	for k := 0; k < n; k++ {
		trie := g.Rng.Intn(2)
		ops := []string{hx.CaseOp(), fmt.Sprintf("chain trie=%d accts=3 wallets=2 seed=%d code=1", trie, 1+g.Rng.Intn(1000))}
		nonce := []int{0, 0, 0}
		id := 0
		var acctTxs, confTxs []int
		outs := 0 // outputs of wallet 0 (all funding goes to wallet 0; it pays wallet 1 / accounts)
		attempts := 0
		// funding
		for i := 0; i < 2+g.Rng.Intn(2); i++ {
			from := g.Rng.Intn(3)
			ops = append(ops, fmt.Sprintf("ain from=%d w=0 amount=%d nonce=%d", from, 30000000000+g.Rng.Intn(100000)*10000, nonce[from]))
			nonce[from]++
			acctTxs = append(acctTxs, id)
			id++
			outs++
		}
		ops = append(ops, "block", "bal")
		rounds := 2 + g.Rng.Intn(g.Pick(3, 5))
		for r := 0; r < rounds; r++ {
			switch g.Rng.Intn(12) {
			case 0: // two spends of one output through the mempool
				in := g.Rng.Intn(outs)
				ops = append(ops, fmt.Sprintf("uu w=0 in=%d to=1 amount=%d", in, 1+g.Rng.Intn(1000000)), fmt.Sprintf("ua w=0 in=%d to=%d amount=%d", in, g.Rng.Intn(3), 1+g.Rng.Intn(1000000)))
				confTxs = append(confTxs, id, id+1)
				id += 2
				attempts++
				ops = append(ops, "block")
				outs++ // change of the first spend at most
			case 1: // two spends of one output forced into ONE block: the same transaction twice, or two different transactions
				in := g.Rng.Intn(outs)
				ops = append(ops, fmt.Sprintf("uu w=0 in=%d to=1 amount=%d", in, 1+g.Rng.Intn(1000000)))
				a := id
				id++
				if g.Rng.Intn(2) == 0 {
					ops = append(ops, fmt.Sprintf("forceblock ids=%d,%d", a, a))
				} else {
					ops = append(ops, fmt.Sprintf("ua w=0 in=%d to=%d amount=%d", in, g.Rng.Intn(3), 1+g.Rng.Intn(1000000)))
					b := id
					id++
					if g.Rng.Intn(2) == 0 {
						ops = append(ops, fmt.Sprintf("forceblock ids=%d,%d", a, b))
					} else {
						ops = append(ops, fmt.Sprintf("forceblock ids=%d,%d", b, a))
					}
				}
				attempts++
				ops = append(ops, "block")
				confTxs = append(confTxs, a)
				outs++
			case 2: // replay a committed confidential transaction in a later block
				if len(confTxs) > 0 {
					ops = append(ops, fmt.Sprintf("forceblock ids=%d", confTxs[g.Rng.Intn(len(confTxs))]))
					attempts++
				}
			case 3: // replay a committed account transaction: through the mempool and forced
				t := acctTxs[g.Rng.Intn(len(acctTxs))]
				ops = append(ops, fmt.Sprintf("replay id=%d", t), fmt.Sprintf("forceblock ids=%d", t))
				attempts++
			case 4: // the same account transaction twice in one block
				from := g.Rng.Intn(3)
				ops = append(ops, fmt.Sprintf("xfer from=%d to=%d amount=%d nonce=%d", from, g.Rng.Intn(3), 1+g.Rng.Intn(1000), nonce[from]))
				a := id
				id++
				nonce[from]++
				acctTxs = append(acctTxs, a)
				ops = append(ops, fmt.Sprintf("forceblock ids=%d,%d", a, a), "block")
				attempts++
			case 5: // nonce gap / reordering forced into a block
				from := g.Rng.Intn(3)
				ops = append(ops, fmt.Sprintf("xfer from=%d to=%d amount=5 nonce=%d", from, g.Rng.Intn(3), nonce[from]+1))
				a := id
				id++
				ops = append(ops, fmt.Sprintf("forceblock ids=%d", a))
				ops = append(ops, fmt.Sprintf("xfer from=%d to=%d amount=6 nonce=%d", from, g.Rng.Intn(3), nonce[from]))
				b := id
				id++
				acctTxs = append(acctTxs, b, a)
				ops = append(ops, fmt.Sprintf("forceblock ids=%d,%d", a, b), fmt.Sprintf("forceblock ids=%d,%d", b, a))
				nonce[from] += 2
				attempts++
			case 7: // a value-underfunded transfer (gas funded) forced into a block: FAILED receipt, nonce consumed; then replayed and forced again
				from := g.Rng.Intn(3)
				if g.Rng.Intn(3) == 0 {
					ops = append(ops, fmt.Sprintf("xfertok from=%d to=%d amount=%d nonce=%d", from, g.Rng.Intn(3), 2000000+g.Rng.Intn(1000000), nonce[from]))
				} else {
					ops = append(ops, fmt.Sprintf("xfer from=%d to=%d amount=%d nonce=%d", from, g.Rng.Intn(3), 2000000000000+int64(g.Rng.Intn(1000000)), nonce[from]))
				}
				a := id
				id++
				nonce[from]++
				acctTxs = append(acctTxs, a)
				if g.Rng.Intn(2) == 0 {
					ops = append(ops, fmt.Sprintf("forceblock ids=%d,%d", a, a))
				}
				ops = append(ops, fmt.Sprintf("forceblock ids=%d", a), "nonces", fmt.Sprintf("replay id=%d", a), "block", fmt.Sprintf("forceblock ids=%d", a))
				attempts++
			case 6: // restart, then try to spend a spent output again
				ops = append(ops, "restart")
				if len(confTxs) > 0 {
					t := confTxs[g.Rng.Intn(len(confTxs))]
					ops = append(ops, fmt.Sprintf("replay id=%d", t), "block", fmt.Sprintf("forceblock ids=%d", t))
					attempts++
				}
			case 11: // one transaction naming the same output twice: adjacent (A,A), (A,A,B) or not (A,B,A), (B,A,A) relative to in=
				a := g.Rng.Intn(outs)
				b := g.Rng.Intn(outs)
				more := []string{fmt.Sprint(a), fmt.Sprintf("%d,%d", a, b), fmt.Sprintf("%d,%d", b, a), fmt.Sprintf("%d,%d,%d", b, b, a)}[g.Rng.Intn(4)]
				if b == a && outs > 1 {
					b = (a + 1) % outs
					more = fmt.Sprintf("%d,%d", b, a)
				}
				ops = append(ops, fmt.Sprintf("uu w=0 in=%d more=%s to=1 amount=%d", a, more, 1+g.Rng.Intn(1000000)), "block")
				id++
				attempts++
			case 8: // a spend without any confidential output (whole output to an account), then a second spend of that output
				in := g.Rng.Intn(outs)
				ops = append(ops, fmt.Sprintf("ua w=0 in=%d to=%d all=1", in, g.Rng.Intn(3)), "block")
				a := id
				id++
				confTxs = append(confTxs, a)
				ops = append(ops, fmt.Sprintf("uu w=0 in=%d to=1 amount=%d", in, 1+g.Rng.Intn(1000000)))
				b := id
				id++
				ops = append(ops, "block", fmt.Sprintf("forceblock ids=%d", b), fmt.Sprintf("forceblock ids=%d", a))
				if g.Rng.Intn(2) == 0 {
					ops = append(ops, "restart", fmt.Sprintf("replay id=%d", b), "block", fmt.Sprintf("forceblock ids=%d", b))
				}
				attempts++
			case 9, 10: // a contract call (succeeding, or reverting: c=255) committed, then offered again through the mempool and forced
				from := g.Rng.Intn(3)
				c := g.Rng.Intn(40)
				if g.Rng.Intn(2) == 0 {
					c = 255
				}
				ops = append(ops, fmt.Sprintf("call from=%d c=%d nonce=%d", from, c, nonce[from]), "block", "nonces")
				a := id
				id++
				nonce[from]++
				acctTxs = append(acctTxs, a)
				ops = append(ops, fmt.Sprintf("replay id=%d", a), "block", fmt.Sprintf("forceblock ids=%d", a))
				attempts++
			default:
				in := g.Rng.Intn(outs)
				ops = append(ops, fmt.Sprintf("ua w=0 in=%d to=%d amount=%d", in, g.Rng.Intn(3), 1+g.Rng.Intn(1000000)), "block")
				confTxs = append(confTxs, id)
				id++
				outs++
			}
			ops = append(ops, "bal", "nonces")
		}
		g.Count(fmt.Sprintf("mode:trie=%d", trie))
		g.Stats["reinclusion-attempts"] += attempts
		g.Case(fmt.Sprintf("reuse trie=%d", trie), c06.WithReceipts(ops), attempts > 0)
	}
}

// ContractReuse: every kind of contract transaction (creation succeeding / failing, calls that move value, keep it, revert,
// burn all gas, destroy the contract; token value) is committed — through the mempool or in a forced block — and then offered
// again: through the mempool, forced alone, forced twice in one block, after a restart; and with a stale / future nonce.
// A failed creation or call consumes its nonce like a successful one.
func ContractReuse(g *hx.Gen) []string {
	r := g.Rng
	ops := []string{hx.CaseOp("contracts"), fmt.Sprintf("chain trie=%d accts=3 wallets=2 seed=%d code=2", r.Intn(2), 1+r.Intn(1000))}
	add := func(f string, a ...interface{}) { ops = append(ops, fmt.Sprintf(f, a...)) }
	nonce := []int{0, 0, 0}
	id := 0
	ncreate := 0
	ckey := map[string]int{}
	var committed []int
	instance := -1
	rounds := 3 + r.Intn(g.Pick(3, 5))
	for k := 0; k < rounds; k++ {
		from := r.Intn(3)
		n := nonce[from]
		switch d := r.Intn(8); d { // now and then a stale or future nonce: refused by the mempool, invalid in a forced block
		case 0:
			if n > 0 {
				n--
			}
		case 1:
			n += 1 + r.Intn(3)
		}
		v := []int{0, 2, 500, 77770}[r.Intn(4)]
		switch r.Intn(6) {
		case 0:
			kind := []string{"ok", "empty", "revert", "invalid", "big"}[r.Intn(5)]
			add("create from=%d kind=%s nonce=%d value=%d gas=3000000", from, kind, n, v)
			ck := fmt.Sprintf("%d/%d/%s", from, n, kind) // the creation address is a function of (sender, nonce, init code)
			j, seen := ckey[ck]
			if !seen {
				j = ncreate
				ckey[ck] = j
				ncreate++
			}
			if kind == "ok" && n == nonce[from] && instance < 0 {
				instance = j
			}
			g.Count("reuse:create:" + kind)
		case 1:
			m := []int{0, 1, 3, 5, 6, 7, 8}[r.Intn(7)]
			add("mcall from=%d nonce=%d m=%d to=a%d value=%d gas=3000000", from, n, m, r.Intn(3), v-v%2)
			g.Count(fmt.Sprintf("reuse:mover:m=%d", m))
		case 2:
			add("mcall from=%d nonce=%d m=%d to=b%d value=%d tok=1", from, n, []int{0, 4}[r.Intn(2)], r.Intn(2), 1+r.Intn(100))
			g.Count("reuse:token-value")
		case 3:
			add("calltok from=%d nonce=%d c=%d value=%d", from, n, []int{3, 255}[r.Intn(2)], r.Intn(100))
			g.Count("reuse:token-value")
		case 4:
			add("xferx from=%d nonce=%d to=b%d amount=%d", from, n, r.Intn(2), 1+v)
			g.Count("reuse:transfer-to-new-address")
		default:
			add("xfer from=%d to=%d amount=%d nonce=%d", from, r.Intn(3), 1+v, n)
		}
		a := id
		id++
		if n == nonce[from] {
			nonce[from]++
			committed = append(committed, a)
			if r.Intn(2) == 0 {
				add("block")
			} else {
				add("forceblock ids=%d", a)
				add("block") // whatever the mempool still holds was rechecked: nothing stale may come out
			}
		} else {
			add("forceblock ids=%d", a) // wrong nonce: invalid block
			add("block")
		}
		// re-inclusion attempts of something committed
		if len(committed) == 0 {
			continue
		}
		t := committed[r.Intn(len(committed))]
		switch r.Intn(5) {
		case 0:
			add("replay id=%d", t)
			add("block")
		case 1:
			add("forceblock ids=%d", t)
		case 2:
			add("forceblock ids=%d,%d", t, t)
		case 3:
			add("restart")
			add("replay id=%d", t)
			add("block")
			add("forceblock ids=%d", t)
		default:
			if len(committed) > 1 {
				add("forceblock ids=%d,%d", committed[len(committed)-1], committed[0])
			}
		}
		g.Stats["reinclusion-attempts"]++
		add("nonces")
	}
	// the destroyed contract: a SELFDESTRUCT transaction, then the same transaction again (the contract is gone: the replay would be a plain transfer)
	if instance >= 0 {
		from := r.Intn(3)
		add("mcall from=%d nonce=%d m=2 to=a%d at=%d value=0 gas=3000000", from, nonce[from], r.Intn(3), instance)
		a := id
		id++
		nonce[from]++
		add("block")
		add("replay id=%d", a)
		add("forceblock ids=%d", a)
		add("nonces")
		g.Count("reuse:selfdestruct")
	}
	add("balx")
	return ops
}

// SysReuse: a chain on the REAL genesis (c06.SysCase: system contracts, an election every block, awards at heights 10 and 20)
// in which, after blocks, transactions committed earlier — transfers, account->confidential, spends of confidential outputs,
// creations, contract calls — are offered to the mempool again; the next block must not hold them.
func SysReuse(g *hx.Gen) []string {
	base := c06.SysCase(g)
	var ops []string
	built := 0
	for _, op := range base {
		ops = append(ops, op)
		switch hx.Tokens(op)[0] {
		case "xfer", "xfertok", "ain", "uu", "ua", "create", "mcall", "calltok", "call":
			built++
		case "srecs":
			if built > 0 && g.Rng.Intn(3) == 0 {
				for i, n := 0, 1+g.Rng.Intn(2); i < n; i++ {
					ops = append(ops, fmt.Sprintf("replay id=%d", g.Rng.Intn(built)))
					g.Stats["reinclusion-attempts"]++
				}
			}
		}
	}
	return ops
}

// MultiInputCase: confidential spends with SEVERAL inputs naming DISTINCT outputs of the wallet (2 and 3 inputs; the amounts add),
// committed through the mempool or in a forced block; then EVERY ONE of its inputs is spent again alone (double-spend at
// admission, refused in a forced block, also after a restart and replayed); two multi-input spends sharing one input in one
// forced block (both orders); a multi-input spend whose FIRST / whose LAST input is already spent.  Ids and indices are exact:
// wallet 0 is funded with F outputs (indices 0..F-1); everything else it receives has higher indices and is not used.
func MultiInputCase(g *hx.Gen) []string {
	r := g.Rng
	ops := []string{hx.CaseOp("multi"), fmt.Sprintf("chain trie=%d accts=3 wallets=2 seed=%d code=1", r.Intn(2), 1+r.Intn(1000))}
	add := func(f string, a ...interface{}) { ops = append(ops, fmt.Sprintf(f, a...)) }
	nonce := []int{0, 0, 0}
	id := 0
	F := 6 + r.Intn(3)
	for i := 0; i < F; i++ {
		from := i % 3
		add("ain from=%d w=0 amount=%d nonce=%d", from, 30000000000+r.Intn(1000)*10000, nonce[from])
		nonce[from]++
		id++
	}
	add("block")
	add("bal")
	free := r.Perm(F) // unspent funded outputs
	take := func(n int) []int {
		if len(free) < n {
			return nil
		}
		t := free[:n]
		free = free[n:]
		return t
	}
	list := func(xs []int) string {
		var ss []string
		for _, x := range xs {
			ss = append(ss, fmt.Sprint(x))
		}
		return strings.Join(ss, ",")
	}
	spend := func(ins []int) int { // a spend of ins[0] with more=ins[1:]
		op := []string{"uu", "ua"}[r.Intn(2)]
		to := r.Intn(2)
		if op == "ua" {
			to = r.Intn(3)
		}
		line := fmt.Sprintf("%s w=0 in=%d", op, ins[0])
		if len(ins) > 1 {
			line += " more=" + list(ins[1:])
		}
		add("%s to=%d amount=%d", line, to, 1+r.Intn(1000000))
		id++
		return id - 1
	}
	var spentIns []int // inputs of committed multi-input spends
	for k, n := 0, 2+r.Intn(2); k < n; k++ {
		ins := take(2 + r.Intn(2))
		if ins == nil {
			break
		}
		g.Count(fmt.Sprintf("multi:%d-inputs", len(ins)))
		m := spend(ins)
		if r.Intn(2) == 0 {
			add("block")
		} else {
			add("forceblock ids=%d", m)
			add("block")
		}
		add("bal")
		spentIns = append(spentIns, ins...)
		// every input again, alone: refused at admission and in a forced block
		for _, in := range ins {
			a := spend([]int{in})
			add("forceblock ids=%d", a)
			g.Stats["reinclusion-attempts"]++
		}
		add("block")
		if r.Intn(2) == 0 {
			add("restart")
			a := spend([]int{ins[r.Intn(len(ins))]})
			add("replay id=%d", a)
			add("forceblock ids=%d", a)
			add("forceblock ids=%d", m)
			add("block")
		}
		switch r.Intn(3) {
		case 0: // a multi-input spend whose FIRST input is already spent
			if x := take(1); x != nil {
				a := spend([]int{ins[0], x[0]})
				add("forceblock ids=%d", a)
				free = append(free, x...)
			}
		case 1: // ... whose LAST input is already spent
			if x := take(1); x != nil {
				a := spend([]int{x[0], ins[len(ins)-1]})
				add("forceblock ids=%d", a)
				free = append(free, x...)
			}
		default: // two multi-input spends sharing one input, in one forced block, both orders; then one of them alone
			if x := take(3); x != nil {
				a := spend([]int{x[0], x[1]})
				b := spend([]int{x[2], x[1]}) // refused by the mempool: x[1] is pending
				add("forceblock ids=%d,%d", a, b)
				add("forceblock ids=%d,%d", b, a)
				add("forceblock ids=%d", b)
				add("block") // a is still pending unless the foreign block spent its input: rechecked
				spentIns = append(spentIns, x[1], x[2])
				g.Count("multi:shared-input-in-one-block")
			}
		}
		add("bal")
		add("nonces")
	}
	return ops
}
