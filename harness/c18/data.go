package c18

import (
	"fmt"
	"strconv"
	"strings"
)

// genBytes: the byte strings of the op lines are given by a spec kind:seed:len that the harness and the Lean
// driver expand identically.  r = LCG bytes (incompressible), z = period-13 pattern (compressible).
func genBytes(kind string, seed, n int) []byte {
	out := make([]byte, n)
	switch kind {
	case "z":
		for i := range out {
			out[i] = byte(seed + (i%13)*17)
		}
	default:
		x := uint64(seed) % (1 << 31)
		for i := range out {
			x = (x*1103515245 + 12345) % (1 << 31)
			out[i] = byte(x >> 16)
		}
	}
	return out
}

type spec struct {
	kind string
	seed int
	n    int
}

func (s spec) String() string { return fmt.Sprintf("%s:%d:%d", s.kind, s.seed, s.n) }
func (s spec) bytes() []byte  { return genBytes(s.kind, s.seed, s.n) }

func parseSpec(s string) (spec, bool) {
	p := strings.Split(s, ":")
	if len(p) != 3 {
		return spec{}, false
	}
	seed, e1 := strconv.Atoi(p[1])
	n, e2 := strconv.Atoi(p[2])
	if e1 != nil || e2 != nil || n < 0 || (p[0] != "r" && p[0] != "z") {
		return spec{}, false
	}
	return spec{p[0], seed, n}, true
}

const fnvOff = 14695981039346656037
const fnvPrime = 1099511628211

func fnvAdd(h uint64, b []byte) uint64 {
	for _, c := range b {
		h ^= uint64(c)
		h *= fnvPrime
	}
	return h
}

func fnvU32(h uint64, v int) uint64 {
	return fnvAdd(h, []byte{byte(v >> 24), byte(v >> 16), byte(v >> 8), byte(v)})
}

func fnvHex(h uint64) string { return fmt.Sprintf("%016x", h) }

func fnvOf(b []byte) string { return fnvHex(fnvAdd(fnvOff, b)) }

func atoi(s string) int {
	n, _ := strconv.Atoi(s)
	return n
}
