package c18

// Handshake cases: MakeSecretConnection (real code) on one or both ends, with a man in the middle that sees and
// rewrites the four handshake messages (ephemeral key A->B, B->A; auth-signature frame A->B, B->A), or an attacker
// that terminates the connection itself (reflection, replay, own key).

import (
	"bytes"
	crand "crypto/rand"
	"crypto/sha256"
	"encoding/binary"
	"fmt"
	"io"
	"sync"
	"sync/atomic"
	"time"

	"github.com/golang/snappy"
	"github.com/lianxiangcloud/linkchain/libs/crypto"
	"github.com/lianxiangcloud/linkchain/libs/ser"

	"lvharness/hx"
)

// same shape as conn.authSigMessage (unexported there); the encoding is positional
type authMsg struct {
	Key crypto.PubKey
	Sig crypto.Signature
}

var ephLen = len(ser.MustEncodeToBytesWithType(&[32]byte{}))

func encEph(k [32]byte) []byte { return ser.MustEncodeToBytesWithType(&k) }

func decEph(b []byte) ([32]byte, bool) {
	var k [32]byte
	err := ser.DecodeBytesWithType(b, &k)
	return k, err == nil
}

func frameOf(plain []byte) []byte {
	enc := snappy.Encode(nil, plain)
	f := make([]byte, 5, 5+len(enc))
	f[0] = 0xFF
	binary.BigEndian.PutUint32(f[1:], uint32(len(enc)))
	return append(f, enc...)
}

func encAuth(m authMsg) []byte { return frameOf(ser.MustEncodeToBytesWithType(m)) }

func decAuth(frame []byte) (authMsg, bool) {
	var m authMsg
	if len(frame) < 5 {
		return m, false
	}
	plain, err := snappy.Decode(nil, frame[5:])
	if err != nil {
		return m, false
	}
	err = ser.DecodeBytesWithType(plain, &m)
	return m, err == nil
}

func challengeOf(a, b [32]byte) []byte {
	lo, hi := a, b
	if bytes.Compare(a[:], b[:]) >= 0 {
		lo, hi = b, a
	}
	h := sha256.Sum256(append(append([]byte{}, lo[:]...), hi[:]...))
	return h[:]
}

// readMsg reads handshake message idx (0 = eph key, 1 = auth frame) from r
func readMsg(r io.Reader, idx int) ([]byte, error) {
	if idx == 0 {
		b := make([]byte, ephLen)
		_, err := io.ReadFull(r, b)
		return b, err
	}
	h := make([]byte, 5)
	if _, err := io.ReadFull(r, h); err != nil {
		return nil, err
	}
	l := binary.BigEndian.Uint32(h[1:])
	if l > 1<<20 {
		return nil, fmt.Errorf("len")
	}
	p := make([]byte, l)
	if _, err := io.ReadFull(r, p); err != nil {
		return nil, err
	}
	return append(h, p...), nil
}

type seen struct {
	mu         sync.Mutex
	eph        map[string][32]byte // "AB" -> A's eph key as sent
	ephRaw     map[string][]byte
	authRaw    map[string][]byte
	regions    map[string]string
	relayWrong bool
}

// tamper returns the bytes to forward for message idx of direction dir ("AB"/"BA"), or nil to drop and close.
type tamperFn func(s *seen, dir string, idx int, msg []byte) []byte

func relay(s *seen, dir string, from, to *end, t tamperFn, wg *sync.WaitGroup) {
	defer wg.Done()
	defer to.out.closeWrite()
	for idx := 0; idx < 2; idx++ {
		msg, err := readMsg(from, idx)
		if err != nil {
			return
		}
		s.mu.Lock()
		if idx == 0 {
			if k, ok := decEph(msg); ok {
				s.eph[dir] = k
			}
			s.ephRaw[dir] = msg
		} else {
			s.authRaw[dir] = msg
		}
		s.mu.Unlock()
		out := t(s, dir, idx, msg)
		if out == nil {
			return
		}
		to.Write(out)
	}
	io.Copy(to, from)
}

type hsOutcome struct {
	a, b   string
	hung   bool
	region string
}

func classify(r hsResult, keys map[string]crypto.PubKey) string {
	if r.err != nil || r.sc == nil {
		return "fail"
	}
	pk := r.sc.RemotePubKey()
	if pk == nil {
		return "ok:nil"
	}
	for _, n := range []string{"A", "B", "M"} {
		if k, ok := keys[n]; ok && pk.Equals(k) {
			return "ok:" + n
		}
	}
	return "ok:other"
}

// session runs A (and B unless attacker != nil) through the handshake.
//   - with B: A <-> mitm <-> B, messages rewritten by t
//   - without B: attacker(s, conn to A) plays the peer
func session(k int, seed uint32, join bool, ka, kb, km crypto.PrivKeyEd25519, t tamperFn, attacker func(s *seen, c *end)) (hsOutcome, *seen) {
	s := &seen{eph: map[string][32]byte{}, ephRaw: map[string][]byte{}, authRaw: map[string][]byte{}, regions: map[string]string{}}
	keys := map[string]crypto.PubKey{"A": ka.PubKey(), "B": kb.PubKey(), "M": km.PubKey()}
	ea, ma, _, _ := duplex(k, seed, false, join)
	out := hsOutcome{b: "-"}
	ca := runHS(ea, ka)
	var cb chan hsResult
	var wg sync.WaitGroup
	var eb, mb *end
	if attacker == nil {
		mb, eb, _, _ = duplex(k, seed+5, false, join)
		cb = runHS(eb, kb)
		wg.Add(2)
		go relay(s, "AB", ma, mb, t, &wg)
		go relay(s, "BA", mb, ma, t, &wg)
	} else {
		wg.Add(1)
		go func() { defer wg.Done(); defer ma.out.closeWrite(); attacker(s, ma) }()
	}
	to := time.After(400 * time.Millisecond)
	pending := 1
	if cb != nil {
		pending = 2
	}
	for pending > 0 {
		select {
		case r := <-ca:
			out.a = classify(r, keys)
			settle(out.a, ea.out)
			ea.out.closeWrite() // A writes nothing more: the far side drains what is in flight, then sees EOF
			ca = nil
			pending--
		case r := <-cb:
			out.b = classify(r, keys)
			settle(out.b, eb.out)
			eb.out.closeWrite()
			cb = nil
			pending--
		case <-to:
			// nobody can make progress any more (or the case is pathologically slow): reported, then cut
			out.hung = true
			ea.Close()
			ma.Close()
			if eb != nil {
				eb.Close()
				mb.Close()
			}
			to = nil
		}
	}
	ea.Close()
	ma.Close()
	if eb != nil {
		eb.Close()
		mb.Close()
	}
	wg.Wait()
	return out, s
}

// A party that returns an error may still have its auth frame in a goroutine that has not run yet (cmn.Parallel
// returns at the first abort).  Whether that frame leaves is a race in the real system; the harness lets it leave
// (waits until the party has written more than its eph key, at most 30 ms) so that the answer is a function of the op.
func settle(res string, out *halfPipe) {
	if res != "fail" {
		return
	}
	for i := 0; i < 60 && out.written() <= ephLen; i++ {
		time.Sleep(500 * time.Microsecond)
	}
}

func passThrough(s *seen, dir string, idx int, msg []byte) []byte { return msg }

func randKey32() [32]byte {
	var k [32]byte
	crand.Read(k[:])
	return k
}

// hs scen=<name> k=K seed=S j=0|1 [dir=AB|BA|both] [msg=ephAB|ephBA|authAB|authBA off=<byte index, clamped> bit=<0..7>]
func (e *exec) hsOp(toks []string) string {
	e.closeAll()
	scen := argS(toks, "scen")
	k, seed := atoi(argS(toks, "k")), uint32(atoi(argS(toks, "seed")))
	join := argS(toks, "j") == "1"
	ka, kb, km := crypto.GenPrivKeyEd25519(), crypto.GenPrivKeyEd25519(), crypto.GenPrivKeyEd25519()
	var t tamperFn = passThrough
	var attacker func(s *seen, c *end)
	signAs := func(key crypto.PrivKeyEd25519, a, b [32]byte) crypto.Signature {
		sig, _ := key.Sign(challengeOf(a, b))
		return sig
	}
	rewriteAuth := func(dirs string, f func(s *seen, m authMsg) authMsg) tamperFn {
		return func(s *seen, dir string, idx int, msg []byte) []byte {
			if idx != 1 || (dirs != "both" && dirs != dir) {
				return msg
			}
			m, ok := decAuth(msg)
			if !ok {
				s.relayWrong = true
				return msg
			}
			return encAuth(f(s, m))
		}
	}
	dir := argS(toks, "dir")
	switch scen {
	case "none":
	case "flip":
		target := argS(toks, "msg")
		off, bit := atoi(argS(toks, "off")), uint(atoi(argS(toks, "bit")))
		t = func(s *seen, dir string, idx int, msg []byte) []byte {
			name := []string{"eph", "auth"}[idx] + dir
			if name != target {
				return msg
			}
			out := append([]byte{}, msg...)
			i := off
			if i >= len(out) {
				i = len(out) - 1
			}
			out[i] ^= 1 << (bit % 8)
			s.mu.Lock()
			s.regions["flip"] = regionOf(idx, i, len(out))
			s.mu.Unlock()
			return out
		}
	case "ephsub": // the eph key of direction dir (or both) is replaced by a key of the attacker's
		t = func(s *seen, d string, idx int, msg []byte) []byte {
			if idx == 0 && (dir == "both" || dir == d) {
				return encEph(randKey32())
			}
			return msg
		}
	case "keysub": // presented key replaced by the attacker's, signature kept
		t = rewriteAuth(dir, func(s *seen, m authMsg) authMsg { return authMsg{km.PubKey(), m.Sig} })
	case "sigonly": // presented key kept, signature replaced by the attacker's over the right challenge
		t = rewriteAuth(dir, func(s *seen, m authMsg) authMsg {
			s.mu.Lock()
			defer s.mu.Unlock()
			return authMsg{m.Key, signAs(km, s.eph["AB"], s.eph["BA"])}
		})
	case "sigsub": // attacker presents its own key with its own signature over the session's challenge
		t = rewriteAuth(dir, func(s *seen, m authMsg) authMsg {
			s.mu.Lock()
			defer s.mu.Unlock()
			return authMsg{km.PubKey(), signAs(km, s.eph["AB"], s.eph["BA"])}
		})
	case "wrongchal": // attacker's own key, signature over a different challenge
		t = rewriteAuth(dir, func(s *seen, m authMsg) authMsg {
			return authMsg{km.PubKey(), signAs(km, randKey32(), randKey32())}
		})
	case "nilkey":
		t = rewriteAuth(dir, func(s *seen, m authMsg) authMsg { return authMsg{nil, m.Sig} })
	case "nilsig":
		t = rewriteAuth(dir, func(s *seen, m authMsg) authMsg { return authMsg{m.Key, nil} })
	case "wrongtype": // a secp256k1 key with the ed25519 signature
		t = rewriteAuth(dir, func(s *seen, m authMsg) authMsg {
			return authMsg{crypto.GenPrivKeySecp256k1().PubKey(), m.Sig}
		})
	case "swap": // each side gets its own auth message back (B is present and honest)
		var mu sync.Mutex
		got := map[string][]byte{}
		cond := sync.NewCond(&mu)
		t = func(s *seen, d string, idx int, msg []byte) []byte {
			if idx != 1 {
				return msg
			}
			other := map[string]string{"AB": "BA", "BA": "AB"}[d]
			mu.Lock()
			got[d] = msg
			cond.Broadcast()
			deadline := time.Now().Add(300 * time.Millisecond)
			for got[other] == nil && time.Now().Before(deadline) {
				mu.Unlock()
				time.Sleep(time.Millisecond)
				mu.Lock()
			}
			o := got[other]
			mu.Unlock()
			return o // the message of the opposite direction goes to this direction's receiver
		}
	case "coalesce":
		// nothing is altered: the eph key and the auth frame of direction dir (or both) merely reach the receiver in ONE
		// segment (as TCP may deliver them); with k > 0 the receiver's reads then cut that segment at arbitrary places,
		// also across the key / frame boundary
		held := map[string][]byte{}
		t = func(s *seen, d string, idx int, msg []byte) []byte {
			if dir != "both" && dir != d && dir != "" {
				return msg
			}
			if dir == "" && d != "BA" {
				return msg
			}
			if idx == 0 {
				s.mu.Lock()
				held[d] = msg
				s.mu.Unlock()
				return []byte{}
			}
			s.mu.Lock()
			defer s.mu.Unlock()
			return append(append([]byte{}, held[d]...), msg...)
		}
	case "drop":
		target := argS(toks, "msg")
		t = func(s *seen, d string, idx int, msg []byte) []byte {
			if []string{"eph", "auth"}[idx]+d == target {
				return nil
			}
			return msg
		}
	case "mitmfull": // two honest handshakes by the attacker with its own key
		attacker = func(s *seen, c *end) {
			r := <-runHS(c, km)
			_ = r
		}
	case "reflect": // the attacker owns no key at all: it echoes A's own bytes
		attacker = func(s *seen, c *end) { io.Copy(c, c) }
	case "replay", "replayeph":
		// an honest session of B is recorded first; then its auth frame (and, for replayeph, its eph key) is replayed to A
		_, rec := session(k, seed+9, join, crypto.GenPrivKeyEd25519(), kb, km, passThrough, nil)
		rec.mu.Lock()
		oldEph, oldAuth := rec.ephRaw["BA"], rec.authRaw["BA"]
		rec.mu.Unlock()
		if oldEph == nil || oldAuth == nil {
			return "bad-op"
		}
		attacker = func(s *seen, c *end) {
			if scen == "replay" {
				c.Write(encEph(randKey32()))
			} else {
				c.Write(oldEph)
			}
			c.Write(oldAuth)
			io.Copy(io.Discard, c)
		}
	default:
		return "bad-op"
	}
	out, s := session(k, seed, join, ka, kb, km, t, attacker)
	if s.relayWrong {
		return "bad-op"
	}
	if out.hung {
		atomic.AddInt64(&hungCount, 1)
	}
	if scen == "mitmfull" {
		return fmt.Sprintf("a=%s b=-", out.a)
	}
	return fmt.Sprintf("a=%s b=%s", out.a, out.b)
}

func regionOf(idx, i, n int) string {
	if idx == 0 {
		if i < n-32 {
			return "eph-prefix"
		}
		return "eph-key"
	}
	switch {
	case i == 0:
		return "frame-hdr"
	case i < 5:
		return "frame-len"
	}
	return "frame-payload"
}

var hungCount int64

func dummyKey() crypto.PrivKeyEd25519 { return crypto.GenPrivKeyEd25519() }

func dummySig() crypto.Signature {
	s, _ := dummyKey().Sign([]byte("x"))
	return s
}

var _ = hx.Hex
