// Package c18: correspondence + monitors for peer connections (libs/p2p/conn): SecretConnection byte stream,
// MConnection channel multiplexing, and the authentication handshake, all on the real code in-process.
package c18

import (
	"fmt"
	"strings"
	"sync/atomic"

	"github.com/golang/snappy"

	"lvharness/hx"
)

type P struct{}

func (P) Rule() string {
	return "transport: in-memory duplex whose Read returns 1..k bytes (k in 1,2,3,7,64,1000,unbounded), half of the cases with Writes coalesced into one byte stream " +
		"(a Read may span the tail of one message and the head of the next, also across the plaintext key / auth frame boundary of the handshake). " +
		"stream: real SecretConnection pair over that duplex; writes of 1 B..3 frames incl. " +
		"32767/32768/32769/65535/65536/65537 B, read buffers 0..70000 B, both directions, drained to EOF; inj: hand-made frames (bad version/type, " +
		"over-length, truncated, corrupt snappy, chunk > dataMaxSize, sealed type) into the receive side. mux: real MConnection pair (half of them over a " +
		"SecretConnection pair), 1-4 channels, priorities 1..10, packet payload 1..1024 B, one concurrent sender per channel, messages 1 B..multi-packet incl. " +
		"exact packet multiples, empty and unknown-channel sends, one over-capacity message; mraw: the harness as malicious peer feeds PacketMsg sequences " +
		"(EOF 0/1/2, empty fragments, unknown channel, over capacity, oversize packet) to a real MConnection. hs: MakeSecretConnection under a man in the " +
		"middle (bit flips in every region of all four handshake messages, key/signature substitution, replay, reflection, swap, drop, " +
		"both messages of one direction coalesced into one segment). " +
		"switch: a real libs/p2p Switch (NewP2pManager + a harness Listener); the harness dials in as key holders A..F: honest NodeInfo, another key's " +
		"(impersonation), the switch's own key, forged CachePeerID, undecodable / no NodeInfo, other network / version / bad moniker, MarkBadNode, disconnects; " +
		"every case ends with honest attempts of the key holders. " +
		"non-trivial = a stream case that crosses a frame boundary or reads with a buffer smaller than a frame; a mux case with >= 2 channels or a " +
		"multi-packet message; any tampered handshake; distinct = distinct op sequence"
}

type exec struct {
	sp  *scPair
	sws *swState
}

func (P) NewExec() hx.Executor { return &exec{} }

func (e *exec) closeAll() {
	if e.sp != nil {
		e.sp.ea.Close()
		e.sp.eb.Close()
		e.sp = nil
	}
	if e.sws != nil {
		e.sws.close()
		e.sws = nil
	}
}

func (e *exec) Exec(op string) string {
	toks := hx.Tokens(op)
	switch toks[0] {
	case "case":
		e.closeAll()
		return "ok"
	case "sc", "scp", "seal", "wf", "w", "r", "inj", "maxenc":
		return e.streamOp(toks)
	case "mux":
		return e.muxOp(toks)
	case "mraw":
		return e.mrawOp(toks)
	case "mtry":
		return e.mtryOp(toks)
	case "mping":
		return e.mpingOp(toks)
	case "hs":
		return e.hsOp(toks)
	case "swnew", "swblack", "swconn", "swdrop", "swsend", "swrecv":
		return e.swOp(toks)
	}
	return "bad-op"
}

// ---- monitors ------------------------------------------------------------------------------

func fail(mon, class, site, msg string) hx.Failure {
	return hx.Failure{Monitor: mon, Class: class, Site: site, Msg: msg}
}

const siteSC = "libs/p2p/conn/secret_connection.go"
const siteMC = "libs/p2p/conn/connection.go"

func ansArg(ans, key string) string {
	v, _ := hx.Arg(hx.Tokens(ans), key)
	return v
}

func (P) Monitor(c *hx.CaseRun) []hx.Failure {
	var fs []hx.Failure
	swBlack, swPeers := map[string]bool{}, map[string]bool{}
	deadDir := map[string]bool{}
	var sealPend []sealEvent
	var sealCur []byte
	sealOK, sealRest := 0, 0
	// --- stream: per direction, what was written and how far the reader got
	type dirSt struct {
		written []byte
		pos     int
		dirty   bool // something was injected: byte identity is no longer claimed for this direction
	}
	dirs := map[string]*dirSt{"a": {}, "b": {}} // keyed by WRITING side
	other := map[string]string{"a": "b", "b": "a"}
	for i, op := range c.Ops {
		toks := hx.Tokens(op)
		ans := c.Impl[i]
		if strings.HasPrefix(ans, "panic") {
			fs = append(fs, fail("no_panic", "panic:"+strings.TrimPrefix(ans, "panic "), strings.TrimPrefix(ans, "panic "), "panic on: "+clipS(op)))
			continue
		}
		switch toks[0] {
		case "sc":
			deadDir = map[string]bool{}
			dirs = map[string]*dirSt{"a": {}, "b": {}}
			if ans != "ok" {
				fs = append(fs, fail("handshake_live", "handshake-honest-fails", siteSC+":MakeSecretConnection", "honest pair did not connect: "+ans))
			}
		case "w":
			sp, ok := parseSpec(argS(toks, "d"))
			if !ok || ans == "dead" {
				continue
			}
			d := dirs[argS(toks, "side")]
			if deadDir[argS(toks, "side")] {
				if ansArg(ans, "err") == "none" {
					fs = append(fs, fail("stream_write_complete", "write-on-failed-transport-succeeds", siteSC+":Write", "Write reported success on a transport that had failed: "+ans))
				}
				continue
			}
			if ansArg(ans, "err") != "none" || atoi(ansArg(ans, "n")) != sp.n {
				fs = append(fs, fail("stream_write_complete", "stream-write-short", siteSC+":Write", fmt.Sprintf("Write of %d bytes answered %s", sp.n, ans)))
				d.dirty = true
				continue
			}
			d.written = append(d.written, sp.bytes()...)
			if ansArg(ans, "fit") != "true" {
				fs = append(fs, fail("frame_fits", "frame-exceeds-capacity", siteSC+":Write", "a written frame does not fit frameCapacity / the snappy bound: "+ans))
			}
			sum := 0
			for _, f := range hx.SplitComma(ansArg(ans, "frames")) {
				p := strings.Split(f, ":")
				if len(p) == 2 {
					sum += atoi(p[1])
				}
			}
			if sum != sp.n {
				fs = append(fs, fail("stream_frames_cover", "stream-frames-do-not-cover-write", siteSC+":Write", fmt.Sprintf("frames %s for a write of %d bytes", ansArg(ans, "frames"), sp.n)))
			}
		case "wf":
			// Write on a transport that takes k more frames: the count returned is exactly the bytes of the frames that left
			sp, ok := parseSpec(argS(toks, "d"))
			if !ok || ans == "dead" || deadDir[argS(toks, "side")] {
				continue
			}
			k, nch := atoi(argS(toks, "k")), (sp.n+hDataMaxSize-1)/hDataMaxSize
			wantN, wantErr := sp.n, "none"
			if k < nch {
				wantN, wantErr = k*hDataMaxSize, "write"
				deadDir[argS(toks, "side")] = true
			}
			if atoi(ansArg(ans, "n")) != wantN || ansArg(ans, "err") != wantErr {
				fs = append(fs, fail("stream_write_count", "write-count-after-transport-error", siteSC+":Write",
					fmt.Sprintf("Write of %d bytes on a transport taking %d frames answered %s, want n=%d err=%s", sp.n, k, ans, wantN, wantErr)))
			}
			d := dirs[argS(toks, "side")]
			d.written = append(d.written, sp.bytes()[:wantN]...)
		case "scp":
			dirs = map[string]*dirSt{"a": {}, "b": {}}
			dirs["a"].dirty = true // byte identity of this direction is judged frame by frame (sealPend)
			sealPend, sealOK = nil, 0
			if ans != "ok" {
				fs = append(fs, fail("handshake_live", "handshake-honest-fails", siteSC+":MakeSecretConnection", "hand-made peer did not connect: "+ans))
			}
		case "seal":
			// ground truth of the hand-made peer: a frame is acceptable iff it is undamaged and sealed for the next receive
			// nonce (index = number of frames accepted so far); what it then carries is (data ++ zeros)[:lf]
			sp, _ := parseSpec(argS(toks, "d"))
			idx, lf := atoi(argS(toks, "idx")), atoi(argS(toks, "lf"))
			ev := sealEvent{}
			if idx == sealOK && argS(toks, "cut") == "" && argS(toks, "flip") == "" {
				sealOK++
				plain := append([]byte{byte(lf >> 24), byte(lf >> 16), byte(lf >> 8), byte(lf)}, sp.bytes()...)
				if v := argS(toks, "short"); v != "" {
					plain = plain[:atoi(v)]
				}
				buf := make([]byte, hDataMaxSize+4)
				if len(plain) <= len(buf) {
					copy(buf, plain)
				}
				l := int(uint32(buf[0])<<24 | uint32(buf[1])<<16 | uint32(buf[2])<<8 | uint32(buf[3]))
				if l > hDataMaxSize {
					ev.err = "chunklen"
				} else {
					ev.accept, ev.chunk = true, buf[4:4+l]
				}
			} else {
				ev.err = "decrypt"
			}
			sealPend = append(sealPend, ev)
		case "inj":
			dirs[other[argS(toks, "side")]].dirty = true
			if sealPend != nil || c.Tags["sealed"] {
				sealPend = append(sealPend, sealEvent{skip: true})
			}
		case "r":
			if ans == "dead" {
				continue
			}
			if ansArg(ans, "big") == "true" {
				fs = append(fs, fail("read_allocation_bounded", "read-allocates-announced-length", siteSC+":Read",
					"Read allocated more than 1 MiB on behalf of one frame (frames are at most 64 KiB, chunks at most 32 KiB): "+ans))
			}
			if c.Tags["sealed"] && argS(toks, "side") == "b" {
				// one frame event per read that starts with an empty recvBuffer
				if sealRest > 0 {
					m := atoi(ansArg(ans, "n"))
					if ansArg(ans, "err") != "none" || m > sealRest || fnvOf(sealCur[len(sealCur)-sealRest:len(sealCur)-sealRest+m]) != ansArg(ans, "d") {
						fs = append(fs, fail("sealed_frames", "sealed-frame-bytes-differ", siteSC+":Read", "remainder of a sealed chunk read back differently: "+ans))
						sealRest = 0
					} else {
						sealRest -= m
					}
				} else if len(sealPend) > 0 {
					ev := sealPend[0]
					sealPend = sealPend[1:]
					m, er := atoi(ansArg(ans, "n")), ansArg(ans, "err")
					switch {
					case ev.skip:
					case !ev.accept && er != ev.err:
						cl := "sealed-frame-error-kind"
						if er == "none" {
							cl = "sealed-frame-replayed-or-forged-accepted"
						}
						fs = append(fs, fail("sealed_frames", cl, siteSC+":Read", fmt.Sprintf("a sealed frame that must be refused (%s) answered %s", ev.err, ans)))
					case ev.accept:
						want := atoi(argS(toks, "n"))
						if want > len(ev.chunk) {
							want = len(ev.chunk)
						}
						if er != "none" || m != want || fnvOf(ev.chunk[:m]) != ansArg(ans, "d") {
							fs = append(fs, fail("sealed_frames", "sealed-frame-bytes-differ", siteSC+":Read", fmt.Sprintf("a valid sealed frame of %d bytes answered %s", len(ev.chunk), ans)))
						} else {
							sealCur, sealRest = ev.chunk, len(ev.chunk)-m
						}
					}
				}
				continue
			}
			d := dirs[other[argS(toks, "side")]]
			if d.dirty {
				continue
			}
			n, er, want := atoi(ansArg(ans, "n")), ansArg(ans, "err"), atoi(argS(toks, "n"))
			switch {
			case er == "eof":
				if d.pos != len(d.written) {
					fs = append(fs, fail("stream_identity", "stream-bytes-lost", siteSC+":Read", fmt.Sprintf("EOF after %d of %d written bytes", d.pos, len(d.written))))
				}
			case er != "none":
				fs = append(fs, fail("stream_identity", "stream-read-error", siteSC+":Read", "read error on a faithful transport: "+ans))
				d.dirty = true
			default:
				if n > want || d.pos+n > len(d.written) || fnvOf(d.written[d.pos:d.pos+n]) != ansArg(ans, "d") {
					fs = append(fs, fail("stream_identity", "stream-bytes-differ", siteSC+":Read", fmt.Sprintf("read #%d returned %d bytes that are not the next %d bytes written (offset %d of %d)", i, n, n, d.pos, len(d.written))))
					d.dirty = true
				} else {
					d.pos += n
					if n == 0 && want > 0 {
						fs = append(fs, fail("stream_progress", "stream-empty-read", siteSC+":Read", "Read returned 0 bytes, nil error, into a non-empty buffer"))
					}
				}
			}
		case "maxenc":
			n := atoi(argS(toks, "n"))
			if ans != fmt.Sprintf("v=%d", 32+n+n/6) {
				fs = append(fs, fail("snappy_bound", "snappy-bound-formula", "snappy.MaxEncodedLen", "library bound differs from 32+n+n/6: "+ans))
			}
		case "mux":
			fs = append(fs, monitorMux(toks, ans)...)
		case "mraw":
			fs = append(fs, monitorMraw(toks, ans)...)
		case "mtry":
			fs = append(fs, monitorMtry(toks, ans)...)
		case "mping":
			want := "sent=true errsA=0 errsB=0 ping=true pong=true delivered=1"
			if argS(toks, "mode") == "silent" {
				want = "err=pongtimeout errs=1 running=false"
			}
			if ans != want {
				fs = append(fs, fail("ping_pong", "ping-pong-discipline", siteMC+":sendRoutine", fmt.Sprintf("mode %s answered %q, want %q", argS(toks, "mode"), ans, want)))
			}
		case "swsend":
			fs = append(fs, monitorSwSend(toks, ans, swPeers)...)
		case "swrecv":
			fs = append(fs, monitorSwRecv(toks, ans, swPeers)...)
			if strings.Contains(ans, "peers=") {
				swPeers = peerSetOf(ansArg(ans, "peers"))
			}
		case "hs":
			fs = append(fs, monitorHS(toks, ans)...)
		case "swnew":
			swBlack, swPeers = map[string]bool{}, map[string]bool{}
			if ans != "ok" {
				fs = append(fs, fail("switch_live", "switch-not-started", sitePS, "the switch under test did not start: "+ans))
			}
		case "swblack":
			swBlack[argS(toks, "key")] = true
		case "swdrop":
			swPeers = peerSetOf(ansArg(ans, "peers"))
		case "swconn":
			fs = append(fs, monitorSwConn(toks, ans, swBlack, swPeers)...)
			swPeers = peerSetOf(ansArg(ans, "peers"))
		}
	}
	return fs
}

const sitePS = "libs/p2p/switch.go:addPeer"

type sealEvent struct {
	skip   bool // an injected raw frame: judged by the correspondence only
	accept bool
	err    string
	chunk  []byte
}

func peerSetOf(s string) map[string]bool {
	m := map[string]bool{}
	for _, n := range hx.SplitComma(s) {
		m[n] = true
	}
	return m
}

// peer_identity_is_authenticated_key: a peer is never added under an ID whose key is not the key its connection
// authenticated; a key the switch blacklisted is never admitted (whatever CachePeerID it sends); an honest, compatible, not yet connected, not blacklisted
// key holder is admitted whatever other key holders did before (no ID squatting).
func monitorSwConn(toks []string, ans string, black, peers map[string]bool) []hx.Failure {
	var fs []hx.Failure
	auth, claim := argS(toks, "auth"), argS(toks, "claim")
	added := ansArg(ans, "added") == "true"
	if added && ansArg(ans, "id") != auth {
		fs = append(fs, fail("peer_identity_is_authenticated_key", "peer-id-not-authenticated", sitePS,
			fmt.Sprintf("a connection authenticated as %s was added to the peer set under the node ID of key %s", auth, ansArg(ans, "id"))))
	}
	if added && black[auth] {
		fs = append(fs, fail("blacklisted_key_never_admitted", "blacklist-bypass-cached-peer-id", sitePS,
			fmt.Sprintf("key %s is blacklisted (MarkBadNode) but its connection was admitted (claimed CachePeerID of %s)", auth, argS(toks, "cache"))))
	}
	honest := claim == auth && auth != "S" && argS(toks, "stall") == "" && argS(toks, "cache") == "" && argS(toks, "net") == "" && argS(toks, "ver") == "" && argS(toks, "mon") == ""
	if honest && !black[auth] && !peers[auth] && !added {
		cl := "honest-peer-refused"
		if ansArg(ans, "why") == "duplicate" {
			cl = "peer-id-not-authenticated" // its ID is occupied by somebody else's connection
		}
		fs = append(fs, fail("no_id_squatting", cl, sitePS, fmt.Sprintf("honest key holder %s (not connected, not blacklisted) was refused: %s", auth, ans)))
	}
	if ansArg(ans, "why") == "timeout" {
		fs = append(fs, fail("switch_live", "switch-hung", sitePS, "no verdict on a connection attempt: "+ans))
	}
	if (argS(toks, "stall") != "" || claim == "stall") && ans[:len("added=false why=handshake")] != "added=false why=handshake" {
		fs = append(fs, fail("handshake_deadline", "handshake-deadline", sitePeer+":newPeerConn", "a peer that stalled in the handshake was not dropped by the handshake deadline: "+ans))
	}
	return fs
}

func clipS(s string) string {
	if len(s) > 160 {
		return s[:160] + "..."
	}
	return s
}

// TrySend never blocks and never reorders: with the send routine stuck and an empty queue of capacity q, exactly the first q
// attempts are taken; what is delivered afterwards is the first message followed by the accepted ones, in order.
func monitorMtry(toks []string, ans string) []hx.Failure {
	var fs []hx.Failure
	q, l0, k, l, seed := atoi(argS(toks, "qcap")), atoi(argS(toks, "first")), atoi(argS(toks, "n")), atoi(argS(toks, "len")), atoi(argS(toks, "seed"))
	acc := q
	if k < q {
		acc = k
	}
	if ansArg(ans, "try") != strings.Repeat("1", acc)+strings.Repeat("0", k-acc) || ansArg(ans, "extra") != "falsefalsefalse" {
		fs = append(fs, fail("trysend_discipline", "trysend-queue-discipline", siteMC+":TrySend", fmt.Sprintf("queue capacity %d, %d attempts: %s", q, k, ans)))
	}
	if ansArg(ans, "blocked") != "false" {
		fs = append(fs, fail("trysend_discipline", "trysend-blocked", siteMC+":TrySend", "TrySend / CanSend blocked: "+ans))
	}
	// CanSend: sendQueueSize (message in progress + queued) below the default capacity 100
	can := ""
	for i := 1; i <= k; i++ {
		a := i
		if a > acc {
			a = acc
		}
		if 1+a < 100 {
			can += "1"
		} else {
			can += "0"
		}
	}
	if ansArg(ans, "can") != can {
		fs = append(fs, fail("trysend_discipline", "cansend-heuristic", siteMC+":CanSend", "CanSend does not follow sendQueueSize < 100: "+ans))
	}
	msgs := [][]byte{genBytes("r", seed, l0)}
	for i := 0; i < acc; i++ {
		msgs = append(msgs, genBytes("r", seed+1+i, l))
	}
	if ansArg(ans, "err") != "none" || atoi(ansArg(ans, "n")) != len(msgs) || ansArg(ans, "d") != delDigest(msgs) {
		fs = append(fs, fail("mux_order", "mux-order-or-content", siteMC+":TrySend", "what arrived is not the first message followed by the accepted ones in order: "+ans))
	}
	return fs
}

const sitePeer = "libs/p2p/peer.go"

func monitorSwSend(toks []string, ans string, peers map[string]bool) []hx.Failure {
	var fs []hx.Failure
	sp, _ := parseSpec(argS(toks, "d"))
	ok, got := ansArg(ans, "ok"), ansArg(ans, "got")
	key, ch := argS(toks, "key"), atoi(argS(toks, "ch"))
	if ok == "true" {
		if got != fmt.Sprintf("%d:%s", ch, fnvOf(sp.bytes())) {
			fs = append(fs, fail("peer_send", "peer-send-bytes-differ", sitePeer+":Send", "the remote end did not receive the bytes sent: "+ans))
		}
		if ch != 64 {
			fs = append(fs, fail("peer_send", "send-on-unadvertised-channel", sitePeer+":hasChannel", fmt.Sprintf("a message left on channel %d which the peer did not advertise: %s", ch, ans)))
		}
		if !peers[key] {
			fs = append(fs, fail("peer_send", "send-to-stopped-peer", sitePeer+":Send", "Send succeeded towards a peer that is not in the peer set: "+ans))
		}
	}
	if ansArg(ans, "can") == "true" && !peers[key] {
		fs = append(fs, fail("peer_send", "send-to-stopped-peer", sitePeer+":CanSend", "CanSend is true for a peer that is not in the peer set: "+ans))
	}
	if ok == "false" && (got != "-") {
		fs = append(fs, fail("peer_send", "refused-send-left-bytes", sitePeer+":Send", "a refused Send put bytes on the wire: "+ans))
	}
	if ok == "false" && peers[key] && ch == 64 && sp.n > 0 && argS(toks, "stale") == "" {
		fs = append(fs, fail("peer_send", "peer-send-refused", sitePeer+":Send", "Send to a running peer on an advertised channel was refused: "+ans))
	}
	return fs
}

// a message that arrives on the connection authenticated as K reaches the reactor as coming from node ID(K), unchanged
func monitorSwRecv(toks []string, ans string, peers map[string]bool) []hx.Failure {
	var fs []hx.Failure
	sp, _ := parseSpec(argS(toks, "d"))
	from := ansArg(ans, "from")
	key, ch := argS(toks, "key"), atoi(argS(toks, "ch"))
	switch {
	case from == "timeout":
		fs = append(fs, fail("peer_recv", "switch-hung", sitePeer, "no delivery and no removal: "+ans))
	case from == "nopeer" || from == "none-peer-removed":
		if peers[key] && (ch == 64 || ch == 65) && sp.n <= 4096 && from == "none-peer-removed" {
			fs = append(fs, fail("peer_recv", "valid-message-dropped-peer", sitePeer, "a valid message got the peer removed: "+ans))
		}
	default:
		if from != key {
			fs = append(fs, fail("peer_recv", "message-attributed-to-wrong-peer", sitePeer+":createMConnection", fmt.Sprintf("a message on the connection authenticated as %s reached the reactor as from %s", key, from)))
		}
		if ansArg(ans, "d") != fnvOf(sp.bytes()) || atoi(ansArg(ans, "ch")) != ch {
			fs = append(fs, fail("peer_recv", "reactor-bytes-differ", sitePeer+":createMConnection", "the reactor did not get the bytes the peer sent: "+ans))
		}
		if sp.n > 4096 || (ch != 64 && ch != 65) {
			fs = append(fs, fail("capacity_guard", "mux-over-capacity-delivered", sitePeer, "a message over capacity / on an unknown channel reached the reactor: "+ans))
		}
	}
	return fs
}

// per channel: the delivered sequence is a prefix of the sent sequence (whole messages, in order), complete when
// no error was reported; nothing over the channel's capacity is ever delivered.
func monitorMux(toks []string, ans string) []hx.Failure {
	var fs []hx.Failure
	cs, plan := parseChans(argS(toks, "chans")), parsePlan(argS(toks, "plan"))
	at := hx.Tokens(ans)
	er := ansArg(ans, "err")
	if er == "timeout" {
		fs = append(fs, fail("mux_live", "mux-hung", siteMC, "not all messages were delivered within the timeout: "+ans))
	}
	oversize := false
	for _, c := range cs {
		if c.cap == 0 {
			c.cap = 22020096 // ChannelDescriptor.FillDefaults: defaultRecvMessageCapacity
		}
		var sent [][]byte
		firstOver := -1
		for _, it := range plan {
			if it.ch != c.id || it.sp.n == 0 {
				continue
			}
			if it.sp.n > c.cap && firstOver < 0 {
				firstOver = len(sent)
				oversize = true
			}
			sent = append(sent, it.sp.bytes())
		}
		var item string
		for _, t := range at {
			if strings.HasPrefix(t, fmt.Sprintf("%d:", c.id)) {
				item = t[strings.Index(t, ":")+1:]
			}
		}
		var n int
		var d string
		for _, kv := range strings.Split(item, ",") {
			if strings.HasPrefix(kv, "n=") {
				n = atoi(kv[2:])
			}
			if strings.HasPrefix(kv, "d=") {
				d = kv[2:]
			}
		}
		if n > len(sent) || delDigest(sent[:n]) != d {
			fs = append(fs, fail("mux_order", "mux-order-or-content", siteMC+":recvPacketMsg", fmt.Sprintf("channel %d: the %d delivered messages are not the first %d sent", c.id, n, n)))
			continue
		}
		if firstOver >= 0 && n > firstOver {
			fs = append(fs, fail("capacity_guard", "mux-over-capacity-delivered", siteMC+":recvPacketMsg", fmt.Sprintf("channel %d delivered a message over RecvMessageCapacity %d", c.id, c.cap)))
		}
		if er == "none" && firstOver < 0 && n != len(sent) {
			fs = append(fs, fail("mux_complete", "mux-message-lost", siteMC, fmt.Sprintf("channel %d: %d of %d messages delivered, no error", c.id, n, len(sent))))
		}
	}
	if er != "none" && er != "timeout" && !(oversize && er == "capacity") {
		fs = append(fs, fail("mux_live", "mux-unexpected-error", siteMC, "connection error on a faithful transport: "+ans))
	}
	if oversize && er == "none" {
		fs = append(fs, fail("capacity_guard", "mux-over-capacity-no-error", siteMC+":recvPacketMsg", "a message over RecvMessageCapacity raised no error: "+ans))
	}
	return fs
}

// reference reassembly for the malicious-peer stream: every delivery is the concatenation of one channel's
// consecutive fragments up to an EOF=1 fragment, within capacity
func monitorMraw(toks []string, ans string) []hx.Failure {
	cs := parseChans(argS(toks, "chans"))
	maxpay := atoi(argS(toks, "maxpay"))
	capOf := map[int]int{}
	for _, c := range cs {
		capOf[c.id] = c.cap
	}
	acc := map[int][]byte{}
	var want []string
	wantErr := "none"
	grey := false
	for _, it := range hx.SplitComma(argS(toks, "pk")) {
		p := strings.SplitN(it, ":", 4)
		sp, _ := parseSpec(p[3])
		ch, eof := atoi(p[0]), atoi(p[1])
		if p[2] == "1" {
			// over maxPacketMsgSize: the connection must end in an error and deliver nothing further
			wantErr = "anyerror"
			break
		}
		c, ok := capOf[ch]
		if !ok {
			wantErr = "unknownch"
			break
		}
		if len(acc[ch])+sp.n > c {
			wantErr = "capacity"
			break
		}
		acc[ch] = append(acc[ch], sp.bytes()...)
		if eof == 1 {
			if v := argS(toks, "panicat"); v != "" && atoi(v) == len(want) {
				wantErr = "handlerpanic" // the handler panics on this delivery: one error, nothing further, process alive
				break
			}
			want = append(want, fmt.Sprintf("%d:%d:%s", ch, len(acc[ch]), fnvOf(acc[ch])))
			acc[ch] = nil
		}
	}
	w := "-"
	if len(want) > 0 {
		w = strings.Join(want, ",")
	}
	exp := fmt.Sprintf("err=%s dels=%s", wantErr, w)
	if wantErr == "anyerror" && ansArg(ans, "err") != "none" && ansArg(ans, "err") != "timeout" {
		exp = fmt.Sprintf("err=%s dels=%s", ansArg(ans, "err"), w)
	}
	_ = maxpay
	if ans != exp && !grey {
		cl := "mraw-reassembly"
		if ansArg(ans, "err") == "timeout" {
			cl = "mraw-hung"
		}
		for _, d := range hx.SplitComma(ansArg(ans, "dels")) {
			p := strings.Split(d, ":")
			if len(p) == 3 && atoi(p[1]) > capOf[atoi(p[0])] {
				cl = "mux-over-capacity-delivered"
			}
		}
		return []hx.Failure{fail("mux_reassembly", cl, siteMC+":recvPacketMsg", fmt.Sprintf("receiver answered %q, whole-message reassembly gives %q", clipS(ans), clipS(exp)))}
	}
	return nil
}

// a side may end with an authenticated key only if the holder of that key's private half took part as this
// side's peer: the honest counterpart when the MITM only relays, the attacker's own key when it signs itself.
func monitorHS(toks []string, ans string) []hx.Failure {
	var fs []hx.Failure
	scen, dir := argS(toks, "scen"), argS(toks, "dir")
	allowed := map[string]map[string]bool{"a": {"ok:B": true}, "b": {"ok:A": true}}
	switch scen {
	case "sigsub":
		if dir == "BA" || dir == "both" {
			allowed["a"]["ok:M"] = true
		}
		if dir == "AB" || dir == "both" {
			allowed["b"]["ok:M"] = true
		}
	case "mitmfull":
		allowed["a"] = map[string]bool{"ok:M": true}
	case "reflect", "replay", "replayeph":
		allowed["a"] = map[string]bool{}
	}
	self := map[string]string{"a": "ok:A", "b": "ok:B"}
	for _, side := range []string{"a", "b"} {
		v := ansArg(ans, side)
		if v == "fail" || v == "-" || v == "" {
			continue
		}
		if !allowed[side][v] {
			cl := "handshake-auth-forged"
			if v == self[side] {
				cl = "handshake-reflection-self-auth"
			}
			fs = append(fs, fail("auth", cl, siteSC+":MakeSecretConnection", fmt.Sprintf("scenario %s: side %s authenticated %s although its peer never proved possession of that key", scen, side, v)))
		}
	}
	if scen == "none" && ans != "a=ok:B b=ok:A" {
		fs = append(fs, fail("handshake_live", "handshake-honest-fails", siteSC+":MakeSecretConnection", "untampered handshake: "+ans))
	}
	if scen == "coalesce" && ans != "a=ok:B b=ok:A" {
		fs = append(fs, fail("handshake_live", "handshake-coalesced-segments-fail", siteSC+":shareEphPubKey",
			"honest peers, unaltered bytes, but the peer's ephemeral key and auth frame arrived in one segment: "+ans))
	}
	return fs
}

// ---- generator -----------------------------------------------------------------------------

var boundarySizes = []int{1, 2, 5, 60, 61, 1024, 32767, 32768, 32769, 65535, 65536, 65537, 98304, 100000}
var smallSizes = []int{1, 2, 3, 7, 13, 64, 100, 500, 1000, 4096}
var readSizes = []int{1, 2, 5, 100, 1024, 4096, 32767, 32768, 32769, 40000, 70000}
var ks = []int{1, 2, 3, 7, 64, 1000, 0}

func pickInt(g *hx.Gen, xs []int) int { return xs[g.Rng.Intn(len(xs))] }

func kindOf(g *hx.Gen) string {
	if g.Rng.Intn(3) == 0 {
		return "z"
	}
	return "r"
}

func sizeClass(n int) string {
	switch {
	case n == 0:
		return "0"
	case n < hDataMaxSize:
		return "<frame"
	case n == hDataMaxSize:
		return "=frame"
	case n <= 2*hDataMaxSize:
		return "<=2frames"
	}
	return ">2frames"
}

func genStream(g *hx.Gen, big bool) {
	k := pickInt(g, ks)
	j := g.Rng.Intn(2)
	ops := []string{hx.CaseOp("stream"), fmt.Sprintf("sc k=%d seed=%d j=%d", k, g.Rng.Intn(1000), j)}
	g.Count(fmt.Sprintf("stream:k=%d", k))
	g.Count(fmt.Sprintf("stream:coalescing-transport=%d", j))
	total := map[string]int{"a": 0, "b": 0}  // bytes written BY side
	frames := map[string]int{"a": 0, "b": 0} // frames written BY side
	nreads := map[string]int{"a": 0, "b": 0} // reads issued ON side
	other := map[string]string{"a": "b", "b": "a"}
	nontriv := false
	steps := 3 + g.Rng.Intn(8)
	for s := 0; s < steps; s++ {
		side := []string{"a", "b"}[g.Rng.Intn(2)]
		if g.Rng.Intn(2) == 0 {
			n := pickInt(g, smallSizes)
			if big && g.Rng.Intn(2) == 0 {
				n = pickInt(g, boundarySizes)
			} else if g.Rng.Intn(4) == 0 {
				n = 1 + g.Rng.Intn(3000)
			}
			if g.Rng.Intn(25) == 0 {
				n = 0
			}
			if n > hDataMaxSize {
				nontriv = true
			}
			g.Count("stream:write:" + sizeClass(n))
			ops = append(ops, fmt.Sprintf("w side=%s d=%s:%d:%d", side, kindOf(g), g.Rng.Intn(1<<20), n))
			total[side] += n
			frames[side] += (n + hDataMaxSize - 1) / hDataMaxSize
		} else {
			// reads on this end; sometimes with nothing pending (EOF on the non-blocking transport)
			reads := 1 + g.Rng.Intn(4)
			for r := 0; r < reads; r++ {
				n := pickInt(g, readSizes)
				if g.Rng.Intn(30) == 0 {
					n = 0
				}
				if n < hDataMaxSize && total[other[side]] > n {
					nontriv = true
				}
				g.Count("stream:read")
				ops = append(ops, fmt.Sprintf("r side=%s n=%d", side, n))
				nreads[side]++
			}
		}
	}
	// drain both directions to EOF (every read consumes min(n, rest of the current frame))
	for _, side := range []string{"a", "b"} {
		w := other[side]
		n := []int{32768, 40000, 70000}[g.Rng.Intn(3)]
		cnt := frames[w] + nreads[side] + 2
		if total[w] <= 4000 && g.Rng.Intn(2) == 0 {
			n = []int{1, 2, 5, 100}[g.Rng.Intn(4)]
			cnt += total[w] / n
			nontriv = nontriv || total[w] > n
		}
		g.Count("stream:drain-reads")
		for i := 0; i < cnt; i++ {
			ops = append(ops, fmt.Sprintf("r side=%s n=%d", side, n))
		}
	}
	g.Case(fmt.Sprintf("stream k=%d", k), ops, nontriv)
}

func injLine(side string, hdr byte, l int, pay []byte, claim string) string {
	return fmt.Sprintf("inj side=%s hdr=%02x len=%d pay=%s dec=%s", side, hdr, l, hx.Hex(pay), claim)
}

func genInject(g *hx.Gen) {
	k := pickInt(g, ks)
	ops := []string{hx.CaseOp("stream", "inject"), fmt.Sprintf("sc k=%d seed=%d j=%d", k, g.Rng.Intn(1000), g.Rng.Intn(2))}
	// some honest traffic first
	for i := 0; i < g.Rng.Intn(3); i++ {
		ops = append(ops, fmt.Sprintf("w side=a d=%s:%d:%d", kindOf(g), g.Rng.Intn(1000), pickInt(g, smallSizes)))
	}
	final := false
	for s := 0; s < 1+g.Rng.Intn(4) && !final; s++ {
		kind := []string{"valid", "valid-z-big", "badver", "badtype", "sealed", "overlen", "truncated", "corrupt", "chunk>max", "empty-chunk", "trailing"}[g.Rng.Intn(11)]
		g.Count("inject:" + kind)
		sp := spec{"r", g.Rng.Intn(1000), pickInt(g, smallSizes)}
		pay := snappy.Encode(nil, sp.bytes())
		switch kind {
		case "valid":
			ops = append(ops, injLine("b", 0xFF, len(pay), pay, sp.String()))
		case "valid-z-big":
			sp = spec{"z", g.Rng.Intn(200), []int{32768, 32767, 20000}[g.Rng.Intn(3)]}
			pay = snappy.Encode(nil, sp.bytes())
			ops = append(ops, injLine("b", 0xFF, len(pay), pay, sp.String()))
		case "badver":
			ops = append(ops, injLine("b", []byte{0x0F, 0xEF, 0x7F}[g.Rng.Intn(3)], len(pay), pay, sp.String()))
		case "badtype":
			ops = append(ops, injLine("b", []byte{0xF0, 0xF1, 0xFD, 0xF7}[g.Rng.Intn(4)], len(pay), pay, sp.String()))
		case "sealed":
			ops = append(ops, injLine("b", 0xFE, len(pay), pay, sp.String()))
		case "overlen":
			l := []int{65531, 65530 + 1 + g.Rng.Intn(100), 1 << 24, 1<<32 - 1}[g.Rng.Intn(4)]
			ops = append(ops, injLine("b", 0xFF, l, pay, "err"))
			final = true
		case "truncated":
			cut := g.Rng.Intn(len(pay))
			ops = append(ops, injLine("b", 0xFF, len(pay), pay[:cut], "err"))
			final = true
		case "corrupt":
			bad := append([]byte{}, pay...)
			bad[0] ^= 0x55 // the uvarint length no longer matches
			if _, err := snappy.Decode(nil, bad); err != nil {
				ops = append(ops, injLine("b", 0xFF, len(bad), bad, "err"))
			}
		case "chunk>max":
			sp = spec{"z", g.Rng.Intn(200), []int{32769, 40000, 65536}[g.Rng.Intn(3)]}
			pay = snappy.Encode(nil, sp.bytes())
			ops = append(ops, injLine("b", 0xFF, len(pay), pay, sp.String()))
		case "empty-chunk":
			sp = spec{"r", 1, 0}
			pay = snappy.Encode(nil, nil)
			ops = append(ops, injLine("b", 0xFF, len(pay), pay, sp.String()))
		case "trailing":
			// a valid frame followed by garbage that is parsed as the next header
			junk := []byte{byte(g.Rng.Intn(256)), 0, 0, 0}
			ops = append(ops, injLine("b", 0xFF, len(pay), append(append([]byte{}, pay...), junk...), sp.String()))
			final = true
		}
		for r := 0; r < 1+g.Rng.Intn(3); r++ {
			ops = append(ops, fmt.Sprintf("r side=b n=%d", pickInt(g, readSizes)))
		}
	}
	for i := 0; i < 12; i++ {
		ops = append(ops, fmt.Sprintf("r side=b n=%d", 50000))
	}
	g.Case("inject", ops, true)
}

func chansLine(cs []chanCfg) string {
	var it []string
	for _, c := range cs {
		it = append(it, fmt.Sprintf("%d:%d:%d:%d", c.id, c.prio, c.cap, c.qcap))
	}
	return strings.Join(it, ",")
}

func msgLen(g *hx.Gen, maxpay int) int {
	switch g.Rng.Intn(8) {
	case 0:
		return 1
	case 1:
		return maxpay
	case 2:
		return maxpay + 1
	case 3:
		return maxpay * (1 + g.Rng.Intn(4))
	case 4:
		return maxpay*(1+g.Rng.Intn(4)) - 1
	case 5:
		return 1 + g.Rng.Intn(8*maxpay)
	}
	return 1 + g.Rng.Intn(2*maxpay+3)
}

func genMux(g *hx.Gen) {
	nch := 1 + g.Rng.Intn(4)
	maxpay := []int{1, 2, 7, 64, 100, 1024}[g.Rng.Intn(6)]
	ids := g.Rng.Perm(60)
	var cs []chanCfg
	for i := 0; i < nch; i++ {
		cc := chanCfg{id: 1 + ids[i], prio: 1 + g.Rng.Intn(10), cap: 1 << 20, qcap: 1 + g.Rng.Intn(6)}
		if g.Rng.Intn(6) == 0 {
			cc.cap, cc.qcap = 0, 0 // zero values: ChannelDescriptor.FillDefaults (capacity 21 MiB, queue 100)
			g.Count("mux:descriptor-defaults")
		}
		cs = append(cs, cc)
	}
	var plan []string
	nmsg := 1 + g.Rng.Intn(g.Pick(14, 40))
	multi := false
	total := 0
	for i := 0; i < nmsg; i++ {
		c := cs[g.Rng.Intn(nch)]
		n := msgLen(g, maxpay)
		if total+n > 60000 {
			n = 1
		}
		total += n
		ch := c.id
		switch g.Rng.Intn(40) {
		case 0:
			n = 0 // Send refuses the empty message
			g.Count("mux:empty-send")
		case 1:
			ch = 100 // unknown channel: refused by Send
			g.Count("mux:unknown-channel-send")
		}
		if n > maxpay {
			multi = true
		}
		plan = append(plan, fmt.Sprintf("%d:%s:%d:%d", ch, kindOf(g), g.Rng.Intn(1<<16), n))
	}
	sc := g.Rng.Intn(2)
	rate := 0
	if g.Rng.Intn(6) == 0 {
		rate = 5120000
	}
	g.Count(fmt.Sprintf("mux:channels=%d", nch))
	g.Count(fmt.Sprintf("mux:maxpay=%d", maxpay))
	g.Count(fmt.Sprintf("mux:over-secretconn=%d", sc))
	op := fmt.Sprintf("mux chans=%s maxpay=%d sc=%d k=%d seed=%d j=%d rate=%d plan=%s", chansLine(cs), maxpay, sc, pickInt(g, ks), g.Rng.Intn(1000), g.Rng.Intn(2), rate, strings.Join(plan, ","))
	g.Case(fmt.Sprintf("mux ch=%d maxpay=%d msgs=%d", nch, maxpay, nmsg), []string{hx.CaseOp("mux"), op}, nch >= 2 || multi)
}

// one channel, one message over RecvMessageCapacity in the middle
func genMuxOver(g *hx.Gen) {
	maxpay := []int{7, 64, 100}[g.Rng.Intn(3)]
	capv := maxpay * (1 + g.Rng.Intn(5))
	if g.Rng.Intn(3) == 0 {
		capv += g.Rng.Intn(maxpay)
	}
	cs := []chanCfg{{id: 1 + g.Rng.Intn(50), prio: 1, cap: capv, qcap: 3}}
	var plan []string
	for i := 0; i < g.Rng.Intn(4); i++ {
		plan = append(plan, fmt.Sprintf("%d:r:%d:%d", cs[0].id, g.Rng.Intn(999), 1+g.Rng.Intn(capv)))
	}
	if g.Rng.Intn(4) == 0 {
		plan = append(plan, fmt.Sprintf("%d:r:%d:%d", cs[0].id, g.Rng.Intn(999), capv)) // exactly at capacity: fine
	}
	plan = append(plan, fmt.Sprintf("%d:r:%d:%d", cs[0].id, g.Rng.Intn(999), capv+1+g.Rng.Intn(3*maxpay)))
	for i := 0; i < g.Rng.Intn(3); i++ {
		plan = append(plan, fmt.Sprintf("%d:r:%d:%d", cs[0].id, g.Rng.Intn(999), 1+g.Rng.Intn(capv)))
	}
	g.Count("mux:over-capacity")
	op := fmt.Sprintf("mux chans=%s maxpay=%d sc=%d k=%d seed=%d j=%d rate=0 plan=%s", chansLine(cs), maxpay, g.Rng.Intn(2), pickInt(g, ks), g.Rng.Intn(1000), g.Rng.Intn(2), strings.Join(plan, ","))
	g.Case("mux over capacity", []string{hx.CaseOp("mux", "overcap"), op}, true)
}

func genMraw(g *hx.Gen) {
	nch := 1 + g.Rng.Intn(3)
	maxpay := []int{4, 16, 64, 300}[g.Rng.Intn(4)]
	ids := g.Rng.Perm(60)
	var cs []chanCfg
	for i := 0; i < nch; i++ {
		cs = append(cs, chanCfg{id: 1 + ids[i], prio: 1, cap: maxpay * (1 + g.Rng.Intn(4)), qcap: 1})
	}
	var pk []string
	n := 1 + g.Rng.Intn(14)
	bad := g.Rng.Intn(3) == 0
	for i := 0; i < n; i++ {
		c := cs[g.Rng.Intn(nch)]
		ch, eof, l := c.id, g.Rng.Intn(2), g.Rng.Intn(maxpay+1)
		if g.Rng.Intn(3) == 0 {
			l = maxpay
		}
		if g.Rng.Intn(12) == 0 {
			l = 0
			g.Count("mraw:empty-fragment")
		}
		if g.Rng.Intn(15) == 0 {
			eof = 2 + g.Rng.Intn(250) // neither 0 nor 1
			g.Count("mraw:eof-other")
		}
		if bad && i == n-1 {
			switch g.Rng.Intn(3) {
			case 0:
				ch = 120
				g.Count("mraw:unknown-channel")
			case 1:
				l = maxpay + 65 + g.Rng.Intn(200)
				g.Count("mraw:oversize-packet")
			case 2:
				l = maxpay
				eof = 0
				g.Count("mraw:no-eof-tail")
			}
		}
		if g.Rng.Intn(25) == 0 {
			l = maxpay + 1 + g.Rng.Intn(24) // around the slack of maxPacketMsgSize
			g.Count("mraw:slack-zone")
		}
		sd := g.Rng.Intn(1 << 16)
		over := 0
		if overLimit(ch, eof, genBytes("r", sd, l), maxpay) {
			over = 1
			pk = append(pk, fmt.Sprintf("%d:%d:%d:r:%d:%d", ch, eof, over, sd, l))
			break // the stream is desynchronised after an over-limit packet: nothing modelled behind it
		}
		pk = append(pk, fmt.Sprintf("%d:%d:%d:r:%d:%d", ch, eof, over, sd, l))
	}
	op := fmt.Sprintf("mraw chans=%s maxpay=%d k=%d seed=%d j=%d pk=%s", chansLine(cs), maxpay, pickInt(g, ks), g.Rng.Intn(1000), g.Rng.Intn(2), strings.Join(pk, ","))
	g.Case(fmt.Sprintf("mraw ch=%d maxpay=%d pk=%d", nch, maxpay, n), []string{hx.CaseOp("mraw"), op}, true)
}

var authLen = len(encAuth(authMsg{dummyKey().PubKey(), dummySig()}))

func genHS(g *hx.Gen, scen string) {
	k := pickInt(g, ks)
	j := g.Rng.Intn(2)
	op := fmt.Sprintf("hs scen=%s k=%d seed=%d j=%d", scen, k, g.Rng.Intn(1000), j)
	g.Count(fmt.Sprintf("hs:coalescing-transport=%d", j))
	switch scen {
	case "coalesce":
		// both messages of one direction in ONE segment; the receiver's reads cut it at 1..k bytes (k = 0: all at once)
		op += " dir=" + []string{"AB", "BA"}[g.Rng.Intn(2)]
		g.Count(fmt.Sprintf("hs:coalesce:k=%d", k))
	case "flip":
		msg := []string{"ephAB", "ephBA", "authAB", "authBA"}[g.Rng.Intn(4)]
		idx, n := 0, ephLen
		if strings.HasPrefix(msg, "auth") {
			idx, n = 1, authLen
		}
		off := g.Rng.Intn(n)
		if g.Rng.Intn(3) == 0 {
			off = g.Rng.Intn(6) // the short prefix regions deserve their share
		}
		g.Count("hs:flip:" + regionOf(idx, off, n))
		op += fmt.Sprintf(" msg=%s off=%d bit=%d", msg, off, g.Rng.Intn(8))
	case "ephsub", "sigsub":
		op += " dir=" + []string{"AB", "BA", "both"}[g.Rng.Intn(3)]
	case "keysub", "sigonly", "wrongchal", "nilkey", "nilsig", "wrongtype":
		op += " dir=" + []string{"AB", "BA"}[g.Rng.Intn(2)]
	case "drop":
		op += " msg=" + []string{"ephAB", "ephBA", "authAB", "authBA"}[g.Rng.Intn(4)]
	}
	g.Count("hs:" + scen)
	before := atomic.LoadInt64(&hungCount)
	g.Case("hs "+scen, []string{hx.CaseOp("hs"), op}, scen != "none")
	if atomic.LoadInt64(&hungCount) != before {
		g.Count("hs:cut-after-no-progress")
	}
}

var swKeys = []string{"A", "B", "C", "D", "E", "F"}

func swConnOp(g *hx.Gen, kind string, auth, other string) string {
	tr := fmt.Sprintf("k=%d seed=%d j=%d", pickInt(g, ks), g.Rng.Intn(1000), g.Rng.Intn(2))
	g.Count("sw:" + kind)
	switch kind {
	case "honest":
		return fmt.Sprintf("swconn auth=%s claim=%s %s", auth, auth, tr)
	case "impersonate":
		return fmt.Sprintf("swconn auth=%s claim=%s %s", auth, other, tr)
	case "claimself":
		return fmt.Sprintf("swconn auth=%s claim=S %s", auth, tr)
	case "asself":
		return fmt.Sprintf("swconn auth=S claim=S %s", tr)
	case "cacheid":
		return fmt.Sprintf("swconn auth=%s claim=%s cache=%s %s", auth, auth, other, tr)
	case "impersonate+cache":
		return fmt.Sprintf("swconn auth=%s claim=%s cache=%s %s", auth, other, auth, tr)
	case "garbage", "silent":
		return fmt.Sprintf("swconn auth=%s claim=%s %s", auth, kind, tr)
	case "stall-eph", "stall-auth":
		return fmt.Sprintf("swconn auth=%s claim=%s stall=%s %s", auth, auth, kind[6:], tr)
	case "stall-nodeinfo":
		return fmt.Sprintf("swconn auth=%s claim=stall %s", auth, tr)
	case "othernet":
		return fmt.Sprintf("swconn auth=%s claim=%s net=other-chain %s", auth, auth, tr)
	case "badversion":
		return fmt.Sprintf("swconn auth=%s claim=%s ver=%s %s", auth, auth, []string{"9.0.0", "1.2"}[g.Rng.Intn(2)], tr)
	case "badmoniker":
		return fmt.Sprintf("swconn auth=%s claim=%s mon=bad %s", auth, auth, tr)
	}
	return "swconn auth=A claim=A " + tr
}

var swKinds = []string{"honest", "honest", "honest", "impersonate", "impersonate", "impersonate", "claimself", "asself", "cacheid", "impersonate+cache",
	"garbage", "silent", "othernet", "badversion", "badmoniker"}

var swStalls = []string{"stall-eph", "stall-auth", "stall-nodeinfo"}

func genSwitch(g *hx.Gen) {
	ops := []string{hx.CaseOp("switch"), "swnew"}
	n := 3 + g.Rng.Intn(8)
	for i := 0; i < n; i++ {
		a := swKeys[g.Rng.Intn(len(swKeys))]
		o := swKeys[g.Rng.Intn(len(swKeys))]
		for o == a {
			o = swKeys[g.Rng.Intn(len(swKeys))]
		}
		switch r := g.Rng.Intn(16); {
		case r == 12 || r == 13:
			ch := []int{64, 64, 64, 65, 7}[g.Rng.Intn(5)]
			l := []int{1, 300, 1024, 1025, 5000, 0}[g.Rng.Intn(6)]
			mode := []string{"send", "try"}[g.Rng.Intn(2)]
			st := ""
			if g.Rng.Intn(5) == 0 {
				st = " stale=1"
			}
			g.Count(fmt.Sprintf("sw:peer-%s ch=%d", mode, ch))
			ops = append(ops, fmt.Sprintf("swsend key=%s ch=%d d=r:%d:%d mode=%s%s", a, ch, g.Rng.Intn(999), l, mode, st))
		case r == 14 || r == 15:
			ch := []int{64, 64, 65, 99}[g.Rng.Intn(4)]
			l := []int{1, 100, 4096, 4097, 3000}[g.Rng.Intn(5)]
			g.Count(fmt.Sprintf("sw:remote-sends ch=%d", ch))
			fr := ""
			if l > 1 && g.Rng.Intn(2) == 0 {
				fr = fmt.Sprintf(" frag=%d", 1+g.Rng.Intn(l-1))
			}
			ops = append(ops, fmt.Sprintf("swrecv key=%s ch=%d d=r:%d:%d%s", a, ch, g.Rng.Intn(999), l, fr))
		case r == 0:
			g.Count("sw:blacklist")
			ops = append(ops, "swblack key="+a)
		case r == 1:
			g.Count("sw:drop")
			ops = append(ops, "swdrop key="+a)
		default:
			ops = append(ops, swConnOp(g, swKinds[g.Rng.Intn(len(swKinds))], a, o))
		}
	}
	// every key holder finally tries honestly: nobody may have been squatted out
	for _, k := range swKeys[:2+g.Rng.Intn(4)] {
		ops = append(ops, swConnOp(g, "honest", k, k))
	}
	g.Case("switch admission", ops, true)
}

// exerciseSnappyBomb: the cases of the finding read-allocates-announced-length (proposed/C18-snappy-bomb.md, fixed in /repo by
// 3c63eeb): a few-byte compressed frame that announces a huge decoded length must be refused WITHOUT that allocation.
const exerciseSnappyBomb = true

func uvarint(n uint64) []byte {
	var b []byte
	for n >= 0x80 {
		b = append(b, byte(n)|0x80)
		n >>= 7
	}
	return append(b, byte(n))
}

// sealed frames from a hand-made peer (the PEER chooses the frame type): valid seals in order, replays, frames sealed for
// a later nonce, damaged frames, every length-field boundary, plaintexts shorter than the length field / longer than the buffer
func genSealed(g *hx.Gen, long bool) {
	ops := []string{hx.CaseOp("stream", "sealed"), fmt.Sprintf("scp k=%d seed=%d j=%d", pickInt(g, ks), g.Rng.Intn(1000), g.Rng.Intn(2))}
	next := 0
	n := 4 + g.Rng.Intn(10)
	if long {
		n = 140 // the last nonce byte wraps at least once: carry into the next byte (incrNonce)
		g.Count("sealed:nonce-carry-run")
	}
	reads := func(k int) {
		for i := 0; i < k; i++ {
			ops = append(ops, fmt.Sprintf("r side=b n=%d", []int{1, 3, 20, 100, 32768, 40000}[g.Rng.Intn(6)]))
		}
	}
	for i := 0; i < n; i++ {
		kind := []string{"valid", "valid", "valid", "valid", "replay", "ahead", "flip", "cut", "lf=0", "lf=max", "lf=max+1", "lf=2^32-1", "lf>data", "short", "toolong"}[g.Rng.Intn(15)]
		if long {
			kind = "valid"
		}
		g.Count("sealed:" + kind)
		dl := 1 + g.Rng.Intn(40)
		sd := g.Rng.Intn(1 << 16)
		switch kind {
		case "valid":
			ops = append(ops, fmt.Sprintf("seal idx=%d lf=%d d=r:%d:%d", next, dl, sd, dl))
			next++
			if long {
				ops = append(ops, "r side=b n=100")
				continue
			}
		case "replay":
			if next == 0 {
				continue
			}
			ops = append(ops, fmt.Sprintf("seal idx=%d lf=%d d=r:%d:%d", g.Rng.Intn(next), dl, sd, dl))
		case "ahead":
			ops = append(ops, fmt.Sprintf("seal idx=%d lf=%d d=r:%d:%d", next+1+g.Rng.Intn(3), dl, sd, dl))
		case "flip":
			ops = append(ops, fmt.Sprintf("seal idx=%d lf=%d d=r:%d:%d flip=%d", next, dl, sd, dl, g.Rng.Intn(dl+20)))
		case "cut":
			ops = append(ops, fmt.Sprintf("seal idx=%d lf=%d d=r:%d:%d cut=%d", next, dl, sd, dl, 1+g.Rng.Intn(dl+19)))
		case "lf=0":
			ops = append(ops, fmt.Sprintf("seal idx=%d lf=0 d=r:%d:%d", next, sd, dl))
			next++
		case "lf=max":
			ops = append(ops, fmt.Sprintf("seal idx=%d lf=%d d=r:%d:%d", next, hDataMaxSize, sd, hDataMaxSize))
			next++
		case "lf=max+1":
			ops = append(ops, fmt.Sprintf("seal idx=%d lf=%d d=r:%d:%d", next, hDataMaxSize+1, sd, dl))
			next++ // the nonce moves on although the frame is refused
		case "lf=2^32-1":
			ops = append(ops, fmt.Sprintf("seal idx=%d lf=4294967295 d=r:%d:%d", next, sd, dl))
			next++
		case "lf>data":
			ops = append(ops, fmt.Sprintf("seal idx=%d lf=%d d=r:%d:%d", next, dl+1+g.Rng.Intn(50), sd, dl))
			next++
		case "short":
			ops = append(ops, fmt.Sprintf("seal idx=%d lf=%d d=r:%d:%d short=%d", next, g.Rng.Intn(1<<20), sd, dl, g.Rng.Intn(4)))
			next++
		case "toolong":
			ops = append(ops, fmt.Sprintf("seal idx=%d lf=%d d=r:%d:%d", next, dl, sd, hDataMaxSize+1+g.Rng.Intn(3000)))
			next++
		}
		reads(1 + g.Rng.Intn(3))
		for j := 0; j < 3; j++ { // drain what a big chunk may have left
			ops = append(ops, "r side=b n=40000")
		}
	}
	ops = append(ops, "r side=b n=10")
	g.Case("sealed frames", ops, true)
}

// compressed frames at every boundary of the length field, and (gated) the snappy bomb
func genFrameBounds(g *hx.Gen) {
	ops := []string{hx.CaseOp("stream", "inject"), fmt.Sprintf("sc k=%d seed=%d j=%d", pickInt(g, ks), g.Rng.Intn(1000), g.Rng.Intn(2))}
	kind := []string{"len=0", "len=cap", "len=cap-garbage", "len=cap+1", "len=2^32-1", "ann>max-small", "bomb"}[g.Rng.Intn(7)]
	if kind == "bomb" && !exerciseSnappyBomb {
		kind = "ann>max-small"
	}
	g.Count("bounds:" + kind)
	switch kind {
	case "len=0":
		ops = append(ops, injLine("b", 0xFF, 0, nil, "err"))
	case "len=cap": // a frame of exactly frameCapacity bytes: valid snappy of a chunk over dataMaxSize
		sp := spec{"r", g.Rng.Intn(1000), 65000}
		pay := snappy.Encode(nil, sp.bytes())
		for len(pay) < hFrameCapacity-hHeaderSize {
			sp.n++
			pay = snappy.Encode(nil, sp.bytes())
		}
		if len(pay) == hFrameCapacity-hHeaderSize {
			ops = append(ops, injLine("b", 0xFF, len(pay), pay, sp.String())+fmt.Sprintf(" ann=%d", sp.n))
		}
	case "len=cap-garbage":
		pay := genBytes("r", g.Rng.Intn(1000), hFrameCapacity-hHeaderSize)
		pay[0], pay[1] = 0x10, 0xfc // announces 16 bytes, then nonsense
		if _, err := snappy.Decode(nil, pay); err != nil {
			ops = append(ops, injLine("b", 0xFF, len(pay), pay, "err")+" ann=16")
		}
	case "len=cap+1":
		ops = append(ops, injLine("b", 0xFF, hFrameCapacity-hHeaderSize+1, []byte{1, 2, 3}, "err"))
	case "len=2^32-1":
		ops = append(ops, injLine("b", 0xFF, 1<<32-1, []byte{1, 2, 3}, "err"))
	case "ann>max-small": // announces a little more than dataMaxSize, truncated data: refused, modest allocation
		a := hDataMaxSize + 1 + g.Rng.Intn(100000)
		pay := append(uvarint(uint64(a)), 0x00, 0xaa)
		ops = append(ops, injLine("b", 0xFF, len(pay), pay, "err")+fmt.Sprintf(" ann=%d", a))
	case "bomb":
		a := []int{1 << 22, 1 << 26, 1 << 28}[g.Rng.Intn(3)]
		pay := append(uvarint(uint64(a)), 0x00, 0xaa)
		ops = append(ops, injLine("b", 0xFF, len(pay), pay, "err")+fmt.Sprintf(" ann=%d", a))
	}
	for i := 0; i < 4; i++ {
		ops = append(ops, fmt.Sprintf("r side=b n=%d", pickInt(g, readSizes)))
	}
	g.Case("frame bounds "+kind, ops, true)
}

// Write while the transport fails after k frames
func genWriteFail(g *hx.Gen) {
	ops := []string{hx.CaseOp("stream"), fmt.Sprintf("sc k=%d seed=%d j=%d", pickInt(g, ks), g.Rng.Intn(1000), g.Rng.Intn(2))}
	side := []string{"a", "b"}[g.Rng.Intn(2)]
	other := map[string]string{"a": "b", "b": "a"}[side]
	ops = append(ops, fmt.Sprintf("w side=%s d=r:%d:%d", side, g.Rng.Intn(999), pickInt(g, smallSizes)))
	n := []int{1, 32767, 32768, 32769, 65536, 65537, 98305}[g.Rng.Intn(7)]
	k := g.Rng.Intn(4)
	g.Count(fmt.Sprintf("writefail:frames-before-failure=%d", k))
	ops = append(ops, fmt.Sprintf("wf side=%s k=%d d=r:%d:%d", side, k, g.Rng.Intn(999), n))
	ops = append(ops, fmt.Sprintf("w side=%s d=r:%d:%d", side, g.Rng.Intn(999), 5))
	for i := 0; i < 6; i++ {
		ops = append(ops, fmt.Sprintf("r side=%s n=40000", other))
	}
	g.Case("write on a failing transport", ops, true)
}

func genMtry(g *hx.Gen) {
	q := []int{1, 2, 3, 5, 99, 100, 120}[g.Rng.Intn(7)]
	n := q + g.Rng.Intn(6)
	if g.Rng.Intn(4) == 0 && q > 1 {
		n = q - 1
	}
	g.Count(fmt.Sprintf("mtry:qcap=%d", q))
	op := fmt.Sprintf("mtry qcap=%d first=%d n=%d len=%d seed=%d", q, 70000+g.Rng.Intn(30000), n, 1+g.Rng.Intn(40), g.Rng.Intn(1<<16))
	g.Case("trysend", []string{hx.CaseOp("mux", "trysend"), op}, true)
}

// capacity boundary with EOF, handler panic
func genMrawEdge(g *hx.Gen) {
	maxpay := []int{4, 16, 64}[g.Rng.Intn(3)]
	capv := maxpay * (2 + g.Rng.Intn(3))
	c := chanCfg{id: 1 + g.Rng.Intn(50), prio: 1, cap: capv, qcap: 1}
	var pk []string
	add := func(eof, l int) {
		sd := g.Rng.Intn(1 << 16)
		over := 0
		if overLimit(c.id, eof, genBytes("r", sd, l), maxpay) {
			over = 1
		}
		pk = append(pk, fmt.Sprintf("%d:%d:%d:r:%d:%d", c.id, eof, over, sd, l))
	}
	op := ""
	kind := []string{"cap-exact-eof", "cap-exact-then-empty-eof", "cap+1", "cap-exact-then-one", "slack-exact", "panic"}[g.Rng.Intn(6)]
	g.Count("mrawedge:" + kind)
	fill := func(total int) {
		for total > 0 {
			l := maxpay
			if l > total {
				l = total
			}
			total -= l
			if total == 0 {
				return
			}
			add(0, l)
		}
	}
	switch kind {
	case "cap-exact-eof":
		fill(capv)
		add(1, capv-(capv-1)/maxpay*maxpay)
	case "cap-exact-then-empty-eof":
		fill(capv)
		add(0, capv-(capv-1)/maxpay*maxpay)
		add(1, 0)
	case "cap+1":
		fill(capv)
		add(0, capv-(capv-1)/maxpay*maxpay)
		add(1, 1)
	case "cap-exact-then-one":
		fill(capv)
		add(1, capv-(capv-1)/maxpay*maxpay)
		add(1, 1) // next message starts from an empty buffer
	case "slack-exact": // payloads around the size limit of one packet (maxPacketMsgSize = full packet + 10)
		for _, d := range []int{0, 7, 8, 9, 10, 11, 12} {
			add(1, maxpay+d)
			if strings.Contains(pk[len(pk)-1], ":1:r:") && strings.Split(pk[len(pk)-1], ":")[2] == "1" {
				break
			}
		}
		c.cap = 4 * maxpay
	case "panic":
		for i := 0; i < 2+g.Rng.Intn(4); i++ {
			add(1, 1+g.Rng.Intn(maxpay))
		}
		op = fmt.Sprintf(" panicat=%d", g.Rng.Intn(len(pk)))
	}
	line := fmt.Sprintf("mraw chans=%s maxpay=%d k=%d seed=%d j=%d%s pk=%s", chansLine([]chanCfg{c}), maxpay, pickInt(g, ks), g.Rng.Intn(1000), g.Rng.Intn(2), op, strings.Join(pk, ","))
	g.Case("mraw edge "+kind, []string{hx.CaseOp("mraw"), line}, true)
}

func (P) Generate(g *hx.Gen) {
	for i := 0; i < g.Pick(24, 300); i++ {
		genSealed(g, i == 0)
	}
	for i := 0; i < g.Pick(14, 150); i++ {
		genFrameBounds(g)
	}
	for i := 0; i < g.Pick(12, 150); i++ {
		genWriteFail(g)
	}
	for i := 0; i < g.Pick(8, 60); i++ {
		genMtry(g)
	}
	for i := 0; i < g.Pick(30, 400); i++ {
		genMrawEdge(g)
	}
	for _, m := range []string{"answer", "silent", "answer", "silent"} {
		g.Count("mping:" + m)
		g.Case("ping pong "+m, []string{hx.CaseOp("mux", "ping"), fmt.Sprintf("mping mode=%s k=%d seed=%d j=%d", m, pickInt(g, ks), g.Rng.Intn(1000), g.Rng.Intn(2))}, true)
	}
	// corpus of the switch-level identity clause
	tr := "k=0 seed=1 j=0"
	for _, k := range swStalls { // a stalling peer is dropped by the handshake deadline and does not hold the accept loop
		g.Case("corpus "+k, []string{hx.CaseOp("switch"), "swnew", swConnOp(g, k, "A", "A"), swConnOp(g, "honest", "A", "A"), swConnOp(g, k, "B", "B"), swConnOp(g, "honest", "B", "B")}, true)
	}
	g.Case("corpus send and receive", []string{hx.CaseOp("switch"), "swnew", "swconn auth=A claim=A " + "k=3 seed=1 j=1", "swsend key=A ch=64 d=r:1:300 mode=send",
		"swsend key=A ch=64 d=r:2:5000 mode=try", "swsend key=A ch=65 d=r:1:3 mode=send", "swsend key=A ch=7 d=r:1:3 mode=try", "swsend key=A ch=64 d=r:1:0 mode=send",
		"swrecv key=A ch=64 d=r:5:100", "swrecv key=A ch=65 d=r:6:10 frag=4", "swrecv key=A ch=64 d=r:7:4096", "swrecv key=A ch=64 d=r:7:4097",
		"swsend key=A ch=64 d=r:1:3 mode=send stale=1", "swconn auth=A claim=A k=0 seed=2 j=0", "swrecv key=A ch=99 d=r:6:10", "swsend key=A ch=64 d=r:1:3 mode=try stale=1"}, true)
	g.Case("corpus impersonation then victim", []string{hx.CaseOp("switch"), "swnew", "swconn auth=B claim=C " + tr, "swconn auth=C claim=C " + tr}, true)
	g.Case("corpus same ID claimed by two keys", []string{hx.CaseOp("switch"), "swnew", "swconn auth=A claim=C " + tr, "swconn auth=B claim=C " + tr, "swconn auth=C claim=C " + tr}, true)
	g.Case("corpus blacklisted ID claimed by another key", []string{hx.CaseOp("switch"), "swnew", "swblack key=D", "swconn auth=E claim=D " + tr, "swconn auth=D claim=D " + tr, "swconn auth=E claim=E " + tr}, true)
	g.Case("corpus claims the switch's key", []string{hx.CaseOp("switch"), "swnew", "swconn auth=A claim=S " + tr, "swconn auth=S claim=S " + tr, "swconn auth=A claim=A " + tr}, true)
	g.Case("corpus duplicate and reconnect", []string{hx.CaseOp("switch"), "swnew", "swconn auth=A claim=A " + tr, "swconn auth=A claim=A " + tr, "swdrop key=A", "swconn auth=A claim=A " + tr}, true)
	g.Case("corpus blacklist and forged CachePeerID", []string{hx.CaseOp("switch"), "swnew", "swblack key=D", "swconn auth=D claim=D cache=E " + tr}, true)
	for i := 0; i < g.Pick(60, 1200); i++ {
		genSwitch(g)
	}
	// corpus
	g.Case("corpus frame boundary", []string{hx.CaseOp("stream"), "sc k=3 seed=1", "w side=a d=r:1:32769", "r side=b n=32768", "r side=b n=5", "r side=b n=5"}, true)
	g.Case("corpus reflection", []string{hx.CaseOp("hs"), "hs scen=reflect k=0 seed=1"}, true)
	g.Case("corpus coalesced segments", []string{hx.CaseOp("hs"), "hs scen=coalesce k=0 seed=1"}, true)
	g.Case("corpus swapped auth frames", []string{hx.CaseOp("hs"), "hs scen=swap k=0 seed=1"}, true)
	for _, d := range []string{"AB", "BA"} {
		for _, k := range []int{0, 40, 7, 1} {
			for j := 0; j < 2; j++ {
				g.Case("corpus coalesce "+d, []string{hx.CaseOp("hs"), fmt.Sprintf("hs scen=coalesce k=%d seed=%d j=%d dir=%s", k, 3+k, j, d)}, true)
			}
		}
	}
	for _, n := range []int{0, 1, 5, 6, 60, 32768, 65536, 1 << 20} {
		g.Case("corpus maxenc", []string{"case", fmt.Sprintf("maxenc n=%d", n)}, false)
	}
	for i := 0; i < g.Pick(30, 400); i++ {
		genStream(g, i%3 == 0)
	}
	for i := 0; i < g.Pick(40, 600); i++ {
		genInject(g)
	}
	for i := 0; i < g.Pick(90, 1500); i++ {
		genMux(g)
	}
	for i := 0; i < g.Pick(25, 300); i++ {
		genMuxOver(g)
	}
	for i := 0; i < g.Pick(120, 2000); i++ {
		genMraw(g)
	}
	scens := []string{"none", "none", "coalesce", "coalesce", "coalesce", "flip", "flip", "flip", "flip", "flip", "ephsub", "keysub", "sigonly", "sigsub", "wrongchal", "nilkey", "nilsig", "wrongtype",
		"swap", "drop", "mitmfull", "reflect", "replay", "replayeph"}
	for i := 0; i < g.Pick(120, 3000); i++ {
		genHS(g, scens[g.Rng.Intn(len(scens))])
	}
}
