// Package c18: correspondence + monitors for peer connections (libs/p2p/conn): SecretConnection byte stream,
// MConnection channel multiplexing, and the authentication handshake, all on the real code in-process.
package c18

import (
	"fmt"
	"strings"
	"sync/atomic"

	"github.com/golang/snappy"

	"lvharness/hx"
)

type P struct{}

func (P) Rule() string {
	return "transport: in-memory duplex whose Read returns 1..k bytes (k in 1,2,3,7,64,1000,unbounded), half of the cases with Writes coalesced into one byte stream " +
		"(a Read may span the tail of one message and the head of the next, also across the plaintext key / auth frame boundary of the handshake). " +
		"stream: real SecretConnection pair over that duplex; writes of 1 B..3 frames incl. " +
		"32767/32768/32769/65535/65536/65537 B, read buffers 0..70000 B, both directions, drained to EOF; inj: hand-made frames (bad version/type, " +
		"over-length, truncated, corrupt snappy, chunk > dataMaxSize, sealed type) into the receive side. mux: real MConnection pair (half of them over a " +
		"SecretConnection pair), 1-4 channels, priorities 1..10, packet payload 1..1024 B, one concurrent sender per channel, messages 1 B..multi-packet incl. " +
		"exact packet multiples, empty and unknown-channel sends, one over-capacity message; mraw: the harness as malicious peer feeds PacketMsg sequences " +
		"(EOF 0/1/2, empty fragments, unknown channel, over capacity, oversize packet) to a real MConnection. hs: MakeSecretConnection under a man in the " +
		"middle (bit flips in every region of all four handshake messages, key/signature substitution, replay, reflection, swap, drop, " +
		"both messages of one direction coalesced into one segment). " +
		"switch: a real libs/p2p Switch (NewP2pManager + a harness Listener); the harness dials in as key holders A..F: honest NodeInfo, another key's " +
		"(impersonation), the switch's own key, forged CachePeerID, undecodable / no NodeInfo, other network / version / bad moniker, MarkBadNode, disconnects; " +
		"every case ends with honest attempts of the key holders. " +
		"non-trivial = a stream case that crosses a frame boundary or reads with a buffer smaller than a frame; a mux case with >= 2 channels or a " +
		"multi-packet message; any tampered handshake; distinct = distinct op sequence"
}

type exec struct {
	sp  *scPair
	sws *swState
}

func (P) NewExec() hx.Executor { return &exec{} }

func (e *exec) closeAll() {
	if e.sp != nil {
		e.sp.ea.Close()
		e.sp.eb.Close()
		e.sp = nil
	}
	if e.sws != nil {
		e.sws.close()
		e.sws = nil
	}
}

func (e *exec) Exec(op string) string {
	toks := hx.Tokens(op)
	switch toks[0] {
	case "case":
		e.closeAll()
		return "ok"
	case "sc", "w", "r", "inj", "maxenc":
		return e.streamOp(toks)
	case "mux":
		return e.muxOp(toks)
	case "mraw":
		return e.mrawOp(toks)
	case "hs":
		return e.hsOp(toks)
	case "swnew", "swblack", "swconn", "swdrop":
		return e.swOp(toks)
	}
	return "bad-op"
}

// ---- monitors ------------------------------------------------------------------------------

func fail(mon, class, site, msg string) hx.Failure {
	return hx.Failure{Monitor: mon, Class: class, Site: site, Msg: msg}
}

const siteSC = "libs/p2p/conn/secret_connection.go"
const siteMC = "libs/p2p/conn/connection.go"

func ansArg(ans, key string) string {
	v, _ := hx.Arg(hx.Tokens(ans), key)
	return v
}

func (P) Monitor(c *hx.CaseRun) []hx.Failure {
	var fs []hx.Failure
	swBlack, swPeers := map[string]bool{}, map[string]bool{}
	// --- stream: per direction, what was written and how far the reader got
	type dirSt struct {
		written []byte
		pos     int
		dirty   bool // something was injected: byte identity is no longer claimed for this direction
	}
	dirs := map[string]*dirSt{"a": {}, "b": {}} // keyed by WRITING side
	other := map[string]string{"a": "b", "b": "a"}
	for i, op := range c.Ops {
		toks := hx.Tokens(op)
		ans := c.Impl[i]
		if strings.HasPrefix(ans, "panic") {
			fs = append(fs, fail("no_panic", "panic:"+strings.TrimPrefix(ans, "panic "), strings.TrimPrefix(ans, "panic "), "panic on: "+clipS(op)))
			continue
		}
		switch toks[0] {
		case "sc":
			dirs = map[string]*dirSt{"a": {}, "b": {}}
			if ans != "ok" {
				fs = append(fs, fail("handshake_live", "handshake-honest-fails", siteSC+":MakeSecretConnection", "honest pair did not connect: "+ans))
			}
		case "w":
			sp, ok := parseSpec(argS(toks, "d"))
			if !ok || ans == "dead" {
				continue
			}
			d := dirs[argS(toks, "side")]
			if ansArg(ans, "err") != "none" || atoi(ansArg(ans, "n")) != sp.n {
				fs = append(fs, fail("stream_write_complete", "stream-write-short", siteSC+":Write", fmt.Sprintf("Write of %d bytes answered %s", sp.n, ans)))
				d.dirty = true
				continue
			}
			d.written = append(d.written, sp.bytes()...)
			if ansArg(ans, "fit") != "true" {
				fs = append(fs, fail("frame_fits", "frame-exceeds-capacity", siteSC+":Write", "a written frame does not fit frameCapacity / the snappy bound: "+ans))
			}
			sum := 0
			for _, f := range hx.SplitComma(ansArg(ans, "frames")) {
				p := strings.Split(f, ":")
				if len(p) == 2 {
					sum += atoi(p[1])
				}
			}
			if sum != sp.n {
				fs = append(fs, fail("stream_frames_cover", "stream-frames-do-not-cover-write", siteSC+":Write", fmt.Sprintf("frames %s for a write of %d bytes", ansArg(ans, "frames"), sp.n)))
			}
		case "inj":
			dirs[other[argS(toks, "side")]].dirty = true
		case "r":
			if ans == "dead" {
				continue
			}
			d := dirs[other[argS(toks, "side")]]
			if d.dirty {
				continue
			}
			n, er, want := atoi(ansArg(ans, "n")), ansArg(ans, "err"), atoi(argS(toks, "n"))
			switch {
			case er == "eof":
				if d.pos != len(d.written) {
					fs = append(fs, fail("stream_identity", "stream-bytes-lost", siteSC+":Read", fmt.Sprintf("EOF after %d of %d written bytes", d.pos, len(d.written))))
				}
			case er != "none":
				fs = append(fs, fail("stream_identity", "stream-read-error", siteSC+":Read", "read error on a faithful transport: "+ans))
				d.dirty = true
			default:
				if n > want || d.pos+n > len(d.written) || fnvOf(d.written[d.pos:d.pos+n]) != ansArg(ans, "d") {
					fs = append(fs, fail("stream_identity", "stream-bytes-differ", siteSC+":Read", fmt.Sprintf("read #%d returned %d bytes that are not the next %d bytes written (offset %d of %d)", i, n, n, d.pos, len(d.written))))
					d.dirty = true
				} else {
					d.pos += n
					if n == 0 && want > 0 {
						fs = append(fs, fail("stream_progress", "stream-empty-read", siteSC+":Read", "Read returned 0 bytes, nil error, into a non-empty buffer"))
					}
				}
			}
		case "maxenc":
			n := atoi(argS(toks, "n"))
			if ans != fmt.Sprintf("v=%d", 32+n+n/6) {
				fs = append(fs, fail("snappy_bound", "snappy-bound-formula", "snappy.MaxEncodedLen", "library bound differs from 32+n+n/6: "+ans))
			}
		case "mux":
			fs = append(fs, monitorMux(toks, ans)...)
		case "mraw":
			fs = append(fs, monitorMraw(toks, ans)...)
		case "hs":
			fs = append(fs, monitorHS(toks, ans)...)
		case "swnew":
			swBlack, swPeers = map[string]bool{}, map[string]bool{}
			if ans != "ok" {
				fs = append(fs, fail("switch_live", "switch-not-started", sitePS, "the switch under test did not start: "+ans))
			}
		case "swblack":
			swBlack[argS(toks, "key")] = true
		case "swdrop":
			swPeers = peerSetOf(ansArg(ans, "peers"))
		case "swconn":
			fs = append(fs, monitorSwConn(toks, ans, swBlack, swPeers)...)
			swPeers = peerSetOf(ansArg(ans, "peers"))
		}
	}
	return fs
}

const sitePS = "libs/p2p/switch.go:addPeer"

func peerSetOf(s string) map[string]bool {
	m := map[string]bool{}
	for _, n := range hx.SplitComma(s) {
		m[n] = true
	}
	return m
}

// peer_identity_is_authenticated_key: a peer is never added under an ID whose key is not the key its connection
// authenticated; a key the switch blacklisted is never admitted (whatever CachePeerID it sends); an honest, compatible, not yet connected, not blacklisted
// key holder is admitted whatever other key holders did before (no ID squatting).
func monitorSwConn(toks []string, ans string, black, peers map[string]bool) []hx.Failure {
	var fs []hx.Failure
	auth, claim := argS(toks, "auth"), argS(toks, "claim")
	added := ansArg(ans, "added") == "true"
	if added && ansArg(ans, "id") != auth {
		fs = append(fs, fail("peer_identity_is_authenticated_key", "peer-id-not-authenticated", sitePS,
			fmt.Sprintf("a connection authenticated as %s was added to the peer set under the node ID of key %s", auth, ansArg(ans, "id"))))
	}
	if added && black[auth] {
		fs = append(fs, fail("blacklisted_key_never_admitted", "blacklist-bypass-cached-peer-id", sitePS,
			fmt.Sprintf("key %s is blacklisted (MarkBadNode) but its connection was admitted (claimed CachePeerID of %s)", auth, argS(toks, "cache"))))
	}
	honest := claim == auth && auth != "S" && argS(toks, "cache") == "" && argS(toks, "net") == "" && argS(toks, "ver") == "" && argS(toks, "mon") == ""
	if honest && !black[auth] && !peers[auth] && !added {
		cl := "honest-peer-refused"
		if ansArg(ans, "why") == "duplicate" {
			cl = "peer-id-not-authenticated" // its ID is occupied by somebody else's connection
		}
		fs = append(fs, fail("no_id_squatting", cl, sitePS, fmt.Sprintf("honest key holder %s (not connected, not blacklisted) was refused: %s", auth, ans)))
	}
	if ansArg(ans, "why") == "timeout" {
		fs = append(fs, fail("switch_live", "switch-hung", sitePS, "no verdict on a connection attempt: "+ans))
	}
	return fs
}

func clipS(s string) string {
	if len(s) > 160 {
		return s[:160] + "..."
	}
	return s
}

// per channel: the delivered sequence is a prefix of the sent sequence (whole messages, in order), complete when
// no error was reported; nothing over the channel's capacity is ever delivered.
func monitorMux(toks []string, ans string) []hx.Failure {
	var fs []hx.Failure
	cs, plan := parseChans(argS(toks, "chans")), parsePlan(argS(toks, "plan"))
	at := hx.Tokens(ans)
	er := ansArg(ans, "err")
	if er == "timeout" {
		fs = append(fs, fail("mux_live", "mux-hung", siteMC, "not all messages were delivered within the timeout: "+ans))
	}
	oversize := false
	for _, c := range cs {
		var sent [][]byte
		firstOver := -1
		for _, it := range plan {
			if it.ch != c.id || it.sp.n == 0 {
				continue
			}
			if it.sp.n > c.cap && firstOver < 0 {
				firstOver = len(sent)
				oversize = true
			}
			sent = append(sent, it.sp.bytes())
		}
		var item string
		for _, t := range at {
			if strings.HasPrefix(t, fmt.Sprintf("%d:", c.id)) {
				item = t[strings.Index(t, ":")+1:]
			}
		}
		var n int
		var d string
		for _, kv := range strings.Split(item, ",") {
			if strings.HasPrefix(kv, "n=") {
				n = atoi(kv[2:])
			}
			if strings.HasPrefix(kv, "d=") {
				d = kv[2:]
			}
		}
		if n > len(sent) || delDigest(sent[:n]) != d {
			fs = append(fs, fail("mux_order", "mux-order-or-content", siteMC+":recvPacketMsg", fmt.Sprintf("channel %d: the %d delivered messages are not the first %d sent", c.id, n, n)))
			continue
		}
		if firstOver >= 0 && n > firstOver {
			fs = append(fs, fail("capacity_guard", "mux-over-capacity-delivered", siteMC+":recvPacketMsg", fmt.Sprintf("channel %d delivered a message over RecvMessageCapacity %d", c.id, c.cap)))
		}
		if er == "none" && firstOver < 0 && n != len(sent) {
			fs = append(fs, fail("mux_complete", "mux-message-lost", siteMC, fmt.Sprintf("channel %d: %d of %d messages delivered, no error", c.id, n, len(sent))))
		}
	}
	if er != "none" && er != "timeout" && !(oversize && er == "capacity") {
		fs = append(fs, fail("mux_live", "mux-unexpected-error", siteMC, "connection error on a faithful transport: "+ans))
	}
	if oversize && er == "none" {
		fs = append(fs, fail("capacity_guard", "mux-over-capacity-no-error", siteMC+":recvPacketMsg", "a message over RecvMessageCapacity raised no error: "+ans))
	}
	return fs
}

// reference reassembly for the malicious-peer stream: every delivery is the concatenation of one channel's
// consecutive fragments up to an EOF=1 fragment, within capacity
func monitorMraw(toks []string, ans string) []hx.Failure {
	cs := parseChans(argS(toks, "chans"))
	maxpay := atoi(argS(toks, "maxpay"))
	capOf := map[int]int{}
	for _, c := range cs {
		capOf[c.id] = c.cap
	}
	acc := map[int][]byte{}
	var want []string
	wantErr := "none"
	grey := false
	for _, it := range hx.SplitComma(argS(toks, "pk")) {
		p := strings.SplitN(it, ":", 4)
		sp, _ := parseSpec(p[3])
		ch, eof := atoi(p[0]), atoi(p[1])
		if p[2] == "1" {
			// over maxPacketMsgSize: the connection must end in an error and deliver nothing further
			wantErr = "anyerror"
			break
		}
		c, ok := capOf[ch]
		if !ok {
			wantErr = "unknownch"
			break
		}
		if len(acc[ch])+sp.n > c {
			wantErr = "capacity"
			break
		}
		acc[ch] = append(acc[ch], sp.bytes()...)
		if eof == 1 {
			want = append(want, fmt.Sprintf("%d:%d:%s", ch, len(acc[ch]), fnvOf(acc[ch])))
			acc[ch] = nil
		}
	}
	w := "-"
	if len(want) > 0 {
		w = strings.Join(want, ",")
	}
	exp := fmt.Sprintf("err=%s dels=%s", wantErr, w)
	if wantErr == "anyerror" && ansArg(ans, "err") != "none" && ansArg(ans, "err") != "timeout" {
		exp = fmt.Sprintf("err=%s dels=%s", ansArg(ans, "err"), w)
	}
	_ = maxpay
	if ans != exp && !grey {
		cl := "mraw-reassembly"
		if ansArg(ans, "err") == "timeout" {
			cl = "mraw-hung"
		}
		for _, d := range hx.SplitComma(ansArg(ans, "dels")) {
			p := strings.Split(d, ":")
			if len(p) == 3 && atoi(p[1]) > capOf[atoi(p[0])] {
				cl = "mux-over-capacity-delivered"
			}
		}
		return []hx.Failure{fail("mux_reassembly", cl, siteMC+":recvPacketMsg", fmt.Sprintf("receiver answered %q, whole-message reassembly gives %q", clipS(ans), clipS(exp)))}
	}
	return nil
}

// a side may end with an authenticated key only if the holder of that key's private half took part as this
// side's peer: the honest counterpart when the MITM only relays, the attacker's own key when it signs itself.
func monitorHS(toks []string, ans string) []hx.Failure {
	var fs []hx.Failure
	scen, dir := argS(toks, "scen"), argS(toks, "dir")
	allowed := map[string]map[string]bool{"a": {"ok:B": true}, "b": {"ok:A": true}}
	switch scen {
	case "sigsub":
		if dir == "BA" || dir == "both" {
			allowed["a"]["ok:M"] = true
		}
		if dir == "AB" || dir == "both" {
			allowed["b"]["ok:M"] = true
		}
	case "mitmfull":
		allowed["a"] = map[string]bool{"ok:M": true}
	case "reflect", "replay", "replayeph":
		allowed["a"] = map[string]bool{}
	}
	self := map[string]string{"a": "ok:A", "b": "ok:B"}
	for _, side := range []string{"a", "b"} {
		v := ansArg(ans, side)
		if v == "fail" || v == "-" || v == "" {
			continue
		}
		if !allowed[side][v] {
			cl := "handshake-auth-forged"
			if v == self[side] {
				cl = "handshake-reflection-self-auth"
			}
			fs = append(fs, fail("auth", cl, siteSC+":MakeSecretConnection", fmt.Sprintf("scenario %s: side %s authenticated %s although its peer never proved possession of that key", scen, side, v)))
		}
	}
	if scen == "none" && ans != "a=ok:B b=ok:A" {
		fs = append(fs, fail("handshake_live", "handshake-honest-fails", siteSC+":MakeSecretConnection", "untampered handshake: "+ans))
	}
	if scen == "coalesce" && ans != "a=ok:B b=ok:A" {
		fs = append(fs, fail("handshake_live", "handshake-coalesced-segments-fail", siteSC+":shareEphPubKey",
			"honest peers, unaltered bytes, but the peer's ephemeral key and auth frame arrived in one segment: "+ans))
	}
	return fs
}

// ---- generator -----------------------------------------------------------------------------

var boundarySizes = []int{1, 2, 5, 60, 61, 1024, 32767, 32768, 32769, 65535, 65536, 65537, 98304, 100000}
var smallSizes = []int{1, 2, 3, 7, 13, 64, 100, 500, 1000, 4096}
var readSizes = []int{1, 2, 5, 100, 1024, 4096, 32767, 32768, 32769, 40000, 70000}
var ks = []int{1, 2, 3, 7, 64, 1000, 0}

func pickInt(g *hx.Gen, xs []int) int { return xs[g.Rng.Intn(len(xs))] }

func kindOf(g *hx.Gen) string {
	if g.Rng.Intn(3) == 0 {
		return "z"
	}
	return "r"
}

func sizeClass(n int) string {
	switch {
	case n == 0:
		return "0"
	case n < hDataMaxSize:
		return "<frame"
	case n == hDataMaxSize:
		return "=frame"
	case n <= 2*hDataMaxSize:
		return "<=2frames"
	}
	return ">2frames"
}

func genStream(g *hx.Gen, big bool) {
	k := pickInt(g, ks)
	j := g.Rng.Intn(2)
	ops := []string{hx.CaseOp("stream"), fmt.Sprintf("sc k=%d seed=%d j=%d", k, g.Rng.Intn(1000), j)}
	g.Count(fmt.Sprintf("stream:k=%d", k))
	g.Count(fmt.Sprintf("stream:coalescing-transport=%d", j))
	total := map[string]int{"a": 0, "b": 0}  // bytes written BY side
	frames := map[string]int{"a": 0, "b": 0} // frames written BY side
	nreads := map[string]int{"a": 0, "b": 0} // reads issued ON side
	other := map[string]string{"a": "b", "b": "a"}
	nontriv := false
	steps := 3 + g.Rng.Intn(8)
	for s := 0; s < steps; s++ {
		side := []string{"a", "b"}[g.Rng.Intn(2)]
		if g.Rng.Intn(2) == 0 {
			n := pickInt(g, smallSizes)
			if big && g.Rng.Intn(2) == 0 {
				n = pickInt(g, boundarySizes)
			} else if g.Rng.Intn(4) == 0 {
				n = 1 + g.Rng.Intn(3000)
			}
			if g.Rng.Intn(25) == 0 {
				n = 0
			}
			if n > hDataMaxSize {
				nontriv = true
			}
			g.Count("stream:write:" + sizeClass(n))
			ops = append(ops, fmt.Sprintf("w side=%s d=%s:%d:%d", side, kindOf(g), g.Rng.Intn(1<<20), n))
			total[side] += n
			frames[side] += (n + hDataMaxSize - 1) / hDataMaxSize
		} else {
			// reads on this end; sometimes with nothing pending (EOF on the non-blocking transport)
			reads := 1 + g.Rng.Intn(4)
			for r := 0; r < reads; r++ {
				n := pickInt(g, readSizes)
				if g.Rng.Intn(30) == 0 {
					n = 0
				}
				if n < hDataMaxSize && total[other[side]] > n {
					nontriv = true
				}
				g.Count("stream:read")
				ops = append(ops, fmt.Sprintf("r side=%s n=%d", side, n))
				nreads[side]++
			}
		}
	}
	// drain both directions to EOF (every read consumes min(n, rest of the current frame))
	for _, side := range []string{"a", "b"} {
		w := other[side]
		n := []int{32768, 40000, 70000}[g.Rng.Intn(3)]
		cnt := frames[w] + nreads[side] + 2
		if total[w] <= 4000 && g.Rng.Intn(2) == 0 {
			n = []int{1, 2, 5, 100}[g.Rng.Intn(4)]
			cnt += total[w] / n
			nontriv = nontriv || total[w] > n
		}
		g.Count("stream:drain-reads")
		for i := 0; i < cnt; i++ {
			ops = append(ops, fmt.Sprintf("r side=%s n=%d", side, n))
		}
	}
	g.Case(fmt.Sprintf("stream k=%d", k), ops, nontriv)
}

func injLine(side string, hdr byte, l int, pay []byte, claim string) string {
	return fmt.Sprintf("inj side=%s hdr=%02x len=%d pay=%s dec=%s", side, hdr, l, hx.Hex(pay), claim)
}

func genInject(g *hx.Gen) {
	k := pickInt(g, ks)
	ops := []string{hx.CaseOp("stream", "inject"), fmt.Sprintf("sc k=%d seed=%d j=%d", k, g.Rng.Intn(1000), g.Rng.Intn(2))}
	// some honest traffic first
	for i := 0; i < g.Rng.Intn(3); i++ {
		ops = append(ops, fmt.Sprintf("w side=a d=%s:%d:%d", kindOf(g), g.Rng.Intn(1000), pickInt(g, smallSizes)))
	}
	final := false
	for s := 0; s < 1+g.Rng.Intn(4) && !final; s++ {
		kind := []string{"valid", "valid-z-big", "badver", "badtype", "sealed", "overlen", "truncated", "corrupt", "chunk>max", "empty-chunk", "trailing"}[g.Rng.Intn(11)]
		g.Count("inject:" + kind)
		sp := spec{"r", g.Rng.Intn(1000), pickInt(g, smallSizes)}
		pay := snappy.Encode(nil, sp.bytes())
		switch kind {
		case "valid":
			ops = append(ops, injLine("b", 0xFF, len(pay), pay, sp.String()))
		case "valid-z-big":
			sp = spec{"z", g.Rng.Intn(200), []int{32768, 32767, 20000}[g.Rng.Intn(3)]}
			pay = snappy.Encode(nil, sp.bytes())
			ops = append(ops, injLine("b", 0xFF, len(pay), pay, sp.String()))
		case "badver":
			ops = append(ops, injLine("b", []byte{0x0F, 0xEF, 0x7F}[g.Rng.Intn(3)], len(pay), pay, sp.String()))
		case "badtype":
			ops = append(ops, injLine("b", []byte{0xF0, 0xF1, 0xFD, 0xF7}[g.Rng.Intn(4)], len(pay), pay, sp.String()))
		case "sealed":
			ops = append(ops, injLine("b", 0xFE, len(pay), pay, sp.String()))
		case "overlen":
			l := []int{65531, 65530 + 1 + g.Rng.Intn(100), 1 << 24, 1<<32 - 1}[g.Rng.Intn(4)]
			ops = append(ops, injLine("b", 0xFF, l, pay, "err"))
			final = true
		case "truncated":
			cut := g.Rng.Intn(len(pay))
			ops = append(ops, injLine("b", 0xFF, len(pay), pay[:cut], "err"))
			final = true
		case "corrupt":
			bad := append([]byte{}, pay...)
			bad[0] ^= 0x55 // the uvarint length no longer matches
			if _, err := snappy.Decode(nil, bad); err != nil {
				ops = append(ops, injLine("b", 0xFF, len(bad), bad, "err"))
			}
		case "chunk>max":
			sp = spec{"z", g.Rng.Intn(200), []int{32769, 40000, 65536}[g.Rng.Intn(3)]}
			pay = snappy.Encode(nil, sp.bytes())
			ops = append(ops, injLine("b", 0xFF, len(pay), pay, sp.String()))
		case "empty-chunk":
			sp = spec{"r", 1, 0}
			pay = snappy.Encode(nil, nil)
			ops = append(ops, injLine("b", 0xFF, len(pay), pay, sp.String()))
		case "trailing":
			// a valid frame followed by garbage that is parsed as the next header
			junk := []byte{byte(g.Rng.Intn(256)), 0, 0, 0}
			ops = append(ops, injLine("b", 0xFF, len(pay), append(append([]byte{}, pay...), junk...), sp.String()))
			final = true
		}
		for r := 0; r < 1+g.Rng.Intn(3); r++ {
			ops = append(ops, fmt.Sprintf("r side=b n=%d", pickInt(g, readSizes)))
		}
	}
	for i := 0; i < 12; i++ {
		ops = append(ops, fmt.Sprintf("r side=b n=%d", 50000))
	}
	g.Case("inject", ops, true)
}

func chansLine(cs []chanCfg) string {
	var it []string
	for _, c := range cs {
		it = append(it, fmt.Sprintf("%d:%d:%d:%d", c.id, c.prio, c.cap, c.qcap))
	}
	return strings.Join(it, ",")
}

func msgLen(g *hx.Gen, maxpay int) int {
	switch g.Rng.Intn(8) {
	case 0:
		return 1
	case 1:
		return maxpay
	case 2:
		return maxpay + 1
	case 3:
		return maxpay * (1 + g.Rng.Intn(4))
	case 4:
		return maxpay*(1+g.Rng.Intn(4)) - 1
	case 5:
		return 1 + g.Rng.Intn(8*maxpay)
	}
	return 1 + g.Rng.Intn(2*maxpay+3)
}

func genMux(g *hx.Gen) {
	nch := 1 + g.Rng.Intn(4)
	maxpay := []int{1, 2, 7, 64, 100, 1024}[g.Rng.Intn(6)]
	ids := g.Rng.Perm(60)
	var cs []chanCfg
	for i := 0; i < nch; i++ {
		cs = append(cs, chanCfg{id: 1 + ids[i], prio: 1 + g.Rng.Intn(10), cap: 1 << 20, qcap: 1 + g.Rng.Intn(6)})
	}
	var plan []string
	nmsg := 1 + g.Rng.Intn(g.Pick(14, 40))
	multi := false
	total := 0
	for i := 0; i < nmsg; i++ {
		c := cs[g.Rng.Intn(nch)]
		n := msgLen(g, maxpay)
		if total+n > 60000 {
			n = 1
		}
		total += n
		ch := c.id
		switch g.Rng.Intn(40) {
		case 0:
			n = 0 // Send refuses the empty message
			g.Count("mux:empty-send")
		case 1:
			ch = 100 // unknown channel: refused by Send
			g.Count("mux:unknown-channel-send")
		}
		if n > maxpay {
			multi = true
		}
		plan = append(plan, fmt.Sprintf("%d:%s:%d:%d", ch, kindOf(g), g.Rng.Intn(1<<16), n))
	}
	sc := g.Rng.Intn(2)
	rate := 0
	if g.Rng.Intn(6) == 0 {
		rate = 5120000
	}
	g.Count(fmt.Sprintf("mux:channels=%d", nch))
	g.Count(fmt.Sprintf("mux:maxpay=%d", maxpay))
	g.Count(fmt.Sprintf("mux:over-secretconn=%d", sc))
	op := fmt.Sprintf("mux chans=%s maxpay=%d sc=%d k=%d seed=%d j=%d rate=%d plan=%s", chansLine(cs), maxpay, sc, pickInt(g, ks), g.Rng.Intn(1000), g.Rng.Intn(2), rate, strings.Join(plan, ","))
	g.Case(fmt.Sprintf("mux ch=%d maxpay=%d msgs=%d", nch, maxpay, nmsg), []string{hx.CaseOp("mux"), op}, nch >= 2 || multi)
}

// one channel, one message over RecvMessageCapacity in the middle
func genMuxOver(g *hx.Gen) {
	maxpay := []int{7, 64, 100}[g.Rng.Intn(3)]
	capv := maxpay * (1 + g.Rng.Intn(5))
	if g.Rng.Intn(3) == 0 {
		capv += g.Rng.Intn(maxpay)
	}
	cs := []chanCfg{{id: 1 + g.Rng.Intn(50), prio: 1, cap: capv, qcap: 3}}
	var plan []string
	for i := 0; i < g.Rng.Intn(4); i++ {
		plan = append(plan, fmt.Sprintf("%d:r:%d:%d", cs[0].id, g.Rng.Intn(999), 1+g.Rng.Intn(capv)))
	}
	if g.Rng.Intn(4) == 0 {
		plan = append(plan, fmt.Sprintf("%d:r:%d:%d", cs[0].id, g.Rng.Intn(999), capv)) // exactly at capacity: fine
	}
	plan = append(plan, fmt.Sprintf("%d:r:%d:%d", cs[0].id, g.Rng.Intn(999), capv+1+g.Rng.Intn(3*maxpay)))
	for i := 0; i < g.Rng.Intn(3); i++ {
		plan = append(plan, fmt.Sprintf("%d:r:%d:%d", cs[0].id, g.Rng.Intn(999), 1+g.Rng.Intn(capv)))
	}
	g.Count("mux:over-capacity")
	op := fmt.Sprintf("mux chans=%s maxpay=%d sc=%d k=%d seed=%d j=%d rate=0 plan=%s", chansLine(cs), maxpay, g.Rng.Intn(2), pickInt(g, ks), g.Rng.Intn(1000), g.Rng.Intn(2), strings.Join(plan, ","))
	g.Case("mux over capacity", []string{hx.CaseOp("mux", "overcap"), op}, true)
}

func genMraw(g *hx.Gen) {
	nch := 1 + g.Rng.Intn(3)
	maxpay := []int{4, 16, 64, 300}[g.Rng.Intn(4)]
	ids := g.Rng.Perm(60)
	var cs []chanCfg
	for i := 0; i < nch; i++ {
		cs = append(cs, chanCfg{id: 1 + ids[i], prio: 1, cap: maxpay * (1 + g.Rng.Intn(4)), qcap: 1})
	}
	var pk []string
	n := 1 + g.Rng.Intn(14)
	bad := g.Rng.Intn(3) == 0
	for i := 0; i < n; i++ {
		c := cs[g.Rng.Intn(nch)]
		ch, eof, l := c.id, g.Rng.Intn(2), g.Rng.Intn(maxpay+1)
		if g.Rng.Intn(3) == 0 {
			l = maxpay
		}
		if g.Rng.Intn(12) == 0 {
			l = 0
			g.Count("mraw:empty-fragment")
		}
		if g.Rng.Intn(15) == 0 {
			eof = 2 + g.Rng.Intn(250) // neither 0 nor 1
			g.Count("mraw:eof-other")
		}
		if bad && i == n-1 {
			switch g.Rng.Intn(3) {
			case 0:
				ch = 120
				g.Count("mraw:unknown-channel")
			case 1:
				l = maxpay + 65 + g.Rng.Intn(200)
				g.Count("mraw:oversize-packet")
			case 2:
				l = maxpay
				eof = 0
				g.Count("mraw:no-eof-tail")
			}
		}
		if g.Rng.Intn(25) == 0 {
			l = maxpay + 1 + g.Rng.Intn(24) // around the slack of maxPacketMsgSize
			g.Count("mraw:slack-zone")
		}
		sd := g.Rng.Intn(1 << 16)
		over := 0
		if overLimit(ch, eof, genBytes("r", sd, l), maxpay) {
			over = 1
			pk = append(pk, fmt.Sprintf("%d:%d:%d:r:%d:%d", ch, eof, over, sd, l))
			break // the stream is desynchronised after an over-limit packet: nothing modelled behind it
		}
		pk = append(pk, fmt.Sprintf("%d:%d:%d:r:%d:%d", ch, eof, over, sd, l))
	}
	op := fmt.Sprintf("mraw chans=%s maxpay=%d k=%d seed=%d j=%d pk=%s", chansLine(cs), maxpay, pickInt(g, ks), g.Rng.Intn(1000), g.Rng.Intn(2), strings.Join(pk, ","))
	g.Case(fmt.Sprintf("mraw ch=%d maxpay=%d pk=%d", nch, maxpay, n), []string{hx.CaseOp("mraw"), op}, true)
}

var authLen = len(encAuth(authMsg{dummyKey().PubKey(), dummySig()}))

func genHS(g *hx.Gen, scen string) {
	k := pickInt(g, ks)
	j := g.Rng.Intn(2)
	op := fmt.Sprintf("hs scen=%s k=%d seed=%d j=%d", scen, k, g.Rng.Intn(1000), j)
	g.Count(fmt.Sprintf("hs:coalescing-transport=%d", j))
	switch scen {
	case "coalesce":
		// both messages of one direction in ONE segment; the receiver's reads cut it at 1..k bytes (k = 0: all at once)
		op += " dir=" + []string{"AB", "BA"}[g.Rng.Intn(2)]
		g.Count(fmt.Sprintf("hs:coalesce:k=%d", k))
	case "flip":
		msg := []string{"ephAB", "ephBA", "authAB", "authBA"}[g.Rng.Intn(4)]
		idx, n := 0, ephLen
		if strings.HasPrefix(msg, "auth") {
			idx, n = 1, authLen
		}
		off := g.Rng.Intn(n)
		if g.Rng.Intn(3) == 0 {
			off = g.Rng.Intn(6) // the short prefix regions deserve their share
		}
		g.Count("hs:flip:" + regionOf(idx, off, n))
		op += fmt.Sprintf(" msg=%s off=%d bit=%d", msg, off, g.Rng.Intn(8))
	case "ephsub", "sigsub":
		op += " dir=" + []string{"AB", "BA", "both"}[g.Rng.Intn(3)]
	case "keysub", "sigonly", "wrongchal", "nilkey", "nilsig", "wrongtype":
		op += " dir=" + []string{"AB", "BA"}[g.Rng.Intn(2)]
	case "drop":
		op += " msg=" + []string{"ephAB", "ephBA", "authAB", "authBA"}[g.Rng.Intn(4)]
	}
	g.Count("hs:" + scen)
	before := atomic.LoadInt64(&hungCount)
	g.Case("hs "+scen, []string{hx.CaseOp("hs"), op}, scen != "none")
	if atomic.LoadInt64(&hungCount) != before {
		g.Count("hs:cut-after-no-progress")
	}
}

var swKeys = []string{"A", "B", "C", "D", "E", "F"}

func swConnOp(g *hx.Gen, kind string, auth, other string) string {
	tr := fmt.Sprintf("k=%d seed=%d j=%d", pickInt(g, ks), g.Rng.Intn(1000), g.Rng.Intn(2))
	g.Count("sw:" + kind)
	switch kind {
	case "honest":
		return fmt.Sprintf("swconn auth=%s claim=%s %s", auth, auth, tr)
	case "impersonate":
		return fmt.Sprintf("swconn auth=%s claim=%s %s", auth, other, tr)
	case "claimself":
		return fmt.Sprintf("swconn auth=%s claim=S %s", auth, tr)
	case "asself":
		return fmt.Sprintf("swconn auth=S claim=S %s", tr)
	case "cacheid":
		return fmt.Sprintf("swconn auth=%s claim=%s cache=%s %s", auth, auth, other, tr)
	case "impersonate+cache":
		return fmt.Sprintf("swconn auth=%s claim=%s cache=%s %s", auth, other, auth, tr)
	case "garbage", "silent":
		return fmt.Sprintf("swconn auth=%s claim=%s %s", auth, kind, tr)
	case "othernet":
		return fmt.Sprintf("swconn auth=%s claim=%s net=other-chain %s", auth, auth, tr)
	case "badversion":
		return fmt.Sprintf("swconn auth=%s claim=%s ver=%s %s", auth, auth, []string{"9.0.0", "1.2"}[g.Rng.Intn(2)], tr)
	case "badmoniker":
		return fmt.Sprintf("swconn auth=%s claim=%s mon=bad %s", auth, auth, tr)
	}
	return "swconn auth=A claim=A " + tr
}

var swKinds = []string{"honest", "honest", "honest", "impersonate", "impersonate", "impersonate", "claimself", "asself", "cacheid", "impersonate+cache",
	"garbage", "silent", "othernet", "badversion", "badmoniker"}

func genSwitch(g *hx.Gen) {
	ops := []string{hx.CaseOp("switch"), "swnew"}
	n := 3 + g.Rng.Intn(8)
	for i := 0; i < n; i++ {
		a := swKeys[g.Rng.Intn(len(swKeys))]
		o := swKeys[g.Rng.Intn(len(swKeys))]
		for o == a {
			o = swKeys[g.Rng.Intn(len(swKeys))]
		}
		switch r := g.Rng.Intn(12); {
		case r == 0:
			g.Count("sw:blacklist")
			ops = append(ops, "swblack key="+a)
		case r == 1:
			g.Count("sw:drop")
			ops = append(ops, "swdrop key="+a)
		default:
			ops = append(ops, swConnOp(g, swKinds[g.Rng.Intn(len(swKinds))], a, o))
		}
	}
	// every key holder finally tries honestly: nobody may have been squatted out
	for _, k := range swKeys[:2+g.Rng.Intn(4)] {
		ops = append(ops, swConnOp(g, "honest", k, k))
	}
	g.Case("switch admission", ops, true)
}

func (P) Generate(g *hx.Gen) {
	// corpus of the switch-level identity clause
	tr := "k=0 seed=1 j=0"
	g.Case("corpus impersonation then victim", []string{hx.CaseOp("switch"), "swnew", "swconn auth=B claim=C " + tr, "swconn auth=C claim=C " + tr}, true)
	g.Case("corpus same ID claimed by two keys", []string{hx.CaseOp("switch"), "swnew", "swconn auth=A claim=C " + tr, "swconn auth=B claim=C " + tr, "swconn auth=C claim=C " + tr}, true)
	g.Case("corpus blacklisted ID claimed by another key", []string{hx.CaseOp("switch"), "swnew", "swblack key=D", "swconn auth=E claim=D " + tr, "swconn auth=D claim=D " + tr, "swconn auth=E claim=E " + tr}, true)
	g.Case("corpus claims the switch's key", []string{hx.CaseOp("switch"), "swnew", "swconn auth=A claim=S " + tr, "swconn auth=S claim=S " + tr, "swconn auth=A claim=A " + tr}, true)
	g.Case("corpus duplicate and reconnect", []string{hx.CaseOp("switch"), "swnew", "swconn auth=A claim=A " + tr, "swconn auth=A claim=A " + tr, "swdrop key=A", "swconn auth=A claim=A " + tr}, true)
	g.Case("corpus blacklist and forged CachePeerID", []string{hx.CaseOp("switch"), "swnew", "swblack key=D", "swconn auth=D claim=D cache=E " + tr}, true)
	for i := 0; i < g.Pick(60, 1200); i++ {
		genSwitch(g)
	}
	// corpus
	g.Case("corpus frame boundary", []string{hx.CaseOp("stream"), "sc k=3 seed=1", "w side=a d=r:1:32769", "r side=b n=32768", "r side=b n=5", "r side=b n=5"}, true)
	g.Case("corpus reflection", []string{hx.CaseOp("hs"), "hs scen=reflect k=0 seed=1"}, true)
	g.Case("corpus coalesced segments", []string{hx.CaseOp("hs"), "hs scen=coalesce k=0 seed=1"}, true)
	g.Case("corpus swapped auth frames", []string{hx.CaseOp("hs"), "hs scen=swap k=0 seed=1"}, true)
	for _, d := range []string{"AB", "BA"} {
		for _, k := range []int{0, 40, 7, 1} {
			for j := 0; j < 2; j++ {
				g.Case("corpus coalesce "+d, []string{hx.CaseOp("hs"), fmt.Sprintf("hs scen=coalesce k=%d seed=%d j=%d dir=%s", k, 3+k, j, d)}, true)
			}
		}
	}
	for _, n := range []int{0, 1, 5, 6, 60, 32768, 65536, 1 << 20} {
		g.Case("corpus maxenc", []string{"case", fmt.Sprintf("maxenc n=%d", n)}, false)
	}
	for i := 0; i < g.Pick(30, 400); i++ {
		genStream(g, i%3 == 0)
	}
	for i := 0; i < g.Pick(40, 600); i++ {
		genInject(g)
	}
	for i := 0; i < g.Pick(90, 1500); i++ {
		genMux(g)
	}
	for i := 0; i < g.Pick(25, 300); i++ {
		genMuxOver(g)
	}
	for i := 0; i < g.Pick(120, 2000); i++ {
		genMraw(g)
	}
	scens := []string{"none", "none", "coalesce", "coalesce", "coalesce", "flip", "flip", "flip", "flip", "flip", "ephsub", "keysub", "sigonly", "sigsub", "wrongchal", "nilkey", "nilsig", "wrongtype",
		"swap", "drop", "mitmfull", "reflect", "replay", "replayeph"}
	for i := 0; i < g.Pick(120, 3000); i++ {
		genHS(g, scens[g.Rng.Intn(len(scens))])
	}
}
