package c18

// Mux cases: real MConnection pair (optionally on top of a real SecretConnection pair) over the chunking duplex,
// one sender goroutine per channel; and `mraw`: one real MConnection fed by the harness playing a malicious peer
// (hand-made PacketMsg sequences), which drives recvRoutine/recvPacketMsg deterministically.

import (
	"bytes"
	"fmt"
	"net"
	"strings"
	"sync"
	"time"

	tmconn "github.com/lianxiangcloud/linkchain/libs/p2p/conn"
	"github.com/lianxiangcloud/linkchain/libs/ser"

	"lvharness/hx"
)

type chanCfg struct {
	id, prio, cap, qcap int
}

// chans=id:prio:recvcap:queuecap,...
func parseChans(s string) []chanCfg {
	var out []chanCfg
	for _, it := range hx.SplitComma(s) {
		p := strings.Split(it, ":")
		if len(p) != 4 {
			return nil
		}
		out = append(out, chanCfg{atoi(p[0]), atoi(p[1]), atoi(p[2]), atoi(p[3])})
	}
	return out
}

func descs(cs []chanCfg) []*tmconn.ChannelDescriptor {
	var ds []*tmconn.ChannelDescriptor
	for _, c := range cs {
		ds = append(ds, &tmconn.ChannelDescriptor{ID: byte(c.id), Priority: c.prio, SendQueueCapacity: c.qcap,
			RecvMessageCapacity: c.cap, RecvBufferCapacity: 64})
	}
	return ds
}

func mcfg(maxpay int, rate int64) tmconn.MConnConfig {
	cfg := tmconn.DefaultMConnConfig()
	cfg.MaxPacketMsgPayloadSize = maxpay
	cfg.SendRate, cfg.RecvRate = rate, rate
	cfg.FlushThrottle = time.Millisecond
	return cfg
}

type delivery struct {
	ch  byte
	msg []byte
}

type recvLog struct {
	panicAt int // >= 0: the handler panics instead of taking the delivery with this index
	mu    sync.Mutex
	dels  []delivery
	n     int
	errs  []string
	event chan struct{}
}

func newRecvLog() *recvLog { return &recvLog{event: make(chan struct{}, 1), panicAt: -1} }

func (r *recvLog) poke() {
	select {
	case r.event <- struct{}{}:
	default:
	}
}

// onReceive copies the bytes before returning: that is the contract under which the property is stated
// (the slice aliases the channel's reusable recving buffer).
func (r *recvLog) onReceive(ch byte, msg []byte) {
	r.mu.Lock()
	if r.panicAt >= 0 && r.n == r.panicAt && ch != sentinelCh {
		r.n++
		r.mu.Unlock()
		panic("lv-handler-panic")
	}
	r.dels = append(r.dels, delivery{ch, append([]byte{}, msg...)})
	r.n++
	r.mu.Unlock()
	r.poke()
}

func muxErrClass(x interface{}) string {
	m := fmt.Sprint(x)
	switch {
	case strings.Contains(m, "exceeds available capacity"):
		return "capacity"
	case strings.Contains(m, "Unknown channel"):
		return "unknownch"
	case strings.Contains(m, "Unknown message type"):
		return "unknowntype"
	case strings.Contains(m, "pong timeout"):
		return "pongtimeout"
	case strings.Contains(m, "recovered panic"), strings.Contains(m, "lv-handler-panic"):
		return "handlerpanic"
	case strings.Contains(m, "EOF") || strings.Contains(m, "closed"):
		return "closed"
	}
	return "decode"
}

func (r *recvLog) onError(x interface{}) {
	dbg("onError: %v", x)
	r.mu.Lock()
	r.errs = append(r.errs, muxErrClass(x))
	r.mu.Unlock()
	r.poke()
}

func (r *recvLog) snapshot() ([]delivery, []string) {
	r.mu.Lock()
	defer r.mu.Unlock()
	return append([]delivery{}, r.dels...), append([]string{}, r.errs...)
}

type planItem struct {
	ch int
	sp spec
}

// plan=ch:kind:seed:len,...
func parsePlan(s string) []planItem {
	var out []planItem
	for _, it := range hx.SplitComma(s) {
		i := strings.Index(it, ":")
		if i < 0 {
			return nil
		}
		sp, ok := parseSpec(it[i+1:])
		if !ok {
			return nil
		}
		out = append(out, planItem{atoi(it[:i]), sp})
	}
	return out
}

func delDigest(msgs [][]byte) string {
	h := uint64(fnvOff)
	for _, m := range msgs {
		h = fnvU32(h, len(m))
		h = fnvAdd(h, m)
	}
	return fnvHex(h)
}

// decodePackets parses a recorded MConnection byte stream into packets.
func decodePackets(wire []byte, limit int) ([]tmconn.PacketMsg, bool) {
	r := bytes.NewReader(wire)
	var out []tmconn.PacketMsg
	for r.Len() > 0 {
		var p tmconn.Packet
		if _, err := ser.DecodeReaderWithType(r, &p, int64(limit)); err != nil {
			return out, false
		}
		if pm, ok := p.(tmconn.PacketMsg); ok {
			out = append(out, pm)
		}
	}
	return out, true
}

const sentinelCh = 0x7e

// mux chans=... maxpay=P sc=0|1 k=K seed=S rate=R plan=...
func (e *exec) muxOp(toks []string) string {
	e.closeAll()
	cs := parseChans(argS(toks, "chans"))
	plan := parsePlan(argS(toks, "plan"))
	maxpay := atoi(argS(toks, "maxpay"))
	if cs == nil || plan == nil || maxpay < 1 {
		return "bad-op"
	}
	var ca, cb net.Conn
	if argS(toks, "sc") == "1" {
		p, res := makePair(atoi(argS(toks, "k")), uint32(atoi(argS(toks, "seed"))), false, argS(toks, "j") == "1")
		if p == nil {
			return "err=handshake-" + res
		}
		ca, cb = p.a, p.b
	} else {
		a, b, _, _ := duplex(atoi(argS(toks, "k")), uint32(atoi(argS(toks, "seed"))), false, argS(toks, "j") == "1")
		ca, cb = a, b
	}
	tap := &tapConn{Conn: ca}
	rate := int64(atoi(argS(toks, "rate")))
	rl, rlA := newRecvLog(), newRecvLog()
	ma := tmconn.NewMConnectionWithConfig(tap, descs(cs), rlA.onReceive, rlA.onError, mcfg(maxpay, rate))
	mb := tmconn.NewMConnectionWithConfig(cb, descs(cs), rl.onReceive, rl.onError, mcfg(maxpay, rate))
	if ma.Start() != nil || mb.Start() != nil {
		return "err=start"
	}
	defer func() { ma.Stop(); mb.Stop() }()

	// expected number of deliveries: every message up to (excluding) the first rejected/oversize one per channel
	capOf := map[int]int{}
	for _, c := range cs {
		capOf[c.id] = c.cap
		if c.cap == 0 {
			capOf[c.id] = 22020096 // FillDefaults
		}
	}
	perCh := map[int][]spec{}
	for _, it := range plan {
		perCh[it.ch] = append(perCh[it.ch], it.sp)
	}
	expect, oversize := 0, false
	for ch, sps := range perCh {
		c, known := capOf[ch]
		for _, sp := range sps {
			if !known || sp.n == 0 {
				continue // Send refuses
			}
			if sp.n > c {
				oversize = true
				break
			}
			expect++
		}
	}
	// one sender goroutine per channel, messages of a channel in plan order
	var wg sync.WaitGroup
	var smu sync.Mutex
	sendRes := map[int][]bool{}
	for ch, sps := range perCh {
		wg.Add(1)
		go func(ch int, sps []spec) {
			defer wg.Done()
			for _, sp := range sps {
				ok := ma.Send(byte(ch), sp.bytes())
				smu.Lock()
				sendRes[ch] = append(sendRes[ch], ok)
				smu.Unlock()
			}
		}(ch, sps)
	}
	done := make(chan struct{})
	go func() { wg.Wait(); close(done) }()
	deadline := time.After(8 * time.Second)
	timeout := false
	sendersDone := false
WAIT:
	for {
		dels, errs := rl.snapshot()
		if len(errs) > 0 || (sendersDone && len(dels) >= expect && !oversize) {
			break
		}
		select {
		case <-rl.event:
		case <-done:
			sendersDone = true
			done = nil
		case <-deadline:
			timeout = true
			break WAIT
		}
	}
	if !timeout && !oversize {
		time.Sleep(3 * time.Millisecond) // grace: a spurious extra delivery would show up here
	}
	dels, errs := rl.snapshot()
	er := "none"
	if len(errs) > 0 {
		er = errs[0]
	} else if timeout {
		er = "timeout"
	}
	// the sender's packet stream, per channel
	pk, okp := decodePackets(tap.bytes(), 1<<24)
	var sb strings.Builder
	fmt.Fprintf(&sb, "err=%s", er)
	for _, c := range cs {
		var msgs [][]byte
		for _, d := range dels {
			if int(d.ch) == c.id {
				msgs = append(msgs, d.msg)
			}
		}
		f, np := "-", 0
		if er == "none" {
			h := uint64(fnvOff)
			for _, p := range pk {
				if int(p.ChannelID) == c.id {
					h = fnvU32(h, len(p.Bytes))
					h = fnvAdd(h, []byte{p.EOF})
					np++
				}
			}
			f = fnvHex(h)
			if !okp {
				f = "undecodable"
			}
		}
		accepted := 0
		smu.Lock()
		for _, ok := range sendRes[c.id] {
			if ok {
				accepted++
			}
		}
		smu.Unlock()
		if er != "none" {
			accepted = -1
		}
		fmt.Fprintf(&sb, " %d:n=%d,d=%s,f=%s,p=%d,acc=%d", c.id, len(msgs), delDigest(msgs), f, np, accepted)
	}
	// the cross-channel order actually taken is not part of the answer (any schedule is legal); the monitor
	// re-derives what it needs from the plan and the per-channel digests
	return sb.String()
}

// mraw chans=... maxpay=P k=K seed=S pk=ch:eof:over:kind:seed:len,...
func (e *exec) mrawOp(toks []string) string {
	e.closeAll()
	cs := parseChans(argS(toks, "chans"))
	maxpay := atoi(argS(toks, "maxpay"))
	if cs == nil || maxpay < 1 {
		return "bad-op"
	}
	a, b, _, _ := duplex(atoi(argS(toks, "k")), uint32(atoi(argS(toks, "seed"))), false, argS(toks, "j") == "1")
	rl := newRecvLog()
	if v := argS(toks, "panicat"); v != "" {
		rl.panicAt = atoi(v)
	}
	all := append(append([]chanCfg{}, cs...), chanCfg{sentinelCh, 1, 16, 4})
	mb := tmconn.NewMConnectionWithConfig(b, descs(all), rl.onReceive, rl.onError, mcfg(maxpay, 0))
	if mb.Start() != nil {
		return "err=start"
	}
	defer mb.Stop()
	var wire bytes.Buffer
	for _, it := range hx.SplitComma(argS(toks, "pk")) {
		p := strings.SplitN(it, ":", 4)
		if len(p) != 4 {
			return "bad-op"
		}
		sp, ok := parseSpec(p[3])
		if !ok {
			return "bad-op"
		}
		enc := ser.MustEncodeToBytesWithType(tmconn.PacketMsg{ChannelID: byte(atoi(p[0])), EOF: byte(atoi(p[1])), Bytes: sp.bytes()})
		// the `over` flag of the op is the codec oracle for "encoded size exceeds maxPacketMsgSize"; checked here
		if (len(enc) > pktLimit(maxpay)) != (p[2] == "1") {
			return "bad-op"
		}
		wire.Write(enc)
	}
	ser.EncodeWriterWithType(&wire, tmconn.PacketMsg{ChannelID: sentinelCh, EOF: 1, Bytes: []byte{0x5a}})
	a.Write(wire.Bytes())
	deadline := time.After(5 * time.Second)
	timeout := false
WAIT:
	for {
		dels, errs := rl.snapshot()
		if len(errs) > 0 || (len(dels) > 0 && dels[len(dels)-1].ch == sentinelCh) {
			break
		}
		select {
		case <-rl.event:
		case <-deadline:
			timeout = true
			break WAIT
		}
	}
	dels, errs := rl.snapshot()
	er := "none"
	if len(errs) > 0 {
		er = errs[0]
	} else if timeout {
		er = "timeout"
	}
	var items []string
	for _, d := range dels {
		if d.ch == sentinelCh {
			continue
		}
		items = append(items, fmt.Sprintf("%d:%d:%s", d.ch, len(d.msg), fnvOf(d.msg)))
	}
	ds := "-"
	if len(items) > 0 {
		ds = strings.Join(items, ",")
	}
	if len(errs) > 1 {
		er += fmt.Sprintf("x%d", len(errs)) // onError must fire once
	}
	return fmt.Sprintf("err=%s dels=%s", er, ds)
}

// mtry qcap=Q first=L0 n=K len=L seed=S: TrySend / CanSend against a send routine that is provably stuck in a flush
// (the transport's write gate is closed and the first message is larger than the 64 KiB write buffer), so the queue
// states are a function of the op: first Q attempts are taken, the rest refused, nothing blocks, nothing is reordered.
func (e *exec) mtryOp(toks []string) string {
	e.closeAll()
	q, l0, k, l := atoi(argS(toks, "qcap")), atoi(argS(toks, "first")), atoi(argS(toks, "n")), atoi(argS(toks, "len"))
	seed := atoi(argS(toks, "seed"))
	if q < 1 || l0 < 70000 || l < 1 {
		return "bad-op"
	}
	a, b, ab, _ := duplex(0, uint32(seed), false, false)
	cs := []chanCfg{{id: 1, prio: 1, cap: 1 << 22, qcap: q}}
	rl, rlA := newRecvLog(), newRecvLog()
	ma := tmconn.NewMConnectionWithConfig(a, descs(cs), rlA.onReceive, rlA.onError, mcfg(1024, 0))
	mb := tmconn.NewMConnectionWithConfig(b, descs(cs), rl.onReceive, rl.onError, mcfg(1024, 0))
	ab.setGate(true)
	if ma.Start() != nil || mb.Start() != nil {
		return "err=start"
	}
	defer func() { ab.setGate(false); ma.Stop(); mb.Stop() }()
	var sent [][]byte
	m0 := genBytes("r", seed, l0)
	if !ma.TrySend(1, m0) {
		return "err=first-refused"
	}
	sent = append(sent, m0)
	if !waitFor(func() bool { return ab.writersBlocked() > 0 }, 3*time.Second) {
		return "err=not-blocked"
	}
	try, can := "", ""
	t0 := time.Now()
	for i := 0; i < k; i++ {
		m := genBytes("r", seed+1+i, l)
		if ma.TrySend(1, m) {
			try += "1"
			sent = append(sent, m)
		} else {
			try += "0"
		}
		if ma.CanSend(1) {
			can += "1"
		} else {
			can += "0"
		}
	}
	blockedFor := time.Since(t0)
	// refused forms: empty message, unknown channel
	extra := fmt.Sprintf("%v%v%v", ma.TrySend(1, nil), ma.TrySend(99, []byte{1}), ma.CanSend(99))
	ab.setGate(false)
	waitFor(func() bool { d, er := rl.snapshot(); return len(d) >= len(sent) || len(er) > 0 }, 8*time.Second)
	time.Sleep(2 * time.Millisecond)
	dels, errs := rl.snapshot()
	er := "none"
	if len(errs) > 0 {
		er = errs[0]
	}
	var msgs [][]byte
	for _, d := range dels {
		msgs = append(msgs, d.msg)
	}
	nb := "false"
	if blockedFor > 2*time.Second {
		nb = "true" // a TrySend / CanSend blocked
	}
	return fmt.Sprintf("err=%s try=%s can=%s extra=%s blocked=%s n=%d d=%s", er, try, can, extra, nb, len(msgs), delDigest(msgs))
}

// mping mode=answer|silent: the ping / pong timers.  answer: a real peer with the default configuration answers the pings,
// the connection lives; silent: the far side never answers, the pong timeout reports ONE error.
func (e *exec) mpingOp(toks []string) string {
	e.closeAll()
	mode := argS(toks, "mode")
	a, b, _, _ := duplex(atoi(argS(toks, "k")), uint32(atoi(argS(toks, "seed"))), false, argS(toks, "j") == "1")
	cs := []chanCfg{{id: 1, prio: 1, cap: 0, qcap: 0}} // zero values: ChannelDescriptor.FillDefaults
	cfg := mcfg(1024, 0)
	cfg.PingInterval, cfg.PongTimeout = 25*time.Millisecond, 12*time.Millisecond
	tap := &tapConn{Conn: a}
	rlA, rlB := newRecvLog(), newRecvLog()
	ma := tmconn.NewMConnectionWithConfig(tap, descs(cs), rlA.onReceive, rlA.onError, cfg)
	if ma.Start() != nil {
		return "err=start"
	}
	defer ma.Stop()
	tapB := &tapConn{Conn: b}
	if mode == "answer" {
		mb := tmconn.NewMConnection(tapB, descs(cs), rlB.onReceive, rlB.onError) // default configuration
		if mb.Start() != nil {
			return "err=start"
		}
		defer mb.Stop()
		ok := ma.Send(1, []byte("hello"))
		waitFor(func() bool {
			pa, _ := decodeAll(tap.bytes())
			pb, _ := decodeAll(tapB.bytes())
			d, _ := rlB.snapshot()
			return countType(pa, "ping") >= 2 && countType(pb, "pong") >= 2 && len(d) >= 1
		}, 2*time.Second)
		pa, _ := decodeAll(tap.bytes())
		pb, _ := decodeAll(tapB.bytes())
		_, ea := rlA.snapshot()
		d, eb := rlB.snapshot()
		return fmt.Sprintf("sent=%v errsA=%d errsB=%d ping=%v pong=%v delivered=%d", ok, len(ea), len(eb), countType(pa, "ping") >= 2, countType(pb, "pong") >= 2, len(d))
	}
	// silent far side: reads and discards
	go func() {
		buf := make([]byte, 4096)
		for {
			if _, err := b.Read(buf); err != nil {
				return
			}
		}
	}()
	waitFor(func() bool { _, er := rlA.snapshot(); return len(er) > 0 }, 2*time.Second)
	time.Sleep(40 * time.Millisecond) // a second report would show up here
	_, ea := rlA.snapshot()
	first := "none"
	if len(ea) > 0 {
		first = ea[0]
	}
	return fmt.Sprintf("err=%s errs=%d running=%v", first, len(ea), ma.IsRunning())
}

func decodeAll(wire []byte) ([]tmconn.Packet, bool) {
	r := bytes.NewReader(wire)
	var out []tmconn.Packet
	for r.Len() > 0 {
		var p tmconn.Packet
		if _, err := ser.DecodeReaderWithType(r, &p, 1<<24); err != nil {
			return out, false
		}
		out = append(out, p)
	}
	return out, true
}

func countType(ps []tmconn.Packet, t string) int {
	n := 0
	for _, p := range ps {
		switch p.(type) {
		case tmconn.PacketPing:
			if t == "ping" {
				n++
			}
		case tmconn.PacketPong:
			if t == "pong" {
				n++
			}
		}
	}
	return n
}

// pktLimit mirrors MConnection.maxPacketMsgSize (unexported): encoded size of a full packet + 10
func pktLimit(maxpay int) int {
	return len(ser.MustEncodeToBytesWithType(tmconn.PacketMsg{ChannelID: 0x01, EOF: 1, Bytes: make([]byte, maxpay)})) + 10
}

func overLimit(ch, eof int, b []byte, maxpay int) bool {
	return len(ser.MustEncodeToBytesWithType(tmconn.PacketMsg{ChannelID: byte(ch), EOF: byte(eof), Bytes: b})) > pktLimit(maxpay)
}

func argS(toks []string, k string) string {
	v, _ := hx.Arg(toks, k)
	return v
}
