package c18

// Switch cases: a REAL libs/p2p Switch (NewP2pManager, started) with a harness-made Listener (exported interface) that hands
// it in-memory connections.  The harness plays the remote side of each connection: real MakeSecretConnection with the key
// named by `auth`, then the NodeInfo handshake in HandShakeFunc's wire format claiming the key named by `claim`
// (its own = honest, another key = impersonation, the switch's own key, a forged CachePeerID, garbage bytes).
// The Switch's own listenerRoutine -> addInboundPeerWithConfig -> newInboundPeerConn -> addPeer path does the rest.

import (
	"bufio"
	"bytes"
	"fmt"
	"net"
	"sort"
	"strings"
	"sync"
	"time"

	"github.com/lianxiangcloud/linkchain/config"
	"github.com/lianxiangcloud/linkchain/libs/crypto"
	"github.com/lianxiangcloud/linkchain/libs/log"
	"github.com/lianxiangcloud/linkchain/libs/p2p"
	pcommon "github.com/lianxiangcloud/linkchain/libs/p2p/common"
	tmconn "github.com/lianxiangcloud/linkchain/libs/p2p/conn"
	"github.com/lianxiangcloud/linkchain/libs/ser"
	"github.com/lianxiangcloud/linkchain/types"

	"lvharness/hx"
)

// ---- logger that remembers why addPeer refused a connection ---------------------------------

type capLogger struct {
	mu   sync.Mutex
	errs []string
}

func (l *capLogger) With(...interface{}) log.Logger          { return l }
func (l *capLogger) GetHandler() log.Handler                 { return nil }
func (l *capLogger) SetHandler(h log.Handler)                {}
func (l *capLogger) Printf(string, ...interface{})           {}
func (l *capLogger) Println(string, ...interface{})          {}
func (l *capLogger) Trace(string, ...interface{})            {}
func (l *capLogger) Debug(string, ...interface{})            {}
func (l *capLogger) Warn(string, ...interface{})             {}
func (l *capLogger) Error(string, ...interface{})            {}
func (l *capLogger) Crit(string, ...interface{})             {}
func (l *capLogger) Report(string, ...interface{})           {}
func (l *capLogger) Dump(string, ...interface{})             {}
func (l *capLogger) Info(msg string, ctx ...interface{}) {
	if !strings.HasPrefix(msg, "Ignoring inbound connection") {
		return
	}
	for i := 0; i+1 < len(ctx); i += 2 {
		if k, ok := ctx[i].(string); ok && k == "err" {
			l.mu.Lock()
			l.errs = append(l.errs, fmt.Sprint(ctx[i+1]))
			dbg("addPeer refused: %v", ctx[i+1])
			l.mu.Unlock()
		}
	}
}

func (l *capLogger) count() int {
	l.mu.Lock()
	defer l.mu.Unlock()
	return len(l.errs)
}

func (l *capLogger) last() string {
	l.mu.Lock()
	defer l.mu.Unlock()
	if len(l.errs) == 0 {
		return ""
	}
	return l.errs[len(l.errs)-1]
}

func admitErrClass(m string) string {
	switch {
	case strings.Contains(m, "does not match the key authenticated"):
		return "keymismatch"
	case strings.Contains(m, "blacklist"):
		return "blacklisted"
	case strings.Contains(m, "onnect to self"):
		return "self"
	case strings.Contains(m, "uplicate peer"):
		return "duplicate"
	case strings.Contains(m, "different network"), strings.Contains(m, "major version"), strings.Contains(m, "version format"):
		return "incompatible"
	case strings.Contains(m, "Moniker"), strings.Contains(m, "info.Channels"), strings.Contains(m, "info.Other"), strings.Contains(m, "ListenAddr"):
		return "invalid"
	}
	return "handshake" // secret-connection or NodeInfo exchange failed (own key presented, undecodable, EOF, ...)
}

// ---- a Listener the harness feeds -----------------------------------------------------------

type memListener struct {
	ch chan net.Conn
}

func (l *memListener) Connections() <-chan net.Conn { return l.ch }
func (l *memListener) ExternalAddress() *p2p.NetAddress {
	return p2p.NewNetAddressIPPort(net.IPv4(127, 0, 0, 1), 13999)
}
func (l *memListener) ExternalAddressHost() string { return "127.0.0.1" }
func (l *memListener) String() string              { return "memListener" }
func (l *memListener) Stop() error {
	defer func() { recover() }()
	close(l.ch)
	return nil
}

// tcpEnd is an in-memory end that reports a loopback TCP address (the switch asks for the remote IP)
type tcpEnd struct {
	*end
	port int
}

func (t tcpEnd) RemoteAddr() net.Addr { return &net.TCPAddr{IP: net.IPv4(127, 0, 0, 1), Port: t.port} }
func (t tcpEnd) LocalAddr() net.Addr  { return &net.TCPAddr{IP: net.IPv4(127, 0, 0, 1), Port: 13999} }

// ---- a reactor that records what the switch hands it ---------------------------------------

type recvd struct {
	ch   byte
	from string // peer.ID() as the reactor sees it
	msg  []byte
}

type lvReactor struct {
	*p2p.BaseReactor
	mu      sync.Mutex
	got     []recvd
	added   []string
	removed []string
}

func newReactor() *lvReactor {
	r := &lvReactor{}
	r.BaseReactor = p2p.NewBaseReactor("lvReactor", r)
	return r
}

// 0x40 is what the harness peers advertise in NodeInfo.Channels; 0x41 is known to the switch only
func (r *lvReactor) GetChannels() []*tmconn.ChannelDescriptor {
	return []*tmconn.ChannelDescriptor{{ID: 0x40, Priority: 1, SendQueueCapacity: 4, RecvMessageCapacity: 4096},
		{ID: 0x41, Priority: 1, SendQueueCapacity: 4, RecvMessageCapacity: 4096}}
}
func (r *lvReactor) AddPeer(p p2p.Peer) {
	r.mu.Lock()
	r.added = append(r.added, p.ID())
	r.mu.Unlock()
}
func (r *lvReactor) RemovePeer(p p2p.Peer, reason interface{}) {
	r.mu.Lock()
	r.removed = append(r.removed, p.ID())
	r.mu.Unlock()
}
func (r *lvReactor) Receive(ch byte, p p2p.Peer, msg []byte) {
	r.mu.Lock()
	r.got = append(r.got, recvd{ch, p.ID(), append([]byte{}, msg...)})
	r.mu.Unlock()
}
func (r *lvReactor) count() int {
	r.mu.Lock()
	defer r.mu.Unlock()
	return len(r.got)
}

// remoteEnd is the harness side of an admitted connection: it keeps reading and reassembles what the switch sends
type remoteEnd struct {
	raw  *end
	sc   *tmconn.SecretConnection
	peer p2p.Peer
	mu   sync.Mutex
	msgs []recvd // whole messages received FROM the switch (ch, -, bytes)
}

func (re *remoteEnd) readLoop(closed chan struct{}) {
	defer close(closed)
	br := bufio.NewReader(re.sc)
	acc := map[byte][]byte{}
	for {
		var p tmconn.Packet
		if _, err := ser.DecodeReaderWithType(br, &p, 1<<20); err != nil {
			return
		}
		if pm, ok := p.(tmconn.PacketMsg); ok {
			acc[pm.ChannelID] = append(acc[pm.ChannelID], pm.Bytes...)
			if pm.EOF == 1 {
				re.mu.Lock()
				re.msgs = append(re.msgs, recvd{pm.ChannelID, "", acc[pm.ChannelID]})
				re.mu.Unlock()
				acc[pm.ChannelID] = nil
			}
		}
	}
}

func (re *remoteEnd) count() int {
	re.mu.Lock()
	defer re.mu.Unlock()
	return len(re.msgs)
}

// ---- the switch under test ------------------------------------------------------------------

type swState struct {
	sw    *p2p.Switch
	lg    *capLogger
	ls    *memListener
	keys  map[string]crypto.PrivKeyEd25519 // S = the switch, A..F = remote key holders
	conns map[string]*end                   // harness side of the connection of an admitted peer, by authenticated key name
	rems  map[string]*remoteEnd
	rx    *lvReactor
	all   []*end // every admitted connection (closed when the case ends)
	nconn int
}

var swInitOnce sync.Once

// short, so that a stalling peer costs little; honest handshakes take well under a millisecond
const swHandshakeTimeout = 150 * time.Millisecond

func baseNodeInfo(pk crypto.PubKeyEd25519) p2p.NodeInfo {
	return p2p.NodeInfo{PubKey: pk, Network: "lv-chain", Version: "0.1.3", Channels: []byte{0x40}, Moniker: "lv",
		Other: []string{"p2p_version=0.5.0"}, Type: types.NodeValidator}
}

func newSwitch() (*swState, error) {
	swInitOnce.Do(func() {
		// no OS listener, no discovery table: connections come from the harness's Listener only
		p2p.ListenerBindFunc = func(types.NodeType, string, string, log.Logger) (net.Listener, *p2p.NetAddress, *net.UDPConn, bool) {
			return nil, nil, nil, false
		}
		p2p.DefaultNewTableFunc = func(*p2p.Switch, []*pcommon.Node) error { return nil }
		log.Root().SetHandler(log.DiscardHandler()) // PeerSet.Add logs through the root logger, which writes to stdout
	})
	st := &swState{lg: &capLogger{}, ls: &memListener{ch: make(chan net.Conn, 4)}, keys: map[string]crypto.PrivKeyEd25519{}, conns: map[string]*end{},
		rems: map[string]*remoteEnd{}, rx: newReactor()}
	for _, n := range []string{"S", "A", "B", "C", "D", "E", "F"} {
		st.keys[n] = crypto.GenPrivKeyEd25519()
	}
	cfg := config.DefaultP2PConfig()
	cfg.ListenAddress = ""
	cfg.HandshakeTimeout = swHandshakeTimeout
	pk := st.keys["S"].PubKey().(crypto.PubKeyEd25519)
	sw, err := p2p.NewP2pManager(st.lg, st.keys["S"], cfg, baseNodeInfo(pk), nil, nil)
	if err != nil {
		return nil, err
	}
	sw.AddReactor("lv", st.rx)
	sw.AddListener(st.ls)
	if err := sw.Start(); err != nil {
		return nil, err
	}
	st.sw = sw
	return st, nil
}

func (st *swState) close() {
	for _, c := range st.all {
		c.Close()
	}
	done := make(chan struct{})
	go func() { defer close(done); defer func() { recover() }(); st.sw.Stop() }()
	select {
	case <-done:
	case <-time.After(2 * time.Second):
	}
}

func (st *swState) idName(id string) string {
	for n, k := range st.keys {
		if pcommon.TransPubKeyToStringID(k.PubKey()) == id {
			return n
		}
	}
	return "?"
}

// peers lists the peer set as names of the keys whose IDs are registered
func (st *swState) peers() string {
	var out []string
	for _, p := range st.sw.Peers().List() {
		out = append(out, st.idName(p.ID()))
	}
	sort.Strings(out)
	if len(out) == 0 {
		return "-"
	}
	return strings.Join(out, ",")
}

// swconn auth=<key> claim=<key|garbage|silent> [cache=<key>] [net=x] [ver=x] [mon=bad] k=K seed=S j=0|1
func (st *swState) connect(toks []string) string {
	auth, claim := argS(toks, "auth"), argS(toks, "claim")
	ak, ok := st.keys[auth]
	if !ok {
		return "bad-op"
	}
	st.nconn++
	remote, local, _, _ := duplex(atoi(argS(toks, "k")), uint32(atoi(argS(toks, "seed"))), false, argS(toks, "j") == "1")
	before, errsBefore := st.sw.Peers().Size(), st.lg.count()
	idsBefore := map[string]bool{}
	for _, p := range st.sw.Peers().List() {
		idsBefore[p.ID()] = true
	}
	st.ls.ch <- tcpEnd{local, 20000 + st.nconn}
	if stall := argS(toks, "stall"); stall == "eph" || stall == "auth" {
		// the remote goes quiet before / in the middle of the secret handshake and keeps the connection open
		t0 := time.Now()
		if stall == "auth" {
			remote.Write(encEph(randKey32()))
		}
		ok := waitFor(func() bool { return st.lg.count() > errsBefore }, 3*time.Second)
		took := time.Since(t0)
		remote.Close()
		why := admitErrClass(st.lg.last())
		if !ok {
			why = "timeout"
		} else if took < swHandshakeTimeout*8/10 || took > swHandshakeTimeout*6 {
			why = "deadline-off" // dropped, but not by the handshake deadline
		}
		return fmt.Sprintf("added=false why=%s id=- peers=%s", why, st.peers())
	}
	r := <-runHS(remote, ak)
	if r.err != nil {
		remote.Close()
		// the switch side fails too; wait for its verdict
		waitFor(func() bool { return st.lg.count() > errsBefore }, 4*time.Second)
		return fmt.Sprintf("added=false why=%s id=- peers=%s", admitErrClass(st.lg.last()), st.peers())
	}
	sc := r.sc
	// NodeInfo handshake, remote side: write ours, read theirs (in tandem, as HandShakeFunc does)
	closed := make(chan struct{})
	re := &remoteEnd{raw: remote, sc: sc}
	go func() {
		var theirs p2p.NodeInfo
		if _, err := ser.DecodeReaderWithType(sc, &theirs, int64(p2p.MaxNodeInfoSize())); err != nil {
			close(closed)
			return
		}
		re.readLoop(closed)
	}()
	t0 := time.Now()
	switch claim {
	case "stall": // secret connection up, NodeInfo never sent, connection kept open
	case "garbage":
		sc.Write([]byte{0xc3, 0x01, 0x02, 0x03, 0xff, 0xff})
	case "silent":
		remote.out.closeWrite()
	default:
		ck, ok := st.keys[claim]
		if !ok {
			remote.Close()
			return "bad-op"
		}
		ni := baseNodeInfo(ck.PubKey().(crypto.PubKeyEd25519))
		if c := argS(toks, "cache"); c != "" {
			ni.CachePeerID = pcommon.TransPubKeyToStringID(st.keys[c].PubKey())
		}
		if v := argS(toks, "net"); v != "" {
			ni.Network = v
		}
		if v := argS(toks, "ver"); v != "" {
			ni.Version = v
		}
		if argS(toks, "mon") == "bad" {
			ni.Moniker = " "
		}
		ser.EncodeWriterWithType(sc, ni)
	}
	// verdict: either the peer set grows, or addPeer's error is logged (and the switch closes the connection)
	timedOut := !waitFor(func() bool { return st.sw.Peers().Size() > before || st.lg.count() > errsBefore }, 5*time.Second)
	if st.sw.Peers().Size() > before {
		newID := "?"
		for _, p := range st.sw.Peers().List() {
			if !idsBefore[p.ID()] {
				newID = st.idName(p.ID())
			}
		}
		st.all = append(st.all, remote)
		st.conns[auth] = remote
		for _, p := range st.sw.Peers().List() {
			if !idsBefore[p.ID()] {
				re.peer = p
			}
		}
		st.rems[auth] = re
		return fmt.Sprintf("added=true why=none id=%s peers=%s", newID, st.peers())
	}
	took := time.Since(t0)
	remote.Close()
	<-closed
	why := admitErrClass(st.lg.last())
	if timedOut {
		why = "timeout"
	} else if claim == "stall" && (took < swHandshakeTimeout*8/10 || took > swHandshakeTimeout*6) {
		why = "deadline-off"
	}
	return fmt.Sprintf("added=false why=%s id=- peers=%s", why, st.peers())
}

func waitFor(cond func() bool, d time.Duration) bool {
	dl := time.Now().Add(d)
	for !cond() {
		if time.Now().After(dl) {
			return false
		}
		time.Sleep(200 * time.Microsecond)
	}
	return true
}

func (e *exec) swOp(toks []string) string {
	switch toks[0] {
	case "swnew":
		e.closeAll()
		st, err := newSwitch()
		if err != nil {
			return "fail"
		}
		e.sws = st
		return "ok"
	}
	if e.sws == nil {
		return "dead"
	}
	st := e.sws
	switch toks[0] {
	case "swblack": // the switch blacklists the node ID of a key (MarkBadNode)
		k, ok := st.keys[argS(toks, "key")]
		if !ok {
			return "bad-op"
		}
		st.sw.MarkBadNode(baseNodeInfo(k.PubKey().(crypto.PubKeyEd25519)))
		return "ok"
	case "swconn":
		return st.connect(toks)
	case "swsend": // the node sends to a peer through the Peer interface: swsend key=K ch=N d=spec mode=send|try [stale=1]
		name := argS(toks, "key")
		re := st.rems[name]
		sp, ok := parseSpec(argS(toks, "d"))
		if !ok {
			return "bad-op"
		}
		if re == nil || re.peer == nil {
			return "ok=nopeer got=-"
		}
		if argS(toks, "stale") == "" && !st.sw.Peers().HasID(pcommon.TransPubKeyToStringID(st.keys[name].PubKey())) {
			return "ok=nopeer got=-"
		}
		before := re.count()
		can := "-"
		if cs, ok := re.peer.(interface{ CanSend(byte) bool }); ok {
			can = fmt.Sprint(cs.CanSend(byte(atoi(argS(toks, "ch")))))
		}
		var res bool
		if argS(toks, "mode") == "try" {
			res = re.peer.TrySend(byte(atoi(argS(toks, "ch"))), sp.bytes())
		} else {
			res = re.peer.Send(byte(atoi(argS(toks, "ch"))), sp.bytes())
		}
		if !res {
			time.Sleep(3 * time.Millisecond)
			if re.count() != before {
				return "ok=false got=unexpected can=" + can
			}
			return "ok=false got=- can=" + can
		}
		if !waitFor(func() bool { return re.count() > before }, 3*time.Second) {
			return "ok=true got=lost can=" + can
		}
		re.mu.Lock()
		m := re.msgs[len(re.msgs)-1]
		re.mu.Unlock()
		return fmt.Sprintf("ok=true got=%d:%s can=%s", m.ch, fnvOf(m.msg), can)
	case "swrecv": // the remote peer sends a message: swrecv key=K ch=N d=spec [frag=n]
		name := argS(toks, "key")
		re := st.rems[name]
		sp, ok := parseSpec(argS(toks, "d"))
		if !ok {
			return "bad-op"
		}
		id := pcommon.TransPubKeyToStringID(st.keys[name].PubKey())
		if re == nil || !st.sw.Peers().HasID(id) {
			return "from=nopeer"
		}
		ch := byte(atoi(argS(toks, "ch")))
		before := st.rx.count()
		data := sp.bytes()
		frag := atoi(argS(toks, "frag"))
		var wire bytes.Buffer
		if frag > 0 && frag < len(data) {
			ser.EncodeWriterWithType(&wire, tmconn.PacketMsg{ChannelID: ch, EOF: 0, Bytes: data[:frag]})
			data = data[frag:]
		}
		ser.EncodeWriterWithType(&wire, tmconn.PacketMsg{ChannelID: ch, EOF: 1, Bytes: data})
		re.sc.Write(wire.Bytes())
		ok = waitFor(func() bool { return st.rx.count() > before || !st.sw.Peers().HasID(id) }, 3*time.Second)
		if st.rx.count() > before {
			st.rx.mu.Lock()
			g := st.rx.got[len(st.rx.got)-1]
			st.rx.mu.Unlock()
			return fmt.Sprintf("from=%s ch=%d d=%s peers=%s", st.idName(g.from), g.ch, fnvOf(g.msg), st.peers())
		}
		if !ok {
			return "from=timeout peers=" + st.peers()
		}
		delete(st.conns, name)
		return "from=none-peer-removed peers=" + st.peers()
	case "swdrop": // the remote side of an admitted peer closes its connection; the switch removes the peer
		name := argS(toks, "key")
		c := st.conns[name]
		if c == nil {
			return "peers=" + st.peers()
		}
		delete(st.conns, name)
		id := pcommon.TransPubKeyToStringID(st.keys[name].PubKey())
		c.Close()
		waitFor(func() bool { return !st.sw.Peers().HasID(id) }, 3*time.Second)
		return "peers=" + st.peers()
	}
	return "bad-op"
}

var _ = tmconn.DefaultMConnConfig
var _ = hx.Hex
