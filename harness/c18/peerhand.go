package c18

// A peer made by hand: the harness itself speaks MakeSecretConnection's protocol (own ephemeral key, challenge, signature),
// so it knows the shared secret and the nonces and can put on the wire whatever a peer that completed the handshake can:
// sealed frames (valid seal, wrong or replayed nonce, damaged, any length field), compressed frames, anything.
// Nothing here calls the code under test except through the connection.

import (
	"bytes"
	crand "crypto/rand"
	"crypto/sha256"
	"fmt"
	"time"

	"golang.org/x/crypto/nacl/box"
	"golang.org/x/crypto/nacl/secretbox"
	"golang.org/x/crypto/ripemd160"

	"github.com/lianxiangcloud/linkchain/libs/crypto"
)

type handPeer struct {
	shr  *[32]byte
	send [24]byte // the nonce the REAL side expects for the first sealed frame it receives
	recv [24]byte
}

// nonceAdd: big-endian 24-byte addition with wrap-around (the harness's own arithmetic, the ground truth for incr2Nonce)
func nonceAdd(n [24]byte, k uint64) [24]byte {
	carry := k
	for i := 23; i >= 0 && carry > 0; i-- {
		v := uint64(n[i]) + carry&0xff
		carry >>= 8
		if v > 0xff {
			carry++
		}
		n[i] = byte(v)
	}
	return n
}

func handHandshake(e *end, key crypto.PrivKeyEd25519) (*handPeer, error) {
	pub, priv, err := box.GenerateKey(crand.Reader)
	if err != nil {
		return nil, err
	}
	e.Write(encEph(*pub))
	e.SetReadDeadline(time.Now().Add(3 * time.Second))
	defer e.SetReadDeadline(time.Time{})
	m, err := readMsg(e, 0)
	if err != nil {
		return nil, err
	}
	rem, ok := decEph(m)
	if !ok {
		return nil, fmt.Errorf("eph")
	}
	hp := &handPeer{shr: new([32]byte)}
	box.Precompute(hp.shr, &rem, priv)
	lo, hi, locIsLo := rem, *pub, false
	if bytes.Compare(pub[:], rem[:]) < 0 {
		lo, hi, locIsLo = *pub, rem, true
	}
	h := ripemd160.New()
	h.Write(append(append([]byte{}, lo[:]...), hi[:]...))
	var n1, n2 [24]byte
	copy(n1[:], h.Sum(nil))
	n2 = n1
	n2[23] ^= 1
	if locIsLo {
		hp.recv, hp.send = n1, n2
	} else {
		hp.recv, hp.send = n2, n1
	}
	ch := sha256.Sum256(append(append([]byte{}, lo[:]...), hi[:]...))
	sig, _ := key.Sign(ch[:])
	e.Write(encAuth(authMsg{key.PubKey(), sig}))
	if _, err := readMsg(e, 1); err != nil {
		return nil, err
	}
	return hp, nil
}

// sealedFrame: typeEncrypt frame carrying `plain` sealed under nonce (expected + 2*idx)
func (hp *handPeer) sealedFrame(idx int, plain []byte, cut, flip int) []byte {
	n := nonceAdd(hp.send, uint64(2*idx))
	sealed := secretbox.Seal(nil, plain, &n, hp.shr)
	if flip >= 0 && len(sealed) > 0 {
		sealed[flip%len(sealed)] ^= 0x40
	}
	if cut > 0 {
		if cut > len(sealed) {
			cut = len(sealed)
		}
		sealed = sealed[:len(sealed)-cut]
	}
	l := len(sealed)
	return append([]byte{0xFE, byte(l >> 24), byte(l >> 16), byte(l >> 8), byte(l)}, sealed...)
}
