package c18

// In-memory duplex transport with adversarial chunking: a Read returns between 1 and k bytes
// (k and the chunk sequence are derived from the op line, never from the clock).  Two delivery modes, chosen by the op:
//   join=false  a Read never spans two Writes (a TCP stack that delivers each push separately)
//   join=true   Writes are coalesced into one byte stream, so a Read may return the tail of one message together with
//               the head of the next (what TCP does when both are queued before the reader wakes up) — this is what made
//               the plaintext key exchange lose the peer's auth frame before fd59b35
// Buffers are unbounded so writers never block, and a reader blocks only while the peer may still write.  In `nonblock` mode an
// empty buffer is io.EOF at once, which makes the data phase of a stream case fully synchronous.

import (
	"errors"
	"io"
	"net"
	"sync"
	"time"
)

var errClosedPipe = errors.New("lv: closed")

type halfPipe struct {
	mu       sync.Mutex
	cond     *sync.Cond
	segs     [][]byte // one entry per Write: a Read never returns bytes of two different Writes
	wclosed  bool // writer finished: drain then EOF
	rclosed  bool
	nonblock bool
	k        int    // max bytes per Read (0 = unlimited)
	x        uint32 // chunk PRNG state
	total    int    // bytes ever written
	log      []byte // everything ever written (tap), if keep
	keep     bool
	join     bool
	rdl      time.Time // read deadline of the reading end (zero = none)
	failAt   int       // >= 0 with failArm: this many further Write calls succeed, the next one fails (and every later one)
	failArm  bool
	gated    bool // writers block while set
	blocked  int  // writers currently blocked at the gate
	failed   bool
}

func newHalf(k int, seed uint32, keep bool) *halfPipe {
	h := &halfPipe{k: k, x: seed*2654435761 + 1, keep: keep}
	h.cond = sync.NewCond(&h.mu)
	return h
}

func (h *halfPipe) write(p []byte) (int, error) {
	h.mu.Lock()
	defer h.mu.Unlock()
	for h.gated && !h.wclosed && !h.rclosed {
		h.blocked++
		h.cond.Wait()
		h.blocked--
	}
	if h.wclosed || h.rclosed || h.failed {
		return 0, errClosedPipe
	}
	if h.failArm {
		if h.failAt == 0 {
			h.failed = true
			return 0, errClosedPipe
		}
		h.failAt--
	}
	if len(p) > 0 {
		if h.join && len(h.segs) > 0 {
			h.segs[len(h.segs)-1] = append(h.segs[len(h.segs)-1], p...)
		} else {
			h.segs = append(h.segs, append([]byte{}, p...))
		}
	}
	h.total += len(p)
	if h.keep {
		h.log = append(h.log, p...)
	}
	h.cond.Broadcast()
	return len(p), nil
}

func (h *halfPipe) read(p []byte) (int, error) {
	h.mu.Lock()
	defer h.mu.Unlock()
	for len(h.segs) == 0 {
		if h.wclosed || h.rclosed || h.nonblock {
			return 0, io.EOF
		}
		if !h.rdl.IsZero() && !time.Now().Before(h.rdl) {
			return 0, errTimeout{}
		}
		h.cond.Wait()
	}
	if len(p) == 0 {
		return 0, nil
	}
	n := len(p)
	if n > len(h.segs[0]) {
		n = len(h.segs[0])
	}
	if h.k > 0 {
		h.x = h.x*1664525 + 1013904223
		c := 1 + int((h.x>>8)%uint32(h.k))
		if c < n {
			n = c
		}
	}
	copy(p, h.segs[0][:n])
	if n == len(h.segs[0]) {
		h.segs = h.segs[1:]
	} else {
		h.segs[0] = h.segs[0][n:]
	}
	return n, nil
}

type errTimeout struct{}

func (errTimeout) Error() string   { return "lv: i/o timeout" }
func (errTimeout) Timeout() bool   { return true }
func (errTimeout) Temporary() bool { return true }

// setReadDeadline arms a wake-up so that a blocked reader notices the deadline
func (h *halfPipe) setReadDeadline(t time.Time) {
	h.mu.Lock()
	h.rdl = t
	h.cond.Broadcast()
	h.mu.Unlock()
	if !t.IsZero() {
		d := time.Until(t)
		if d < 0 {
			d = 0
		}
		time.AfterFunc(d+time.Millisecond, func() { h.mu.Lock(); h.cond.Broadcast(); h.mu.Unlock() })
	}
}

func (h *halfPipe) setGate(v bool) {
	h.mu.Lock()
	h.gated = v
	h.cond.Broadcast()
	h.mu.Unlock()
}

func (h *halfPipe) writersBlocked() int {
	h.mu.Lock()
	defer h.mu.Unlock()
	return h.blocked
}

func (h *halfPipe) setFailAt(n int) {
	h.mu.Lock()
	h.failAt, h.failArm = n, true
	h.mu.Unlock()
}

func (h *halfPipe) disarm() {
	h.mu.Lock()
	h.failArm = false
	h.mu.Unlock()
}

func (h *halfPipe) closeWrite() {
	h.mu.Lock()
	h.wclosed = true
	h.cond.Broadcast()
	h.mu.Unlock()
}

func (h *halfPipe) closeRead() {
	h.mu.Lock()
	h.rclosed = true
	h.cond.Broadcast()
	h.mu.Unlock()
}

func (h *halfPipe) setNonblock(v bool) {
	h.mu.Lock()
	h.nonblock = v
	h.cond.Broadcast()
	h.mu.Unlock()
}

func (h *halfPipe) pending() int {
	h.mu.Lock()
	defer h.mu.Unlock()
	n := 0
	for _, sg := range h.segs {
		n += len(sg)
	}
	return n
}

func (h *halfPipe) written() int {
	h.mu.Lock()
	defer h.mu.Unlock()
	return h.total
}

func (h *halfPipe) logFrom(off int) []byte {
	h.mu.Lock()
	defer h.mu.Unlock()
	return append([]byte{}, h.log[off:]...)
}

// end is one endpoint: reads from in, writes to out.  Implements net.Conn.
type end struct {
	in, out *halfPipe
}

func (e *end) Read(p []byte) (int, error)  { return e.in.read(p) }
func (e *end) Write(p []byte) (int, error) { return e.out.write(p) }
func (e *end) Close() error {
	e.out.closeWrite()
	e.in.closeRead()
	return nil
}

type lvAddr struct{}

func (lvAddr) Network() string { return "lv" }
func (lvAddr) String() string  { return "lv" }

func (e *end) LocalAddr() net.Addr                { return lvAddr{} }
func (e *end) RemoteAddr() net.Addr               { return lvAddr{} }
// deadlines: reads honour them (a stalled peer is noticed); writes never block here, so a write deadline has nothing to do
func (e *end) SetDeadline(t time.Time) error      { e.in.setReadDeadline(t); return nil }
func (e *end) SetReadDeadline(t time.Time) error  { e.in.setReadDeadline(t); return nil }
func (e *end) SetWriteDeadline(t time.Time) error { return nil }

// duplex returns two connected endpoints; ab carries a->b, ba carries b->a.
func duplex(k int, seed uint32, keep, join bool) (a, b *end, ab, ba *halfPipe) {
	ab = newHalf(k, seed, keep)
	ba = newHalf(k, seed+77, keep)
	ab.join, ba.join = join, join
	return &end{in: ba, out: ab}, &end{in: ab, out: ba}, ab, ba
}

// tapConn wraps a net.Conn and records what is written through it (the MConnection's packet stream).
type tapConn struct {
	net.Conn
	mu  sync.Mutex
	log []byte
}

func (t *tapConn) Write(p []byte) (int, error) {
	t.mu.Lock()
	t.log = append(t.log, p...)
	t.mu.Unlock()
	return t.Conn.Write(p)
}

func (t *tapConn) bytes() []byte {
	t.mu.Lock()
	defer t.mu.Unlock()
	return append([]byte{}, t.log...)
}
