package c18

// Stream cases: a real SecretConnection pair (MakeSecretConnection on both ends) over the chunking duplex.
// After the handshake the transport is switched to non-blocking, so writes and reads are executed strictly
// in op order on the real Write/Read code.

import (
	"bytes"
	"encoding/binary"
	"fmt"
	"io"
	"os"
	"runtime"
	"strings"
	"time"

	"github.com/golang/snappy"
	"github.com/lianxiangcloud/linkchain/libs/crypto"
	tmconn "github.com/lianxiangcloud/linkchain/libs/p2p/conn"

	"lvharness/hx"
)

// the constants the harness-side checks use (the Lean side takes them from the extractor)
const (
	hFrameCapacity = 65535
	hHeaderSize    = 5
	hDataMaxSize   = 32 * 1024
)

type scPair struct {
	a, b   *tmconn.SecretConnection
	ea, eb *end
	ab, ba *halfPipe
	ka, kb crypto.PrivKeyEd25519
	hp     *handPeer // side a is the harness's hand-made peer (op scp); a == nil then
	deadW  map[string]bool
}

type hsResult struct {
	sc  *tmconn.SecretConnection
	err error
}

func runHS(c io.ReadWriteCloser, k crypto.PrivKey) chan hsResult {
	ch := make(chan hsResult, 1)
	go func() {
		defer func() {
			if r := recover(); r != nil {
				ch <- hsResult{nil, fmt.Errorf("panic: %v", r)}
			}
		}()
		sc, err := tmconn.MakeSecretConnection(c, k)
		ch <- hsResult{sc, err}
	}()
	return ch
}

func makePair(k int, seed uint32, keep, join bool) (*scPair, string) {
	ea, eb, ab, ba := duplex(k, seed, keep, join)
	p := &scPair{ea: ea, eb: eb, ab: ab, ba: ba, ka: crypto.GenPrivKeyEd25519(), kb: crypto.GenPrivKeyEd25519()}
	ca, cb := runHS(ea, p.ka), runHS(eb, p.kb)
	to := time.After(5 * time.Second)
	for i := 0; i < 2; i++ {
		select {
		case r := <-ca:
			if r.err != nil {
				ea.Close()
				eb.Close()
				dbg("A: %v", r.err)
				return nil, "fail"
			}
			p.a, ca = r.sc, nil
		case r := <-cb:
			if r.err != nil {
				ea.Close()
				eb.Close()
				dbg("B: %v", r.err)
				return nil, "fail"
			}
			p.b, cb = r.sc, nil
		case <-to:
			ea.Close()
			eb.Close()
			return nil, "timeout"
		}
	}
	if !p.a.RemotePubKey().Equals(p.kb.PubKey()) || !p.b.RemotePubKey().Equals(p.ka.PubKey()) {
		return nil, "wrongkey"
	}
	return p, "ok"
}

func readErrClass(err error) string {
	if err == nil {
		return "none"
	}
	if err == io.EOF || err == io.ErrUnexpectedEOF {
		return "eof"
	}
	m := err.Error()
	switch {
	case strings.Contains(m, "unknow type"):
		return "type"
	case strings.Contains(m, "greater than frameCapacity"):
		return "length"
	case strings.Contains(m, "Failed to ReadFull"):
		return "short"
	case strings.Contains(m, "Failed to decode"):
		return "decode"
	case strings.Contains(m, "Failed to decrypt"):
		return "decrypt"
	case strings.Contains(m, "greater than dataMaxSize"):
		return "chunklen"
	}
	return "other"
}

// parseFrames lists (header byte, decoded chunk length) of the frames in wire and says whether every frame
// respects the frame capacity and the snappy bound.
func parseFrames(wire []byte) (string, bool) {
	var items []string
	fit := true
	for len(wire) > 0 {
		if len(wire) < hHeaderSize {
			return "unparsable", false
		}
		l := int(binary.BigEndian.Uint32(wire[1:5]))
		if len(wire) < hHeaderSize+l {
			return "unparsable", false
		}
		pay := wire[hHeaderSize : hHeaderSize+l]
		dec, err := snappy.Decode(nil, pay)
		if err != nil {
			return "unparsable", false
		}
		if hHeaderSize+l > hFrameCapacity || l > 32+len(dec)+len(dec)/6 {
			fit = false
		}
		items = append(items, fmt.Sprintf("%02x:%d", wire[0], len(dec)))
		wire = wire[hHeaderSize+l:]
	}
	if len(items) == 0 {
		return "-", fit
	}
	return strings.Join(items, ","), fit
}

func (e *exec) side(toks []string) (*tmconn.SecretConnection, *halfPipe, *halfPipe, bool) {
	s, _ := hx.Arg(toks, "side")
	if e.sp == nil {
		return nil, nil, nil, false
	}
	if s == "a" {
		return e.sp.a, e.sp.ab, e.sp.ba, true
	}
	return e.sp.b, e.sp.ba, e.sp.ab, true
}

func (e *exec) streamOp(toks []string) string {
	switch toks[0] {
	case "sc":
		k, _ := hx.Arg(toks, "k")
		s, _ := hx.Arg(toks, "seed")
		e.closeAll()
		p, res := makePair(atoi(k), uint32(atoi(s)), true, argS(toks, "j") == "1")
		if p == nil {
			return res
		}
		p.ab.setNonblock(true)
		p.ba.setNonblock(true)
		e.sp = p
		return "ok"
	case "scp": // real side b, hand-made peer on side a
		e.closeAll()
		ea, eb, ab, ba := duplex(atoi(argS(toks, "k")), uint32(atoi(argS(toks, "seed"))), true, argS(toks, "j") == "1")
		p := &scPair{ea: ea, eb: eb, ab: ab, ba: ba, ka: crypto.GenPrivKeyEd25519(), kb: crypto.GenPrivKeyEd25519()}
		cb := runHS(eb, p.kb)
		hp, err := handHandshake(ea, p.ka)
		if err != nil {
			ea.Close()
			eb.Close()
			return "fail"
		}
		select {
		case r := <-cb:
			if r.err != nil || !r.sc.RemotePubKey().Equals(p.ka.PubKey()) {
				return "fail"
			}
			p.b = r.sc
		case <-time.After(3 * time.Second):
			ea.Close()
			eb.Close()
			return "timeout"
		}
		p.hp = hp
		p.ab.setNonblock(true)
		p.ba.setNonblock(true)
		e.sp = p
		return "ok"
	case "seal": // a sealed (typeEncrypt) frame from the hand-made peer: plaintext = be32(lf) ++ d
		if e.sp == nil || e.sp.hp == nil {
			return "dead"
		}
		sp, ok := parseSpec(argS(toks, "d"))
		if !ok {
			return "bad-op"
		}
		lf := atoi(argS(toks, "lf"))
		plain := append([]byte{byte(lf >> 24), byte(lf >> 16), byte(lf >> 8), byte(lf)}, sp.bytes()...)
		if argS(toks, "short") != "" { // a plaintext of fewer than 4 bytes
			plain = plain[:atoi(argS(toks, "short"))]
		}
		flip := -1
		if argS(toks, "flip") != "" {
			flip = atoi(argS(toks, "flip"))
		}
		e.sp.ab.write(e.sp.hp.sealedFrame(atoi(argS(toks, "idx")), plain, atoi(argS(toks, "cut")), flip))
		return "ok"
	case "wf": // Write while the transport lets `k` more frames through and then fails
		sc, out, _, ok := e.side(toks)
		sp, ok2 := parseSpec(argS(toks, "d"))
		if !ok || !ok2 || sc == nil {
			return "dead"
		}
		out.setFailAt(atoi(argS(toks, "k")))
		n, err := sc.Write(sp.bytes())
		er := "none"
		if err != nil {
			er = "write"
		} else {
			out.disarm() // the allowance is per op
		}
		return fmt.Sprintf("n=%d err=%s", n, er)
	case "w":
		sc, out, _, ok := e.side(toks)
		ds, _ := hx.Arg(toks, "d")
		sp, ok2 := parseSpec(ds)
		if !ok || !ok2 || sc == nil {
			return "dead"
		}
		off := out.written()
		n, err := sc.Write(sp.bytes())
		frames, fit := parseFrames(out.logFrom(off))
		er := "none"
		if err != nil {
			er = "write"
		}
		return fmt.Sprintf("n=%d err=%s frames=%s fit=%v", n, er, frames, fit)
	case "r":
		sc, _, _, ok := e.side(toks)
		if !ok || sc == nil {
			return "dead"
		}
		ns, _ := hx.Arg(toks, "n")
		buf := make([]byte, atoi(ns))
		for i := range buf {
			buf[i] = 0xEE
		}
		var m0, m1 runtime.MemStats
		runtime.ReadMemStats(&m0)
		m, err := sc.Read(buf)
		runtime.ReadMemStats(&m1)
		if m < 0 || m > len(buf) {
			return fmt.Sprintf("n=%d err=range", m)
		}
		// what Read allocated beyond the caller's buffer; "big" = more than 1 MiB (the fixed buffers are < 200 KiB)
		big := m1.TotalAlloc-m0.TotalAlloc > 1<<20
		return fmt.Sprintf("n=%d err=%s d=%s big=%v", m, readErrClass(err), fnvOf(buf[:m]), big)
	case "inj":
		_, _, in, ok := e.side(toks)
		if !ok {
			return "dead"
		}
		hs, _ := hx.Arg(toks, "hdr")
		ls, _ := hx.Arg(toks, "len")
		ps, _ := hx.Arg(toks, "pay")
		claim, _ := hx.Arg(toks, "dec")
		hdr, pay, l := hx.UnHex(hs), hx.UnHex(ps), atoi(ls)
		if len(hdr) != 1 {
			return "bad-op"
		}
		// the claim about the codec is checked against the real library, so the model's codec oracle is snappy itself
		ann := 0
		if l <= len(pay) {
			if dl, err := snappy.DecodedLen(pay[:l]); err == nil {
				ann = dl
			}
		}
		if argS(toks, "ann") != "" && fmt.Sprint(ann) != argS(toks, "ann") {
			return "bad-op" // ann = the decoded length the payload announces (snappy.DecodedLen), 0 if none
		}
		if l <= len(pay) && ann > 1<<21 {
			if claim != "err" { // a tiny payload announcing megabytes cannot be valid; not decoded here (it would allocate)
				return "bad-op"
			}
		} else if l <= len(pay) {
			dec, err := snappy.Decode(nil, pay[:l])
			if claim == "err" {
				if err == nil {
					return "bad-op"
				}
			} else {
				sp, ok := parseSpec(claim)
				if !ok || err != nil || !bytes.Equal(dec, sp.bytes()) {
					return "bad-op"
				}
			}
		}
		raw := append([]byte{hdr[0], byte(l >> 24), byte(l >> 16), byte(l >> 8), byte(l)}, pay...)
		in.write(raw)
		return "ok"
	case "maxenc":
		ns, _ := hx.Arg(toks, "n")
		return fmt.Sprintf("v=%d", snappy.MaxEncodedLen(atoi(ns)))
	}
	return "bad-op"
}

func dbg(f string, a ...interface{}) {
	if os.Getenv("LV_DEBUG") != "" {
		fmt.Fprintf(os.Stderr, "dbg: "+f+"\n", a...)
	}
}
