package c10

// Coverage-guided families: iterator seek positions and node stream (before / after reopen from disk), difference and union
// iterators on tries sharing structure, missing-node sweeps, cache generations, embedding boundary at every depth,
// secure-trie preimages and copies, Cap / Dereference at small scale, wrappers, Commit(onleaf), Prove(fromLevel).

import (
	"fmt"
	"sort"

	"lvharness/hx"
)

func succ(k []byte) []byte { // the byte string just after k among strings of the same length (or longer if all 0xff)
	out := append([]byte{}, k...)
	for i := len(out) - 1; i >= 0; i-- {
		out[i]++
		if out[i] != 0 {
			return out
		}
	}
	return append(out, 0)
}

// seekStarts: before the first key, equal to a key, a proper prefix of a key, between keys, just after a key, past the last
func seekStarts(g *hx.Gen, keys [][]byte) [][]byte {
	starts := [][]byte{{}, {0x00}, {0xff, 0xff, 0xff, 0xff, 0xff, 0xff, 0xff, 0xff, 0xff, 0xff, 0xff, 0xff, 0xff, 0xff, 0xff, 0xff, 0xff,
		0xff, 0xff, 0xff, 0xff, 0xff, 0xff, 0xff, 0xff, 0xff, 0xff, 0xff, 0xff, 0xff, 0xff, 0xff, 0xff, 0xff}}
	for _, k := range keys {
		starts = append(starts, k, succ(k), append(append([]byte{}, k...), 0x00))
		if len(k) > 0 {
			starts = append(starts, k[:len(k)-1], k[:g.Rng.Intn(len(k))])
			low := append([]byte{}, k...)
			low[len(low)-1] &= 0xf0 // same high nibble: a start that ends inside a byte
			starts = append(starts, low)
		}
	}
	g.Rng.Shuffle(len(starts), func(i, j int) { starts[i], starts[j] = starts[j], starts[i] })
	return starts
}

func (h *hist) wideOps(keys [][]byte, secure bool, n int) {
	g := h.g
	snapped := false
	for s := 0; s < n; s++ {
		k := keys[g.Rng.Intn(len(keys))]
		w := ""
		if g.Rng.Intn(4) == 0 {
			w = " w=1"
		}
		switch r := g.Rng.Intn(100); {
		case r < 30:
			v, vk := genValue(g)
			g.Count(vk)
			h.put(k, v)
			h.ops[len(h.ops)-1] += w
		case r < 38:
			h.del(k)
			h.ops[len(h.ops)-1] += w
		case r < 44:
			h.ops = append(h.ops, "get k="+hx.Hex(k)+w)
		case r < 48:
			h.ops = append(h.ops, "hash"+w)
			h.roots++
		case r < 52:
			h.ops = append(h.ops, "commit")
			h.roots++
		case r < 57:
			h.ops = append(h.ops, "reopen mode="+[]string{"mem", "disk"}[g.Rng.Intn(2)]+fmt.Sprintf(" cl=%d", g.Rng.Intn(4)))
			h.roots++
		case r < 63:
			st := seekStarts(g, [][]byte{k})
			h.ops = append(h.ops, "iterfrom start="+hx.Hex(st[0]))
			g.Count("op:iterfrom")
		case r < 66:
			h.ops = append(h.ops, "nodeiter")
			g.Count("op:nodeiter")
		case r < 70:
			h.ops = append(h.ops, "snap")
			snapped = true
			h.roots++
		case r < 76:
			if snapped {
				h.ops = append(h.ops, []string{"diff", "union"}[g.Rng.Intn(2)])
				g.Count("op:diff/union")
			}
		case r < 80:
			if secure && len(k) > 0 {
				h.ops = append(h.ops, "getkey k="+hx.Hex(k))
				g.Count("op:getkey")
			}
		case r < 83:
			v := rbytes(g, 1+g.Rng.Intn(40))
			h.ops = append(h.ops, fmt.Sprintf("copywrite k=%s v=%s", hx.Hex(k), hx.Hex(v)))
			g.Count("op:copywrite")
		case r < 88:
			op := []string{"get", "put", "del", "prove", "iter", "seek", "getw", "putw", "delw"}[g.Rng.Intn(9)]
			if g.Rng.Intn(4) == 0 {
				k = rbytes(g, g.Rng.Intn(4))
			}
			h.ops = append(h.ops, fmt.Sprintf("missing op=%s k=%s v=%s", op, hx.Hex(k), hx.Hex(rbytes(g, 1+g.Rng.Intn(40)))))
			if op == "put" || op == "del" {
				// the sweep itself does not change the live trie (it works on fresh tries), nothing to record
			}
			h.roots++
			g.Count("op:missing:" + op)
		case r < 89:
			h.ops = append(h.ops, "diskfail what="+[]string{"commit", "cap"}[g.Rng.Intn(2)])
			h.roots++
			g.Count("op:diskfail")
		case r < 90:
			h.ops = append(h.ops, "dbstat blob="+hx.Hex(rbytes(g, 1+g.Rng.Intn(60))))
		case r < 92:
			h.ops = append(h.ops, fmt.Sprintf("openmissing kind=%s h=%s", []string{"plain", "secure"}[g.Rng.Intn(2)], hx.Hex(rbytes(g, 8))))
		case r < 95:
			h.ops = append(h.ops, fmt.Sprintf("cap limit=%d", []int{0, 1, 100, 400, 1000, 5000, 1 << 20}[g.Rng.Intn(7)]))
			g.Count("op:cap")
		case r < 97:
			h.ops = append(h.ops, "gc")
			g.Count("op:gc")
		default:
			h.ops = append(h.ops, fmt.Sprintf("prove k=%s from=%d", hx.Hex(k), g.Rng.Intn(3)))
			g.Count("op:prove-from")
		}
	}
}

func sortedKeys(m map[string][]byte) []string {
	ks := make([]string, 0, len(m))
	for k := range m {
		ks = append(ks, k)
	}
	sort.Strings(ks)
	return ks
}

func genWide(g *hx.Gen) {
	// (W1) mixed histories with the whole second op family
	for c := 0; c < g.Pick(120, 2500); c++ {
		secure := c%3 == 1
		kind := "plain"
		if secure {
			kind = "secure"
		}
		keys, uk := universe(g)
		h := &hist{g: g, content: map[string][]byte{}}
		first := "commit leaf=1"
		h.ops = []string{"case", fmt.Sprintf("new kind=%s cl=%d", kind, g.Rng.Intn(4))}
		for i := 0; i < 2+g.Rng.Intn(8); i++ {
			v, _ := genValue(g)
			h.put(keys[g.Rng.Intn(len(keys))], v)
		}
		h.ops = append(h.ops, "hash", first) // the first commit of a fresh trie: every node dirty, onleaf fires for every stored leaf
		h.wideOps(keys, secure, 8+g.Rng.Intn(g.Pick(30, 60)))
		h.ops = append(h.ops, "hash", "iter", "nodeiter")
		g.Count("wide:" + uk)
		g.Case(fmt.Sprintf("wide kind=%s universe=%s keys=%d", kind, uk, len(keys)), h.ops, h.maxLen >= 3 && h.changed >= 1)
	}

	// (W2) seek positions, node stream and leaf proofs: in memory, after hash, after commit, after reopen from disk
	for c := 0; c < g.Pick(24, 400); c++ {
		kind := []string{"plain", "plain", "secure"}[c%3]
		keys, uk := universe(g)
		if len(keys) > 10 {
			keys = keys[:10]
		}
		h := &hist{g: g, content: map[string][]byte{}}
		h.ops = []string{"case", "new kind=" + kind, "iterfrom start=-", "iterfrom start=80", "nodeiter"}
		for _, k := range keys {
			v, _ := genValue(g)
			if len(v) == 0 {
				v = []byte{1}
			}
			h.put(k, v)
		}
		starts := seekStarts(g, keys)
		if len(starts) > 24 {
			starts = starts[:24]
		}
		for phase, pre := range []string{"", "hash", "commit", "reopen mode=disk", "reopen mode=mem cl=1"} {
			if pre != "" {
				h.ops = append(h.ops, pre)
			}
			for i, st := range starts {
				if i%5 == phase%5 || phase == 3 {
					h.ops = append(h.ops, "iterfrom start="+hx.Hex(st))
				}
			}
			h.ops = append(h.ops, "nodeiter")
		}
		// deletions collapse nodes: seek again on the smaller trie
		for i, k := range keys {
			if i%2 == 0 {
				h.del(k)
			}
		}
		for i, st := range starts {
			if i%3 == 0 {
				h.ops = append(h.ops, "iterfrom start="+hx.Hex(st))
			}
		}
		h.ops = append(h.ops, "nodeiter", "iter")
		g.Count("seek:" + uk)
		g.Case(fmt.Sprintf("seek kind=%s universe=%s keys=%d", kind, uk, len(keys)), h.ops, len(keys) >= 3)
	}

	// (W3) difference / union of two tries that share structure
	for c := 0; c < g.Pick(30, 500); c++ {
		kind := []string{"plain", "secure"}[c%2]
		keys, uk := universe(g)
		h := &hist{g: g, content: map[string][]byte{}}
		h.ops = []string{"case", "new kind=" + kind}
		nb := g.Rng.Intn(len(keys) + 1) // 0: empty base
		for i := 0; i < nb; i++ {
			h.put(keys[i], rbytes(g, []int{1, 5, 31, 32, 33, 40}[g.Rng.Intn(6)]))
		}
		h.ops = append(h.ops, "snap", "diff", "union") // identical tries: empty difference, union = content
		switch c % 4 {
		case 1:
			h.ops = append(h.ops, "reopen mode=disk")
		case 2:
			h.ops = append(h.ops, "reopen mode=mem cl=1")
		}
		for i := 0; i < 1+g.Rng.Intn(8); i++ {
			k := keys[g.Rng.Intn(len(keys))]
			switch g.Rng.Intn(4) {
			case 0:
				h.del(k)
			case 1:
				if v, ok := h.content[string(k)]; ok {
					h.put(k, v) // rewrite of the same value: no difference
					break
				}
				fallthrough
			default:
				h.put(k, rbytes(g, []int{1, 5, 31, 32, 33, 40}[g.Rng.Intn(6)]))
			}
			if g.Rng.Intn(3) == 0 {
				h.ops = append(h.ops, "diff")
			}
		}
		h.ops = append(h.ops, "diff", "union", "commit", "diff", "union")
		if c%5 == 0 { // the live trie emptied
			for _, k := range sortedKeys(h.content) {
				h.del([]byte(k))
			}
			h.ops = append(h.ops, "diff", "union")
		}
		g.Count("diffunion:" + uk)
		g.Case(fmt.Sprintf("diff/union kind=%s universe=%s base=%d", kind, uk, nb), h.ops, nb >= 2)
	}

	// (W4) missing-node sweeps: every reachable node blob removed from the disk database in turn
	for c := 0; c < g.Pick(24, 400); c++ {
		kind := []string{"plain", "secure"}[c%2]
		keys, uk := universe(g)
		h := &hist{g: g, content: map[string][]byte{}}
		h.ops = []string{"case", "new kind=" + kind}
		for _, k := range keys {
			if g.Rng.Intn(4) > 0 {
				h.put(k, rbytes(g, []int{2, 20, 33, 40, 70}[g.Rng.Intn(5)]))
			}
		}
		present := sortedKeys(h.content)
		pick := func() []byte {
			if len(present) > 0 && g.Rng.Intn(3) > 0 {
				return []byte(present[g.Rng.Intn(len(present))])
			}
			return keys[g.Rng.Intn(len(keys))]
		}
		for _, op := range []string{"get", "get", "put", "put", "del", "del", "prove", "iter", "seek", "getw", "putw", "delw"} {
			h.ops = append(h.ops, fmt.Sprintf("missing op=%s k=%s v=%s", op, hx.Hex(pick()), hx.Hex(rbytes(g, 1+g.Rng.Intn(40)))))
		}
		h.ops = append(h.ops, fmt.Sprintf("missing op=get k=%s v=-", hx.Hex(rbytes(g, 3))), "hash", "iter")
		g.Count("missing:" + uk)
		g.Case(fmt.Sprintf("missing-node sweep kind=%s universe=%s keys=%d", kind, uk, len(present)), h.ops, len(present) >= 3)
	}

	// (W5) cache generations: cache limit 1..3, many commits, old keys read after their nodes were unloaded
	for c := 0; c < g.Pick(12, 200); c++ {
		kind := []string{"plain", "secure"}[c%2]
		cl := 1 + c%3
		keys, uk := universe(g)
		h := &hist{g: g, content: map[string][]byte{}}
		h.ops = []string{"case", fmt.Sprintf("new kind=%s cl=%d", kind, cl)}
		for round := 0; round < g.Pick(10, 16); round++ {
			for i := 0; i < 1+g.Rng.Intn(3); i++ {
				v, _ := genValue(g)
				h.put(keys[g.Rng.Intn(len(keys))], v)
			}
			h.ops = append(h.ops, "commit")
			for i := 0; i < 3; i++ {
				h.ops = append(h.ops, "get k="+hx.Hex(keys[g.Rng.Intn(len(keys))]))
			}
			if round%4 == 3 {
				h.ops = append(h.ops, "dbstat blob=-", "iter", fmt.Sprintf("cachelimit n=%d", 1+g.Rng.Intn(3)))
			}
		}
		h.ops = append(h.ops, "reopen mode=disk", "iter", "hash")
		g.Count("generations:" + uk)
		g.Case(fmt.Sprintf("generations kind=%s cl=%d universe=%s", kind, cl, uk), h.ops, true)
	}

	// (W6) embedding boundary: values of every length 1..40 under keys that branch at depth 0..3 bytes (+ a half byte)
	for c := 0; c < g.Pick(10, 80); c++ {
		depth := c % 4
		p := rbytes(g, depth)
		h := &hist{g: g, content: map[string][]byte{}}
		h.ops = []string{"case", "new kind=plain"}
		for l := 1; l <= 40; l++ {
			if g.Rng.Intn(2) == 0 && !g.Thorough() {
				continue
			}
			k := append(append([]byte{}, p...), byte(l), byte(g.Rng.Intn(4)))
			if c%2 == 1 {
				k = append(append([]byte{}, p...), byte(l>>4), byte(l<<4)) // siblings that differ in the low nibble
			}
			h.put(k, rbytes(g, l))
			if l%8 == 0 {
				h.ops = append(h.ops, "hash")
			}
		}
		h.ops = append(h.ops, "hash", "commit leaf=1", "nodeiter", "reopen mode=disk", "iter", "nodeiter")
		for _, k := range sortedKeys(h.content) {
			h.ops = append(h.ops, "get k="+hx.Hex([]byte(k)), "prove k="+hx.Hex([]byte(k)))
		}
		g.Case(fmt.Sprintf("embedding sweep depth=%d", depth), h.ops, true)
	}

	// (W7) secure-trie preimages: from the key cache, from the node database after commit, from disk after reopen, after delete
	for c := 0; c < g.Pick(12, 200); c++ {
		keys, _ := universe(g)
		h := &hist{g: g, content: map[string][]byte{}}
		h.ops = []string{"case", "new kind=secure"}
		var ks [][]byte
		for _, k := range keys {
			if len(k) > 0 && len(ks) < 6 {
				ks = append(ks, k)
			}
		}
		if len(ks) == 0 {
			continue
		}
		all := func() {
			for _, k := range ks {
				h.ops = append(h.ops, "getkey k="+hx.Hex(k))
			}
			h.ops = append(h.ops, "getkey k="+hx.Hex(rbytes(g, 5)))
		}
		all() // nothing written yet
		for _, k := range ks[:len(ks)/2+1] {
			h.put(k, rbytes(g, 1+g.Rng.Intn(40)))
		}
		all() // from the key cache
		h.ops = append(h.ops, fmt.Sprintf("copywrite k=%s v=%s", hx.Hex(ks[len(ks)-1]), hx.Hex(rbytes(g, 9))))
		h.ops = append(h.ops, "commit")
		all() // from the node database (memory)
		h.del(ks[0])
		h.ops = append(h.ops, "getkey k="+hx.Hex(ks[0])) // committed before: still known
		for _, k := range ks[len(ks)/2+1:] {
			h.put(k, rbytes(g, 1+g.Rng.Intn(40)))
		}
		if len(ks) > 1 {
			h.del(ks[len(ks)-1]) // written and deleted before any commit: forgotten
			h.ops = append(h.ops, "getkey k="+hx.Hex(ks[len(ks)-1]))
		}
		h.ops = append(h.ops, []string{"reopen mode=disk", "reopen mode=mem"}[c%2])
		all() // from disk
		h.ops = append(h.ops, "iter", "hash")
		g.Case("secure preimages", h.ops, true)
	}

	// (W8) Cap at every limit between two commits, Dereference of a root that shares nodes with the live root
	for c := 0; c < g.Pick(16, 300); c++ {
		kind := []string{"plain", "secure"}[c%2]
		keys, uk := universe(g)
		h := &hist{g: g, content: map[string][]byte{}}
		h.ops = []string{hx.CaseOp("cap"), "new kind=" + kind}
		for _, k := range keys {
			h.put(k, rbytes(g, []int{3, 33, 64, 120}[g.Rng.Intn(4)]))
		}
		h.ops = append(h.ops, "commit")
		limit := []int{0, 1, 64, 200, 500, 1000, 2000, 4000, 8000, 1 << 20}[c%10]
		h.ops = append(h.ops, fmt.Sprintf("cap limit=%d", limit), "dbstat blob=-")
		for i := 0; i < 1+g.Rng.Intn(4); i++ { // a second root sharing most nodes with the first
			h.put(keys[g.Rng.Intn(len(keys))], rbytes(g, 40))
		}
		h.ops = append(h.ops, "commit")
		if c%3 != 0 {
			h.ops = append(h.ops, "gc") // drop the first root: the live root must stay complete
		}
		h.ops = append(h.ops, fmt.Sprintf("cap limit=%d", []int{0, 300, 3000}[g.Rng.Intn(3)]), "dbstat blob=aabb")
		for _, k := range sortedKeys(h.content) {
			h.ops = append(h.ops, "get k="+hx.Hex([]byte(k)))
		}
		h.ops = append(h.ops, "reopen mode=disk", "iter", "hash")
		for _, k := range sortedKeys(h.content) {
			h.ops = append(h.ops, "get k="+hx.Hex([]byte(k)))
		}
		// write failures: the batch write of Commit / Cap fails once, then succeeds
		h.put(keys[0], rbytes(g, 50))
		h.ops = append(h.ops, "diskfail what="+[]string{"commit", "cap"}[c%2], "iter")
		g.Count("capgc:" + uk)
		g.Case(fmt.Sprintf("cap/gc kind=%s limit=%d", kind, limit), h.ops, true)
	}
}
