package c10

// Second family of ops: iterator family (seek, node stream, leaf proofs, difference / union iterators), secure-trie
// preimages and copies, missing-node sweeps over the disk database, node-database integrity, wrappers.

import (
	"bytes"
	"errors"
	"fmt"
	"strings"
	"time"

	"github.com/lianxiangcloud/linkchain/libs/common"
	"github.com/lianxiangcloud/linkchain/libs/crypto"
	dbm "github.com/lianxiangcloud/linkchain/libs/db"
	"github.com/lianxiangcloud/linkchain/libs/trie"

	"lvharness/hx"
)

// faultDB is the executor's disk database with write-failure injection: the failAt-th batch write since arming returns an
// error and writes nothing (a full disk, an I/O error); everything else is the MemDB
type faultDB struct {
	*dbm.MemDB
	e *exec
}

type faultBatch struct {
	dbm.Batch
	e *exec
}

func (f faultDB) NewBatch() dbm.Batch { return &faultBatch{Batch: f.MemDB.NewBatch(), e: f.e} }

func (b *faultBatch) Commit() error {
	b.e.commits++
	if b.e.failAt > 0 && b.e.commits == b.e.failAt {
		return errors.New("injected write failure")
	}
	return b.Batch.Commit()
}

func (e *exec) fdb() dbm.DB { return faultDB{MemDB: e.disk, e: e} }

// diskFail: Database.Commit (or Cap) with the k-th batch write failing, for k = 1, 2, ... until the call succeeds.
// After every failed call nothing may be lost: the committed root is still completely readable through the node database;
// after the successful call it is completely readable from the disk database alone.
func (e *exec) diskFail(toks []string) string {
	what, _ := hx.Arg(toks, "what")
	r, err := e.commit()
	if err != nil {
		return "err-commit"
	}
	e.tdb.Reference(r, common.EmptyHash)
	e.roots = append(e.roots, r)
	want, err := leavesOf(trie.NewIterator(e.t().NodeIterator(nil)), e)
	if err != nil {
		return "err-iter"
	}
	bad, fails := 0, 0
	for k := 1; k <= 40; k++ {
		e.failAt, e.commits = k, 0
		if what == "cap" {
			err = e.tdb.Cap(0)
		} else {
			err = e.tdb.Commit(r, false)
		}
		e.failAt = 0
		if err == nil {
			break
		}
		fails++
		t2, err2 := e.openAt(r, e.tdb)
		if err2 != nil {
			bad++
			continue
		}
		if got, err3 := leavesOf(trie.NewIterator(t2.NodeIterator(nil)), e); err3 != nil || strings.Join(got, ",") != strings.Join(want, ",") {
			bad++
		}
	}
	if err != nil || (fails == 0 && r != emptyRootHash) {
		bad++ // never succeeded, or no write was ever attempted for a non-empty trie
	}
	if what == "cap" {
		if err := e.tdb.Commit(r, false); err != nil {
			bad++
		}
	}
	e.tdb = trie.NewDatabase(e.fdb())
	e.roots = nil
	if err := e.open(r); err != nil {
		return fmt.Sprintf("root=%s bad=%d lost-after-success", hx.Hex(r.Bytes()), bad+1)
	}
	if got, err := leavesOf(trie.NewIterator(e.t().NodeIterator(nil)), e); err != nil || strings.Join(got, ",") != strings.Join(want, ",") {
		bad++
	}
	return fmt.Sprintf("root=%s bad=%d", hx.Hex(r.Bytes()), bad)
}

var emptyRootHash = common.HexToHash("56e81f171bcc55a6ff8345e692c0f86e5b48e01b996cadc001622fb5e363b421")

func leavesOf(it *trie.Iterator, es ...*exec) ([]string, error) {
	var items []string
	for it.Next() {
		items = append(items, hx.Hex(it.Key)+":"+hx.Hex(it.Value))
		for _, e := range es {
			e.out(it.Key)
		}
	}
	return items, it.Err
}

// scribbleGetKeyResult: overwrite the slice GetKey returned (after recording it).  On the unchanged tree GetKey hands out the
// key cache's own slice (no copy): see coverage_notes / proposed.
const scribbleGetKeyResult = false

// scribbleInsertBlob: overwrite the blob handed to Database.InsertBlob after the call.  On the unchanged tree InsertBlob keeps
// the caller's slice (rawNode(blob), no copy): see coverage_notes / proposed/C10-buffer-sharing.md.
const scribbleInsertBlob = false

func showLeaves(items []string) string {
	kv := "-"
	if len(items) > 0 {
		kv = strings.Join(items, ",")
	}
	return fmt.Sprintf("n=%d kv=%s", len(items), kv)
}

func hashOrDash(h common.Hash) string {
	if h == (common.Hash{}) {
		return "-"
	}
	return hx.Hex(h.Bytes())
}

// openAt opens a fresh trie of the executor's kind at root over the given node database
func (e *exec) openAt(root common.Hash, tdb *trie.Database) (anyTrie, error) {
	if e.secure {
		t, err := trie.NewSecure(root, tdb, e.climit)
		if err != nil {
			return nil, err
		}
		return t, nil
	}
	t, err := trie.New(root, tdb)
	if err != nil {
		return nil, err
	}
	t.SetCacheLimit(e.climit)
	return t, nil
}

// toDisk commits the current trie into a node database and that database to disk; the executor continues on a
// fresh node database and a reopened trie (as `reopen mode=disk`)
func (e *exec) toDisk() (common.Hash, error) {
	r, err := e.commit()
	if err != nil {
		return r, err
	}
	if err := e.tdb.Commit(r, false); err != nil {
		return r, err
	}
	e.tdb = trie.NewDatabase(e.fdb())
	e.roots = nil
	return r, e.open(r)
}

func (e *exec) missingSweep(toks []string) string {
	op, _ := hx.Arg(toks, "op")
	k, v := e.in(argHex(toks, "k")), argHex(toks, "v")
	r, err := e.toDisk()
	if err != nil {
		return "err-missing-node"
	}
	fresh := func() (anyTrie, error) { return e.openAt(r, trie.NewDatabase(e.fdb())) }
	// the node blobs a reopened trie can load: every hashed node reachable from the root
	var hashes []common.Hash
	if r != emptyRootHash {
		t0, err := fresh()
		if err != nil {
			return "err-missing-node"
		}
		seen := map[common.Hash]bool{}
		it := t0.NodeIterator(nil)
		for it.Next(true) {
			if h := it.Hash(); h != (common.Hash{}) && !seen[h] {
				seen[h] = true
				hashes = append(hashes, h)
			}
		}
		if it.Error() != nil {
			return "err-iter"
		}
	}
	ref, haveRef := "", false
	var run func(t anyTrie) (string, error)
	run = func(t anyTrie) (string, error) {
		switch op {
		case "put":
			if err := t.TryUpdate(k, v); err != nil {
				return "", err
			}
			return "root=" + hx.Hex(t.Hash().Bytes()), nil
		case "del":
			if err := t.TryDelete(k); err != nil {
				return "", err
			}
			return "root=" + hx.Hex(t.Hash().Bytes()), nil
		case "prove":
			rec := &recorder{e: e}
			if err := t.Prove(e.tkey(k), 0, rec); err != nil {
				return "", err
			}
			return hexList(rec.nodes), nil
		case "iter":
			items, err := leavesOf(trie.NewIterator(t.NodeIterator(nil)), e)
			return strings.Join(items, ","), err
		case "seek":
			items, err := leavesOf(trie.NewIterator(t.NodeIterator(k)), e)
			return strings.Join(items, ","), err
		case "getw", "putw", "delw":
			// the logging wrappers swallow the error: a failure shows as a wrong answer
			var res string
			switch tt := t.(type) {
			case *trie.Trie:
				switch op {
				case "getw":
					res = "v=" + hx.Hex(tt.Get(k))
				case "putw":
					tt.Update(k, v)
					res = "root=" + hx.Hex(tt.Root())
				default:
					tt.Delete(k)
					res = "root=" + hx.Hex(tt.Root())
				}
			case *trie.SecureTrie:
				switch op {
				case "getw":
					res = "v=" + hx.Hex(tt.Get(k))
				case "putw":
					tt.Update(k, v)
					res = "root=" + hx.Hex(tt.Root())
				default:
					tt.Delete(k)
					res = "root=" + hx.Hex(tt.Root())
				}
			}
			if haveRef && res != ref {
				return res, fmt.Errorf("wrapper answered %s", res)
			}
			return res, nil
		default:
			val, err := t.TryGet(k)
			return "v=" + hx.Hex(val), err
		}
	}
	t, err := fresh()
	if err != nil {
		return "err-missing-node"
	}
	ref, err = run(t)
	if err != nil {
		return "err-missing-node"
	}
	haveRef = true
	errs, bad := 0, 0
	for _, h := range hashes {
		blob := e.disk.Get(h[:])
		e.disk.Delete(h[:])
		t, err := fresh()
		if err != nil {
			// the root itself is gone: New must fail, and succeed again once the blob is back
			errs++
			e.disk.Set(h[:], blob)
			if h != r {
				bad++
			}
			continue
		}
		ans, err := run(t)
		if err != nil {
			errs++
			if op == "iter" || op == "seek" {
				// the iterator must stop at the missing node, never skip over it
				if !strings.HasPrefix(ref, ans) {
					bad++
				}
				e.disk.Set(h[:], blob)
				continue
			}
			// the failed operation must leave the trie unchanged ...
			if t.Hash() != r {
				bad++
			}
			e.disk.Set(h[:], blob)
			// ... and succeed on the same trie once the node is readable again
			if ans2, err2 := run(t); err2 != nil || ans2 != ref {
				bad++
			}
			continue
		}
		e.disk.Set(h[:], blob)
		if ans != ref {
			bad++
		}
	}
	if op != "get" && op != "put" && op != "prove" && op != "iter" {
		return fmt.Sprintf("nodes=%d bad=%d", len(hashes), bad)
	}
	return fmt.Sprintf("nodes=%d errs=%d bad=%d", len(hashes), errs, bad)
}

// exec2 handles the second family of ops; ok=false: not one of them
func (e *exec) exec2(toks []string) (string, bool) {
	switch toks[0] {
	case "iterfrom":
		root := e.t().Hash()
		it := trie.NewIterator(e.t().NodeIterator(e.in(argHex(toks, "start"))))
		var items []string
		for it.Next() {
			items = append(items, hx.Hex(it.Key)+":"+hx.Hex(it.Value))
			// Iterator.Prove: the proof of the leaf the iterator stands on verifies against the root
			proof := it.Prove()
			if val, _, err := trie.VerifyProof(root, it.Key, contentDB(proof)); err != nil || !bytes.Equal(val, it.Value) {
				return "leafproof-bad k=" + hx.Hex(it.Key), true
			}
			for _, p := range proof {
				e.out(p)
			}
			e.out(it.Key)
		}
		if it.Err != nil {
			return "err-iter", true
		}
		return showLeaves(items), true
	case "nodeiter":
		root := e.t().Hash()
		it := e.t().NodeIterator(nil)
		var items []string
		n, leaves, okp := 0, 0, 0
		for it.Next(true) {
			n++
			items = append(items, hx.Hex(it.Path())+":"+hashOrDash(it.Hash())+":"+hashOrDash(it.Parent()))
			if it.Leaf() {
				leaves++
				key, blob := it.LeafKey(), it.LeafBlob()
				proof := it.LeafProof()
				val, _, err := trie.VerifyProof(root, key, contentDB(proof))
				if err == nil && bytes.Equal(val, blob) {
					okp++
				}
				for _, p := range proof {
					e.out(p)
				}
				e.out(key)
			}
		}
		if it.Error() != nil {
			return "err-iter", true
		}
		return fmt.Sprintf("n=%d leaves=%d proofs=%d/%d nodes=%s", n, leaves, okp, leaves, strings.Join(items, ",")), true
	case "snap":
		r, err := e.commit()
		if err != nil {
			return "err-commit", true
		}
		e.tdb.Reference(r, common.EmptyHash)
		e.roots = append(e.roots, r)
		b, err := e.openAt(r, e.tdb)
		if err != nil {
			return "err-missing-node", true
		}
		e.base, e.baseRoot = b, r
		return "root=" + hx.Hex(r.Bytes()), true
	case "diff", "union":
		if e.base == nil {
			return "bad-op", true
		}
		a, b := e.base.NodeIterator(nil), e.t().NodeIterator(nil)
		var ni trie.NodeIterator
		if toks[0] == "diff" {
			ni, _ = trie.NewDifferenceIterator(a, b)
		} else {
			ni, _ = trie.NewUnionIterator([]trie.NodeIterator{a, b})
		}
		root := e.t().Hash()
		var items []string
		for ni.Next(true) {
			// every accessor of the combined iterator answers for the node it stands on
			p, h, par := ni.Path(), ni.Hash(), ni.Parent()
			if h != (common.Hash{}) && h == par && len(p) > 0 {
				return "iter-bad parent-equals-hash", true
			}
			if ni.Leaf() {
				key, blob := ni.LeafKey(), ni.LeafBlob()
				items = append(items, hx.Hex(key)+":"+hx.Hex(blob))
				if toks[0] == "diff" { // the difference iterator stands on a node of the live trie: its leaf proof verifies against the live root
					if val, _, err := trie.VerifyProof(root, key, contentDB(ni.LeafProof())); err != nil || !bytes.Equal(val, blob) {
						return "leafproof-bad k=" + hx.Hex(key), true
					}
				} else {
					_ = ni.LeafProof()
				}
				e.out(key)
			}
		}
		if ni.Error() != nil {
			return "err-iter", true
		}
		return showLeaves(items), true
	case "getkey":
		if !e.secure {
			return "bad-op", true
		}
		if p := e.sec.GetKey(e.in(crypto.Keccak256(e.in(argHex(toks, "k"))))); len(p) > 0 {
			ans := "pre=" + hx.Hex(p)
			if scribbleGetKeyResult {
				e.out(p)
			}
			return ans, true
		}
		return "pre=nil", true
	case "copywrite":
		k, v := e.in(argHex(toks, "k")), argHex(toks, "v")
		var cpy anyTrie
		if e.secure {
			cpy = e.sec.Copy()
		} else {
			cp := *e.plain
			cpy = &cp
		}
		if err := cpy.TryUpdate(k, v); err != nil {
			return "err-missing-node", true
		}
		ov, err1 := e.t().TryGet(k)
		cv, err2 := cpy.TryGet(k)
		if err1 != nil || err2 != nil {
			return "err-missing-node", true
		}
		pre := "nil"
		if e.secure {
			if p := e.sec.GetKey(e.in(crypto.Keccak256(k))); len(p) > 0 {
				pre = hx.Hex(p)
				if scribbleGetKeyResult {
					e.out(p)
				}
			}
		} else {
			pre = "nil"
		}
		return fmt.Sprintf("orig=%s copy=%s rootorig=%s rootcopy=%s origpre=%s", hx.Hex(ov), hx.Hex(cv),
			hx.Hex(e.t().Hash().Bytes()), hx.Hex(cpy.Hash().Bytes()), pre), true
	case "missing":
		return e.missingSweep(toks), true
	case "diskfail":
		return e.diskFail(toks), true
	case "lockprobe":
		// the FIRST batch write of Database.Commit fails (with > 100 KiB of preimages that is the preimage flush);
		// afterwards the node database must still accept a writer
		r, err := e.commit()
		if err != nil {
			return "err-commit", true
		}
		e.failAt, e.commits = 1, 0
		err = e.tdb.Commit(r, false)
		e.failAt = 0
		tdb := e.tdb
		done := make(chan bool, 1)
		go func() { tdb.InsertBlob(common.BytesToHash(crypto.Keccak256([]byte("probe"))), []byte("probe")); done <- true }()
		res := "lock=free"
		select {
		case <-done:
		case <-time.After(2 * time.Second):
			res = "lock=held" // this node database is unusable from here on: continue on a fresh one (nothing reached the disk)
			e.tdb = trie.NewDatabase(e.fdb())
			e.roots = nil
			e.base = nil
			e.open(common.EmptyHash) // the live trie was bound to the stuck node database: the case ends here
		}
		if err == nil {
			res += " commit=ok"
		} else {
			res += " commit=err"
		}
		return res, true
	case "openmissing":
		return e.openMissing(toks), true
	case "dbstat":
		return e.dbStat(toks), true
	}
	return "", false
}

// stateless ops of the second family (no live trie needed beyond the node database)
func (e *exec) openMissing(toks []string) string {
	h := common.BytesToHash(crypto.Keccak256(e.in(argHex(toks, "h"))))
	var err error
	if kind, _ := hx.Arg(toks, "kind"); kind == "secure" {
		_, err = trie.NewSecure(h, e.tdb, 0)
	} else {
		_, err = trie.New(h, e.tdb)
	}
	if err != nil {
		return "err-missing-root"
	}
	return "opened"
}

// dbStat: the node database is content-addressed — every cached node and every raw blob reads back under its own hash
func (e *exec) dbStat(toks []string) string {
	for _, h := range e.tdb.Nodes() {
		blob, err := e.tdb.Node(h)
		if err != nil || common.BytesToHash(crypto.Keccak256(blob)) != h {
			return "integrity=bad:node-" + hx.Hex(h[:4])
		}
	}
	if e.blobsDB != e.tdb {
		e.blobsDB, e.blobs = e.tdb, map[common.Hash][]byte{}
	}
	for h, want := range e.blobs { // blobs inserted by earlier ops (their buffers were overwritten since) still read back
		if got, _ := e.tdb.Node(h); len(got) > 0 && !bytes.Equal(got, want) {
			return "integrity=bad:earlier-blob-changed"
		}
	}
	blob := argHex(toks, "blob")
	if scribbleInsertBlob {
		e.in(blob)
	}
	if len(blob) > 0 {
		h := common.BytesToHash(crypto.Keccak256(blob))
		e.blobs[h] = append([]byte{}, blob...)
		e.tdb.InsertBlob(h, blob)
		got, err := e.tdb.Node(h)
		if err != nil || !bytes.Equal(got, blob) {
			return "integrity=bad:blob"
		}
	}
	if b, _ := e.tdb.Node(common.BytesToHash(crypto.Keccak256([]byte("absent-node")))); len(b) != 0 {
		return "integrity=bad:absent-node-found"
	}
	mem, pre := e.tdb.Size()
	if mem < 0 || pre < 0 || e.tdb.DiskDB() == nil || trie.CacheMisses() < 0 || trie.CacheUnloads() < 0 {
		return "integrity=bad:size"
	}
	return "integrity=ok"
}
