package c10

import (
	"fmt"
	"sort"

	"github.com/lianxiangcloud/linkchain/libs/common"
	"github.com/lianxiangcloud/linkchain/libs/crypto"
	dbm "github.com/lianxiangcloud/linkchain/libs/db"
	"github.com/lianxiangcloud/linkchain/libs/trie"

	"lvharness/hx"
)

// ---- generator -----------------------------------------------------------------------------

func rbytes(g *hx.Gen, n int) []byte {
	b := make([]byte, n)
	for i := range b {
		b[i] = byte(g.Rng.Intn(256))
	}
	return b
}

// universe builds the per-case key universe; returns the keys and the kind label
func universe(g *hx.Gen) ([][]byte, string) {
	kind := []string{"prefix-chain", "long-shared-prefix", "short-keys", "nibble-diverge", "random32", "mixed"}[g.Rng.Intn(6)]
	var ks [][]byte
	add := func(k []byte) { ks = append(ks, append([]byte{}, k...)) }
	gen := func(kind string, n int) {
		switch kind {
		case "prefix-chain":
			// k, k+a, k+a+b, ... (each a proper prefix of the next), two or three chains, sometimes from the empty key
			for len(ks) < n {
				var k []byte
				if g.Rng.Intn(2) == 0 {
					k = rbytes(g, g.Rng.Intn(3))
				}
				add(k)
				for j := 0; j < 2+g.Rng.Intn(5); j++ {
					k = append(k, rbytes(g, 1+g.Rng.Intn(2))...)
					add(k)
				}
			}
		case "long-shared-prefix":
			p := rbytes(g, 8+g.Rng.Intn(24))
			for len(ks) < n {
				k := append(append([]byte{}, p[:len(p)-g.Rng.Intn(3)]...), rbytes(g, g.Rng.Intn(3))...)
				add(k)
			}
		case "short-keys":
			for len(ks) < n {
				add(rbytes(g, g.Rng.Intn(3)))
			}
		case "nibble-diverge":
			p := rbytes(g, 1+g.Rng.Intn(6))
			for len(ks) < n {
				k := append([]byte{}, p...)
				j := g.Rng.Intn(len(k))
				if g.Rng.Intn(2) == 0 {
					k[j] = k[j]&0xf0 | byte(g.Rng.Intn(16))
				} else {
					k[j] = k[j]&0x0f | byte(g.Rng.Intn(16))<<4
				}
				if g.Rng.Intn(3) == 0 {
					k = append(k, rbytes(g, 1)...)
				}
				add(k)
			}
		case "random32":
			for len(ks) < n {
				add(rbytes(g, 32))
			}
		}
	}
	n := 3 + g.Rng.Intn(g.Pick(14, 30))
	if kind == "mixed" {
		for _, k := range []string{"prefix-chain", "long-shared-prefix", "short-keys", "nibble-diverge"} {
			gen(k, len(ks)+1+n/4)
		}
	} else {
		gen(kind, n)
	}
	// distinct
	seen := map[string]bool{}
	var out [][]byte
	for _, k := range ks {
		if !seen[string(k)] {
			seen[string(k)] = true
			out = append(out, k)
		}
	}
	return out, kind
}

func genValue(g *hx.Gen) ([]byte, string) {
	switch r := g.Rng.Intn(20); {
	case r < 2:
		return []byte{byte(g.Rng.Intn(128))}, "val:1byte-lt80"
	case r < 4:
		return []byte{byte(128 + g.Rng.Intn(128))}, "val:1byte-ge80"
	case r < 9:
		return rbytes(g, 2+g.Rng.Intn(8)), "val:small"
	case r < 14:
		return rbytes(g, 24+g.Rng.Intn(12)), "val:embed-boundary" // node encodings around 32 bytes
	case r < 17:
		return rbytes(g, 54+g.Rng.Intn(6)), "val:len-54..59" // string header boundary (56)
	case r < 18:
		return rbytes(g, 100+g.Rng.Intn(250)), "val:long"
	default:
		return []byte{}, "val:empty=delete"
	}
}

type hist struct {
	g       *hx.Gen
	ops     []string
	content map[string][]byte
	maxLen  int
	changed int // deletes / overwrites of present keys
	roots   int
}

func (h *hist) put(k, v []byte) {
	h.ops = append(h.ops, fmt.Sprintf("put k=%s v=%s", hx.Hex(k), hx.Hex(v)))
	if _, ok := h.content[string(k)]; ok {
		h.changed++
	}
	if len(v) == 0 {
		delete(h.content, string(k))
	} else {
		h.content[string(k)] = v
	}
	if len(h.content) > h.maxLen {
		h.maxLen = len(h.content)
	}
}

func (h *hist) del(k []byte) {
	h.ops = append(h.ops, "del k="+hx.Hex(k))
	if _, ok := h.content[string(k)]; ok {
		h.changed++
	}
	delete(h.content, string(k))
}

func (h *hist) tamper(k []byte) {
	g := h.g
	mode := []string{"xor", "xor", "set", "trunc", "drop"}[g.Rng.Intn(5)]
	x := g.Rng.Intn(256)
	if mode == "set" {
		x = []int{0x80, 0xc0, 0x00, 0xa0, 0x20, 0x30, 0xc2}[g.Rng.Intn(7)]
	}
	h.ops = append(h.ops, fmt.Sprintf("tamper k=%s node=%d mode=%s pos=%d x=%d", hx.Hex(k), g.Rng.Intn(8), mode, g.Rng.Intn(600), x))
	g.Count("tamper:" + mode)
}

// randomOps appends n random ops over the universe
func (h *hist) randomOps(keys [][]byte, n int) {
	g := h.g
	for s := 0; s < n; s++ {
		k := keys[g.Rng.Intn(len(keys))]
		switch r := g.Rng.Intn(100); {
		case r < 45:
			v, vk := genValue(g)
			g.Count(vk)
			h.put(k, v)
		case r < 57:
			h.del(k)
		case r < 70:
			if g.Rng.Intn(6) == 0 {
				k = rbytes(g, g.Rng.Intn(5)) // a key outside the universe
			}
			h.ops = append(h.ops, "get k="+hx.Hex(k))
		case r < 77:
			h.ops = append(h.ops, "hash")
			h.roots++
		case r < 82:
			h.ops = append(h.ops, "commit")
			h.roots++
		case r < 87:
			op := "reopen mode=" + []string{"mem", "disk"}[g.Rng.Intn(2)]
			if g.Rng.Intn(2) == 0 {
				op += fmt.Sprintf(" cl=%d", g.Rng.Intn(3))
			}
			h.ops = append(h.ops, op)
			h.roots++
			g.Count("op:reopen")
		case r < 89:
			h.ops = append(h.ops, fmt.Sprintf("cachelimit n=%d", g.Rng.Intn(3)))
		case r < 92:
			h.ops = append(h.ops, "iter")
		case r < 97:
			if g.Rng.Intn(4) == 0 {
				k = rbytes(g, g.Rng.Intn(4))
			}
			h.ops = append(h.ops, "prove k="+hx.Hex(k))
			if _, ok := h.content[string(k)]; ok {
				g.Count("prove:member")
			} else {
				g.Count("prove:absent")
			}
		default:
			h.tamper(k)
		}
	}
}

// rebuild appends a fresh trie built to the same final content through a shuffled history with noise
func (h *hist) rebuild(kind string, keys [][]byte, final map[string][]byte) {
	g := h.g
	h.ops = append(h.ops, "new kind="+kind)
	h.content = map[string][]byte{}
	var ks []string
	for k := range final {
		ks = append(ks, k)
	}
	sort.Strings(ks)
	g.Rng.Shuffle(len(ks), func(i, j int) { ks[i], ks[j] = ks[j], ks[i] })
	for _, k := range ks {
		// noise: a key that is not in the final content is inserted and removed again, or a final key first gets another value
		if g.Rng.Intn(3) == 0 {
			x := keys[g.Rng.Intn(len(keys))]
			if _, in := final[string(x)]; !in {
				h.put(x, rbytes(g, 1+g.Rng.Intn(40)))
				if g.Rng.Intn(2) == 0 {
					h.ops = append(h.ops, []string{"hash", "commit", "reopen mode=disk", "reopen mode=mem cl=0"}[g.Rng.Intn(4)])
				}
				h.put([]byte(k), final[k])
				h.del(x)
				continue
			}
		}
		if g.Rng.Intn(4) == 0 {
			h.put([]byte(k), rbytes(g, 1+g.Rng.Intn(40)))
		}
		h.put([]byte(k), final[k])
	}
	h.ops = append(h.ops, "hash")
	h.roots++
}

func copyContent(m map[string][]byte) map[string][]byte {
	out := map[string][]byte{}
	for k, v := range m {
		out[k] = v
	}
	return out
}

// ---- malformed proof stream ----------------------------------------------------------------

func rlpHead(base byte, n int) []byte {
	if n < 56 {
		return []byte{base + byte(n)}
	}
	var be []byte
	for x := n; x > 0; x >>= 8 {
		be = append([]byte{byte(x)}, be...)
	}
	return append([]byte{base + 55 + byte(len(be))}, be...)
}

func rlpStr(b []byte) []byte {
	if len(b) == 1 && b[0] < 0x80 {
		return []byte{b[0]}
	}
	return append(rlpHead(0x80, len(b)), b...)
}

func rlpList(items ...[]byte) []byte {
	var p []byte
	for _, it := range items {
		p = append(p, it...)
	}
	return append(rlpHead(0xc0, len(p)), p...)
}

// an item of a malformed node: string of a chosen length, embedded list, or raw junk
func badItem(g *hx.Gen) []byte {
	switch g.Rng.Intn(10) {
	case 9:
		return rlpList(rlpStr([]byte{0x20}), rlpStr(rbytes(g, 28+g.Rng.Intn(8)))) // embedded leaf around / over the 32-byte limit
	case 0:
		return []byte{0x80}
	case 1:
		return rlpStr(rbytes(g, 32))
	case 2:
		return rlpStr(rbytes(g, []int{1, 2, 31, 33, 56}[g.Rng.Intn(5)]))
	case 3:
		return rlpList(rlpStr([]byte{byte(0x20 + g.Rng.Intn(2)*0x10 + g.Rng.Intn(16))}), rlpStr(rbytes(g, 1+g.Rng.Intn(4)))) // small embedded leaf
	case 4:
		return rlpList(rlpStr([]byte{}), rlpStr(rbytes(g, 2))) // embedded short node with an empty compact key
	case 5:
		return []byte{0x81, byte(g.Rng.Intn(128))} // non-canonical single byte
	case 6:
		return []byte{0xb8, byte(g.Rng.Intn(56))} // non-canonical long size
	case 7:
		return []byte{byte(g.Rng.Intn(128))}
	default:
		return rlpList()
	}
}

func compactKey(g *hx.Gen) []byte {
	switch g.Rng.Intn(8) {
	case 0:
		return []byte{} // empty compact key
	case 1:
		return []byte{0x20} // terminator only
	case 2:
		return []byte{0x00} // empty extension key
	case 3:
		return []byte{byte(0x30 + g.Rng.Intn(16))}
	case 4:
		return []byte{byte(0x10 + g.Rng.Intn(16))}
	case 5:
		return append([]byte{byte(g.Rng.Intn(4)) << 4}, rbytes(g, g.Rng.Intn(3))...)
	case 6:
		return append([]byte{byte(g.Rng.Intn(256))}, rbytes(g, g.Rng.Intn(3))...) // arbitrary flag nibble
	default:
		return rbytes(g, 1+g.Rng.Intn(3))
	}
}

func badNode(g *hx.Gen) ([]byte, string) {
	switch g.Rng.Intn(10) {
	case 7: // the key element is a list
		return rlpList(rlpList(rlpStr(rbytes(g, 1))), badItem(g)), "raw:key-is-list"
	case 8: // terminated key whose value element is a list
		return rlpList(rlpStr([]byte{0x20}), rlpList(rlpStr(rbytes(g, 2)))), "raw:value-is-list"
	case 9: // 17 elements, the value slot is a list
		items := make([][]byte, 17)
		for i := range items {
			items[i] = []byte{0x80}
		}
		items[16] = rlpList(rlpStr(rbytes(g, 1)))
		return rlpList(items...), "raw:slot16-is-list"
	case 0, 1: // two-element list: short node shapes
		return rlpList(rlpStr(compactKey(g)), badItem(g)), "raw:short"
	case 2: // 17-element list
		items := make([][]byte, 17)
		for i := range items {
			if g.Rng.Intn(3) == 0 {
				items[i] = badItem(g)
			} else {
				items[i] = []byte{0x80}
			}
		}
		return rlpList(items...), "raw:full"
	case 3: // wrong element count
		n := []int{0, 1, 3, 16, 18}[g.Rng.Intn(5)]
		items := make([][]byte, n)
		for i := range items {
			items[i] = badItem(g)
		}
		return rlpList(items...), "raw:wrong-count"
	case 4: // truncated / extended well-formed node
		b := rlpList(rlpStr(compactKey(g)), rlpStr(rbytes(g, 1+g.Rng.Intn(40))))
		if g.Rng.Intn(2) == 0 && len(b) > 1 {
			return b[:1+g.Rng.Intn(len(b)-1)], "raw:truncated"
		}
		return append(b, rbytes(g, 1+g.Rng.Intn(3))...), "raw:trailing"
	case 5:
		return rbytes(g, g.Rng.Intn(40)), "raw:garbage"
	default: // a string, not a list
		return rlpStr(rbytes(g, g.Rng.Intn(40))), "raw:string"
	}
}

func genRaw(g *hx.Gen) {
	// corpus: the smallest malformed node that makes compactToHex slice out of range
	g.Case("corpus rawverify empty compact key", []string{"case", "rawverify k=78 nodes=c28080"}, false)
	for c := 0; c < g.Pick(60, 1500); c++ {
		ops := []string{"case"}
		for j := 0; j < 12; j++ {
			key := rbytes(g, g.Rng.Intn(3))
			n0, kind := badNode(g)
			g.Count(kind)
			nodes := [][]byte{n0}
			if g.Rng.Intn(3) == 0 {
				// a well-formed extension in front, referring to the malformed node by hash: the walk reaches a second node
				n1 := n0
				h := hx.UnHex(hashHex(n1))
				ext := rlpList(rlpStr([]byte{0x00}), rlpStr(h))
				if len(key) > 0 && g.Rng.Intn(2) == 0 {
					ext = rlpList(rlpStr([]byte{0x10 | key[0]>>4}), rlpStr(h))
				}
				nodes = [][]byte{ext, n1}
				g.Count("raw:chained")
			}
			ops = append(ops, fmt.Sprintf("rawverify k=%s nodes=%s", hx.Hex(key), hexList(nodes)))
		}
		g.Case("malformed proof nodes", ops, true)
	}
}

// ---- large commits: the write batch of trie.Database.Commit / Cap flushes every dbm.IdealBatchSize bytes ---------------

// commitBytes measures, on the real trie code but WITHOUT any disk commit, how many node-blob bytes one
// Database.Commit of this content would put into the write batch (sum of the blobs of all hashed nodes).
func commitBytes(keys, vals [][]byte, secure bool) int {
	tdb := trie.NewDatabase(dbm.NewMemDB())
	t, _ := trie.New(common.EmptyHash, tdb)
	for i, k := range keys {
		if secure {
			k = crypto.Keccak256(k)
		}
		t.Update(k, vals[i])
	}
	t.Commit(nil)
	total := 0
	it := t.NodeIterator(nil)
	for it.Next(true) {
		if h := it.Hash(); h != (common.Hash{}) {
			if blob, err := tdb.Node(h); err == nil {
				total += len(blob)
			}
		}
	}
	return total
}

type largeSpec struct {
	name   string
	secure bool
	target int  // wanted batch bytes of the first commit (0: just use n keys)
	n      int  // number of keys when target == 0
	second int  // keys added before a second commit + reopen (0: none)
	mode   string // "commit-reopen" | "cap" | "gc"
}

func genLargeCase(g *hx.Gen, sp largeSpec) {
	kind := "plain"
	if sp.secure {
		kind = "secure"
	}
	var keys, vals [][]byte
	add := func() {
		keys = append(keys, rbytes(g, 32))
		vals = append(vals, rbytes(g, 64))
	}
	if sp.target == 0 {
		for i := 0; i < sp.n; i++ {
			add()
		}
	} else {
		// grow in steps to just below the target, then tune ONE value's length so that the batch holds exactly `target` bytes
		// (a longer leaf value changes only that leaf's blob: its ancestors refer to it by a 32-byte hash)
		for i := 0; i < 200; i++ {
			add()
		}
		for commitBytes(keys, vals, sp.secure) < sp.target-4000 {
			for i := 0; i < 25; i++ {
				add()
			}
		}
		for commitBytes(keys, vals, sp.secure) < sp.target-150 {
			add()
		}
		for d := 0; d < 4 && commitBytes(keys, vals, sp.secure) != sp.target; d++ {
			diff := sp.target - commitBytes(keys, vals, sp.secure)
			i := len(vals) - 1
			if n := len(vals[i]) + diff; n >= 56 && n <= 180 {
				vals[i] = rbytes(g, n)
			} else {
				add()
			}
		}
	}
	first := commitBytes(keys, vals, sp.secure)
	g.Count(fmt.Sprintf("large:%s:first-commit-KiB:%d", sp.name, first/1024))
	// noshadow: the shadow executors (classification of buffer sharing) are skipped for the large cases; scribbling stays on
	ops := []string{hx.CaseOp("noshadow"), "new kind=" + kind}
	if sp.mode == "cap" {
		ops[0] = hx.CaseOp("cap", "noshadow")
	}
	put := func(i int) { ops = append(ops, fmt.Sprintf("put k=%s v=%s", hx.Hex(keys[i]), hx.Hex(vals[i]))) }
	readAll := func(upto int) {
		for i := 0; i < upto; i++ {
			ops = append(ops, "get k="+hx.Hex(keys[i]))
		}
		ops = append(ops, "hash")
		for j := 0; j < 3; j++ {
			ops = append(ops, "prove k="+hx.Hex(keys[g.Rng.Intn(upto)]))
		}
		ops = append(ops, "prove k="+hx.Hex(rbytes(g, 32)))
		if sp.secure { // the preimages went through the same write batch as the nodes
			for j := 0; j < 12; j++ {
				ops = append(ops, "getkey k="+hx.Hex(keys[g.Rng.Intn(upto)]))
			}
		}
	}
	for i := range keys {
		put(i)
	}
	n1 := len(keys)
	switch sp.mode {
	case "lockprobe":
		ops = append(ops, "lockprobe")
		g.Case(fmt.Sprintf("large %s kind=%s keys=%d mode=%s", sp.name, kind, len(keys), sp.mode), ops, true)
		return
	case "diskfail":
		// several batch writes in one Database.Commit, each failing in turn
		ops = append(ops, "diskfail what=commit")
	case "cap":
		// commit into the node database, let Cap flush everything to disk through ITS batch loop, then reopen from disk
		ops = append(ops, "commit", "cap limit=0", "reopen mode=disk")
	case "gc":
		// two referenced roots, the older one dereferenced, then the surviving root goes to disk
		ops = append(ops, "commit")
		for i := 0; i < 50; i++ {
			ops = append(ops, fmt.Sprintf("put k=%s v=%s", hx.Hex(keys[i]), hx.Hex(rbytes(g, 64))))
			vals[i] = hx.UnHex(ops[len(ops)-1][len(ops[len(ops)-1])-128:])
		}
		ops = append(ops, "commit", "gc", "reopen mode=disk")
	default:
		ops = append(ops, "commit", "reopen mode=disk")
	}
	readAll(n1)
	if sp.second > 0 {
		for i := 0; i < sp.second; i++ {
			add()
			put(len(keys) - 1)
		}
		// overwrite and delete a few committed keys too
		for i := 0; i < 20; i++ {
			vals[i] = rbytes(g, 64)
			put(i)
		}
		ops = append(ops, "commit", "reopen mode=disk")
		readAll(len(keys))
		ops = append(ops, "reopen mode=disk", "hash")
	}
	g.Case(fmt.Sprintf("large %s kind=%s keys=%d first-commit-bytes=%d mode=%s", sp.name, kind, len(keys), first, sp.mode), ops, true)
}

// capCases: Database.Cap over the MemDB disk lost every node it flushed on the pinned tree (Cap passes `oldest[:]`, a slice of
// a loop variable it then overwrites, to dbm.memBatch.Set, which kept the caller's slice); repaired by "fix: memBatch.Set
// copies the key" (known_findings.json, fixed entry cap-membatch-key-aliasing), so the cases run.
const capCases = true

// lockProbeCases: on the unchanged tree Database.Commit returns with db.lock.RLock still held when the batch write of the
// preimage loop fails (finding proposed in /verif/proposed/C10-commit-error-leaks-read-lock.md, monitor class
// commit-error-leaks-read-lock).  The `lockprobe` op and its case are ready; switch on once recorded or repaired.
const lockProbeCases = true

func genLarge(g *hx.Gen) {
	T := dbm.IdealBatchSize // 100 KiB: Database.commit / Cap flush the write batch when it holds at least this much
	specs := []largeSpec{
		{name: "900x64", n: 900, second: 900, mode: "commit-reopen"},
		{name: "900x64-secure", secure: true, n: 900, mode: "commit-reopen"},
		// > 100 KiB of preimages in one Database.Commit: the preimage loop flushes the write batch too (3600 x 32 bytes)
		{name: "3600-secure-preimages", secure: true, n: 3600, mode: "commit-reopen"},
		{name: "below-threshold", target: T - 1, mode: "commit-reopen"},
		{name: "at-threshold", target: T, second: 300, mode: "commit-reopen"},
		{name: "above-threshold", target: T + 1, mode: "commit-reopen"},
		{name: "three-flushes", n: 2600, mode: "commit-reopen"},
		{name: "cap-flush", n: 1100, mode: "cap"},
		{name: "write-failures", n: 2100, mode: "diskfail"},
		{name: "preimage-flush-fails", secure: true, n: 3600, mode: "lockprobe"},
		{name: "gc-then-commit", n: 1000, mode: "gc"},
	}
	if g.Thorough() {
		for i := 0; i < 6; i++ {
			specs = append(specs,
				largeSpec{name: "sweep", secure: i%2 == 1, target: T + (i-3)*700, second: 200 * (i % 3), mode: "commit-reopen"},
				largeSpec{name: "multi", secure: i%2 == 0, n: 1500 + 700*i, second: 1200, mode: "commit-reopen"},
				largeSpec{name: "cap", n: 900 + 300*i, mode: "cap"},
				largeSpec{name: "gc", n: 900 + 200*i, mode: "gc"})
		}
	}
	for _, sp := range specs {
		if (sp.mode == "cap" && !capCases) || (sp.mode == "lockprobe" && !lockProbeCases) {
			continue
		}
		genLargeCase(g, sp)
	}
}

func (P) Generate(g *hx.Gen) {
	genRaw(g)
	genLarge(g)
	genWide(g)
	// corpus: the in-tree TestInsert / TestDelete vectors and the prefix-key iteration order witness
	g.Case("corpus insert doe/dog/dogglesworth", []string{"case", "new kind=plain",
		"put k=646f65 v=72656e64656572", "put k=646f67 v=7075707079", "put k=646f67676c6573776f727468 v=636174", "hash",
		"new kind=plain", "put k=41 v=" + hx.Hex([]byte("aaaaaaaaaaaaaaaaaaaaaaaaaaaaaaaaaaaaaaaaaaaaaaaaaaaaaaaaaaaaaaaaaaaaaaaaaaaa")), "hash", "commit"}, false)
	g.Case("corpus prefix keys iteration order", []string{"case", "new kind=plain", "put k=646f v=76657262", "put k=646f67 v=7075707079", "iter"}, false)
	g.Case("corpus empty trie proof", []string{"case", "new kind=plain", "hash", "prove k=78", "tamper k=78 node=0 mode=xor pos=0 x=1"}, false)

	nA := g.Pick(1200, 20000)
	for c := 0; c < nA; c++ {
		kind := "plain"
		if c%3 == 2 {
			kind = "secure"
		}
		keys, uk := universe(g)
		h := &hist{g: g, content: map[string][]byte{}}
		h.ops = []string{"case", fmt.Sprintf("new kind=%s cl=%d", kind, g.Rng.Intn(3))}
		h.randomOps(keys, 10+g.Rng.Intn(g.Pick(50, 70)))
		h.ops = append(h.ops, "hash", "iter")
		h.roots++
		// proofs for every key of the final content and one absent key, some tampered
		final := copyContent(h.content)
		np := 0
		for _, k := range keys {
			if np >= 4 {
				break
			}
			if _, ok := final[string(k)]; ok || g.Rng.Intn(4) == 0 {
				h.ops = append(h.ops, "prove k="+hx.Hex(k))
				h.tamper(k)
				np++
			}
		}
		maxLen, changed := h.maxLen, h.changed
		for p := 0; p < g.Pick(2, 6); p++ {
			h.rebuild(kind, keys, final)
		}
		g.Count("universe:" + uk)
		g.Count("kind:" + kind)
		g.Count(fmt.Sprintf("final-size:%d", (len(final)+4)/5*5))
		g.Case(fmt.Sprintf("history kind=%s universe=%s keys=%d final=%d", kind, uk, len(keys), len(final)), h.ops, maxLen >= 3 && changed >= 1 && h.roots >= 2)
	}

	// all permutations of small contents (thorough: up to 6 keys; quick: 4 keys)
	nP := g.Pick(10, 60)
	for c := 0; c < nP; c++ {
		keys, uk := universe(g)
		n := g.Pick(4, 6)
		if len(keys) < n {
			n = len(keys)
		}
		keys = keys[:n]
		vals := make([][]byte, n)
		for i := range vals {
			for len(vals[i]) == 0 {
				vals[i], _ = genValue(g)
			}
		}
		ops := []string{"case"}
		perm := make([]int, n)
		for i := range perm {
			perm[i] = i
		}
		var rec func(k int)
		rec = func(k int) {
			if k == n {
				ops = append(ops, "new kind=plain")
				for _, i := range perm {
					ops = append(ops, fmt.Sprintf("put k=%s v=%s", hx.Hex(keys[i]), hx.Hex(vals[i])))
				}
				ops = append(ops, "hash")
				return
			}
			for i := k; i < n; i++ {
				perm[k], perm[i] = perm[i], perm[k]
				rec(k + 1)
				perm[k], perm[i] = perm[i], perm[k]
			}
		}
		rec(0)
		g.Count("allperms:" + uk)
		g.Case(fmt.Sprintf("all permutations n=%d universe=%s", n, uk), ops, n >= 3)
	}

	// edge stream: degenerate API use
	edge := [][]string{
		{"case", "new kind=plain", "get k=-", "del k=-", "del k=00", "hash", "iter", "prove k=-", "commit", "reopen mode=disk", "hash", "put k=- v=-", "hash"},
		{"case", "new kind=plain", "put k=- v=00", "hash", "iter", "prove k=-", "prove k=00", "tamper k=- node=0 mode=set pos=1 x=128", "del k=-", "hash"},
		{"case", "new kind=plain", "put k=00 v=7f", "put k=00 v=80", "hash", "put k=0000 v=01", "hash", "del k=00", "hash", "del k=0000", "hash"},
		{"case", "new kind=secure", "put k=- v=01", "get k=-", "hash", "prove k=-", "iter", "reopen mode=disk", "get k=-", "del k=-", "hash"},
		{"case", "new kind=plain", "put k=" + hx.Hex(make([]byte, 100)) + " v=" + hx.Hex(make([]byte, 300)), "hash", "prove k=" + hx.Hex(make([]byte, 100)), "put k=" + hx.Hex(make([]byte, 99)) + " v=" + hx.Hex(make([]byte, 70000)), "hash", "commit", "iter"},
	}
	for i, ops := range edge {
		g.Case(fmt.Sprintf("edge %d", i), ops, false)
	}
	for c := 0; c < g.Pick(20, 300); c++ {
		// single- and two-entry tries: every op on them
		k1, k2 := rbytes(g, g.Rng.Intn(4)), rbytes(g, g.Rng.Intn(4))
		v1, _ := genValue(g)
		v2, _ := genValue(g)
		kind := []string{"plain", "secure"}[g.Rng.Intn(2)]
		ops := []string{"case", "new kind=" + kind,
			fmt.Sprintf("put k=%s v=%s", hx.Hex(k1), hx.Hex(v1)), "hash", "prove k=" + hx.Hex(k1), "prove k=" + hx.Hex(k2),
			fmt.Sprintf("tamper k=%s node=0 mode=set pos=%d x=128", hx.Hex(k1), g.Rng.Intn(4)),
			fmt.Sprintf("put k=%s v=%s", hx.Hex(k2), hx.Hex(v2)), "hash", "iter", "prove k=" + hx.Hex(k2), "del k=" + hx.Hex(k1), "hash", "reopen mode=disk", "del k=" + hx.Hex(k2), "hash", "iter"}
		g.Case("edge small "+kind, ops, false)
	}
}
