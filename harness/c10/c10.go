// Package c10: correspondence + monitors for the Merkle-Patricia trie (libs/trie): canonical root,
// get-after-write, iteration, proofs — against the real trie.Trie / trie.SecureTrie / trie.Database.
package c10

import (
	"bytes"
	"fmt"
	"sort"
	"strconv"
	"strings"
	"sync"

	"github.com/lianxiangcloud/linkchain/libs/common"
	"github.com/lianxiangcloud/linkchain/libs/crypto"
	dbm "github.com/lianxiangcloud/linkchain/libs/db"
	"github.com/lianxiangcloud/linkchain/libs/log"
	"github.com/lianxiangcloud/linkchain/libs/trie"

	"lvharness/hx"
)

type P struct{}

func (P) Rule() string {
	return "cases: histories of put/del/get/hash/commit/reopen(mem|disk, new trie.Database)/cachelimit/iter/prove/tamper on plain and secure tries over a per-case key universe " +
		"(prefix chains incl. the empty key, long shared prefixes, nibble-divergent keys, random 32-byte keys; values of 1 byte </>= 0x80, around the 32-byte embedding boundary, >55 bytes, empty = delete), " +
		"each followed by the same final content rebuilt through shuffled histories with insert/delete noise (permutation check); plus an edge stream (empty trie, absent keys, single-entry tries, 300-byte values, 100-byte keys). " +
		"non-trivial = the content reached at least 3 keys, at least one present key was deleted or overwritten, and at least one root was compared; distinct = distinct op sequence"
}

// ---- executor ------------------------------------------------------------------------------

type anyTrie interface {
	TryGet(key []byte) ([]byte, error)
	TryUpdate(key, value []byte) error
	TryDelete(key []byte) error
	Hash() common.Hash
	NodeIterator(start []byte) trie.NodeIterator
	Prove(key []byte, fromLevel uint, proofDb dbm.Putter) error
}

type exec struct {
	disk   *dbm.MemDB
	tdb    *trie.Database
	plain  *trie.Trie
	sec    *trie.SecureTrie
	secure bool
	dead   bool
	climit uint16
	baseRoot common.Hash // root of the snapshot (kept referenced: `gc` never drops it)
	base   anyTrie       // `snap`: the trie the difference / union iterators compare the live trie with
	scribbleIn, scribbleOut bool // overwrite what was handed in / what was returned
	shadowA, shadowB        *exec // the answering executor only: no scribbling / scribbling of inputs only
	noShadow                bool  // case tag noshadow (large cases): no shadow runs, scribbling stays on
	ins                     [][]byte
	blobsDB                 *trie.Database
	blobs                   map[common.Hash][]byte // InsertBlob'ed blobs of the current node database (private copies)
	failAt, commits int  // write-failure injection: the failAt-th batch write since arming fails (0: never)
	roots  []common.Hash // roots committed into the current trie.Database and still referenced (commit op), oldest first
}

var quiet sync.Once

// the repo's root logger writes to stdout (trie.Database.Commit logs at debug level); the replay protocol owns stdout
func (P) NewExec() hx.Executor {
	quiet.Do(func() { log.Root().SetHandler(log.DiscardHandler()) })
	return &exec{dead: true, scribbleIn: true, scribbleOut: true,
		shadowA: &exec{dead: true}, shadowB: &exec{dead: true, scribbleIn: true}}
}

func (e *exec) t() anyTrie {
	if e.secure {
		return e.sec
	}
	return e.plain
}

func (e *exec) open(root common.Hash) error {
	if e.secure {
		t, err := trie.NewSecure(root, e.tdb, e.climit)
		if err != nil {
			return err
		}
		e.sec = t
		return nil
	}
	t, err := trie.New(root, e.tdb)
	if err != nil {
		return err
	}
	t.SetCacheLimit(e.climit)
	e.plain = t
	return nil
}

func (e *exec) commit() (common.Hash, error) {
	if e.secure {
		return e.sec.Commit(nil, 0)
	}
	return e.plain.Commit(nil)
}

// the key the underlying trie sees
func (e *exec) tkey(k []byte) []byte {
	if e.secure {
		return crypto.Keccak256(k)
	}
	return k
}

type recorder struct {
	nodes [][]byte
	e     *exec
}

func (r *recorder) Put(key, value []byte) error {
	r.nodes = append(r.nodes, append([]byte{}, value...))
	// NOT scribbled: Prove hands its proof elements to a dbm.Putter, whose sibling interface documents
	// "CONTRACT: key, value readonly []byte" (libs/db/types.go): the key is the node's cached hash itself
	return nil
}

func contentDB(nodes [][]byte) *dbm.MemDB {
	db := dbm.NewMemDB()
	for _, n := range nodes {
		db.Put(crypto.Keccak256(n), n)
	}
	return db
}

func hashHex(b []byte) string { return hx.Hex(crypto.Keccak256(b)) }

func hexList(xs [][]byte) string {
	if len(xs) == 0 {
		return "-"
	}
	ss := make([]string, len(xs))
	for i, x := range xs {
		ss[i] = hx.Hex(x)
	}
	return strings.Join(ss, ",")
}

func argHex(toks []string, k string) []byte {
	v, _ := hx.Arg(toks, k)
	return hx.UnHex(v)
}

func argInt(toks []string, k string) int {
	v, _ := hx.Arg(toks, k)
	n, _ := strconv.Atoi(v)
	return n
}

// Exec runs one op.  The executor that answers SCRIBBLES: as soon as the op is done it overwrites with 0xEE every byte
// slice it handed to the trie API (keys, seek starts, hashed keys, proof node lists, blobs — not the values of Update, which
// the API documents as "must not be modified by the caller while they are stored in the trie") and every slice the API
// returned that is not documented as internal (iterator keys, leaf keys, proof nodes, GetKey results — not values, paths).
// Two shadow executors run the same ops on their own tries, one scribbling nothing, one scribbling only what it handed in:
// an answer that depends on scribbling names the op and the direction.
func (e *exec) Exec(op string) string {
	if e.shadowA == nil || e.noShadow || strings.HasPrefix(op, "case") {
		if e.shadowA != nil && strings.HasPrefix(op, "case") {
			e.noShadow = hx.TagsOf([]string{op})["noshadow"]
			hx.SafeExec(shadowExec{e.shadowA}, op)
			hx.SafeExec(shadowExec{e.shadowB}, op)
		}
		return e.execScribbling(op)
	}
	a := hx.SafeExec(shadowExec{e.shadowA}, op)
	b := hx.SafeExec(shadowExec{e.shadowB}, op)
	ans := e.execScribbling(op)
	if ans != a && !strings.HasPrefix(a, "panic") {
		name := hx.Tokens(op)[0]
		if b != a {
			return ans + " !keeps-caller-buffer:" + name
		}
		return ans + " !exposes-internal-buffer:" + name
	}
	return ans
}

type shadowExec struct{ e *exec }

func (s shadowExec) Exec(op string) string { return s.e.execScribbling(op) }

func fillEE(b []byte) {
	for i := range b {
		b[i] = 0xEE
	}
}

// in registers a byte slice that is handed to the trie API
func (e *exec) in(b []byte) []byte {
	if e.scribbleIn {
		e.ins = append(e.ins, b)
	}
	return b
}

// out scribbles a byte slice the API returned, after the caller has recorded it
func (e *exec) out(b []byte) {
	if e.scribbleOut {
		fillEE(b)
	}
}

func (e *exec) execScribbling(op string) string {
	defer func() {
		for _, b := range e.ins {
			fillEE(b)
		}
		e.ins = nil
	}()
	return e.exec1(op)
}

func (e *exec) reset(n exec) {
	n.scribbleIn, n.scribbleOut, n.shadowA, n.shadowB, n.noShadow = e.scribbleIn, e.scribbleOut, e.shadowA, e.shadowB, e.noShadow
	*e = n
}

func (e *exec) exec1(op string) string {
	toks := hx.Tokens(op)
	switch toks[0] {
	case "case":
		e.reset(exec{dead: false})
		e.disk = dbm.NewMemDB()
		e.tdb = trie.NewDatabase(e.fdb())
		e.open(common.EmptyHash)
		return "ok"
	case "new":
		kind, _ := hx.Arg(toks, "kind")
		e.reset(exec{secure: kind == "secure", climit: uint16(argInt(toks, "cl"))})
		e.disk = dbm.NewMemDB()
		e.tdb = trie.NewDatabase(e.fdb())
		e.open(common.EmptyHash)
		return "ok"
	}
	if toks[0] == "rawverify" {
		// stateless: VerifyProof against the hash of the first node over a content-addressed database of arbitrary bytes
		var nodes [][]byte
		ns, _ := hx.Arg(toks, "nodes")
		for _, n := range hx.SplitComma(ns) {
			nodes = append(nodes, e.in(hx.UnHex(n)))
		}
		root := common.HexToHash("56e81f171bcc55a6ff8345e692c0f86e5b48e01b996cadc001622fb5e363b421")
		if len(nodes) > 0 {
			root = common.BytesToHash(crypto.Keccak256(nodes[0]))
		}
		v, _, err := trie.VerifyProof(root, e.in(argHex(toks, "k")), contentDB(nodes))
		switch {
		case err != nil:
			return "res=err"
		case v == nil:
			return "res=absent"
		default:
			return "res=value v=" + hx.Hex(v)
		}
	}
	if e.dead {
		return "dead"
	}
	e.dead = true // stays dead if the op panics
	var ans string
	switch toks[0] {
	case "put":
		if w, _ := hx.Arg(toks, "w"); w == "1" {
			// the logging wrappers Update / Delete / Get / Root of the package API
			if e.secure {
				e.sec.Update(e.in(argHex(toks, "k")), argHex(toks, "v"))
			} else {
				e.plain.Update(e.in(argHex(toks, "k")), argHex(toks, "v"))
			}
			ans = "ok"
		} else if err := e.t().TryUpdate(e.in(argHex(toks, "k")), argHex(toks, "v")); err != nil {
			ans = "err-missing-node"
		} else {
			ans = "ok"
		}
	case "del":
		if w, _ := hx.Arg(toks, "w"); w == "1" {
			if e.secure {
				e.sec.Delete(e.in(argHex(toks, "k")))
			} else {
				e.plain.Delete(e.in(argHex(toks, "k")))
			}
			ans = "ok"
		} else if err := e.t().TryDelete(e.in(argHex(toks, "k"))); err != nil {
			ans = "err-missing-node"
		} else {
			ans = "ok"
		}
	case "get":
		if w, _ := hx.Arg(toks, "w"); w == "1" {
			var v []byte
			if e.secure {
				v = e.sec.Get(e.in(argHex(toks, "k")))
			} else {
				v = e.plain.Get(e.in(argHex(toks, "k")))
			}
			ans = "v=" + hx.Hex(v)
			break
		}
		v, err := e.t().TryGet(e.in(argHex(toks, "k")))
		if err != nil {
			ans = "err-missing-node"
		} else {
			ans = "v=" + hx.Hex(v)
		}
	case "hash":
		if w, _ := hx.Arg(toks, "w"); w == "1" {
			if e.secure {
				ans = "root=" + hx.Hex(e.sec.Root())
			} else {
				ans = "root=" + hx.Hex(e.plain.Root())
			}
			break
		}
		ans = "root=" + hx.Hex(e.t().Hash().Bytes())
	case "commit":
		leaves := 0
		var r common.Hash
		var err error
		if lf, _ := hx.Arg(toks, "leaf"); lf == "1" {
			// Commit with an onleaf callback (how the state layer links account -> storage tries)
			cb := func(leaf []byte, parent common.Hash) error { leaves++; return nil }
			if e.secure {
				r, err = e.sec.Commit(cb, 0)
			} else {
				r, err = e.plain.Commit(cb)
			}
			if err == nil {
				e.tdb.Reference(r, common.EmptyHash)
				e.roots = append(e.roots, r)
				ans = fmt.Sprintf("root=%s leaves=%d", hx.Hex(r.Bytes()), leaves)
				break
			}
		} else {
			r, err = e.commit()
		}
		if err != nil {
			ans = "err-commit"
		} else {
			// keep the committed root alive in the node database (what the state layer does after every block)
			e.tdb.Reference(r, common.EmptyHash)
			e.roots = append(e.roots, r)
			ans = "root=" + hx.Hex(r.Bytes())
		}
	case "cap":
		// Database.Cap: flush the oldest cached nodes to disk until the cache is below the limit (its own batch loop)
		if err := e.tdb.Cap(common.StorageSize(argInt(toks, "limit"))); err != nil {
			ans = "err-cap"
		} else {
			ans = "ok"
		}
	case "gc":
		// Database.Dereference of the oldest referenced root, unless it is also the newest one
		if len(e.roots) >= 2 && e.roots[0] != e.roots[len(e.roots)-1] && (e.base == nil || e.roots[0] != e.baseRoot) {
			old := e.roots[0]
			keep := false
			for _, r := range e.roots[1:] {
				keep = keep || r == old
			}
			e.roots = e.roots[1:]
			if !keep {
				e.tdb.Dereference(old)
			}
		}
		ans = "ok"
	case "reopen":
		r, err := e.commit()
		if err != nil {
			ans = "err-commit"
			break
		}
		if mode, _ := hx.Arg(toks, "mode"); mode == "disk" {
			if err := e.tdb.Commit(r, false); err != nil {
				ans = "err-dbcommit"
				break
			}
			e.tdb = trie.NewDatabase(e.fdb())
			e.roots = nil
		}
		if _, ok := hx.Arg(toks, "cl"); ok {
			e.climit = uint16(argInt(toks, "cl"))
		}
		if err := e.open(r); err != nil {
			ans = "err-missing-node"
			break
		}
		ans = "root=" + hx.Hex(e.t().Hash().Bytes())
	case "cachelimit":
		e.climit = uint16(argInt(toks, "n"))
		if !e.secure {
			e.plain.SetCacheLimit(e.climit)
		}
		ans = "ok"
	case "iter":
		it := trie.NewIterator(e.t().NodeIterator(nil))
		var items []string
		for it.Next() {
			items = append(items, hx.Hex(it.Key)+":"+hx.Hex(it.Value))
			e.out(it.Key)
		}
		if it.Err != nil {
			ans = "err-iter"
			break
		}
		kv := "-"
		if len(items) > 0 {
			kv = strings.Join(items, ",")
		}
		ans = fmt.Sprintf("n=%d kv=%s", len(items), kv)
	case "prove":
		key := e.in(e.tkey(e.in(argHex(toks, "k"))))
		root := e.t().Hash()
		rec := &recorder{e: e}
		if err := e.t().Prove(key, uint(argInt(toks, "from")), rec); err != nil {
			ans = "err-prove"
			break
		}
		v, _, err := trie.VerifyProof(root, key, contentDB(rec.nodes))
		switch {
		case err != nil:
			ans = fmt.Sprintf("nodes=%s res=err v=-", hexList(rec.nodes))
		case v == nil:
			ans = fmt.Sprintf("nodes=%s res=absent v=-", hexList(rec.nodes))
		default:
			ans = fmt.Sprintf("nodes=%s res=ok v=%s", hexList(rec.nodes), hx.Hex(v))
		}
	case "tamper":
		// TestBadProof convention: one proof node altered and re-inserted under the hash of the altered bytes
		key := e.in(e.tkey(e.in(argHex(toks, "k"))))
		root := e.t().Hash()
		rec := &recorder{e: e}
		if err := e.t().Prove(key, 0, rec); err != nil {
			ans = "err-prove"
			break
		}
		if len(rec.nodes) == 0 {
			ans = "res=none"
			break
		}
		honest, _, herr := trie.VerifyProof(root, key, contentDB(rec.nodes))
		i := argInt(toks, "node") % len(rec.nodes)
		n := rec.nodes[i]
		switch mode, _ := hx.Arg(toks, "mode"); mode {
		case "drop":
			rec.nodes = append(rec.nodes[:i:i], rec.nodes[i+1:]...)
		case "trunc":
			rec.nodes[i] = n[:argInt(toks, "pos")%len(n)]
		case "set":
			j := argInt(toks, "pos") % len(n)
			x := byte(argInt(toks, "x"))
			if n[j] == x {
				x ^= 1
			}
			n[j] = x
		default: // xor
			j := argInt(toks, "pos") % len(n)
			x := byte(argInt(toks, "x"))
			if x == 0 {
				x = 1
			}
			n[j] ^= x
		}
		v, _, err := trie.VerifyProof(root, key, contentDB(rec.nodes))
		switch {
		case err != nil:
			ans = "res=err"
		case herr == nil && bytes.Equal(v, honest):
			ans = "res=same"
		default:
			ans = "res=diff v=" + hx.Hex(v)
		}
	default:
		if a, ok := e.exec2(toks); ok {
			ans = a
		} else {
			ans = "bad-op"
		}
	}
	e.dead = false
	return ans
}

// ---- monitors ------------------------------------------------------------------------------

func contentKey(secure bool, m map[string]string) string {
	ks := make([]string, 0, len(m))
	for k := range m {
		ks = append(ks, k)
	}
	sort.Strings(ks)
	var sb strings.Builder
	fmt.Fprintf(&sb, "secure=%v;", secure)
	for _, k := range ks {
		sb.WriteString(k + "=" + m[k] + ";")
	}
	return sb.String()
}

func nibbles(b []byte) []byte {
	out := make([]byte, 0, 2*len(b))
	for _, x := range b {
		out = append(out, x>>4, x&15)
	}
	return out
}

// hex-path order of the trie: nibbles, with the terminator greater than every nibble
func hexPathLess(a, b []byte) bool {
	for i := 0; i < len(a) && i < len(b); i++ {
		if a[i] != b[i] {
			return a[i] < b[i]
		}
	}
	return len(a) > len(b) // the longer key (extension) comes first, its prefix last
}

// Monitor evaluates the property on the implementation's own answers against a reference map
// maintained from the op lines alone.
func (P) Monitor(c *hx.CaseRun) []hx.Failure {
	var fs []hx.Failure
	fail := func(mon, class, site, msg string) {
		for _, f := range fs {
			if f.Class == class {
				return
			}
		}
		fs = append(fs, hx.Failure{Monitor: mon, Class: class, Site: site, Msg: msg})
	}
	content := map[string]string{} // key hex -> value hex, as written through the API
	secure := false
	rootOf := map[string]string{}    // content -> root
	contentOf := map[string]string{} // root -> content
	tkey := func(khex string) []byte {
		k := hx.UnHex(khex)
		if secure {
			return crypto.Keccak256(k)
		}
		return k
	}
	base := map[string]string{}   // content at the last `snap`
	pcache := map[string]bool{}   // secure trie: preimages written since the last commit
	pstored := map[string]bool{}  // secure trie: preimages committed
	flush := func() {
		for k := range pcache {
			pstored[k] = true
		}
		pcache = map[string]bool{}
	}
	for i, op := range c.Ops {
		ans := c.Impl[i]
		toks := hx.Tokens(op)
		if j := strings.Index(ans, " !"); j >= 0 {
			// the answering executor scribbles over every buffer it handed to / got from the trie API; a shadow executor that does
			// not scribble answered differently: the trie kept a caller's buffer, or handed out one of its own
			fail("buffers_not_shared", "trie-"+ans[j+2:], "libs/trie", fmt.Sprintf("the answer depends on the caller overwriting its buffers after the call: %s -> %s (op %d)", op, ans, i))
			ans = ans[:j]
		}
		if strings.HasPrefix(ans, "panic") && toks[0] == "rawverify" {
			site := strings.TrimPrefix(ans, "panic ")
			fail("verifyproof_total", "verifyproof-panic:"+site, site, "VerifyProof panics on a malformed proof node (content-addressed database, root = hash of the first node): "+op)
			continue
		}
		if strings.HasPrefix(ans, "panic") {
			fail("no_panic", "panic:"+strings.TrimPrefix(ans, "panic "), strings.TrimPrefix(ans, "panic "), "panic on a well-formed API call: "+op)
			continue
		}
		if strings.HasPrefix(ans, "err-") && c.Tags["cap"] {
			fail("no_missing_node", "cap-flush-lost-nodes", "libs/trie/database.go:Cap", "nodes flushed by Database.Cap cannot be read back from the disk database: "+op+" -> "+ans)
			continue
		}
		if strings.HasPrefix(ans, "leafproof-bad") || strings.HasPrefix(ans, "iter-bad") {
			fail("leaf_proof_verifies", "leaf-proof-rejected", "libs/trie/iterator.go:LeafProof", "the proof of the leaf an iterator stands on does not verify against the root (or an accessor is inconsistent): "+op+" -> "+ans)
			continue
		}
		if toks[0] == "openmissing" {
			if ans != "err-missing-root" && ans != "dead" {
				fail("open_missing_root", "open-missing-root-accepted", "libs/trie/trie.go:New", "a trie was opened at a root hash the database does not hold: "+op+" -> "+ans)
			}
			continue
		}
		if strings.HasPrefix(ans, "err-") {
			fail("no_missing_node", ans, "libs/trie", "the trie lost a node it committed itself: "+op+" -> "+ans)
			continue
		}
		if ans == "dead" {
			continue
		}
		at := hx.Tokens(ans)
		switch toks[0] {
		case "case", "new":
			content = map[string]string{}
			base, pcache, pstored = map[string]string{}, map[string]bool{}, map[string]bool{}
			kind, _ := hx.Arg(toks, "kind")
			secure = kind == "secure"
		case "put":
			k, _ := hx.Arg(toks, "k")
			v, _ := hx.Arg(toks, "v")
			pcache[k] = true
			if v == "-" {
				delete(content, k)
			} else {
				content[k] = v
			}
		case "del":
			k, _ := hx.Arg(toks, "k")
			delete(content, k)
			delete(pcache, k)
		case "get":
			k, _ := hx.Arg(toks, "k")
			want, ok := content[k]
			if !ok {
				want = "-"
			}
			if got, _ := hx.Arg(at, "v"); got != want {
				fail("get_last_written", "get-after-write", "libs/trie/trie.go:TryGet", fmt.Sprintf("get %s = %s, last written %s (op %d)", k, got, want, i))
			}
		case "iterfrom", "diff", "union":
			if ans == "bad-op" {
				break // no snapshot taken (only in shrunk cases)
			}
			// ground truth from the op lines alone: the pairs that must be enumerated (as a set), then the order (path order)
			want := map[string]bool{}
			add := func(m map[string]string, keep func(k, v string) bool) {
				for k, v := range m {
					if keep(k, v) {
						want[hx.Hex(tkey(k))+":"+v] = true
					}
				}
			}
			switch toks[0] {
			case "iterfrom":
				st, _ := hx.Arg(toks, "start")
				start := nibbles(hx.UnHex(st))
				add(content, func(k, v string) bool {
					return bytes.Compare(append(nibbles(tkey(k)), 16), start) >= 0
				})
			case "diff":
				add(content, func(k, v string) bool { return base[k] != v })
			default:
				add(content, func(k, v string) bool { return true })
				add(base, func(k, v string) bool { return true })
			}
			s, _ := hx.Arg(at, "kv")
			got := hx.SplitComma(s)
			seen := map[string]bool{}
			okSet := len(got) == len(want)
			for _, g := range got {
				okSet = okSet && want[g] && !seen[g]
				seen[g] = true
			}
			if !okSet {
				fail("iter_family_content", toks[0]+"-content", "libs/trie/iterator.go", fmt.Sprintf("%s enumerates %d pairs, the content says %d (or a wrong / repeated pair) (op %d)", toks[0], len(got), len(want), i))
				break
			}
			for j := 1; j < len(got); j++ {
				a := hx.UnHex(strings.SplitN(got[j-1], ":", 2)[0])
				b := hx.UnHex(strings.SplitN(got[j], ":", 2)[0])
				if !bytes.Equal(a, b) && !hexPathLess(a, b) {
					fail("iter_family_order", toks[0]+"-order", "libs/trie/iterator.go", fmt.Sprintf("%s is not in path order (op %d)", toks[0], i))
					break
				}
			}
		case "nodeiter":
			lv, _ := hx.Arg(at, "leaves")
			pr, _ := hx.Arg(at, "proofs")
			if lv != fmt.Sprint(len(content)) {
				fail("iter_complete", "nodeiter-leaves", "libs/trie/iterator.go", fmt.Sprintf("the node iterator passes %s leaves, the content has %d keys (op %d)", lv, len(content), i))
			}
			if pr != lv+"/"+lv {
				fail("leaf_proof_verifies", "leaf-proof-rejected", "libs/trie/iterator.go:LeafProof", fmt.Sprintf("LeafProof of the current leaf does not verify against the root: %s (op %d)", pr, i))
			}
		case "getkey", "copywrite":
			k, _ := hx.Arg(toks, "k")
			field := "pre"
			if toks[0] == "copywrite" {
				field = "origpre"
				want, ok := content[k]
				if !ok {
					want = "-"
				}
				v, _ := hx.Arg(toks, "v")
				o, _ := hx.Arg(at, "orig")
				cp, _ := hx.Arg(at, "copy")
				ro, _ := hx.Arg(at, "rootorig")
				if o != want || cp != v {
					fail("copy_independent", "copy-not-independent", "libs/trie/secure_trie.go:Copy", fmt.Sprintf("write to a copy: original reads %s (content %s), copy reads %s (written %s) (op %d)", o, want, cp, v, i))
				}
				if prev, ok := rootOf[contentKey(secure, content)]; ok && prev != ro {
					fail("copy_independent", "copy-not-independent", "libs/trie/secure_trie.go:Copy", fmt.Sprintf("the original's root changed after a write to its copy (op %d)", i))
				}
			}
			if secure {
				got, _ := hx.Arg(at, field)
				if toks[0] == "copywrite" && got == k && !pcache[k] && !pstored[k] {
					fail("copy_independent", "copy-not-independent", "libs/trie/secure_trie.go:Copy", fmt.Sprintf("a key written to a copy only is known to the original's key cache: %s (op %d)", k, i))
				}
				if got != "nil" && got != k {
					fail("preimage_exact", "getkey-wrong-preimage", "libs/trie/secure_trie.go:GetKey", fmt.Sprintf("GetKey returns %s for the hash of %s (op %d)", got, k, i))
				}
				if got == "nil" && (pcache[k] || pstored[k]) && k != "-" {
					fail("preimage_kept", "getkey-lost-preimage", "libs/trie/secure_trie.go:GetKey", fmt.Sprintf("the preimage of a written key is not found: %s (op %d)", k, i))
				}
			}
		case "missing":
			flush()
			if b, _ := hx.Arg(at, "bad"); b != "0" {
				fail("missing_node_atomic", "missing-node-not-atomic", "libs/trie/trie.go", fmt.Sprintf("with one node blob missing from the disk database an operation did not (fail, leave the trie unchanged, succeed after the blob is back) or the iterator skipped: %s -> %s (op %d)", op, ans, i))
			}
			if n, _ := hx.Arg(at, "nodes"); n != "0" {
				if e, ok := hx.Arg(at, "errs"); ok && e == "0" {
					fail("missing_node_atomic", "missing-node-unnoticed", "libs/trie/trie.go", fmt.Sprintf("no removal of a node blob made the operation fail, not even the root's (op %d)", i))
				}
			}
		case "lockprobe":
			if strings.HasPrefix(ans, "lock=held") {
				fail("write_failure_keeps_db_usable", "commit-error-leaks-read-lock", "libs/trie/database.go:Commit", "Database.Commit returned an error with the read lock still held: the next writer blocks for ever: "+op+" -> "+ans)
			}
		case "diskfail":
			flush()
			if b, _ := hx.Arg(at, "bad"); b != "0" {
				fail("write_failure_loses_nothing", "write-failure-loses-nodes", "libs/trie/database.go:Commit", fmt.Sprintf("after a failed batch write in Database.Commit / Cap the committed trie is not completely readable (or the call never succeeds): %s -> %s (op %d)", op, ans, i))
			}
		case "dbstat":
			if ans != "integrity=ok" {
				fail("node_db_content_addressed", "node-db-integrity", "libs/trie/database.go", "the node database returned a blob that is not the preimage of its key, or lost a blob: "+ans)
			}
		case "snap":
			base = map[string]string{}
			for k, v := range content {
				base[k] = v
			}
			flush()
			fallthrough
		case "hash", "commit", "reopen":
			if toks[0] != "hash" {
				flush()
			}
			r, _ := hx.Arg(at, "root")
			ck := contentKey(secure, content)
			if prev, ok := rootOf[ck]; ok && prev != r {
				fail("root_canonical", "root-not-canonical", "libs/trie/trie.go:Hash", fmt.Sprintf("same content, different roots %s vs %s (op %d)", prev, r, i))
			}
			rootOf[ck] = r
			if prev, ok := contentOf[r]; ok && prev != ck {
				fail("root_binding", "root-collision", "libs/trie/hasher.go", fmt.Sprintf("different contents, same root %s (op %d)", r, i))
			}
			contentOf[r] = ck
		case "iter":
			type kv struct{ k, v []byte }
			var want []kv
			for k, v := range content {
				want = append(want, kv{tkey(k), hx.UnHex(v)})
			}
			sort.Slice(want, func(a, b int) bool { return bytes.Compare(want[a].k, want[b].k) < 0 })
			var got []kv
			s, _ := hx.Arg(at, "kv")
			for _, it := range hx.SplitComma(s) {
				p := strings.SplitN(it, ":", 2)
				got = append(got, kv{hx.UnHex(p[0]), hx.UnHex(p[1])})
			}
			same := len(got) == len(want)
			for j := 0; same && j < len(got); j++ {
				same = bytes.Equal(got[j].k, want[j].k) && bytes.Equal(got[j].v, want[j].v)
			}
			if same {
				break
			}
			// same multiset?
			gs := append([]kv{}, got...)
			sort.SliceStable(gs, func(a, b int) bool { return bytes.Compare(gs[a].k, gs[b].k) < 0 })
			set := len(gs) == len(want)
			for j := 0; set && j < len(gs); j++ {
				set = bytes.Equal(gs[j].k, want[j].k) && bytes.Equal(gs[j].v, want[j].v)
			}
			if !set {
				fail("iter_complete", "iter-content", "libs/trie/iterator.go", fmt.Sprintf("iteration does not enumerate the content: got %d entries, want %d (op %d)", len(got), len(want), i))
				break
			}
			// right content, wrong order: is it exactly the hex-path order (a key that is a proper prefix of another comes after it)?
			hexOrder := sort.SliceIsSorted(got, func(a, b int) bool { return hexPathLess(got[a].k, got[b].k) })
			if hexOrder {
				fail("iter_key_order", "iter-order-prefix-keys", "libs/trie/iterator.go:nextChild", fmt.Sprintf("iteration is not in bytes.Compare order: a key that is a proper prefix of another key is enumerated after it (op %d)", i))
			} else {
				fail("iter_key_order", "iter-order", "libs/trie/iterator.go", fmt.Sprintf("iteration is neither in key order nor in path order (op %d)", i))
			}
		case "prove":
			if f, _ := hx.Arg(toks, "from"); f != "" && f != "0" {
				break // Prove(fromLevel > 0) leaves out the first proof elements on purpose: nothing to verify
			}
			k, _ := hx.Arg(toks, "k")
			want, ok := content[k]
			if !ok {
				want = "-"
			}
			res, _ := hx.Arg(at, "res")
			v, _ := hx.Arg(at, "v")
			if res == "absent" {
				if ok {
					fail("proof_sound", "honest-proof-wrong-claim", "libs/trie/proof.go:VerifyProof", fmt.Sprintf("proof for %s verifies to absence, content says %s (op %d)", k, want, i))
				}
			} else if res != "ok" {
				if len(content) == 0 {
					fail("honest_proof_verifies", "empty-trie-proof-unverifiable", "libs/trie/proof.go:Prove", "the empty trie yields an empty proof and VerifyProof(emptyRoot) reports a missing node: absence cannot be proven for the empty trie")
				} else {
					fail("honest_proof_verifies", "honest-proof-rejected", "libs/trie/proof.go:VerifyProof", fmt.Sprintf("the proof built by Prove does not verify (op %d)", i))
				}
			} else if v != want || !ok {
				fail("proof_sound", "honest-proof-wrong-claim", "libs/trie/proof.go:VerifyProof", fmt.Sprintf("proof for %s verifies to %s, content says %s (op %d)", k, v, want, i))
			}
		case "tamper":
			if res, _ := hx.Arg(at, "res"); res == "diff" {
				fail("tamper_detected", "tampered-proof-accepted", "libs/trie/proof.go:VerifyProof", fmt.Sprintf("a proof with one altered node verifies to a different claim: %s -> %s (op %d)", op, ans, i))
			}
		}
	}
	return fs
}
