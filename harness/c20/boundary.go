package c20

// Directed boundary sweeps (both tiers):
//   - creations whose init code RETURNs exactly MaxCodeSize, MaxCodeSize+1 and much more (top-level create mode and
//     CREATE/CREATE2 from a caller frame, with/without endowment, with/without storage writes before the RETURN,
//     with gas sufficient and insufficient for the code deposit);
//   - RETURNDATACOPY after calls that left return data, with (dataOffset, length) on every side of
//     offset+length == size, of 2^64 and of 2^256;
//   - the same treatment of the (offset, length) operands of SHA3/RETURN/REVERT/LOG/the *COPY ops/MLOAD/MSTORE and
//     of the in/out ranges of the call family (these go through different overflow helpers: calcMemSize, bigUint64,
//     getDataBig, Memory.Get/Set with int64/uint64 conversions).

import (
	"fmt"
	"math/big"

	"github.com/lianxiangcloud/linkchain/libs/common"
)

const maxCodeSize = 24576 // config.MaxCodeSize

func pow2(e uint) *big.Int              { return new(big.Int).Lsh(big.NewInt(1), e) }
func plus(x *big.Int, d int64) *big.Int { return new(big.Int).Add(x, big.NewInt(d)) }

// init code: [SSTORE(0,7); SSTORE(1,9); LOG0(0,0);] RETURN(0, n)
func returnNInit(n int, writes bool) []byte {
	a := &asm{}
	if writes {
		a.pushU(7).pushU(0).op(oSSTORE).pushU(9).pushU(1).op(oSSTORE).pushU(0).pushU(0).op(oLOG0)
	}
	a.pushU(uint64(n)).pushU(0).op(oRETURN)
	return a.b
}

// caller program: put ic into memory, CREATE/CREATE2 it with value, store the result flag, stop
func createCaller(ic []byte, op byte, value *big.Int) []byte {
	a := &asm{}
	a.pushBytes(append([]byte{}, ic...)).pushU(0).op(oMSTORE)
	if op == oCREATE2 {
		a.pushU(0x5a17)
	}
	a.pushU(uint64(len(ic))).pushU(uint64(32 - len(ic))).push(value).op(op)
	a.op(oPOP).pushU(1).pushU(2).op(oSSTORE, oSTOP) // a later step in the caller frame, so the observation fires
	return a.b
}

var oversizeLens = []int{maxCodeSize - 1, maxCodeSize, maxCodeSize + 1, maxCodeSize + 32, 0xffff}

func createBoundaryCases(add func(h string, sp ...*spec)) {
	for _, n := range oversizeLens {
		for _, writes := range []bool{false, true} {
			ic := returnNInit(n, writes)
			for _, val := range []*big.Int{big.NewInt(0), big10(18)} {
				// deposit for MaxCodeSize bytes is 4 915 200 gas: 10^7 pays it, 10^6 and 10^5 do not
				for _, g := range []uint64{10000000, 1000000, 100000} {
					add(fmt.Sprintf("directed create-size top n=%d writes=%v value=%s gas=%d", n, writes, val, g),
						&spec{mode: "create", code: ic, gas: g, value: new(big.Int).Set(val)})
				}
				for _, op := range []byte{oCREATE, oCREATE2} {
					for _, g := range []uint64{10000000, 1000000} {
						add(fmt.Sprintf("directed create-size inner %#x n=%d writes=%v value=%s gas=%d", op, n, writes, val, g),
							&spec{mode: "call", code: createCaller(ic, op, val), gas: g, value: new(big.Int)})
					}
				}
			}
		}
	}
}

// a call that leaves return data behind: 0 = aRet (32 bytes), 1 = identity precompile echoing 32 bytes, 2 = identity echoing 1 byte,
// 3 = STATICCALL to aRet
func leaveReturnData(a *asm, src int) int {
	switch src {
	case 1:
		a.pushU(0).pushU(0).pushU(32).pushU(0).pushU(0).pushA(common.BytesToAddress([]byte{4})).pushU(50000).op(oCALL, oPOP)
		return 32
	case 2:
		a.pushU(0).pushU(0).pushU(1).pushU(0).pushU(0).pushA(common.BytesToAddress([]byte{4})).pushU(50000).op(oCALL, oPOP)
		return 1
	case 3:
		a.pushU(0).pushU(0).pushU(0).pushU(0).pushA(aRet).pushU(50000).op(oSTATICCALL, oPOP)
		return 32
	}
	a.pushU(0).pushU(0).pushU(0).pushU(0).pushU(0).pushA(aRet).pushU(50000).op(oCALL, oPOP)
	return 32
}

type pair struct{ off, n *big.Int }

// (dataOffset, length) around offset+length == size, around 2^64 and around 2^256, for return data of `size` bytes
func dataPairs(size int) []pair {
	s := int64(size)
	b := func(x int64) *big.Int { return big.NewInt(x) }
	ps := []pair{
		{b(0), b(0)}, {b(0), b(s)}, {b(0), b(s + 1)}, {b(1), b(s - 1)}, {b(1), b(s)}, {b(s), b(0)}, {b(s), b(1)}, {b(s + 1), b(0)}, {b(s - 1), b(1)}, {b(s - 1), b(2)},
		{b(0), pow2(64)}, {b(0), plus(pow2(64), -1)}, {b(1), plus(pow2(64), -1)}, {b(0), pow2(63)}, {b(0), hugeWord}, {b(1), hugeWord},
		{hugeWord, b(0)}, {hugeWord, b(1)}, {hugeWord, b(2)}, {hugeWord, hugeWord}, {plus(pow2(64), -1), plus(pow2(64), -1)}, {pow2(255), pow2(255)},
		{pow2(63), b(0)}, {pow2(63), b(1)}, {plus(pow2(63), -1), b(1)}, {pow2(32), b(1)},
	}
	for _, o := range []*big.Int{plus(pow2(64), -1), pow2(64), plus(pow2(64), 1)} {
		for _, n := range []int64{0, 1, 2} {
			ps = append(ps, pair{o, b(n)})
		}
	}
	// every wrap of the low 64 bits that lands inside the data: offset = 2^64-k, length = k+j
	for _, k := range []int64{1, 2, s - 1, s, s + 1} {
		if k <= 0 {
			continue
		}
		for _, j := range []int64{0, 1, s, s + 1} {
			ps = append(ps, pair{plus(pow2(64), -k), b(k + j)})
		}
	}
	return ps
}

// (memory offset, length) around the limits the gas arithmetic and Memory.Get/Set guard
func memPairs() []pair {
	b := func(x int64) *big.Int { return big.NewInt(x) }
	var ps []pair
	offs := []*big.Int{b(0), b(31), new(big.Int).SetUint64(0xffffffffe0), new(big.Int).SetUint64(0xffffffffe1), plus(pow2(63), -1), pow2(63),
		plus(pow2(64), -1), pow2(64), plus(pow2(64), 1), hugeWord}
	for _, o := range offs {
		for _, n := range []int64{0, 1, 32} {
			ps = append(ps, pair{o, b(n)})
		}
	}
	for _, n := range []*big.Int{new(big.Int).SetUint64(0xffffffffe0), new(big.Int).SetUint64(0xffffffffe1), pow2(63), plus(pow2(64), -1), pow2(64), hugeWord} {
		for _, o := range []int64{0, 1} {
			ps = append(ps, pair{b(o), n})
		}
	}
	ps = append(ps, pair{plus(pow2(64), -1), plus(pow2(64), -1)}, pair{plus(pow2(64), -32), b(32)}, pair{plus(pow2(64), -32), b(64)}, pair{pow2(255), pow2(255)})
	return ps
}

func boundaryCases(add func(h string, sp ...*spec)) {
	z := func() *big.Int { return new(big.Int) }
	input := make([]byte, 40)
	for i := range input {
		input[i] = byte(i + 1)
	}
	run := func(a *asm, g uint64) *spec { return &spec{mode: "call", code: a.b, code2: []byte{0x60, 0x2a, 0x60, 0x00, 0x52, 0x60, 0x20, 0x60, 0x00, 0xf3}, input: input, gas: g, value: z()} }
	// RETURNDATACOPY(memOffset, dataOffset, length) after a call that left data
	for src := 0; src < 4; src++ {
		var group []*spec
		size := 32
		if src == 2 {
			size = 1
		}
		for _, p := range dataPairs(size) {
			a := &asm{}
			leaveReturnData(a, src)
			a.op(oRETURNDATASIZE, oPOP)
			a.push(p.n).push(p.off).pushU(0).op(oRETURNDATACOPY, oRETURNDATASIZE, oPOP, oSTOP)
			group = append(group, run(a, 300000))
		}
		// memory operand of RETURNDATACOPY with an in-range data window
		for _, p := range memPairs() {
			a := &asm{}
			leaveReturnData(a, src)
			a.push(p.n).pushU(0).push(p.off).op(oRETURNDATACOPY, oSTOP)
			group = append(group, run(a, 300000))
		}
		for i := 0; i < len(group); i += 8 {
			j := i + 8
			if j > len(group) {
				j = len(group)
			}
			add(fmt.Sprintf("directed returndatacopy-boundary src=%d #%d", src, i/8), group[i:j]...)
		}
	}
	// without any previous call (return data empty)
	{
		var group []*spec
		for _, p := range dataPairs(0) {
			a := &asm{}
			a.push(p.n).push(p.off).pushU(0).op(oRETURNDATACOPY, oSTOP)
			group = append(group, run(a, 100000))
		}
		add("directed returndatacopy-boundary empty", group...)
	}
	// (offset, length) operands of the memory-touching ops
	type mop struct {
		name string
		emit func(a *asm, p pair)
	}
	mops := []mop{
		{"sha3", func(a *asm, p pair) { a.push(p.n).push(p.off).op(oSHA3, oPOP) }},
		{"return", func(a *asm, p pair) { a.push(p.n).push(p.off).op(oRETURN) }},
		{"revert", func(a *asm, p pair) { a.push(p.n).push(p.off).op(oREVERT) }},
		{"log0", func(a *asm, p pair) { a.push(p.n).push(p.off).op(oLOG0) }},
		{"log2", func(a *asm, p pair) { a.pushU(1).pushU(2).push(p.n).push(p.off).op(oLOG0 + 2) }},
		{"calldatacopy-mem", func(a *asm, p pair) { a.push(p.n).pushU(0).push(p.off).op(oCALLDATACOPY) }},
		{"codecopy-mem", func(a *asm, p pair) { a.push(p.n).pushU(0).push(p.off).op(oCODECOPY) }},
		{"extcodecopy-mem", func(a *asm, p pair) { a.push(p.n).pushU(0).push(p.off).pushA(aSecond).op(oEXTCODECOPY) }},
		{"calldatacopy-data", func(a *asm, p pair) { a.push(p.n).push(p.off).pushU(0).op(oCALLDATACOPY) }},
		{"codecopy-data", func(a *asm, p pair) { a.push(p.n).push(p.off).pushU(0).op(oCODECOPY) }},
		{"extcodecopy-data", func(a *asm, p pair) { a.push(p.n).push(p.off).pushU(0).pushA(aSecond).op(oEXTCODECOPY) }},
		{"create-range", func(a *asm, p pair) { a.push(p.n).push(p.off).pushU(0).op(oCREATE, oPOP) }},
		{"create2-range", func(a *asm, p pair) { a.pushU(1).push(p.n).push(p.off).pushU(0).op(oCREATE2, oPOP) }},
	}
	for _, op := range []byte{oCALL, oCALLCODE, oDELEGATECALL, oSTATICCALL} {
		op := op
		for _, tgt := range []common.Address{aRet, common.BytesToAddress([]byte{4})} {
			tgt := tgt
			emitCall := func(a *asm, in, out pair) {
				a.push(out.n).push(out.off).push(in.n).push(in.off)
				if op == oCALL || op == oCALLCODE {
					a.pushU(0)
				}
				a.pushA(tgt).pushU(50000).op(op, oPOP)
			}
			zero := pair{big.NewInt(0), big.NewInt(0)}
			mops = append(mops,
				mop{fmt.Sprintf("call%#x-in-%x", op, tgt[19:]), func(a *asm, p pair) { emitCall(a, p, zero) }},
				mop{fmt.Sprintf("call%#x-out-%x", op, tgt[19:]), func(a *asm, p pair) { emitCall(a, zero, p) }},
				mop{fmt.Sprintf("call%#x-inout-%x", op, tgt[19:]), func(a *asm, p pair) { emitCall(a, p, p) }})
		}
	}
	for _, m := range mops {
		ps := memPairs()
		if len(m.name) > 5 && m.name[len(m.name)-5:] == "-data" {
			ps = dataPairs(10) // code2 / the call data are short; the data offset is what is swept
		}
		var group []*spec
		for _, p := range ps {
			a := &asm{}
			m.emit(a, p)
			a.op(oMSIZE, oPOP, oSTOP)
			group = append(group, run(a, 300000))
		}
		for i := 0; i < len(group); i += 10 {
			j := i + 10
			if j > len(group) {
				j = len(group)
			}
			add(fmt.Sprintf("directed range-boundary %s #%d", m.name, i/10), group[i:j]...)
		}
	}
	// output area larger than the input area / beyond current memory (the two ranges of a call are sized separately)
	{
		ret64 := []byte{0x60, 0x2a, 0x60, 0x00, 0x52, 0x60, 0x40, 0x60, 0x00, 0xf3} // MSTORE(0,42); RETURN(0,64)
		type q struct{ inOff, inSize, retOff, retSize uint64 }
		qs := []q{{0, 0, 0, 1}, {0, 0, 0, 32}, {0, 0, 0, 64}, {0, 0, 64, 32}, {0, 0, 1000, 64}, {0, 1, 0, 32}, {0, 1, 31, 33}, {0, 32, 32, 64}, {0, 32, 4096, 64},
			{100, 4, 0, 64}, {2000, 64, 0, 96}, {0, 64, 64, 65}, {0, 0, 0xffff, 1}}
		for _, op := range []byte{oCALL, oCALLCODE, oDELEGATECALL, oSTATICCALL} {
			for _, tgt := range []common.Address{aSecond, common.BytesToAddress([]byte{4}), aRevert} {
				var group []*spec
				for _, x := range qs {
					for _, pre := range []bool{false, true} {
						a := &asm{}
						if pre {
							a.pushU(7).pushU(0).op(oMSTORE) // memory already 32 bytes
						}
						a.pushU(x.retSize).pushU(x.retOff).pushU(x.inSize).pushU(x.inOff)
						if op == oCALL || op == oCALLCODE {
							a.pushU(0)
						}
						a.pushA(tgt).pushU(50000).op(op, oPOP, oMSIZE, oPOP, oRETURNDATASIZE, oPOP, oSTOP)
						group = append(group, &spec{mode: "call", code: a.b, code2: ret64, input: input, gas: 300000, value: z()})
					}
				}
				add(fmt.Sprintf("directed call-out-larger-than-in %#x -> %x", op, tgt[18:]), group...)
			}
		}
	}
	// single-operand ops
	{
		var group []*spec
		for _, p := range memPairs() {
			if p.n.Sign() != 0 {
				continue
			}
			for _, o := range []byte{oMLOAD, oCALLDATALOAD} {
				a := &asm{}
				a.push(p.off).op(o, oPOP, oSTOP)
				group = append(group, run(a, 300000))
			}
			for _, o := range []byte{oMSTORE, oMSTORE8} {
				a := &asm{}
				a.pushU(0xab).push(p.off).op(o, oMSIZE, oPOP, oSTOP)
				group = append(group, run(a, 300000))
			}
		}
		for i := 0; i < len(group); i += 10 {
			j := i + 10
			if j > len(group) {
				j = len(group)
			}
			add(fmt.Sprintf("directed offset-boundary mload/mstore/calldataload #%d", i/10), group[i:j]...)
		}
	}
}
