// Package c20: trace validation + end-to-end monitors for contract execution (vm/evm through vm/runtime's
// environment): metered, atomic, deterministic, crash-free for arbitrary programs.
//
// One case = `case` + one or more `run …` ops, each followed by what the repository's own Tracer interface
// (CaptureState/CaptureFault) reported when the generator executed that run: `enter`, `s`, `fault`, `end` lines.
// On every (re)execution the implementation runs the program again (twice, fresh worlds) and answers `ok` to a
// trace line iff its current trace still has exactly that line; the Lean driver answers `ok` iff the line is a
// legal move of the metering skeleton over the jump table extracted from the source.  The monitors look at the
// implementation's own results of the re-execution, never at the op text.
package c20

import (
	"sync/atomic"
	"crypto/sha256"
	"encoding/hex"
	"fmt"
	"math/big"
	"runtime/debug"
	"sort"
	"strconv"
	"strings"
	"sync"
	"time"

	"github.com/lianxiangcloud/linkchain/libs/common"
	dbm "github.com/lianxiangcloud/linkchain/libs/db"
	"github.com/lianxiangcloud/linkchain/libs/log"
	"github.com/lianxiangcloud/linkchain/state"
	"github.com/lianxiangcloud/linkchain/types"
	"github.com/lianxiangcloud/linkchain/vm/evm"
	"github.com/lianxiangcloud/linkchain/vm/runtime"

	"lvharness/hx"
)

const simulateGas = uint64(1e10) // evm.staticCallSimulateGas (the extractor reads the real value for the model)

type P struct{ last *exec }

func New() *P { return &P{} }

func (*P) Rule() string {
	return "programs: random byte strings and grammar-directed programs (pushes of small/huge words, arithmetic, memory ops at small/huge offsets, " +
		"SSTORE/SLOAD/LOG, CALL/CALLCODE/DELEGATECALL/STATICCALL to self/helper/fresh/precompile/sender with value 0/1/1e18/too much and gas 0/2300/5e4/GAS/huge, " +
		"CREATE/CREATE2 of empty/stop/return/revert/invalid/recursive init code, SELFDESTRUCT, ISSUE/BALANCETOKEN/TRANSFERTOKEN/CALLTOKEN*, valid and invalid JUMP/JUMPI, " +
		"bounded and unbounded loops, self-recursion by CALL and by CREATE, REVERT/RETURN/STOP/INVALID, truncated PUSH) plus a directed corpus; gas from {0,1,20999,21000,21001,1e3..1e7,(5e7)}, " +
		"value from {0,1,1e18,more than the balance}, native or token transfer, call or create mode. every run is executed 3 times on fresh worlds. " +
		"non-trivial = at least 3 steps executed and (a sub-frame was entered or memory grew or the run did not end ok); distinct = distinct op sequence"
}

var quiet sync.Once

// ---- the world -------------------------------------------------------------------------------

func addr(s string) common.Address { return common.HexToAddress(s) }

var (
	aSender = addr("0x00000000000000000000000000000000000a11ce")
	aMain   = addr("0x000000000000000000000000000000000000c0de")
	aSecond = addr("0x000000000000000000000000000000000000c0d2")
	aFresh  = addr("0x000000000000000000000000000000000000f00d")
	aStop   = addr("0x0000000000000000000000000000000000001001")
	aRevert = addr("0x0000000000000000000000000000000000001002")
	aBad    = addr("0x0000000000000000000000000000000000001003")
	aWrBad  = addr("0x0000000000000000000000000000000000001004")
	aKill   = addr("0x0000000000000000000000000000000000001005")
	aLoop   = addr("0x0000000000000000000000000000000000001006")
	aWrite  = addr("0x0000000000000000000000000000000000001007")
	aRet    = addr("0x0000000000000000000000000000000000001008")
	aPlain  = addr("0x0000000000000000000000000000000000002001") // funded account without code
)

// helper contracts (fixed library)
var helperCode = map[common.Address][]byte{
	aStop:   {0x00},
	aRevert: {0x60, 0x01, 0x60, 0x00, 0x55, 0x60, 0x00, 0x60, 0x00, 0xfd},                                     // SSTORE(0,1); REVERT(0,0)
	aBad:    {0xfe},                                                                                           // INVALID
	aWrBad:  {0x60, 0x07, 0x60, 0x01, 0x55, 0x60, 0x00, 0x60, 0x00, 0xa0, 0xfe},                               // SSTORE(1,7); LOG0; INVALID
	aKill:   {0x73, 0, 0, 0, 0, 0, 0, 0, 0, 0, 0, 0, 0, 0, 0, 0, 0, 0, 0x0a, 0x11, 0xce, 0xff},                // SELFDESTRUCT(sender)
	aLoop:   {0x5b, 0x60, 0x00, 0x56},                                                                         // JUMPDEST; PUSH1 0; JUMP
	aWrite:  {0x60, 0x09, 0x60, 0x02, 0x55, 0x60, 0x01, 0x60, 0x00, 0xa0, 0x00},                               // SSTORE(2,9); LOG0(0,1); STOP
	aRet:    {0x60, 0x08, 0x60, 0x00, 0x52, 0x60, 0x20, 0x60, 0x00, 0xf3},                                     // MSTORE(0,8); RETURN(0,32)  (answers decimals() with 8)
}

func big10(e int) *big.Int { return new(big.Int).Exp(big.NewInt(10), big.NewInt(int64(e)), nil) }

type spec struct {
	mode   string // call | create
	code   []byte
	code2  []byte
	input  []byte
	gas    uint64
	value  *big.Int
	token  bool // transfer the token aSecond instead of the native coin
	maxLns int
	norec  bool // evm.Config.NoRecursion
	preimg bool // evm.Config.EnablePreimageRecording
	cancel int  // >0: the tracer calls EVM.Cancel() when it sees step number `cancel`
	fresh  bool // the call goes to an address that does not exist (aFresh) instead of aMain
}

func baseUniverse() []common.Address {
	u := []common.Address{aSender, aMain, aSecond, aFresh, aPlain, common.EmptyAddress, common.BytesToAddress([]byte("contract"))}
	hs := make([]common.Address, 0, len(helperCode))
	for a := range helperCode {
		hs = append(hs, a)
	}
	sort.Slice(hs, func(i, j int) bool { return hs[i].Hex() < hs[j].Hex() })
	u = append(u, hs...)
	for i := 1; i <= 8; i++ {
		u = append(u, common.BytesToAddress([]byte{byte(i)}))
	}
	return u
}

var (
	rootCache   = map[string]common.Hash{}
	rootCacheMu sync.Mutex
)

// the root of the world before the run (a function of mode, code and code2 only)
func rootOfWorld(sp *spec) common.Hash {
	k := sp.mode + "|" + string(sp.code) + "|" + string(sp.code2)
	rootCacheMu.Lock()
	defer rootCacheMu.Unlock()
	if h, ok := rootCache[k]; ok {
		return h
	}
	if len(rootCache) > 4000 {
		rootCache = map[string]common.Hash{}
	}
	h := buildWorld(sp).IntermediateRoot(false)
	rootCache[k] = h
	return h
}

func buildWorld(sp *spec) *state.StateDB {
	st, err := state.New(common.EmptyHash, state.NewDatabase(dbm.NewMemDB()))
	if err != nil {
		panic("harness: state.New: " + err.Error())
	}
	st.AddBalance(aSender, big10(24))
	st.SetTokenBalance(aSender, aSecond, big10(24))
	st.SetNonce(aSender, 5)
	st.AddBalance(aPlain, big10(18))
	hs := make([]common.Address, 0, len(helperCode))
	for a := range helperCode {
		hs = append(hs, a)
	}
	sort.Slice(hs, func(i, j int) bool { return hs[i].Hex() < hs[j].Hex() })
	for _, a := range hs {
		st.CreateAccount(a)
		st.SetCode(a, helperCode[a])
		st.SetNonce(a, 1)
	}
	if sp.mode != "create" && sp.mode != "rtcreate" {
		st.CreateAccount(aMain)
		st.SetCode(aMain, sp.code)
		st.SetNonce(aMain, 1)
		st.AddBalance(aMain, big10(21))
		st.SetTokenBalance(aMain, aSecond, big10(20))
		st.SetState(aMain, common.BigToHash(big.NewInt(3)), []byte{0x2a})
	}
	if sp.mode == "rtexec" {
		// runtime.Execute installs the code at its own fixed address before the call; that is set-up, not execution
		rt := common.BytesToAddress([]byte("contract"))
		st.CreateAccount(rt)
		st.SetCode(rt, sp.code)
	}
	if len(sp.code2) > 0 {
		st.CreateAccount(aSecond)
		st.SetCode(aSecond, sp.code2)
		st.SetNonce(aSecond, 1)
		st.AddBalance(aSecond, big10(18))
	}
	return st
}

// what a failing frame must not change, observed per address
func obsAddr(st *state.StateDB, a common.Address, maskNonce bool) string {
	var sb strings.Builder
	n := st.GetNonce(a)
	if maskNonce {
		n = 0
	}
	fmt.Fprintf(&sb, "%v/%v/%s/%d/%x/%v/%s/c%d", st.Exist(a), st.Empty(a), st.GetBalance(a), n, st.GetCodeHash(a), st.HasSuicided(a), st.GetTokenBalance(a, aSecond), st.GetCredits(a))
	tvs := st.GetTokenBalances(a)
	tv := make([]string, 0, len(tvs))
	for _, t := range tvs {
		tv = append(tv, fmt.Sprintf("%x=%s", t.TokenAddr, t.Value))
	}
	sort.Strings(tv)
	sb.WriteString("/" + strings.Join(tv, ","))
	for i := int64(0); i < 4; i++ {
		fmt.Fprintf(&sb, "/%x", st.GetState(a, common.BigToHash(big.NewInt(i))))
	}
	return sb.String()
}

// token keys whose value is zero: invisible to every getter, but part of the account's encoding (and so of the root)
func zeroTokenKeys(st *state.StateDB, u []common.Address) string {
	var out []string
	for _, a := range u {
		acc := st.GetAccount(a)
		if acc == nil {
			continue
		}
		for t, v := range acc.Tokens {
			if v == nil || v.Sign() == 0 {
				out = append(out, fmt.Sprintf("%x:%x", a, t))
			}
		}
	}
	sort.Strings(out)
	return strings.Join(out, ",")
}

func emptyObs(st *state.StateDB, a common.Address) bool {
	return !st.Exist(a) && st.GetBalance(a).Sign() == 0 && st.GetNonce(a) == 0 && len(st.GetCode(a)) == 0 && len(st.GetTokenBalances(a)) == 0
}

type obs struct {
	per    []string
	refund uint64
	logs   int
}

func observe(st *state.StateDB, u []common.Address, mask *common.Address) obs {
	o := obs{refund: st.GetRefund(), logs: len(st.Logs())}
	for _, a := range u {
		o.per = append(o.per, obsAddr(st, a, mask != nil && *mask == a))
	}
	return o
}

func (o obs) diff(p obs, u []common.Address) string {
	if o.refund != p.refund {
		return fmt.Sprintf("refund counter %d -> %d", o.refund, p.refund)
	}
	if o.logs != p.logs {
		return fmt.Sprintf("log count %d -> %d", o.logs, p.logs)
	}
	for i := range o.per {
		if i < len(p.per) && o.per[i] != p.per[i] {
			return fmt.Sprintf("account %x: %s -> %s", u[i], o.per[i], p.per[i])
		}
	}
	return ""
}

// ---- the tracer -------------------------------------------------------------------------------

// a chain of 100 headers for GetHashFn
type fakeChain struct{}

func (fakeChain) GetHeader(h uint64) *types.Header {
	if h > 99 {
		return nil
	}
	return &types.Header{Height: h, ParentHash: common.BytesToHash([]byte{byte(h), 0x77})}
}

type pend struct {
	c    *evm.Contract
	o    obs
	n    int
	mask *common.Address
	op   evm.OpCode
	pc   uint64
}

type tracer struct {
	st        *state.StateDB
	lines     []string
	maxLines  int
	trunc     bool
	frames    map[int]*evm.Contract
	pends     map[int]*pend
	universe  []common.Address
	steps     int
	subFrames int
	memGrew   bool
	maxGas    uint64 // largest entry gas of any frame
	maxGasAt  int
	simFrames int
	innerFail string
	work      uint64 // Σ cost of steps that do not enter a frame (gas really burnt by the interpreter)
	cancelAt  int
	cancelled bool
}

// census of executed opcodes over the whole process (what the generator really reached)
var opSeen [256]int64

func (t *tracer) emit(s string) {
	if len(t.lines) >= t.maxLines {
		t.trunc = true
		return
	}
	t.lines = append(t.lines, s)
}

func entersFrame(op evm.OpCode) bool {
	switch op {
	case evm.CALL, evm.CALLCODE, evm.DELEGATECALL, evm.STATICCALL, evm.CREATE, evm.CREATE2:
		return true
	}
	return false
}

func (t *tracer) CaptureStart(from common.Address, to common.Address, call bool, input []byte, gas uint64, value *big.Int) error {
	return nil
}
func (t *tracer) CaptureEnd(output []byte, gasUsed uint64, d time.Duration, err error) error {
	return nil
}

func (t *tracer) CaptureState(env *evm.EVM, pc uint64, op evm.OpCode, gas, cost uint64, memory *evm.Memory, stack *evm.Stack, contract *evm.Contract, depth int, err error) error {
	if t.frames[depth] != contract {
		t.frames[depth] = contract
		for d := range t.frames {
			if d > depth {
				delete(t.frames, d)
				delete(t.pends, d)
			}
		}
		delete(t.pends, depth)
		if depth > 1 {
			t.subFrames++
		}
		if gas > t.maxGas {
			t.maxGas, t.maxGasAt = gas, depth
		}
		if gas == simulateGas {
			t.simFrames++
		}
		known := false
		for _, a := range t.universe {
			if a == contract.Address() {
				known = true
			}
		}
		if !known && len(t.universe) < 64 {
			t.universe = append(t.universe, contract.Address())
		}
		t.emit(fmt.Sprintf("enter d=%d gas=%d code=%s", depth, gas, hx.Hex(contract.Code)))
	}
	t.steps++
	if err == nil {
		atomic.AddInt64(&opSeen[int(op)], 1)
	}
	if t.cancelAt > 0 && t.steps == t.cancelAt {
		env.Cancel()
		t.cancelled = true
	}
	if memory.Len() > 0 {
		t.memGrew = true
	}
	e := 0
	if err != nil {
		e = 1
	}
	t.emit(fmt.Sprintf("s d=%d pc=%d op=%d gas=%d cost=%d st=%d mem=%d err=%d", depth, pc, int(op), gas, cost, len(stack.Data()), memory.Len(), e))
	// inner-frame atomicity: a call/create op that reports failure (0 on the stack) must have left the world as it was
	if p := t.pends[depth]; p != nil && p.c == contract {
		delete(t.pends, depth)
		d := stack.Data()
		if len(d) > 0 && d[len(d)-1].Sign() == 0 && t.innerFail == "" {
			now := observe(t.st, t.universe[:p.n], p.mask)
			if df := p.o.diff(now, t.universe); df != "" {
				t.innerFail = fmt.Sprintf("%v at pc %d depth %d reported failure but %s", p.op, p.pc, depth, df)
			}
			for _, a := range t.universe[p.n:] {
				if !emptyObs(t.st, a) && t.innerFail == "" {
					t.innerFail = fmt.Sprintf("%v at pc %d depth %d reported failure but account %x created inside it survives", p.op, p.pc, depth, a)
				}
			}
		}
	}
	if err == nil {
		if !entersFrame(op) {
			t.work += cost
		}
		if entersFrame(op) && depth <= 48 {
			var mask *common.Address
			if op == evm.CREATE || op == evm.CREATE2 {
				a := contract.Address()
				mask = &a // the creator's nonce is bumped before the snapshot, as in go-ethereum
			}
			t.pends[depth] = &pend{c: contract, o: observe(t.st, t.universe, mask), n: len(t.universe), mask: mask, op: op, pc: pc}
		}
	}
	return nil
}

func (t *tracer) CaptureFault(env *evm.EVM, pc uint64, op evm.OpCode, gas, cost uint64, memory *evm.Memory, stack *evm.Stack, contract *evm.Contract, depth int, err error) error {
	t.emit(fmt.Sprintf("fault d=%d pc=%d", depth, pc))
	return nil
}

// ---- one execution -------------------------------------------------------------------------------

type out struct {
	lines        []string
	trunc        bool
	ret          []byte
	gasLeft      uint64
	status       string
	errText      string
	rootBefore   common.Hash
	rootAfter    common.Hash
	obsDiff      string
	zeroBefore   string
	zeroAfter    string
	senderBefore string
	senderAfter  string
	refundFee    uint64
	refundAll    uint64
	maxGas       uint64
	maxGasAt     int
	simFrames    int
	innerFail    string
	steps        int
	subFrames    int
	memGrew      bool
	timeout      bool
	logs         string
	panicSite    string
	work         uint64
	byteCodeGas  uint64
	otxs         int
	cancelled    bool
}

func statusOf(err error) string {
	switch {
	case err == nil:
		return "ok"
	case err == types.ExecutionReverted:
		return "reverted"
	}
	return "failed"
}

// wall-clock backstop; a run that hits it is a failure only if it also did more work than it was given gas for
var timeLimit = 5 * time.Second

func execute(sp *spec) (o out) {
	quiet.Do(func() { log.Root().SetHandler(log.DiscardHandler()) })
	o.rootBefore = rootOfWorld(sp)
	st := buildWorld(sp)
	u := baseUniverse()
	before := observe(st, u, nil)
	o.zeroBefore = zeroTokenKeys(st, u)
	o.senderBefore = obsAddr(st, aSender, false)
	tr := &tracer{st: st, maxLines: sp.maxLns, frames: map[int]*evm.Contract{}, pends: map[int]*pend{}, universe: u, cancelAt: sp.cancel}
	cfg := &runtime.Config{
		Origin: aSender, Coinbase: addr("0xc01b"), BlockNumber: big.NewInt(100), Time: big.NewInt(1_600_000_000),
		Difficulty: big.NewInt(1), GasLimit: sp.gas, GasPrice: big.NewInt(1), Value: sp.value, State: st,
		EVMConfig: evm.Config{Debug: true, Tracer: tr, NoRecursion: sp.norec, EnablePreimageRecording: sp.preimg},
	}
	vm := runtime.NewEnv(cfg)
	if sp.mode == "utxocall" {
		// the context the application builds: NewEVMContext over a header and a chain (BLOCKHASH walks the chain: GetHashFn)
		hdr := &types.Header{Height: 100, Time: 1_600_000_000, GasLimit: sp.gas, Coinbase: addr("0xc01b"), ParentHash: common.BytesToHash([]byte{99})}
		vm = evm.NewEVM(evm.NewEVMContext(hdr, fakeChain{}, nil, 1), st, cfg.EVMConfig)
	}
	target := aMain
	if sp.fresh {
		target = aFresh
	}
	token := common.EmptyAddress
	if sp.token {
		token = aSecond
		vm.Token = token
	}
	defer func() {
		if r := recover(); r != nil {
			o.panicSite = hx.PanicSite(debug.Stack())
			o.lines, o.trunc = tr.lines, tr.trunc
		}
	}()
	var fired bool
	var mu sync.Mutex
	timer := time.AfterFunc(timeLimit, func() { mu.Lock(); fired = true; mu.Unlock(); vm.Cancel() })
	var err error
	noGas := false
	switch sp.mode {
	case "create":
		o.ret, _, o.gasLeft, err = vm.Create(evm.AccountRef(aSender), sp.code, sp.gas, sp.value)
	case "utxocall":
		// the entry point app/state_transition.go transitOutputs uses for contract calls: Reset, SetToken, UTXOCall
		vm.Reset(types.NewMessage(aSender, nil, token, st.GetNonce(aSender), nil, 0, big.NewInt(1), nil))
		vm.SetToken(token)
		vm.AddOtx(types.GenBalanceRecord(aSender, aMain, types.AccountAddress, types.AccountAddress, types.TxTransfer, token, big.NewInt(0)))
		o.ret, o.gasLeft, o.byteCodeGas, err = vm.UTXOCall(evm.AccountRef(aSender), target, token, sp.input, sp.gas, sp.value)
	case "rtcall":
		o.ret, o.gasLeft, err = runtime.Call(aMain, sp.input, cfg)
	case "rttoken":
		o.ret, o.gasLeft, err = runtime.TokenCall(aMain, sp.input, cfg, aSecond)
	case "rtcreate":
		o.ret, _, o.gasLeft, err = runtime.Create(sp.code, cfg)
	case "rtexec":
		o.ret, _, err = runtime.Execute(sp.code, sp.input, cfg)
		noGas = true
	default:
		o.ret, o.gasLeft, _, err = vm.Call(evm.AccountRef(aSender), target, token, sp.input, sp.gas, sp.value)
	}
	o.otxs = len(vm.GetOTxs())
	timer.Stop()
	mu.Lock()
	o.timeout = fired
	mu.Unlock()
	o.status = statusOf(err)
	if err != nil {
		o.errText = err.Error()
	}
	o.refundFee, o.refundAll = vm.RefundFee(), vm.RefundAllFee()
	after := observe(st, u, nil)
	o.obsDiff = before.diff(after, u)
	o.zeroAfter = zeroTokenKeys(st, u)
	o.senderAfter = obsAddr(st, aSender, false)
	h := sha256.New()
	for _, l := range st.Logs() {
		fmt.Fprintf(h, "%x|%x|%x;", l.Address, l.Topics, l.Data)
	}
	o.logs = hex.EncodeToString(h.Sum(nil)[:8])
	o.rootAfter = st.IntermediateRoot(false)
	o.steps, o.subFrames, o.memGrew, o.maxGas, o.maxGasAt, o.simFrames, o.innerFail, o.work = tr.steps, tr.subFrames, tr.memGrew, tr.maxGas, tr.maxGasAt, tr.simFrames, tr.innerFail, tr.work
	o.cancelled = tr.cancelled
	tr.emit(fmt.Sprintf("end gasleft=%d status=%s trunc=%d", o.gasLeft, o.status, b2i(tr.trunc || o.timeout || noGas || tr.cancelled)))
	if tr.trunc && !strings.HasPrefix(tr.lines[len(tr.lines)-1], "end ") {
		// the end line always travels, even when the step lines were capped
		tr.lines[len(tr.lines)-1] = fmt.Sprintf("end gasleft=%d status=%s trunc=1", o.gasLeft, o.status)
	}
	o.lines, o.trunc = tr.lines, tr.trunc
	return o
}

func b2i(b bool) int {
	if b {
		return 1
	}
	return 0
}

func (o *out) digest() string {
	return fmt.Sprintf("ret=%x gas=%d status=%s root=%x logs=%s refund=%d/%d bcg=%d otxs=%d steps=%d lines=%x", o.ret, o.gasLeft, o.status, o.rootAfter, o.logs, o.refundFee, o.refundAll, o.byteCodeGas, o.otxs, o.steps,
		sha256.Sum256([]byte(strings.Join(o.lines, "\n"))))
}

// ---- op lines -------------------------------------------------------------------------------

func runOp(sp *spec) string {
	tk := 0
	if sp.token {
		tk = 1
	}
	return fmt.Sprintf("run mode=%s gas=%d value=%s token=%d lines=%d norec=%d preimg=%d cancel=%d fresh=%d code=%s code2=%s input=%s", sp.mode, sp.gas, sp.value, tk, sp.maxLns, b2i(sp.norec), b2i(sp.preimg), sp.cancel, b2i(sp.fresh), hx.Hex(sp.code), hx.Hex(sp.code2), hx.Hex(sp.input))
}

func parseRun(toks []string) *spec {
	sp := &spec{value: new(big.Int)}
	sp.mode, _ = hx.Arg(toks, "mode")
	g, _ := hx.Arg(toks, "gas")
	sp.gas, _ = strconv.ParseUint(g, 10, 64)
	v, _ := hx.Arg(toks, "value")
	sp.value.SetString(v, 10)
	tk, _ := hx.Arg(toks, "token")
	sp.token = tk == "1"
	l, _ := hx.Arg(toks, "lines")
	sp.maxLns, _ = strconv.Atoi(l)
	if sp.maxLns <= 0 {
		sp.maxLns = 400
	}
	nr, _ := hx.Arg(toks, "norec")
	sp.norec = nr == "1"
	pi, _ := hx.Arg(toks, "preimg")
	sp.preimg = pi == "1"
	fr, _ := hx.Arg(toks, "fresh")
	sp.fresh = fr == "1"
	cn, _ := hx.Arg(toks, "cancel")
	sp.cancel, _ = strconv.Atoi(cn)
	c, _ := hx.Arg(toks, "code")
	sp.code = hx.UnHex(c)
	c2, _ := hx.Arg(toks, "code2")
	sp.code2 = hx.UnHex(c2)
	in, _ := hx.Arg(toks, "input")
	sp.input = hx.UnHex(in)
	return sp
}

type record struct {
	sp   *spec
	a, b out
}

// one direct execution of a precompiled contract (RunPrecompiledContract), done twice
type preRec struct {
	set       string
	addr      int
	gas       uint64
	inLen     int
	left      [2]uint64
	out       [2]string
	errText   [2]string
	required  uint64
	known     bool
}

func runPre(set string, addr int, gas uint64, in []byte) *preRec {
	r := &preRec{set: set, addr: addr, gas: gas, inLen: len(in)}
	m := evm.PrecompiledContractsHomestead
	if set == "b" {
		m = evm.PrecompiledContractsByzantium
	}
	p := m[common.BytesToAddress([]byte{byte(addr)})]
	if p == nil {
		return r
	}
	r.known = true
	r.required = p.RequiredGas(in)
	for i := 0; i < 2; i++ {
		c := evm.NewContract(evm.AccountRef(aSender), evm.AccountRef(common.BytesToAddress([]byte{byte(addr)})), new(big.Int), gas)
		ret, err := evm.RunPrecompiledContract(p, append([]byte{}, in...), c)
		r.left[i] = c.Gas
		r.out[i] = fmt.Sprintf("%x", sha256.Sum256(ret))[:16] + fmt.Sprintf("/%d", len(ret))
		if err != nil {
			r.errText[i] = err.Error()
		}
	}
	return r
}

type exec struct {
	pres []*preRec
	runs []*record
	cur  *record
	next int // index of the next expected trace line of the current run
}

func (p *P) NewExec() hx.Executor {
	e := &exec{}
	p.last = e
	return e
}

func (e *exec) Exec(op string) string {
	toks := hx.Tokens(op)
	switch toks[0] {
	case "case":
		e.runs, e.cur, e.next, e.pres = nil, nil, 0, nil
		return "ok"
	case "run":
		sp := parseRun(toks)
		r := &record{sp: sp}
		// the two re-executions are independent (fresh worlds, fresh EVMs): run them side by side
		var wg sync.WaitGroup
		wg.Add(1)
		go func() { defer wg.Done(); r.b = execute(sp) }()
		r.a = execute(sp)
		wg.Wait()
		e.runs = append(e.runs, r)
		e.cur, e.next = r, 0
		if r.a.panicSite != "" {
			return "panic " + r.a.panicSite
		}
		return "ok"
	case "pre":
		set, _ := hx.Arg(toks, "set")
		a, _ := hx.Arg(toks, "addr")
		ai, _ := strconv.Atoi(a)
		g, _ := hx.Arg(toks, "gas")
		gas, _ := strconv.ParseUint(g, 10, 64)
		in, _ := hx.Arg(toks, "in")
		r := runPre(set, ai, gas, hx.UnHex(in))
		e.pres = append(e.pres, r)
		if !r.known {
			return "none"
		}
		if r.errText[0] == evm.ErrOutOfGas.Error() && r.left[0] == gas {
			return "oog"
		}
		return fmt.Sprintf("charged=%d", gas-r.left[0])
	case "opsseen":
		return "ok"
	case "upgrade":
		st := buildWorld(&spec{mode: "call", value: new(big.Int)})
		before := st.IntermediateRoot(false)
		vm := runtime.NewEnv(&runtime.Config{Origin: aSender, BlockNumber: big.NewInt(100), Time: big.NewInt(1), Difficulty: big.NewInt(1), GasLimit: 100000, GasPrice: big.NewInt(1), Value: new(big.Int), State: st})
		err := vm.Upgrade(evm.AccountRef(aSender), aMain, []byte{0x00})
		if err == nil || st.IntermediateRoot(false) != before {
			return "changed"
		}
		return "err"
	case "enter", "s", "fault", "end":
		if e.cur == nil {
			return "stale:no-run"
		}
		if e.cur.a.timeout || (toks[0] == "end" && strings.HasSuffix(op, "trunc=1") && strings.Contains(op, "status=")) && e.cur.sp.cancel == 0 && !e.cur.a.trunc {
			return "ok" // this or the generator's execution was cut short by the wall clock (loaded machine): nothing to compare
		}
		if e.next < len(e.cur.a.lines) && e.cur.a.lines[e.next] == op {
			e.next++
			return "ok"
		}
		// tolerate dropped lines (shrinking): find the line further on
		for i := e.next; i < len(e.cur.a.lines); i++ {
			if e.cur.a.lines[i] == op {
				e.next = i + 1
				return "ok"
			}
		}
		return "stale"
	}
	return "bad-op"
}

// ---- monitors: the property, evaluated on the implementation's own results -------------------------

func (p *P) Monitor(c *hx.CaseRun) []hx.Failure {
	var fs []hx.Failure
	add := func(mon, class, site, msg string) {
		fs = append(fs, hx.Failure{Monitor: mon, Class: class, Site: site, Msg: msg})
	}
	for _, a := range c.Impl {
		if strings.HasPrefix(a, "panic") {
			add("no_panic", "panic "+strings.TrimPrefix(a, "panic "), strings.TrimPrefix(a, "panic "), "contract execution panicked")
		}
		if a == "stale" {
			add("deterministic", "trace-differs-between-runs", "vm/evm", "a trace line recorded by the generator's run is not in the trace of the re-execution")
		}
	}
	if p.last == nil {
		return fs
	}
	for _, r := range p.last.pres {
		tag := fmt.Sprintf("precompile %s/%d gas=%d inlen=%d: ", r.set, r.addr, r.gas, r.inLen)
		if !r.known {
			continue
		}
		if r.left[0] != r.left[1] || r.out[0] != r.out[1] || r.errText[0] != r.errText[1] {
			add("deterministic", "precompile-nondeterministic", "vm/evm/contracts.go:Run", tag+"two runs differ")
		}
		if r.left[0] > r.gas {
			add("gas_bounded", "precompile-gas-grew", "vm/evm/contracts.go:RunPrecompiledContract", tag+fmt.Sprintf("gas left %d", r.left[0]))
		}
		if r.gas >= r.required && r.gas-r.left[0] != r.required {
			add("metered", "precompile-charge-differs-from-required", "vm/evm/contracts.go:RunPrecompiledContract", tag+fmt.Sprintf("charged %d, RequiredGas %d", r.gas-r.left[0], r.required))
		}
		if r.gas < r.required && (r.left[0] != r.gas || r.errText[0] != evm.ErrOutOfGas.Error() || !strings.HasSuffix(r.out[0], "/0")) {
			add("metered", "precompile-ran-without-gas", "vm/evm/contracts.go:RunPrecompiledContract", tag+fmt.Sprintf("required %d > gas, but left %d err %q out %s", r.required, r.left[0], r.errText[0], r.out[0]))
		}
	}
	for i, r := range p.last.runs {
		a, b := &r.a, &r.b
		tag := fmt.Sprintf("run %d (mode=%s gas=%d value=%s): ", i, r.sp.mode, r.sp.gas, r.sp.value)
		if a.panicSite != "" || b.panicSite != "" {
			site := a.panicSite
			if site == "" {
				site = b.panicSite
			}
			add("no_panic", "panic "+site, site, tag+"panic")
			continue
		}
		if (a.timeout || b.timeout) && a.maxGas <= r.sp.gas && a.work <= r.sp.gas+uint64(a.subFrames)*2300 && b.work <= r.sp.gas+uint64(b.subFrames)*2300 {
			continue // slow, but metered so far: the wall clock says nothing about the property
		}
		if a.timeout || b.timeout {
			cls := "timeout"
			if a.simFrames > 0 {
				cls = "unmetered-decimals-call"
			}
			add("terminates_within_gas", cls, "vm/evm/interpreter.go:Run", tag+fmt.Sprintf("still running after %v with %d gas (%d steps so far); cancelled", timeLimit, r.sp.gas, a.steps))
			continue
		}
		if a.gasLeft > r.sp.gas {
			add("gas_bounded", "gasleft-exceeds-given", "vm/evm/evm.go:Call", tag+fmt.Sprintf("gas left %d", a.gasLeft))
		}
		if a.status == "ok" {
			if a.gasLeft+a.refundFee > r.sp.gas || a.gasLeft+a.refundFee < a.gasLeft {
				add("fees_le_consumed", "fee-refund-exceeds-consumed", "vm/evm/evm.go:RefundFee", tag+fmt.Sprintf("gas left %d + RefundFee %d > gas", a.gasLeft, a.refundFee))
			}
		} else if a.gasLeft+a.refundAll > r.sp.gas || a.gasLeft+a.refundAll < a.gasLeft {
			add("fees_le_consumed", "fee-refund-exceeds-consumed", "vm/evm/evm.go:RefundAllFee", tag+fmt.Sprintf("status %s: gas left %d + RefundAllFee %d > gas", a.status, a.gasLeft, a.refundAll))
		}
		if a.digest() != b.digest() {
			add("deterministic", "nondeterministic", "vm/evm", tag+"two executions on equal fresh worlds differ: "+a.digest()+" vs "+b.digest())
		}
		if a.status != "ok" {
			if a.obsDiff == "" && a.rootAfter != a.rootBefore && a.zeroBefore != a.zeroAfter {
				// every getter agrees with the state before the call; the root differs because reverted token credits left
				// zero-valued keys in Account.Tokens (SetTokenBalance inserts the key outside the journal)
				add("frame_atomic", "reverted-frame-leaves-zero-token-entry", "state/state_object.go:SetTokenBalance", tag+fmt.Sprintf("status %s: all getters as before, root %x -> %x, zero-valued token keys now: %s", a.status, a.rootBefore, a.rootAfter, a.zeroAfter))
			} else if a.rootAfter != a.rootBefore || a.obsDiff != "" {
				add("frame_atomic", "failed-call-changed-state", "vm/evm/evm.go:Call", tag+fmt.Sprintf("status %s (%s) but the world changed: root %x -> %x %s", a.status, a.errText, a.rootBefore, a.rootAfter, a.obsDiff))
			}
			if a.senderBefore != a.senderAfter {
				add("value_stays_with_caller", "value-left-caller", "vm/evm/evm.go:Call", tag+fmt.Sprintf("status %s but the caller's account changed: %s -> %s", a.status, a.senderBefore, a.senderAfter))
			}
		}
		if a.innerFail != "" {
			add("frame_atomic", "failed-inner-frame-changed-state", "vm/evm/evm.go:Call", tag+a.innerFail)
		}
		if a.maxGas > r.sp.gas {
			cls := "frame-gas-exceeds-given"
			if a.maxGas == simulateGas {
				cls = "unmetered-decimals-call"
			}
			add("metered", cls, "vm/evm/evm.go:GetUTXOChangeRate", tag+fmt.Sprintf("a frame at depth %d started with %d gas although the whole call was given %d (work done by the interpreter: %d gas)", a.maxGasAt, a.maxGas, r.sp.gas, a.work))
		} else if a.work > r.sp.gas+uint64(a.subFrames)*2300 {
			add("metered", "work-exceeds-given", "vm/evm/interpreter.go:Run", tag+fmt.Sprintf("the interpreter burnt %d gas of steps, given %d", a.work, r.sp.gas))
		}
	}
	return fs
}
