package c20

import (
	"fmt"
	"math/big"
	"math/rand"

	"github.com/lianxiangcloud/linkchain/libs/common"

	"lvharness/hx"
)

// ---- a tiny assembler -------------------------------------------------------------------------

type asm struct{ b []byte }

func (a *asm) op(o ...byte) *asm { a.b = append(a.b, o...); return a }

func (a *asm) pushBytes(v []byte) *asm {
	for len(v) > 1 && v[0] == 0 {
		v = v[1:]
	}
	if len(v) == 0 {
		v = []byte{0}
	}
	if len(v) > 32 {
		v = v[len(v)-32:]
	}
	a.b = append(a.b, byte(0x5f+len(v)))
	a.b = append(a.b, v...)
	return a
}
func (a *asm) push(v *big.Int) *asm         { return a.pushBytes(v.Bytes()) }
func (a *asm) pushU(v uint64) *asm          { return a.push(new(big.Int).SetUint64(v)) }
func (a *asm) pushA(x common.Address) *asm  { a.b = append(a.b, 0x73); a.b = append(a.b, x[:]...); return a }
func (a *asm) here() int                    { return len(a.b) }
func (a *asm) push2(v int) *asm             { return a.op(0x61, byte(v>>8), byte(v)) }

const (
	oSTOP, oADD, oMUL, oSUB, oDIV, oEXP                         = 0x00, 0x01, 0x02, 0x03, 0x04, 0x0a
	oLT, oISZERO, oSHA3                                         = 0x10, 0x15, 0x20
	oADDRESS, oBALANCE, oCALLVALUE, oCALLDATALOAD, oCALLDATASIZE = 0x30, 0x31, 0x34, 0x35, 0x36
	oCALLDATACOPY, oCODESIZE, oCODECOPY, oEXTCODESIZE, oEXTCODECOPY = 0x37, 0x38, 0x39, 0x3b, 0x3c
	oRETURNDATASIZE, oRETURNDATACOPY, oEXTCODEHASH              = 0x3d, 0x3e, 0x3f
	oPOP, oMLOAD, oMSTORE, oMSTORE8, oSLOAD, oSSTORE             = 0x50, 0x51, 0x52, 0x53, 0x54, 0x55
	oJUMP, oJUMPI, oPC, oMSIZE, oGAS, oJUMPDEST                  = 0x56, 0x57, 0x58, 0x59, 0x5a, 0x5b
	oDUP1, oSWAP1, oLOG0                                        = 0x80, 0x90, 0xa0
	oISSUE, oBALANCETOKEN, oCALLTOKENADDRESS, oTRANSFERTOKEN, oCALLTOKENVALUE = 0xe0, 0xe1, 0xe2, 0xe3, 0xe4
	oCREATE, oCALL, oCALLCODE, oRETURN, oDELEGATECALL, oCREATE2, oSTATICCALL, oREVERT, oINVALID, oSELFDESTRUCT = 0xf0, 0xf1, 0xf2, 0xf3, 0xf4, 0xf5, 0xfa, 0xfd, 0xfe, 0xff
)

var hugeWord = new(big.Int).Sub(new(big.Int).Lsh(big.NewInt(1), 256), big.NewInt(1))

type pg struct {
	r *rand.Rand
	g *hx.Gen
}

func (p *pg) pick(n int) int { return p.r.Intn(n) }

func (p *pg) word() *big.Int {
	switch p.pick(8) {
	case 0:
		return big.NewInt(0)
	case 1:
		return big.NewInt(1)
	case 2:
		return big.NewInt(int64(p.pick(256)))
	case 3:
		return big.NewInt(int64(p.pick(1 << 16)))
	case 4:
		return new(big.Int).Lsh(big.NewInt(1), uint(p.pick(256)))
	case 5:
		return new(big.Int).Set(hugeWord)
	case 6:
		return new(big.Int).SetUint64(p.r.Uint64())
	}
	b := make([]byte, 32)
	p.r.Read(b)
	return new(big.Int).SetBytes(b)
}

// memory offsets / sizes: mostly small, sometimes at the edges the gas arithmetic guards
func (p *pg) off() *big.Int {
	if p.pick(10) == 0 {
		return []*big.Int{plus(pow2(64), -1), plus(pow2(64), 1), plus(pow2(64), -32), plus(pow2(63), -1), pow2(255)}[p.pick(5)]
	}
	switch p.pick(12) {
	case 0:
		return new(big.Int).Set(hugeWord)
	case 1:
		return new(big.Int).SetUint64(0xffffffffe0)
	case 2:
		return new(big.Int).SetUint64(0xffffffffe1)
	case 3:
		return new(big.Int).SetUint64(1<<63 - 1)
	case 4:
		return new(big.Int).SetUint64(1 << 63)
	case 5:
		return new(big.Int).Lsh(big.NewInt(1), 64)
	case 6:
		return big.NewInt(int64(p.pick(1 << 20)))
	}
	return big.NewInt(int64(p.pick(200)))
}

func (p *pg) size() *big.Int {
	switch p.pick(10) {
	case 0:
		return new(big.Int).Set(hugeWord)
	case 1:
		return new(big.Int).SetUint64(1<<64 - 1)
	case 2:
		return big.NewInt(int64(p.pick(1 << 18)))
	case 3:
		return big.NewInt(0)
	}
	return big.NewInt(int64(p.pick(100)))
}

func (p *pg) target() common.Address {
	ts := []common.Address{aMain, aMain, aSecond, aSecond, aFresh, aStop, aRevert, aBad, aWrBad, aKill, aLoop, aWrite, aRet, aPlain, aSender,
		common.BytesToAddress([]byte{1}), common.BytesToAddress([]byte{2}), common.BytesToAddress([]byte{4}), common.BytesToAddress([]byte{5}), common.BytesToAddress([]byte{9})}
	return ts[p.pick(len(ts))]
}

func (p *pg) callValue() *big.Int {
	switch p.pick(8) {
	case 0:
		return big.NewInt(1)
	case 1:
		return big10(18)
	case 2:
		return big10(30)
	case 3:
		return new(big.Int).Set(hugeWord)
	}
	return big.NewInt(0)
}

func (p *pg) callGas(a *asm) {
	switch p.pick(7) {
	case 0:
		a.pushU(0)
	case 1:
		a.pushU(2300)
	case 2:
		a.pushU(50000)
	case 3:
		a.push(hugeWord)
	case 4:
		a.pushU(uint64(p.pick(1 << 22)))
	default:
		a.op(oGAS)
	}
}

var initCodes = [][]byte{
	{},
	{oSTOP},
	{0x60, 0x01, 0x60, 0x00, 0x53, 0x60, 0x01, 0x60, 0x00, 0xf3},             // MSTORE8(0,1); RETURN(0,1): deploys code 0x01
	{0x60, 0x00, 0x60, 0x00, 0xfd},                                           // REVERT
	{0xfe},                                                                   // INVALID
	{0x33, 0xff},                                                             // SELFDESTRUCT(caller)
	{0x60, 0x07, 0x60, 0x00, 0x55, 0x61, 0x60, 0x00, 0x60, 0x00, 0xf3},       // SSTORE(0,7); RETURN(0, 0x6000): too large to pay for
	{0x38, 0x60, 0x00, 0x60, 0x00, 0x39, 0x38, 0x60, 0x00, 0x60, 0x00, 0xf0}, // CODECOPY(0,0,CODESIZE); CREATE(0,0,CODESIZE): recursion
	{0x60, 0x05, 0xe0, 0x00},                                                 // ISSUE(5); STOP
	{0x61, 0x60, 0x00, 0x60, 0x00, 0xf3},                                     // RETURN(0, MaxCodeSize)
	{0x61, 0x60, 0x01, 0x60, 0x00, 0xf3},                                     // RETURN(0, MaxCodeSize+1): errMaxCodeSizeExceeded
	{0x60, 0x07, 0x60, 0x00, 0x55, 0x61, 0x60, 0x01, 0x60, 0x00, 0xf3},       // SSTORE(0,7); RETURN(0, MaxCodeSize+1)
	{0x60, 0x07, 0x60, 0x00, 0x55, 0x61, 0xff, 0xff, 0x60, 0x00, 0xf3},       // SSTORE(0,7); RETURN(0, 0xffff)
}

// one self-contained snippet: leaves the stack as it found it (unless it ends the program)
func (p *pg) snippet(a *asm, c func(string)) {
	switch k := p.pick(30); k {
	case 0, 1: // arithmetic on random words
		c("arith")
		a.push(p.word()).push(p.word()).op([]byte{oADD, oMUL, oSUB, oDIV, oEXP, 0x05, 0x06, 0x07, 0x0b, 0x1b, 0x1c, 0x1d, 0x10, 0x16}[p.pick(14)], oPOP)
	case 2: // three-operand
		c("arith3")
		a.push(p.word()).push(p.word()).push(p.word()).op([]byte{0x08, 0x09}[p.pick(2)], oPOP)
	case 3:
		c("mload")
		a.push(p.off()).op(oMLOAD, oPOP)
	case 4:
		c("mstore")
		a.push(p.word()).push(p.off()).op([]byte{oMSTORE, oMSTORE8}[p.pick(2)])
	case 5:
		c("sha3")
		a.push(p.size()).push(p.off()).op(oSHA3, oPOP)
	case 6:
		if p.pick(2) == 0 {
			c("returndatacopy-after-call")
			size := leaveReturnData(a, p.pick(4))
			ps := dataPairs(size)
			pr := ps[p.pick(len(ps))]
			a.push(pr.n).push(pr.off).push(p.off()).op(oRETURNDATACOPY, oRETURNDATASIZE, oPOP)
			break
		}
		c("copy")
		a.push(p.size()).push(p.off()).push(p.off()).op([]byte{oCALLDATACOPY, oCODECOPY, oRETURNDATACOPY}[p.pick(3)])
	case 7:
		c("extcodecopy")
		a.push(p.size()).push(p.off()).push(p.off()).pushA(p.target()).op(oEXTCODECOPY)
	case 8:
		c("sstore")
		a.push(p.word()).pushU(uint64(p.pick(4))).op(oSSTORE)
	case 9:
		c("sload")
		a.pushU(uint64(p.pick(4))).op(oSLOAD, oPOP)
	case 10:
		c("log")
		n := p.pick(5)
		for i := 0; i < n; i++ {
			a.push(p.word())
		}
		a.push(p.size()).push(p.off()).op(byte(oLOG0 + n))
	case 11, 12, 13, 14: // the call family
		op := []byte{oCALL, oCALL, oCALLCODE, oDELEGATECALL, oSTATICCALL}[p.pick(5)]
		c(fmt.Sprintf("callop:%#x", op))
		small := func() *big.Int {
			if p.pick(6) == 0 {
				return p.off()
			}
			return big.NewInt(int64(p.pick(64)))
		}
		a.push(small()).push(small()).push(small()).push(small())
		if op == oCALL || op == oCALLCODE {
			a.push(p.callValue())
		}
		a.pushA(p.target())
		p.callGas(a)
		a.op(op, oPOP)
	case 15, 16: // create
		ic := initCodes[p.pick(len(initCodes))]
		c("create")
		if len(ic) > 0 {
			a.pushBytes(append([]byte{}, ic...)).pushU(0).op(oMSTORE)
		}
		val := big.NewInt(0)
		if p.pick(4) == 0 {
			val = p.callValue()
		}
		if p.pick(3) == 0 {
			a.push(p.word()).pushU(uint64(len(ic))).pushU(uint64(32 - len(ic))).push(val).op(oCREATE2, oPOP)
		} else {
			a.pushU(uint64(len(ic))).pushU(uint64(32 - len(ic))).push(val).op(oCREATE, oPOP)
		}
	case 17:
		c("selfdestruct")
		if p.pick(2) == 0 {
			a.pushA(p.target()).op(oSELFDESTRUCT)
		} else {
			a.pushA(p.target()).push(p.word()).op(oPOP, oPOP) // decoy
		}
	case 18, 19:
		c("issue")
		a.push([]*big.Int{big.NewInt(0), big.NewInt(1), big10(20), hugeWord}[p.pick(4)]).op(oISSUE)
	case 20:
		c("tokenread")
		a.pushA(p.target()).pushA([]common.Address{common.EmptyAddress, aSecond, aMain}[p.pick(3)]).op(oBALANCETOKEN, oPOP, oCALLTOKENADDRESS, oPOP, oCALLTOKENVALUE, oPOP)
	case 21, 22:
		c("transfertoken")
		a.pushA(p.target()).pushA([]common.Address{common.EmptyAddress, aSecond, aMain}[p.pick(3)]).push(p.callValue()).op(oTRANSFERTOKEN)
	case 23: // bounded loop
		c("loop")
		a.pushU(uint64(1 + p.pick(40)))
		l := a.here()
		a.op(oJUMPDEST).pushU(1).op(oSWAP1, oSUB, oDUP1).push2(l).op(oJUMPI, oPOP)
	case 24: // forward jump over junk (which may contain a JUMPDEST byte inside PUSH data)
		c("fwdjump")
		junk := []byte{0x7f, 0x5b, 0x5b, 0xfe}[:p.pick(4)]
		t := a.here() + 4 + len(junk)
		if p.pick(5) == 0 {
			t += p.pick(3) - 1 // off by one: invalid destination or PUSH data
		}
		if t < 0 {
			t = 0
		}
		a.push2(t).op(oJUMP)
		a.op(junk...)
		a.op(oJUMPDEST)
	case 25: // conditional jump with random condition and possibly bad target
		c("jumpi")
		t := a.here() + 8
		if p.pick(4) == 0 {
			t = p.pick(300)
		}
		a.pushU(uint64(p.pick(2))).push2(t).op(oJUMPI, oPC, oPOP, oMSIZE, oPOP, oJUMPDEST)
	case 26:
		c("ender")
		switch p.pick(5) {
		case 0:
			a.push(p.size()).push(p.off()).op(oREVERT)
		case 1:
			a.push(p.size()).push(p.off()).op(oRETURN)
		case 2:
			a.op(oSTOP)
		case 3:
			a.op(oINVALID)
		case 4:
			a.op([]byte{0x0c, 0x21, 0x46, 0x5c, 0xa5, 0xb0, 0xe5, 0xf6, 0xfb}[p.pick(9)]) // unassigned opcodes
		}
	case 27:
		c("env")
		a.op([]byte{oADDRESS, 0x32, 0x33, oCALLVALUE, oCALLDATASIZE, oCODESIZE, 0x3a, oRETURNDATASIZE, 0x41, 0x42, 0x43, 0x44, 0x45, oPC, oMSIZE, oGAS}[p.pick(16)], oPOP)
		a.pushA(p.target()).op([]byte{oBALANCE, oEXTCODESIZE, oEXTCODEHASH}[p.pick(3)], oPOP)
		a.push(p.word()).op([]byte{oCALLDATALOAD, 0x40}[p.pick(2)], oPOP)
	case 28: // stack pressure: underflow / deep dup-swap
		c("stack")
		switch p.pick(3) {
		case 0:
			a.op(byte(oDUP1+p.pick(16)), oPOP)
		case 1:
			a.op(byte(oSWAP1 + p.pick(16)))
		case 2:
			a.op(oPOP)
		}
	case 29:
		c("rawbytes")
		n := 1 + p.pick(6)
		bs := make([]byte, n)
		p.r.Read(bs)
		a.op(bs...)
	}
}

func (p *pg) grammar(c func(string)) []byte {
	a := &asm{}
	n := 1 + p.pick(10)
	for i := 0; i < n; i++ {
		p.snippet(a, c)
	}
	if p.pick(8) == 0 { // truncated PUSH at the very end
		c("truncpush")
		a.op(byte(0x60+p.pick(32)), 0x01)
	}
	return a.b
}

// stack overflow: a loop that pushes until the 1024 limit
func stackOverflow() []byte {
	a := &asm{}
	a.op(oJUMPDEST, oPC, oPC).pushU(0).op(oJUMP)
	return a.b
}

// recursion by CALL to self with all gas
func selfCall(op byte) []byte {
	a := &asm{}
	a.pushU(0).pushU(0).pushU(0).pushU(0)
	if op == oCALL || op == oCALLCODE {
		a.pushU(0)
	}
	a.op(oADDRESS, oGAS, op, oPOP, oSTOP)
	return a.b
}

// recursion by CREATE of one's own code (opCreate forwards all gas: no 63/64 rule in this tree)
func selfCreate() []byte {
	return []byte{0x38, 0x60, 0x00, 0x60, 0x00, 0x39, 0x38, 0x60, 0x00, 0x60, 0x00, 0xf0, 0x00}
}

var gasChoices = []uint64{0, 1, 20999, 21000, 21001, 1000, 10000, 100000, 100000, 1000000, 1000000, 10000000}

func (p *pg) gas() uint64 { return gasChoices[p.pick(len(gasChoices))] }

func (p *pg) value() *big.Int {
	switch p.pick(8) {
	case 0:
		return big.NewInt(1)
	case 1:
		return big10(18)
	case 2:
		return big10(25) // more than the sender owns
	}
	return big.NewInt(0)
}

type gcase struct {
	header string
	runs   []*spec
}

// the directed corpus
func corpus() []gcase {
	var cs []gcase
	add := func(h string, sp ...*spec) { cs = append(cs, gcase{h, sp}) }
	z := func() *big.Int { return new(big.Int) }
	// ISSUE, then the frame returns ok: GetUTXOChangeRate static-calls the contract with 1e10 gas that nobody paid for.
	// With call data (the decimals() selector) the program burns gas in a bounded loop and answers 8.
	{
		a := &asm{}
		a.op(oCALLDATASIZE).push2(9).op(oJUMPI)
		a.pushU(1).op(oISSUE, oSTOP) // pc 5..8
		a.op(oJUMPDEST)              // pc 9
		a.pushU(200)
		l := a.here()
		a.op(oJUMPDEST).pushU(0).op(oEXTCODESIZE, oPOP).pushU(1).op(oSWAP1, oSUB, oDUP1).push2(l).op(oJUMPI, oPOP)
		a.pushU(8).pushU(0).op(oMSTORE).pushU(32).pushU(0).op(oRETURN)
		add("directed issue-decimals-call", &spec{mode: "call", code: a.b, gas: 30000, value: z()})
		add("directed issue-then-revert-by-decimals", &spec{mode: "call", code: []byte{0x60, 0x01, oISSUE, oSTOP}, gas: 30000, value: z()})
	}
	// value call that cannot pay the transfer fee: the fee ledger's out-of-gas branch
	for _, g := range []uint64{9000, 12000, 100000, 509700, 509800, 600000, 1200000} {
		a := &asm{}
		a.pushU(0).pushU(0).pushU(0).pushU(0).pushU(1).pushA(aPlain).pushU(0).op(oCALL, oPOP, oSTOP)
		add(fmt.Sprintf("directed value-call-fee gas=%d", g), &spec{mode: "call", code: a.b, gas: g, value: z()})
		b := &asm{}
		b.pushU(0).pushU(0).pushU(0).pushU(0).pushU(1).pushA(aPlain).pushU(0).op(oCALL, oPOP).pushU(0).pushU(0).op(oREVERT)
		add(fmt.Sprintf("directed value-call-fee-then-revert gas=%d", g), &spec{mode: "call", code: b.b, gas: g, value: z()})
		// nested: the inner frame runs out of gas on the fee
		c := &asm{}
		c.pushU(0).pushU(0).pushU(0).pushU(0).pushU(0).pushA(aSecond).pushU(g).op(oCALL, oPOP, oSTOP)
		add(fmt.Sprintf("directed nested-value-call-fee gas=%d", g), &spec{mode: "call", code: c.b, code2: a.b, gas: 3000000, value: z()})
	}
	// value sent into a failing top-level call
	for _, code := range [][]byte{{oINVALID}, {0x60, 0x00, 0x60, 0x00, oREVERT}, {0x60, 0x01, 0x60, 0x00, oSSTORE, oINVALID}, {oPOP}} {
		add("directed value-into-failing-call", &spec{mode: "call", code: code, gas: 100000, value: big10(18)})
		add("directed value-into-failing-create", &spec{mode: "create", code: code, gas: 100000, value: big10(18)})
	}
	// inner frames that write and then fail
	for _, t := range []common.Address{aRevert, aBad, aWrBad, aKill, aLoop, aWrite} {
		for _, op := range []byte{oCALL, oCALLCODE, oDELEGATECALL, oSTATICCALL} {
			a := &asm{}
			a.pushU(0).pushU(0).pushU(0).pushU(0)
			if op == oCALL || op == oCALLCODE {
				a.pushU(0)
			}
			a.pushA(t).pushU(60000).op(op, oPOP, oSTOP)
			add(fmt.Sprintf("directed inner %#x -> %x", op, t[18:]), &spec{mode: "call", code: a.b, gas: 200000, value: z()})
		}
	}
	add("directed stack-overflow", &spec{mode: "call", code: stackOverflow(), gas: 100000, value: z(), maxLns: 60})
	for _, op := range []byte{oCALL, oCALLCODE, oDELEGATECALL, oSTATICCALL} {
		add(fmt.Sprintf("directed self-recursion %#x", op), &spec{mode: "call", code: selfCall(op), gas: 10000000, value: z(), maxLns: 300})
	}
	add("directed create-recursion", &spec{mode: "call", code: selfCreate(), gas: 10000000, value: z(), maxLns: 300})
	add("directed create-recursion-to-depth-limit", &spec{mode: "create", code: selfCreate(), gas: 50000000, value: z(), maxLns: 200})
	add("directed empty-code", &spec{mode: "call", code: nil, gas: 21000, value: big.NewInt(1)})
	createBoundaryCases(add)
	boundaryCases(add)
	opcodeTourCases(add)
	precompileCallCases(add)
	entryPointCases(add)
	return cs
}

func (p *P) Generate(g *hx.Gen) {
	pr := &pg{r: g.Rng, g: g}
	lines := g.Pick(250, 2000)
	emit := func(gc gcase) {
		ops := []string{hx.CaseOp()}
		nontriv := false
		for _, sp := range gc.runs {
			if sp.maxLns == 0 {
				sp.maxLns = lines
			}
			o := execute(sp)
			ops = append(ops, runOp(sp))
			ops = append(ops, o.lines...)
			g.Count("mode:" + sp.mode)
			g.Count("status:" + o.status)
			g.Count(fmt.Sprintf("gas:%d", sp.gas))
			switch {
			case o.steps == 0:
				g.Count("steps:0")
			case o.steps < 10:
				g.Count("steps:1-9")
			case o.steps < 100:
				g.Count("steps:10-99")
			default:
				g.Count("steps:100+")
			}
			if o.subFrames > 0 {
				g.Count("with-subframes")
			}
			if o.trunc {
				g.Count("trace-capped")
			}
			if o.timeout {
				g.Count("timeout")
			}
			if o.simFrames > 0 {
				g.Count("decimals-call-seen")
			}
			if o.refundFee > 0 || o.refundAll > 0 {
				g.Count("fee-ledger-nonempty")
			}
			if o.steps >= 3 && (o.subFrames > 0 || o.memGrew || o.status != "ok") {
				nontriv = true
			}
		}
		g.Case(gc.header, ops, nontriv)
	}
	for _, gc := range corpus() {
		g.Count("gen:directed")
		emit(gc)
	}
	for _, c := range precompileOps(g.Rng, g.Count) {
		g.Count("gen:directed-precompile")
		g.Case(c[0], append([]string{hx.CaseOp()}, c[1:]...), true)
	}
	g.Case("directed upgrade", []string{hx.CaseOp(), "upgrade"}, false)
	n := g.Pick(1500, 60000)
	for i := 0; i < n; i++ {
		sp := &spec{mode: "call", gas: pr.gas(), value: pr.value()}
		kind := "grammar"
		cnt := func(s string) { g.Count("snippet:" + s) }
		switch k := pr.pick(20); {
		case k < 3:
			kind = "random-bytes"
			sp.code = make([]byte, 1+pr.pick(64))
			pr.r.Read(sp.code)
		case k < 5:
			kind = "grammar+random-second"
			sp.code = pr.grammar(cnt)
			sp.code2 = make([]byte, 1+pr.pick(48))
			pr.r.Read(sp.code2)
		case k < 12:
			kind = "grammar+grammar-second"
			sp.code = pr.grammar(cnt)
			sp.code2 = pr.grammar(cnt)
		default:
			sp.code = pr.grammar(cnt)
		}
		if pr.pick(8) == 0 {
			sp.mode = "create"
			kind += "/create"
		}
		if pr.pick(10) == 0 {
			sp.token = true
		}
		if sp.mode == "call" && pr.pick(5) == 0 {
			sp.mode = "utxocall"
			kind += "/utxocall"
		}
		if pr.pick(25) == 0 {
			sp.norec = true
		}
		if pr.pick(25) == 0 {
			sp.preimg = true
		}
		if pr.pick(30) == 0 {
			sp.cancel = 1 + pr.pick(40)
		}
		if pr.pick(3) == 0 {
			sp.input = make([]byte, pr.pick(68))
			pr.r.Read(sp.input)
		}
		g.Count("gen:" + kind)
		emit(gcase{kind, []*spec{sp}})
	}
	// census: which opcodes were really executed (the driver checks the list against the regenerated table)
	var seen []byte
	for i, n := range opSeen {
		if n > 0 {
			seen = append(seen, byte(i))
			g.Count("opcodes-executed")
		}
	}
	g.Case("census opcodes executed", []string{hx.CaseOp(), "opsseen list=" + hx.Hex(seen)}, true)
}
