package c20

// Coverage-guided widening: every opcode of the installed table with boundary operands, the precompiled contracts
// (both exported sets, directly through RunPrecompiledContract and through the call family), the entry points
// UTXOCall / Reset / SetToken / AddOtx / GetOTxs / Upgrade / Cancel and vm/runtime's Call / TokenCall / Create /
// Execute, NoRecursion and preimage recording, new-account surcharges, address collisions.

import (
	"fmt"
	"math/big"
	"math/rand"
	"strings"

	"github.com/lianxiangcloud/linkchain/libs/common"
	"github.com/lianxiangcloud/linkchain/vm/evm"

	"lvharness/hx"
)

func boundaryWords() []*big.Int {
	return []*big.Int{big.NewInt(0), big.NewInt(1), big.NewInt(2), big.NewInt(31), big.NewInt(32), big.NewInt(255), big.NewInt(256),
		pow2(64), pow2(128), plus(pow2(255), -1), pow2(255), plus(pow2(255), 1), plus(hugeWord, -1), new(big.Int).Set(hugeWord)}
}

// every opcode of the table at least once, arithmetic/comparison/bitwise ones over all boundary operand pairs
func opcodeTourCases(add func(h string, sp ...*spec)) {
	z := func() *big.Int { return new(big.Int) }
	ws := boundaryWords()
	bin := []byte{oADD, oMUL, oSUB, oDIV, 0x05, 0x06, 0x07, oEXP, 0x0b, 0x10, 0x11, 0x12, 0x13, 0x14, 0x16, 0x17, 0x18, 0x1a, 0x1b, 0x1c, 0x1d}
	var group []*spec
	for _, op := range bin {
		a := &asm{}
		for _, x := range ws {
			for _, y := range ws {
				a.push(x).push(y).op(op, oPOP)
			}
		}
		a.op(oSTOP)
		group = append(group, &spec{mode: "call", code: a.b, gas: 3000000, value: z(), maxLns: 120})
	}
	add("directed opcode-sweep binary", group...)
	{
		a := &asm{}
		for _, x := range ws {
			a.push(x).op(oISZERO, oPOP).push(x).op(0x19, oPOP) // ISZERO, NOT
			a.push(x).op(oCALLDATALOAD, oPOP).push(x).op(0x40, oPOP).push(x).op(oBALANCE, oPOP).push(x).op(oEXTCODESIZE, oPOP).push(x).op(oEXTCODEHASH, oPOP)
			a.push(x).op(oSLOAD, oPOP)
		}
		small := ws[:8]
		for _, x := range small {
			for _, y := range small {
				for _, m := range []*big.Int{big.NewInt(0), big.NewInt(1), big.NewInt(7), hugeWord} {
					a.push(m).push(y).push(x).op(0x08, oPOP).push(m).push(y).push(x).op(0x09, oPOP) // ADDMOD, MULMOD
				}
			}
		}
		for _, m := range ws {
			a.push(m).push(hugeWord).push(hugeWord).op(0x08, oPOP).push(m).push(hugeWord).push(pow2(255)).op(0x09, oPOP)
		}
		a.op(oSTOP)
		add("directed opcode-sweep unary-ternary", &spec{mode: "call", code: a.b, gas: 3000000, value: z(), maxLns: 120})
	}
	// the tour: environment, every PUSH/DUP/SWAP/LOG, memory, storage, token and call ops; variants end differently
	tour := func(end []byte, token bool, value *big.Int) *spec {
		a := &asm{}
		for _, o := range []byte{oADDRESS, 0x32, 0x33, oCALLVALUE, oCALLDATASIZE, oCODESIZE, 0x3a, oRETURNDATASIZE, 0x41, 0x42, 0x43, 0x44, 0x45, oPC, oMSIZE, oGAS,
			oCALLTOKENADDRESS, oCALLTOKENVALUE} {
			a.op(o, oPOP)
		}
		for n := 1; n <= 32; n++ {
			bs := make([]byte, n)
			for i := range bs {
				bs[i] = byte(0x80 + i)
			}
			a.op(byte(0x5f + n)).op(bs...).op(oPOP)
		}
		for i := 0; i < 17; i++ {
			a.pushU(uint64(i + 1))
		}
		for n := 0; n < 16; n++ {
			a.op(byte(oDUP1+n), oPOP, byte(oSWAP1+n))
		}
		for i := 0; i < 17; i++ {
			a.op(oPOP)
		}
		a.op(oJUMPDEST)
		a.pushU(0xab).pushU(0).op(oMSTORE).pushU(0xcd).pushU(33).op(oMSTORE8).pushU(0).op(oMLOAD, oPOP)
		a.pushU(32).pushU(0).op(oSHA3, oPOP)
		a.pushU(8).pushU(0).pushU(64).op(oCALLDATACOPY).pushU(8).pushU(0).pushU(72).op(oCODECOPY).pushU(8).pushU(0).pushU(80).pushA(aRet).op(oEXTCODECOPY)
		for n := 0; n <= 4; n++ {
			for i := 0; i < n; i++ {
				a.pushU(uint64(i))
			}
			a.pushU(4).pushU(0).op(byte(oLOG0 + n))
		}
		a.pushU(5).pushU(1).op(oSSTORE).pushU(0).pushU(1).op(oSSTORE).pushU(3).op(oSLOAD, oPOP)
		a.pushA(aSender).pushA(common.EmptyAddress).op(oBALANCETOKEN, oPOP)
		a.pushA(aPlain).pushA(aSecond).pushU(3).op(oTRANSFERTOKEN)
		a.pushA(aPlain).pushA(common.EmptyAddress).pushU(0).op(oTRANSFERTOKEN)
		leaveReturnData(a, 0)
		a.pushU(32).pushU(0).pushU(0).op(oRETURNDATACOPY)
		leaveReturnData(a, 3)
		a.pushU(0).pushU(0).pushU(0).pushU(0).pushU(0).pushA(aStop).op(oGAS, oCALLCODE, oPOP)
		a.pushU(0).pushU(0).pushU(0).pushU(0).pushA(aStop).op(oGAS, oDELEGATECALL, oPOP)
		a.pushBytes([]byte{oSTOP}).pushU(0).op(oMSTORE).pushU(1).pushU(31).pushU(0).op(oCREATE, oPOP)
		a.pushU(9).pushU(1).pushU(31).pushU(0).op(oCREATE2, oPOP)
		a.pushU(1).push2(a.here() + 5).op(oJUMPI, oJUMPDEST).push2(a.here() + 5).op(oJUMP, oJUMPDEST)
		a.op(end...)
		return &spec{mode: "call", code: a.b, gas: 3000000, value: value, token: token, input: []byte{1, 2, 3, 4, 5, 6, 7, 8, 9}, maxLns: 400}
	}
	add("directed opcode-tour",
		tour([]byte{oSTOP}, false, z()), tour([]byte{0x60, 0x20, 0x60, 0x00, oRETURN}, false, big.NewInt(5)), tour([]byte{0x60, 0x20, 0x60, 0x00, oREVERT}, true, big.NewInt(5)),
		tour([]byte{0x60, 0x01, oISSUE, oSTOP}, true, z()), tour([]byte{0x73, 0, 0, 0, 0, 0, 0, 0, 0, 0, 0, 0, 0, 0, 0, 0, 0, 0, 0, 0x20, 0x01, oSELFDESTRUCT}, false, z()),
		tour([]byte{oINVALID}, false, z()))
}

func preLine(set string, addr int, gas uint64, in []byte) string {
	return fmt.Sprintf("pre set=%s addr=%d gas=%d in=%s", set, addr, gas, hx.Hex(in))
}

func word32(v *big.Int) []byte { return common.LeftPadBytes(v.Bytes(), 32)[:32] }

// inputs for the precompiled contracts: lengths around every boundary the code has, structured and random content
func precompileInputs(r *rand.Rand, addr int) [][]byte {
	var ins [][]byte
	lens := []int{0, 1, 31, 32, 33, 63, 64, 65, 95, 96, 97, 127, 128, 129, 191, 192, 193, 255, 256, 383, 384, 385, 1000, 5000}
	for _, n := range lens {
		zero := make([]byte, n)
		rnd := make([]byte, n)
		r.Read(rnd)
		ff := []byte(strings.Repeat("\xff", n))
		ins = append(ins, zero, rnd, ff)
	}
	switch addr {
	case 1: // ecrecover: v in {27, 28, 0, 29}, r/s zero, n-1, n, 2^256-1
		n, _ := new(big.Int).SetString("fffffffffffffffffffffffffffffffebaaedce6af48a03bbfd25e8cd0364141", 16)
		for _, v := range []int64{0, 26, 27, 28, 29, 255} {
			for _, x := range []*big.Int{big.NewInt(0), big.NewInt(1), plus(n, -1), n, hugeWord} {
				in := append(append(append(word32(big.NewInt(0x1234)), word32(big.NewInt(v))...), word32(x)...), word32(big.NewInt(1))...)
				ins = append(ins, in, append(append([]byte{}, in...), 0xee))
			}
		}
	case 5: // modexp: (baseLen, expLen, modLen) headers around every branch of RequiredGas and beyond uint64
		ls := []*big.Int{big.NewInt(0), big.NewInt(1), big.NewInt(31), big.NewInt(32), big.NewInt(33), big.NewInt(64), big.NewInt(65), big.NewInt(1024), big.NewInt(1025),
			pow2(32), plus(pow2(63), -1), pow2(63), plus(pow2(64), -1), pow2(64), pow2(255), hugeWord}
		es := []*big.Int{big.NewInt(0), big.NewInt(1), big.NewInt(32), big.NewInt(33), big.NewInt(1025), plus(pow2(64), -1), pow2(64), hugeWord}
		for _, b := range ls {
			for _, e := range es {
				for _, m := range []*big.Int{big.NewInt(0), big.NewInt(1), big.NewInt(65), big.NewInt(1025), hugeWord} {
					hdr := append(append(word32(b), word32(e)...), word32(m)...)
					ins = append(ins, hdr, append(append([]byte{}, hdr...), []byte(strings.Repeat("\xff", 40))...))
				}
			}
		}
	case 6, 7, 8: // bn256: the generator (1,2), the point at infinity, points off the curve, coordinates >= p
		p, _ := new(big.Int).SetString("30644e72e131a029b85045b68181585d97816a916871ca8d3c208c16d87cfd47", 16)
		g1 := append(word32(big.NewInt(1)), word32(big.NewInt(2))...)
		inf := make([]byte, 64)
		off := append(word32(big.NewInt(1)), word32(big.NewInt(1))...)
		big1 := append(word32(p), word32(big.NewInt(2))...)
		for _, a := range [][]byte{g1, inf, off, big1} {
			for _, b := range [][]byte{g1, inf, off} {
				ins = append(ins, append(append([]byte{}, a...), b...), append(append([]byte{}, a...), word32(hugeWord)...), append(append([]byte{}, a...), word32(big.NewInt(2))...))
			}
			pairing := append(append([]byte{}, a...), make([]byte, 128)...)
			ins = append(ins, pairing, append(append([]byte{}, pairing...), pairing...))
		}
	}
	return ins
}

// op lines: every precompile of both exported sets on every input with gas required-1, required, required+1, 0 and plenty.
// A price above 10^8 is only probed on the out-of-gas side (nobody can pay it; the bodies are not run with it).
func precompileOps(r *rand.Rand, count func(string)) [][]string {
	var cases [][]string
	for _, set := range []string{"h", "b"} {
		max := 5
		if set == "b" {
			max = 9
		}
		for addr := 1; addr <= max; addr++ {
			m := evm.PrecompiledContractsHomestead
			if set == "b" {
				m = evm.PrecompiledContractsByzantium
			}
			p := m[common.BytesToAddress([]byte{byte(addr)})]
			var ops []string
			for _, in := range precompileInputs(r, addr) {
				if p == nil {
					ops = append(ops, preLine(set, addr, 1000, in))
					break
				}
				req := p.RequiredGas(in)
				gs := []uint64{0}
				if req > 0 {
					gs = append(gs, req-1)
				}
				if req <= 100000000 {
					gs = append(gs, req, req+1, 200000000)
					count("precompile-paid")
				} else {
					gs = append(gs, 100000000)
					count("precompile-unpayable")
				}
				for _, g := range gs {
					ops = append(ops, preLine(set, addr, g, in))
				}
			}
			for i := 0; i < len(ops); i += 60 {
				j := i + 60
				if j > len(ops) {
					j = len(ops)
				}
				cases = append(cases, append([]string{fmt.Sprintf("directed precompile %s/%d #%d", set, addr, i/60)}, ops[i:j]...))
			}
		}
	}
	return cases
}

// the precompile addresses through the call family, with and without value, at the gas boundary
func precompileCallCases(add func(h string, sp ...*spec)) {
	z := func() *big.Int { return new(big.Int) }
	for addr := 1; addr <= 9; addr++ {
		t := common.BytesToAddress([]byte{byte(addr)})
		p := evm.PrecompiledContractsHomestead[t]
		var group []*spec
		for _, op := range []byte{oCALL, oCALLCODE, oDELEGATECALL, oSTATICCALL} {
			for _, inLen := range []uint64{0, 32, 33} {
				req := uint64(700)
				if p != nil {
					req = p.RequiredGas(make([]byte, inLen))
				}
				for _, g := range []uint64{req - 1, req} {
					for _, val := range []uint64{0, 1} {
						if val == 1 && op != oCALL && op != oCALLCODE {
							continue
						}
						a := &asm{}
						a.pushU(0x1234).pushU(0).op(oMSTORE)
						a.pushU(32).pushU(160).pushU(inLen).pushU(0)
						if op == oCALL || op == oCALLCODE {
							a.pushU(val)
						}
						a.pushA(t).pushU(g).op(op, oPOP, oRETURNDATASIZE, oPOP, oGAS, oPOP, oSTOP)
						gas := uint64(100000)
						if val == 1 {
							gas = 700000 // the transfer fee alone is MinGasLimit = 500000
						}
						group = append(group, &spec{mode: "call", code: a.b, gas: gas, value: z()})
					}
				}
			}
		}
		add(fmt.Sprintf("directed precompile-by-call addr=%d", addr), group...)
	}
}

func entryPointCases(add func(h string, sp ...*spec)) {
	z := func() *big.Int { return new(big.Int) }
	progs := [][]byte{
		{oSTOP}, {oINVALID}, {0x60, 0x00, 0x60, 0x00, oREVERT}, {0x60, 0x07, 0x60, 0x00, oSSTORE, oSTOP}, {0x60, 0x07, 0x60, 0x00, oSSTORE, oINVALID},
		{0x60, 0x01, oISSUE, oSTOP}, selfCall(oCALL), {0x34, 0x60, 0x00, 0x52, 0x60, 0x20, 0x60, 0x00, oRETURN}, // returns CALLVALUE
		{0xe4, 0x60, 0x00, 0x52, 0xe2, 0x60, 0x20, 0x52, 0x60, 0x40, 0x60, 0x00, oRETURN}, // CALLTOKENVALUE, CALLTOKENADDRESS
	}
	// value call with fee from inside, so that the ledger is non-empty at the UTXOCall level
	{
		a := &asm{}
		a.pushU(0).pushU(0).pushU(0).pushU(0).pushU(1).pushA(aPlain).pushU(0).op(oCALL, oPOP, oSTOP)
		progs = append(progs, a.b)
		b := &asm{}
		b.pushU(0).pushU(0).pushU(0).pushU(0).pushU(1).pushA(aFresh).pushU(0).op(oCALL, oPOP) // new-account surcharge
		b.pushA(aFresh).pushA(common.EmptyAddress).pushU(1).op(oTRANSFERTOKEN)
		b.pushA(addr("0xf00e")).pushA(aSecond).pushU(1).op(oTRANSFERTOKEN, oSTOP)
		progs = append(progs, b.b)
	}
	for _, mode := range []string{"utxocall", "rtcall", "rttoken", "rtexec"} {
		var group []*spec
		for _, c := range progs {
			for _, g := range []uint64{0, 100000, 1300000} {
				if g == 0 && mode != "utxocall" {
					g = 1 // vm/runtime's setDefaults turns GasLimit 0 into MaxUint64
				}
				for _, v := range []*big.Int{z(), big.NewInt(1), big10(25)} {
					for _, tk := range []bool{false, true} {
						if tk && mode != "utxocall" {
							continue
						}
						group = append(group, &spec{mode: mode, code: c, gas: g, value: new(big.Int).Set(v), token: tk, input: []byte{0xaa}})
					}
				}
			}
		}
		for i := 0; i < len(group); i += 12 {
			j := i + 12
			if j > len(group) {
				j = len(group)
			}
			add(fmt.Sprintf("directed entry %s #%d", mode, i/12), group[i:j]...)
		}
	}
	var group []*spec
	for _, ic := range [][]byte{{}, {oSTOP}, returnNInit(10, true), returnNInit(maxCodeSize+1, false), {oINVALID}} {
		for _, g := range []uint64{1, 60000, 3000000} {
			group = append(group, &spec{mode: "rtcreate", code: ic, gas: g, value: z()}, &spec{mode: "rtcreate", code: ic, gas: g, value: big.NewInt(1)})
		}
	}
	add("directed entry rtcreate", group...)
	// NoRecursion and preimage recording
	group = nil
	for _, c := range [][]byte{selfCall(oCALL), selfCall(oSTATICCALL), selfCreate(), {0x60, 0x20, 0x60, 0x00, oSHA3, 0x50, 0x60, 0x00, 0x60, 0x00, oSHA3, 0x50, oSTOP}} {
		group = append(group, &spec{mode: "call", code: c, gas: 300000, value: z(), norec: true}, &spec{mode: "call", code: c, gas: 300000, value: z(), preimg: true},
			&spec{mode: "create", code: c, gas: 300000, value: z(), norec: true})
	}
	add("directed norecursion-preimage", group...)
	// CREATE2 to the same address twice (collision), CREATE with more value than the creator owns
	{
		a := &asm{}
		a.pushBytes([]byte{oSTOP}).pushU(0).op(oMSTORE)
		a.pushU(7).pushU(1).pushU(31).pushU(0).op(oCREATE2, oPOP).pushU(7).pushU(1).pushU(31).pushU(0).op(oCREATE2, oPOP)
		a.pushU(1).pushU(31).push(big10(30)).op(oCREATE, oPOP).pushU(8).pushU(1).pushU(31).push(big10(30)).op(oCREATE2, oPOP, oSTOP)
		add("directed create-collision-and-balance", &spec{mode: "call", code: a.b, gas: 1000000, value: z()}, &spec{mode: "utxocall", code: a.b, gas: 1000000, value: z()})
	}
	// calls to an address that does not exist, with and without value (Call / UTXOCall early return and account creation)
	group = nil
	for _, mode := range []string{"call", "utxocall"} {
		for _, v := range []*big.Int{z(), big.NewInt(1), big10(25)} {
			for _, tk := range []bool{false, true} {
				group = append(group, &spec{mode: mode, code: []byte{oSTOP}, gas: 100000, value: new(big.Int).Set(v), token: tk, fresh: true})
			}
		}
	}
	add("directed call-to-nonexistent", group...)
	// BLOCKHASH through the application's context (GetHashFn walks the header chain)
	{
		a := &asm{}
		for _, n := range []*big.Int{big.NewInt(0), big.NewInt(1), big.NewInt(50), big.NewInt(98), big.NewInt(99), big.NewInt(100), big.NewInt(101), plus(pow2(64), -1), pow2(64), hugeWord} {
			a.push(n).op(0x40, oPOP)
		}
		a.op(oSTOP)
		add("directed blockhash-chain", &spec{mode: "utxocall", code: a.b, gas: 100000, value: z()}, &spec{mode: "call", code: a.b, gas: 100000, value: z()})
	}
	// the depth limit seen by every wrapper: recursion by CREATE (all gas is forwarded) down to depth 1025, where the four
	// call ops and CREATE2 fail with ErrDepth
	{
		a := &asm{}
		a.op(oCODESIZE).pushU(0).pushU(0).op(oCODECOPY, oCODESIZE).pushU(0).pushU(0).op(oCREATE, oPOP)
		a.pushU(0).pushU(0).pushU(0).pushU(0).pushU(0).pushA(aStop).pushU(1000).op(oCALL, oPOP)
		a.pushU(0).pushU(0).pushU(0).pushU(0).pushU(0).pushA(aStop).pushU(1000).op(oCALLCODE, oPOP)
		a.pushU(0).pushU(0).pushU(0).pushU(0).pushA(aStop).pushU(1000).op(oDELEGATECALL, oPOP)
		a.pushU(0).pushU(0).pushU(0).pushU(0).pushA(aStop).pushU(1000).op(oSTATICCALL, oPOP)
		a.pushU(1).op(oCODESIZE).pushU(0).pushU(0).op(oCREATE2, oPOP, oSTOP)
		add("directed depth-limit-every-wrapper", &spec{mode: "create", code: a.b, gas: 60000000, value: z(), maxLns: 150})
	}
	// ISSUE tokens drained by every kind of wrapper; decimals() answers that do not decode
	{
		issuer := []byte{0x60, 0x01, oISSUE, oSTOP}
		for _, op := range []byte{oCALL, oCALLCODE, oDELEGATECALL, oSTATICCALL} {
			a := &asm{}
			a.pushU(0).pushU(0).pushU(0).pushU(0)
			if op == oCALL || op == oCALLCODE {
				a.pushU(0)
			}
			a.pushA(aSecond).pushU(60000).op(op, oPOP, oSTOP)
			b := &asm{} // ISSUE here, then the wrapper of a plain callee drains the token
			b.pushU(1).op(oISSUE).pushU(0).pushU(0).pushU(0).pushU(0)
			if op == oCALL || op == oCALLCODE {
				b.pushU(0)
			}
			b.pushA(aRet).pushU(60000).op(op, oPOP, oSTOP)
			add(fmt.Sprintf("directed issue-token-drained-by %#x", op), &spec{mode: "call", code: a.b, code2: issuer, gas: 300000, value: z()},
				&spec{mode: "call", code: b.b, gas: 300000, value: z()}, &spec{mode: "utxocall", code: b.b, gas: 300000, value: z()})
		}
		for _, dec := range []uint64{0, 7, 8, 26, 27, 255, 256} {
			a := &asm{}
			a.op(oCALLDATASIZE).push2(9).op(oJUMPI)
			a.pushU(1).op(oISSUE, oSTOP)
			a.op(oJUMPDEST).pushU(dec).pushU(0).op(oMSTORE).pushU(32).pushU(0).op(oRETURN)
			add(fmt.Sprintf("directed issue-decimals-answer %d", dec), &spec{mode: "call", code: a.b, gas: 60000, value: z()})
		}
	}
	// a value call that cannot even pay its base price while asking for 2^256-1 gas: the price overflows after the fee
	// was recorded (the ledger entry must be popped again)
	{
		a := &asm{}
		a.pushU(0).pushU(0).pushU(0).pushU(0).pushU(1).pushA(aPlain).push(hugeWord).op(oCALL, oPOP, oSTOP)
		add("directed value-call-price-overflow", &spec{mode: "call", code: a.b, gas: 100000, value: z()}, &spec{mode: "utxocall", code: a.b, gas: 600000, value: z()})
	}
	// Cancel (the abort flag rpc/ethapi sets on a timeout): stop after step k of programs with sub-frames and writes
	group = nil
	for _, c := range [][]byte{selfCall(oCALL), selfCreate(), {0x60, 0x07, 0x60, 0x00, oSSTORE, 0x60, 0x08, 0x60, 0x01, oSSTORE, 0x60, 0x01, oISSUE, oSTOP}} {
		for _, k := range []int{1, 2, 5, 9, 30} {
			group = append(group, &spec{mode: "call", code: c, gas: 500000, value: big.NewInt(1), cancel: k}, &spec{mode: "utxocall", code: c, gas: 500000, value: z(), cancel: k})
		}
	}
	add("directed cancel", group...)
}
