// Package c17: correspondence + monitors for the proposer schedule / validator-set updates
// against the real types.ValidatorSet.
package c17

import (
	"bytes"
	"crypto/sha256"
	"fmt"
	consensus "github.com/lianxiangcloud/linkchain/consensus"
	"math"
	"strconv"
	"strings"

	cmn "github.com/lianxiangcloud/linkchain/libs/common"
	"github.com/lianxiangcloud/linkchain/libs/crypto"
	"github.com/lianxiangcloud/linkchain/types"

	"lvharness/hx"
)

type P struct{}

func (P) Rule() string {
	return "cases: random validator sets (1..10 validators, power classes equal/skewed/2^61/2^62/MaxInt64/zero), " +
		"op sequences of new/incr(times)/add/update/remove/run(n)/hashclass incl. every split of a rotation count and permuted constructions; " +
		"non-trivial = at least two validators with unequal accums reached and at least one rotation or update after construction; distinct = distinct op sequence"
}

type exec struct {
	vs      *types.ValidatorSet
	classes [][]byte // hashes seen in this case (hashclass op)
}

func (P) NewExec() hx.Executor { return &exec{} }

func mkVal(addr []byte, power, accum int64) *types.Validator {
	h := sha256.Sum256(addr)
	var pk crypto.PubKeyEd25519
	copy(pk[:], h[:])
	var cb cmn.Address
	copy(cb[:], h[:20])
	return &types.Validator{Address: crypto.Address(append([]byte{}, addr...)), PubKey: pk, CoinBase: cb, VotingPower: power, Accum: accum}
}

func parseVals(toks []string) []*types.Validator {
	as, _ := hx.Arg(toks, "addrs")
	ps, _ := hx.Arg(toks, "powers")
	cs, hasAcc := hx.Arg(toks, "accums")
	addrs, powers, accums := hx.SplitComma(as), hx.SplitComma(ps), hx.SplitComma(cs)
	var out []*types.Validator
	for i := range addrs {
		p, _ := strconv.ParseInt(powers[i], 10, 64)
		var c int64
		if hasAcc {
			c, _ = strconv.ParseInt(accums[i], 10, 64)
		}
		out = append(out, mkVal(hx.UnHex(addrs[i]), p, c))
	}
	return out
}

func show(vs *types.ValidatorSet) string {
	prop := "nil"
	if p := vs.GetProposer(); p != nil {
		prop = hx.Hex(p.Address)
	}
	var addrs []string
	var powers, accums []int64
	for _, v := range vs.Validators {
		addrs = append(addrs, hx.Hex(v.Address))
		powers = append(powers, v.VotingPower)
		accums = append(accums, v.Accum)
	}
	a := strings.Join(addrs, ",")
	return fmt.Sprintf("prop=%s addrs=%s powers=%s accums=%s total=%d", prop, a, hx.JoinInts(powers), hx.JoinInts(accums), vs.TotalVotingPower())
}

func (e *exec) Exec(op string) string {
	toks := hx.Tokens(op)
	switch toks[0] {
	case "case":
		e.classes = nil
		e.vs = nil
		return "ok"
	case "new":
		e.vs = nil
		e.vs = types.NewValidatorSet(parseVals(toks))
		return show(e.vs)
	case "raw":
		e.vs = &types.ValidatorSet{Validators: parseVals(toks)}
		return show(e.vs)
	}
	if e.vs == nil {
		return "dead"
	}
	vs := e.vs
	e.vs = nil // stays dead if the op panics
	var ans string
	switch toks[0] {
	case "incr":
		t, _ := hx.Arg(toks, "times")
		n, _ := strconv.Atoi(t)
		vs.IncrementAccum(n)
		ans = show(vs)
	case "run":
		t, _ := hx.Arg(toks, "n")
		n, _ := strconv.Atoi(t)
		counts := make([]int64, len(vs.Validators))
		for i := 0; i < n; i++ {
			vs.IncrementAccum(1)
			p := vs.GetProposer()
			for j, v := range vs.Validators {
				if bytes.Equal(v.Address, p.Address) {
					counts[j]++
				}
			}
		}
		ans = "counts=" + hx.JoinInts(counts) + " " + show(vs)
	case "add":
		ok := vs.Add(parseVals(toks)[0])
		ans = fmt.Sprintf("ok=%v %s", ok, show(vs))
	case "update":
		ok := vs.Update(parseVals(toks)[0])
		ans = fmt.Sprintf("ok=%v %s", ok, show(vs))
	case "remove":
		a, _ := hx.Arg(toks, "addr")
		_, ok := vs.Remove(hx.UnHex(a))
		ans = fmt.Sprintf("ok=%v %s", ok, show(vs))
	case "next":
		// one block transition through the REAL consensus.updateStatus (hook VerifUpdateStatus): the application's validator
		// list (empty = no list) against the current set
		var cands []*types.Validator
		if a, ok := hx.Arg(toks, "addrs"); ok && a != "-" && a != "" {
			cands = parseVals(toks)
		}
		ns, err := consensus.VerifUpdateStatus(consensus.NewStatus{Validators: vs, LastValidators: vs.Copy()}, types.BlockID{}, &types.Header{Height: 7}, cands)
		if err != nil {
			return "err"
		}
		if ns.LastValidators == nil || !bytes.Equal(ns.LastValidators.Hash(), vs.Hash()) {
			return "last-validators-not-the-previous-set"
		}
		vs = ns.Validators
		ans = show(vs)
	case "copy":
		vs = vs.Copy()
		ans = show(vs)
	case "show":
		ans = show(vs)
	case "hashclass":
		h := vs.Hash()
		k := -1
		for i, c := range e.classes {
			if bytes.Equal(c, h) {
				k = i
				break
			}
		}
		if k < 0 {
			e.classes = append(e.classes, h)
			k = len(e.classes) - 1
		}
		ans = fmt.Sprintf("class=%d", k)
	default:
		ans = "bad-op"
	}
	e.vs = vs
	return ans
}

// ---- monitors ------------------------------------------------------------------------------

// Monitor: (1) path independence: the states recorded at `mark`-tagged twin points must agree;
// (2) proportionality on `run` answers; (3) no panic on well-formed (non-empty, distinct-address) sets.
func (P) Monitor(c *hx.CaseRun) []hx.Failure {
	var fs []hx.Failure
	// path independence: the case has the form  new X ; incr a1 ; ... ; incr ak | new X ; incr (a1+..+ak)
	if c.Tags["split"] {
		var finals []string
		bulk := false
		for i, op := range c.Ops {
			if strings.HasPrefix(op, "incr ") {
				t, _ := hx.Arg(hx.Tokens(op), "times")
				if n, _ := strconv.Atoi(t); n >= 2 {
					bulk = true
				}
			}
			last := i == len(c.Ops)-1 || strings.HasPrefix(c.Ops[i+1], "new ")
			if last && !strings.HasPrefix(op, "case") && !strings.HasPrefix(op, "new ") {
				finals = append(finals, c.Impl[i])
			}
		}
		for i := 1; i < len(finals); i++ {
			if finals[i] != finals[0] {
				class := "path-dependence-other"
				if bulk {
					class = "bulk-increment-path-dependence"
				}
				fs = append(fs, hx.Failure{Monitor: "proposer_path_independent", Class: class, Site: "types/validator_set.go:IncrementAccum",
					Msg: fmt.Sprintf("same set, same total rotation count, different split: %q vs %q", finals[0], finals[i])})
				break
			}
		}
	}
	// same application output, same next set: the case runs one chain of block transitions twice, the second time with every
	// validator list permuted; both replicas must hold the same set (content, accums, proposer)
	// after every block, and the same identity class at the end
	if c.Tags["blocks"] {
		var runs [][]string
		var classes []string
		for i, op := range c.Ops {
			switch {
			case strings.HasPrefix(op, "new "):
				runs = append(runs, nil)
			case strings.HasPrefix(op, "next ") && len(runs) > 0:
				runs[len(runs)-1] = append(runs[len(runs)-1], c.Impl[i])
			case op == "hashclass":
				classes = append(classes, c.Impl[i])
			}
		}
		if len(runs) == 2 {
			for j := 0; j < len(runs[0]) && j < len(runs[1]); j++ {
				if runs[0][j] != runs[1][j] {
					fs = append(fs, hx.Failure{Monitor: "next_set_order_free", Class: "next-validator-set-depends-on-list-order", Site: "consensus/execution.go:updateStatus",
						Msg: fmt.Sprintf("block %d: the same validator list in another order gave %q vs %q", j+1, runs[0][j], runs[1][j])})
					break
				}
			}
		}
		if len(classes) == 2 && classes[0] != classes[1] {
			fs = append(fs, hx.Failure{Monitor: "next_set_order_free", Class: "next-validator-set-depends-on-list-order", Site: "consensus/execution.go:updateStatus",
				Msg: "the two replicas end in sets of different identity: " + classes[0] + " vs " + classes[1]})
		}
		for i, ans := range c.Impl {
			if ans == "last-validators-not-the-previous-set" || ans == "err" {
				fs = append(fs, hx.Failure{Monitor: "next_set_order_free", Class: "update-status-" + ans, Site: "consensus/execution.go:updateStatus", Msg: c.Ops[i] + " -> " + ans})
			}
		}
	}
	for i, op := range c.Ops {
		ans := c.Impl[i]
		if strings.HasPrefix(ans, "panic") && c.Tags["wellformed"] {
			fs = append(fs, hx.Failure{Monitor: "no_panic_wellformed", Class: "panic:" + strings.TrimPrefix(ans, "panic "), Site: strings.TrimPrefix(ans, "panic "), Msg: "panic on a well-formed validator set: " + op})
		}
		if strings.HasPrefix(op, "run ") && strings.HasPrefix(ans, "counts=") && c.Tags["noclip"] {
			// proportionality: |count_i * T - n * p_i| < N * T
			toks := hx.Tokens(ans)
			cs, _ := hx.Arg(toks, "counts")
			ps, _ := hx.Arg(toks, "powers")
			ts, _ := hx.Arg(toks, "total")
			ns, _ := hx.Arg(hx.Tokens(op), "n")
			n, _ := strconv.ParseInt(ns, 10, 64)
			T, _ := strconv.ParseInt(ts, 10, 64)
			counts, powers := hx.SplitComma(cs), hx.SplitComma(ps)
			N := int64(len(counts))
			for j := range counts {
				cj, _ := strconv.ParseInt(counts[j], 10, 64)
				pj, _ := strconv.ParseInt(powers[j], 10, 64)
				d := cj*T - n*pj
				if d < 0 {
					d = -d
				}
				if d >= N*T {
					fs = append(fs, hx.Failure{Monitor: "proposer_proportional", Class: "disproportional", Site: "types/validator_set.go:IncrementAccum",
						Msg: fmt.Sprintf("validator %d proposed %d of %d steps with power %d of %d", j, cj, n, pj, T)})
				}
			}
		}
	}
	return fs
}

// ---- generator -----------------------------------------------------------------------------

func addrOf(i int) string {
	b := make([]byte, 20)
	h := sha256.Sum256([]byte{byte(i), byte(i >> 8)})
	copy(b, h[:20])
	return hx.Hex(b)
}

func valsLine(op string, idx []int, powers, accums []int64) string {
	var as []string
	for _, i := range idx {
		as = append(as, addrOf(i))
	}
	s := fmt.Sprintf("%s addrs=%s powers=%s", op, strings.Join(as, ","), hx.JoinInts(powers))
	if accums != nil {
		s += " accums=" + hx.JoinInts(accums)
	}
	return s
}

func genPowers(g *hx.Gen, n int) ([]int64, string) {
	ps := make([]int64, n)
	kind := []string{"equal", "small", "skewed", "whale", "big61", "big62", "maxint", "withzero"}[g.Rng.Intn(8)]
	for i := range ps {
		switch kind {
		case "equal":
			ps[i] = 10
		case "small":
			ps[i] = int64(1 + g.Rng.Intn(6))
		case "skewed":
			ps[i] = int64(1) << uint(g.Rng.Intn(20))
		case "whale":
			ps[i] = int64(1 + g.Rng.Intn(3))
			if i == 0 {
				ps[i] = 1000
			}
		case "big61":
			ps[i] = (int64(1) << 61) - int64(g.Rng.Intn(5))
		case "big62":
			ps[i] = (int64(1) << 62) + int64(g.Rng.Intn(5))
		case "maxint":
			ps[i] = math.MaxInt64 - int64(g.Rng.Intn(3))
		case "withzero":
			ps[i] = int64(g.Rng.Intn(3))
		}
	}
	return ps, kind
}

func noclipKind(k string) bool { return k == "equal" || k == "small" || k == "skewed" || k == "whale" }

func compositions(n int) [][]int {
	if n == 0 {
		return [][]int{{}}
	}
	var out [][]int
	for first := 1; first <= n; first++ {
		for _, rest := range compositions(n - first) {
			out = append(out, append([]int{first}, rest...))
		}
	}
	return out
}

func (P) Generate(g *hx.Gen) {
	// corpus: the probe's witness (powers 1,1,3, split 1+1 vs 2)
	g.Case("corpus path 1,1,3", []string{hx.CaseOp("split", "wellformed"), valsLine("new", []int{1, 2, 3}, []int64{1, 1, 3}, nil), "incr times=1", "incr times=1",
		valsLine("new", []int{1, 2, 3}, []int64{1, 1, 3}, nil), "incr times=2"}, true)

	// (A) every split of a rotation count
	nA := g.Pick(40, 600)
	for k := 0; k < nA; k++ {
		n := 1 + g.Rng.Intn(7)
		idx := g.Rng.Perm(30)[:n]
		ps, kind := genPowers(g, n)
		total := 1 + g.Rng.Intn(g.Pick(5, 8))
		comps := compositions(total)
		ops := []string{hx.CaseOp("split", "wellformed")}
		for _, comp := range comps {
			ops = append(ops, valsLine("new", idx, ps, nil))
			for _, t := range comp {
				ops = append(ops, fmt.Sprintf("incr times=%d", t))
			}
		}
		g.Count("power-kind:" + kind)
		g.Count(fmt.Sprintf("size:%d", n))
		g.Case(fmt.Sprintf("splits n=%d total=%d kind=%s", n, total, kind), ops, n >= 2 && kind != "equal")
	}

	// (B) random op sequences incl. add/update/remove, permuted constructions and hash classes
	nB := g.Pick(150, 4000)
	for k := 0; k < nB; k++ {
		n := 1 + g.Rng.Intn(10)
		idx := g.Rng.Perm(40)[:n]
		ps, kind := genPowers(g, n)
		ops := []string{"case", valsLine("new", idx, ps, nil), "hashclass"}
		// the same content in another order must have the same identity
		perm := g.Rng.Perm(n)
		idx2 := make([]int, n)
		ps2 := make([]int64, n)
		for i, p := range perm {
			idx2[i], ps2[i] = idx[p], ps[p]
		}
		ops = append(ops, valsLine("new", idx2, ps2, nil), "hashclass")
		live := append([]int{}, idx...)
		steps := 3 + g.Rng.Intn(g.Pick(12, 30))
		nontriv := false
		for s := 0; s < steps; s++ {
			switch r := g.Rng.Intn(10); {
			case r < 4:
				ops = append(ops, fmt.Sprintf("incr times=%d", []int{1, 1, 1, 2, 3, 0, 5}[g.Rng.Intn(7)]))
				nontriv = true
			case r == 4:
				i := g.Rng.Intn(45)
				ops = append(ops, valsLine("add", []int{i}, []int64{int64(1 + g.Rng.Intn(50))}, []int64{int64(g.Rng.Intn(20) - 10)}))
				live = append(live, i)
				nontriv = true
			case r == 5 && len(live) > 0:
				i := live[g.Rng.Intn(len(live))]
				ops = append(ops, valsLine("update", []int{i}, []int64{int64(1 + g.Rng.Intn(50))}, []int64{int64(g.Rng.Intn(20) - 10)}))
				nontriv = true
			case r == 6 && len(live) > 1:
				j := g.Rng.Intn(len(live))
				ops = append(ops, "remove addr="+addrOf(live[j]))
				live = append(live[:j], live[j+1:]...)
			case r == 7:
				ops = append(ops, "hashclass")
			case r == 8:
				ops = append(ops, "copy")
			default:
				ops = append(ops, "show")
			}
		}
		ops = append(ops, "hashclass")
		g.Count("power-kind:" + kind)
		g.Case(fmt.Sprintf("ops n=%d kind=%s", n, kind), ops, nontriv && n >= 2)
	}

	// (C) proportionality windows (no clipping, positive powers)
	nC := g.Pick(12, 200)
	for k := 0; k < nC; k++ {
		n := 1 + g.Rng.Intn(8)
		idx := g.Rng.Perm(30)[:n]
		var ps []int64
		var kind string
		for {
			ps, kind = genPowers(g, n)
			if noclipKind(kind) {
				break
			}
		}
		steps := g.Pick(500, 5000)
		ops := []string{hx.CaseOp("noclip", "wellformed"), valsLine("new", idx, ps, nil), fmt.Sprintf("run n=%d", steps), fmt.Sprintf("run n=%d", 1+g.Rng.Intn(50))}
		g.Case(fmt.Sprintf("window n=%d kind=%s", n, kind), ops, n >= 2)
	}

	// (D) malformed stream: empty set, extreme accums
	g.Case("empty set", []string{"case", "new addrs=- powers=-", "incr times=0", "incr times=1"}, false)

	// (D) chains of block transitions through the real updateStatus: per block the application hands over no list, the
	// same set again (identity is content: address, key, coinbase, power), or a changed set (power changed, validator
	// added, removed, replaced); two nodes that receive the same lists in different ORDER must hold the same set afterwards
	nD := g.Pick(60, 600)
	for k := 0; k < nD; k++ {
		n := 1 + g.Rng.Intn(6)
		idx := g.Rng.Perm(30)[:n]
		ps, kind := genPowers(g, n)
		if kind == "withzero" || !noclipKind(kind) && g.Rng.Intn(2) == 0 {
			ps, kind = genPowers(g, n)
		}
		type step struct {
			idx []int
			ps  []int64
			acc []int64 // accums the application's list carries (part of its output: the same on every node)
		}
		var steps []step
		curIdx, curPs := append([]int{}, idx...), append([]int64{}, ps...)
		blocks := 2 + g.Rng.Intn(6)
		changed := 0
		for b := 0; b < blocks; b++ {
			switch r := g.Rng.Intn(8); {
			case r < 3: // no list
				steps = append(steps, step{})
			case r == 3: // the same content
				steps = append(steps, step{idx: append([]int{}, curIdx...), ps: append([]int64{}, curPs...)})
			default:
				ni, np := append([]int{}, curIdx...), append([]int64{}, curPs...)
				switch m := g.Rng.Intn(4); {
				case m == 0 && len(ni) > 1: // remove one
					j := g.Rng.Intn(len(ni))
					ni, np = append(ni[:j:j], ni[j+1:]...), append(np[:j:j], np[j+1:]...)
				case m == 1 && len(ni) < 8: // add one
					for _, c := range g.Rng.Perm(30) {
						fresh := true
						for _, x := range ni {
							if x == c {
								fresh = false
							}
						}
						if fresh {
							ni, np = append(ni, c), append(np, int64(1+g.Rng.Intn(50)))
							break
						}
					}
				default: // change a power
					j := g.Rng.Intn(len(ni))
					np[j] = np[j]/2 + int64(1+g.Rng.Intn(9))
				}
				steps = append(steps, step{idx: ni, ps: np})
				curIdx, curPs = ni, np
				changed++
			}
		}
		for i := range steps {
			if steps[i].idx != nil && g.Rng.Intn(2) == 0 {
				steps[i].acc = make([]int64, len(steps[i].idx))
				for a := range steps[i].acc {
					steps[i].acc[a] = int64(g.Rng.Intn(2000) - 1000)
				}
			}
		}
		ops := []string{hx.CaseOp("blocks", "wellformed")}
		for rep := 0; rep < 2; rep++ { // the same chain twice, the second time with every list permuted
			ops = append(ops, valsLine("new", idx, ps, nil))
			for _, st := range steps {
				if st.idx == nil {
					ops = append(ops, "next addrs=- powers=-")
					continue
				}
				ii, pp, acc := st.idx, st.ps, st.acc
				if rep == 1 {
					perm := g.Rng.Perm(len(ii))
					ii2, pp2 := make([]int, len(ii)), make([]int64, len(ii))
					var acc2 []int64
					if acc != nil {
						acc2 = make([]int64, len(ii))
					}
					for a, b := range perm {
						ii2[a], pp2[a] = ii[b], pp[b]
						if acc != nil {
							acc2[a] = acc[b]
						}
					}
					ii, pp, acc = ii2, pp2, acc2
				}
				ops = append(ops, valsLine("next", ii, pp, acc))
			}
			ops = append(ops, "hashclass")
		}
		g.Count(fmt.Sprintf("blocks-changed:%d", changed))
		g.Case(fmt.Sprintf("blocks n=%d kind=%s blocks=%d changed=%d", n, kind, blocks, changed), ops, changed > 0)
	}
	for k := 0; k < g.Pick(10, 200); k++ {
		n := 1 + g.Rng.Intn(4)
		idx := g.Rng.Perm(30)[:n]
		ps, kind := genPowers(g, n)
		acc := make([]int64, n)
		for i := range acc {
			acc[i] = []int64{math.MinInt64, math.MaxInt64, math.MaxInt64 - 5, math.MinInt64 + 3, 0, -1}[g.Rng.Intn(6)]
		}
		ops := []string{"case", valsLine("new", idx, ps, acc)}
		for s := 0; s < 4; s++ {
			ops = append(ops, fmt.Sprintf("incr times=%d", 1+g.Rng.Intn(5)))
		}
		g.Case("extreme accums kind="+kind, ops, true)
	}
}
