package c05

// Direct tie of Model.StateHash to the REAL order-insensitive state hash (state/keyvalue.go: wrappedTrie.TryUpdate / TryDelete /
// Hash): until the fifth seeded wave the model was tied to the code only through whole-block replicas, in which every key is
// normally written once per hash interval — a comparison function that looks at the key alone (ties between two writes of ONE
// key broken by the heap's internal order) was invisible.  Op: kvh mode=kv|trie ops=u.<key>.<value>,d.<key>,…  -> h=<hash>

import (
	"fmt"
	"strings"

	"github.com/lianxiangcloud/linkchain/libs/common"
	dbm "github.com/lianxiangcloud/linkchain/libs/db"
	"github.com/lianxiangcloud/linkchain/state"

	"lvharness/hx"
)

func kvHash(toks []string) (ans string) {
	defer func() {
		if r := recover(); r != nil {
			ans = fmt.Sprintf("panic %v", r)
		}
	}()
	mode, _ := hx.Arg(toks, "mode")
	opss, _ := hx.Arg(toks, "ops")
	db := state.NewKeyValueDBWithCache(dbm.NewMemDB(), 0, mode == "trie", 0)
	tr, err := db.OpenTrie(common.EmptyHash)
	if err != nil {
		return "err-open"
	}
	n := 0
	for _, o := range strings.Split(opss, ",") {
		p := strings.Split(o, ".")
		switch {
		case len(p) == 3 && p[0] == "u":
			if err := tr.TryUpdate(hx.UnHex(p[1]), hx.UnHex(p[2])); err != nil {
				return "err-update"
			}
			n++
		case len(p) == 2 && p[0] == "d":
			if err := tr.TryDelete(hx.UnHex(p[1])); err != nil {
				return "err-delete"
			}
			n++
		}
	}
	h := tr.Hash()
	// a second Hash() without writes in between is the hash of nothing (the interval is consumed)
	h2 := tr.Hash()
	return fmt.Sprintf("h=%x n=%d again=%x", h[:], n, h2[:8])
}

// kvHashCases: multisets of writes with REPEATED keys (same key: two values, value then delete, delete then value, the same
// write twice), values that are prefixes of each other, empty values; every multiset in several orders and on both modes.
func kvHashCases(g *hx.Gen) {
	n := g.Pick(40, 400)
	for k := 0; k < n; k++ {
		nk := 1 + g.Rng.Intn(4)
		keys := make([]string, nk)
		for i := range keys {
			b := make([]byte, 1+g.Rng.Intn(3)*16)
			g.Rng.Read(b)
			keys[i] = hx.Hex(b)
		}
		var ws []string
		rep := 0
		for i := 0; i < 2+g.Rng.Intn(6); i++ {
			key := keys[g.Rng.Intn(nk)]
			if g.Rng.Intn(5) == 0 {
				ws = append(ws, "d."+key)
			} else {
				v := make([]byte, g.Rng.Intn(5))
				g.Rng.Read(v)
				if g.Rng.Intn(4) == 0 {
					v = []byte("DD") // the byte string the code uses to mark a delete
				}
				ws = append(ws, "u."+key+"."+hx.Hex(v))
			}
		}
		seen := map[string]bool{}
		for _, w := range ws {
			key := strings.Split(w, ".")[1]
			if seen[key] {
				rep++
			}
			seen[key] = true
		}
		ops := []string{hx.CaseOp("kvhash")}
		for o := 0; o < 4; o++ {
			perm := g.Rng.Perm(len(ws))
			if o == 0 {
				for i := range perm {
					perm[i] = i
				}
			} else if o == 1 {
				for i := range perm {
					perm[i] = len(ws) - 1 - i
				}
			}
			var xs []string
			for _, i := range perm {
				xs = append(xs, ws[i])
			}
			ops = append(ops, fmt.Sprintf("kvh mode=%s ops=%s", []string{"kv", "trie"}[o%2], strings.Join(xs, ",")))
		}
		g.Count(fmt.Sprintf("kvhash:repeated-keys:%d", minI(rep, 3)))
		g.Case(fmt.Sprintf("kvhash writes=%d keys=%d repeated=%d", len(ws), nk, rep), ops, rep > 0)
	}
}

func minI(a, b int) int {
	if a < b {
		return a
	}
	return b
}

// kvHashMonitor: within one case every kvh answer is for the same multiset of writes: the hashes must be equal.
func kvHashMonitor(c *hx.CaseRun) []hx.Failure {
	var fs []hx.Failure
	first := ""
	for i, op := range c.Ops {
		if !strings.HasPrefix(op, "kvh ") {
			continue
		}
		ans := c.Impl[i]
		if strings.HasPrefix(ans, "panic") || strings.HasPrefix(ans, "err") {
			fs = append(fs, hx.Failure{Monitor: "state_hash_order_free", Class: "state-hash-" + strings.Fields(ans)[0], Site: "state/keyvalue.go:wrappedTrie", Msg: op + " -> " + ans})
			continue
		}
		h, _ := hx.Arg(hx.Tokens(ans), "h")
		if first == "" {
			first = h
		} else if h != first {
			fs = append(fs, hx.Failure{Monitor: "state_hash_order_free", Class: "state-hash-depends-on-write-order", Site: "state/keyvalue.go:kvHeap.Less",
				Msg: fmt.Sprintf("the same multiset of writes in another order (or mode) hashes to %s instead of %s: %s", h, first, op)})
			break
		}
	}
	return fs
}
