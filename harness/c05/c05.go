// Package c05: executing the same block on the same committed state yields identical results on every replica:
// proposer path vs validator path vs fast-sync commit, trie mode vs kv mode, warm vs cold mempool cache, warm vs cold WASM
// application cache, restarts, replicas that validated another proposal of the same height first, block objects vs blocks
// decoded from their wire bytes, any GOMAXPROCS, and on every repetition (Go randomises map iteration per range statement).
package c05

import (
	"crypto/sha256"
	"fmt"
	"os"
	"runtime"
	"strings"

	"github.com/lianxiangcloud/linkchain/libs/common"
	"github.com/lianxiangcloud/linkchain/libs/ser"
	"github.com/lianxiangcloud/linkchain/types"

	"lvharness/appsim"
	"lvharness/c06"
	"lvharness/hx"
)

type P struct{}

func (P) Rule() string {
	return "each case is a chain of blocks proposed by replica A (trie mode, warm mempool cache, PreRunBlock) and validated + committed by independent replicas. " +
		"Family `replicas` (genesis without system contracts): plain and token transfers, EVM contract calls (storage, logs, reverts), EVM creations of seven kinds, calls of a value-moving EVM " +
		"contract (forward, self-destruct, token transfer, revert, invalid opcode), token calls, account->confidential, confidential->confidential, confidential->account; replicas B (kv, cold cache, " +
		"decoded block) and C (trie, cold). Family `sys` (the REAL genesis: eight WASM system contracts deployed and initialised as cmd/commands/init.go does, candidates registered through the " +
		"pledge/candidates contracts, the node's setPoceeds/allocAward handles): >= 20 blocks with WASM creations and calls (logs, notifications, hashing, value and token transfers, contract-to-contract " +
		"calls, self-destruct, failing calls, truncated modules, out-of-gas), calls of the system contracts, multi-signature and contract-upgrade transactions, duplicate-vote and fault-validator evidence, " +
		"coinbases that are candidates (awards), elections every vote period; replicas: kv/cold, trie/cold, trie/fast-sync commit with a restart every third block, kv with a warm twin mempool cache that " +
		"validated another proposal of the same height first (decoy), a second proposer (kv) that pre-runs the same transactions; every replica owns its WASM application cache. After every block the " +
		"digests of (StateHash, ReceiptHash, GasUsed, bloom, receipts incl. logs, candidates, special transactions, key images, confidential outputs, next validators, candidate scores in the state, " +
		"foundation and coinbase balances) of all replicas are compared, the total supply is compared with the genesis supply, and the whole chain is re-executed from genesis on fresh replicas and must " +
		"reproduce every digest; `elect` ops carry the inputs and the result of every election for the Lean model of the election. non-trivial = some block carries >= 3 transactions of >= 2 kinds incl. " +
		"a contract call, a WASM transaction, a special transaction, evidence or a confidential tx; distinct = distinct op sequence"
}

// DecoyExposure gates the replica that validates ANOTHER proposal of the same height before the block that is committed when that
// proposal carries a contract upgrade (finding proposed/C05-wasm-appcache-outside-state.md: the tc-wasm application cache is a
// process global keyed by address and survives a proposal that is never committed).  Off = the unchanged tree stays green.
const DecoyExposure = true

type profile struct {
	name      string
	trie      bool
	fastsync  bool // CommitBlock(fastsync=true)
	restart   int  // restart (re-open on the same databases, cold caches) before every restart-th block; 0 = never
	decoy     bool // validates the decoy proposal (if the block op has one) before the real block
	warm      bool // mempool cache holds hash-identical twins of the block's transactions (decoded separately)
	proposer2 bool // pre-runs the same transactions itself (PreRunBlock) and must fill the same header
}

var sysProfiles = []profile{
	{name: "kv-cold", trie: false},
	{name: "trie-cold", trie: true},
	{name: "trie-fastsync-restart", trie: true, fastsync: true, restart: 3},
	{name: "kv-warm-decoy", trie: false, decoy: true, warm: true},
	{name: "kv-proposer2", trie: false, proposer2: true},
}

type replica struct {
	s    *appsim.Stack
	prof profile
	n    int // blocks seen
}

type exec struct {
	c       appsim.ChainExec
	digests []string // per committed height, of replica A
	history []string // ops executed so far in this case (for rerun)
	inRerun bool
	// sys chains
	sys       bool
	so        appsim.SysOpts
	reps      []*replica
	nonce     map[int]uint64
	mnonce    uint64
	supply0   string
	pending   *pendingBlock
	elects    map[uint64]string // height -> election line (inputs and result) of the main stack
	noSupply  bool
	sysCalled map[string]bool // inner contracts called by a pending transaction
}

// pendingBlock: what the current sblock op asks for beyond the mempool's transactions
type pendingBlock struct {
	decoy *types.Block
}

func (P) NewExec() hx.Executor {
	e := &exec{nonce: map[int]uint64{}, elects: map[uint64]string{}, sysCalled: map[string]bool{}}
	e.c.ReplicaOpts = []appsim.Opts{{IsTrie: false}, {IsTrie: true}}
	e.c.AfterCommit = e.afterCommit
	return e
}

// digestOf renders everything consensus-visible that executing height h produced on stack s.
func digestOf(s *appsim.Stack, h uint64, tok common.Address, withRoot bool) string {
	r, err := s.BS.LoadTxsResult(h)
	if err != nil || r == nil {
		return "noresult"
	}
	hh := sha256.New()
	fmt.Fprintf(hh, "%x|%x|%d|%x|", r.StateHash, r.ReceiptHash, r.GasUsed, r.LogsBloom)
	if withRoot {
		fmt.Fprintf(hh, "%x|", r.TrieRoot)
	}
	for _, c := range r.Candidates {
		b, _ := ser.EncodeToBytes(c)
		hh.Write(b)
	}
	if rs := s.BS.GetReceipts(h); rs != nil {
		for _, rc := range *rs {
			fmt.Fprintf(hh, "R%d|%d|%s|%x|%x|%d|%x|", rc.Status, rc.GasUsed, rc.VMErr, rc.TxHash, rc.ContractAddress, len(rc.Logs), rc.Bloom)
			for _, l := range rc.Logs {
				fmt.Fprintf(hh, "L%x|%x|%x|%d|%d|", l.Address, l.Topics, l.Data, l.TxIndex, l.Index)
			}
		}
	}
	for _, t := range []common.Address{common.EmptyAddress, tok} {
		max := s.Utxo.GetMaxUtxoOutputSeq(t)
		fmt.Fprintf(hh, "U%d|", max)
		for i := int64(0); i <= max; i++ {
			if outs, err := s.Utxo.GetUtxoOutputs([]uint64{uint64(i)}, t); err == nil && len(outs) == 1 {
				fmt.Fprintf(hh, "%x|%x|%d|", outs[0].OTAddr, outs[0].Commit, outs[0].Height)
			}
		}
	}
	return fmt.Sprintf("%x", hh.Sum(nil)[:8])
}

func (e *exec) afterCommit(b *types.Block) string {
	if e.sys {
		return e.afterCommitSys(b)
	}
	bz, err := ser.EncodeToBytes(b)
	if err != nil {
		return "agree=false why=encode"
	}
	why := ""
	for i, r := range e.c.Replicas {
		var nb *types.Block
		if err := ser.DecodeBytes(bz, &nb); err != nil {
			return "agree=false why=decode"
		}
		ok, err := r.Validate(nb)
		if err != nil || !ok {
			why += fmt.Sprintf("replica%d-rejects-proposed-block;", i)
			if os.Getenv("LVDEBUG") != "" {
				cur := r.App.Block()
				fmt.Fprintf(dbgOut(), "replica %d rejects h=%d: hashEq=%v parentOK=%v (cur h=%d curhash=%x parent=%x) dataOK=%v timeOK=%v err=%v\n", i, nb.Height, nb.Hash() == b.Hash(),
					nb.ParentHash == cur.Hash(), cur.Height, cur.Hash().Bytes()[:4], nb.ParentHash.Bytes()[:4], nb.DataHash == nb.Data.Hash(), nb.Time() > cur.Time()-300, err)
			}
			continue
		}
		if err := r.Commit(nb); err != nil {
			why += fmt.Sprintf("replica%d-commit-error;", i)
		}
	}
	dA := digestOf(e.c.S, b.Height, e.c.Tok, false)
	for i, r := range e.c.Replicas {
		if d := digestOf(r, b.Height, e.c.Tok, false); d != dA {
			why += fmt.Sprintf("replica%d-digest-differs;", i)
		}
	}
	// same storage mode: the trie root must agree too
	if len(e.c.Replicas) > 1 && digestOf(e.c.S, b.Height, e.c.Tok, true) != digestOf(e.c.Replicas[1], b.Height, e.c.Tok, true) {
		why += "trie-root-differs;"
	}
	e.digests = append(e.digests, digestOf(e.c.S, b.Height, e.c.Tok, true))
	if why != "" {
		return "agree=false why=" + why
	}
	return "agree=true"
}

// fill replaces nonce=? by the next nonce of the `from` account (advanced when the transaction is admitted) and mnonce=? by the
// next nonce of the multi-signature address.
func (e *exec) fill(op string) (string, int, bool) {
	toks := hx.Tokens(op)
	from := int(hx.ArgI(toks, "from", 0))
	usesM := false
	for i, t := range toks {
		if t == "nonce=?" {
			if toks[0] == "msigx" {
				toks[i] = fmt.Sprintf("nonce=%d", e.mnonce)
				usesM = true
			} else {
				toks[i] = fmt.Sprintf("nonce=%d", e.nonce[from])
			}
		}
	}
	return strings.Join(toks, " "), from, usesM
}

func (e *exec) Exec(op string) string {
	toks := hx.Tokens(op)
	switch toks[0] {
	case "case":
		e.closeReps()
		e.digests, e.history = nil, nil
		e.sys, e.reps, e.nonce, e.mnonce, e.supply0, e.pending, e.elects, e.noSupply, e.sysCalled = false, nil, map[int]uint64{}, 0, "", nil, map[uint64]string{}, false, map[string]bool{}
		return e.c.Exec(op)
	case "kvh":
		return kvHash(toks)
	case "procs":
		var n int
		fmt.Sscan(strings.TrimPrefix(toks[1], "n="), &n)
		runtime.GOMAXPROCS(n)
		return "ok"
	case "rerun":
		// execute the whole history again on fresh replicas: every digest must be reproduced
		f := P{}.NewExec().(*exec)
		f.inRerun = true
		for _, h := range e.history {
			hx.SafeExec(f, h)
		}
		same := len(f.digests) == len(e.digests)
		for i := range f.digests {
			if i < len(e.digests) && f.digests[i] != e.digests[i] {
				same = false
			}
		}
		hx.SafeExec(f, "case")
		if e.sys {
			e.c.S.UseCache()
		}
		return fmt.Sprintf("same=%v blocks=%d", same, len(e.digests))
	case "elect": // annotated by the generator's dry run: must be what the chain produced at that height
		h := uint64(hx.ArgI(toks, "h", 0))
		want := strings.TrimSpace(strings.TrimPrefix(op, "elect"))
		if got := e.elects[h]; got != want {
			return "stale got:" + got
		}
		return "ok"
	}
	e.history = append(e.history, op)
	if toks[0] == "chain" && hx.ArgI(toks, "sys", 0) == 1 {
		return e.sysChain(op, toks)
	}
	if e.sys {
		switch toks[0] {
		case "sblock":
			return e.sblock(toks)
		case "srestart":
			return e.srestart(int(hx.ArgI(toks, "r", -1)))
		}
		e.c.S.UseCache()
	}
	if e.sys {
		// gated (DecoyExposure): an upgrade of an inner contract BEHIND a call of that contract in the same block — the node that
		// executes such a block twice (its proposer: PreRunBlock, then CheckBlock) runs the call with the new code the second time
		switch toks[0] {
		case "wcall":
			if to, _ := hx.Arg(toks, "to"); strings.HasPrefix(to, "s:") {
				e.sysCalled[to[2:]] = true
			}
		case "upg":
			if t, _ := hx.Arg(toks, "target"); e.sysCalled[t] && !exposure() {
				return "ok"
			}
		}
	}
	fop, from, usesM := e.fill(op)
	ans := e.c.Exec(fop)
	if strings.Contains(ans, "admit=ok") {
		if usesM {
			e.mnonce++
		} else if toks[0] != "uu" && toks[0] != "ua" && toks[0] != "replay" {
			e.nonce[from]++
		}
	}
	switch toks[0] {
	case "block":
		// the transaction list is the ledger model's subject (C06/C07/C15); here only height and agreement
		var keep []string
		for _, t := range hx.Tokens(ans) {
			if !strings.HasPrefix(t, "txs=") {
				keep = append(keep, t)
			}
		}
		return strings.Join(keep, " ")
	case "chain":
		return ans
	}
	// admission classes are not the subject here (C06/C07/C15 compare them with the ledger model)
	return "ok"
}

func (P) Monitor(c *hx.CaseRun) []hx.Failure {
	var fs []hx.Failure
	if c.Tags["kvhash"] {
		return kvHashMonitor(c)
	}
	for i, op := range c.Ops {
		ans := c.Impl[i]
		if strings.Contains(ans, "agree=false") {
			why, _ := hx.Arg(hx.Tokens(ans), "why")
			cls := "replicas-disagree"
			switch {
			case strings.Contains(why, "decoy") || strings.Contains(op, "decoy="):
				cls = "uncommitted-proposal-changes-execution"
			case strings.Contains(why, "rejects-proposed-block"):
				cls = "proposed-block-rejected"
			case strings.Contains(why, "supply"):
				cls = "supply-changed"
			case strings.Contains(why, "validators"):
				cls = "next-validators-differ"
			case strings.Contains(why, "election"):
				cls = "election-not-canonical"
			}
			fs = append(fs, hx.Failure{Monitor: "replicas_agree", Class: cls, Site: "app/app.go:processBlock", Msg: op + " -> " + ans})
		}
		if (strings.HasPrefix(op, "sblock") || strings.HasPrefix(op, "block")) && (strings.HasPrefix(ans, "validate=") || strings.HasPrefix(ans, "commit=") || strings.HasPrefix(ans, "propose=")) {
			// the node that built the block (PreRunBlock) does not accept it itself (CheckBlock / CommitBlock)
			fs = append(fs, hx.Failure{Monitor: "replicas_agree", Class: "proposer-rejects-own-block", Site: "app/app.go:CheckBlock", Msg: op + " -> " + ans})
		}
		if strings.HasPrefix(op, "rerun") && !strings.Contains(ans, "same=true") {
			fs = append(fs, hx.Failure{Monitor: "rerun_reproduces", Class: "rerun-differs", Site: "app/app.go:processBlock", Msg: ans})
		}
		if strings.HasPrefix(ans, "panic") || strings.Contains(ans, "=panic") {
			fs = append(fs, hx.Failure{Monitor: "no_panic", Class: "panic:" + ans, Site: "app", Msg: op})
		}
		if strings.HasPrefix(op, "elect") && ans != "ok" {
			fs = append(fs, hx.Failure{Monitor: "rerun_reproduces", Class: "election-differs-from-dry-run", Site: "app/app.go:calculateCandidates", Msg: ans})
		}
		if strings.HasPrefix(op, "chain") && strings.HasPrefix(ans, "err") {
			fs = append(fs, hx.Failure{Monitor: "genesis", Class: "genesis-failed", Site: "cmd/commands/init.go:deployOriginalContract", Msg: ans})
		}
	}
	return fs
}

func (P) Generate(g *hx.Gen) {
	kvHashCases(g)
	genClassic(g)
	genSys(g)
}

func genClassic(g *hx.Gen) {
	n := g.Pick(50, 500)
	for k := 0; k < n; k++ {
		ext := k%2 == 1 // the extended contract set: creations, the value-moving contract, token calls
		code := 1
		if ext {
			code = 2
		}
		ops := []string{hx.CaseOp(), fmt.Sprintf("procs n=%d", []int{1, 2, 4, 16}[g.Rng.Intn(4)]), fmt.Sprintf("chain trie=1 accts=4 wallets=2 seed=%d code=%d", 1+g.Rng.Intn(1000), code)}
		owned := []int{0, 0}
		blocks := 3 + g.Rng.Intn(g.Pick(3, 6))
		rich := false
		created := 0
		for b := 0; b < blocks; b++ {
			ntx := 1 + g.Rng.Intn(7)
			kinds := map[string]bool{}
			pend := []int{0, 0}
			newCreated := 0
			for t := 0; t < ntx; t++ {
				from := g.Rng.Intn(4)
				r := g.Rng.Intn(12)
				if ext && g.Rng.Intn(3) == 0 {
					r = 12 + g.Rng.Intn(4)
				}
				switch {
				case r < 3:
					ops = append(ops, fmt.Sprintf("xfer from=%d to=%d amount=%d nonce=?", from, g.Rng.Intn(4), 1+g.Rng.Intn(100000)))
					kinds["xfer"] = true
				case r == 3:
					ops = append(ops, fmt.Sprintf("xfertok from=%d to=%d amount=%d nonce=?", from, g.Rng.Intn(4), 1+g.Rng.Intn(1000)))
					kinds["tok"] = true
				case r < 7:
					c := g.Rng.Intn(40)
					if g.Rng.Intn(5) == 0 {
						c = 255 // reverting call
					}
					ops = append(ops, fmt.Sprintf("call from=%d c=%d nonce=?", from, c))
					kinds["call"] = true
				case r < 9:
					w := g.Rng.Intn(2)
					ops = append(ops, fmt.Sprintf("ain from=%d w=%d amount=%d nonce=?", from, w, 20000000000+g.Rng.Intn(1000000)*10000))
					pend[w]++
					kinds["conf"] = true
				case r == 9:
					w := g.Rng.Intn(2)
					if owned[w] > 0 {
						ops = append(ops, fmt.Sprintf("uu w=%d in=%d to=%d amount=%d", w, g.Rng.Intn(owned[w]), g.Rng.Intn(2), 1+g.Rng.Intn(5000000000)))
						pend[0]++
						pend[1]++
						kinds["conf"] = true
					}
				case r < 12:
					w := g.Rng.Intn(2)
					if owned[w] > 0 {
						ops = append(ops, fmt.Sprintf("ua w=%d in=%d to=%d amount=%d", w, g.Rng.Intn(owned[w]), g.Rng.Intn(4), 1+g.Rng.Intn(5000000000)))
						kinds["conf"] = true
					}
				case r == 12: // EVM creation of a kind, with or without an endowment
					kind := []string{"ok", "empty", "revert", "invalid", "big", "max", "json"}[g.Rng.Intn(7)]
					gas := []int{1000000, 1000000, 60000, 9000000}[g.Rng.Intn(4)]
					ops = append(ops, fmt.Sprintf("create from=%d kind=%s value=%d gas=%d nonce=?", from, kind, g.Rng.Intn(3)*g.Rng.Intn(1000), gas))
					newCreated++
					kinds["create"] = true
				case r == 13 || r == 14: // the value-moving contract (or a created copy of it)
					to := []string{"a0", "a1", "b0", "b1", "m", "t"}[g.Rng.Intn(6)]
					if created > 0 && g.Rng.Intn(4) == 0 {
						to = fmt.Sprintf("c%d", g.Rng.Intn(created))
					}
					op := fmt.Sprintf("mcall from=%d m=%d to=%s value=%d gas=%d nonce=?", from, g.Rng.Intn(9), to, g.Rng.Intn(2)*(1+g.Rng.Intn(5000)), []int{1000000, 1000000, 40000}[g.Rng.Intn(3)])
					if g.Rng.Intn(4) == 0 {
						op += " tok=1"
					}
					if created > 0 && g.Rng.Intn(5) == 0 {
						op += fmt.Sprintf(" at=%d", g.Rng.Intn(created))
					}
					ops = append(ops, op)
					kinds["call"] = true
				default:
					ops = append(ops, fmt.Sprintf("calltok from=%d c=%d value=%d nonce=?", from, g.Rng.Intn(40), g.Rng.Intn(100)))
					kinds["call"] = true
				}
			}
			if ntx >= 3 && len(kinds) >= 2 && (kinds["call"] || kinds["conf"] || kinds["create"]) {
				rich = true
			}
			ops = append(ops, "block")
			owned[0] += pend[0]
			owned[1] += pend[1]
			created += newCreated
		}
		ops = append(ops, "rerun")
		if g.Rng.Intn(3) == 0 {
			ops = append(ops, "rerun")
		}
		g.Case(fmt.Sprintf("replicas blocks=%d ext=%v", blocks, ext), ops, rich)
	}
}

var _ = c06.Inflation

func dbgOut() *os.File {
	f, _ := os.OpenFile("debug.log", os.O_CREATE|os.O_APPEND|os.O_WRONLY, 0o644)
	return f
}
