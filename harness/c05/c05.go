// Package c05: executing the same block on the same committed state yields identical results on every replica:
// proposer path vs validator path, trie mode vs kv mode, warm vs cold mempool cache, block objects vs blocks decoded
// from their wire bytes, any GOMAXPROCS, and on every repetition (Go randomises map iteration per range statement).
package c05

import (
	"crypto/sha256"
	"fmt"
	"os"
	"runtime"
	"strings"

	"github.com/lianxiangcloud/linkchain/libs/common"
	"github.com/lianxiangcloud/linkchain/libs/ser"
	"github.com/lianxiangcloud/linkchain/types"

	"lvharness/appsim"
	"lvharness/c06"
	"lvharness/hx"
)

type P struct{}

func (P) Rule() string {
	return "each case is a chain of blocks (plain and token transfers, calls of an EVM contract that writes several storage slots and logs, reverting calls, " +
		"account->confidential, confidential->confidential, confidential->account) proposed by replica A (trie mode, warm mempool cache, PreRunBlock) and validated + committed by " +
		"replica B (kv mode, cold cache, block decoded from its wire bytes) and replica C (trie mode, cold cache, decoded block) under a random GOMAXPROCS; after every block the " +
		"digests of (StateHash, ReceiptHash, GasUsed, bloom, receipts incl. logs, candidates, confidential outputs, output sequence) of all replicas are compared, and the whole chain is re-executed " +
		"from genesis on fresh replicas and must reproduce every digest; non-trivial = some block carries >= 3 transactions of >= 2 kinds incl. a contract call or a confidential tx; distinct = distinct op sequence"
}

type exec struct {
	c       appsim.ChainExec
	digests []string // per committed height, of replica A
	history []string // ops executed so far in this case (for rerun)
	inRerun bool
}

func (P) NewExec() hx.Executor {
	e := &exec{}
	e.c.ReplicaOpts = []appsim.Opts{{IsTrie: false}, {IsTrie: true}}
	e.c.AfterCommit = e.afterCommit
	return e
}

// digestOf renders everything consensus-visible that executing height h produced on stack s.
func digestOf(s *appsim.Stack, h uint64, tok common.Address, withRoot bool) string {
	r, err := s.BS.LoadTxsResult(h)
	if err != nil || r == nil {
		return "noresult"
	}
	hh := sha256.New()
	fmt.Fprintf(hh, "%x|%x|%d|%x|", r.StateHash, r.ReceiptHash, r.GasUsed, r.LogsBloom)
	if withRoot {
		fmt.Fprintf(hh, "%x|", r.TrieRoot)
	}
	for _, c := range r.Candidates {
		b, _ := ser.EncodeToBytes(c)
		hh.Write(b)
	}
	if rs := s.BS.GetReceipts(h); rs != nil {
		for _, rc := range *rs {
			fmt.Fprintf(hh, "R%d|%d|%s|%x|%x|%d|", rc.Status, rc.GasUsed, rc.VMErr, rc.TxHash, rc.ContractAddress, len(rc.Logs))
			for _, l := range rc.Logs {
				fmt.Fprintf(hh, "L%x|%x|%x|", l.Address, l.Topics, l.Data)
			}
		}
	}
	for _, t := range []common.Address{common.EmptyAddress, tok} {
		max := s.Utxo.GetMaxUtxoOutputSeq(t)
		fmt.Fprintf(hh, "U%d|", max)
		for i := int64(0); i <= max; i++ {
			if outs, err := s.Utxo.GetUtxoOutputs([]uint64{uint64(i)}, t); err == nil && len(outs) == 1 {
				fmt.Fprintf(hh, "%x|%x|%d|", outs[0].OTAddr, outs[0].Commit, outs[0].Height)
			}
		}
	}
	return fmt.Sprintf("%x", hh.Sum(nil)[:8])
}

func (e *exec) afterCommit(b *types.Block) string {
	bz, err := ser.EncodeToBytes(b)
	if err != nil {
		return "agree=false why=encode"
	}
	why := ""
	for i, r := range e.c.Replicas {
		var nb *types.Block
		if err := ser.DecodeBytes(bz, &nb); err != nil {
			return "agree=false why=decode"
		}
		ok, err := r.Validate(nb)
		if err != nil || !ok {
			why += fmt.Sprintf("replica%d-rejects-proposed-block;", i)
			if os.Getenv("LVDEBUG") != "" {
				cur := r.App.Block()
				fmt.Fprintf(dbgOut(), "replica %d rejects h=%d: hashEq=%v parentOK=%v (cur h=%d curhash=%x parent=%x) dataOK=%v timeOK=%v err=%v\n", i, nb.Height, nb.Hash() == b.Hash(),
					nb.ParentHash == cur.Hash(), cur.Height, cur.Hash().Bytes()[:4], nb.ParentHash.Bytes()[:4], nb.DataHash == nb.Data.Hash(), nb.Time() > cur.Time()-300, err)
			}
			continue
		}
		if err := r.Commit(nb); err != nil {
			why += fmt.Sprintf("replica%d-commit-error;", i)
		}
	}
	dA := digestOf(e.c.S, b.Height, e.c.Tok, false)
	for i, r := range e.c.Replicas {
		if d := digestOf(r, b.Height, e.c.Tok, false); d != dA {
			why += fmt.Sprintf("replica%d-digest-differs;", i)
		}
	}
	// same storage mode: the trie root must agree too
	if len(e.c.Replicas) > 1 && digestOf(e.c.S, b.Height, e.c.Tok, true) != digestOf(e.c.Replicas[1], b.Height, e.c.Tok, true) {
		why += "trie-root-differs;"
	}
	e.digests = append(e.digests, digestOf(e.c.S, b.Height, e.c.Tok, true))
	if why != "" {
		return "agree=false why=" + why
	}
	return "agree=true"
}

func (e *exec) Exec(op string) string {
	toks := hx.Tokens(op)
	switch toks[0] {
	case "case":
		e.digests, e.history = nil, nil
		return e.c.Exec(op)
	case "procs":
		var n int
		fmt.Sscan(strings.TrimPrefix(toks[1], "n="), &n)
		runtime.GOMAXPROCS(n)
		return "ok"
	case "rerun":
		// execute the whole history again on fresh replicas: every digest must be reproduced
		f := P{}.NewExec().(*exec)
		f.inRerun = true
		for _, h := range e.history {
			hx.SafeExec(f, h)
		}
		same := len(f.digests) == len(e.digests)
		for i := range f.digests {
			if i < len(e.digests) && f.digests[i] != e.digests[i] {
				same = false
			}
		}
		hx.SafeExec(f, "case")
		return fmt.Sprintf("same=%v blocks=%d", same, len(e.digests))
	}
	e.history = append(e.history, op)
	ans := e.c.Exec(op)
	switch toks[0] {
	case "block":
		// the transaction list is the ledger model's subject (C06/C07/C15); here only height and agreement
		var keep []string
		for _, t := range hx.Tokens(ans) {
			if !strings.HasPrefix(t, "txs=") {
				keep = append(keep, t)
			}
		}
		return strings.Join(keep, " ")
	case "chain":
		return ans
	}
	// admission classes are not the subject here (C06/C07/C15 compare them with the ledger model)
	return "ok"
}

func (P) Monitor(c *hx.CaseRun) []hx.Failure {
	var fs []hx.Failure
	for i, op := range c.Ops {
		ans := c.Impl[i]
		if strings.Contains(ans, "agree=false") {
			why, _ := hx.Arg(hx.Tokens(ans), "why")
			cls := "replicas-disagree"
			if strings.Contains(why, "rejects-proposed-block") {
				cls = "proposed-block-rejected"
			}
			fs = append(fs, hx.Failure{Monitor: "replicas_agree", Class: cls, Site: "app/app.go:processBlock", Msg: op + " -> " + ans})
		}
		if strings.HasPrefix(op, "rerun") && !strings.Contains(ans, "same=true") {
			fs = append(fs, hx.Failure{Monitor: "rerun_reproduces", Class: "rerun-differs", Site: "app/app.go:processBlock", Msg: ans})
		}
		if strings.HasPrefix(ans, "panic") || strings.Contains(ans, "=panic") {
			fs = append(fs, hx.Failure{Monitor: "no_panic", Class: "panic:" + ans, Site: "app", Msg: op})
		}
	}
	return fs
}

func (P) Generate(g *hx.Gen) {
	n := g.Pick(80, 600)
	for k := 0; k < n; k++ {
		ops := []string{hx.CaseOp(), fmt.Sprintf("procs n=%d", []int{1, 2, 4, 16}[g.Rng.Intn(4)]), fmt.Sprintf("chain trie=1 accts=4 wallets=2 seed=%d code=1", 1+g.Rng.Intn(1000))}
		nonce := []int{0, 0, 0, 0}
		owned := []int{0, 0}
		blocks := 3 + g.Rng.Intn(g.Pick(3, 6))
		rich := false
		for b := 0; b < blocks; b++ {
			ntx := 1 + g.Rng.Intn(7)
			kinds := map[string]bool{}
			pend := []int{0, 0}
			for t := 0; t < ntx; t++ {
				from := g.Rng.Intn(4)
				switch r := g.Rng.Intn(12); {
				case r < 3:
					ops = append(ops, fmt.Sprintf("xfer from=%d to=%d amount=%d nonce=%d", from, g.Rng.Intn(4), 1+g.Rng.Intn(100000), nonce[from]))
					nonce[from]++
					kinds["xfer"] = true
				case r == 3:
					ops = append(ops, fmt.Sprintf("xfertok from=%d to=%d amount=%d nonce=%d", from, g.Rng.Intn(4), 1+g.Rng.Intn(1000), nonce[from]))
					nonce[from]++
					kinds["tok"] = true
				case r < 7:
					c := g.Rng.Intn(40)
					if g.Rng.Intn(5) == 0 {
						c = 255 // reverting call
					}
					ops = append(ops, fmt.Sprintf("call from=%d c=%d nonce=%d", from, c, nonce[from]))
					nonce[from]++
					kinds["call"] = true
				case r < 9:
					w := g.Rng.Intn(2)
					ops = append(ops, fmt.Sprintf("ain from=%d w=%d amount=%d nonce=%d", from, w, 20000000000+g.Rng.Intn(1000000)*10000, nonce[from]))
					nonce[from]++
					pend[w]++
					kinds["conf"] = true
				case r == 9:
					w := g.Rng.Intn(2)
					if owned[w] > 0 {
						ops = append(ops, fmt.Sprintf("uu w=%d in=%d to=%d amount=%d", w, g.Rng.Intn(owned[w]), g.Rng.Intn(2), 1+g.Rng.Intn(5000000000)))
						pend[0]++
						pend[1]++
						kinds["conf"] = true
					}
				default:
					w := g.Rng.Intn(2)
					if owned[w] > 0 {
						ops = append(ops, fmt.Sprintf("ua w=%d in=%d to=%d amount=%d", w, g.Rng.Intn(owned[w]), g.Rng.Intn(4), 1+g.Rng.Intn(5000000000)))
						kinds["conf"] = true
					}
				}
			}
			if ntx >= 3 && len(kinds) >= 2 && (kinds["call"] || kinds["conf"]) {
				rich = true
			}
			ops = append(ops, "block")
			owned[0] += pend[0]
			owned[1] += pend[1]
		}
		ops = append(ops, "rerun")
		if g.Rng.Intn(3) == 0 {
			ops = append(ops, "rerun")
		}
		g.Case(fmt.Sprintf("replicas blocks=%d", blocks), ops, rich)
	}
}

var _ = c06.Inflation

func dbgOut() *os.File {
	f, _ := os.OpenFile("debug.log", os.O_CREATE|os.O_APPEND|os.O_WRONLY, 0o644)
	return f
}
