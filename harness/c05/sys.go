package c05

// The `sys` family: chains on the REAL genesis (system contracts, candidates, the node's award handles) with WASM
// transactions, special transactions and evidence, executed by replicas that differ in everything a node may differ in.

import (
	"bytes"
	"crypto/sha256"
	"encoding/binary"
	"fmt"
	"math"
	"math/big"
	"math/rand"
	"os"
	"sort"
	"strings"
	"time"

	cfg "github.com/lianxiangcloud/linkchain/config"
	"github.com/lianxiangcloud/linkchain/libs/common"
	"github.com/lianxiangcloud/linkchain/libs/crypto"
	"github.com/lianxiangcloud/linkchain/libs/log"
	"github.com/lianxiangcloud/linkchain/libs/ser"
	"github.com/lianxiangcloud/linkchain/types"

	"lvharness/appsim"
	"lvharness/hx"
)

const chainID = "verif-chain"

func (e *exec) closeReps() {
	for _, r := range e.reps {
		r.s.DropCache()
		r.s.Close()
	}
	if e.sys && e.c.S != nil {
		e.c.S.DropCache()
	}
	e.reps = nil
}

// sysChain: the `chain` op with sys=1 — accounts and wallets as ChainExec builds them, every stack rebuilt on the system genesis.
func (e *exec) sysChain(op string, toks []string) string {
	saved := e.c.ReplicaOpts
	e.c.ReplicaOpts = nil
	ans := e.c.Exec(op)
	e.c.ReplicaOpts = saved
	if ans != "ok" {
		return ans
	}
	base := e.c.S.Opts
	e.c.S.Close()
	e.so = appsim.SysOpts{Cands: int(hx.ArgI(toks, "cands", 4)), VotePeriod: int(hx.ArgI(toks, "vp", 0)), Vals: int(hx.ArgI(toks, "vals", 4))}
	if w, ok := hx.Arg(toks, "wasm"); ok {
		e.so.Wasm = hx.SplitComma(w)
	}
	s, err := appsim.NewSysStack(base, e.so)
	if err != nil {
		e.c.S = nil
		return "err " + strings.ReplaceAll(err.Error(), " ", "_")
	}
	e.c.S = s
	e.sys = true
	e.noSupply = hx.ArgI(toks, "nosupply", 0) == 1
	for _, p := range sysProfiles {
		o := base
		o.IsTrie = p.trie
		r, err := appsim.NewSysStack(o, e.so)
		if err != nil {
			return "err replica " + strings.ReplaceAll(err.Error(), " ", "_")
		}
		if r.Genesis != s.Genesis {
			return "err replica-genesis-differs"
		}
		e.reps = append(e.reps, &replica{s: r, prof: p})
	}
	e.supply0 = e.supply(e.c.S)
	return "ok"
}

// watched: every address the sys family can move native coin to or from (beyond the accounts, the foundation, the zero address,
// the coinbase of ChainExec, the EVM test contract and the confidential pool, which ChainExec.Supply sums).
func (e *exec) watched() []common.Address {
	var out []common.Address
	for _, sc := range appsim.SysContracts {
		if sc.Addr != cfg.ContractFoundationAddr {
			out = append(out, sc.Addr)
		}
	}
	for i := 0; i < e.so.Cands; i++ {
		out = append(out, appsim.CandCoinbase(i))
	}
	for _, n := range e.so.Wasm {
		out = append(out, appsim.WasmAddr(n))
	}
	out = append(out, e.c.Created...)
	out = append(out, appsim.BenAddrs...)
	out = append(out, appsim.MoverAddr, appsim.InnerBoss, appsim.PledgeBoss)
	return out
}

func (e *exec) supply(s *appsim.Stack) string {
	// ground truth that does not depend on knowing who can be paid: EVERY account of the committed state (the main stack keeps a
	// trie, which can be walked) plus the confidential pool as its owners see it
	_, pool, _ := e.c.Supply()
	total, tok := new(big.Int).Set(pool), new(big.Int)
	for _, a := range s.App.GetLatestStateDB().RawDump().Accounts {
		if b, ok := new(big.Int).SetString(a.Balance, 10); ok {
			total.Add(total, b)
		}
		if t := a.Tokens[e.c.Tok]; t != nil {
			tok.Add(tok, t)
		}
	}
	return total.String() + "/" + tok.String()
}

// sysObs: what the system contracts decided, read from the committed state and the stored result of height h.
func sysObs(s *appsim.Stack, h uint64, so appsim.SysOpts, vals []*types.Validator) string {
	st := s.App.GetLatestStateDB()
	hh := sha256.New()
	for _, c := range st.GetAllCandidates(log.NewNopLogger()) {
		fmt.Fprintf(hh, "C%x|%d|%d|%d|%x|", c.Address, c.Score, c.PunishHeight, c.VotingPower, c.CoinBase)
	}
	fmt.Fprintf(hh, "F%s|", st.GetBalance(cfg.ContractFoundationAddr))
	for i := 0; i < so.Cands; i++ {
		fmt.Fprintf(hh, "B%s|", st.GetBalance(appsim.CandCoinbase(i)))
	}
	for _, v := range vals {
		fmt.Fprintf(hh, "V%x|%d|%x|", v.Address, v.VotingPower, v.CoinBase)
	}
	for _, v := range s.App.GetValidators(h) {
		fmt.Fprintf(hh, "G%x|%d|%x|", v.Address, v.VotingPower, v.CoinBase)
	}
	if r, err := s.BS.LoadTxsResult(h); err == nil && r != nil {
		for _, c := range r.Candidates {
			fmt.Fprintf(hh, "O%x|%d|%d|%d|%d|%d|", c.Address, c.ProduceInfo, c.Deposit, c.Score, c.Rand, c.Rank)
		}
		for _, tx := range r.SpecialTxs() {
			fmt.Fprintf(hh, "S%x|", tx.Hash())
		}
		for _, k := range r.KeyImages() {
			fmt.Fprintf(hh, "K%x|", k[:])
		}
		for _, o := range r.UTXOOutputs() {
			fmt.Fprintf(hh, "U%x|%x|", o.OTAddr, o.Commit)
		}
	}
	co := st.GetCoefficient(log.NewNopLogger())
	fmt.Fprintf(hh, "Q%v|", co)
	return fmt.Sprintf("%x", hh.Sum(nil)[:8])
}

// electLine renders the inputs and the result of the election committed at height h on s (empty when h is no election height):
// salt = the block's LastCommit hash; per candidate of the STATE (in the order the candidates contract lists them): address,
// score, deposit (whole coins); the floats Go's math/rand yields for that salt (numerators over 2^53); the elected order.
func electLine(s *appsim.Stack, b *types.Block, vp uint64) string {
	if vp == 0 || b.Height%vp != 0 {
		return ""
	}
	st := s.App.GetLatestStateDB()
	lg := log.NewNopLogger()
	co := st.GetCoefficient(lg)
	if co == nil {
		co = types.DefaultCoefficient()
	}
	hash := b.LastCommit.Hash()
	var ins []string
	var cbs []common.Address
	all := st.GetAllCandidates(lg)
	n := 0
	for _, c := range all {
		if c.Score > 0 {
			cbs = append(cbs, c.CoinBase)
			n++
		}
	}
	deps := st.GetCandidatesDeposit(cbs, lg)
	k := 0
	for _, c := range all {
		if c.Score <= 0 {
			continue
		}
		d := new(big.Int).Div(deps[k], big.NewInt(cfg.Ether)).Int64()
		k++
		ins = append(ins, fmt.Sprintf("%x:%d:%d", []byte(c.Address), c.Score, d))
	}
	r := rand.New(rand.NewSource(int64(binary.BigEndian.Uint64(hash[:8]))))
	var fl []string
	for i := 0; i+1 < n; i++ {
		f := r.Float64()
		fl = append(fl, fmt.Sprint(uint64(f*float64(uint64(1)<<53))))
	}
	res, _ := s.BS.LoadTxsResult(b.Height)
	var out []string
	if res != nil {
		for _, c := range res.Candidates {
			out = append(out, fmt.Sprintf("%x", []byte(c.Address)[:4]))
		}
	}
	return fmt.Sprintf("h=%d hash=%x rates=%d,%d,%d cands=%s floats=%s out=%s", b.Height, hash[:], co.Srate, co.Drate, co.Rrate,
		joinOr(ins, ";"), joinOr(fl, ","), joinOr(out, ","))
}

// evidenceOf parses ev=<spec,…>: d<k> = duplicate votes of candidate k; f<p> = the last block's proposer was candidate p (round 0);
// f<p>x<q>r<n> = round n > 0: candidate q failed to propose, candidate p proposed.  Indices beyond the registered candidates
// name keys that are no candidates.
func evidenceOf(spec string, h uint64) []types.Evidence {
	var out []types.Evidence
	for _, s := range hx.SplitComma(spec) {
		switch {
		case strings.HasPrefix(s, "d"):
			var k int
			fmt.Sscanf(s, "d%d", &k)
			pv := appsim.SysPV{Key: appsim.CandKey(k)}
			mk := func(tag byte) *types.Vote {
				var id types.BlockID
				id.Hash[0], id.Hash[1] = 0xd0, tag
				id.PartsHeader.Total = 1
				id.PartsHeader.Hash = []byte{tag, 1, 2, 3}
				v := &types.Vote{ValidatorAddress: pv.GetAddress(), ValidatorIndex: 0, ValidatorSize: 4, Height: h - 1, Round: 0,
					Timestamp: time.Unix(1600000000, 0).UTC(), Type: types.VoteTypePrevote, BlockID: id}
				pv.SignVote(chainID, v)
				return v
			}
			out = append(out, &types.DuplicateVoteEvidence{PubKey: pv.GetPubKey(), VoteA: mk(1), VoteB: mk(2)})
		case strings.HasPrefix(s, "f"):
			var p, q, n int
			if strings.Contains(s, "x") {
				fmt.Sscanf(s, "f%dx%dr%d", &p, &q, &n)
				out = append(out, &types.FaultValidatorsEvidence{BlockHeight: h - 1, Round: n, Proposer: appsim.CandKey(p).PubKey(), FaultVal: appsim.CandKey(q).PubKey()})
			} else {
				fmt.Sscanf(s, "f%d", &p)
				out = append(out, &types.FaultValidatorsEvidence{BlockHeight: h - 1, Round: 0, Proposer: appsim.CandKey(p).PubKey()})
			}
		}
	}
	return out
}

// lastCommitOf: a commit for the current block signed by validator 0 at a round that varies with the height (the application
// uses the commit's hash as the seed of the election, it does not verify it).
func lastCommitOf(s *appsim.Stack) *types.Commit {
	cur := s.App.Block()
	if cur.Height == 0 {
		return &types.Commit{}
	}
	id := types.BlockID{Hash: cur.Hash(), PartsHeader: types.PartSetHeader{Total: 1, Hash: cur.Hash().Bytes()[:8]}}
	pv := appsim.SysPV{Key: appsim.ValKey(0)}
	v := &types.Vote{ValidatorAddress: pv.GetAddress(), ValidatorIndex: 0, ValidatorSize: 1, Height: cur.Height, Round: int(cur.Height % 3),
		Timestamp: time.Unix(1600000000+int64(cur.Height), 0).UTC(), Type: types.VoteTypePrecommit, BlockID: id}
	pv.SignVote(chainID, v)
	return &types.Commit{BlockID: id, Precommits: []*types.Vote{v}}
}

// dress fills what the consensus layer fills on a block the application created.
func (e *exec) dress(s *appsim.Stack, b *types.Block, cb common.Address, ev []types.Evidence) {
	b.Header.Coinbase = cb
	b.Header.ChainID = chainID
	b.LastCommit = lastCommitOf(s)
	b.Header.LastCommitHash = b.LastCommit.Hash()
	b.Evidence = types.EvidenceData{Evidence: ev}
	b.Header.EvidenceHash = b.Evidence.Hash()
}

// sblock cb=<candidate index | -1> ev=<evidence spec> decoy=<k>: the next block.  decoy=k: before the block is built from the
// whole mempool, a proposal holding only the LAST k pending transactions is built (and never committed); the decoy replica
// validates it first.
func (e *exec) sblock(toks []string) (ans string) {
	defer func() {
		if r := recover(); r != nil {
			ans = fmt.Sprintf("propose=panic:%v", r)
			if len(ans) > 200 {
				ans = ans[:200]
			}
			ans = strings.ReplaceAll(ans, " ", "_")
		}
	}()
	s := e.c.S
	s.UseCache()
	cb := common.HexToAddress("0xc01b")
	if k := hx.ArgI(toks, "cb", -1); k >= 0 {
		cb = appsim.CandCoinbase(int(k))
	}
	h := s.App.Height() + 1
	ev := evidenceOf(argOr(toks, "ev", ""), h)
	e.pending = &pendingBlock{}
	if k := int(hx.ArgI(toks, "decoy", -1)); k >= 0 {
		func() {
			defer func() { recover() }() // a tail that is not executable on its own (nonce gap) makes no proposal
			d := s.App.CreateBlock(h, 1000, types.DefaultConsensusParams().BlockSize.MaxGas, 1507737600+h+7)
			if d == nil {
				return
			}
			if k < len(d.Data.Txs) { // the LAST k pending transactions only
				cut := uint64(len(d.Data.Txs) - k)
				d.Data = &types.Data{Txs: append(types.Txs{}, d.Data.Txs[cut:]...)}
				d.Header.NumTxs -= cut
				d.Header.TotalTxs -= cut
				d.Header.DataHash = d.Data.Hash()
			}
			if hasUpgrade(d) && !exposure() {
				return // gated: see DecoyExposure
			}
			e.dress(s, d, cb, nil)
			s.App.PreRunBlock(d)
			if w, err := appsim.Rewire(d); err == nil {
				e.pending.decoy = w
			}
		}()
	}
	b := s.App.CreateBlock(h, int(hx.ArgI(toks, "max", 1000)), types.DefaultConsensusParams().BlockSize.MaxGas, 1507737600+h)
	if b == nil {
		return "propose=nil"
	}
	e.dress(s, b, cb, ev)
	s.App.PreRunBlock(b)
	w, err := appsim.Rewire(b)
	if err != nil {
		return "propose=rewire"
	}
	ans = e.c.FinishBlock(w)
	e.sysCalled = map[string]bool{}
	// the transaction list is the ledger model's subject; here only height and agreement
	var keep []string
	for _, t := range hx.Tokens(ans) {
		if !strings.HasPrefix(t, "txs=") {
			keep = append(keep, t)
		}
	}
	return strings.Join(keep, " ")
}

func argOr(toks []string, k, def string) string {
	if v, ok := hx.Arg(toks, k); ok {
		return v
	}
	return def
}

func (e *exec) reopen(s *appsim.Stack) (*appsim.Stack, error) {
	o := s.Opts
	o.DBs = s.DBs
	s.DropCache()
	s.Close()
	return appsim.NewSysStack(o, e.so)
}

// srestart r=<replica | -1>: re-open a stack on its own databases (cold caches of every kind).
func (e *exec) srestart(r int) string {
	if r < 0 {
		s, err := e.reopen(e.c.S)
		if err != nil {
			return "err " + strings.ReplaceAll(err.Error(), " ", "_")
		}
		e.c.S = s
		return "ok"
	}
	if r >= len(e.reps) {
		return "ok"
	}
	s, err := e.reopen(e.reps[r].s)
	if err != nil {
		return "err " + strings.ReplaceAll(err.Error(), " ", "_")
	}
	e.reps[r].s = s
	return "ok"
}

func commitOn(s *appsim.Stack, b *types.Block, fastsync bool) (vals []*types.Validator, err error) {
	defer func() {
		if r := recover(); r != nil {
			err = fmt.Errorf("panic: %v", r)
		}
	}()
	parts := b.MakePartSet(types.DefaultConsensusParams().BlockGossip.BlockPartSizeBytes)
	return s.App.CommitBlock(b, parts, &types.Commit{BlockID: types.BlockID{Hash: b.Hash(), PartsHeader: parts.Header()}}, fastsync)
}

// afterCommitSys: the main stack has validated and committed b; every replica now does, in its own way.
func (e *exec) afterCommitSys(b *types.Block) string {
	bz, err := ser.EncodeToBytes(b)
	if err != nil {
		return "agree=false why=encode"
	}
	main := e.c.S
	why := ""
	dA := digestOf(main, b.Height, e.c.Tok, false)
	oA := sysObs(main, b.Height, e.so, main.App.GetValidators(b.Height))
	co := main.App.GetLatestStateDB().GetCoefficient(log.NewNopLogger())
	vp := uint64(0)
	if co != nil {
		vp = co.VotePeriod
	}
	for i, r := range e.reps {
		r.n++
		if r.prof.restart > 0 && r.n%r.prof.restart == 0 {
			if s, err := e.reopen(r.s); err == nil {
				r.s = s
			} else {
				why += fmt.Sprintf("replica%d-restart-error;", i)
				continue
			}
		}
		r.s.UseCache()
		var nb *types.Block
		if err := ser.DecodeBytes(bz, &nb); err != nil {
			return "agree=false why=decode"
		}
		if r.prof.warm && r.s.Simple != nil {
			// a warm signature cache: hash-identical twins of the block's transactions, decoded separately and admitted as the mempool admits
			var twin *types.Block
			if ser.DecodeBytes(bz, &twin) == nil {
				for _, tx := range twin.Data.Txs {
					// what the mempool caches has passed the basic check (which also stores the sender, the empty address for a
					// purely confidential transaction)
					if r.s.App.CheckTx(tx, true) == nil {
						r.s.Simple.Cache[tx.Hash()] = tx
					}
				}
			}
		}
		usedDecoy := false
		if r.prof.decoy && e.pending != nil && e.pending.decoy != nil && (exposure() || !hasUpgrade(e.pending.decoy)) {
			if d, err := appsim.Rewire(e.pending.decoy); err == nil {
				r.s.Validate(d) // a proposal of an earlier round: validated (prevote), never committed
				usedDecoy = true
			}
		}
		tag := ""
		if usedDecoy {
			tag = "-after-decoy"
		}
		if r.prof.proposer2 {
			// a second proposer: the same transactions, header filled by its own PreRunBlock
			var pb *types.Block
			if ser.DecodeBytes(bz, &pb) == nil {
				pb.Header.StateHash, pb.Header.ReceiptHash, pb.Header.GasUsed = common.Hash{}, common.Hash{}, 0
				func() {
					defer func() {
						if x := recover(); x != nil {
							why += fmt.Sprintf("replica%d-prerun-panics;", i)
						}
					}()
					r.s.App.PreRunBlock(pb)
				}()
				if pb.Header.StateHash != b.Header.StateHash || pb.Header.ReceiptHash != b.Header.ReceiptHash || pb.Header.GasUsed != b.Header.GasUsed {
					why += fmt.Sprintf("replica%d-second-proposer-fills-another-header;", i)
				}
			}
		}
		ok, err := r.s.Validate(nb)
		if err != nil || !ok {
			why += fmt.Sprintf("replica%d-rejects-proposed-block%s;", i, tag)
			continue
		}
		vals, err := commitOn(r.s, nb, r.prof.fastsync)
		if err != nil {
			why += fmt.Sprintf("replica%d-commit-error;", i)
			continue
		}
		if d := digestOf(r.s, b.Height, e.c.Tok, false); d != dA {
			why += fmt.Sprintf("replica%d-digest-differs%s;", i, tag)
		}
		if o := sysObs(r.s, b.Height, e.so, vals); o != oA {
			why += fmt.Sprintf("replica%d-validators-or-candidates-differ%s;", i, tag)
		}
		if r.prof.trie && digestOf(r.s, b.Height, e.c.Tok, true) != digestOf(main, b.Height, e.c.Tok, true) {
			why += fmt.Sprintf("replica%d-trie-root-differs;", i)
		}
	}
	main.UseCache()
	if !e.noSupply {
		if s := e.supply(main); s != e.supply0 {
			why += fmt.Sprintf("supply-%s-was-%s;", s, e.supply0)
		}
	}
	// the candidates contract lists its candidates in ascending order of their keys (a std::set): the election's input order is
	// a function of the candidate SET
	var keys []string
	for _, c := range main.App.GetLatestStateDB().GetAllCandidates(log.NewNopLogger()) {
		keys = append(keys, common.Bytes2Hex(c.PubKey.Bytes()))
	}
	if !sort.StringsAreSorted(keys) {
		why += "election-input-order-not-canonical;"
	}
	if l := electLine(main, b, vp); l != "" {
		e.elects[b.Height] = l
	}
	if os.Getenv("LVDEBUG") != "" {
		st := main.App.GetLatestStateDB()
		fmt.Fprintf(os.Stderr, "DBG h=%d foundation=%s", b.Height, st.GetBalance(cfg.ContractFoundationAddr))
		for i := 0; i < e.so.Cands; i++ {
			fmt.Fprintf(os.Stderr, " cb%d=%s", i, st.GetBalance(appsim.CandCoinbase(i)))
		}
		if r, _ := main.BS.LoadTxsResult(b.Height); r != nil {
			for _, c := range r.Candidates {
				fmt.Fprintf(os.Stderr, " [%x s=%d p=%d r=%d]", []byte(c.Address)[:2], c.Score, c.ProduceInfo, c.Rank)
			}
		}
		if rs := main.BS.GetReceipts(b.Height); rs != nil {
			for _, rc := range *rs {
				fmt.Fprintf(os.Stderr, " (st=%d gas=%d err=%q logs=%d)", rc.Status, rc.GasUsed, rc.VMErr, len(rc.Logs))
			}
		}
		fmt.Fprintf(os.Stderr, " vals=%d\n", len(main.App.GetValidators(b.Height)))
	}
	e.digests = append(e.digests, digestOf(main, b.Height, e.c.Tok, true)+oA)
	e.pending = nil
	if why != "" {
		return "agree=false why=" + why
	}
	return "agree=true"
}

// exposure: proposals that are never committed may carry contract upgrades (the constant, or C05_DECOY_UPGRADE=1 for the witness)
func exposure() bool { return DecoyExposure || os.Getenv("C05_DECOY_UPGRADE") == "1" }

func hasUpgrade(b *types.Block) bool {
	for _, tx := range b.Data.Txs {
		if _, ok := tx.(*types.ContractUpgradeTx); ok {
			return true
		}
	}
	return false
}

// ---- generator --------------------------------------------------------------------------------------------------------------

var wasmSet = []string{"log", "notify", "sha256", "ripemd160", "keccak256", "ecrecover", "transfer", "callTransfer", "callWithValue", "getbalance",
	"selfaddress", "malloc", "prints", "strlen", "token", "contract", "contract1", "contract2", "selfdestruct", "tcvm"}

// genUpgrade: directed cases around contract upgrades.  Gate off (the unchanged tree): the upgrade stands IN FRONT of the call of
// the upgraded contract, and no uncommitted proposal carries an upgrade; every replica, the proposer included, must agree.  Gate on
// (DecoyExposure / C05_DECOY_UPGRADE=1): the call stands in front of the upgrade (the proposer executes its block twice) and a
// proposal holding only the upgrade is validated and never committed.
func genUpgrade(g *hx.Gen) {
	for k, target := range []string{"coefficient", "candidates", "pledge"} {
		code := map[string]string{"coefficient": "log", "candidates": "self", "pledge": "contract/v2/pledge/output.wasm"}[target]
		in := map[string]string{"coefficient": "a|a", "candidates": "GetAllCandidates|{}", "pledge": "getDeposit|{}"}[target]
		if target == "coefficient" && !exposure() {
			// gated too: new code that ANSWERS the decimals query the old code refuses — the first execution refuses the upgrade
			// (ErrForbiddenDecimalsChanged), a second execution on the same node asks the cached NEW code for the old rate and accepts it
			code = "self"
		}
		ops := []string{hx.CaseOp("sys", "upgrade"), "procs n=2", fmt.Sprintf("chain trie=1 accts=4 wallets=2 seed=%d code=1 sys=1 cands=3 vp=2 vals=4 wasm=log", 7+k),
			"msigx nonce=? type=create sigs=3 signers=0,1,2 min=20", "sblock cb=0",
			fmt.Sprintf("wcall from=1 to=s:%s in=%s value=0 gas=20000000 nonce=?", target, in), "sblock cb=1 ev=f0"}
		call := fmt.Sprintf("wcall from=2 to=s:%s in=%s value=0 gas=20000000 nonce=?", target, in)
		upg := fmt.Sprintf("upg from=0 nonce=? target=%s code=%s by=0,1", target, code)
		if exposure() {
			ops = append(ops, call, upg, "sblock cb=2 ev=f1 decoy=1")
		} else {
			ops = append(ops, upg, call, "sblock cb=2 ev=f1 decoy=1")
		}
		ops = append(ops, call, "xfer from=3 to=0 amount=5 nonce=?", "sblock ev=f2", "srestart r=0", call, "sblock cb=0 ev=f0", "rerun")
		g.Case("sys upgrade "+target, ops, true)
	}
}

func genSys(g *hx.Gen) {
	genUpgrade(g)
	n := g.Pick(4, 40)
	for k := 0; k < n; k++ {
		vp := []int{1, 5, 2, 7}[k%4]
		cands := []int{4, 6, 9, 1, 0}[k%5]
		hot := 0 // the candidate the evidence of this stretch names as proposer (scores move after three consecutive blocks)
		blocks := 20 + g.Rng.Intn(g.Pick(4, 16))
		destruct := k%4 == 3 // chains with self-destructing WASM contracts: the beneficiary is whatever the contract names, supply not summed
		ws := append([]string{}, wasmSet...)
		if !destruct {
			ws = ws[:len(ws)-2]
		}
		chain := fmt.Sprintf("chain trie=1 accts=4 wallets=2 seed=%d code=1 sys=1 cands=%d vp=%d vals=4 wasm=%s", 1+g.Rng.Intn(1000), cands, vp, strings.Join(ws, ","))
		if destruct {
			chain += " nosupply=1"
		}
		ops := []string{hx.CaseOp("sys"), fmt.Sprintf("procs n=%d", []int{1, 2, 4, 16}[g.Rng.Intn(4)]), chain}
		rich := false
		owned := []int{0, 0}
		created := 0
		signersSet := false
		for b := 1; b <= blocks; b++ {
			ntx := g.Rng.Intn(6)
			if b%10 == 9 || b%10 == 0 {
				ntx++ // award blocks carry fees
			}
			kinds := map[string]bool{}
			pend := []int{0, 0}
			newCreated := 0
			if b == 2 { // the signers of contract upgrades are named early: upgrades later in the chain are real
				ops = append(ops, "msigx nonce=? type=create sigs=3 signers=0,1,2 min=20")
				signersSet = true
				kinds["special"] = true
			}
			for t := 0; t < ntx; t++ {
				from := g.Rng.Intn(4)
				switch r := g.Rng.Intn(20); {
				case r < 2:
					ops = append(ops, fmt.Sprintf("xfer from=%d to=%d amount=%d nonce=?", from, g.Rng.Intn(4), 1+g.Rng.Intn(100000)))
					kinds["xfer"] = true
				case r == 2:
					ops = append(ops, fmt.Sprintf("call from=%d c=%d nonce=?", from, []int{1, 7, 255}[g.Rng.Intn(3)]))
					kinds["call"] = true
				case r == 3:
					w := g.Rng.Intn(2)
					ops = append(ops, fmt.Sprintf("ain from=%d w=%d amount=%d nonce=?", from, w, 20000000000+g.Rng.Intn(1000000)*10000))
					pend[w]++
					kinds["conf"] = true
				case r == 4:
					w := g.Rng.Intn(2)
					if owned[w] > 0 {
						if g.Rng.Intn(2) == 0 {
							ops = append(ops, fmt.Sprintf("uu w=%d in=%d to=%d amount=%d", w, g.Rng.Intn(owned[w]), g.Rng.Intn(2), 1+g.Rng.Intn(5000000000)))
							pend[0]++
							pend[1]++
						} else {
							ops = append(ops, fmt.Sprintf("ua w=%d in=%d to=%d amount=%d", w, g.Rng.Intn(owned[w]), g.Rng.Intn(4), 1+g.Rng.Intn(5000000000)))
						}
						kinds["conf"] = true
					}
				case r < 11: // call of a WASM test contract present at genesis
					name := ws[g.Rng.Intn(len(ws))]
					in := []string{"a|a", "a|{}", "symbol|{}", "GiveYouMoney|{\"0\":\"0x00000000000000000000000000000000000be001\"}", "nomethod", "Init|{}", ""}[g.Rng.Intn(7)]
					op := fmt.Sprintf("wcall from=%d to=g:%s in=%s value=%d gas=%d nonce=?", from, name, in, g.Rng.Intn(2)*(1+g.Rng.Intn(3000)), []int{5000000, 5000000, 300000, 30000}[g.Rng.Intn(4)])
					if g.Rng.Intn(6) == 0 {
						op += " tok=1"
					}
					ops = append(ops, op)
					kinds["wasm"] = true
				case r < 13: // creation of a WASM contract (whole, with Init arguments, truncated, too little gas)
					name := ws[g.Rng.Intn(len(ws))]
					op := fmt.Sprintf("wcreate from=%d code=%s value=%d gas=%d nonce=?", from, name, g.Rng.Intn(2)*g.Rng.Intn(500), []int{20000000, 20000000, 2000000, 400000}[g.Rng.Intn(4)])
					switch g.Rng.Intn(5) {
					case 0:
						op += " args={\"0\":\"x\"}"
					case 1:
						op += fmt.Sprintf(" cut=%d", 1+g.Rng.Intn(40))
					}
					ops = append(ops, op)
					newCreated++
					kinds["wasm"] = true
				case r == 13: // call of a created WASM contract
					if created > 0 {
						ops = append(ops, fmt.Sprintf("wcall from=%d to=c%d in=a|a value=%d nonce=?", from, g.Rng.Intn(created), g.Rng.Intn(2)*g.Rng.Intn(100)))
						kinds["wasm"] = true
					}
				case r < 16: // calls of the system contracts: reads, refused writes (no right), pledge deposits
					in, to, val := "", "", 0
					switch g.Rng.Intn(6) {
					case 0:
						to, in = "s:candidates", "GetAllCandidates|{}"
					case 1:
						to, in = "s:coefficient", "getCoefficient|{}"
					case 2:
						to, in = "s:coefficient", "updateVotePeriod|{\"0\":5}" // no right: reverts
					case 3:
						to, in = "s:foundation", "getPoceeds|{}"
					case 4:
						to, in = "s:foundation", "allocAward|{}" // not the zero address: reverts
					case 5:
						to, in, val = "s:pledge", fmt.Sprintf("deposit|{\"0\":\"%s\",\"1\":\"%d0000000000\",\"2\":%d}", appsim.CandCoinbase(g.Rng.Intn(cands+1)).String(), 1000+b, 1000+b*10+t), 1000+b
					}
					ops = append(ops, fmt.Sprintf("wcall from=%d to=%s in=%s value=%d gas=20000000 nonce=?", from, to, in, val))
					kinds["wasm"] = true
				case r == 16: // multi-signature transaction: enough / not enough validator signatures
					sigs := []int{3, 4, 2, 1}[g.Rng.Intn(4)]
					typ := []string{"create", "create", "vals"}[g.Rng.Intn(3)]
					ops = append(ops, fmt.Sprintf("msigx nonce=? type=%s sigs=%d signers=0,1,2 min=20", typ, sigs))
					if typ == "create" && sigs >= 3 {
						signersSet = true
					}
					kinds["special"] = true
				case r == 17: // contract upgrade (needs the signers a committed multi-signature transaction named)
					target := []string{"pledge", "committee", "consCommittee", "coefficient", "candidates"}[g.Rng.Intn(5)]
					code := map[string]string{"pledge": "contract/v2/pledge/output.wasm", "committee": "contract/v2/committee/output_online_v2.wasm",
						"consCommittee": "contract/v2/constructionCommittee/consCommittee_v2_output.wasm", "coefficient": "self", "candidates": "self"}[target]
					by := []string{"0,1", "0,1,2", "0", "3,0"}[g.Rng.Intn(4)]
					ops = append(ops, fmt.Sprintf("upg from=0 nonce=? target=%s code=%s by=%s", target, code, by))
					if signersSet {
						kinds["special"] = true
					}
				default:
					ops = append(ops, fmt.Sprintf("xfertok from=%d to=%d amount=%d nonce=?", from, g.Rng.Intn(4), 1+g.Rng.Intn(1000)))
					kinds["tok"] = true
				}
			}
			// the block: coinbase a candidate (two blocks out of three), evidence as the consensus layer attaches it (the last
			// block's proposer) plus duplicate votes now and then; a decoy proposal of an earlier round now and then
			blk := "sblock"
			if cands > 0 && g.Rng.Intn(3) > 0 {
				blk += fmt.Sprintf(" cb=%d", g.Rng.Intn(cands))
			}
			var evs []string
			if b%4 == 0 {
				hot = g.Rng.Intn(cands + 1)
			}
			if b > 1 && g.Rng.Intn(5) > 0 {
				p := hot
				if g.Rng.Intn(4) == 0 {
					p = g.Rng.Intn(cands + 1)
				}
				if g.Rng.Intn(3) == 0 {
					evs = append(evs, fmt.Sprintf("f%dx%dr%d", p, (hot+1+g.Rng.Intn(2))%(cands+1), 1+g.Rng.Intn(3)))
				} else {
					evs = append(evs, fmt.Sprintf("f%d", p))
				}
			}
			if g.Rng.Intn(9) == 0 {
				evs = append(evs, fmt.Sprintf("d%d", g.Rng.Intn(cands+1)))
			}
			if len(evs) > 0 {
				blk += " ev=" + strings.Join(evs, ",")
				kinds["evidence"] = true
			}
			if ntx > 1 && g.Rng.Intn(4) == 0 {
				blk += fmt.Sprintf(" decoy=%d", g.Rng.Intn(ntx))
			}
			if len(kinds) >= 2 && ntx >= 3 && (kinds["wasm"] || kinds["special"] || kinds["evidence"] || kinds["conf"] || kinds["call"]) {
				rich = true
			}
			ops = append(ops, blk)
			owned[0] += pend[0]
			owned[1] += pend[1]
			created += newCreated
			if g.Rng.Intn(12) == 0 {
				ops = append(ops, fmt.Sprintf("srestart r=%d", g.Rng.Intn(len(sysProfiles)+1)-1))
			}
		}
		if k%2 == 0 || g.Thorough() {
			ops = append(ops, "rerun")
		} else {
			ops = append(ops, "procs n=4")
		}
		// dry run: collect the elections the chain makes and annotate them (the Lean model recomputes every one)
		dry := P{}.NewExec().(*exec)
		for _, op := range ops[:len(ops)-1] {
			hx.SafeExec(dry, op)
		}
		var hs []uint64
		for h := range dry.elects {
			hs = append(hs, h)
		}
		sort.Slice(hs, func(i, j int) bool { return hs[i] < hs[j] })
		for _, h := range hs {
			ops = append(ops, "elect "+dry.elects[h])
		}
		hx.SafeExec(dry, "case")
		g.Case(fmt.Sprintf("sys blocks=%d cands=%d vp=%d", blocks, cands, vp), ops, rich)
	}
}

func joinOr(xs []string, sep string) string {
	if len(xs) == 0 {
		return "-"
	}
	return strings.Join(xs, sep)
}

var _ = bytes.Compare
var _ = math.MaxInt64
var _ = crypto.Keccak256
