package main

import (
	"fmt"
	"math/big"

	"github.com/lianxiangcloud/linkchain/libs/common"
	"github.com/lianxiangcloud/linkchain/types"
	cfg "github.com/lianxiangcloud/linkchain/config"
	"github.com/lianxiangcloud/linkchain/libs/cryptonote/ringct"

	"lvharness/appsim"
)

func must(err error) {
	if err != nil {
		panic(err)
	}
}

func main() {
	appsim.SeedCrypto(7)
	accts := []*appsim.Account{appsim.NewAccount(0), appsim.NewAccount(1)}
	bal, _ := new(big.Int).SetString("1000000000000000000000000", 10)
	s, err := appsim.NewStack(appsim.Opts{IsTrie: true, Accounts: accts, Balance: bal})
	must(err)
	w1, w2 := appsim.NewWallet(1), appsim.NewWallet(2)
	lkc := common.EmptyAddress
	unit := big.NewInt(1e18)
	step := func(name string, tx types.Tx) {
		fmt.Println(name, "admit:", s.Admit(tx))
		b, err := s.Propose(common.HexToAddress("0xc0"), 100)
		must(err)
		ok, err := s.Validate(b)
		fmt.Println("  validate:", ok, err, "numtxs", b.NumTxs, "gasused", b.GasUsed)
		fmt.Println("  commit:", s.Commit(b))
		st := s.App.GetLatestStateDB()
		fmt.Println("  acct0:", st.GetBalance(accts[0].Addr), "acct1:", st.GetBalance(accts[1].Addr), "foundation:", st.GetBalance(cfg.ContractFoundationAddr))
		if u, ok := tx.(*types.UTXOTransaction); ok {
			for _, w := range []*appsim.Wallet{w1, w2} {
				n := w.Scan(u, s.GlobalIndexer(u.TokenID))
				_ = n
			}
			fmt.Println("  w1 outs:", len(w1.Unspent(lkc)), "w2 outs:", len(w2.Unspent(lkc)))
		}
	}
	// A -> U : 10 units to w1 (fee on top)
	amount := new(big.Int).Mul(big.NewInt(1000), unit)
	fee := new(big.Int).Mul(new(big.Int).SetUint64(types.CalNewAmountGas(new(big.Int).Mul(big.NewInt(1000), unit), types.EverLiankeFee)), big.NewInt(types.ParGasPrice))
	ufee := new(big.Int).Mul(new(big.Int).SetUint64(s.App.GetUTXOGas()), big.NewInt(types.ParGasPrice))
	fmt.Println("fees", fee, ufee)
	ain, err := appsim.BuildAin(accts[0], 0, new(big.Int).Add(amount, fee), []types.DestEntry{w1.Dest(amount)}, lkc)
	must(err)
	step("A->U", ain)
	o := w1.Unspent(lkc)[0]
	fmt.Println("  w1 sees amount", o.Amount, "global", o.Global)
	// U -> U : 6 to w2, change 4-fee to w1
	six := new(big.Int).Mul(big.NewInt(600), unit)
	change := new(big.Int).Sub(new(big.Int).Sub(o.Amount, six), ufee)
	uu, err := appsim.BuildUin(w1, []*appsim.OwnedOut{o}, []types.DestEntry{w2.Dest(six), w1.Dest(change)}, lkc, common.EmptyAddress)
	must(err)
	o.Spent = true
	{
		seen := map[string]int{}
		for k := 0; k < 40; k++ {
			h, _ := ringct.GetPreMlsagHash(&uu.RCTSig)
			seen[fmt.Sprintf("%x", h[:6])]++
		}
		fmt.Println("premlsag distinct:", seen)
	}
	step("U->U", uu)
	// U -> A : w2 sends 6-fee to acct1
	o2 := w2.Unspent(lkc)[0]
	afee := new(big.Int).Mul(new(big.Int).SetUint64(types.CalNewAmountGas(o2.Amount, types.EverLiankeFee)), big.NewInt(types.ParGasPrice))
	out := new(big.Int).Sub(o2.Amount, afee)
	ua, err := appsim.BuildUin(w2, []*appsim.OwnedOut{o2}, []types.DestEntry{&types.AccountDestEntry{To: accts[1].Addr, Amount: out}}, lkc, common.EmptyAddress)
	must(err)
	o2.Spent = true
	step("U->A", ua)
	// double spend of o2
	ua2, err := appsim.BuildUin(w2, []*appsim.OwnedOut{o2}, []types.DestEntry{&types.AccountDestEntry{To: accts[1].Addr, Amount: out}}, lkc, common.EmptyAddress)
	must(err)
	fmt.Println("double spend admit:", s.Admit(ua2))
	// inflation attempt: w1 owns a 350-unit output; it claims 1,000,000 units as the input amount
	real := w1.Unspent(lkc)[0]
	fmt.Println("w1 really owns", real.Amount)
	fake := *real
	fake.Amount = new(big.Int).Mul(big.NewInt(1000000), unit)
	big1 := new(big.Int).Sub(fake.Amount, ufee)
	inf, err := appsim.BuildUin(w1, []*appsim.OwnedOut{&fake}, []types.DestEntry{w2.Dest(big1)}, lkc, common.EmptyAddress)
	must(err)
	step("INFLATE U->U", inf)
	for _, o := range w2.Unspent(lkc) {
		fmt.Println("  w2 now owns", o.Amount)
	}
	s.Close()
}
