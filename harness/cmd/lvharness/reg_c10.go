package main

import "lvharness/c10"

func init() { props["C10"] = c10.P{} }
