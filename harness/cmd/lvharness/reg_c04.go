package main

import (
	"os"

	"lvharness/c04"
)

func init() {
	// hidden sub-command: one signing call in a child process (killed by strace fault injection)
	if len(os.Args) >= 2 && os.Args[1] == "C04-child" {
		c04.ChildMain(os.Args[2:])
		os.Exit(0)
	}
	if len(os.Args) >= 2 && os.Args[1] == "C04-load" {
		c04.LoadMain(os.Args[2:])
		os.Exit(0)
	}
	props["C04"] = c04.P{}
}
