package main

import "lvharness/c08"

func init() { props["C08"] = c08.P{} }
