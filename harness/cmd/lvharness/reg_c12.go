package main

import "lvharness/c12"

func init() { props["C12"] = c12.P{} }
