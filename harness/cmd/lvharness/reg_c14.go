package main

import "lvharness/c14"

func init() { props["C14"] = c14.P{} }
