package main

import "lvharness/c11"

func init() { props["C11"] = c11.P{} }
