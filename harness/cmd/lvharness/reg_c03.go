package main

import "lvharness/c03"

func init() { props["C03"] = c03.P{} }
