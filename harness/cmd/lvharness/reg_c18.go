package main

import "lvharness/c18"

func init() { props["C18"] = c18.P{} }
