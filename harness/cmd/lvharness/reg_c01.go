package main

import "lvharness/c01"

func init() { props["C01"] = c01.P{} }
