package main

import "lvharness/c20"

func init() { props["C20"] = c20.New() }
