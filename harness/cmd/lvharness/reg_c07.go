package main

import "lvharness/c07"

func init() { props["C07"] = c07.P{} }
