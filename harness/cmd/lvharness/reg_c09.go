package main

import "lvharness/c09"

func init() { props["C09"] = c09.P{} }
