package main

import "lvharness/c05"

func init() { props["C05"] = c05.P{} }
