package main

import "lvharness/c06"

func init() { props["C06"] = c06.P{} }
