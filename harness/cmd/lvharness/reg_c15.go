package main

import "lvharness/c15"

func init() { props["C15"] = c15.P{} }
