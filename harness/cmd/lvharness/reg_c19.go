package main

import "lvharness/c19"

func init() { props["C19"] = c19.P{} }
