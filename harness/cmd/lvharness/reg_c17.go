package main

import "lvharness/c17"

func init() { props["C17"] = c17.P{} }
