package main

// lvharness <Cxx> run -seed N -tier quick|thorough -out DIR
// lvharness <Cxx> replay FILE      (op lines; prints the implementation's answers and monitor verdicts as JSON)

import (
	"bufio"
	"encoding/json"
	"flag"
	"fmt"
	"os"

	"lvharness/hx"
)

var props = map[string]hx.Prop{}

func main() {
	if len(os.Args) < 3 {
		fmt.Fprintln(os.Stderr, "usage: lvharness <Cxx> run|replay ...")
		os.Exit(2)
	}
	name, cmd := os.Args[1], os.Args[2]
	p, ok := props[name]
	if !ok {
		fmt.Fprintln(os.Stderr, "unknown property", name)
		os.Exit(2)
	}
	switch cmd {
	case "run":
		fs := flag.NewFlagSet("run", flag.ExitOnError)
		seed := fs.Int64("seed", 1, "PRNG seed")
		tier := fs.String("tier", "quick", "quick|thorough")
		out := fs.String("out", "", "output directory")
		fs.Parse(os.Args[3:])
		if err := hx.Run(name, p, *seed, *tier, *out); err != nil {
			fmt.Fprintln(os.Stderr, err)
			os.Exit(2)
		}
	case "replay":
		f, err := os.Open(os.Args[3])
		if err != nil {
			fmt.Fprintln(os.Stderr, err)
			os.Exit(2)
		}
		var ops []string
		sc := bufio.NewScanner(f)
		sc.Buffer(make([]byte, 1<<20), 1<<26)
		for sc.Scan() {
			ops = append(ops, sc.Text())
		}
		impl, fails := hx.Replay(p, ops)
		if fails == nil {
			fails = []hx.Failure{}
		}
		b, _ := json.Marshal(map[string]interface{}{"impl": impl, "failures": fails})
		fmt.Println(string(b))
	default:
		fmt.Fprintln(os.Stderr, "unknown command", cmd)
		os.Exit(2)
	}
}
