package main

import "lvharness/c16"

func init() { props["C16"] = c16.P{} }
