package main

import "lvharness/c13"

func init() { props["C13"] = c13.P{} }
