package main

import "lvharness/c02"

func init() { props["C02"] = c02.P{} }
