package main

// dbgfvi: does VerifyFaultValEvidence survive evidence with a nil Proposer / nil FaultVal?
import (
	"fmt"
	"runtime/debug"

	cs "github.com/lianxiangcloud/linkchain/consensus"
	"github.com/lianxiangcloud/linkchain/types"

	"lvharness/csim"
)

func try(name string, f func() error) {
	defer func() {
		if r := recover(); r != nil {
			fmt.Println(name, "PANIC:", r, string(debug.Stack())[:1500])
		}
	}()
	fmt.Println(name, "->", f())
}

func main() {
	pvs := []*csim.PV{csim.NewPV(0), csim.NewPV(1)}
	var vals []*types.Validator
	for _, pv := range pvs {
		vals = append(vals, &types.Validator{Address: pv.GetAddress(), PubKey: pv.GetPubKey(), VotingPower: 10})
	}
	vs := types.NewValidatorSet(vals)
	st := cs.NewStatus{ChainID: "c", LastValidators: vs, Validators: vs}
	for _, round := range []int{0, 1} {
		commit := &types.Commit{Precommits: []*types.Vote{{Height: 5, Round: round, Type: types.VoteTypePrecommit}}}
		fvi := &types.FaultValidatorsEvidence{Round: round, BlockHeight: 5}
		try(fmt.Sprintf("round=%d proposer=nil faultval=nil", round), func() error { return cs.VerifyFaultValEvidence(st, commit, fvi) })
		fvi2 := &types.FaultValidatorsEvidence{Round: round, BlockHeight: 5, FaultVal: vs.GetProposer().PubKey}
		try(fmt.Sprintf("round=%d proposer=nil faultval=set", round), func() error { return cs.VerifyFaultValEvidence(st, commit, fvi2) })
	}
}
