package main

import (
	"fmt"
	"os"
	"time"

	"lvharness/c16"
	"lvharness/hx"
)

func main() {
	ex := c16.P{}.NewExec()
	t := time.Now()
	go func() {
		time.Sleep(25 * time.Second)
		fmt.Println("HANG; dumping goroutines")
		panic("hang")
	}()
	fmt.Println(hx.SafeExec(ex, "fuzz seed="+os.Args[1]+" phase="+os.Args[2]+" count=150 kind="+os.Args[3]))
	fmt.Println(hx.SafeExec(ex, "diag"), time.Since(t))
}
