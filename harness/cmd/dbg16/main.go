package main

import (
	"fmt"
	"os"
	"strconv"

	"lvharness/c16"
)

// dbg16 <seed> <phase> <count> <kind>: print what one fuzz window changed.
func main() {
	seed, _ := strconv.ParseInt(os.Args[1], 10, 64)
	phase, _ := strconv.Atoi(os.Args[2])
	count, _ := strconv.Atoi(os.Args[3])
	for _, s := range c16.Debug(seed, phase, count, os.Args[4]) {
		fmt.Println(s)
	}
}
