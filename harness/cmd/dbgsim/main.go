package main

// dbgsim: runs one csim simulation several times in one process and in fresh states, and prints a hash of the full
// step trace of every run (the simulation must be deterministic).  Debug aid, not part of any check.

import (
	"crypto/sha256"
	"fmt"
	"os"
	"strconv"
	"strings"

	_ "lvharness/c19"
	"lvharness/csim"
)

func main() {
	p := csim.SimParams{N: 6, Steps: 4000, Heights: 2, Trace: true, Seed: 1017777493190, Prof: "byz",
		Powers: []int64{4, 8, 8, 1, 4, 4}, Byz: []bool{true, false, false, true, false, true}}
	runs := 3
	if len(os.Args) > 1 {
		runs, _ = strconv.Atoi(os.Args[1])
	}
	if os.Getenv("SIMDEBUG") != "" {
		csim.Debug = true
	}
	var first []string
	for i := 0; i < runs; i++ {
		r := csim.Run(p)
		lines := r.Net.TraceLines(1 << 30)
		var full []string
		for n := 0; n < p.N; n++ {
			for k, te := range r.Net.Trace[n] {
				full = append(full, fmt.Sprintf("%d/%d %s => %s", n, k, te.Ev, te.Ans))
			}
		}
		h := sha256.Sum256([]byte(strings.Join(full, "\n")))
		fmt.Printf("run %d lines=%d steps=%d hash=%x\n", i, len(lines), len(full), h[:6])
		if first == nil {
			first = full
		} else {
			for j := range full {
				if j >= len(first) || full[j] != first[j] {
					fmt.Println("DIFF at", j)
					if j < len(first) {
						fmt.Println(" first:", first[j])
					}
					fmt.Println(" now:  ", full[j])
					for q := j - 6; q < j+3 && q < len(full) && q < len(first); q++ {
						if q >= 0 {
							fmt.Println("   F", first[q])
							fmt.Println("   N", full[q])
						}
					}
					break
				}
			}
		}
	}
}
