package main

import (
	"fmt"
	"os"
	"lvharness/csim"
)

func main() {
	p := csim.SimParams{N: 4, Powers: []int64{1, 1, 1, 1}, Byz: []bool{false, false, false, os.Args[1] == "byzprop" || os.Args[1] == "byz"}, Seed: 1, Steps: 1500, Heights: 3, Prof: os.Args[1]}
	csim.Debug = true
	r := csim.Run(p)
	fmt.Println("steps", r.Steps, "minheight", r.MinHeight, "maxround", r.MaxRound, "dead", r.Dead, "killed", r.Killed, "delivered", r.Delivered, "tof", r.TimeoutsFired)
}
