package main

// dbgmsg <hex>: decode a consensus reactor message and print it.
import (
	"encoding/hex"
	"fmt"
	"os"

	cs "github.com/lianxiangcloud/linkchain/consensus"
)

func main() {
	bz, _ := hex.DecodeString(os.Args[1])
	m, err := cs.VerifDecodeMsg(bz)
	fmt.Printf("%T err=%v\n%+v\n", m, err, m)
	if vm, ok := m.(*cs.VoteMessage); ok && vm.Vote != nil {
		fmt.Printf("vote: %+v\n", *vm.Vote)
	}
}
