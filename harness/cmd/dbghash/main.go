package main

import (
	"fmt"
	"math/big"
	"reflect"

	"github.com/lianxiangcloud/linkchain/libs/common"
	"github.com/lianxiangcloud/linkchain/libs/ser"
	"github.com/lianxiangcloud/linkchain/types"

	"lvharness/appsim"
)

func main() {
	accts := []*appsim.Account{appsim.NewAccount(0), appsim.NewAccount(1)}
	bal, _ := new(big.Int).SetString("1000000000000000000000000", 10)
	s, _ := appsim.NewStack(appsim.Opts{IsTrie: true, Accounts: accts, Balance: bal})
	b, _ := s.Propose(common.HexToAddress("0xc0"), 100)
	bz, _ := ser.EncodeToBytes(b)
	var nb *types.Block
	fmt.Println("decode err:", ser.DecodeBytes(bz, &nb))
	fmt.Println("hash eq:", b.Hash() == nb.Hash())
	v1, v2 := reflect.ValueOf(*b.Header), reflect.ValueOf(*nb.Header)
	for i := 0; i < v1.NumField(); i++ {
		f := v1.Type().Field(i)
		if f.PkgPath != "" {
			continue
		}
		if !reflect.DeepEqual(v1.Field(i).Interface(), v2.Field(i).Interface()) {
			fmt.Printf("field %s differs: %v vs %v\n", f.Name, v1.Field(i).Interface(), v2.Field(i).Interface())
		}
	}
	fmt.Printf("lastcommit: %#v vs %#v\n", b.LastCommit, nb.LastCommit)
	fmt.Println("evidence:", b.Evidence.Evidence == nil, nb.Evidence.Evidence == nil, len(nb.Evidence.Evidence))
}
