package main

import (
	"fmt"

	lktypes "github.com/lianxiangcloud/linkchain/libs/cryptonote/types"
	"github.com/lianxiangcloud/linkchain/libs/cryptonote/xcrypto"
)

func main() {
	am := lktypes.KeyV{lktypes.Key{5}}
	sk := lktypes.KeyV{lktypes.Key{9}}
	bp, c, m, err := xcrypto.TlvProveRangeBulletproof(am, sk)
	fmt.Println(bp != nil, len(c), len(m), err)
	if bp != nil {
		ok, err := xcrypto.TlvVerBulletproof(bp)
		fmt.Println("verify:", ok, err, len(bp.L), len(bp.V))
		bp.V[0][3] ^= 1
		ok, err = xcrypto.TlvVerBulletproof(bp)
		fmt.Println("verify tampered:", ok, err)
	}
}
