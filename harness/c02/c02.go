// Package c02: a Byzantine proposer corrupts every header / last-commit / evidence / data field of an otherwise
// valid block (application-level execution stays valid); correct validators must not vote for it, must not die,
// and must never persist a block they cannot apply.
package c02

import (
	"bytes"
	"fmt"
	"sort"
	"strconv"
	"strings"
	"time"

	cmn "github.com/lianxiangcloud/linkchain/libs/common"
	"github.com/lianxiangcloud/linkchain/libs/crypto"
	"github.com/lianxiangcloud/linkchain/types"

	"lvharness/c01"
	"lvharness/csim"
	"lvharness/hx"
)

type P struct{}

func (P) Rule() string {
	return "each case is a 4..6-node simulation in which every Byzantine-proposed block carries one corruption from a fixed table " +
		"(chain id, height, last block id, tx totals, validator/params/commit/data/evidence hashes, last-commit contents, evidence list, nil components), selected by mut=<k>, " +
		"at heights >= 1 and several rounds; monitors: no correct vote for a block failing the real validateBlock, no correct node killed after commit, none dead; " +
		"non-trivial = at least one corrupted proposal was delivered and a height was committed afterwards or a round was lost to it; distinct = distinct (mut, seed, config)"
}

// Mutations is the corruption table. Each returns a label; it edits the block in place and keeps the
// internal hashes consistent unless the corruption is the hash itself.
var Mutations = []struct {
	Name string
	F    func(b *types.Block)
}{
	{"none", func(b *types.Block) {}},
	{"chainid", func(b *types.Block) { b.Header.ChainID = "other-chain" }},
	{"height+1", func(b *types.Block) { b.Header.Height++ }},
	{"lastblockid-hash", func(b *types.Block) { b.Header.LastBlockID.Hash[0] ^= 1 }},
	{"lastblockid-parts", func(b *types.Block) { b.Header.LastBlockID.PartsHeader.Total += 1 }},
	{"totaltxs", func(b *types.Block) { b.Header.TotalTxs += 7 }},
	{"numtxs", func(b *types.Block) { b.Header.NumTxs += 1 }},
	{"validatorshash", func(b *types.Block) { b.Header.ValidatorsHash[3] ^= 0x40 }},
	{"consensushash", func(b *types.Block) { b.Header.ConsensusHash[3] ^= 0x40 }},
	{"lastcommithash", func(b *types.Block) { b.Header.LastCommitHash[3] ^= 0x40 }},
	{"datahash", func(b *types.Block) { b.Header.DataHash[3] ^= 0x40 }},
	{"evidencehash", func(b *types.Block) { b.Header.EvidenceHash[3] ^= 0x40 }},
	{"commit-empty", func(b *types.Block) {
		if b.Height > 1 {
			b.LastCommit = &types.Commit{BlockID: b.LastCommit.BlockID}
			b.Header.LastCommitHash = b.LastCommit.Hash()
		}
	}},
	{"commit-allnil", func(b *types.Block) {
		if b.Height > 1 {
			b.LastCommit = &types.Commit{BlockID: b.LastCommit.BlockID, Precommits: make([]*types.Vote, len(b.LastCommit.Precommits))}
			b.Header.LastCommitHash = b.LastCommit.Hash()
		}
	}},
	{"commit-underpowered", func(b *types.Block) {
		if b.Height > 1 {
			pcs := append([]*types.Vote{}, b.LastCommit.Precommits...)
			kept := 0
			for i := range pcs {
				if pcs[i] != nil {
					kept++
					if kept > 1 {
						pcs[i] = nil
					}
				}
			}
			b.LastCommit = &types.Commit{BlockID: b.LastCommit.BlockID, Precommits: pcs}
			b.Header.LastCommitHash = b.LastCommit.Hash()
		}
	}},
	{"commit-badsig", func(b *types.Block) {
		if b.Height > 1 {
			pcs := make([]*types.Vote, len(b.LastCommit.Precommits))
			for i, v := range b.LastCommit.Precommits {
				if v != nil {
					c := *v
					s := c.Signature.(crypto.SignatureEd25519)
					s[5] ^= 1
					c.Signature = s
					pcs[i] = &c
				}
			}
			b.LastCommit = &types.Commit{BlockID: b.LastCommit.BlockID, Precommits: pcs}
			b.Header.LastCommitHash = b.LastCommit.Hash()
		}
	}},
	{"commit-otherblock", func(b *types.Block) {
		if b.Height > 1 {
			id := b.LastCommit.BlockID
			id.Hash[1] ^= 1
			b.LastCommit = &types.Commit{BlockID: id, Precommits: b.LastCommit.Precommits}
			b.Header.LastCommitHash = b.LastCommit.Hash()
		}
	}},
	{"commit-nil", func(b *types.Block) {
		if b.Height > 1 {
			b.LastCommit = nil
			b.Header.LastCommitHash = cmn.EmptyHash
		}
	}},
	{"evidence-none", func(b *types.Block) {
		b.Evidence.Evidence = nil
		b.Evidence = types.EvidenceData{}
		b.Header.EvidenceHash = b.Evidence.Hash()
	}},
	{"evidence-double-fve", func(b *types.Block) {
		if len(b.Evidence.Evidence) > 0 {
			ev := append([]types.Evidence{}, b.Evidence.Evidence...)
			ev = append(ev, ev[0])
			b.Evidence = types.EvidenceData{Evidence: ev}
			b.Header.EvidenceHash = b.Evidence.Hash()
		}
	}},
	{"evidence-wrong-proposer", func(b *types.Block) {
		if len(b.Evidence.Evidence) > 0 {
			if f, ok := b.Evidence.Evidence[0].(*types.FaultValidatorsEvidence); ok {
				c := *f
				c.Proposer = crypto.GenPrivKeyEd25519FromSecret([]byte("nobody")).PubKey()
				b.Evidence = types.EvidenceData{Evidence: []types.Evidence{&c}}
				b.Header.EvidenceHash = b.Evidence.Hash()
			}
		}
	}},
	{"evidence-wrong-round", func(b *types.Block) {
		if len(b.Evidence.Evidence) > 0 {
			if f, ok := b.Evidence.Evidence[0].(*types.FaultValidatorsEvidence); ok {
				c := *f
				c.Round += 3
				b.Evidence = types.EvidenceData{Evidence: []types.Evidence{&c}}
				b.Header.EvidenceHash = b.Evidence.Hash()
			}
		}
	}},
	{"evidence-nil-proposer", func(b *types.Block) {
		if len(b.Evidence.Evidence) > 0 {
			if f, ok := b.Evidence.Evidence[0].(*types.FaultValidatorsEvidence); ok {
				c := *f
				c.Proposer = nil // decodes from a 0x00 interface prefix
				b.Evidence = types.EvidenceData{Evidence: []types.Evidence{&c}}
				b.Header.EvidenceHash = b.Evidence.Hash()
			}
		}
	}},
	{"evidence-nil-keys", func(b *types.Block) {
		if len(b.Evidence.Evidence) > 0 {
			if f, ok := b.Evidence.Evidence[0].(*types.FaultValidatorsEvidence); ok {
				c := *f
				c.Proposer, c.FaultVal = nil, nil
				b.Evidence = types.EvidenceData{Evidence: []types.Evidence{&c}}
				b.Header.EvidenceHash = b.Evidence.Hash()
			}
		}
	}},
	// duplicate-vote evidence in the proposed block (checkBlockEvidence -> checkDuplicateVoteEvidence on the prevote path,
	// validateBlock -> VerifyEvidence on the commit path): a genuine equivocation of a validator of the previous height keeps
	// the block valid; every defective variant must cost the block every correct vote
	{"dupev-valid", func(b *types.Block) { addDupEv(b, "") }},
	{"dupev-badsig", func(b *types.Block) { addDupEv(b, "badsig") }},
	{"dupev-not-validator", func(b *types.Block) { addDupEv(b, "outsider") }},
	{"dupev-same-vote", func(b *types.Block) { addDupEv(b, "same") }},
	{"dupev-future-height", func(b *types.Block) { addDupEv(b, "future") }},
	{"dupev-other-chain", func(b *types.Block) { addDupEv(b, "chain") }},
	{"dupev-mixed-types", func(b *types.Block) { addDupEv(b, "types") }},
	{"recover-flag", func(b *types.Block) { b.Header.Recover++ }}, // a recover block while no node is in recover mode: skips the ValidatorsHash check of validateBlock
	{"data-nil", func(b *types.Block) { b.Data = nil }},
	{"parenthash", func(b *types.Block) { b.Header.ParentHash[2] ^= 1 }},
}

// addDupEv appends a DuplicateVoteEvidence against the validator at index 0 of the previous height's set (csim's validators
// are NewPV(0..n-1) sorted by address; n = the size of the block's last commit), built from two signed prevotes of the previous
// height; `defect` selects what is wrong with it ("" = nothing).
func addDupEv(b *types.Block, defect string) {
	if b.Height <= 1 || b.LastCommit == nil {
		return
	}
	n := len(b.LastCommit.Precommits)
	pvs := make([]*csim.PV, n)
	for i := range pvs {
		pvs[i] = csim.NewPV(i)
	}
	sort.Slice(pvs, func(i, j int) bool { return bytes.Compare(pvs[i].GetAddress(), pvs[j].GetAddress()) < 0 })
	pv := pvs[0]
	if defect == "outsider" {
		pv = csim.NewPV(1000)
	}
	h := b.Height - 1
	if defect == "future" {
		h = b.Height + 5
	}
	chain := "verif-chain"
	if defect == "chain" {
		chain = "other-chain"
	}
	mk := func(typ byte, tag byte) *types.Vote {
		var id types.BlockID
		id.Hash[0], id.Hash[1] = 0xd0, tag
		id.PartsHeader.Total = 1
		id.PartsHeader.Hash = []byte{tag, 1, 2, 3}
		v := &types.Vote{ValidatorAddress: pv.GetAddress(), ValidatorIndex: 0, ValidatorSize: n, Height: h, Round: 0,
			Timestamp: time.Unix(1600000000, 0).UTC(), Type: typ, BlockID: id}
		pv.SignVote(chain, v)
		return v
	}
	a, c := mk(types.VoteTypePrevote, 1), mk(types.VoteTypePrevote, 2)
	switch defect {
	case "same":
		c = mk(types.VoteTypePrevote, 1)
	case "types":
		c = mk(types.VoteTypePrecommit, 2)
	case "badsig":
		s := c.Signature.(crypto.SignatureEd25519)
		s[7] ^= 1
		c.Signature = s
	}
	ev := append([]types.Evidence{}, b.Evidence.Evidence...)
	ev = append(ev, &types.DuplicateVoteEvidence{PubKey: pv.GetPubKey(), VoteA: a, VoteB: c})
	b.Evidence = types.EvidenceData{Evidence: ev}
	b.Header.EvidenceHash = b.Evidence.Hash()
}

// firstProposer: index (in csim's order: validators sorted by address) of the proposer of height 1, round 0.
func firstProposer(n int, powers []int64) int {
	pvs := make([]*csim.PV, n)
	for i := range pvs {
		pvs[i] = csim.NewPV(i)
	}
	sort.Slice(pvs, func(i, j int) bool { return bytes.Compare(pvs[i].GetAddress(), pvs[j].GetAddress()) < 0 })
	var vals []*types.Validator
	for i, pv := range pvs {
		vals = append(vals, &types.Validator{Address: pv.GetAddress(), PubKey: pv.GetPubKey(), VotingPower: powers[i]})
	}
	p := types.NewValidatorSet(vals).GetProposer()
	for i, pv := range pvs {
		if bytes.Equal(pv.GetAddress(), p.Address) {
			return i
		}
	}
	return 0
}

type exec struct {
	last *csim.SimResult
	next map[int]int
}

func (P) NewExec() hx.Executor { return &exec{} }

func parse(toks []string) csim.SimParams {
	geti := func(k string) int {
		v, _ := hx.Arg(toks, k)
		n, _ := strconv.Atoi(v)
		return n
	}
	p := csim.SimParams{N: geti("n"), Steps: geti("steps"), Heights: geti("heights"), Prof: "byzprop", Trace: true}
	s, _ := hx.Arg(toks, "seed")
	p.Seed, _ = strconv.ParseInt(s, 10, 64)
	pw, _ := hx.Arg(toks, "powers")
	for _, x := range hx.SplitComma(pw) {
		v, _ := strconv.ParseInt(x, 10, 64)
		p.Powers = append(p.Powers, v)
	}
	bz, _ := hx.Arg(toks, "byz")
	for _, x := range hx.SplitComma(bz) {
		p.Byz = append(p.Byz, x == "1")
	}
	mut := geti("mut")
	from := geti("from") // corrupt only blocks at heights >= from
	p.Mutate = func(b *types.Block, k int) string {
		if int(b.Height) < from {
			return "none"
		}
		m := Mutations[mut%len(Mutations)]
		m.F(b)
		return m.Name
	}
	return p
}

func (e *exec) Exec(op string) string {
	toks := hx.Tokens(op)
	switch toks[0] {
	case "case":
		e.last = nil
		e.next = map[int]int{}
		return "ok"
	case "sim":
		e.last = csim.Run(parse(toks))
		return "ok"
	case "diag":
		if e.last == nil {
			return "nosim"
		}
		return c01.Diag(e.last)
	case "hist":
		return c01.CheckHist(toks)
	case "ns":
		// step-level tie with the node model (as in C01): state line + outputs of the real node after its k-th handled input
		if e.next == nil {
			e.next = map[int]int{}
		}
		return c01.NodeStep(e.last, e.next, op, toks)
	}
	return "bad-op"
}

func (P) Monitor(c *hx.CaseRun) []hx.Failure {
	fs := c01.P{}.Monitor(c)
	// refine the class with the corruption that triggered it, so findings are identified by call site + input class
	mut := ""
	for _, op := range c.Ops {
		if strings.HasPrefix(op, "sim ") {
			m, _ := hx.Arg(hx.Tokens(op), "mut")
			k, _ := strconv.Atoi(m)
			mut = Mutations[k%len(Mutations)].Name
		}
	}
	for i := range fs {
		if fs[i].Class == "consensus-halt" || fs[i].Class == "commit-not-applicable" || fs[i].Class == "vote-for-invalid-block" {
			fs[i].Class += ":" + mut
		}
	}
	return fs
}

func (P) Generate(g *hx.Gen) {
	reps := g.Pick(2, 12)
	for mut := range Mutations {
		for rep := 0; rep < reps; rep++ {
			n := 4 + g.Rng.Intn(3)
			powers := make([]int64, n)
			byz := make([]bool, n)
			for i := range powers {
				powers[i] = 10
			}
			from := 1 + rep%2 // corrupt from height 1, or only from height 2 (needs a real last commit)
			if from == 1 {
				// the Byzantine validator is the proposer of height 1, round 0: the FIRST block is a corrupted one (some checks
				// are special-cased for the first height)
				byz[firstProposer(n, powers)] = true
			} else {
				byz[g.Rng.Intn(n)] = true
			}
			bs := make([]string, n)
			for i, b := range byz {
				bs[i] = "0"
				if b {
					bs[i] = "1"
				}
			}
			line := fmt.Sprintf("sim n=%d powers=%s byz=%s seed=%d steps=%d heights=%d mut=%d from=%d", n, hx.JoinInts(powers), strings.Join(bs, ","),
				g.Rng.Int63n(1<<40), g.Pick(2500, 5000), 3, mut, from)
			p := parse(hx.Tokens(line))
			r := csim.Run(p)
			ops := []string{hx.CaseOp(), line, "diag"}
			ops = append(ops, r.HistLines(p)...)
			ops = append(ops, c01.TraceOps(g, r, g.Pick(400, 1000))...)
			applied := 0
			for _, m := range r.Mutations {
				if m != "none" {
					applied++
				}
			}
			g.Count("mut:" + Mutations[mut].Name)
			g.Count(fmt.Sprintf("heights-committed:%d", r.MinHeight))
			if applied > 0 {
				g.Count("corrupted-proposals-sent")
			}
			g.Case(fmt.Sprintf("mut=%s n=%d from=%d", Mutations[mut].Name, n, from), ops, applied > 0)
		}
	}
}
