// Package c02: a Byzantine proposer corrupts every header / last-commit / evidence / data field of an otherwise
// valid block (application-level execution stays valid); correct validators must not vote for it, must not die,
// and must never persist a block they cannot apply.
package c02

import (
	"fmt"
	"strconv"
	"strings"

	cmn "github.com/lianxiangcloud/linkchain/libs/common"
	"github.com/lianxiangcloud/linkchain/libs/crypto"
	"github.com/lianxiangcloud/linkchain/types"

	"lvharness/c01"
	"lvharness/csim"
	"lvharness/hx"
)

type P struct{}

func (P) Rule() string {
	return "each case is a 4..6-node simulation in which every Byzantine-proposed block carries one corruption from a fixed table " +
		"(chain id, height, last block id, tx totals, validator/params/commit/data/evidence hashes, last-commit contents, evidence list, nil components), selected by mut=<k>, " +
		"at heights >= 1 and several rounds; monitors: no correct vote for a block failing the real validateBlock, no correct node killed after commit, none dead; " +
		"non-trivial = at least one corrupted proposal was delivered and a height was committed afterwards or a round was lost to it; distinct = distinct (mut, seed, config)"
}

// Mutations is the corruption table. Each returns a label; it edits the block in place and keeps the
// internal hashes consistent unless the corruption is the hash itself.
var Mutations = []struct {
	Name string
	F    func(b *types.Block)
}{
	{"none", func(b *types.Block) {}},
	{"chainid", func(b *types.Block) { b.Header.ChainID = "other-chain" }},
	{"height+1", func(b *types.Block) { b.Header.Height++ }},
	{"lastblockid-hash", func(b *types.Block) { b.Header.LastBlockID.Hash[0] ^= 1 }},
	{"lastblockid-parts", func(b *types.Block) { b.Header.LastBlockID.PartsHeader.Total += 1 }},
	{"totaltxs", func(b *types.Block) { b.Header.TotalTxs += 7 }},
	{"numtxs", func(b *types.Block) { b.Header.NumTxs += 1 }},
	{"validatorshash", func(b *types.Block) { b.Header.ValidatorsHash[3] ^= 0x40 }},
	{"consensushash", func(b *types.Block) { b.Header.ConsensusHash[3] ^= 0x40 }},
	{"lastcommithash", func(b *types.Block) { b.Header.LastCommitHash[3] ^= 0x40 }},
	{"datahash", func(b *types.Block) { b.Header.DataHash[3] ^= 0x40 }},
	{"evidencehash", func(b *types.Block) { b.Header.EvidenceHash[3] ^= 0x40 }},
	{"commit-empty", func(b *types.Block) {
		if b.Height > 1 {
			b.LastCommit = &types.Commit{BlockID: b.LastCommit.BlockID}
			b.Header.LastCommitHash = b.LastCommit.Hash()
		}
	}},
	{"commit-allnil", func(b *types.Block) {
		if b.Height > 1 {
			b.LastCommit = &types.Commit{BlockID: b.LastCommit.BlockID, Precommits: make([]*types.Vote, len(b.LastCommit.Precommits))}
			b.Header.LastCommitHash = b.LastCommit.Hash()
		}
	}},
	{"commit-underpowered", func(b *types.Block) {
		if b.Height > 1 {
			pcs := append([]*types.Vote{}, b.LastCommit.Precommits...)
			kept := 0
			for i := range pcs {
				if pcs[i] != nil {
					kept++
					if kept > 1 {
						pcs[i] = nil
					}
				}
			}
			b.LastCommit = &types.Commit{BlockID: b.LastCommit.BlockID, Precommits: pcs}
			b.Header.LastCommitHash = b.LastCommit.Hash()
		}
	}},
	{"commit-badsig", func(b *types.Block) {
		if b.Height > 1 {
			pcs := make([]*types.Vote, len(b.LastCommit.Precommits))
			for i, v := range b.LastCommit.Precommits {
				if v != nil {
					c := *v
					s := c.Signature.(crypto.SignatureEd25519)
					s[5] ^= 1
					c.Signature = s
					pcs[i] = &c
				}
			}
			b.LastCommit = &types.Commit{BlockID: b.LastCommit.BlockID, Precommits: pcs}
			b.Header.LastCommitHash = b.LastCommit.Hash()
		}
	}},
	{"commit-otherblock", func(b *types.Block) {
		if b.Height > 1 {
			id := b.LastCommit.BlockID
			id.Hash[1] ^= 1
			b.LastCommit = &types.Commit{BlockID: id, Precommits: b.LastCommit.Precommits}
			b.Header.LastCommitHash = b.LastCommit.Hash()
		}
	}},
	{"commit-nil", func(b *types.Block) {
		if b.Height > 1 {
			b.LastCommit = nil
			b.Header.LastCommitHash = cmn.EmptyHash
		}
	}},
	{"evidence-none", func(b *types.Block) {
		b.Evidence.Evidence = nil
		b.Evidence = types.EvidenceData{}
		b.Header.EvidenceHash = b.Evidence.Hash()
	}},
	{"evidence-double-fve", func(b *types.Block) {
		if len(b.Evidence.Evidence) > 0 {
			ev := append([]types.Evidence{}, b.Evidence.Evidence...)
			ev = append(ev, ev[0])
			b.Evidence = types.EvidenceData{Evidence: ev}
			b.Header.EvidenceHash = b.Evidence.Hash()
		}
	}},
	{"evidence-wrong-proposer", func(b *types.Block) {
		if len(b.Evidence.Evidence) > 0 {
			if f, ok := b.Evidence.Evidence[0].(*types.FaultValidatorsEvidence); ok {
				c := *f
				c.Proposer = crypto.GenPrivKeyEd25519FromSecret([]byte("nobody")).PubKey()
				b.Evidence = types.EvidenceData{Evidence: []types.Evidence{&c}}
				b.Header.EvidenceHash = b.Evidence.Hash()
			}
		}
	}},
	{"evidence-wrong-round", func(b *types.Block) {
		if len(b.Evidence.Evidence) > 0 {
			if f, ok := b.Evidence.Evidence[0].(*types.FaultValidatorsEvidence); ok {
				c := *f
				c.Round += 3
				b.Evidence = types.EvidenceData{Evidence: []types.Evidence{&c}}
				b.Header.EvidenceHash = b.Evidence.Hash()
			}
		}
	}},
	{"evidence-nil-proposer", func(b *types.Block) {
		if len(b.Evidence.Evidence) > 0 {
			if f, ok := b.Evidence.Evidence[0].(*types.FaultValidatorsEvidence); ok {
				c := *f
				c.Proposer = nil // decodes from a 0x00 interface prefix
				b.Evidence = types.EvidenceData{Evidence: []types.Evidence{&c}}
				b.Header.EvidenceHash = b.Evidence.Hash()
			}
		}
	}},
	{"evidence-nil-keys", func(b *types.Block) {
		if len(b.Evidence.Evidence) > 0 {
			if f, ok := b.Evidence.Evidence[0].(*types.FaultValidatorsEvidence); ok {
				c := *f
				c.Proposer, c.FaultVal = nil, nil
				b.Evidence = types.EvidenceData{Evidence: []types.Evidence{&c}}
				b.Header.EvidenceHash = b.Evidence.Hash()
			}
		}
	}},
	{"recover-flag", func(b *types.Block) { b.Header.Recover++ }}, // a recover block while no node is in recover mode: skips the ValidatorsHash check of validateBlock
	{"data-nil", func(b *types.Block) { b.Data = nil }},
	{"parenthash", func(b *types.Block) { b.Header.ParentHash[2] ^= 1 }},
}

type exec struct {
	last *csim.SimResult
	next map[int]int
}

func (P) NewExec() hx.Executor { return &exec{} }

func parse(toks []string) csim.SimParams {
	geti := func(k string) int {
		v, _ := hx.Arg(toks, k)
		n, _ := strconv.Atoi(v)
		return n
	}
	p := csim.SimParams{N: geti("n"), Steps: geti("steps"), Heights: geti("heights"), Prof: "byzprop", Trace: true}
	s, _ := hx.Arg(toks, "seed")
	p.Seed, _ = strconv.ParseInt(s, 10, 64)
	pw, _ := hx.Arg(toks, "powers")
	for _, x := range hx.SplitComma(pw) {
		v, _ := strconv.ParseInt(x, 10, 64)
		p.Powers = append(p.Powers, v)
	}
	bz, _ := hx.Arg(toks, "byz")
	for _, x := range hx.SplitComma(bz) {
		p.Byz = append(p.Byz, x == "1")
	}
	mut := geti("mut")
	from := geti("from") // corrupt only blocks at heights >= from
	p.Mutate = func(b *types.Block, k int) string {
		if int(b.Height) < from {
			return "none"
		}
		m := Mutations[mut%len(Mutations)]
		m.F(b)
		return m.Name
	}
	return p
}

func (e *exec) Exec(op string) string {
	toks := hx.Tokens(op)
	switch toks[0] {
	case "case":
		e.last = nil
		e.next = map[int]int{}
		return "ok"
	case "sim":
		e.last = csim.Run(parse(toks))
		return "ok"
	case "diag":
		if e.last == nil {
			return "nosim"
		}
		return c01.Diag(e.last)
	case "hist":
		return c01.CheckHist(toks)
	case "ns":
		// step-level tie with the node model (as in C01): state line + outputs of the real node after its k-th handled input
		if e.next == nil {
			e.next = map[int]int{}
		}
		return c01.NodeStep(e.last, e.next, op, toks)
	}
	return "bad-op"
}

func (P) Monitor(c *hx.CaseRun) []hx.Failure {
	fs := c01.P{}.Monitor(c)
	// refine the class with the corruption that triggered it, so findings are identified by call site + input class
	mut := ""
	for _, op := range c.Ops {
		if strings.HasPrefix(op, "sim ") {
			m, _ := hx.Arg(hx.Tokens(op), "mut")
			k, _ := strconv.Atoi(m)
			mut = Mutations[k%len(Mutations)].Name
		}
	}
	for i := range fs {
		if fs[i].Class == "consensus-halt" || fs[i].Class == "commit-not-applicable" || fs[i].Class == "vote-for-invalid-block" {
			fs[i].Class += ":" + mut
		}
	}
	return fs
}

func (P) Generate(g *hx.Gen) {
	reps := g.Pick(2, 12)
	for mut := range Mutations {
		for rep := 0; rep < reps; rep++ {
			n := 4 + g.Rng.Intn(3)
			powers := make([]int64, n)
			byz := make([]bool, n)
			for i := range powers {
				powers[i] = 10
			}
			byz[g.Rng.Intn(n)] = true
			from := 1 + rep%2 // corrupt from height 1, or only from height 2 (needs a real last commit)
			bs := make([]string, n)
			for i, b := range byz {
				bs[i] = "0"
				if b {
					bs[i] = "1"
				}
			}
			line := fmt.Sprintf("sim n=%d powers=%s byz=%s seed=%d steps=%d heights=%d mut=%d from=%d", n, hx.JoinInts(powers), strings.Join(bs, ","),
				g.Rng.Int63n(1<<40), g.Pick(2500, 5000), 3, mut, from)
			p := parse(hx.Tokens(line))
			r := csim.Run(p)
			ops := []string{hx.CaseOp(), line, "diag"}
			ops = append(ops, r.HistLines(p)...)
			ops = append(ops, c01.TraceOps(g, r, g.Pick(400, 1000))...)
			applied := 0
			for _, m := range r.Mutations {
				if m != "none" {
					applied++
				}
			}
			g.Count("mut:" + Mutations[mut].Name)
			g.Count(fmt.Sprintf("heights-committed:%d", r.MinHeight))
			if applied > 0 {
				g.Count("corrupted-proposals-sent")
			}
			g.Case(fmt.Sprintf("mut=%s n=%d from=%d", Mutations[mut].Name, n, from), ops, applied > 0)
		}
	}
}
