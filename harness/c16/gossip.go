package c16

// Gossip side of C16.  AddPeer starts three goroutines per peer (gossipDataRoutine, gossipVotesRoutine, queryMaj23Routine)
// WITHOUT a recover; they work on a PeerState every field of which the PEER sets through its messages.  A panic in one of
// them ends the process: one peer halts the node.  Here each scenario builds a hostile peer state on a FRESH PeerState
// through the REAL Receive (a short message sequence), with the node at a random point of a live simulation, and then runs
//   (a) PeerState.PickSendVote (exported) against every vote container the votes routine would pass (last commit, the
//       prevotes/precommits of every round, the stored commit of the peer's height) — needs no hook;
//   (b) bounded iterations of the three REAL routines through the add-only hook consensus/verif_gossip_hooks.go (detected
//       by interface assertion: absent hook = these triggers are skipped and counted), the iteration bound being the
//       number of times the scenario's peer answers IsRunning() == true.
// Monitors: no trigger panics (site reported), none fails to return within a bound, whatever was sent to the peer is
// something the node really has (signature of the vote verifies against the validator set; the part equals the node's
// part at that index), no trigger or message allocates more than 64 MiB.

import (
	"bytes"
	"encoding/hex"
	"fmt"
	"math"
	"math/rand"
	"net"
	"runtime"
	"strconv"
	"strings"
	"time"

	cs "github.com/lianxiangcloud/linkchain/consensus"
	cstypes "github.com/lianxiangcloud/linkchain/consensus/types"
	cmn "github.com/lianxiangcloud/linkchain/libs/common"
	"github.com/lianxiangcloud/linkchain/libs/p2p"
	"github.com/lianxiangcloud/linkchain/libs/ser"
	"github.com/lianxiangcloud/linkchain/types"

	"lvharness/csim"
)

// hostileBitArrays: scenarios also send bit arrays whose Bits and Elems disagree, or whose Bits alone sizes an allocation
// (CommitStep.BlockParts, ProposalPOL.ProposalPOL, VoteSetBits.Votes).  On the current tree these crash the gossip
// goroutines / allocate without bound (proposed/C16-peer-bitarray-unvalidated.md); the cases are gated off until the fix
// is in /repo.  Flip to true together with the fix.
const hostileBitArrays = true

// CountPeer is a p2p.Peer that records what is sent to it and answers IsRunning() == true a bounded number of times.
type CountPeer struct {
	cmn.BaseService
	id     string
	kv     map[string]interface{}
	budget int
	Sent   []sentMsg
}

type sentMsg struct {
	ch byte
	bz []byte
}

func NewCountPeer(id string, budget int) *CountPeer {
	p := &CountPeer{id: id, kv: map[string]interface{}{}, budget: budget}
	p.BaseService = *cmn.NewBaseService(nil, "CountPeer", p)
	return p
}
func (p *CountPeer) IsRunning() bool {
	if p.budget > 0 {
		p.budget--
		return true
	}
	return false
}
func (p *CountPeer) ID() string                   { return p.id }
func (p *CountPeer) RemoteAddr() net.Addr         { return &net.TCPAddr{IP: net.IPv4(10, 0, 0, 2), Port: 2} }
func (p *CountPeer) NodeInfo() p2p.NodeInfo       { return p2p.NodeInfo{} }
func (p *CountPeer) IsOutbound() bool             { return false }
func (p *CountPeer) Status() p2p.ConnectionStatus { return p2p.ConnectionStatus{} }
func (p *CountPeer) Send(ch byte, b []byte) bool {
	p.Sent = append(p.Sent, sentMsg{ch, append([]byte{}, b...)})
	return true
}
func (p *CountPeer) TrySend(ch byte, b []byte) bool   { return p.Send(ch, b) }
func (p *CountPeer) Close() error                     { return nil }
func (p *CountPeer) Set(key string, data interface{}) { p.kv[key] = data }
func (p *CountPeer) Get(key string) interface{}       { return p.kv[key] }

// gossipHook is what consensus/verif_gossip_hooks.go adds to the reactor (build tag verif).
type gossipHook interface {
	VerifSetGossipSleep(gossipMs, maj23Ms int) (int, int)
	VerifGossipDataRoutine(peer p2p.Peer, ps *cs.PeerState) (interface{}, string)
	VerifGossipVotesRoutine(peer p2p.Peer, ps *cs.PeerState) (interface{}, string)
	VerifQueryMaj23Routine(peer p2p.Peer, ps *cs.PeerState) (interface{}, string)
}

// HookPresent reports whether the gossip hook is compiled into the consensus package under test.
func HookPresent() bool {
	_, ok := interface{}(&cs.ConsensusReactor{}).(gossipHook)
	return ok
}

type gresult struct {
	scenarios, messages, reactorPanics, triggers, hookTriggers, sentVotes, sentParts, sentOther, standin, fastSync, addPeer int
	dead, deadScen                                                                                                          string
	deadStep, curStep                                                                                                       int
	hung, badSend, bigAlloc                                                                                                 []string
	kinds, phases                                                                                                           map[string]int
	minHeightAfter                                                                                                          uint64
}

type wire struct {
	ch byte
	bz []byte
}

func enc(m cs.ConsensusMessage) []byte {
	bz, err := ser.EncodeToBytesWithType(&m)
	if err != nil {
		return nil
	}
	return bz
}

// genBits: a bit array as a peer may claim it, for a container the node sizes n.
func genBits(rng *rand.Rand, n int) (*cmn.BitArray, string) {
	fill := func(b *cmn.BitArray) *cmn.BitArray {
		if b == nil {
			return nil
		}
		switch rng.Intn(4) {
		case 0: // empty
		case 1: // full, straggler bits included (what Not() of an empty array looks like)
			for i := range b.Elems {
				b.Elems[i] = math.MaxUint64
			}
		default:
			for i := range b.Elems {
				b.Elems[i] = rng.Uint64()
			}
		}
		return b
	}
	k := rng.Intn(10)
	if !hostileBitArrays && k >= 7 {
		k = rng.Intn(7)
	}
	switch k {
	case 0:
		return nil, "nil"
	case 1, 2:
		return fill(cmn.NewBitArray(n)), "node-size"
	case 3, 4, 5, 6:
		sz := []int{1, n - 1, n + 1, 2 * n, 63, 64, 65, 127, 128, 129, 200, 4096}[rng.Intn(12)]
		return fill(cmn.NewBitArray(sz)), "other-size"
	case 7: // more bits than words
		b := &cmn.BitArray{Bits: []int{n, n + 64, 200, 1 << 20}[rng.Intn(4)], Elems: make([]uint64, rng.Intn(2))}
		return fill(b), "bits-beyond-words"
	case 8: // non-positive bits with words
		b := &cmn.BitArray{Bits: []int{0, -1, -63, -64, -65, math.MinInt64}[rng.Intn(6)], Elems: make([]uint64, 1+rng.Intn(2))}
		return fill(b), "nonpositive-bits"
	default: // Bits alone sizes an allocation in Or/copyBits
		b := &cmn.BitArray{Bits: []int{1 << 31, 1 << 33, math.MaxInt64}[rng.Intn(3)], Elems: make([]uint64, rng.Intn(2))}
		return fill(b), "huge-bits"
	}
}

type nodeView struct {
	H        uint64
	R        int
	V, T, LC int
	hdr      types.PartSetHeader
	hasParts bool
	known    []types.BlockID
}

// scenario builds one hostile message sequence for a fresh peer state.
func (e *env) scenario(v nodeView) (msgs []wire, tags []string) {
	rng := e.rng
	add := func(m cs.ConsensusMessage, tag string) {
		if bz := enc(m); bz != nil {
			msgs = append(msgs, wire{chanOf(m), bz})
			tags = append(tags, tag)
		}
	}
	H := v.H
	hs := []uint64{H, H, H, H - 1, H - 1, H - 2, 1, H + 1, 0, math.MaxUint64, math.MaxUint64 - 1, H - 3}
	h := hs[rng.Intn(len(hs))]
	rs := []int{v.R, v.R, v.R, v.R + 1, v.R - 1, 0, 1, -1, math.MaxInt64, math.MinInt64}
	r := rs[rng.Intn(len(rs))]
	step := cstypes.RoundStepType([]int{1, 1, 2, 3, 4, 5, 6, 7, 8, 0, 200}[rng.Intn(11)])
	lcr := []int{-1, 0, 0, v.R, 1, math.MaxInt64}[rng.Intn(6)]
	add(&cs.NewRoundStepMessage{Height: h, Round: r, Step: step, LastCommitRound: lcr}, "nrs")
	// the header the peer claims for the block parts: the node's current one, the stored block's at h, or junk
	header := func() types.PartSetHeader {
		switch rng.Intn(4) {
		case 0:
			if v.hasParts {
				return v.hdr
			}
		case 1, 2:
			if m := e.n.Nodes[e.target].App.LoadBlockMeta(h); m != nil {
				return m.BlockID.PartsHeader
			}
			if v.hasParts {
				return v.hdr
			}
		}
		hh := types.PartSetHeader{Total: int(pick(rng, 1, int64(v.T))), Hash: make([]byte, 32)}
		rng.Read(hh.Hash)
		return hh
	}
	partsTotal := func(hd types.PartSetHeader) int {
		if hd.Total > 0 && hd.Total < 1<<16 {
			return hd.Total
		}
		return 1
	}
	polr := -1
	for k, nk := 0, rng.Intn(5); k < nk; k++ {
		switch rng.Intn(10) {
		case 0: // proposal (not signed: the reactor books it into the peer state before any signature check)
			polr = []int{-1, 0, 0, r - 1, v.R, v.R - 1, 1, math.MaxInt64, -2}[rng.Intn(9)]
			hd := header()
			if hd.Total <= 0 {
				hd.Total = 1
			}
			add(&cs.ProposalMessage{Proposal: &types.Proposal{Height: h, Round: r, BlockPartsHeader: hd, POLRound: polr, Timestamp: time.Unix(1600000000, 0).UTC()}}, "proposal")
		case 1:
			b, t := genBits(rng, v.V)
			pr := polr
			if rng.Intn(4) == 0 {
				pr = pickRound(rng, v.R)
			}
			add(&cs.ProposalPOLMessage{Height: h, ProposalPOLRound: pr, ProposalPOL: b}, "pol:"+t)
		case 2, 3:
			hd := header()
			b, t := genBits(rng, partsTotal(hd))
			add(&cs.CommitStepMessage{Height: h, BlockPartsHeader: hd, BlockParts: b}, "commitstep:"+t)
		case 4:
			add(&cs.HasVoteMessage{Height: h, Round: []int{r, r, polr, lcr, 0}[rng.Intn(5)], Type: byte(1 + rng.Intn(2)),
				Index: []int{0, v.V - 1, v.V, 63, 64, -1, -63, 1 << 20}[rng.Intn(8)]}, "hasvote")
		case 5:
			add(&cs.VoteSetMaj23Message{Height: h, Round: []int{r, v.R, 0, polr}[rng.Intn(4)], Type: byte(1 + rng.Intn(2)), BlockID: randBlockID(rng, v.known)}, "maj23")
		case 6:
			b, t := genBits(rng, v.V)
			add(&cs.VoteSetBitsMessage{Height: h, Round: []int{r, v.R, 0, polr, lcr}[rng.Intn(5)], Type: byte(1 + rng.Intn(2)), BlockID: randBlockID(rng, v.known), Votes: b}, "votesetbits:"+t)
		case 7: // a vote of the attacker's own validator: makes the reactor allocate the vote bit arrays with the NODE's sizes
			att := e.n.Nodes[e.attacker]
			vote := &types.Vote{ValidatorAddress: att.PV.GetAddress(), ValidatorIndex: e.attacker, ValidatorSize: v.V, Height: []uint64{h, H, H - 1}[rng.Intn(3)],
				Round: []int{r, v.R, 0}[rng.Intn(3)], Timestamp: time.Unix(1600000000, 0).UTC(), Type: byte(1 + rng.Intn(2)), BlockID: randBlockID(rng, v.known)}
			att.PV.SignVote(e.n.Cfg.ChainID, vote)
			add(&cs.VoteMessage{Vote: vote}, "vote")
		case 8:
			add(&cs.BlockPartMessage{Height: h, Round: r, Part: &types.Part{Index: []int{0, v.T - 1, v.T, 64, -1, -64}[rng.Intn(6)], Bytes: []byte{1}}}, "blockpart")
		default: // the peer moves on: second step announcement (round change at the same height, next height, catch-up round)
			r2 := []int{r + 1, r, lcr, polr, 0, v.R}[rng.Intn(6)]
			h2 := []uint64{h, h, h + 1, H}[rng.Intn(4)]
			add(&cs.NewRoundStepMessage{Height: h2, Round: r2, Step: cstypes.RoundStepType(1 + rng.Intn(8)), LastCommitRound: []int{r, lcr, -1}[rng.Intn(3)]}, "nrs2")
			if rng.Intn(2) == 0 {
				h, r = h2, r2
			}
		}
	}
	return
}

const triggerBound = 10 * time.Second

// guarded runs f in its own goroutine under a recover and a time bound.
func guarded(f func()) (panicVal interface{}, stack string, hung bool, alloc uint64) {
	type out struct {
		pv interface{}
		st string
	}
	ch := make(chan out, 1)
	var ms0, ms1 runtime.MemStats
	runtime.ReadMemStats(&ms0)
	go func() {
		var o out
		defer func() { ch <- o }()
		defer func() {
			if r := recover(); r != nil {
				o.pv = r
				buf := make([]byte, 16384)
				o.st = string(buf[:runtime.Stack(buf, false)])
			}
		}()
		f()
	}()
	select {
	case o := <-ch:
		runtime.ReadMemStats(&ms1)
		return o.pv, o.st, false, ms1.TotalAlloc - ms0.TotalAlloc
	case <-time.After(triggerBound):
		return nil, "", true, 0
	}
}

func scenString(msgs []wire) string {
	parts := make([]string, len(msgs))
	for i, m := range msgs {
		parts[i] = fmt.Sprintf("%d:%s", m.ch, hex.EncodeToString(m.bz))
	}
	return strings.Join(parts, ",")
}

func parseScen(s string) (msgs []wire) {
	for _, p := range strings.Split(s, ",") {
		i := strings.Index(p, ":")
		if i < 0 {
			continue
		}
		ch, _ := strconv.Atoi(p[:i])
		bz, _ := hex.DecodeString(p[i+1:])
		msgs = append(msgs, wire{byte(ch), bz})
	}
	return
}

// runScenario delivers the messages to a fresh peer state through the real Receive and pulls every trigger.
func (e *env) runScenario(re *csim.Reactor, res *gresult, msgs []wire, tags []string) {
	node := e.n.Nodes[e.target]
	if node.Dead != "" || len(res.hung) > 0 {
		return // after a call that did not return the process may be wedged (a lock is held for ever): report, do not pile up
	}
	res.scenarios++
	rs := node.CS.VerifRoundState()
	res.phases[phaseOf(rs)]++
	peer := NewCountPeer("gossip-peer", 0)
	ps := cs.NewPeerState(peer)
	peer.Set(types.PeerStateKey, ps)
	scen := scenString(msgs)
	fail := func(kind, what, stack string) {
		site := csim.SiteOf(stack)
		if strings.Contains(stack, "csim.(*MemApp).LoadBlockPart") {
			// the stand-in store indexes its part set; the real BlockStore.LoadBlockPart answers nil for a missing part
			res.standin++
			return
		}
		if res.dead == "" {
			res.dead = kind + "@" + site
			res.deadScen = scen
			res.deadStep = res.curStep
			_ = what
		}
	}
	// the node may be fast-syncing when the peer talks to it (Receive drops data/vote/bits messages then), and a peer is
	// announced to the reactor by AddPeer (its three goroutines end at once here: the peer is not running)
	fast := len(scen)%11 == 0
	if fast {
		re.R.VerifSetFastSync(true)
		res.fastSync++
	}
	if len(scen)%7 == 0 {
		added := NewCountPeer("added-peer", 0)
		pv, stack, hung, _ := guarded(func() { re.R.AddPeer(added); re.R.RemovePeer(added, "bye") })
		if pv != nil {
			fail("AddPeer", fmt.Sprint(pv), stack)
		}
		if hung {
			res.hung = append(res.hung, "AddPeer:"+scen)
		}
		if !fast && len(added.Sent) == 0 {
			res.badSend = append(res.badSend, "AddPeer-sent-no-step-announcement: "+scen)
		}
		res.addPeer++
	}
	defer func() {
		if fast {
			re.R.VerifSetFastSync(false)
		}
	}()
	for i, m := range msgs {
		res.messages++
		if i < len(tags) {
			res.kinds[tags[i]]++
		}
		m := m
		var rp interface{}
		_, _, hung, alloc := guarded(func() { _, rp, _ = re.R.VerifReceive(m.ch, peer, m.bz) })
		if rp != nil {
			res.reactorPanics++ // recovered per connection by the p2p layer: the peer is dropped, allowed
		}
		if hung {
			res.hung = append(res.hung, "Receive:"+scen)
			return
		}
		if alloc > 64<<20 {
			res.bigAlloc = append(res.bigAlloc, fmt.Sprintf("Receive allocated %d MiB: %s", alloc>>20, scen))
		}
	}
	trigger := func(name string, f func()) {
		res.triggers++
		pv, stack, hung, alloc := guarded(f)
		if pv != nil {
			fail(name, fmt.Sprint(pv), stack)
		}
		if hung {
			res.hung = append(res.hung, name+":"+scen)
		}
		if alloc > 64<<20 {
			res.bigAlloc = append(res.bigAlloc, fmt.Sprintf("%s allocated %d MiB: %s", name, alloc>>20, scen))
		}
	}
	// (a) the vote picking of gossipVotesRoutine / gossipVotesForHeight, container by container (no hook needed)
	prs := ps.GetRoundState()
	var sets []types.VoteSetReader
	sets = append(sets, rs.LastCommit)
	for r := 0; r <= rs.Round+1; r++ {
		sets = append(sets, rs.Votes.Prevotes(r), rs.Votes.Precommits(r))
	}
	if prs.ProposalPOLRound >= 0 {
		sets = append(sets, rs.Votes.Prevotes(prs.ProposalPOLRound))
	}
	if c := node.App.LoadBlockCommit(prs.Height); c != nil {
		sets = append(sets, c)
	}
	for _, vs := range sets {
		vs := vs
		trigger("PickSendVote", func() { ps.PickSendVote(vs) })
	}
	// (b) the real routines, a bounded number of iterations each
	if h, ok := interface{}(re.R).(gossipHook); ok {
		h.VerifSetGossipSleep(0, 0)
		for _, rt := range []struct {
			name string
			f    func(p2p.Peer, *cs.PeerState) (interface{}, string)
		}{{"gossipDataRoutine", h.VerifGossipDataRoutine}, {"gossipVotesRoutine", h.VerifGossipVotesRoutine}, {"queryMaj23Routine", h.VerifQueryMaj23Routine}} {
			rt := rt
			res.hookTriggers++
			peer.budget = 3
			var pv interface{}
			var stack string
			_, _, hung, alloc := guarded(func() { pv, stack = rt.f(peer, ps) })
			peer.budget = 0
			if pv != nil {
				fail(rt.name, fmt.Sprint(pv), stack)
			}
			if hung {
				res.hung = append(res.hung, rt.name+":"+scen)
			}
			if alloc > 64<<20 {
				res.bigAlloc = append(res.bigAlloc, fmt.Sprintf("%s allocated %d MiB: %s", rt.name, alloc>>20, scen))
			}
		}
	}
	// what was sent must be something the node has
	for _, s := range peer.Sent {
		if why := e.checkSent(node, s); why != "" {
			res.badSend = append(res.badSend, why+": "+scen)
		}
		switch {
		case s.ch == cs.VoteChannel:
			res.sentVotes++
		case s.ch == cs.DataChannel:
			res.sentParts++
		default:
			res.sentOther++
		}
	}
}

// checkSent: ground truth that does not go through any bit array.
func (e *env) checkSent(node *csim.Node, s sentMsg) string {
	m, err := cs.VerifDecodeMsg(s.bz)
	if err != nil {
		return "sent-undecodable"
	}
	rs := node.CS.VerifRoundState()
	switch m := m.(type) {
	case *cs.VoteMessage:
		v := m.Vote
		if v == nil {
			return "sent-nil-vote"
		}
		if v.ValidatorIndex < 0 || v.ValidatorIndex >= len(e.n.Vals) {
			return "sent-vote-index-out-of-set"
		}
		if v.Height > rs.Height {
			return "sent-vote-of-future-height"
		}
		if err := v.Verify(e.n.Cfg.ChainID, e.n.Vals[v.ValidatorIndex].PubKey); err != nil {
			return "sent-vote-not-verifiable"
		}
	case *cs.BlockPartMessage:
		if m.Part == nil {
			return "sent-nil-part"
		}
		var have *types.Part
		func() {
			defer func() { recover() }()
			if m.Height == rs.Height && rs.ProposalBlockParts != nil {
				have = rs.ProposalBlockParts.GetPart(m.Part.Index)
			} else if m.Height >= 1 && m.Height <= node.App.Height() {
				have = node.App.Parts[m.Height-1].GetPart(m.Part.Index)
			}
		}()
		if have == nil || !bytes.Equal(have.Bytes, m.Part.Bytes) {
			return "sent-part-the-node-does-not-have"
		}
	case *cs.ProposalMessage:
		if m.Proposal == nil || rs.Proposal == nil || m.Proposal.Height != rs.Proposal.Height || m.Proposal.Round != rs.Proposal.Round {
			return "sent-proposal-the-node-does-not-have"
		}
	}
	return ""
}

func viewOf(n *csim.Net, target int, known []types.BlockID) nodeView {
	rs := n.Nodes[target].CS.VerifRoundState()
	v := nodeView{H: rs.Height, R: rs.Round, V: rs.Validators.Size(), T: 1, LC: rs.LastCommit.Size(), known: known}
	if rs.ProposalBlockParts != nil {
		v.T, v.hdr, v.hasParts = rs.ProposalBlockParts.Total(), rs.ProposalBlockParts.Header(), true
	}
	return v
}

// runGossip: a simulation with scenarios injected in the step window [phase, phase+count).
func runGossip(p params) *gresult {
	res := &gresult{phases: map[string]int{}, kinds: map[string]int{}}
	var e *env
	var re *csim.Reactor
	sp := csim.SimParams{N: 4, Powers: []int64{10, 10, 10, 10}, Byz: []bool{false, false, false, true}, Seed: p.seed, Steps: 2500, Heights: 4, Prof: "byzprop"}
	sp.OnStep = func(n *csim.Net, step int, rng *rand.Rand) {
		if e == nil {
			e = &env{n: n, target: int(p.seed % 3), attacker: 3, rng: rand.New(rand.NewSource(p.seed ^ 0x6055))}
			re = csim.AttachReactor(n.Nodes[e.target], "peer3")
		}
		if step < p.phase || step >= p.phase+p.count {
			return
		}
		res.curStep = step
		for _, node := range n.Nodes {
			if node.Byz || node.Dead != "" {
				continue
			}
			rs := node.CS.VerifRoundState()
			if rs.ProposalBlock != nil && rs.ProposalBlockParts != nil {
				e.known = append(e.known, types.BlockID{Hash: rs.ProposalBlock.Hash(), PartsHeader: rs.ProposalBlockParts.Header()})
			}
		}
		if len(e.known) > 8 {
			e.known = e.known[len(e.known)-8:]
		}
		if p.only != "" {
			if step == p.phase {
				e.runScenario(re, res, parseScen(p.only), nil)
			}
			return
		}
		msgs, tags := e.scenario(viewOf(n, e.target, e.known))
		e.runScenario(re, res, msgs, tags)
	}
	r := csim.Run(sp)
	res.minHeightAfter = r.MinHeight
	return res
}

func gdiag(r *gresult) string {
	s := fmt.Sprintf("dead=%d hung=%d badsend=%d bigalloc=%d", b2i(r.dead != ""), len(r.hung), len(r.badSend), len(r.bigAlloc))
	if r.dead != "" {
		s += " site=" + r.dead
	}
	clip := func(x string) string { return strings.ReplaceAll(x[:min(len(x), 80)], " ", "_") }
	if len(r.hung) > 0 {
		s += " hungat=" + clip(r.hung[0])
	}
	if len(r.badSend) > 0 {
		s += " sent=" + clip(r.badSend[0])
	}
	if len(r.bigAlloc) > 0 {
		s += " alloc=" + clip(r.bigAlloc[0])
	}
	return s
}
