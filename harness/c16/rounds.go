package c16

// Catch-up rounds.  HeightVoteSet.AddVote opens a prevote+precommit VoteSet pair (addRound) for a vote of a round the
// node does not track, and charges the sending peer's allowance of two such rounds (peerCatchupRounds) BEFORE the vote is
// judged; a third unknown round from the same peer is ErrGotVoteFromUnwantedRound.  If the charge depended on the vote being
// accepted, one peer's invalid votes for arbitrary rounds would make the node allocate vote sets without bound (memory
// exhaustion by a single peer).  Each `rounds` op runs a simulation to a step and then lets ONE fresh peer send k votes for k
// DISTINCT rounds far above the node's round; whether a round exists is read through HeightVoteSet.Prevotes(r) != nil for
// exactly the rounds that were sent (exported, no hook).  The simulation ends there.

import (
	"fmt"
	"math/rand"
	"time"

	cs "github.com/lianxiangcloud/linkchain/consensus"
	"github.com/lianxiangcloud/linkchain/libs/ser"
	"github.com/lianxiangcloud/linkchain/types"

	"lvharness/csim"
	"lvharness/hx"
)

type roundsResult struct {
	injected      bool
	opened, known int // rounds (of those sent) that exist afterwards and did not before / that existed before
	refused       int // votes answered with an error or not forwarded
	dead          string
	step          int
	alloc         uint64
}

func runRounds(seed int64, phase, k int, sig, via string) *roundsResult {
	res := &roundsResult{}
	sp := csim.SimParams{N: 4, Powers: []int64{10, 10, 10, 10}, Byz: []bool{false, false, false, true}, Seed: seed, Steps: phase + 1, Heights: 50,
		Prof: []string{"byzprop", "async", "lossy"}[seed%3]}
	sp.OnStep = func(n *csim.Net, step int, rng *rand.Rand) {
		if step != phase || res.injected {
			return
		}
		target := int(seed % 3)
		node := n.Nodes[target]
		if node.Dead != "" || node.Killed {
			return
		}
		res.injected = true
		rs := node.CS.VerifRoundState()
		res.step = int(rs.Step)
		peerID := fmt.Sprintf("hostile-%d", seed%1000)
		re := csim.AttachReactor(node, peerID)
		nrs, _ := ser.EncodeToBytesWithType(&[]cs.ConsensusMessage{&cs.NewRoundStepMessage{Height: rs.Height, Round: rs.Round, Step: rs.Step, LastCommitRound: -1}}[0])
		re.R.VerifReceive(cs.StateChannel, re.Peer, nrs)
		att := n.Nodes[3]
		outsider := csim.NewPV(2000 + int(seed%7))
		V := rs.Validators.Size()
		rounds := make([]int, k)
		for i := range rounds {
			rounds[i] = rs.Round + 10 + 7*i
		}
		exists := func(r int) bool { return rs.Votes.Prevotes(r) != nil }
		before := map[int]bool{}
		for _, r := range rounds {
			before[r] = exists(r)
			if before[r] {
				res.known++
			}
		}
		for i, r := range rounds {
			if node.Dead != "" {
				break
			}
			v := &types.Vote{ValidatorAddress: att.PV.GetAddress(), ValidatorIndex: 3, ValidatorSize: V, Height: rs.Height, Round: r,
				Timestamp: time.Unix(1600000000, 0).UTC(), Type: []byte{types.VoteTypePrevote, types.VoteTypePrecommit}[i%2]}
			switch sig {
			case "val": // a valid vote of the attacker's own validator
				att.PV.SignVote(n.Cfg.ChainID, v)
			case "out": // correctly signed by a key that is no validator (claims validator 3's slot)
				outsider.SignVote(n.Cfg.ChainID, v)
			case "idx": // validly signed, validator index outside the set
				v.ValidatorIndex = V
				att.PV.SignVote(n.Cfg.ChainID, v)
			}
			var msgs []cs.ConsensusMessage
			var m cs.ConsensusMessage = &cs.VoteMessage{Vote: v}
			if via == "r" {
				bz, _ := ser.EncodeToBytesWithType(&m)
				msgs, _, _ = re.R.VerifReceive(cs.VoteChannel, re.Peer, bz)
				if len(msgs) == 0 {
					res.refused++
				}
			} else {
				msgs = []cs.ConsensusMessage{m}
			}
			for _, f := range msgs {
				if pv, stack := node.CS.VerifHandleMsg(f, peerID); pv != nil {
					res.dead = csim.SiteOf(stack)
					node.Dead = res.dead
				}
			}
		}
		for _, r := range rounds {
			if !before[r] && exists(r) {
				res.opened++
			}
		}
	}
	csim.Run(sp)
	return res
}

func (e *exec) execRounds(toks []string) string {
	sig, _ := hx.Arg(toks, "sig")
	via, _ := hx.Arg(toks, "via")
	r := runRounds(hx.ArgI(toks, "seed", 0), int(hx.ArgI(toks, "phase", 0)), int(hx.ArgI(toks, "k", 0)), sig, via)
	if !r.injected {
		return "noinject"
	}
	if r.dead != "" {
		return "dead site=" + r.dead
	}
	return fmt.Sprintf("opened=%d", r.opened)
}

func monitorRounds(op, ans string) (fs []hx.Failure) {
	toks := hx.Tokens(ans)
	if len(toks) > 0 && toks[0] == "dead" {
		site, _ := hx.Arg(toks, "site")
		return []hx.Failure{{Monitor: "consensus_routine_survives_peer_input", Class: "halt@" + site, Site: site, Msg: "a vote for a far round panicked the state machine: " + op}}
	}
	if n := hx.ArgI(toks, "opened", 0); n > 2 {
		fs = append(fs, hx.Failure{Monitor: "peer_opens_at_most_two_catchup_rounds", Class: "peer-opens-unbounded-rounds", Site: "consensus/types/height_vote_set.go:AddVote",
			Msg: fmt.Sprintf("the votes of ONE peer opened %d rounds (a prevote and a precommit vote set each) beyond what the node tracks; the allowance is 2 (peerCatchupRounds): memory grows with every vote the peer sends: %s", n, op)})
	}
	return
}

func genRounds(g *hx.Gen) {
	rng := g.Rng
	for k, total := 0, g.Pick(40, 800); k < total; k++ {
		seed := rng.Int63n(1 << 40)
		phase := rng.Intn(320)
		nv := []int{3, 3, 10, 10, 200, 1, 2}[rng.Intn(7)]
		sig := []string{"val", "out", "none", "idx"}[rng.Intn(4)]
		via := []string{"r", "h"}[rng.Intn(2)]
		if !runRounds(seed, phase, 0, sig, via).injected {
			g.Count("rounds:simulation-ended-before-phase")
			continue
		}
		op := fmt.Sprintf("rounds seed=%d phase=%d k=%d sig=%s via=%s", seed, phase, nv, sig, via)
		cr := g.Case("catch-up rounds "+sig, []string{hx.CaseOp(), op}, nv > 2)
		if len(cr.Impl) > 1 {
			if cr.Impl[1] == "noinject" {
				g.Count("rounds:simulation-ended-before-phase")
			} else {
				g.Count(fmt.Sprintf("rounds:k=%d sig=%s -> %s", nv, sig, cr.Impl[1]))
			}
		}
	}
}
