// Package c16: whatever a single peer sends on any consensus channel, the receiving node's consensus routine keeps
// running and its state is unaffected by invalid input.  Messages go through the REAL reactor (decodeMsg + Receive on a
// fake peer) and what it forwards is handled by the REAL state machine, in every consensus phase of a live simulation.
package c16

import (
	"bytes"
	"encoding/hex"
	"fmt"
	"math"
	"math/rand"
	"os"
	"runtime"
	"strconv"
	"strings"
	"time"

	cs "github.com/lianxiangcloud/linkchain/consensus"
	cstypes "github.com/lianxiangcloud/linkchain/consensus/types"
	cmn "github.com/lianxiangcloud/linkchain/libs/common"
	"github.com/lianxiangcloud/linkchain/libs/crypto"
	"github.com/lianxiangcloud/linkchain/libs/crypto/merkle"
	"github.com/lianxiangcloud/linkchain/libs/ser"
	"github.com/lianxiangcloud/linkchain/types"

	"lvharness/csim"
	"lvharness/hx"
)

type P struct{}

func (P) Rule() string {
	return "each case runs a 4-node simulation (one validator key belongs to the attacker) to a random point (phases: new height, propose with/without proposal, waiting for parts, " +
		"prevote/precommit wait, commit) and injects a burst of messages into one correct node through the real reactor path: (a) arbitrary bytes (random, bit-flipped and truncated valid encodings), " +
		"(b) well-typed messages of all ten kinds with every numeric field from {min,-1,0,1,cur-1,cur,cur+1,total-1,total,2^31,max} and optional components nil, some correctly signed with the attacker's validator key; " +
		"monitors: the state machine never panics (receiveRoutine would end), round state unchanged by messages that carry no valid signature, no allocation above 64 MiB caused by one message; " +
		"catch-up rounds (`rounds` ops): ONE fresh peer sends k in {1,2,3,10,200} votes (valid vote of the attacker's validator / signed by an outside key / unsigned / index outside the set) for k distinct rounds far above the node's, through Receive or handleMsg; the rounds that exist afterwards (HeightVoteSet.Prevotes(r) != nil for the rounds sent) and did not before must be at most 2; " +
		"recover proposals (`recover` ops): with the height's start time shifted by the hook VerifShiftStartTime (0/11/13/600 min) proposals of type recover/normal/unknown for round cs.Round+{-1,0,1,2,5} and height cs.Height+{-1,0,1} that NO validator key signed (no signature, damaged signature, valid signature of an outside key) are delivered through Receive or handleMsg; round, step, validators, votes held, locks, proposal, recover flags must be what they were (known finding: the recover shape past the 12-minute limit); " +
		"then the simulation must still commit. non-trivial = at least one injected message was forwarded by the reactor to the state machine; distinct = distinct (seed, phase, kind)"
}

type result struct {
	injected, forwarded, reactorPanics, stopped int
	dead                                        string // site
	deadMsg                                     string // hex of the message that killed the routine
	deadCh                                      byte
	stateChanged                                []string
	bigAlloc                                    []string
	phases                                      map[string]int
	kinds                                       map[string]int
	minHeightAfter                              uint64
}

type exec struct {
	last        *result
	glast       *gresult
	ps          *cs.PeerState // `ps` ops: the peer state of the current case
	badPick     []string      // `ba`/`ps` ops: returned indices that are not set bits of the array picked from
	skippedPick int
	rlast       *rresult
}

func (P) NewExec() hx.Executor { return &exec{} }

var chans = []byte{cs.StateChannel, cs.DataChannel, cs.VoteChannel, cs.VoteSetBitsChannel}

func chanOf(m cs.ConsensusMessage) byte {
	switch m.(type) {
	case *cs.ProposalMessage, *cs.ProposalPOLMessage, *cs.BlockPartMessage:
		return cs.DataChannel
	case *cs.VoteMessage:
		return cs.VoteChannel
	case *cs.VoteSetBitsMessage:
		return cs.VoteSetBitsChannel
	}
	return cs.StateChannel
}

// pick returns a boundary value around cur / total.
func pick(rng *rand.Rand, cur, total int64) int64 {
	c := []int64{math.MinInt64, math.MinInt32, -1, 0, 1, cur - 1, cur, cur + 1, total - 1, total, total + 1, 1 << 20, 1 << 31, math.MaxInt64}
	return c[rng.Intn(len(c))]
}

func pickRound(rng *rand.Rand, cur int) int { return int(pick(rng, int64(cur), int64(cur)+2)) }

func randBlockID(rng *rand.Rand, known []types.BlockID) types.BlockID {
	switch rng.Intn(4) {
	case 0:
		return types.BlockID{}
	case 1:
		if len(known) > 0 {
			return known[rng.Intn(len(known))]
		}
	}
	var id types.BlockID
	rng.Read(id.Hash[:])
	id.PartsHeader.Total = int(pick(rng, 1, 4))
	id.PartsHeader.Hash = make([]byte, []int{0, 20, 32}[rng.Intn(3)])
	rng.Read(id.PartsHeader.Hash)
	return id
}

func randBits(rng *rand.Rand, n int64) *cmn.BitArray {
	switch rng.Intn(5) {
	case 0:
		return nil
	case 1: // inconsistent: many bits, no elements
		return &cmn.BitArray{Bits: int(pick(rng, n, n)), Elems: nil}
	case 2:
		return &cmn.BitArray{Bits: int(n), Elems: make([]uint64, 1+rng.Intn(3))}
	}
	if n <= 0 || n > 4096 {
		n = 8
	}
	return cmn.NewBitArray(int(n))
}

type env struct {
	n        *csim.Net
	target   int
	attacker int
	rng      *rand.Rand
	known    []types.BlockID
}

// genTyped builds one well-typed message; signed reports whether it carries a valid signature of the attacker's key.
func (e *env) genTyped() (m cs.ConsensusMessage, signed bool, kind string) {
	rng := e.rng
	node := e.n.Nodes[e.target]
	rs := node.CS.VerifRoundState()
	H, R := int64(rs.Height), rs.Round
	V := int64(rs.Validators.Size())
	T := int64(1)
	if rs.ProposalBlockParts != nil {
		T = int64(rs.ProposalBlockParts.Total())
	}
	att := e.n.Nodes[e.attacker]
	height := func() uint64 {
		if rng.Intn(3) > 0 {
			return uint64(H)
		}
		return uint64(pick(rng, H, H))
	}
	switch k := rng.Intn(12); k {
	case 0, 1: // vote
		v := &types.Vote{ValidatorAddress: att.PV.GetAddress(), ValidatorIndex: e.attacker, ValidatorSize: int(V), Height: height(), Round: R,
			Timestamp: time.Unix(1600000000, 0).UTC(), Type: []byte{types.VoteTypePrevote, types.VoteTypePrecommit, 0, 3, 255}[rng.Intn(5)], BlockID: randBlockID(rng, e.known)}
		valid := rng.Intn(2) == 0
		if !valid {
			switch rng.Intn(6) {
			case 0:
				v.ValidatorIndex = int(pick(rng, int64(e.attacker), V))
			case 1:
				v.ValidatorSize = int(pick(rng, V, V))
			case 2:
				v.Round = pickRound(rng, R)
			case 3:
				v.ValidatorAddress = nil
			case 4:
				v.ValidatorAddress = e.n.Nodes[(e.attacker+1)%len(e.n.Nodes)].PV.GetAddress()
			case 5:
				v.Type = byte(rng.Intn(256))
			}
		} else if rng.Intn(2) == 0 {
			v.Type = []byte{types.VoteTypePrevote, types.VoteTypePrecommit}[rng.Intn(2)]
		}
		att.PV.SignVote(e.n.Cfg.ChainID, v)
		sigIntact := true
		switch rng.Intn(5) {
		case 0:
			v.Signature = nil
			sigIntact = false
		case 1:
			s := v.Signature.(crypto.SignatureEd25519)
			s[rng.Intn(64)] ^= 1
			v.Signature = s
			sigIntact = false
		}
		if rng.Intn(25) == 0 {
			return &cs.VoteMessage{Vote: nil}, false, "vote-nil"
		}
		// a correctly signed vote of the attacker's own key may change vote tallies and thereby the step
		// (decided on the vote as it is, not on which mutation was drawn: the fields are altered BEFORE signing, and a mutation may
		// draw the value the field already had — such a vote is a perfectly valid vote of the attacker's validator, also for
		// another round or height)
		_ = valid
		ok := sigIntact && v.ValidatorIndex == e.attacker && v.ValidatorSize == int(V) && bytes.Equal(v.ValidatorAddress, att.PV.GetAddress()) &&
			(v.Type == types.VoteTypePrevote || v.Type == types.VoteTypePrecommit) && v.Signature != nil
		return &cs.VoteMessage{Vote: v}, ok, "vote"
	case 2, 3: // proposal
		p := &types.Proposal{Type: []byte{types.ProposalTypeNormal, types.ProposalTypeNormal, types.ProposalTypeRecover, 7}[rng.Intn(4)], Height: height(), Round: R,
			Timestamp: time.Unix(1600000000, 0).UTC(), POLRound: -1}
		p.BlockPartsHeader = types.PartSetHeader{Total: int(pick(rng, 1, 1)), Hash: make([]byte, 32)}
		rng.Read(p.BlockPartsHeader.Hash)
		switch rng.Intn(4) {
		case 0:
			p.Round = pickRound(rng, R)
		case 1:
			p.POLRound = pickRound(rng, R)
			p.POLBlockID = randBlockID(rng, e.known)
		case 2:
			p.BlockPartsHeader.Hash = nil
		}
		att.PV.SignProposal(e.n.Cfg.ChainID, p)
		if rng.Intn(4) == 0 {
			p.Signature = nil
		}
		if rng.Intn(25) == 0 {
			return &cs.ProposalMessage{Proposal: nil}, false, "proposal-nil"
		}
		// a proposal signed by the attacker is accepted when it is the proposer of that round: may change state
		return &cs.ProposalMessage{Proposal: p}, p.Signature != nil, "proposal"
	case 4, 5: // block part
		part := &types.Part{Index: int(pick(rng, 0, T)), Bytes: make([]byte, rng.Intn(64))}
		rng.Read(part.Bytes)
		part.Proof = merkle.SimpleProof{Aunts: make([][]byte, rng.Intn(3))}
		for i := range part.Proof.Aunts {
			part.Proof.Aunts[i] = make([]byte, 32)
		}
		msg := &cs.BlockPartMessage{Height: height(), Round: pickRound(rng, R), Part: part}
		if rng.Intn(25) == 0 {
			msg.Part = nil
		}
		return msg, false, "blockpart"
	case 6:
		return &cs.NewRoundStepMessage{Height: height(), Round: pickRound(rng, R), Step: cstypes.RoundStepType(rng.Intn(12)),
			SecondsSinceStartTime: int(pick(rng, 0, 0)), LastCommitRound: pickRound(rng, 0)}, false, "newroundstep"
	case 7:
		return &cs.CommitStepMessage{Height: height(), BlockPartsHeader: types.PartSetHeader{Total: int(pick(rng, T, T)), Hash: make([]byte, 32)}, BlockParts: randBits(rng, T)}, false, "commitstep"
	case 8:
		return &cs.ProposalPOLMessage{Height: height(), ProposalPOLRound: pickRound(rng, R), ProposalPOL: randBits(rng, V)}, false, "proposalpol"
	case 9:
		return &cs.HasVoteMessage{Height: height(), Round: pickRound(rng, R), Type: byte(rng.Intn(4)), Index: int(pick(rng, 0, V))}, false, "hasvote"
	case 10:
		return &cs.VoteSetMaj23Message{Height: height(), Round: pickRound(rng, R), Type: byte(rng.Intn(4)), BlockID: randBlockID(rng, e.known)}, false, "maj23"
	default:
		if rng.Intn(2) == 0 {
			return &cs.VoteSetBitsMessage{Height: height(), Round: pickRound(rng, R), Type: byte(rng.Intn(4)), BlockID: randBlockID(rng, e.known), Votes: randBits(rng, V)}, false, "votesetbits"
		}
		hb := &types.Heartbeat{ValidatorAddress: att.PV.GetAddress(), ValidatorIndex: int(pick(rng, 0, V)), Height: height(), Round: pickRound(rng, R), Sequence: int(pick(rng, 0, 0))}
		if rng.Intn(5) == 0 {
			return &cs.ProposalHeartbeatMessage{Heartbeat: nil}, false, "heartbeat-nil"
		}
		return &cs.ProposalHeartbeatMessage{Heartbeat: hb}, false, "heartbeat"
	}
}

// genBytes builds an arbitrary byte string: random, or a damaged valid encoding.
func (e *env) genBytes() ([]byte, string) {
	rng := e.rng
	m, _, _ := e.genTyped()
	bz, err := ser.EncodeToBytesWithType(&m)
	if err != nil || len(bz) == 0 || rng.Intn(4) == 0 {
		b := make([]byte, rng.Intn(200))
		rng.Read(b)
		return b, "random"
	}
	switch rng.Intn(4) {
	case 0:
		return bz[:rng.Intn(len(bz))], "truncated"
	case 1:
		c := append([]byte{}, bz...)
		for k := 0; k < 1+rng.Intn(3); k++ {
			c[rng.Intn(len(c))] ^= byte(1 << uint(rng.Intn(8)))
		}
		return c, "bitflip"
	case 2:
		c := append([]byte{}, bz...)
		i := rng.Intn(len(c))
		c[i] = []byte{0x00, 0x7f, 0x80, 0xb7, 0xb8, 0xbf, 0xc0, 0xf7, 0xf8, 0xff}[rng.Intn(10)]
		return c, "lengthbyte"
	}
	return append(bz, bz...), "doubled"
}

func phaseOf(rs *cstypes.RoundState) string {
	s := fmt.Sprintf("step%d", rs.Step)
	if rs.Proposal != nil {
		s += "+proposal"
		if rs.ProposalBlock == nil {
			s += "+waitparts"
		}
	}
	if rs.LockedBlock != nil {
		s += "+locked"
	}
	return s
}

// inject sends one byte string through the reactor and the state machine of the target.
func (e *env) inject(re *csim.Reactor, res *result, ch byte, bz []byte, signed bool, kind string) {
	node := e.n.Nodes[e.target]
	if node.Dead != "" {
		return
	}
	res.injected++
	res.kinds[kind]++
	res.phases[phaseOf(node.CS.VerifRoundState())]++
	before := e.n.StateLine(node)
	var ms0, ms1 runtime.MemStats
	runtime.ReadMemStats(&ms0)
	fwd, pv, _ := re.R.VerifReceive(ch, re.Peer, bz)
	if pv != nil {
		res.reactorPanics++ // the p2p layer recovers this and drops the peer: allowed
	}
	for _, m := range fwd {
		res.forwarded++
		out := e.n.Deliver(e.target, &csim.Msg{ID: fmt.Sprintf("x.%d", res.injected), From: e.attacker, Payload: m})
		if strings.HasPrefix(out, "panic") && res.dead == "" {
			res.dead = node.Dead
			res.deadMsg = hex.EncodeToString(bz)
			res.deadCh = ch
		}
	}
	runtime.ReadMemStats(&ms1)
	if d := ms1.TotalAlloc - ms0.TotalAlloc; d > 64<<20 {
		res.bigAlloc = append(res.bigAlloc, fmt.Sprintf("%s allocated %d MiB: ch=%x %s", kind, d>>20, ch, hex.EncodeToString(bz)))
	}
	if node.Dead == "" && !signed {
		if after := e.n.StateLine(node); after != before {
			res.stateChanged = append(res.stateChanged, fmt.Sprintf("%s: %s -> %s : ch=%x %s", kind, before, after, ch, hex.EncodeToString(bz)))
		}
	}
}

type params struct {
	seed         int64
	phase, count int
	kind         string // typed | bytes
	only         string // hex message to inject alone (replay of a killer)
	onlyCh       byte
}

func run(p params) *result {
	res := &result{phases: map[string]int{}, kinds: map[string]int{}}
	var e *env
	var re *csim.Reactor
	sp := csim.SimParams{N: 4, Powers: []int64{10, 10, 10, 10}, Byz: []bool{false, false, false, true}, Seed: p.seed, Steps: 2500, Heights: 3, Prof: "byzprop"}
	sp.OnStep = func(n *csim.Net, step int, rng *rand.Rand) {
		if e == nil {
			e = &env{n: n, target: int(p.seed % 3), attacker: 3, rng: rand.New(rand.NewSource(p.seed ^ 0x5eed))}
			re = csim.AttachReactor(n.Nodes[e.target], "peer3")
		}
		if step < p.phase || step >= p.phase+p.count {
			return
		}
		for _, node := range n.Nodes {
			if node.Byz || node.Dead != "" {
				continue
			}
			rs := node.CS.VerifRoundState()
			if rs.ProposalBlock != nil && rs.ProposalBlockParts != nil {
				e.known = append(e.known, types.BlockID{Hash: rs.ProposalBlock.Hash(), PartsHeader: rs.ProposalBlockParts.Header()})
			}
		}
		if len(e.known) > 8 {
			e.known = e.known[len(e.known)-8:]
		}
		// tell the target where the "peer" claims to be, as a real peer would (enables the per-peer bookkeeping paths)
		rs := n.Nodes[e.target].CS.VerifRoundState()
		nrs, _ := ser.EncodeToBytesWithType(&[]cs.ConsensusMessage{&cs.NewRoundStepMessage{Height: rs.Height, Round: rs.Round, Step: rs.Step, LastCommitRound: -1}}[0])
		re.R.VerifReceive(cs.StateChannel, re.Peer, nrs)
		if p.only != "" {
			if step == p.phase {
				bz, _ := hex.DecodeString(p.only)
				e.inject(re, res, p.onlyCh, bz, false, "replayed")
			}
			return
		}
		if p.kind == "bytes" {
			bz, k := e.genBytes()
			e.inject(re, res, chans[e.rng.Intn(len(chans))], bz, false, "bytes-"+k)
			return
		}
		m, signed, k := e.genTyped()
		bz, err := ser.EncodeToBytesWithType(&m)
		if err != nil {
			res.kinds["unencodable-"+k]++
			return
		}
		ch := chanOf(m)
		if e.rng.Intn(12) == 0 {
			ch = chans[e.rng.Intn(len(chans))]
		}
		e.inject(re, res, ch, bz, signed, k)
	}
	r := csim.Run(sp)
	res.minHeightAfter = r.MinHeight
	if re != nil {
		res.stopped = len(re.Switch.Stopped)
		// the reactor owns no goroutines here; Stop() would wait for the (never started) state machine
	}
	return res
}

func parse(toks []string) params {
	geti := func(k string) int {
		v, _ := hx.Arg(toks, k)
		n, _ := strconv.Atoi(v)
		return n
	}
	p := params{phase: geti("phase"), count: geti("count")}
	s, _ := hx.Arg(toks, "seed")
	p.seed, _ = strconv.ParseInt(s, 10, 64)
	p.kind, _ = hx.Arg(toks, "kind")
	p.only, _ = hx.Arg(toks, "msg")
	p.onlyCh = byte(geti("ch"))
	return p
}

func (e *exec) Exec(op string) string {
	toks := hx.Tokens(op)
	switch toks[0] {
	case "case":
		e.last, e.glast, e.ps, e.badPick = nil, nil, nil, nil
		return "ok"
	case "recover":
		return e.execRecover(toks)
	case "rounds":
		return e.execRounds(toks)
	case "ba":
		return e.execBA(toks)
	case "ps":
		return e.execPS(toks)
	case "bacheck":
		s := fmt.Sprintf("badpick=%d", len(e.badPick))
		if len(e.badPick) > 0 {
			s += " first=" + e.badPick[0]
		}
		return s
	case "gossip", "gscen":
		p := parse(toks)
		p.only, _ = hx.Arg(toks, "msgs")
		e.glast = runGossip(p)
		return "ok"
	case "gdiag":
		if e.glast == nil {
			return "nosim"
		}
		return gdiag(e.glast)
	case "fuzz", "inject":
		e.last = run(parse(toks))
		return "ok"
	case "diag":
		if e.last == nil {
			return "nosim"
		}
		return diag(e.last)
	}
	return "bad-op"
}

func diag(r *result) string {
	s := fmt.Sprintf("dead=%d statechanged=%d bigalloc=%d", b2i(r.dead != ""), len(r.stateChanged), len(r.bigAlloc))
	if r.dead != "" {
		s += " site=" + r.dead
	}
	if len(r.bigAlloc) > 0 {
		s += " alloc=" + strings.ReplaceAll(r.bigAlloc[0][:min(len(r.bigAlloc[0]), 60)], " ", "_")
	}
	return s
}

func b2i(b bool) int {
	if b {
		return 1
	}
	return 0
}

func (P) Monitor(c *hx.CaseRun) []hx.Failure {
	var fs []hx.Failure
	for i, op := range c.Ops {
		if strings.HasPrefix(op, "rounds ") {
			fs = append(fs, monitorRounds(op, c.Impl[i])...)
			continue
		}
		if strings.HasPrefix(op, "recover ") {
			fs = append(fs, monitorRecover(op, c.Impl[i])...)
			continue
		}
		if strings.HasPrefix(op, "bacheck") {
			toks := hx.Tokens(c.Impl[i])
			if v, _ := hx.Arg(toks, "badpick"); v != "0" {
				fs = append(fs, hx.Failure{Monitor: "picked_is_what_node_has_and_peer_lacks", Class: "bad-pick", Site: "libs/common/bit_array.go", Msg: c.Impl[i]})
			}
			continue
		}
		if strings.HasPrefix(op, "gdiag") {
			toks := hx.Tokens(c.Impl[i])
			if v, _ := hx.Arg(toks, "dead"); v == "1" {
				site, _ := hx.Arg(toks, "site")
				fs = append(fs, hx.Failure{Monitor: "gossip_routines_survive_peer_state", Class: "gossip-halt@" + site, Site: site,
					Msg: "one iteration of a per-peer gossip routine (started by AddPeer with `go`, no recover) panicked on the peer state the peer's own messages built: the process ends; see the `gscen` op for the messages"})
			}
			if v, _ := hx.Arg(toks, "hung"); v != "0" && v != "" {
				fs = append(fs, hx.Failure{Monitor: "gossip_routines_return", Class: "gossip-deadlock", Site: "consensus/reactor.go", Msg: c.Impl[i]})
			}
			if v, _ := hx.Arg(toks, "badsend"); v != "0" && v != "" {
				fs = append(fs, hx.Failure{Monitor: "gossip_sends_only_what_the_node_has", Class: "gossip-bad-send", Site: "consensus/reactor.go", Msg: c.Impl[i]})
			}
			if v, _ := hx.Arg(toks, "bigalloc"); v != "0" && v != "" {
				fs = append(fs, hx.Failure{Monitor: "bounded_allocation_per_message", Class: "unbounded-allocation", Site: "libs/common/bit_array.go", Msg: c.Impl[i]})
			}
			continue
		}
		if !strings.HasPrefix(op, "diag") {
			continue
		}
		toks := hx.Tokens(c.Impl[i])
		if v, _ := hx.Arg(toks, "dead"); v == "1" {
			site, _ := hx.Arg(toks, "site")
			fs = append(fs, hx.Failure{Monitor: "consensus_routine_survives_peer_input", Class: "halt@" + site, Site: site,
				Msg: "a message from one peer panicked the consensus state machine (receiveRoutine's recover logs and returns: consensus halts); see the `inject` op for the bytes"})
		}
		if v, _ := hx.Arg(toks, "statechanged"); v != "0" && v != "" {
			fs = append(fs, hx.Failure{Monitor: "state_unaffected_by_invalid_input", Class: "state-changed-by-unsigned-input", Site: "consensus/state.go:handleMsg", Msg: c.Impl[i]})
		}
		if v, _ := hx.Arg(toks, "bigalloc"); v != "0" && v != "" {
			fs = append(fs, hx.Failure{Monitor: "bounded_allocation_per_message", Class: "unbounded-allocation", Site: "consensus/reactor.go:Receive", Msg: c.Impl[i]})
		}
	}
	return fs
}

func (P) Generate(g *hx.Gen) {
	only := os.Getenv("C16_ONLY") // debugging aid: unit | gossip | fuzz (empty = everything)
	if only == "" || only == "unit" {
		genUnit(g)
	}
	if only == "" || only == "gossip" {
		genGossip(g)
	}
	if only == "" || only == "recover" {
		genRecover(g)
	}
	if only == "" || only == "rounds" {
		genRounds(g)
	}
	if only != "" && only != "fuzz" {
		return
	}
	// corpus: the defects found on the pinned tree (repaired by fix: commits; they must stay repaired)
	total := g.Pick(50, 1200)
	for k := 0; k < total; k++ {
		kind := "typed"
		if k%3 == 2 {
			kind = "bytes"
		}
		seed := g.Rng.Int63n(1 << 40)
		phase := g.Rng.Intn(220)
		count := g.Pick(150, 300)
		line := fmt.Sprintf("fuzz seed=%d phase=%d count=%d kind=%s", seed, phase, count, kind)
		r := run(parse(hx.Tokens(line)))
		ops := []string{hx.CaseOp(), line, "diag"}
		if r.dead != "" {
			// isolate the killer message: replay it alone at the same point
			ops = append(ops, fmt.Sprintf("inject seed=%d phase=%d count=1 ch=%d msg=%s", seed, phase, r.deadCh, r.deadMsg), "diag")
		}
		for ph, n := range r.phases {
			g.Stats["phase:"+ph] += n
		}
		for kd, n := range r.kinds {
			g.Stats["kind:"+kd] += n
		}
		g.Stats["injected"] += r.injected
		g.Stats["forwarded-to-state-machine"] += r.forwarded
		g.Stats["reactor-panics(peer dropped)"] += r.reactorPanics
		g.Stats["peer-stopped-for-error"] += r.stopped
		g.Count(fmt.Sprintf("heights-committed-after:%d", r.minHeightAfter))
		for _, s := range r.stateChanged {
			if len(g.Stats) < 400 {
				g.Stats["statechanged:"+strings.SplitN(s, ":", 2)[0]]++
			}
		}
		g.Case(fmt.Sprintf("fuzz %s phase=%d", kind, phase), ops, r.forwarded > 0)
	}
}

// Debug runs one fuzz window and returns the recorded state changes and deaths (for the debug main).
func Debug(seed int64, phase, count int, kind string) []string {
	r := run(params{seed: seed, phase: phase, count: count, kind: kind})
	out := append([]string{}, r.stateChanged...)
	if r.dead != "" {
		out = append(out, "dead: "+r.dead+" msg="+r.deadMsg)
	}
	return out
}
