package c16

// Generators of the unit-level (`ba`, `ps`) and gossip (`gossip`, `gscen`) cases.

import (
	"fmt"
	"math"
	"math/rand"
	"strconv"
	"strings"

	cmn "github.com/lianxiangcloud/linkchain/libs/common"

	"lvharness/hx"
)

var unitSizes = []int{1, 2, 4, 63, 64, 65, 100, 127, 128, 129, 130, 200}

// unitBA: nil, a consistent array of a boundary size, or an inconsistent (Bits, Elems) pair.  Bits between 2^23 and 2^50
// are left out: `copyBits` would really allocate them (that is the finding, exercised by the model and the gossip cases).
func unitBA(rng *rand.Rand) *cmn.BitArray {
	fill := func(b *cmn.BitArray) *cmn.BitArray {
		switch rng.Intn(5) {
		case 0:
		case 1:
			for i := range b.Elems {
				b.Elems[i] = math.MaxUint64
			}
		case 2:
			if len(b.Elems) > 0 {
				b.Elems[rng.Intn(len(b.Elems))] = 1 << uint(rng.Intn(64))
			}
		default:
			for i := range b.Elems {
				b.Elems[i] = rng.Uint64()
			}
		}
		return b
	}
	switch k := rng.Intn(10); {
	case k == 0:
		return nil
	case k < 7:
		b := cmn.NewBitArray(unitSizes[rng.Intn(len(unitSizes))])
		fill(b)
		if rng.Intn(3) > 0 { // as NewBitArray + SetIndex leave it: no straggler bits
			if r := b.Bits % 64; r != 0 {
				b.Elems[len(b.Elems)-1] &= (1 << uint(r)) - 1
			}
		}
		return b
	default:
		bits := []int{-129, -128, -65, -64, -63, -1, 0, 1, 4, 64, 65, 128, 200, 1 << 20, 1 << 56, math.MaxInt64, math.MaxInt64 - 62, math.MaxInt64 - 63, math.MinInt64}
		return fill(&cmn.BitArray{Bits: bits[rng.Intn(len(bits))], Elems: make([]uint64, rng.Intn(4))})
	}
}

func unitIndex(rng *rand.Rand, b *cmn.BitArray) int {
	n := b.Size()
	c := []int{-129, -128, -65, -64, -63, -1, 0, 1, 62, 63, 64, 65, 127, 128, n - 1, n, n + 1, 1 << 20, math.MaxInt64, math.MinInt64}
	return c[rng.Intn(len(c))]
}

func genUnit(g *hx.Gen) {
	rng := g.Rng
	// ---- bit arrays
	for k, total := 0, g.Pick(150, 3000); k < total; k++ {
		ops := []string{hx.CaseOp()}
		nontrivial := false
		for j := 0; j < 12; j++ {
			a, b := unitBA(rng), unitBA(rng)
			fn := []string{"new", "size", "get", "set", "copy", "or", "and", "not", "sub", "sub", "sub", "update", "pick", "pick"}[rng.Intn(14)]
			if fn == "sub" && rng.Intn(2) == 0 {
				// the gossip shape: node array minus what the peer claims, then pick from the difference
				d := func() (r *cmn.BitArray) {
					defer func() { recover() }()
					return a.Sub(b)
				}()
				ops = append(ops, fmt.Sprintf("ba sub a=%s b=%s", showBA(a), showBA(b)), fmt.Sprintf("ba pick a=%s", showBA(d)))
				nontrivial = nontrivial || (wfBA(a) && wfBA(b) && a.Bits != b.Bits)
				g.Count("ba:sub+pick")
				continue
			}
			op := fmt.Sprintf("ba %s a=%s b=%s i=%d v=%d", fn, showBA(a), showBA(b), unitIndex(rng, a), rng.Intn(2))
			if fn == "new" {
				op = fmt.Sprintf("ba new i=%d", []int{-1, 0, 1, 63, 64, 65, 128, 129, 1 << 16, math.MinInt64}[rng.Intn(10)])
			}
			ops = append(ops, op)
			g.Count("ba:" + fn)
			if a != nil && !wfBA(a) || b != nil && !wfBA(b) {
				g.Count("ba:inconsistent-operand")
			}
		}
		ops = append(ops, "bacheck")
		g.Case("bitarray unit", ops, nontrivial)
	}
	// ---- peer state: message sequences on one PeerState, then vote picking
	for k, total := 0, g.Pick(150, 3000); k < total; k++ {
		ex := &exec{}
		ops := []string{hx.CaseOp()}
		NH := uint64([]int{1, 2, 5, 5, 9}[rng.Intn(5)])
		V := []int{1, 4, 4, 7, 64, 65, 100}[rng.Intn(7)]
		hOf := func() uint64 {
			if ex.ps != nil && rng.Intn(2) == 0 { // where the peer state is now (minus one: the last-commit paths)
				return ex.ps.PRS.Height - uint64(rng.Intn(4)/3)
			}
			return []uint64{NH, NH, NH, NH - 1, NH + 1, 0, 1, math.MaxUint64}[rng.Intn(8)]
		}
		rOf := func() int {
			if ex.ps != nil && rng.Intn(2) == 0 {
				return []int{ex.ps.PRS.Round, ex.ps.PRS.Round, ex.ps.PRS.CatchupCommitRound, ex.ps.PRS.ProposalPOLRound, ex.ps.PRS.LastCommitRound}[rng.Intn(5)]
			}
			return []int{0, 0, 1, 1, 2, -1, 3, math.MaxInt64}[rng.Intn(8)]
		}
		bitsOf := func(n int) string {
			if rng.Intn(3) == 0 {
				return showBA(unitBA(rng))
			}
			b := cmn.NewBitArray([]int{n, n, n, n - 1, n + 1, 2 * n, 64, 65}[rng.Intn(8)])
			if b != nil {
				for i := range b.Elems {
					b.Elems[i] = rng.Uint64()
				}
				if r := b.Bits % 64; r != 0 && rng.Intn(2) == 0 {
					b.Elems[len(b.Elems)-1] &= (1 << uint(r)) - 1
				}
			}
			return showBA(b)
		}
		idxOf := func() int { return []int{0, 1, V - 1, V, 63, 64, -1, -64, 2 * V}[rng.Intn(9)] }
		panicked, picks := false, 0
		emit := func(op string) {
			if panicked {
				return
			}
			ans := hx.SafeExec(ex, op)
			ops = append(ops, op)
			if strings.HasPrefix(ans, "panic") {
				panicked = true // the Go state may be half updated: the case ends here
				g.Count("ps:panic-answer")
			}
		}
		emit(fmt.Sprintf("ps nrs h=%d r=%d s=%d lcr=%d", hOf(), rOf(), 1+rng.Intn(8), []int{-1, 0, 1}[rng.Intn(3)]))
		for j, nj := 0, 5+rng.Intn(10); j < nj && !panicked; j++ {
			h, r, t := hOf(), rOf(), 1+rng.Intn(2)
			if rng.Intn(12) == 0 {
				t = []int{0, 3, 255}[rng.Intn(3)]
			}
			switch rng.Intn(13) {
			case 0:
				emit(fmt.Sprintf("ps nrs h=%d r=%d s=%d lcr=%d", h, r, 1+rng.Intn(8), []int{-1, 0, 1, r}[rng.Intn(4)]))
			case 1:
				emit(fmt.Sprintf("ps commitstep h=%d total=%d hash=%d b=%s", h, []int{1, 3, 70, 0, -1}[rng.Intn(5)], 1+rng.Intn(3), bitsOf(3)))
			case 2:
				emit(fmt.Sprintf("ps pol h=%d r=%d b=%s", h, r, bitsOf(V)))
			case 3:
				emit(fmt.Sprintf("ps hasvote h=%d r=%d t=%d i=%d", h, r, t, idxOf()))
			case 4:
				ours := "nil"
				if rng.Intn(3) > 0 {
					o := cmn.NewBitArray(V)
					for i := range o.Elems {
						o.Elems[i] = rng.Uint64()
					}
					if rr := V % 64; rr != 0 {
						o.Elems[len(o.Elems)-1] &= (1 << uint(rr)) - 1
					}
					ours = showBA(o)
				}
				emit(fmt.Sprintf("ps vsb h=%d r=%d t=%d b=%s ours=%s", h, r, t, bitsOf(V), ours))
			case 5:
				emit(fmt.Sprintf("ps proposal h=%d r=%d total=%d hash=%d polr=%d", h, r, []int{1, 3, 64, 65, 200, 0, -1}[rng.Intn(7)], 1+rng.Intn(3), []int{-1, 0, 1, r - 1}[rng.Intn(4)]))
			case 6:
				emit(fmt.Sprintf("ps part h=%d r=%d i=%d", h, r, []int{0, 1, 2, 3, 63, 64, 199, 200, -1, -64}[rng.Intn(10)]))
			case 7:
				emit(fmt.Sprintf("ps ensure h=%d n=%d", h, []int{V, V, V + 1, 0, -1}[rng.Intn(5)]))
			case 8:
				emit(fmt.Sprintf("ps sethasvote h=%d r=%d t=%d i=%d", h, r, t, idxOf()))
			case 9:
				emit(fmt.Sprintf("ps onvote nh=%d vs=%d lcs=%d h=%d r=%d t=%d i=%d", NH, V, []int{V, 0, V - 1}[rng.Intn(3)], h, r, t, idxOf()))
			case 10:
				emit(fmt.Sprintf("ps initparts total=%d hash=%d", []int{1, 3, 65, 0, -1}[rng.Intn(5)], 1+rng.Intn(3)))
			default:
				// one vote-picking step of the gossip routine: a vote container of the NODE (size V, or the size of another
				// validator set: last commit / stored commit) against whatever the peer state holds for (h, r, type)
				size := []int{V, V, V, V + 1, V - 1, 0}[rng.Intn(6)]
				var vb *cmn.BitArray
				if size > 0 {
					vb = cmn.NewBitArray(size)
					for i := range vb.Elems {
						vb.Elems[i] = rng.Uint64()
					}
					if rr := size % 64; rr != 0 {
						vb.Elems[len(vb.Elems)-1] &= (1 << uint(rr)) - 1
					}
				}
				if rng.Intn(8) == 0 {
					vb = unitBA(rng)
					if vb != nil && vb.Bits%64 < 0 { // would reach rand.Intn(n<=0) under the global rand mutex (see execBA "pick")
						vb = nil
					}
				}
				f := fakeVotes{h: h, r: r, t: byte(t), size: size, commit: rng.Intn(3) == 0, ba: vb}
				if ex.ps == nil {
					continue
				}
				choice := discoverPick(ex.ps, f)
				emit(fmt.Sprintf("ps pick h=%d r=%d t=%d size=%d commit=%d b=%s choice=%s", h, r, t, size, b2i(f.commit), showBA(vb), choice))
				if choice != "none" {
					picks++
				}
			}
		}
		g.Stats["ps:picks-with-a-vote"] += picks
		g.Case("peerstate unit", ops, picks > 0)
	}
}

func genGossip(g *hx.Gen) {
	if HookPresent() {
		g.Count("gossip-hook:present")
	} else {
		g.Count("gossip-hook:ABSENT(routine iterations skipped; PickSendVote triggers only)")
	}
	total := g.Pick(16, 200)
	for k := 0; k < total; k++ {
		seed := g.Rng.Int63n(1 << 40)
		phase := g.Rng.Intn(300)
		count := g.Pick(120, 250)
		line := fmt.Sprintf("gossip seed=%d phase=%d count=%d", seed, phase, count)
		p := parse(hx.Tokens(line))
		r := runGossip(p)
		ops := []string{hx.CaseOp(), line, "gdiag"}
		if r.dead != "" {
			ops = append(ops, fmt.Sprintf("gscen seed=%d phase=%d count=1 msgs=%s", seed, r.deadStep, r.deadScen), "gdiag")
		}
		for ph, n := range r.phases {
			g.Stats["gphase:"+ph] += n
		}
		for kd, n := range r.kinds {
			g.Stats["gmsg:"+kd] += n
		}
		g.Stats["gossip:scenarios"] += r.scenarios
		g.Stats["gossip:messages"] += r.messages
		g.Stats["gossip:reactor-panics(peer dropped)"] += r.reactorPanics
		g.Stats["gossip:PickSendVote-triggers"] += r.triggers
		g.Stats["gossip:routine-runs(hook)"] += r.hookTriggers
		g.Stats["gossip:votes-sent"] += r.sentVotes
		g.Stats["gossip:data-msgs-sent"] += r.sentParts
		g.Stats["gossip:state-msgs-sent"] += r.sentOther
		g.Stats["gossip:standin-store-artefacts"] += r.standin
		g.Stats["gossip:scenarios-while-fast-syncing"] += r.fastSync
		g.Stats["gossip:AddPeer+RemovePeer"] += r.addPeer
		g.Count("gossip:heights-committed-after:" + strconv.FormatUint(r.minHeightAfter, 10))
		g.Case(fmt.Sprintf("gossip phase=%d", phase), ops, r.sentVotes+r.sentParts > 0)
	}
}
