package c16

// Recover proposals.  defaultSetProposal, for `proposal.Type == ProposalTypeRecover && !cs.stepRecover`, same height, a
// round above cs.Round and a height older than timeoutRecoverLimit (12 min of wall clock since cs.StartTime), resets the
// timer, sets stepRecover, REPLACES cs.Validators and cs.Votes and enters round cs.Round+1 — BEFORE the signature is
// looked at.  Each `recover` op runs a simulation to a step, then delivers a list of proposals that NO key of either
// validator set signed (no signature / damaged signature / valid signature of a key outside the set) to one correct node,
// through the real Receive or directly to the state machine, with the start time shifted by the hook
// VerifShiftStartTime, and compares the node's state before and after each.  The simulation ends there.

import (
	"bytes"
	"fmt"
	"math/rand"
	"strconv"
	"strings"
	"time"

	cs "github.com/lianxiangcloud/linkchain/consensus"
	cstypes "github.com/lianxiangcloud/linkchain/consensus/types"
	"github.com/lianxiangcloud/linkchain/libs/crypto"
	"github.com/lianxiangcloud/linkchain/libs/ser"
	"github.com/lianxiangcloud/linkchain/types"

	"lvharness/csim"
	"lvharness/hx"
)

// rvar is one delivery: "sh<minutes>.dr<round delta>.dh<height delta>.t<R|N|7>.s<none|flip|nonval>.v<r|h>".
type rvar struct {
	shift, dr, dh int
	typ           string
	sig           string
	via           string
}

func (v rvar) String() string {
	return fmt.Sprintf("sh%d.dr%d.dh%d.t%s.s%s.v%s", v.shift, v.dr, v.dh, v.typ, v.sig, v.via)
}

func parseVar(s string) (v rvar) {
	for _, f := range strings.Split(s, ".") {
		switch {
		case strings.HasPrefix(f, "sh"):
			v.shift, _ = strconv.Atoi(f[2:])
		case strings.HasPrefix(f, "dr"):
			v.dr, _ = strconv.Atoi(f[2:])
		case strings.HasPrefix(f, "dh"):
			v.dh, _ = strconv.Atoi(f[2:])
		case strings.HasPrefix(f, "t"):
			v.typ = f[1:]
		case strings.HasPrefix(f, "s"):
			v.sig = f[1:]
		case strings.HasPrefix(f, "v"):
			v.via = f[1:]
		}
	}
	return
}

// recoverShape: the shape of the known finding, decided from the op (type recover, start time shifted past the limit,
// same height, higher round) and the node's flags before the delivery (no recover step yet, no proposal held).
func (v rvar) recoverShape(preProp, preSR bool) bool {
	return v.typ == "R" && v.shift >= 12 && v.dh == 0 && v.dr > 0 && !preProp && !preSR
}

type rresult struct {
	injected                bool
	preProp, preSR, preLock bool
	preStep                 int
	toks                    []string // per variant "<prop><sr>:<changed>"
	detail                  []string // per variant: the fields that changed (diagnostics)
	dead                    string
}

func popcount(vs *types.VoteSet) int {
	if vs == nil {
		return 0
	}
	n := 0
	ba := vs.BitArray()
	for i := 0; i < ba.Size(); i++ {
		if ba.GetIndex(i) {
			n++
		}
	}
	return n
}

// snapshot lists (name, value) of everything the property says an invalid input must leave alone.
func snapshot(node *csim.Node) [][2]string {
	rs := node.CS.VerifRoundState()
	sr, rec := node.CS.VerifRecoverState()
	votes := 0
	for r := 0; r <= rs.Round+1 && r < rs.Round+64; r++ {
		votes += popcount(rs.Votes.Prevotes(r)) + popcount(rs.Votes.Precommits(r))
	}
	hashOf := func(b *types.Block) string {
		if b == nil {
			return "-"
		}
		return fmt.Sprintf("%x", b.Hash().Bytes()[:6])
	}
	proposer := "-"
	if p := rs.Validators.GetProposer(); p != nil {
		proposer = fmt.Sprintf("%x", p.Address[:4])
	}
	return [][2]string{
		{"height", fmt.Sprint(rs.Height)}, {"round", fmt.Sprint(rs.Round)}, {"step", fmt.Sprint(int(rs.Step))},
		{"validators", fmt.Sprintf("%x", rs.Validators.Hash()[:6])}, {"proposer", proposer}, {"votes-held", fmt.Sprint(votes)},
		{"votes-object", fmt.Sprintf("%p", rs.Votes)}, {"locked-round", fmt.Sprint(rs.LockedRound)}, {"locked-block", hashOf(rs.LockedBlock)},
		{"valid-round", fmt.Sprint(rs.ValidRound)}, {"valid-block", hashOf(rs.ValidBlock)}, {"proposal", fmt.Sprint(rs.Proposal != nil)},
		{"proposal-block", hashOf(rs.ProposalBlock)}, {"commit-round", fmt.Sprint(rs.CommitRound)},
		{"step-recover", fmt.Sprint(sr)}, {"recover", fmt.Sprint(rec)},
	}
}

func diffSnap(a, b [][2]string) (out []string) {
	for i := range a {
		if a[i][1] != b[i][1] {
			out = append(out, fmt.Sprintf("%s:%s->%s", a[i][0], a[i][1], b[i][1]))
		}
	}
	return
}

func runRecover(seed int64, phase int, vars []rvar) *rresult {
	res := &rresult{}
	var re *csim.Reactor
	prof := []string{"byzprop", "async", "lossy"}[seed%3]
	sp := csim.SimParams{N: 4, Powers: []int64{10, 10, 10, 10}, Byz: []bool{false, false, false, true}, Seed: seed, Steps: phase + 1, Heights: 50, Prof: prof}
	sp.OnStep = func(n *csim.Net, step int, rng *rand.Rand) {
		if step != phase || res.injected {
			return
		}
		target := int(seed % 3)
		node := n.Nodes[target]
		if node.Dead != "" || node.Killed {
			return
		}
		res.injected = true
		re = csim.AttachReactor(node, "peer3")
		rs := node.CS.VerifRoundState()
		sr0, _ := node.CS.VerifRecoverState()
		res.preProp, res.preSR, res.preLock, res.preStep = rs.Proposal != nil, sr0, rs.LockedBlock != nil, int(rs.Step)
		// the "peer" announces itself where the node is (so that the reactor books the proposal into the peer state too)
		nrs, _ := ser.EncodeToBytesWithType(&[]cs.ConsensusMessage{&cs.NewRoundStepMessage{Height: rs.Height, Round: rs.Round, Step: rs.Step, LastCommitRound: -1}}[0])
		re.R.VerifReceive(cs.StateChannel, re.Peer, nrs)
		outsider := csim.NewPV(1000 + int(seed%7)) // a key that is in no validator set
		att := n.Nodes[3]
		for k, v := range vars {
			if node.Dead != "" {
				break
			}
			rs := node.CS.VerifRoundState()
			sr, _ := node.CS.VerifRecoverState()
			p := &types.Proposal{Height: uint64(int64(rs.Height) + int64(v.dh)), Round: rs.Round + v.dr, Timestamp: time.Unix(1600000000, 0).UTC(), POLRound: -1,
				BlockPartsHeader: types.PartSetHeader{Total: 1, Hash: bytes.Repeat([]byte{byte(k + 1)}, 32)}}
			switch v.typ {
			case "R":
				p.Type = types.ProposalTypeRecover
			case "N":
				p.Type = types.ProposalTypeNormal
			default:
				p.Type = 7
			}
			switch v.sig {
			case "flip": // a signature of a real validator, damaged
				att.PV.SignProposal(n.Cfg.ChainID, p)
				s := p.Signature.(crypto.SignatureEd25519)
				s[5] ^= 0x40
				p.Signature = s
			case "nonval": // a correct signature of a key that is not a validator
				outsider.SignProposal(n.Cfg.ChainID, p)
			}
			before := snapshot(node)
			node.CS.VerifShiftStartTime(-time.Duration(v.shift) * time.Minute)
			var m cs.ConsensusMessage = &cs.ProposalMessage{Proposal: p}
			if v.via == "r" {
				bz, _ := ser.EncodeToBytesWithType(&m)
				fwd, _, _ := re.R.VerifReceive(cs.DataChannel, re.Peer, bz)
				for _, f := range fwd {
					n.Deliver(target, &csim.Msg{ID: fmt.Sprintf("rec.%d", k), From: 3, Payload: f})
				}
			} else {
				n.Deliver(target, &csim.Msg{ID: fmt.Sprintf("rec.%d", k), From: 3, Payload: m})
			}
			node.CS.VerifShiftStartTime(time.Duration(v.shift) * time.Minute)
			if node.Dead != "" {
				res.dead = node.Dead
				res.toks = append(res.toks, fmt.Sprintf("%s%s:dead", b01(rs.Proposal != nil), b01(sr)))
				break
			}
			d := diffSnap(before, snapshot(node))
			// pre flags as they were when this variant was delivered (read before: rs is the live state)
			preP, preS := before[11][1] == "true", before[14][1] == "true"
			res.toks = append(res.toks, fmt.Sprintf("%s%s:%s", b01(preP), b01(preS), b01(len(d) > 0)))
			res.detail = append(res.detail, strings.Join(d, ","))
		}
	}
	csim.Run(sp)
	return res
}

func (e *exec) execRecover(toks []string) string {
	seed := hx.ArgI(toks, "seed", 0)
	phase := int(hx.ArgI(toks, "phase", 0))
	vs, _ := hx.Arg(toks, "vars")
	var vars []rvar
	for _, s := range strings.Split(vs, ",") {
		if s != "" {
			vars = append(vars, parseVar(s))
		}
	}
	r := runRecover(seed, phase, vars)
	e.rlast = r
	if !r.injected {
		return "noinject"
	}
	return fmt.Sprintf("prop=%s sr=%s | %s", b01(r.preProp), b01(r.preSR), strings.Join(r.toks, " "))
}

// monitorRecover: an input that no validator key signed changed the node's state.
func monitorRecover(op, ans string) (fs []hx.Failure) {
	toks := hx.Tokens(op)
	vs, _ := hx.Arg(toks, "vars")
	vars := strings.Split(vs, ",")
	i := strings.Index(ans, "| ")
	if i < 0 {
		return
	}
	outs := strings.Fields(ans[i+2:])
	for k, o := range outs {
		if k >= len(vars) || len(o) < 4 {
			continue
		}
		v := parseVar(vars[k])
		preP, preS, c := o[0] == '1', o[1] == '1', o[3:]
		switch {
		case c == "dead":
			fs = append(fs, hx.Failure{Monitor: "consensus_routine_survives_peer_input", Class: "halt@recover-proposal", Site: "consensus/state.go:defaultSetProposal",
				Msg: "an unsigned proposal panicked the consensus state machine: variant " + vars[k]})
		case c == "1" && v.recoverShape(preP, preS):
			fs = append(fs, hx.Failure{Monitor: "state_unaffected_by_invalid_input", Class: "state-changed-by-unsigned-input:recover-proposal", Site: "consensus/state.go:defaultSetProposal",
				Msg: "a RECOVER proposal that no validator key signed, for a higher round of a height older than timeoutRecoverLimit, put the node into the recover step (validators and votes replaced, next round entered) before the signature check rejected it: variant " + vars[k]})
		case c == "1":
			fs = append(fs, hx.Failure{Monitor: "state_unaffected_by_invalid_input", Class: "state-changed-by-unsigned-input", Site: "consensus/state.go:defaultSetProposal",
				Msg: "a proposal that no validator key signed changed the node's state: variant " + vars[k] + " answer " + o})
		}
	}
	return
}

// 12 itself is left out: cs.StartTime may lie up to timeoutCommit in the future, the comparison is with the wall clock
var recoverShifts = []int{0, 11, 13, 13, 13, 600}

func genRecover(g *hx.Gen) {
	rng := g.Rng
	pickVar := func() rvar {
		return rvar{shift: recoverShifts[rng.Intn(len(recoverShifts))], dr: []int{1, 1, 1, 2, 0, -1, 5}[rng.Intn(7)], dh: []int{0, 0, 0, 0, 1, -1}[rng.Intn(6)],
			typ: []string{"R", "R", "R", "R", "N", "7"}[rng.Intn(6)], sig: []string{"none", "flip", "nonval"}[rng.Intn(3)], via: []string{"r", "h"}[rng.Intn(2)]}
	}
	for k, total := 0, g.Pick(70, 1500); k < total; k++ {
		seed := rng.Int63n(1 << 40)
		phase := rng.Intn(320)
		var vars []string
		// first the deliveries that must be refused whatever the state (before the limit, round not higher, other height,
		// not a recover proposal), then one of the recover shape, then more of every kind with the recover step set
		for j := 0; j < 5; j++ {
			v := pickVar()
			if v.typ == "R" && v.shift >= 12 && v.dh == 0 && v.dr > 0 {
				v.shift = []int{0, 11}[rng.Intn(2)]
			}
			vars = append(vars, v.String())
		}
		vars = append(vars, rvar{shift: []int{13, 13, 600}[rng.Intn(3)], dr: []int{1, 1, 2}[rng.Intn(3)], dh: 0, typ: "R",
			sig: []string{"none", "flip", "nonval"}[rng.Intn(3)], via: []string{"r", "h"}[rng.Intn(2)]}.String())
		for j := 0; j < 4; j++ {
			vars = append(vars, pickVar().String())
		}
		probe := runRecover(seed, phase, nil)
		if !probe.injected {
			g.Count("recover:simulation-ended-before-phase")
			continue
		}
		op := fmt.Sprintf("recover seed=%d phase=%d prop=%s sr=%s vars=%s", seed, phase, b01(probe.preProp), b01(probe.preSR), strings.Join(vars, ","))
		cr := g.Case(fmt.Sprintf("recover proposal phase=%d", phase), []string{hx.CaseOp(), op}, true)
		g.Count(fmt.Sprintf("recover:node-state step%d prop=%v locked=%v", probe.preStep, probe.preProp, probe.preLock))
		if len(cr.Impl) > 1 {
			for _, o := range strings.Fields(cr.Impl[1]) {
				if strings.HasSuffix(o, ":1") {
					g.Count("recover:deliveries-that-changed-state")
				} else if strings.HasSuffix(o, ":0") {
					g.Count("recover:deliveries-refused-without-effect")
				}
			}
		}
	}
}

// DebugRecover returns the per-variant field changes (debug main / proposal text).
func DebugRecover(seed int64, phase int, vars string) []string {
	var vs []rvar
	for _, s := range strings.Split(vars, ",") {
		vs = append(vs, parseVar(s))
	}
	r := runRecover(seed, phase, vs)
	out := []string{fmt.Sprintf("injected=%v prop=%v sr=%v lock=%v step=%d toks=%v", r.injected, r.preProp, r.preSR, r.preLock, r.preStep, r.toks)}
	return append(out, r.detail...)
}

var _ = cstypes.RoundStepCommit
