package c16

// Unit-level ops on the REAL cmn.BitArray (`ba …`) and the REAL consensus.PeerState (`ps …`), answered line by line the
// same way by the Lean models Model.PeerBits / Model.PeerState.  A bit array that arrives in a message is decoded field by
// field, so `Bits` and `Elems` are independent here too (inconsistent pairs are exactly what a hostile peer can send).

import (
	"fmt"
	"strconv"
	"strings"

	cs "github.com/lianxiangcloud/linkchain/consensus"
	cstypes "github.com/lianxiangcloud/linkchain/consensus/types"
	cmn "github.com/lianxiangcloud/linkchain/libs/common"
	"github.com/lianxiangcloud/linkchain/types"

	"lvharness/hx"
)

func parseBA(s string) *cmn.BitArray {
	if s == "" || s == "nil" {
		return nil
	}
	i := strings.Index(s, ":")
	bits, _ := strconv.ParseInt(s[:i], 10, 64)
	b := &cmn.BitArray{Bits: int(bits), Elems: []uint64{}}
	if es := s[i+1:]; es != "-" && es != "" {
		for _, h := range strings.Split(es, ",") {
			v, _ := strconv.ParseUint(h, 16, 64)
			b.Elems = append(b.Elems, v)
		}
	}
	return b
}

func showBA(b *cmn.BitArray) string {
	if b == nil {
		return "nil"
	}
	if len(b.Elems) == 0 {
		return fmt.Sprintf("%d:-", b.Bits)
	}
	hs := make([]string, len(b.Elems))
	for i, e := range b.Elems {
		hs[i] = strconv.FormatUint(e, 16)
	}
	return fmt.Sprintf("%d:%s", b.Bits, strings.Join(hs, ","))
}

func wfBA(b *cmn.BitArray) bool {
	return b != nil && b.Bits > 0 && b.Bits < 1<<30 && len(b.Elems) == (b.Bits+63)/64
}

// pickAll calls PickRandom `tries` times; panicked = some call panicked; picks = distinct indices returned.
func pickAll(b *cmn.BitArray, tries int) (picks map[int]bool, none bool, panicked bool) {
	picks = map[int]bool{}
	for k := 0; k < tries; k++ {
		func() {
			defer func() {
				if r := recover(); r != nil {
					panicked = true
				}
			}()
			if i, ok := b.PickRandom(); ok {
				picks[i] = true
			} else {
				none = true
			}
		}()
	}
	return
}

// validPick is the ground truth for one returned index, read off the words directly: the bit is set, and in a
// consistent array it lies below Bits.
func validPick(b *cmn.BitArray, i int) bool {
	if b == nil || i < 0 || i/64 >= len(b.Elems) || b.Elems[i/64]&(uint64(1)<<uint(i%64)) == 0 {
		return false
	}
	return !wfBA(b) || i < b.Bits
}

func b01(b bool) string {
	if b {
		return "1"
	}
	return "0"
}

func (e *exec) execBA(toks []string) string {
	arg := func(k string) string { v, _ := hx.Arg(toks, k); return v }
	a, b := parseBA(arg("a")), parseBA(arg("b"))
	i := int(hx.ArgI(toks, "i", 0))
	v := hx.ArgI(toks, "v", 0) != 0
	switch toks[1] {
	case "new":
		return showBA(cmn.NewBitArray(i))
	case "size":
		return strconv.Itoa(a.Size())
	case "get":
		return b01(a.GetIndex(i))
	case "set":
		r := a.SetIndex(i, v)
		return b01(r) + " " + showBA(a)
	case "copy":
		return showBA(a.Copy())
	case "or":
		return showBA(a.Or(b))
	case "and":
		return showBA(a.And(b))
	case "not":
		return showBA(a.Not())
	case "sub":
		r := a.Sub(b)
		// ground truth of the clause "what may be sent is what the node has and the peer lacks", bit by bit on the words
		if r != nil && wfBA(a) && wfBA(b) {
			for k := 0; k < r.Bits && k/64 < len(r.Elems); k++ {
				if r.Elems[k/64]&(1<<uint(k%64)) != 0 {
					inA := k < a.Bits && a.Elems[k/64]&(1<<uint(k%64)) != 0
					inB := k < b.Bits && b.Elems[k/64]&(1<<uint(k%64)) != 0
					if !inA || inB {
						e.badPick = append(e.badPick, fmt.Sprintf("sub-bit-%d-of-%s-minus-%s", k, showBA(a), showBA(b)))
					}
				}
			}
			if r.Bits != a.Bits {
				e.badPick = append(e.badPick, fmt.Sprintf("sub-size-%d-of-%s-minus-%s", r.Bits, showBA(a), showBA(b)))
			}
		}
		return showBA(r)
	case "update":
		a.Update(b)
		return showBA(a)
	case "pick":
		if a != nil && len(a.Elems) > 0 && a.Bits%64 < 0 {
			// NOT EXECUTED: PickRandom reaches cmn.RandIntn(n) with n = Bits % 64 < 0; math/rand panics on n <= 0 and
			// cmn.Rand.Intn holds the process-wide rand mutex WITHOUT a deferred unlock, so after that panic every later
			// RandIntn of the process blocks for ever (seen: the harness wedged).  Answered from the documented behaviour.
			e.skippedPick++
			panic("rand.Intn(n<=0) under the global rand mutex")
		}
		picks, none, panicked := pickAll(a, 200)
		for p := range picks {
			if !validPick(a, p) {
				e.badPick = append(e.badPick, fmt.Sprintf("pick-%d-of-%s", p, showBA(a)))
			}
		}
		if panicked {
			panic("PickRandom panicked")
		}
		if len(picks) > 0 && none {
			e.badPick = append(e.badPick, "pick-some-and-none-of-"+showBA(a))
		}
		if len(picks) > 0 {
			return "some"
		}
		return "none"
	}
	return "bad-op"
}

// ---- PeerState ---------------------------------------------------------------------------------------------------

type fakeVotes struct {
	h      uint64
	r      int
	t      byte
	size   int
	commit bool
	ba     *cmn.BitArray
	asked  *int // index GetByIndex was called with (-1<<40 = not called)
}

const notAsked = -1 << 40

func (f *fakeVotes) Height() uint64          { return f.h }
func (f *fakeVotes) Round() int              { return f.r }
func (f *fakeVotes) Type() byte              { return f.t }
func (f *fakeVotes) Size() int               { return f.size }
func (f *fakeVotes) BitArray() *cmn.BitArray { return f.ba.Copy() }
func (f *fakeVotes) IsCommit() bool          { return f.commit }
func (f *fakeVotes) GetByIndex(i int) *types.Vote {
	*f.asked = i
	votes := make([]*types.Vote, maxInt(f.size, 0)) // `voteSet.votes[valIndex]` / `commit.Precommits[index]`
	_ = votes[i]
	return &types.Vote{ValidatorIndex: i}
}

func maxInt(a, b int) int {
	if a > b {
		return a
	}
	return b
}

// clonePS copies a peer state preserving the aliasing among its bit-array pointers.
func clonePS(ps *cs.PeerState) *cs.PeerState {
	c := cs.NewPeerState(NewCountPeer("clone", 0))
	c.PRS = ps.PRS
	m := map[*cmn.BitArray]*cmn.BitArray{}
	cp := func(b *cmn.BitArray) *cmn.BitArray {
		if b == nil {
			return nil
		}
		if x, ok := m[b]; ok {
			return x
		}
		x := &cmn.BitArray{Bits: b.Bits, Elems: append([]uint64{}, b.Elems...)}
		m[b] = x
		return x
	}
	c.PRS.ProposalBlockParts = cp(ps.PRS.ProposalBlockParts)
	c.PRS.ProposalPOL = cp(ps.PRS.ProposalPOL)
	c.PRS.Prevotes = cp(ps.PRS.Prevotes)
	c.PRS.Precommits = cp(ps.PRS.Precommits)
	c.PRS.LastCommit = cp(ps.PRS.LastCommit)
	c.PRS.CatchupCommit = cp(ps.PRS.CatchupCommit)
	return c
}

func dumpPRS(p *cstypes.PeerRoundState) string {
	cls := map[*cmn.BitArray]int{}
	ref := func(b *cmn.BitArray) string {
		if b == nil {
			return "nil"
		}
		c, ok := cls[b]
		if !ok {
			c = len(cls)
			cls[b] = c
		}
		return fmt.Sprintf("#%d:%s", c, showBA(b))
	}
	parts, pol, pv, pc, lc, cc := ref(p.ProposalBlockParts), ref(p.ProposalPOL), ref(p.Prevotes), ref(p.Precommits), ref(p.LastCommit), ref(p.CatchupCommit)
	return fmt.Sprintf("h=%d r=%d s=%d p=%s pt=%d pbp=%s polr=%d pol=%s pv=%s pc=%s lcr=%d lc=%s ccr=%d cc=%s", p.Height, p.Round, p.Step, b01(p.Proposal),
		p.ProposalBlockPartsHeader.Total, parts, p.ProposalPOLRound, pol, pv, pc, p.LastCommitRound, lc, p.CatchupCommitRound, cc)
}

func hdr(total int, hash int) types.PartSetHeader {
	if total == 0 && hash == 0 {
		return types.PartSetHeader{}
	}
	return types.PartSetHeader{Total: total, Hash: []byte{byte(hash)}}
}

// tryPick runs PickVoteToSend once on a clone: outcome "none" | "vote:i" | "panic" (panic before any GetByIndex) |
// "panic:i" (GetByIndex(i) itself indexed out of range).
func tryPick(ps *cs.PeerState, f fakeVotes) (c *cs.PeerState, outcome string) {
	c = clonePS(ps)
	asked := notAsked
	f.asked = &asked
	defer func() {
		if r := recover(); r != nil {
			if asked != notAsked {
				outcome = fmt.Sprintf("panic:%d", asked)
			} else {
				outcome = "panic"
			}
		}
	}()
	v, ok := c.PickVoteToSend(&f)
	if !ok {
		return c, "none"
	}
	return c, fmt.Sprintf("vote:%d", v.ValidatorIndex)
}

func (e *exec) execPS(toks []string) string {
	if e.ps == nil {
		e.ps = cs.NewPeerState(NewCountPeer("unit", 0))
	}
	ps := e.ps
	arg := func(k string) string { v, _ := hx.Arg(toks, k); return v }
	I := func(k string) int { return int(hx.ArgI(toks, k, 0)) }
	h, _ := strconv.ParseUint(arg("h"), 10, 64)
	r, t, i := I("r"), byte(I("t")), I("i")
	switch toks[1] {
	case "nrs":
		ps.ApplyNewRoundStepMessage(&cs.NewRoundStepMessage{Height: h, Round: r, Step: cstypes.RoundStepType(I("s")), LastCommitRound: I("lcr")})
	case "commitstep":
		ps.ApplyCommitStepMessage(&cs.CommitStepMessage{Height: h, BlockPartsHeader: hdr(I("total"), I("hash")), BlockParts: parseBA(arg("b"))})
	case "pol":
		ps.ApplyProposalPOLMessage(&cs.ProposalPOLMessage{Height: h, ProposalPOLRound: r, ProposalPOL: parseBA(arg("b"))})
	case "hasvote":
		ps.ApplyHasVoteMessage(&cs.HasVoteMessage{Height: h, Round: r, Type: t, Index: i})
	case "vsb":
		ps.ApplyVoteSetBitsMessage(&cs.VoteSetBitsMessage{Height: h, Round: r, Type: t, Votes: parseBA(arg("b"))}, parseBA(arg("ours")))
	case "proposal":
		ps.SetHasProposal(&types.Proposal{Height: h, Round: r, BlockPartsHeader: hdr(I("total"), I("hash")), POLRound: I("polr")})
	case "part":
		ps.SetHasProposalBlockPart(h, r, i)
	case "ensure":
		ps.EnsureVoteBitArrays(h, I("n"))
	case "sethasvote":
		ps.SetHasVote(&types.Vote{Height: h, Round: r, Type: t, ValidatorIndex: i})
	case "onvote": // what Receive does for a VoteMessage with the node at height nh (vs validators, last commit of lcs)
		nh, _ := strconv.ParseUint(arg("nh"), 10, 64)
		ps.EnsureVoteBitArrays(nh, I("vs"))
		ps.EnsureVoteBitArrays(nh-1, I("lcs"))
		ps.SetHasVote(&types.Vote{Height: h, Round: r, Type: t, ValidatorIndex: i})
	case "initparts":
		ps.InitProposalBlockParts(hdr(I("total"), I("hash")))
	case "pick":
		f := fakeVotes{h: h, r: r, t: t, size: I("size"), commit: I("commit") != 0, ba: parseBA(arg("b"))}
		want := arg("choice")
		// a panic that depends on the random start (rand.Intn(n<=0) for the last word) shows within a few dozen tries
		for k := 0; k < 60; k++ {
			if _, o := tryPick(ps, f); o == "panic" {
				panic("PickVoteToSend panicked")
			}
		}
		for k := 0; k < 4000; k++ {
			c, o := tryPick(ps, f)
			switch {
			case o == "none" && want == "none":
				e.ps = c
				return "none | " + dumpPRS(&c.PRS)
			case o == "vote:"+want:
				e.ps = c
				return o + " | " + dumpPRS(&c.PRS)
			case o == "panic:"+want:
				panic("GetByIndex out of range")
			case o == "none" || want == "none":
				return "badchoice"
			}
		}
		return "badchoice"
	default:
		return "bad-op"
	}
	return dumpPRS(&ps.PRS)
}

// DiscoverPick runs PickVoteToSend once for the generator and returns the choice to put into the op line.
func discoverPick(ps *cs.PeerState, f fakeVotes) string {
	_, o := tryPick(ps, f)
	switch {
	case strings.HasPrefix(o, "vote:"):
		return o[5:]
	case strings.HasPrefix(o, "panic:"):
		return o[6:]
	}
	return "none"
}
