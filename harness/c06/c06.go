// Package c06: conservation of value over chains of blocks executed by the real application stack (account transfers,
// token transfers, account->confidential, confidential->confidential, confidential->account, tampered and replayed
// variants), with the native RingCT primitives replaced by the ideal functionality of the stub library.
package c06

import (
	"fmt"
	"strings"

	"lvharness/appsim"
	"lvharness/hx"
)

type P struct{}

func (P) Rule() string {
	return "each case is a chain of 3..8 blocks on the real LinkApplication (trie or kv mode) built from random ops over 3 accounts and 2 confidential wallets: " +
		"xfer, xfertok, ain (A->U), uu (U->U), ua (U->A) with correct, stale and future nonces, replays, spends of spent outputs, tampered confidential txs " +
		"(outpk, pseudo-out, fee, range proof, key image, ring signature) and lies about the spent amount (claim); after every block the balances of every account, " +
		"the foundation, the zero address, the pool as its owners see it and the total supply are printed and compared with the ledger model; " +
		"monitors: total native and token supply constant, tampered txs never admitted, fees debited = fees credited; " +
		"non-trivial = at least two blocks with a transaction and at least one confidential transaction committed; distinct = distinct op sequence"
}

type exec struct{ c appsim.ChainExec }

func (P) NewExec() hx.Executor { return &exec{} }

func (e *exec) Exec(op string) string { return e.c.Exec(op) }

func (P) Monitor(c *hx.CaseRun) []hx.Failure {
	var fs []hx.Failure
	supply, toks := "", ""
	claim := false
	for i, op := range c.Ops {
		ans := c.Impl[i]
		toks_ := hx.Tokens(op)
		if v, ok := hx.Arg(toks_, "claim"); ok && v != "" {
			claim = true
		}
		if t, ok := hx.Arg(toks_, "tamper"); ok && strings.Contains(ans, "admit=ok") {
			fs = append(fs, hx.Failure{Monitor: "tampered_tx_rejected", Class: "tampered-admitted:" + t, Site: "types/tx_utxo.go:CheckBasic",
				Msg: "a confidential transaction altered after construction (" + t + ") was admitted: " + op})
		}
		if d, ok := hx.Arg(toks_, "gpd"); ok && d != "0" && strings.Contains(ans, "admit=ok") {
			fs = append(fs, hx.Failure{Monitor: "fees_debited_equal_fees_credited", Class: "off-par-gas-price-admitted", Site: "types/transaction.go:IllegalGasLimitOrGasPrice",
				Msg: "a transaction whose gas price is not the chain's fixed price was admitted (the sender pays gas*price, the collector is credited gas*par): " + op})
		}
		if _, ok := hx.Arg(toks_, "hi"); ok && (strings.Contains(ans, "admit=ok") || strings.HasPrefix(ans, "id=")) {
			fs = append(fs, hx.Failure{Monitor: "amount_range_enforced", Class: "oversize-amount-accepted", Site: "types/tx_utxo.go:BigInt2Hash",
				Msg: "an account-side amount of 2^64 units or more was turned into a commitment scalar (it is reduced modulo the scalar's byte width while the full amount is credited): " + op + " -> " + ans})
		}
		if strings.HasPrefix(ans, "panic") || strings.Contains(ans, "=panic") {
			fs = append(fs, hx.Failure{Monitor: "no_panic", Class: "panic:" + ans, Site: "app", Msg: op + " -> " + ans})
		}
		if toks_[0] == "bal" {
			a := hx.Tokens(ans)
			s, _ := hx.Arg(a, "supply")
			t, _ := hx.Arg(a, "toksupply")
			if supply == "" {
				supply, toks = s, t
				continue
			}
			if s != supply {
				cls := "native-supply-changed"
				if claim {
					cls = "short-ring-pseudoout-unbound"
				}
				fs = append(fs, hx.Failure{Monitor: "native_supply_conserved", Class: cls, Site: "types/tx_utxo.go:checkRingctSignatures",
					Msg: fmt.Sprintf("total native supply (accounts + foundation + zero address + coinbase + confidential pool) changed from %s to %s units", supply, s)})
				supply = s
			}
			if t != toks {
				fs = append(fs, hx.Failure{Monitor: "token_supply_conserved", Class: "token-supply-changed", Site: "app/state_transition.go",
					Msg: fmt.Sprintf("total token supply changed from %s to %s units", toks, t)})
				toks = t
			}
		}
	}
	return fs
}

// Inflation is the minimised witness of the known finding (ring size 1: the pseudo-output commitment is unconstrained).
var Inflation = []string{
	"case tags=claim",
	"chain trie=1 accts=2 wallets=2 seed=7",
	"bal",
	"ain from=0 w=0 amount=100000000000 nonce=0",
	"block",
	"bal",
	"uu w=0 in=0 to=1 amount=90000000000000 claim=100000000000000",
	"block",
	"bal",
	"ua w=1 in=0 to=1 amount=80000000000000",
	"block",
	"bal",
}

func (P) Generate(g *hx.Gen) {
	g.Case("corpus: short-ring inflation", WithReceipts(Inflation), true)
	n := g.Pick(200, 1200)
	for k := 0; k < n; k++ {
		trie := g.Rng.Intn(2)
		ops := []string{hx.CaseOp(), fmt.Sprintf("chain trie=%d accts=3 wallets=2 seed=%d code=1", trie, 1+g.Rng.Intn(1000)), "bal"}
		nonce := []int{0, 0, 0}
		owned := []int{0, 0} // number of outputs each wallet has ever received (index space for in=)
		blocks := 3 + g.Rng.Intn(g.Pick(4, 6))
		conf := 0
		txBlocks := 0
		calls, priced := 0, 0
		for b := 0; b < blocks; b++ {
			ntx := g.Rng.Intn(5)
			pendingOuts := []int{0, 0}
			for t := 0; t < ntx; t++ {
				from := g.Rng.Intn(3)
				switch r := g.Rng.Intn(19); {
				case r < 3:
					ops = append(ops, fmt.Sprintf("xfer from=%d to=%d amount=%d nonce=%d", from, g.Rng.Intn(3), 1+g.Rng.Intn(100000), nonce[from]))
					nonce[from]++
				case r == 3:
					ops = append(ops, fmt.Sprintf("xfertok from=%d to=%d amount=%d nonce=%d", from, g.Rng.Intn(3), 1+g.Rng.Intn(1000), nonce[from]))
					nonce[from]++
				case r == 4: // stale or future nonce
					d := []int{-1, 2, 5}[g.Rng.Intn(3)]
					if nonce[from]+d >= 0 {
						ops = append(ops, fmt.Sprintf("xfer from=%d to=%d amount=%d nonce=%d", from, g.Rng.Intn(3), 1+g.Rng.Intn(1000), nonce[from]+d))
					}
				case r < 8:
					w := g.Rng.Intn(2)
					ops = append(ops, fmt.Sprintf("ain from=%d w=%d amount=%d nonce=%d", from, w, 20000000000+g.Rng.Intn(1000000)*10000, nonce[from]))
					nonce[from]++
					pendingOuts[w]++
					conf++
				case r < 11:
					w := g.Rng.Intn(2)
					if owned[w] > 0 {
						in := g.Rng.Intn(owned[w])
						ops = append(ops, fmt.Sprintf("uu w=%d in=%d to=%d amount=%d", w, in, g.Rng.Intn(2), 1+g.Rng.Intn(5000000000)))
						conf++
						pendingOuts[0]++ // at most: recipients are learnt after the scan; over-approximate the index space
						pendingOuts[1]++
					}
				case r < 13:
					w := g.Rng.Intn(2)
					if owned[w] > 0 {
						ops = append(ops, fmt.Sprintf("ua w=%d in=%d to=%d amount=%d", w, g.Rng.Intn(owned[w]), g.Rng.Intn(3), 1+g.Rng.Intn(5000000000)))
						conf++
					}
				case r == 13:
					w := g.Rng.Intn(2)
					if owned[w] > 0 {
						ops = append(ops, fmt.Sprintf("uu w=%d in=%d to=%d amount=%d tamper=%s", w, g.Rng.Intn(owned[w]), g.Rng.Intn(2), 1+g.Rng.Intn(1000000),
							[]string{"outpk", "pseudo", "fee", "proof", "image", "sig"}[g.Rng.Intn(6)]))
					}
				case r == 14:
					if tot := strings.Count(strings.Join(ops, "\n"), "\nxfer") + conf; tot > 0 {
						ops = append(ops, fmt.Sprintf("replay id=%d", g.Rng.Intn(tot)))
					}
				case r == 15 && g.Rng.Intn(2) == 0:
					ops = append(ops, "nonces")
				default:
					switch g.Rng.Intn(6) {
					case 0, 1: // contract call that succeeds (storage writes, log) or reverts (c=255)
						c := g.Rng.Intn(40)
						if g.Rng.Intn(3) == 0 {
							c = 255
						}
						ops = append(ops, fmt.Sprintf("call from=%d c=%d nonce=%d", from, c, nonce[from]))
						nonce[from]++
						calls++
					case 2: // a gas price other than the fixed one must be refused (sender would pay gas*price, the collector get gas*par)
						d := []int64{1, -1, 100000000000, 200000000000, -100000000000}[g.Rng.Intn(5)]
						if g.Rng.Intn(2) == 0 {
							ops = append(ops, fmt.Sprintf("xfer from=%d to=%d amount=%d nonce=%d gpd=%d", from, g.Rng.Intn(3), 1+g.Rng.Intn(1000), nonce[from], d))
						} else {
							ops = append(ops, fmt.Sprintf("call from=%d c=%d nonce=%d gpd=%d", from, g.Rng.Intn(40), nonce[from], d))
						}
						priced++
					case 3: // account-side amount beyond the 8 bytes of units the amount->scalar conversion supports
						w := g.Rng.Intn(2)
						if owned[w] > 0 {
							ops = append(ops, fmt.Sprintf("ua w=%d in=%d to=%d amount=%d hi=%d claim=300000000000", w, g.Rng.Intn(owned[w]), g.Rng.Intn(3), 1+g.Rng.Intn(100000),
								[]int{64, 65, 71, 72, 73, 80, 100}[g.Rng.Intn(7)]))
						}
					default: // spend a whole output to an account: a transaction without any confidential output
						w := g.Rng.Intn(2)
						if owned[w] > 0 {
							ops = append(ops, fmt.Sprintf("ua w=%d in=%d to=%d all=1", w, g.Rng.Intn(owned[w]), g.Rng.Intn(3)))
							conf++
						}
					}
				}
			}
			ops = append(ops, "block")
			if ntx > 0 {
				txBlocks++
			}
			owned[0] += pendingOuts[0]
			owned[1] += pendingOuts[1]
			ops = append(ops, "bal")
		}
		g.Count(fmt.Sprintf("mode:trie=%d", trie))
		if calls > 0 {
			g.Count("with-contract-calls")
		}
		if priced > 0 {
			g.Count("with-off-par-gas-price")
		}
		g.Case(fmt.Sprintf("chain trie=%d blocks=%d", trie, blocks), WithReceipts(ops), txBlocks >= 2 && conf > 0)
	}
}

// WithReceipts dry-runs the ops on a private executor and inserts after every block the `receipts` op carrying the gas
// used and status the implementation recorded (the ledger model takes them as given and checks its own prediction); contract
// calls are annotated with the gas the dry run charged them (used=, st=): the ledger model does not execute contracts, it
// takes the metered gas as an input and predicts balances, nonces and fees from it.
func WithReceipts(ops []string) []string {
	var ex appsim.ChainExec
	var out []string
	opOf := map[string]int{} // tx id -> index in out of the op that built it
	for _, op := range ops {
		ans := hx.SafeExec(execOf(&ex), op)
		out = append(out, op)
		at := hx.Tokens(ans)
		if id, ok := hx.Arg(at, "id"); ok && strings.HasPrefix(op, "call") {
			opOf[id] = len(out) - 1
		}
		if (strings.HasPrefix(op, "block") || strings.HasPrefix(op, "forceblock")) && strings.HasPrefix(ans, "h=") {
			h, _ := hx.Arg(at, "h")
			var hh uint64
			fmt.Sscan(h, &hh)
			rop := ex.ReceiptOp(hh)
			out = append(out, rop)
			ids, _ := hx.Arg(at, "txs")
			rt := hx.Tokens(rop)
			gas, _ := hx.Arg(rt, "gas")
			st, _ := hx.Arg(rt, "st")
			gs, ss := strings.Split(gas, ","), strings.Split(st, ",")
			for i, id := range strings.Split(ids, ",") {
				if k, ok := opOf[id]; ok && i < len(gs) && i < len(ss) && !strings.Contains(out[k], " used=") {
					out[k] += fmt.Sprintf(" used=%s st=%s", gs[i], ss[i])
				}
			}
		}
	}
	hx.SafeExec(execOf(&ex), "case")
	return out
}

type execRef struct{ c *appsim.ChainExec }

func (e execRef) Exec(op string) string { return e.c.Exec(op) }
func execOf(c *appsim.ChainExec) hx.Executor { return execRef{c} }
