// Package c06: conservation of value over chains of blocks executed by the real application stack (account transfers,
// token transfers, account->confidential, confidential->confidential, confidential->account, tampered and replayed
// variants), with the native RingCT primitives replaced by the ideal functionality of the stub library.
package c06

import (
	"fmt"
	"strings"

	"lvharness/appsim"
	"lvharness/hx"
)

type P struct{}

func (P) Rule() string {
	return "each case is a chain of 3..8 blocks on the real LinkApplication (trie or kv mode) built from random ops over 3 accounts and 2 confidential wallets: " +
		"xfer, xfertok, ain (A->U), uu (U->U), ua (U->A) with correct, stale and future nonces, replays, spends of spent outputs, tampered confidential txs " +
		"(outpk, pseudo-out, fee, range proof, key image, ring signature) and lies about the spent amount (claim); after every block the balances of every account, " +
		"the foundation, the zero address, the pool as its owners see it and the total supply are printed and compared with the ledger model; " +
		"monitors: total native and token supply constant, tampered txs never admitted, fees debited = fees credited; " +
		"non-trivial = at least two blocks with a transaction and at least one confidential transaction committed; distinct = distinct op sequence"
}

type exec struct{ c appsim.ChainExec }

func (P) NewExec() hx.Executor { return &exec{} }

func (e *exec) Exec(op string) string { return e.c.Exec(op) }

func (P) Monitor(c *hx.CaseRun) []hx.Failure {
	var fs []hx.Failure
	supply, toks := "", ""
	claim := false
	for i, op := range c.Ops {
		ans := c.Impl[i]
		toks_ := hx.Tokens(op)
		if v, ok := hx.Arg(toks_, "claim"); ok && v != "" {
			claim = true
		}
		if t, ok := hx.Arg(toks_, "tamper"); ok && strings.Contains(ans, "admit=ok") {
			fs = append(fs, hx.Failure{Monitor: "tampered_tx_rejected", Class: "tampered-admitted:" + t, Site: "types/tx_utxo.go:CheckBasic",
				Msg: "a confidential transaction altered after construction (" + t + ") was admitted: " + op})
		}
		if strings.HasPrefix(ans, "panic") || strings.Contains(ans, "=panic") {
			fs = append(fs, hx.Failure{Monitor: "no_panic", Class: "panic:" + ans, Site: "app", Msg: op + " -> " + ans})
		}
		if toks_[0] == "bal" {
			a := hx.Tokens(ans)
			s, _ := hx.Arg(a, "supply")
			t, _ := hx.Arg(a, "toksupply")
			if supply == "" {
				supply, toks = s, t
				continue
			}
			if s != supply {
				cls := "native-supply-changed"
				if claim {
					cls = "short-ring-pseudoout-unbound"
				}
				fs = append(fs, hx.Failure{Monitor: "native_supply_conserved", Class: cls, Site: "types/tx_utxo.go:checkRingctSignatures",
					Msg: fmt.Sprintf("total native supply (accounts + foundation + zero address + coinbase + confidential pool) changed from %s to %s units", supply, s)})
				supply = s
			}
			if t != toks {
				fs = append(fs, hx.Failure{Monitor: "token_supply_conserved", Class: "token-supply-changed", Site: "app/state_transition.go",
					Msg: fmt.Sprintf("total token supply changed from %s to %s units", toks, t)})
				toks = t
			}
		}
	}
	return fs
}

// Inflation is the minimised witness of the known finding (ring size 1: the pseudo-output commitment is unconstrained).
var Inflation = []string{
	"case tags=claim",
	"chain trie=1 accts=2 wallets=2 seed=7",
	"bal",
	"ain from=0 w=0 amount=100000000000 nonce=0",
	"block",
	"bal",
	"uu w=0 in=0 to=1 amount=90000000000000 claim=100000000000000",
	"block",
	"bal",
	"ua w=1 in=0 to=1 amount=80000000000000",
	"block",
	"bal",
}

func (P) Generate(g *hx.Gen) {
	g.Case("corpus: short-ring inflation", WithReceipts(Inflation), true)
	n := g.Pick(200, 1200)
	for k := 0; k < n; k++ {
		trie := g.Rng.Intn(2)
		ops := []string{hx.CaseOp(), fmt.Sprintf("chain trie=%d accts=3 wallets=2 seed=%d", trie, 1+g.Rng.Intn(1000)), "bal"}
		nonce := []int{0, 0, 0}
		owned := []int{0, 0} // number of outputs each wallet has ever received (index space for in=)
		blocks := 3 + g.Rng.Intn(g.Pick(4, 6))
		conf := 0
		txBlocks := 0
		for b := 0; b < blocks; b++ {
			ntx := g.Rng.Intn(5)
			pendingOuts := []int{0, 0}
			for t := 0; t < ntx; t++ {
				from := g.Rng.Intn(3)
				switch r := g.Rng.Intn(16); {
				case r < 3:
					ops = append(ops, fmt.Sprintf("xfer from=%d to=%d amount=%d nonce=%d", from, g.Rng.Intn(3), 1+g.Rng.Intn(100000), nonce[from]))
					nonce[from]++
				case r == 3:
					ops = append(ops, fmt.Sprintf("xfertok from=%d to=%d amount=%d nonce=%d", from, g.Rng.Intn(3), 1+g.Rng.Intn(1000), nonce[from]))
					nonce[from]++
				case r == 4: // stale or future nonce
					d := []int{-1, 2, 5}[g.Rng.Intn(3)]
					if nonce[from]+d >= 0 {
						ops = append(ops, fmt.Sprintf("xfer from=%d to=%d amount=%d nonce=%d", from, g.Rng.Intn(3), 1+g.Rng.Intn(1000), nonce[from]+d))
					}
				case r < 8:
					w := g.Rng.Intn(2)
					ops = append(ops, fmt.Sprintf("ain from=%d w=%d amount=%d nonce=%d", from, w, 20000000000+g.Rng.Intn(1000000)*10000, nonce[from]))
					nonce[from]++
					pendingOuts[w]++
					conf++
				case r < 11:
					w := g.Rng.Intn(2)
					if owned[w] > 0 {
						in := g.Rng.Intn(owned[w])
						ops = append(ops, fmt.Sprintf("uu w=%d in=%d to=%d amount=%d", w, in, g.Rng.Intn(2), 1+g.Rng.Intn(5000000000)))
						conf++
						pendingOuts[0]++ // at most: recipients are learnt after the scan; over-approximate the index space
						pendingOuts[1]++
					}
				case r < 13:
					w := g.Rng.Intn(2)
					if owned[w] > 0 {
						ops = append(ops, fmt.Sprintf("ua w=%d in=%d to=%d amount=%d", w, g.Rng.Intn(owned[w]), g.Rng.Intn(3), 1+g.Rng.Intn(5000000000)))
						conf++
					}
				case r == 13:
					w := g.Rng.Intn(2)
					if owned[w] > 0 {
						ops = append(ops, fmt.Sprintf("uu w=%d in=%d to=%d amount=%d tamper=%s", w, g.Rng.Intn(owned[w]), g.Rng.Intn(2), 1+g.Rng.Intn(1000000),
							[]string{"outpk", "pseudo", "fee", "proof", "image", "sig"}[g.Rng.Intn(6)]))
					}
				case r == 14:
					if tot := strings.Count(strings.Join(ops, "\n"), "\nxfer") + conf; tot > 0 {
						ops = append(ops, fmt.Sprintf("replay id=%d", g.Rng.Intn(tot)))
					}
				default:
					ops = append(ops, "nonces")
				}
			}
			ops = append(ops, "block")
			if ntx > 0 {
				txBlocks++
			}
			owned[0] += pendingOuts[0]
			owned[1] += pendingOuts[1]
			ops = append(ops, "bal")
		}
		g.Count(fmt.Sprintf("mode:trie=%d", trie))
		g.Case(fmt.Sprintf("chain trie=%d blocks=%d", trie, blocks), WithReceipts(ops), txBlocks >= 2 && conf > 0)
	}
}

// WithReceipts dry-runs the ops on a private executor and inserts after every block the `receipts` op carrying the gas
// used and status the implementation recorded (the ledger model takes them as given and checks its own prediction).
func WithReceipts(ops []string) []string {
	var ex appsim.ChainExec
	var out []string
	for _, op := range ops {
		ans := hx.SafeExec(execOf(&ex), op)
		out = append(out, op)
		if (strings.HasPrefix(op, "block") || strings.HasPrefix(op, "forceblock")) && strings.HasPrefix(ans, "h=") {
			h, _ := hx.Arg(hx.Tokens(ans), "h")
			var hh uint64
			fmt.Sscan(h, &hh)
			out = append(out, ex.ReceiptOp(hh))
		}
	}
	hx.SafeExec(execOf(&ex), "case")
	return out
}

type execRef struct{ c *appsim.ChainExec }

func (e execRef) Exec(op string) string { return e.c.Exec(op) }
func execOf(c *appsim.ChainExec) hx.Executor { return execRef{c} }
