// Package c06: conservation of value over chains of blocks executed by the real application stack (account transfers,
// token transfers, account->confidential, confidential->confidential, confidential->account, tampered and replayed
// variants), with the native RingCT primitives replaced by the ideal functionality of the stub library.
package c06

import (
	"fmt"
	"strings"

	"lvharness/appsim"
	"lvharness/hx"
)

type P struct{}

func (P) Rule() string {
	return "each case is a chain of 3..8 blocks on the real LinkApplication (trie or kv mode) built from random ops over 3 accounts and 2 confidential wallets: " +
		"xfer, xfertok, ain (A->U), uu (U->U), ua (U->A) with correct, stale and future nonces, replays, spends of spent outputs, tampered confidential txs " +
		"(outpk, pseudo-out, fee, range proof, key image, ring signature) and lies about the spent amount (claim); after every block the balances of every account, " +
		"the foundation, the zero address, the pool as its owners see it and the total supply are printed and compared with the ledger model; " +
		"a second stream forces blocks a Byzantine proposer can assemble that carry VALUE-UNDERFUNDED account transfers (xfer / xfertok whose gas is funded but whose value is not): alone, mixed with valid " +
		"transactions in both orders, followed in the same block by the sender's next nonce, twice the same, then replayed through the mempool and forced again, also after a restart, and GAS-underfunded ones " +
		"(block invalid): the real Process commits the former with a FAILED receipt (status 0, gas 0, nonce bumped, nothing moves) — balances, foundation, supply, nonces and the receipts are compared with the " +
		"receipt-accurate ledger model (Model.LedgerR); " +
		"monitors: total native and token supply constant, tampered txs never admitted, fees debited = fees credited, a failed receipt charges nothing; " +
		"non-trivial = at least two blocks with a transaction and at least one confidential transaction committed; distinct = distinct op sequence"
}

type exec struct{ c appsim.ChainExec }

func (P) NewExec() hx.Executor { return &exec{} }

func (e *exec) Exec(op string) string { return e.c.Exec(op) }

func (P) Monitor(c *hx.CaseRun) []hx.Failure {
	var fs []hx.Failure
	supply, toks := "", ""
	claim := false
	allFailed, prevBal := false, ""
	for i, op := range c.Ops {
		ans := c.Impl[i]
		toks_ := hx.Tokens(op)
		if v, ok := hx.Arg(toks_, "claim"); ok && v != "" {
			claim = true
		}
		if t, ok := hx.Arg(toks_, "tamper"); ok && strings.Contains(ans, "admit=ok") {
			fs = append(fs, hx.Failure{Monitor: "tampered_tx_rejected", Class: "tampered-admitted:" + t, Site: "types/tx_utxo.go:CheckBasic",
				Msg: "a confidential transaction altered after construction (" + t + ") was admitted: " + op})
		}
		if d, ok := hx.Arg(toks_, "gpd"); ok && d != "0" && strings.Contains(ans, "admit=ok") {
			fs = append(fs, hx.Failure{Monitor: "fees_debited_equal_fees_credited", Class: "off-par-gas-price-admitted", Site: "types/transaction.go:IllegalGasLimitOrGasPrice",
				Msg: "a transaction whose gas price is not the chain's fixed price was admitted (the sender pays gas*price, the collector is credited gas*par): " + op})
		}
		if r, ok := hx.Arg(toks_, "rem"); ok && r != "0" && strings.Contains(ans, "admit=ok") {
			fs = append(fs, hx.Failure{Monitor: "amount_range_enforced", Class: "sub-unit-account-output-admitted", Site: "types/tx_utxo.go:checkTxSemantic",
				Msg: "an account output that is not a whole number of commitment units was admitted (its commitment covers amount/unit, the remainder is credited out of nothing): " + op})
		}
		if _, ok := hx.Arg(toks_, "hi"); ok && (strings.Contains(ans, "admit=ok") || strings.HasPrefix(ans, "id=")) {
			fs = append(fs, hx.Failure{Monitor: "amount_range_enforced", Class: "oversize-amount-accepted", Site: "types/tx_utxo.go:BigInt2Hash",
				Msg: "an account-side amount of 2^64 units or more was turned into a commitment scalar (it is reduced modulo the scalar's byte width while the full amount is credited): " + op + " -> " + ans})
		}
		// (a forced block that does not execute is refused with propose=panic: that is the expected fate of an invalid Byzantine block)
		if strings.HasPrefix(ans, "panic") || (strings.Contains(ans, "=panic") && toks_[0] != "forceblock") {
			fs = append(fs, hx.Failure{Monitor: "no_panic", Class: "panic:" + ans, Site: "app", Msg: op + " -> " + ans})
		}
		if toks_[0] == "receipts" {
			// the op line carries what the implementation recorded; a block all of whose receipts failed must move nothing
			if v, ok := hx.Arg(toks_, "st"); ok && v != "" {
				allFailed = true
				for _, st := range hx.SplitComma(v) {
					if st != "0" {
						allFailed = false
					}
				}
				// (a reverted contract call also has status 0 but pays the gas it burnt: only gas-0 failures move nothing)
				gv, _ := hx.Arg(toks_, "gas")
				for _, gs := range hx.SplitComma(gv) {
					if gs != "0" {
						allFailed = false
					}
				}
			}
		}
		if toks_[0] == "bal" {
			if allFailed && prevBal != "" && ans != prevBal {
				fs = append(fs, hx.Failure{Monitor: "failed_receipt_charges_nothing", Class: "failed-receipt-moved-value", Site: "app/state_transition.go:refundGas",
					Msg: "a block whose receipts all failed changed balances: " + prevBal + " -> " + ans})
			}
			allFailed = false
			prevBal = ans
			a := hx.Tokens(ans)
			s, _ := hx.Arg(a, "supply")
			t, _ := hx.Arg(a, "toksupply")
			if supply == "" {
				supply, toks = s, t
				continue
			}
			if s != supply {
				cls := "native-supply-changed"
				if claim {
					cls = "short-ring-pseudoout-unbound"
				}
				fs = append(fs, hx.Failure{Monitor: "native_supply_conserved", Class: cls, Site: "types/tx_utxo.go:checkRingctSignatures",
					Msg: fmt.Sprintf("total native supply (accounts + foundation + zero address + coinbase + confidential pool) changed from %s to %s units", supply, s)})
				supply = s
			}
			if t != toks {
				fs = append(fs, hx.Failure{Monitor: "token_supply_conserved", Class: "token-supply-changed", Site: "app/state_transition.go",
					Msg: fmt.Sprintf("total token supply changed from %s to %s units", toks, t)})
				toks = t
			}
		}
	}
	return fs
}

// Inflation is the minimised witness of the known finding (ring size 1: the pseudo-output commitment is unconstrained).
var Inflation = []string{
	"case tags=claim",
	"chain trie=1 accts=2 wallets=2 seed=7",
	"bal",
	"ain from=0 w=0 amount=100000000000 nonce=0",
	"block",
	"bal",
	"uu w=0 in=0 to=1 amount=90000000000000 claim=100000000000000",
	"block",
	"bal",
	"ua w=1 in=0 to=1 amount=80000000000000",
	"block",
	"bal",
}

// Underfunded is the witness of the failed-receipt rule: a forced block with a transfer whose value is not funded (fee
// funded), a token transfer whose token value is not funded, and a funded transfer: the block commits, two receipts fail,
// all three nonces advance, only the third transaction moves value and pays a fee; the failed ones are dead afterwards.
var Underfunded = []string{
	"case tags=underfunded",
	"chain trie=1 accts=3 wallets=2 seed=7 bal=100000000 tbal=1000",
	"bal",
	"xfer from=0 to=1 amount=2000000000 nonce=0",
	"xfertok from=1 to=2 amount=5000 nonce=0",
	"xfer from=2 to=1 amount=7 nonce=0",
	"forceblock ids=0,1,2",
	"bal",
	"nonces",
	"forceblock ids=0",
	"replay id=0",
	"block",
	"forceblock ids=1,1",
	"bal",
	"nonces",
}

// UnderfundedCase builds a chain with small balances (10^8 units, 1000 token units) in which forced blocks carry
// value-underfunded account transfers in every arrangement the property lists.  Ids are exact: every xfer / xfertok op
// registers a transaction, admitted or not.
func UnderfundedCase(g *hx.Gen) []string {
	r := g.Rng
	ops := []string{hx.CaseOp("underfunded"), fmt.Sprintf("chain trie=%d accts=4 wallets=2 seed=%d bal=100000000 tbal=1000", r.Intn(2), 1+r.Intn(1000)), "bal"}
	nonce := []int{0, 0, 0, 0}
	drained := false // account 3 receives nothing and is used once: swept down to 1 unit, then it cannot even pay gas
	id := 0
	add := func(f string, a ...interface{}) { ops = append(ops, fmt.Sprintf(f, a...)) }
	under := func(from int, n int) int { // value not funded, gas funded (balance stays >= 5*10^6 units in this stream)
		if r.Intn(3) == 0 {
			add("xfertok from=%d to=%d amount=%d nonce=%d", from, r.Intn(3), 1001+r.Intn(100000), n)
		} else {
			add("xfer from=%d to=%d amount=%d nonce=%d", from, r.Intn(3), 100000000+r.Intn(2000000000), n)
		}
		id++
		return id - 1
	}
	valid := func(from int, n int) int {
		add("xfer from=%d to=%d amount=%d nonce=%d", from, r.Intn(3), 1+r.Intn(1000), n)
		id++
		return id - 1
	}
	var dead []int
	rounds := 2 + r.Intn(g.Pick(3, 5))
	for k := 0; k < rounds; k++ {
		a := r.Intn(3)
		switch v := r.Intn(7); v {
		case 0: // alone
			g.Count("underfunded:alone")
			u := under(a, nonce[a])
			add("forceblock ids=%d", u)
			nonce[a]++
			dead = append(dead, u)
		case 1: // mixed with a valid transaction of another sender, both orders
			g.Count("underfunded:mixed")
			c := (a + 1 + r.Intn(2)) % 3
			u := under(a, nonce[a])
			w := valid(c, nonce[c])
			if r.Intn(2) == 0 {
				add("forceblock ids=%d,%d", u, w)
			} else {
				add("forceblock ids=%d,%d", w, u)
			}
			nonce[a]++
			nonce[c]++
			dead = append(dead, u)
		case 2: // the sender's next nonce in the same block: it runs because the failed receipt consumed the nonce
			g.Count("underfunded:then-next-nonce")
			u := under(a, nonce[a])
			w := valid(a, nonce[a]+1)
			if r.Intn(3) == 0 {
				add("forceblock ids=%d,%d", w, u) // wrong order: invalid
			}
			add("forceblock ids=%d,%d", u, w)
			nonce[a] += 2
			dead = append(dead, u)
		case 3: // twice the same in one block (invalid), then once
			g.Count("underfunded:twice")
			u := under(a, nonce[a])
			add("forceblock ids=%d,%d", u, u)
			add("forceblock ids=%d", u)
			nonce[a]++
			dead = append(dead, u)
		case 4: // two different underfunded transactions of one sender with the same nonce: only one can be consumed
			g.Count("underfunded:same-nonce-pair")
			u1 := under(a, nonce[a])
			u2 := under(a, nonce[a])
			add("forceblock ids=%d,%d", u1, u2)
			add("forceblock ids=%d", u2)
			add("forceblock ids=%d", u1)
			nonce[a]++
			dead = append(dead, u1, u2)
		case 5: // gas not funded: sweep account 3 down to 1 unit, then force a transfer of it: the block is INVALID (buyGas), no failed receipt
			if drained {
				continue
			}
			drained = true
			g.Count("underfunded:gas")
			add("xfer from=3 to=%d amount=94999999 nonce=0", r.Intn(3)) // cost 94999999 + fee 5000000 = 99999999
			id++
			add("block")
			nonce[3] = 1
			u := under(3, 1)
			add("forceblock ids=%d", u)
			w := valid(3, 1)
			add("forceblock ids=%d", w)
			_ = u
		default: // replay the dead ones through the mempool and force them again, possibly after a restart
			if len(dead) > 0 {
				g.Count("underfunded:replay-dead")
				if r.Intn(3) == 0 {
					add("restart")
				}
				d := dead[r.Intn(len(dead))]
				add("replay id=%d", d)
				add("block")
				add("forceblock ids=%d", d)
				if len(dead) > 1 {
					add("forceblock ids=%d,%d", dead[r.Intn(len(dead))], d)
				}
			}
		}
		add("bal")
		add("nonces")
	}
	return ops
}

func (P) Generate(g *hx.Gen) {
	g.Case("corpus: short-ring inflation", WithReceipts(Inflation), true)
	g.Case("corpus: forced block with value-underfunded transfers (failed receipts)", WithReceipts(Underfunded), true)
	for k, nu := 0, g.Pick(40, 400); k < nu; k++ {
		g.Case("underfunded forced blocks", WithReceipts(UnderfundedCase(g)), true)
	}
	n := g.Pick(200, 1200)
	for k := 0; k < n; k++ {
		trie := g.Rng.Intn(2)
		ops := []string{hx.CaseOp(), fmt.Sprintf("chain trie=%d accts=3 wallets=2 seed=%d code=1", trie, 1+g.Rng.Intn(1000)), "bal"}
		nonce := []int{0, 0, 0}
		owned := []int{0, 0} // number of outputs each wallet has ever received (index space for in=)
		blocks := 3 + g.Rng.Intn(g.Pick(4, 6))
		conf := 0
		txBlocks := 0
		calls, priced, vcalls := 0, 0, 0
		for b := 0; b < blocks; b++ {
			ntx := g.Rng.Intn(5)
			pendingOuts := []int{0, 0}
			for t := 0; t < ntx; t++ {
				from := g.Rng.Intn(3)
				switch r := g.Rng.Intn(19); {
				case r < 3:
					ops = append(ops, fmt.Sprintf("xfer from=%d to=%d amount=%d nonce=%d", from, g.Rng.Intn(3), 1+g.Rng.Intn(100000), nonce[from]))
					nonce[from]++
				case r == 3:
					ops = append(ops, fmt.Sprintf("xfertok from=%d to=%d amount=%d nonce=%d", from, g.Rng.Intn(3), 1+g.Rng.Intn(1000), nonce[from]))
					nonce[from]++
				case r == 4: // stale or future nonce
					d := []int{-1, 2, 5}[g.Rng.Intn(3)]
					if nonce[from]+d >= 0 {
						ops = append(ops, fmt.Sprintf("xfer from=%d to=%d amount=%d nonce=%d", from, g.Rng.Intn(3), 1+g.Rng.Intn(1000), nonce[from]+d))
					}
				case r < 8:
					w := g.Rng.Intn(2)
					ops = append(ops, fmt.Sprintf("ain from=%d w=%d amount=%d nonce=%d", from, w, 20000000000+g.Rng.Intn(1000000)*10000, nonce[from]))
					nonce[from]++
					pendingOuts[w]++
					conf++
				case r < 11:
					w := g.Rng.Intn(2)
					if owned[w] > 0 {
						in := g.Rng.Intn(owned[w])
						ops = append(ops, fmt.Sprintf("uu w=%d in=%d to=%d amount=%d", w, in, g.Rng.Intn(2), 1+g.Rng.Intn(5000000000)))
						conf++
						pendingOuts[0]++ // at most: recipients are learnt after the scan; over-approximate the index space
						pendingOuts[1]++
					}
				case r < 13:
					w := g.Rng.Intn(2)
					if owned[w] > 0 {
						ops = append(ops, fmt.Sprintf("ua w=%d in=%d to=%d amount=%d", w, g.Rng.Intn(owned[w]), g.Rng.Intn(3), 1+g.Rng.Intn(5000000000)))
						conf++
					}
				case r == 13:
					w := g.Rng.Intn(2)
					if owned[w] > 0 {
						ops = append(ops, fmt.Sprintf("uu w=%d in=%d to=%d amount=%d tamper=%s", w, g.Rng.Intn(owned[w]), g.Rng.Intn(2), 1+g.Rng.Intn(1000000),
							[]string{"outpk", "pseudo", "fee", "proof", "image", "sig"}[g.Rng.Intn(6)]))
					}
				case r == 14:
					if tot := strings.Count(strings.Join(ops, "\n"), "\nxfer") + conf; tot > 0 {
						ops = append(ops, fmt.Sprintf("replay id=%d", g.Rng.Intn(tot)))
					}
				case r == 15 && g.Rng.Intn(2) == 0:
					ops = append(ops, "nonces")
				default:
					switch g.Rng.Intn(7) {
					case 0, 1: // contract call that succeeds (storage writes, log) or reverts (c=255)
						c := g.Rng.Intn(40)
						if g.Rng.Intn(3) == 0 {
							c = 255
						}
						op := fmt.Sprintf("call from=%d c=%d nonce=%d", from, c, nonce[from])
						if g.Rng.Intn(3) == 0 {
							// a call that carries value: the value stays with the contract when it succeeds and with the sender when it
							// fails; half of them with a gas limit that covers the value-proportional transfer gas (so the
							// transaction is admitted) but not transfer gas + intrinsic gas (so it fails before anything runs)
							v := int64(1 + g.Rng.Intn(5000))
							op += fmt.Sprintf(" value=%d", v)
							if g.Rng.Intn(2) == 0 {
								op += fmt.Sprintf(" gas=%d", appsim.CallTransferGas(v)+uint64(g.Rng.Int63n(int64(appsim.CallIntrinsicGas()))))
							}
							vcalls++
						}
						ops = append(ops, op)
						nonce[from]++
						calls++
					case 2: // a gas price other than the fixed one must be refused (sender would pay gas*price, the collector get gas*par)
						d := []int64{1, -1, 100000000000, 200000000000, -100000000000}[g.Rng.Intn(5)]
						if g.Rng.Intn(2) == 0 {
							ops = append(ops, fmt.Sprintf("xfer from=%d to=%d amount=%d nonce=%d gpd=%d", from, g.Rng.Intn(3), 1+g.Rng.Intn(1000), nonce[from], d))
						} else {
							ops = append(ops, fmt.Sprintf("call from=%d c=%d nonce=%d gpd=%d", from, g.Rng.Intn(40), nonce[from], d))
						}
						priced++
					case 3: // account-side amount beyond the 8 bytes of units the amount->scalar conversion supports
						w := g.Rng.Intn(2)
						if owned[w] > 0 {
							ops = append(ops, fmt.Sprintf("ua w=%d in=%d to=%d amount=%d hi=%d claim=300000000000", w, g.Rng.Intn(owned[w]), g.Rng.Intn(3), 1+g.Rng.Intn(100000),
								[]int{64, 65, 71, 72, 73, 80, 100}[g.Rng.Intn(7)]))
						}
					case 4: // an account output that is not a whole number of commitment units (the commitment covers amount/unit)
						w := g.Rng.Intn(2)
						if owned[w] > 0 {
							ops = append(ops, fmt.Sprintf("ua w=%d in=%d to=%d amount=%d rem=%d", w, g.Rng.Intn(owned[w]), g.Rng.Intn(3), 1+g.Rng.Intn(100000),
								[]int64{1, 5, 9999999999, 5000000000}[g.Rng.Intn(4)]))
						}
					default: // spend a whole output to an account: a transaction without any confidential output
						w := g.Rng.Intn(2)
						if owned[w] > 0 {
							ops = append(ops, fmt.Sprintf("ua w=%d in=%d to=%d all=1", w, g.Rng.Intn(owned[w]), g.Rng.Intn(3)))
							conf++
						}
					}
				}
			}
			ops = append(ops, "block")
			if ntx > 0 {
				txBlocks++
			}
			owned[0] += pendingOuts[0]
			owned[1] += pendingOuts[1]
			ops = append(ops, "bal")
		}
		g.Count(fmt.Sprintf("mode:trie=%d", trie))
		if vcalls > 0 {
			g.Count("with-value-carrying-calls")
		}
		if calls > 0 {
			g.Count("with-contract-calls")
		}
		if priced > 0 {
			g.Count("with-off-par-gas-price")
		}
		g.Case(fmt.Sprintf("chain trie=%d blocks=%d", trie, blocks), WithReceipts(ops), txBlocks >= 2 && conf > 0)
	}
}

// WithReceipts dry-runs the ops on a private executor and inserts after every block the `receipts` op carrying the gas
// used and status the implementation recorded (the ledger model takes them as given and checks its own prediction); contract
// calls are annotated with the gas the dry run charged them (used=, st=): the ledger model does not execute contracts, it
// takes the metered gas as an input and predicts balances, nonces and fees from it.
func WithReceipts(ops []string) []string {
	var ex appsim.ChainExec
	var out []string
	opOf := map[string]int{} // tx id -> index in out of the op that built it
	for _, op := range ops {
		ans := hx.SafeExec(execOf(&ex), op)
		out = append(out, op)
		at := hx.Tokens(ans)
		if id, ok := hx.Arg(at, "id"); ok && strings.HasPrefix(op, "call") {
			opOf[id] = len(out) - 1
		}
		if (strings.HasPrefix(op, "block") || strings.HasPrefix(op, "forceblock")) && strings.HasPrefix(ans, "h=") {
			h, _ := hx.Arg(at, "h")
			var hh uint64
			fmt.Sscan(h, &hh)
			rop := ex.ReceiptOp(hh)
			out = append(out, rop)
			ids, _ := hx.Arg(at, "txs")
			rt := hx.Tokens(rop)
			gas, _ := hx.Arg(rt, "gas")
			st, _ := hx.Arg(rt, "st")
			gs, ss := strings.Split(gas, ","), strings.Split(st, ",")
			for i, id := range strings.Split(ids, ",") {
				if k, ok := opOf[id]; ok && i < len(gs) && i < len(ss) && !strings.Contains(out[k], " used=") {
					out[k] += fmt.Sprintf(" used=%s st=%s", gs[i], ss[i])
				}
			}
		}
	}
	hx.SafeExec(execOf(&ex), "case")
	return out
}

type execRef struct{ c *appsim.ChainExec }

func (e execRef) Exec(op string) string { return e.c.Exec(op) }
func execOf(c *appsim.ChainExec) hx.Executor { return execRef{c} }
